/-
  Adj-RIB-In refinement (C02): the entry list maintained by AdjRib.Update refines the abstract map
  "latest un-withdrawn announcement per (prefix, path-id) of the current session", and the
  incrementally maintained `accepted` counter equals the number of stored non-rejected entries.
-/
import Model.World
namespace World
open BestPath

inductive AdjOp where
  | ann (r : Cand) (rejected : Bool)
  | wd (r : Cand)          -- only pfx and pathId are read
  | drop                   -- session ended: AdjRib.Drop
deriving Repr

def adjStep (a : Adj) : AdjOp → Adj
  | .ann r rej => (adjAnnounce a r rej).1
  | .wd r => adjWithdraw a r
  | .drop => {}

/-- the abstract Adj-RIB-In: (prefix, path-id) ↦ stored route and its rejected mark -/
abbrev AdjSpec := Nat → Nat → Option AdjEntry

/-- the specification: an announcement replaces the entry of its key (keeping the timestamp of
    an identical predecessor, as AdjRib.Update does), a withdrawal removes it, a session end
    empties the table -/
def adjSpecStep (s : AdjSpec) : AdjOp → AdjSpec
  | .ann r rej => fun p k =>
      if p = r.pfx ∧ k = r.pathId then
        some ⟨(match s r.pfx r.pathId with
               | some old => if pathEqual old.r r then { r with ts := old.r.ts } else r
               | none => r), rej⟩
      else s p k
  | .wd r => fun p k => if p = r.pfx ∧ k = r.pathId then none else s p k
  | .drop => fun _ _ => none

/-- abstraction function -/
def Adj.abs (a : Adj) : AdjSpec := fun p k =>
  a.entries.find? (fun e => e.r.pfx == p && e.r.pathId == k)

/-- at most one entry per (prefix, path-id) -/
def Adj.Nodup (a : Adj) : Prop := a.entries.Pairwise (fun x y => adjKeyEq x.r y.r = false)

def Adj.countOk (a : Adj) : Prop :=
  a.accepted = ((a.entries.filter (fun e => !e.rejected)).length : Int)

/-- every stored entry is filed under its own key -/
theorem find_key (l : List AdjEntry) (r : Cand) (e : AdjEntry)
    (h : l.find? (fun e => adjKeyEq e.r r) = some e) : e.r.pfx = r.pfx ∧ e.r.pathId = r.pathId := by
  have := List.find?_some h
  simp [adjKeyEq] at this
  exact this

theorem adjKeyEq_iff (a b : Cand) : adjKeyEq a b = true ↔ (a.pfx = b.pfx ∧ a.pathId = b.pathId) := by
  simp [adjKeyEq]

theorem abs_eq_find (a : Adj) (r : Cand) :
    a.abs r.pfx r.pathId = a.entries.find? (fun e => adjKeyEq e.r r) := by
  unfold Adj.abs adjKeyEq
  rfl

theorem keyEq_congr (a a' b b' : Cand) (h1 : a.pfx = a'.pfx) (h2 : a.pathId = a'.pathId)
    (h3 : b.pfx = b'.pfx) (h4 : b.pathId = b'.pathId) : adjKeyEq a b = adjKeyEq a' b' := by
  unfold adjKeyEq; rw [h1, h2, h3, h4]

theorem keyb_of_adjKeyEq (x r : Cand) : (x.pfx == r.pfx && x.pathId == r.pathId) = adjKeyEq x r := rfl

/-- a different key: the two boolean key tests cannot both succeed -/
theorem key_other (x r : Cand) (p k : Nat) (hx : adjKeyEq x r = true) (hpk : ¬(p = r.pfx ∧ k = r.pathId)) :
    (x.pfx == p && x.pathId == k) = false := by
  have := (adjKeyEq_iff _ _).mp hx
  rw [this.1, this.2]
  cases h1 : (r.pfx == p) <;> cases h2 : (r.pathId == k) <;> simp_all

/-- lookup in a list where the entries of one key were rewritten -/
theorem find_map_key (l : List AdjEntry) (r : Cand) (new : AdjEntry)
    (hnew : adjKeyEq new.r r = true) (p k : Nat) :
    (l.map (fun e => if adjKeyEq e.r r then new else e)).find?
        (fun e => e.r.pfx == p && e.r.pathId == k) =
      if p = r.pfx ∧ k = r.pathId then
        (if (l.find? (fun e => adjKeyEq e.r r)).isSome then some new else none)
      else l.find? (fun e => e.r.pfx == p && e.r.pathId == k) := by
  by_cases hpk : p = r.pfx ∧ k = r.pathId
  · obtain ⟨rfl, rfl⟩ := hpk
    simp only [and_self, if_true, keyb_of_adjKeyEq]
    induction l with
    | nil => simp
    | cons x xs ih =>
      simp only [List.map_cons, List.find?_cons]
      by_cases hx : adjKeyEq x.r r = true
      · simp [hx, hnew]
      · have hxf : adjKeyEq x.r r = false := by simpa using hx
        simp only [hxf, Bool.false_eq_true, if_false]
        exact ih
  · simp only [hpk, if_false]
    induction l with
    | nil => simp
    | cons x xs ih =>
      simp only [List.map_cons, List.find?_cons]
      cases hx : adjKeyEq x.r r
      · simp only [Bool.false_eq_true, if_false]
        rw [ih]
      · simp only [if_true, key_other new.r r p k hnew hpk, key_other x.r r p k hx hpk]
        exact ih

theorem find_filter_key (l : List AdjEntry) (r : Cand) (p k : Nat) :
    (l.filter (fun e => !adjKeyEq e.r r)).find? (fun e => e.r.pfx == p && e.r.pathId == k) =
      if p = r.pfx ∧ k = r.pathId then none
      else l.find? (fun e => e.r.pfx == p && e.r.pathId == k) := by
  by_cases hpk : p = r.pfx ∧ k = r.pathId
  · obtain ⟨rfl, rfl⟩ := hpk
    simp only [and_self, if_true, keyb_of_adjKeyEq]
    rw [List.find?_eq_none]
    intro x hx
    have := (List.mem_filter.mp hx).2
    simpa using this
  · simp only [hpk, if_false]
    induction l with
    | nil => simp
    | cons x xs ih =>
      simp only [List.filter_cons, List.find?_cons]
      cases hx : adjKeyEq x.r r
      · simp only [Bool.not_false, if_true, List.find?_cons]
        rw [ih]
      · simp only [Bool.not_true, Bool.false_eq_true, if_false, key_other x.r r p k hx hpk]
        exact ih

theorem find_append_new (l : List AdjEntry) (new : AdjEntry) (p k : Nat)
    (hnone : l.find? (fun e => adjKeyEq e.r new.r) = none) :
    (l ++ [new]).find? (fun e => e.r.pfx == p && e.r.pathId == k) =
      if p = new.r.pfx ∧ k = new.r.pathId then some new
      else l.find? (fun e => e.r.pfx == p && e.r.pathId == k) := by
  rw [List.find?_append]
  by_cases hpk : p = new.r.pfx ∧ k = new.r.pathId
  · obtain ⟨rfl, rfl⟩ := hpk
    simp only [and_self, if_true, keyb_of_adjKeyEq, hnone]
    simp [adjKeyEq]
  · simp only [hpk, if_false]
    cases h : l.find? (fun e => e.r.pfx == p && e.r.pathId == k) with
    | some e => simp
    | none =>
      have : (new.r.pfx == p && new.r.pathId == k) = false := by
        cases h1 : (new.r.pfx == p) <;> cases h2 : (new.r.pathId == k) <;> simp_all
      simp [this]

/-- one step refines the specification step -/
theorem adjStep_refines (a : Adj) (op : AdjOp) : (adjStep a op).abs = adjSpecStep a.abs op := by
  funext p k
  cases op with
  | drop => simp [adjStep, adjSpecStep, Adj.abs]
  | wd r =>
    simp only [adjStep, adjSpecStep, adjWithdraw]
    cases h : a.entries.find? (fun e => adjKeyEq e.r r) with
    | some old =>
      simp only [Adj.abs]
      exact find_filter_key a.entries r p k
    | none =>
      simp only
      by_cases hpk : p = r.pfx ∧ k = r.pathId
      · simp only [hpk, and_self, if_true]
        rw [abs_eq_find]; exact h
      · simp [hpk]
  | ann r rej =>
    simp only [adjStep, adjSpecStep, adjAnnounce]
    rw [abs_eq_find]
    cases h : a.entries.find? (fun e => adjKeyEq e.r r) with
    | some old =>
      simp only [Adj.abs]
      rw [find_map_key a.entries r _ (by simp [adjKeyEq]; split <;> simp) p k]
      simp [h]
    | none =>
      simp only [Adj.abs]
      rw [find_append_new a.entries ⟨r, rej⟩ p k h]

/-- **adjin_refines**: after ANY history the Adj-RIB-In is the abstract map -/
theorem adj_refines (ops : List AdjOp) :
    (ops.foldl adjStep {}).abs = ops.foldl adjSpecStep (fun _ _ => none) := by
  have : ∀ (a : Adj) (s : AdjSpec), a.abs = s →
      (ops.foldl adjStep a).abs = ops.foldl adjSpecStep s := by
    induction ops with
    | nil => intro a s h; exact h
    | cons op rest ih =>
      intro a s h
      simp only [List.foldl_cons]
      apply ih
      rw [adjStep_refines, h]
  exact this {} _ (by funext p k; simp [Adj.abs])

/-! ### key uniqueness and the accepted counter -/

theorem nodup_step (a : Adj) (op : AdjOp) (h : a.Nodup) : (adjStep a op).Nodup := by
  unfold Adj.Nodup at *
  cases op with
  | drop => simp [adjStep]
  | wd r =>
    simp only [adjStep, adjWithdraw]
    split
    · exact List.Pairwise.sublist List.filter_sublist h
    · exact h
  | ann r rej =>
    simp only [adjStep, adjAnnounce]
    cases hf : a.entries.find? (fun e => adjKeyEq e.r r) with
    | some old =>
      simp only
      -- rewriting entries of key(r) by an entry of key(r) keeps keys
      generalize hnewdef : (⟨if pathEqual old.r r = true then { r with ts := old.r.ts } else r, rej⟩ : AdjEntry) = new
      have hnk : new.r.pfx = r.pfx ∧ new.r.pathId = r.pathId := by
        subst hnewdef; split <;> simp
      have hk : ∀ e : AdjEntry, (if adjKeyEq e.r r = true then new else e).r.pfx = e.r.pfx ∧
          (if adjKeyEq e.r r = true then new else e).r.pathId = e.r.pathId := by
        intro e
        by_cases he : adjKeyEq e.r r = true
        · have := (adjKeyEq_iff _ _).mp he
          simp [he, hnk.1, hnk.2, this.1, this.2]
        · simp [he]
      rw [List.pairwise_map]
      apply List.Pairwise.imp _ h
      intro x y hxy
      have hx := hk x
      have hy := hk y
      have e1 := keyEq_congr _ _ _ _ hx.1 hx.2 hy.1 hy.2
      rw [e1]
      exact hxy
    | none =>
      simp only
      rw [List.pairwise_append]
      refine ⟨h, by simp, ?_⟩
      intro x hx y hy
      simp at hy
      subst hy
      have := List.find?_eq_none.mp hf x hx
      simpa using this

theorem filter_length_map_key (l : List AdjEntry) (r : Cand) (new : AdjEntry) (old : AdjEntry)
    (hn : l.Pairwise (fun x y => adjKeyEq x.r y.r = false))
    (hf : l.find? (fun e => adjKeyEq e.r r) = some old) :
    (((l.map (fun e => if adjKeyEq e.r r then new else e)).filter (fun e => !e.rejected)).length : Int) =
      ((l.filter (fun e => !e.rejected)).length : Int)
        - (if old.rejected then 0 else 1) + (if new.rejected then 0 else 1) := by
  induction l with
  | nil => simp at hf
  | cons x xs ih =>
    rw [List.pairwise_cons] at hn
    simp only [List.find?_cons] at hf
    by_cases hx : adjKeyEq x.r r = true
    · simp only [hx] at hf
      simp at hf
      subst hf
      -- no other entry has this key
      have hrest : ∀ e ∈ xs, adjKeyEq e.r r = false := by
        intro e he
        have h1 := hn.1 e he
        cases h2 : adjKeyEq e.r r
        · rfl
        · have a1 := (adjKeyEq_iff _ _).mp hx
          have a2 := (adjKeyEq_iff _ _).mp h2
          have : adjKeyEq x.r e.r = true := (adjKeyEq_iff _ _).mpr ⟨a1.1.trans a2.1.symm, a1.2.trans a2.2.symm⟩
          simp [h1] at this
      have hmap : xs.map (fun e => if adjKeyEq e.r r = true then new else e) = xs := by
        have : xs.map (fun e => if adjKeyEq e.r r = true then new else e) = xs.map id :=
          List.map_congr_left (fun e he => by simp [hrest e he])
        simpa using this
      simp only [List.map_cons, hx, if_true, hmap, List.filter_cons]
      cases x.rejected <;> cases new.rejected <;> simp <;> omega
    · have hxf : adjKeyEq x.r r = false := by simpa using hx
      simp only [hxf, Bool.false_eq_true, if_false] at hf
      have := ih hn.2 hf
      simp only [List.map_cons, hxf, Bool.false_eq_true, if_false, List.filter_cons]
      cases x.rejected <;> simp <;> omega

theorem filter_length_remove_key (l : List AdjEntry) (r : Cand) (old : AdjEntry)
    (hn : l.Pairwise (fun x y => adjKeyEq x.r y.r = false))
    (hf : l.find? (fun e => adjKeyEq e.r r) = some old) :
    ((((l.filter (fun e => !adjKeyEq e.r r))).filter (fun e => !e.rejected)).length : Int) =
      ((l.filter (fun e => !e.rejected)).length : Int) - (if old.rejected then 0 else 1) := by
  induction l with
  | nil => simp at hf
  | cons x xs ih =>
    rw [List.pairwise_cons] at hn
    simp only [List.find?_cons] at hf
    by_cases hx : adjKeyEq x.r r = true
    · simp only [hx] at hf
      simp at hf
      subst hf
      have hrest : ∀ e ∈ xs, adjKeyEq e.r r = false := by
        intro e he
        have h1 := hn.1 e he
        cases h2 : adjKeyEq e.r r
        · rfl
        · have a1 := (adjKeyEq_iff _ _).mp hx
          have a2 := (adjKeyEq_iff _ _).mp h2
          have : adjKeyEq x.r e.r = true := (adjKeyEq_iff _ _).mpr ⟨a1.1.trans a2.1.symm, a1.2.trans a2.2.symm⟩
          simp [h1] at this
      have hfil : xs.filter (fun e => !adjKeyEq e.r r) = xs := by
        rw [List.filter_eq_self]
        intro e he
        simp [hrest e he]
      simp only [List.filter_cons, hx, Bool.not_true, Bool.false_eq_true, if_false, hfil]
      cases x.rejected <;> simp <;> omega
    · have hxf : adjKeyEq x.r r = false := by simpa using hx
      simp only [hxf, Bool.false_eq_true, if_false] at hf
      have := ih hn.2 hf
      simp only [List.filter_cons, hxf, Bool.not_false, if_true]
      cases hr : x.rejected
      · simp only [Bool.not_false, if_true, List.length_cons]
        omega
      · simp only [Bool.not_true, Bool.false_eq_true, if_false]
        omega

/-- the accepted counter is the number of stored non-rejected entries, through every
    reject↔accept flip, replacement, withdrawal (also of unknown keys) and session end -/
theorem count_step (a : Adj) (op : AdjOp) (hn : a.Nodup) (h : a.countOk) : (adjStep a op).countOk := by
  unfold Adj.countOk at *
  unfold Adj.Nodup at hn
  cases op with
  | drop => simp [adjStep]
  | wd r =>
    simp only [adjStep, adjWithdraw]
    cases hf : a.entries.find? (fun e => adjKeyEq e.r r) with
    | none => exact h
    | some old =>
      simp only
      rw [filter_length_remove_key a.entries r old hn hf, h]
      cases old.rejected <;> simp
  | ann r rej =>
    simp only [adjStep, adjAnnounce]
    cases hf : a.entries.find? (fun e => adjKeyEq e.r r) with
    | some old =>
      simp only
      rw [filter_length_map_key a.entries r _ old hn hf, h]
      cases old.rejected <;> cases rej <;> simp <;> omega
    | none =>
      simp only [List.filter_append, List.length_append]
      rw [h]
      cases rej <;> simp

theorem adj_invariants (ops : List AdjOp) :
    (ops.foldl adjStep {}).Nodup ∧ (ops.foldl adjStep {}).countOk := by
  have : ∀ (a : Adj), a.Nodup → a.countOk →
      (ops.foldl adjStep a).Nodup ∧ (ops.foldl adjStep a).countOk := by
    induction ops with
    | nil => intro a h1 h2; exact ⟨h1, h2⟩
    | cons op rest ih =>
      intro a h1 h2
      simp only [List.foldl_cons]
      exact ih _ (nodup_step a op h1) (count_step a op h1 h2)
  exact this {} (by simp [Adj.Nodup]) (by simp [Adj.countOk])

end World
