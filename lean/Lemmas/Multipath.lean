/-
  The equal-cost multipath set contains EVERY equal-cost path when the list is sorted by the
  documented key and Path.Compare looks at the same fields as the sort order (default
  options, MED comparable, no confederation members): nothing equal-cost hides behind a
  worse path.
-/
import Lemmas.BestPath
namespace BestPath
open Lex

theorem lexLe_head {x w : Int} {xs ws : List Int} (h : lexLe (x :: xs) (w :: ws) = true) : x ≤ w := by
  simp only [lexLe] at h
  by_cases h1 : x < w
  · omega
  · by_cases h2 : w < x
    · simp [h1, h2] at h
    · omega

theorem lexLe_tail {x : Int} {xs ws : List Int} (h : lexLe (x :: xs) (x :: ws) = true) :
    lexLe xs ws = true := by
  simp only [lexLe] at h
  simpa using h

/-- a list lexicographically between two lists that agree on their first `n` entries agrees
    with them there -/
theorem lex_sandwich : ∀ (n : Nat) (a z b : List Int), a.length = z.length → z.length = b.length →
    lexLe a z = true → lexLe z b = true → a.take n = b.take n → z.take n = a.take n := by
  intro n
  induction n with
  | zero => intro a z b _ _ _ _ _; simp
  | succ n ih =>
    intro a z b h1 h2 l1 l2 ht
    cases a with
    | nil =>
      cases z with
      | nil => rfl
      | cons w ws => simp at h1
    | cons x xs =>
      cases z with
      | nil => simp at h1
      | cons w ws =>
        cases b with
        | nil => simp at h2
        | cons y ys =>
          simp only [List.take_succ_cons, List.cons.injEq] at ht ⊢
          obtain ⟨hxy, hts⟩ := ht
          subst hxy
          have e1 := lexLe_head l1
          have e2 := lexLe_head l2
          have hw : w = x := by omega
          subst hw
          refine ⟨rfl, ih xs ws ys (by simpa using h1) (by simpa using h2) (lexLe_tail l1) (lexLe_tail l2) hts⟩

theorem mem_takeWhile_of_pairwise {α : Type} (p : α → Bool) : ∀ (l : List α),
    l.Pairwise (fun z y => p y = true → p z = true) → ∀ y ∈ l, p y = true → y ∈ l.takeWhile p := by
  intro l
  induction l with
  | nil => intro _ y hy; cases hy
  | cons z t ih =>
    intro hp y hy hpy
    rw [List.pairwise_cons] at hp
    rw [List.mem_cons] at hy
    rcases hy with rfl | hy
    · simp [hpy]
    · have hz : p z = true := hp.1 y hy hpy
      simp only [List.takeWhile_cons, hz, if_true, List.mem_cons]
      exact Or.inr (ih hp.2 y hy hpy)

/-- equal cost, read off the documented key: the first eight entries agree -/
theorem equalCost_iff_key (o : Opts) (best y : Cand) (ho : o.ignoreAsPathLen = false)
    (hb : best.nhInvalid = false) (cb : best.src.confed = false) (cy : y.src.confed = false) :
    equalCost best y = true ↔ (key o y).take 8 = (key o best).take 8 := by
  have ib : best.isInternal = best.isIBGP := by simp [Cand.isInternal, cb]
  have iy : y.isInternal = y.isIBGP := by simp [Cand.isInternal, cy]
  simp only [key, ho, List.take, List.cons.injEq, and_true, ib, iy, hb]
  simp only [equalCost, Bool.and_eq_true, Bool.not_eq_eq_eq_not, Bool.not_true, beq_iff_eq]
  unfold pathCompare
  cases hs1 : y.stale <;> cases hs2 : best.stale <;> cases hn : y.nhInvalid <;>
  cases hl1 : y.isLocal <;> cases hl2 : best.isLocal <;> cases hi1 : y.isIBGP <;> cases hi2 : best.isIBGP <;>
    simp [b2i] <;>
    (constructor
     · intro h
       by_cases a1 : y.getLocalPref = best.getLocalPref
       · by_cases a2 : asPathLen y = asPathLen best
         · by_cases a3 : y.origin.getD 0 = best.origin.getD 0
           · simp [a1, a2, a3] at h ⊢; omega
           · simp [a1, a2, a3] at h; omega
         · simp [a1, a2] at h; omega
       · simp [a1] at h; omega
     · intro h
       obtain ⟨a1, a2, a3, a4⟩ := h
       have a1' : y.getLocalPref = best.getLocalPref := by omega
       have a2' : asPathLen y = asPathLen best := by omega
       have a3' : y.origin.getD 0 = best.origin.getD 0 := by omega
       have a4' : y.getMed = best.getMed := by omega
       simp [a1', a2', a3', a4'])

/-- **multipath_complete (partial: default AS_PATH-length handling, MED comparable, no
    confederation members).** In a list sorted by the decision process every path that is
    equal-cost with the best path is in the multipath set. -/
theorem multipath_complete_partial (o : Opts) (best : Cand) (rest : List Cand)
    (ho : o.ignoreAsPathLen = false) (hb : best.nhInvalid = false)
    (wf : SetWF o (best :: rest)) (hs : Sorted o (best :: rest))
    (hc : ∀ c ∈ best :: rest, c.src.confed = false) :
    ∀ y ∈ rest, equalCost best y = true → y ∈ multipath (best :: rest) := by
  intro y hy hey
  simp only [multipath, hb, Bool.false_eq_true, if_false, List.mem_cons]
  right
  unfold Sorted at hs
  rw [List.pairwise_cons] at hs
  refine mem_takeWhile_of_pairwise (equalCost best) rest ?_ y hy hey
  refine List.Pairwise.imp_of_mem ?_ hs.2
  intro z y' hz hy' hzy hE
  have cb := hc best List.mem_cons_self
  have cz := hc z (List.mem_cons_of_mem _ hz)
  have cy := hc y' (List.mem_cons_of_mem _ hy')
  rw [equalCost_iff_key o best y' ho hb cb cy] at hE
  rw [equalCost_iff_key o best z ho hb cb cz]
  have wbz := wf best List.mem_cons_self z (List.mem_cons_of_mem _ hz)
  have wzy := wf z (List.mem_cons_of_mem _ hz) y' (List.mem_cons_of_mem _ hy')
  have l1 : lexLe (key o best) (key o z) = true := by
    rw [← better_eq_lex o best z wbz]; exact hs.1 z hz
  have l2 : lexLe (key o z) (key o y') = true := by
    rw [← better_eq_lex o z y' wzy]; exact hzy
  exact lex_sandwich 8 (key o best) (key o z) (key o y') (by simp [key_length]) (by simp [key_length])
    l1 l2 hE.symm

end BestPath
