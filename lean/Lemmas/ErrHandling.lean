import Model.ErrHandling
/-
  Helper lemmas for C06: the loops of the decoder / validator compute the MAXIMUM class of the
  faults present (a flat, order-free enumeration of them), whatever the early returns.
-/
namespace ErrH

/-- rank of an optional error (no error = 0) -/
def rk : Option MErr → Nat
  | none => 0
  | some e => e.h.rank

/-- strongest class in a list of faults -/
def maxRk : List MErr → Nat
  | [] => 0
  | e :: l => max e.h.rank (maxRk l)

theorem rank_le_four (h : Handling) : h.rank ≤ 4 := by
  cases h <;> simp [Handling.rank]

theorem maxRk_le_four (l : List MErr) : maxRk l ≤ 4 := by
  induction l with
  | nil => simp [maxRk]
  | cons e l ih => have := rank_le_four e.h; simp only [maxRk]; omega

theorem maxRk_append (a b : List MErr) : maxRk (a ++ b) = max (maxRk a) (maxRk b) := by
  induction a with
  | nil => simp [maxRk]
  | cons e l ih => simp only [List.cons_append, maxRk, ih]; omega

theorem rk_keep (cur : Option MErr) (e : MErr) : rk (keep cur e) = max (rk cur) e.h.rank := by
  unfold keep stronger
  cases cur with
  | none => simp [rk]
  | some c =>
    by_cases h : e.h.rank > c.h.rank
    · simp [h, rk]; omega
    · simp [h, rk]; omega

theorem rk_keepO (cur o : Option MErr) : rk (keepO cur o) = max (rk cur) (rk o) := by
  cases o with
  | none => simp [keepO, rk]
  | some e => simp only [keepO, rk_keep]; simp [rk]

/-- flat list of the decode faults of the attributes -/
def itemFaults : List AttrObs → List MErr
  | [] => []
  | a :: l => (itemErr a).toList ++ itemFaults l

def stopFaults : Stop → List MErr
  | .done => []
  | .short => [lenErr]
  | .overrun a => (itemErr a).toList ++ [lenErr]

/-- every fault the decoder can see in a message whose length fields and NLRI are sound -/
def decodeFaults (m : AMsg) : List MErr := itemFaults m.items ++ stopFaults m.stop

theorem maxRk_toList (o : Option MErr) : maxRk o.toList = rk o := by
  cases o <;> simp [maxRk, rk]

theorem decodeLoop_fst (a : AttrObs) (rest : List AttrObs) (cur : Option MErr) :
    (decodeLoop (a :: rest) cur).1 = (decodeLoop rest (keepO cur (itemErr a))).1 := by
  simp only [decodeLoop]

theorem decodeLoop_snd (a : AttrObs) (rest : List AttrObs) (cur : Option MErr) :
    (decodeLoop (a :: rest) cur).2 =
      if kept a then a :: (decodeLoop rest (keepO cur (itemErr a))).2
      else (decodeLoop rest (keepO cur (itemErr a))).2 := by
  simp only [decodeLoop]

theorem decodeLoop_rk (items : List AttrObs) (cur : Option MErr) :
    rk (decodeLoop items cur).1 = max (rk cur) (maxRk (itemFaults items)) := by
  induction items generalizing cur with
  | nil => simp [decodeLoop, itemFaults, maxRk]
  | cons a rest ih =>
    rw [decodeLoop_fst, ih, rk_keepO]
    simp only [itemFaults, maxRk_append, maxRk_toList]
    omega

/-- the attribute list does not depend on the running error -/
theorem decodeLoop_snd_eq (items : List AttrObs) (cur : Option MErr) :
    (decodeLoop items cur).2 = items.filter kept := by
  induction items generalizing cur with
  | nil => simp [decodeLoop]
  | cons a rest ih =>
    rw [decodeLoop_snd, ih]
    by_cases h : kept a <;> simp [h]

theorem rk_le_four (o : Option MErr) : rk o ≤ 4 := by
  cases o with
  | none => simp [rk]
  | some e => exact rank_le_four e.h

def stopKeep (e : Option MErr) : Stop → Option MErr
  | .done => e
  | .short => keep e lenErr
  | .overrun a => keep (keepO e (itemErr a)) lenErr

theorem rk_none : rk none = 0 := rfl

theorem rk_stopKeep (e : Option MErr) (s : Stop) :
    rk (stopKeep e s) = max (rk e) (maxRk (stopFaults s)) := by
  cases s with
  | done => simp [stopKeep, stopFaults, maxRk]
  | short => simp only [stopKeep, stopFaults, maxRk, rk_keep]; omega
  | overrun a =>
    simp only [stopKeep, stopFaults, maxRk, rk_keep, rk_keepO, maxRk_append, maxRk_toList]; omega

theorem decode_err (m : AMsg) (hp : m.pre = none) (hn : m.nlriErr = none) :
    (decode m).err = stopKeep (decodeLoop m.items none).1 m.stop := by
  unfold decode
  rw [hp, hn]
  cases m.stop <;> rfl

/-- decoder: with sound length fields and NLRI the reported class is the strongest decode fault -/
theorem decode_rk (m : AMsg) (hp : m.pre = none) (hn : m.nlriErr = none) :
    rk (decode m).err = maxRk (decodeFaults m) := by
  rw [decode_err m hp hn, rk_stopKeep, decodeLoop_rk, rk_none]
  unfold decodeFaults
  rw [maxRk_append, Nat.zero_max]

theorem decode_attrs (m : AMsg) (hp : m.pre = none) : (decode m).attrs = m.items.filter kept := by
  unfold decode
  rw [hp]
  rw [show (decodeLoop m.items none) = ((decodeLoop m.items none).1, (decodeLoop m.items none).2) from rfl]
  cases m.nlriErr with
  | none => simp [decodeLoop_snd_eq]
  | some e => obtain ⟨c, s⟩ := e; simp [decodeLoop_snd_eq]

theorem decode_fatal_pre (m : AMsg) (c s : Nat) (hp : m.pre = some (c, s)) :
    (decode m).err = some (.fatal c s) := by
  unfold decode; rw [hp]

theorem decode_fatal_nlri (m : AMsg) (c s : Nat) (hp : m.pre = none) (hn : m.nlriErr = some (c, s)) :
    (decode m).err = some (.fatal c s) := by
  unfold decode; rw [hp, hn]

/-! ### validation -/

/-- flat list of the semantic faults of an attribute list (`seen` = types already met) -/
def semFaults (c : Cfg) : List AttrObs → List Nat → List MErr
  | [], _ => []
  | a :: rest, seen =>
    if seen.contains a.typ then
      (if a.typ == 14 || a.typ == 15 then MErr.fatal 3 1 else dupErr) :: semFaults c rest seen
    else (validateAttr c a).toList ++ semFaults c rest (a.typ :: seen)

/-- first occurrence of every type not in `seen` -/
def firsts : List AttrObs → List Nat → List AttrObs
  | [], _ => []
  | a :: rest, seen =>
    if seen.contains a.typ then firsts rest seen else a :: firsts rest (a.typ :: seen)

def rkS : Sum MErr (Option MErr × List AttrObs × List Nat) → Nat
  | .inl e => e.h.rank
  | .inr (s, _, _) => rk s

theorem rkS_map (a : AttrObs) (r : Sum MErr (Option MErr × List AttrObs × List Nat)) :
    rkS (match r with
      | .inl e => .inl e
      | .inr (s, l, sn) => .inr (s, a :: l, sn)) = rkS r := by
  cases r with
  | inl e => rfl
  | inr p => obtain ⟨s, l, sn⟩ := p; rfl

theorem validateLoop_rk (c : Cfg) (attrs : List AttrObs) (seen : List Nat) (cur : Option MErr) :
    rkS (validateLoop c attrs seen cur) = max (rk cur) (maxRk (semFaults c attrs seen)) := by
  induction attrs generalizing seen cur with
  | nil => simp [validateLoop, semFaults, rkS, maxRk]
  | cons a rest ih =>
    have hc := rk_le_four cur
    unfold validateLoop semFaults
    by_cases hs : seen.contains a.typ
    · simp only [hs, Bool.not_true, Bool.false_eq_true, ↓reduceIte]
      by_cases hm : (a.typ == 14 || a.typ == 15) = true
      · have := maxRk_le_four (semFaults c rest seen)
        simp only [hm, ↓reduceIte, rkS, maxRk, MErr.fatal, Handling.rank]; omega
      · simp only [hm, Bool.false_eq_true, ↓reduceIte, ih, rk_keep, maxRk]; omega
    · simp only [hs, Bool.not_false, ↓reduceIte, Bool.false_eq_true]
      cases hv : validateAttr c a with
      | none =>
        have ih' := ih (a.typ :: seen) cur
        cases hr2 : validateLoop c rest (a.typ :: seen) cur with
        | inl e' => rw [hr2] at ih'; simpa [rkS] using ih'
        | inr p => obtain ⟨s', l', sn'⟩ := p; rw [hr2] at ih'; simpa [rkS] using ih'
      | some e =>
        by_cases hr : (e.h == Handling.reset) = true
        · have h4 : e.h.rank = 4 := by
            have : e.h = Handling.reset := by simpa using hr
            rw [this]; rfl
          have := maxRk_le_four (semFaults c rest (a.typ :: seen))
          simp only [hr, ↓reduceIte, rkS, Option.toList, List.cons_append, List.nil_append, maxRk, h4]; omega
        · have ih' := ih (a.typ :: seen) (keep cur e)
          rw [rk_keep] at ih'
          simp only [hr, Bool.false_eq_true, ↓reduceIte, Option.toList, List.cons_append,
            List.nil_append, maxRk]
          cases hr2 : validateLoop c rest (a.typ :: seen) (keep cur e) with
          | inl e' => rw [hr2] at ih'; simp only [rkS] at ih' ⊢; omega
          | inr p => obtain ⟨s', l', sn'⟩ := p; rw [hr2] at ih'; simp only [rkS] at ih' ⊢; omega

/-- what the loop returns when it does not return early -/
theorem validateLoop_inr (c : Cfg) (attrs : List AttrObs) (seen : List Nat) (cur s : Option MErr)
    (l : List AttrObs) (sn : List Nat) (h : validateLoop c attrs seen cur = .inr (s, l, sn)) :
    l = firsts attrs seen ∧ ∀ t, sn.contains t = (seen.contains t || attrs.any (fun a => a.typ == t)) := by
  induction attrs generalizing seen cur s l sn with
  | nil =>
    simp only [validateLoop, Sum.inr.injEq, Prod.mk.injEq] at h
    obtain ⟨_, h2, h3⟩ := h
    subst h2; subst h3
    simp [firsts]
  | cons a rest ih =>
    unfold validateLoop at h
    unfold firsts
    by_cases hs : seen.contains a.typ
    · simp only [hs, Bool.not_true, Bool.false_eq_true, ↓reduceIte] at h ⊢
      by_cases hm : (a.typ == 14 || a.typ == 15) = true
      · simp [hm] at h
      · simp only [hm, Bool.false_eq_true, ↓reduceIte] at h
        obtain ⟨h1, h2⟩ := ih _ _ _ _ _ h
        refine ⟨h1, fun t => ?_⟩
        rw [h2 t]
        by_cases ht : a.typ = t
        · subst ht
          have hs' : a.typ ∈ seen := by simpa using hs
          simp [hs']
        · have hne : (a.typ == t) = false := by simp [ht]
          simp [hne]
    · simp only [hs, Bool.not_false, ↓reduceIte, Bool.false_eq_true] at h ⊢
      have key : ∀ cur', (match validateLoop c rest (a.typ :: seen) cur' with
            | .inl e => (Sum.inl e : Sum MErr (Option MErr × List AttrObs × List Nat))
            | .inr (s, l, sn) => .inr (s, a :: l, sn)) = .inr (s, l, sn) →
          l = a :: firsts rest (a.typ :: seen) ∧
            ∀ t, sn.contains t = (seen.contains t || (a :: rest).any (fun a => a.typ == t)) := by
        intro cur' h'
        cases hr : validateLoop c rest (a.typ :: seen) cur' with
        | inl e => rw [hr] at h'; simp at h'
        | inr p =>
          obtain ⟨s', l', sn'⟩ := p
          rw [hr] at h'
          simp only [Sum.inr.injEq, Prod.mk.injEq] at h'
          obtain ⟨_, h2, h3⟩ := h'
          obtain ⟨i1, i2⟩ := ih _ _ _ _ _ hr
          subst h2; subst h3
          refine ⟨by rw [i1], fun t => ?_⟩
          rw [i2 t]
          by_cases ht : a.typ = t
          · subst ht; simp
          · have ht' : ¬ t = a.typ := fun e => ht e.symm
            have hne : (a.typ == t) = false := by simp [ht]
            simp [ht', hne]
      cases hv : validateAttr c a with
      | none => rw [hv] at h; exact key _ h
      | some e =>
        rw [hv] at h
        by_cases hr : (e.h == Handling.reset) = true
        · simp [hr] at h
        · simp only [hr, Bool.false_eq_true, ↓reduceIte] at h; exact key _ h

theorem firsts_mem (attrs : List AttrObs) (seen : List Nat) (a : AttrObs) (h : a ∈ firsts attrs seen) :
    a ∈ attrs ∧ seen.contains a.typ = false := by
  induction attrs generalizing seen with
  | nil => simp [firsts] at h
  | cons b rest ih =>
    unfold firsts at h
    by_cases hs : seen.contains b.typ
    · simp only [hs, ↓reduceIte] at h
      obtain ⟨h1, h2⟩ := ih seen h
      exact ⟨List.mem_cons_of_mem _ h1, h2⟩
    · simp only [hs, Bool.false_eq_true, ↓reduceIte, List.mem_cons] at h
      cases h with
      | inl e => subst e; exact ⟨List.mem_cons_self, by simpa using hs⟩
      | inr h =>
        obtain ⟨h1, h2⟩ := ih _ h
        refine ⟨List.mem_cons_of_mem _ h1, ?_⟩
        simp only [List.contains_cons, Bool.or_eq_false_iff] at h2
        exact h2.2

/-- no two attributes of the same type survive validation -/
theorem firsts_nodup (attrs : List AttrObs) (seen : List Nat) :
    ((firsts attrs seen).map (·.typ)).Nodup := by
  induction attrs generalizing seen with
  | nil => simp [firsts]
  | cons b rest ih =>
    unfold firsts
    by_cases hs : seen.contains b.typ
    · simp only [hs, ↓reduceIte]; exact ih seen
    · simp only [hs, Bool.false_eq_true, ↓reduceIte, List.map_cons, List.nodup_cons]
      refine ⟨?_, ih _⟩
      intro hm
      obtain ⟨x, hx, hxt⟩ := List.mem_map.mp hm
      have := (firsts_mem rest (b.typ :: seen) x hx).2
      simp only [List.contains_cons, Bool.or_eq_false_iff] at this
      have h1 := this.1
      rw [hxt] at h1
      simp at h1

/-- the semantic fault of a first occurrence is in the flat list -/
theorem semFaults_of_firsts (c : Cfg) (attrs : List AttrObs) (seen : List Nat) (a : AttrObs)
    (h : a ∈ firsts attrs seen) (e : MErr) (he : validateAttr c a = some e) :
    e.h.rank ≤ maxRk (semFaults c attrs seen) := by
  induction attrs generalizing seen with
  | nil => simp [firsts] at h
  | cons b rest ih =>
    unfold firsts at h
    unfold semFaults
    by_cases hs : seen.contains b.typ
    · simp only [hs, ↓reduceIte] at h ⊢
      have := ih seen h
      simp only [maxRk]; omega
    · simp only [hs, Bool.false_eq_true, ↓reduceIte, List.mem_cons] at h ⊢
      rw [maxRk_append, maxRk_toList]
      cases h with
      | inl e' => subst e'; rw [he]; simp only [rk]; omega
      | inr h => have := ih _ h; omega

/-- every error of ValidateAttribute is at least treat-as-withdraw -/
theorem validateAttr_rank (c : Cfg) (a : AttrObs) (e : MErr) (h : validateAttr c a = some e) :
    2 ≤ e.h.rank := by
  unfold validateAttr at h
  repeat' split at h
  all_goals first
    | (simp at h; done)
    | (simp only [Option.some.injEq] at h; subst h; simp [MErr.fatal, Handling.rank, attrClass])

theorem firsts_nil_seen_any (attrs : List AttrObs) (t : Nat) :
    (firsts attrs []).any (fun a => a.typ == t) = attrs.any (fun a => a.typ == t) := by
  suffices h : ∀ seen : List Nat, ((firsts attrs seen).any (fun a => a.typ == t) || seen.contains t)
      = (attrs.any (fun a => a.typ == t) || seen.contains t) by
    simpa using h []
  induction attrs with
  | nil => intro seen; simp [firsts]
  | cons b rest ih =>
    intro seen
    unfold firsts
    by_cases hs : seen.contains b.typ
    · simp only [hs, ↓reduceIte, List.any_cons]
      rw [ih seen]
      by_cases hb : b.typ = t
      · subst hb; rw [hs]; simp
      · have hne : (b.typ == t) = false := by simp [hb]
        rw [hne]; simp
    · simp only [hs, Bool.false_eq_true, ↓reduceIte, List.any_cons]
      have := ih (b.typ :: seen)
      simp only [List.contains_cons] at this
      by_cases hb : b.typ = t
      · subst hb; simp
      · have hb' : (t == b.typ) = false := by simp; exact fun e => hb e.symm
        have hne : (b.typ == t) = false := by simp [hb]
        simp only [hb', Bool.false_or] at this
        rw [hne, Bool.false_or, Bool.false_or]; exact this

end ErrH
