import Lemmas.VrfRtcDefs
namespace VrfRtc

/-! ### membership sets -/

/-- HasRouteTarget ↔ some member -/
theorem has_iff (s : Rtm) (k : Nat) : s.has k = true ↔ ∃ m, m ∈ s ∧ m.rt = k := by
  unfold Rtm.has
  simp [List.any_eq_true]

namespace ViewAux

theorem mem_add' (s : Rtm) (m x : Mem) : x ∈ s.add m ↔ x = m ∨ x ∈ s := by
  unfold Rtm.add
  by_cases h : m ∈ s
  · rw [if_pos h]
    exact ⟨Or.inr, fun h' => h'.elim (fun e => e ▸ h) id⟩
  · rw [if_neg h]; exact List.mem_cons

theorem mem_sub' (s : Rtm) (m x : Mem) : x ∈ s.sub m ↔ x ∈ s ∧ x ≠ m := by
  unfold Rtm.sub
  simp [List.mem_filter]

theorem sync_false (s : Rtm) (m : Mem) : s.sync m false = s.add m := rfl
theorem sync_true (s : Rtm) (m : Mem) : s.sync m true = s.sub m := rfl

end ViewAux
open ViewAux

/-- membership of another RT key is untouched by an announce/withdraw -/
theorem has_sync_other (s : Rtm) (m : Mem) (wd : Bool) (k : Nat) (hk : k ≠ m.rt) :
    (s.sync m wd).has k = s.has k := by
  rw [Bool.eq_iff_iff, has_iff, has_iff]
  cases wd
  · rw [sync_false]
    constructor
    · rintro ⟨x, hx, hr⟩
      rcases (mem_add' s m x).1 hx with rfl | hx
      · exact absurd hr.symm hk
      · exact ⟨x, hx, hr⟩
    · rintro ⟨x, hx, hr⟩
      exact ⟨x, (mem_add' s m x).2 (Or.inr hx), hr⟩
  · rw [sync_true]
    constructor
    · rintro ⟨x, hx, hr⟩
      exact ⟨x, ((mem_sub' s m x).1 hx).1, hr⟩
    · rintro ⟨x, hx, hr⟩
      refine ⟨x, (mem_sub' s m x).2 ⟨hx, ?_⟩, hr⟩
      intro e; subst e; exact hk hr.symm

namespace ViewAux

theorem has_sub_le (s : Rtm) (m : Mem) (k : Nat) (h : (s.sub m).has k = true) : s.has k = true := by
  rw [has_iff] at h ⊢
  obtain ⟨x, hx, hr⟩ := h
  exact ⟨x, ((mem_sub' s m x).1 hx).1, hr⟩

theorem has_add_ge (s : Rtm) (m : Mem) (k : Nat) (h : s.has k = true) : (s.add m).has k = true := by
  rw [has_iff] at h ⊢
  obtain ⟨x, hx, hr⟩ := h
  exact ⟨x, (mem_add' s m x).2 (Or.inr hx), hr⟩

theorem has_add_self (s : Rtm) (m : Mem) : (s.add m).has m.rt = true := by
  rw [has_iff]
  exact ⟨m, (mem_add' s m m).2 (Or.inl rfl), rfl⟩

/-- if the membership of the announced / withdrawn RT does not change, nothing changes -/
theorem sync_same_has (s : Rtm) (m : Mem) (wd : Bool)
    (hsame : (s.sync m wd).has m.rt = s.has m.rt) (k : Nat) : (s.sync m wd).has k = s.has k := by
  by_cases hk : k = m.rt
  · subst hk; exact hsame
  · exact has_sync_other s m wd k hk

/-! ### interest -/

theorem interested_iff (s : Rtm) (ecs : List EC) :
    interested s ecs = true ↔ s.has 0 = true ∨ ∃ k, k ∈ keys ecs ∧ s.has k = true := by
  unfold interested
  simp [List.any_eq_true]

theorem interested_mono (s s' : Rtm) (ecs : List EC)
    (h : ∀ k, (k = 0 ∨ k ∈ keys ecs) → s.has k = true → s'.has k = true)
    (hi : interested s ecs = true) : interested s' ecs = true := by
  rw [interested_iff] at hi ⊢
  rcases hi with h0 | ⟨k, hk, hh⟩
  · exact Or.inl (h 0 (Or.inl rfl) h0)
  · exact Or.inr ⟨k, hk, h k (Or.inr hk) hh⟩

theorem interested_congr (s s' : Rtm) (ecs : List EC)
    (h : ∀ k, (k = 0 ∨ k ∈ keys ecs) → s'.has k = s.has k) :
    interested s' ecs = interested s ecs := by
  rw [Bool.eq_iff_iff]
  constructor
  · exact interested_mono s' s ecs (fun k hk hh => by rw [← h k hk]; exact hh)
  · exact interested_mono s s' ecs (fun k hk hh => by rw [h k hk]; exact hh)

theorem interested_sync_other (s : Rtm) (m : Mem) (wd : Bool) (ecs : List EC)
    (h0 : m.rt ≠ 0) (hk : m.rt ∉ keys ecs) : interested (s.sync m wd) ecs = interested s ecs := by
  apply interested_congr
  intro k hkk
  apply has_sync_other
  rcases hkk with rfl | hkk
  · exact fun e => h0 e.symm
  · intro e; subst e; exact hk hkk

theorem interested_of_key (s : Rtm) (ecs : List EC) (k : Nat) (hk : k ∈ keys ecs)
    (hh : s.has k = true) : interested s ecs = true := by
  rw [interested_iff]; exact Or.inr ⟨k, hk, hh⟩

theorem interested_of_default (s : Rtm) (ecs : List EC) (hh : s.has 0 = true) :
    interested s ecs = true := by
  rw [interested_iff]; exact Or.inl hh

theorem bool_ne {a b : Bool} (h : ¬ a = b) : a = !b := by
  cases a <;> cases b <;> simp at h ⊢

/-! ### table -/

theorem mem_of_head? {l : List VPath} {b : VPath} (h : l.head? = some b) : b ∈ l := by
  cases l with
  | nil => cases h
  | cons a r =>
    simp at h; subst h; exact List.mem_cons.2 (Or.inl rfl)

theorem best_mem {t : Tbl} {n : Nat × Nat} {b : VPath} (hb : t.best n = some b) : b ∈ t.dest n :=
  mem_of_head? hb

theorem best_nlri {t : Tbl} (h : TblWF t) {n : Nat × Nat} {b : VPath} (hb : t.best n = some b) :
    b.nlri = n := h.nlri_ok n b (best_mem hb)

/-- the best path of `n` is its own destination's best path -/
theorem best_self {t : Tbl} (h : TblWF t) {n : Nat × Nat} {b : VPath} (hb : t.best n = some b) :
    t.best b.nlri = some b := by
  rw [best_nlri h hb]; exact hb

theorem best_of_uid {t : Tbl} (h : TblWF t) {p : VPath} (hp : p ∈ t.dest p.nlri)
    (hu : uidOf (t.best p.nlri) = some p.uid) : t.best p.nlri = some p := by
  cases hb : t.best p.nlri with
  | none => rw [hb] at hu; cases hu
  | some b =>
    rw [hb] at hu
    have hu' : b.uid = p.uid := by simpa [uidOf] using hu
    rw [h.uid_uniq _ _ b p (best_mem hb) hp hu']

theorem mem_byRT' (i : Idx) (k : Nat) (q : VPath) : q ∈ i.byRT k ↔ (k, q) ∈ i := by
  unfold Idx.byRT
  simp only [List.mem_map, List.mem_filter]
  constructor
  · rintro ⟨⟨k', q'⟩, ⟨hm, hk⟩, rfl⟩
    have : k' = k := by simpa using hk
    subst this; exact hm
  · intro h; exact ⟨(k, q), ⟨h, by simp⟩, rfl⟩

theorem mem_bests {t : Tbl} (h : TblWF t) (p : VPath) : p ∈ t.bests ↔ t.best p.nlri = some p := by
  unfold Tbl.bests
  rw [List.mem_filterMap]
  constructor
  · rintro ⟨n, _, hb⟩
    exact best_self h hb
  · intro hb
    refine ⟨p.nlri, h.listed _ ?_, hb⟩
    intro e
    unfold Tbl.best at hb
    rw [e] at hb; cases hb

/-- candidates for a specific RT: the best paths carrying it -/
theorem cands_specific (t : Tbl) (s' : Rtm) (k : Nat) (wd : Bool) (h : TblWF t) (hi : IdxInv t)
    (hk : k ≠ 0) (p : VPath) :
    p ∈ rtcCandidates t s' k wd ↔ (t.best p.nlri = some p ∧ k ∈ keys p.ecs) := by
  unfold rtcCandidates
  have hk' : (k != 0) = true := by simpa using hk
  rw [if_pos hk', List.mem_filter, mem_byRT', hi k p]
  constructor
  · rintro ⟨⟨hm, hkk, _⟩, hu⟩
    exact ⟨best_of_uid h hm (by simpa using hu), hkk⟩
  · rintro ⟨hb, hkk⟩
    refine ⟨⟨best_mem hb, hkk, Or.inr hb⟩, ?_⟩
    rw [hb]; simp [uidOf]

theorem cands_ann (t : Tbl) (s' : Rtm) (k : Nat) (h : TblWF t) (hi : IdxInv t) (p : VPath) :
    p ∈ rtcCandidates t s' k false ↔ (t.best p.nlri = some p ∧ (k ≠ 0 → k ∈ keys p.ecs)) := by
  by_cases hk : k = 0
  · subst hk
    unfold rtcCandidates
    simp [mem_bests h]
  · rw [cands_specific t s' k false h hi hk]
    exact ⟨fun ⟨a, b⟩ => ⟨a, fun _ => b⟩, fun ⟨a, b⟩ => ⟨a, b hk⟩⟩

theorem cands_wd (t : Tbl) (s' : Rtm) (k : Nat) (h : TblWF t) (hi : IdxInv t) (p : VPath) :
    (p ∈ rtcCandidates t s' k true ∧ interested s' p.ecs = false) ↔
      (t.best p.nlri = some p ∧ (k ≠ 0 → k ∈ keys p.ecs) ∧ interested s' p.ecs = false) := by
  by_cases hk : k = 0
  · subst hk
    unfold rtcCandidates
    simp [mem_bests h]
  · rw [cands_specific t s' k true h hi hk]
    exact ⟨fun ⟨⟨a, b⟩, c⟩ => ⟨a, fun _ => b, c⟩, fun ⟨a, b, c⟩ => ⟨⟨a, b hk⟩, c⟩⟩

/-! ### `rtcStep` unfolded -/

theorem rtcStep_fst (t : Tbl) (s : Rtm) (e : Bool) (m : Mem) (wd : Bool) :
    (rtcStep t s e m wd).1 = s.sync m wd := by
  unfold rtcStep
  dsimp only
  repeat' split
  all_goals rfl

theorem rtcStep_ann (t : Tbl) (s : Rtm) (m : Mem) (hb : s.has m.rt = false) :
    (rtcStep t s false m false).2 =
      (rtcCandidates t (s.add m) m.rt false).flatMap (fun p => rtcFilter (s.add m) p false none) := by
  unfold rtcStep
  dsimp only
  rw [sync_false, has_add_self, hb]
  rfl

theorem rtcStep_wd (t : Tbl) (s : Rtm) (e : Bool) (m : Mem) (hb : s.has m.rt = true)
    (ha : (s.sub m).has m.rt = false) :
    (rtcStep t s e m true).2 =
      ((rtcCandidates t (s.sub m) m.rt true).filter (fun p => !interested (s.sub m) p.ecs)).map
        (fun p => Msg.wd p.nlri) := by
  unfold rtcStep
  dsimp only
  rw [sync_true, ha, hb]
  rfl

theorem rtcFilter_int (s : Rtm) (p : VPath) (w : Bool) (old : Option VPath)
    (h : interested s p.ecs = true) :
    rtcFilter s p w old = [if w then Msg.wd p.nlri else Msg.adv p.nlri p.marker] := by
  unfold rtcFilter; rw [if_pos h]

/-- messages of a first announcement (any RT, default included) -/
theorem ann_msgs (t : Tbl) (s : Rtm) (m : Mem) (h : TblWF t) (hi : IdxInv t)
    (hb : s.has m.rt = false) (x : Msg) :
    x ∈ (rtcStep t s false m false).2 ↔
      ∃ b, t.best b.nlri = some b ∧ (m.rt ≠ 0 → m.rt ∈ keys b.ecs) ∧
        interested (s.add m) b.ecs = true ∧ x = Msg.adv b.nlri b.marker := by
  rw [rtcStep_ann t s m hb, List.mem_flatMap]
  have hint : ∀ b : VPath, (m.rt ≠ 0 → m.rt ∈ keys b.ecs) → interested (s.add m) b.ecs = true := by
    intro b hc
    by_cases h0 : m.rt = 0
    · apply interested_of_default
      have := has_add_self s m
      rw [h0] at this; exact this
    · exact interested_of_key _ _ _ (hc h0) (has_add_self s m)
  constructor
  · rintro ⟨b, hbc, hx⟩
    rw [cands_ann t _ _ h hi] at hbc
    have hib := hint b hbc.2
    rw [rtcFilter_int _ _ _ _ hib] at hx
    exact ⟨b, hbc.1, hbc.2, hib, by simpa using hx⟩
  · rintro ⟨b, hbb, hc, hib, rfl⟩
    refine ⟨b, (cands_ann t _ _ h hi b).2 ⟨hbb, hc⟩, ?_⟩
    rw [rtcFilter_int _ _ _ _ hib]; simp

/-- messages of a last withdrawal (any RT, default included) -/
theorem wd_msgs (t : Tbl) (s : Rtm) (e : Bool) (m : Mem) (h : TblWF t) (hi : IdxInv t)
    (hb : s.has m.rt = true) (ha : (s.sub m).has m.rt = false) (x : Msg) :
    x ∈ (rtcStep t s e m true).2 ↔
      ∃ b, t.best b.nlri = some b ∧ (m.rt ≠ 0 → m.rt ∈ keys b.ecs) ∧
        interested (s.sub m) b.ecs = false ∧ x = Msg.wd b.nlri := by
  rw [rtcStep_wd t s e m hb ha, List.mem_map]
  constructor
  · rintro ⟨b, hbf, rfl⟩
    rw [List.mem_filter] at hbf
    have hif : interested (s.sub m) b.ecs = false := by simpa using hbf.2
    obtain ⟨h1, h2, h3⟩ := (cands_wd t _ _ h hi b).1 ⟨hbf.1, hif⟩
    exact ⟨b, h1, h2, h3, rfl⟩
  · rintro ⟨b, hbb, hc, hif, rfl⟩
    have := (cands_wd t _ _ h hi b).2 ⟨hbb, hc, hif⟩
    exact ⟨b, List.mem_filter.2 ⟨this.1, by simp [hif]⟩, rfl⟩

/-! ### views -/

def mNlri : Msg → Nat × Nat
  | .adv n _ => n
  | .wd n => n

def mVal : Msg → Option Nat
  | .adv _ c => some c
  | .wd _ => none

theorem apply1_eq (v : View) (x : Msg) (n : Nat × Nat) :
    (v.apply1 x) n = if n = mNlri x then mVal x else v n := by
  cases x <;> rfl

theorem apply_cons (v : View) (x : Msg) (ms : List Msg) :
    v.apply (x :: ms) = (v.apply1 x).apply ms := rfl

theorem apply_single (v : View) (x : Msg) : v.apply [x] = v.apply1 x := rfl

theorem apply_nil (v : View) : v.apply [] = v := rfl

theorem apply_other (v : View) (ms : List Msg) (n : Nat × Nat) (h : ∀ x, x ∈ ms → mNlri x ≠ n) :
    (v.apply ms) n = v n := by
  induction ms generalizing v with
  | nil => rfl
  | cons x r ih =>
    rw [apply_cons, ih _ (fun y hy => h y (List.mem_cons.2 (Or.inr hy))), apply1_eq, if_neg]
    exact fun e => h x (List.mem_cons.2 (Or.inl rfl)) e.symm

theorem apply_const (v : View) (ms : List Msg) (n : Nat × Nat) (r : Option Nat)
    (h : ∀ x, x ∈ ms → mNlri x = n → mVal x = r) (hex : ∃ x, x ∈ ms ∧ mNlri x = n) :
    (v.apply ms) n = r := by
  induction ms generalizing v with
  | nil => obtain ⟨x, hx, _⟩ := hex; cases hx
  | cons x r' ih =>
    rw [apply_cons]
    by_cases hr : ∃ y, y ∈ r' ∧ mNlri y = n
    · exact ih _ (fun y hy => h y (List.mem_cons.2 (Or.inr hy))) hr
    · have hx : mNlri x = n := by
        obtain ⟨y, hy, hyn⟩ := hex
        rcases List.mem_cons.1 hy with rfl | hy
        · exact hyn
        · exact absurd ⟨y, hy, hyn⟩ hr
      rw [apply_other _ _ _ (fun y hy e => hr ⟨y, hy, e⟩), apply1_eq, if_pos hx.symm]
      exact h x (List.mem_cons.2 (Or.inl rfl)) hx

theorem viewOK_congr (t : Tbl) (s s' : Rtm) (v : View)
    (h : ∀ ecs, interested s' ecs = interested s ecs) (hv : ViewOK t s v) : ViewOK t s' v := by
  intro n
  rw [hv n]
  cases t.best n with
  | none => rfl
  | some b => dsimp only; rw [h]

/-- the view after a batch of advertisements (`adv = true`) or withdrawals (`adv = false`) of the
    best paths selected by RT `k` whose interest became `adv` -/
theorem view_after (t : Tbl) (s s' : Rtm) (v : View) (ms : List Msg) (k : Nat) (adv : Bool)
    (h : TblWF t) (hv : ViewOK t s v)
    (hms : ∀ x, x ∈ ms ↔ ∃ b, t.best b.nlri = some b ∧ (k ≠ 0 → k ∈ keys b.ecs) ∧
        interested s' b.ecs = adv ∧ x = (if adv then Msg.adv b.nlri b.marker else Msg.wd b.nlri))
    (hmono : ∀ ecs, interested s' ecs = (!adv) → interested s ecs = (!adv))
    (hoth : ∀ ecs, k ≠ 0 → k ∉ keys ecs → interested s' ecs = interested s ecs) :
    ViewOK t s' (v.apply ms) := by
  intro n
  have hvn := hv n
  -- every message about `n` comes from the best path of `n`
  have habout : ∀ x, x ∈ ms → mNlri x = n → ∃ b, t.best n = some b ∧
      (k ≠ 0 → k ∈ keys b.ecs) ∧ interested s' b.ecs = adv ∧
      mVal x = (if adv then some b.marker else none) := by
    intro x hx hxn
    obtain ⟨b, hbb, hc, hib, rfl⟩ := (hms x).1 hx
    have hbn : b.nlri = n := by
      cases adv
      · exact hxn
      · exact hxn
    rw [hbn] at hbb
    refine ⟨b, hbb, hc, hib, ?_⟩
    cases adv <;> rfl
  cases hbn : t.best n with
  | none =>
    rw [hbn] at hvn
    dsimp only at hvn ⊢
    rw [apply_other _ _ _ ?_, hvn]
    intro x hx hxn
    obtain ⟨b, hbb, _⟩ := habout x hx hxn
    rw [hbn] at hbb; cases hbb
  | some b =>
    rw [hbn] at hvn
    dsimp only at hvn ⊢
    have hbnl : b.nlri = n := best_nlri h hbn
    by_cases hsel : (k ≠ 0 → k ∈ keys b.ecs) ∧ interested s' b.ecs = adv
    · have hex : ∃ x, x ∈ ms ∧ mNlri x = n := by
        refine ⟨_, (hms _).2 ⟨b, best_self h hbn, hsel.1, hsel.2, rfl⟩, ?_⟩
        cases adv
        · exact hbnl
        · exact hbnl
      have hall : ∀ x, x ∈ ms → mNlri x = n → mVal x = (if adv then some b.marker else none) := by
        intro x hx hxn
        obtain ⟨b', hb', _, _, hval⟩ := habout x hx hxn
        rw [hbn] at hb'
        cases hb'
        exact hval
      rw [apply_const v ms n (if adv then some b.marker else none) hall hex, hsel.2]
    · rw [apply_other _ _ _ ?_, hvn]
      · have hint : interested s' b.ecs = interested s b.ecs := by
          by_cases hib : interested s' b.ecs = adv
          · have hnc : ¬ (k ≠ 0 → k ∈ keys b.ecs) := fun hc => hsel ⟨hc, hib⟩
            have hk0 : k ≠ 0 := fun e => hnc (fun h0 => absurd e h0)
            have hkn : k ∉ keys b.ecs := fun hm => hnc (fun _ => hm)
            exact hoth _ hk0 hkn
          · have h1 := bool_ne hib
            rw [h1, hmono _ h1]
        rw [hint]
      · intro x hx hxn
        obtain ⟨b', hb', hc, hib, _⟩ := habout x hx hxn
        rw [hbn] at hb'
        cases hb'
        exact hsel ⟨hc, hib⟩

/-! ### one destination -/

theorem removeSlot_mem (l : List VPath) (p x : VPath) : x ∈ (removeSlot l p).1 → x ∈ l := by
  induction l with
  | nil => intro h; simp [removeSlot] at h
  | cons q r ih =>
    by_cases hs : sameSlot p q = true
    · rw [removeSlot, if_pos hs]
      intro hx; exact List.mem_cons.2 (Or.inr hx)
    · rw [removeSlot, if_neg hs]
      intro hx
      rcases List.mem_cons.1 hx with e | hx
      · exact List.mem_cons.2 (Or.inl e)
      · exact List.mem_cons.2 (Or.inr (ih hx))

theorem insertSort_mem (l : List VPath) (p x : VPath) : x ∈ insertSort l p → x = p ∨ x ∈ l := by
  induction l with
  | nil => intro h; simp [insertSort] at h; exact Or.inl h
  | cons q r ih =>
    by_cases hs : q.pref < p.pref
    · rw [insertSort, if_pos hs]
      intro hx; exact List.mem_cons.1 hx
    · rw [insertSort, if_neg hs]
      intro hx
      rcases List.mem_cons.1 hx with e | hx
      · exact Or.inr (List.mem_cons.2 (Or.inl e))
      · rcases ih hx with e | hx
        · exact Or.inl e
        · exact Or.inr (List.mem_cons.2 (Or.inr hx))

theorem calcDest_mem (l : List VPath) (p : VPath) (wd : Bool) (x : VPath) :
    x ∈ (calcDest l p wd).1 → x ∈ l ∨ (x = p ∧ wd = false) := by
  cases wd
  · show x ∈ insertSort (removeSlot l p).1 p → _
    intro hx
    rcases insertSort_mem _ _ _ hx with e | hx
    · exact Or.inr ⟨e, rfl⟩
    · exact Or.inl (removeSlot_mem _ _ _ hx)
  · show x ∈ (removeSlot l p).1 → _
    intro hx
    exact Or.inl (removeSlot_mem _ _ _ hx)

theorem update_dest_self (t : Tbl) (p : VPath) (wd : Bool) :
    (t.update p wd).dest p.nlri = (calcDest (t.dest p.nlri) p wd).1 := by
  simp [Tbl.update]

theorem update_dest_other (t : Tbl) (p : VPath) (wd : Bool) (n : Nat × Nat) (hn : n ≠ p.nlri) :
    (t.update p wd).dest n = t.dest n := by
  simp [Tbl.update, hn]

theorem rtcFilter_nlri (s : Rtm) (p : VPath) (w : Bool) (old : Option VPath) (n0 : Nat × Nat)
    (hp : p.nlri = n0) (ho : ∀ o, old = some o → o.nlri = n0) :
    ∀ x, x ∈ rtcFilter s p w old → mNlri x = n0 := by
  intro x hx
  unfold rtcFilter at hx
  by_cases hi : interested s p.ecs = true
  · rw [if_pos hi] at hx
    have : x = if w then Msg.wd p.nlri else Msg.adv p.nlri p.marker := by simpa using hx
    subst this
    cases w
    · exact hp
    · exact hp
  · rw [if_neg hi] at hx
    cases old with
    | none => cases hx
    | some o =>
      dsimp only at hx
      by_cases hio : interested s o.ecs = true
      · rw [if_pos hio] at hx
        have : x = Msg.wd o.nlri := by simpa using hx
        subst this
        exact ho o rfl
      · rw [if_neg hio] at hx; cases hx

/-- equal content (everything but the two identities): same NLRI, marker and communities -/
theorem sameContent (a b : VPath)
    (h : ({ a with uid := 0, root := 0 } == { b with uid := 0, root := 0 }) = true) :
    a.nlri = b.nlri ∧ a.marker = b.marker ∧ a.ecs = b.ecs := by
  have h' := eq_of_beq h
  cases a; cases b
  simp only [VPath.mk.injEq] at h'
  obtain ⟨_, _, _, _, h5, h6, _, _, h9, h10⟩ := h'
  simp only [VPath.nlri]
  subst h5; subst h6
  exact ⟨rfl, h9, h10⟩

/-- `Path.Equal`: the same object (when path objects are told apart by uid) or equal content -/
theorem sameAs_content (a b : VPath) (huid : a.uid = b.uid → a = b) (h : a.sameAs b = true) :
    a.nlri = b.nlri ∧ a.marker = b.marker ∧ a.ecs = b.ecs := by
  unfold VPath.sameAs at h
  rcases Bool.or_eq_true_iff.1 h with hu | hc
  · rw [huid (eq_of_beq hu)]; exact ⟨rfl, rfl, rfl⟩
  · exact sameContent a b hc

/-- `onTableChange` in terms of the two heads -/
def otc (s : Rtm) (O N : Option VPath) : List Msg :=
  match N with
  | some b => if sameAsHead O b then [] else rtcFilter s b false O
  | none => match O with
    | none => []
    | some o => rtcFilter s o true (some o)

theorem onTableChange_eq (s : Rtm) (oldL newL : List VPath) :
    onTableChange s oldL newL = otc s oldL.head? newL.head? := rfl

theorem otc_nlri (s : Rtm) (O N : Option VPath) (n0 : Nat × Nat)
    (hO : ∀ o, O = some o → o.nlri = n0) (hN : ∀ b, N = some b → b.nlri = n0) :
    ∀ x, x ∈ otc s O N → mNlri x = n0 := by
  intro x hx
  unfold otc at hx
  cases N with
  | some b =>
    dsimp only at hx
    by_cases hu : sameAsHead O b = true
    · rw [if_pos hu] at hx; cases hx
    · rw [if_neg hu] at hx
      exact rtcFilter_nlri s b false O n0 (hN b rfl) hO x hx
  | none =>
    cases O with
    | none => cases hx
    | some o =>
      exact rtcFilter_nlri s o true (some o) n0 (hO o rfl) hO x hx

theorem rtcFilter_not (s : Rtm) (p : VPath) (w : Bool) (hi : ¬ interested s p.ecs = true) :
    rtcFilter s p w none = [] := by
  unfold rtcFilter; rw [if_neg hi]

theorem rtcFilter_old (s : Rtm) (p o : VPath) (w : Bool) (hi : ¬ interested s p.ecs = true) :
    rtcFilter s p w (some o) = if interested s o.ecs then [Msg.wd o.nlri] else [] := by
  unfold rtcFilter; rw [if_neg hi]

theorem apply1_wd_self (v : View) (n : Nat × Nat) : (v.apply1 (Msg.wd n)) n = none := by
  simp [View.apply1]

theorem apply1_adv_self (v : View) (n : Nat × Nat) (c : Nat) :
    (v.apply1 (Msg.adv n c)) n = some c := by
  simp [View.apply1]

/-- what `ViewOK` expects for a destination whose best path is `O` -/
def expect (s : Rtm) (O : Option VPath) : Option Nat :=
  match O with
  | some b => if interested s b.ecs then some b.marker else none
  | none => none

theorem otc_view (s : Rtm) (v : View) (n : Nat × Nat) (O N : Option VPath)
    (hO : ∀ o, O = some o → o.nlri = n) (hN : ∀ b, N = some b → b.nlri = n)
    (hsame : ∀ o b, O = some o → N = some b → b.sameAs o = true →
      b.marker = o.marker ∧ b.ecs = o.ecs)
    (hvn : v n = expect s O) :
    (v.apply (otc s O N)) n = expect s N := by
  unfold otc
  unfold expect at hvn ⊢
  cases N with
  | none =>
    cases O with
    | none => exact hvn
    | some o =>
      have hon := hO o rfl
      dsimp only at hvn ⊢
      by_cases hi : interested s o.ecs = true
      · rw [rtcFilter_int _ _ _ _ hi, apply_single]
        show (v.apply1 (Msg.wd o.nlri)) n = none
        rw [hon]; exact apply1_wd_self v n
      · rw [rtcFilter_old _ _ _ _ hi, if_neg hi, apply_nil]
        rw [if_neg hi] at hvn; exact hvn
  | some b =>
    have hbn := hN b rfl
    dsimp only
    by_cases hu : sameAsHead O b = true
    · rw [if_pos hu, apply_nil]
      cases O with
      | none => simp [sameAsHead] at hu
      | some o =>
        obtain ⟨e1, e2⟩ := hsame o b rfl rfl hu
        dsimp only at hvn
        rw [e1, e2]; exact hvn
    · rw [if_neg hu]
      by_cases hi : interested s b.ecs = true
      · rw [rtcFilter_int _ _ _ _ hi, if_pos hi, apply_single]
        show (v.apply1 (Msg.adv b.nlri b.marker)) n = some b.marker
        rw [hbn]; exact apply1_adv_self v n _
      · rw [if_neg hi]
        cases O with
        | none => rw [rtcFilter_not _ _ _ hi, apply_nil]; exact hvn
        | some o =>
          have hon := hO o rfl
          dsimp only at hvn
          rw [rtcFilter_old _ _ _ _ hi]
          by_cases hio : interested s o.ecs = true
          · rw [if_pos hio, apply_single, hon]; exact apply1_wd_self v n
          · rw [if_neg hio, apply_nil]
            rw [if_neg hio] at hvn; exact hvn

end ViewAux
open ViewAux

/-! ### the theorems -/

/-- a table update keeps "the RTC peer holds exactly the best paths it is interested in" -/
theorem rtc_table_step (t : Tbl) (s : Rtm) (v : View) (p : VPath) (wd : Bool)
    (h : TblWF t) (hf : wd = false → Fresh t p) (hv : ViewOK t s v) :
    ViewOK (t.update p wd) s (v.apply (onTableChange s (t.dest p.nlri) ((t.update p wd).dest p.nlri))) := by
  intro n
  rw [onTableChange_eq, update_dest_self]
  have hold : ∀ o, (t.dest p.nlri).head? = some o → o.nlri = p.nlri :=
    fun o ho => h.nlri_ok _ _ (mem_of_head? ho)
  have hnewmem : ∀ b, (calcDest (t.dest p.nlri) p wd).1.head? = some b →
      b ∈ t.dest p.nlri ∨ (b = p ∧ wd = false) :=
    fun b hb => calcDest_mem _ _ _ _ (mem_of_head? hb)
  have hnew : ∀ b, (calcDest (t.dest p.nlri) p wd).1.head? = some b → b.nlri = p.nlri := by
    intro b hb
    rcases hnewmem b hb with hm | ⟨e, _⟩
    · exact h.nlri_ok _ _ hm
    · rw [e]
  by_cases hn : n = p.nlri
  · subst hn
    have hbest : (t.update p wd).best p.nlri = (calcDest (t.dest p.nlri) p wd).1.head? := by
      unfold Tbl.best; rw [update_dest_self]
    rw [hbest]
    show _ = expect s _
    apply otc_view s v p.nlri _ _ hold hnew
    · intro o b ho hb hsa
      refine (sameAs_content b o ?_ hsa).2
      intro hu
      rcases hnewmem b hb with hm | ⟨e, hw⟩
      · exact h.uid_uniq _ _ b o hm (mem_of_head? ho) hu
      · subst e
        exact ((hf hw).1 _ o (mem_of_head? ho) hu.symm).symm
    · exact hv p.nlri
  · have hbest : (t.update p wd).best n = t.best n := by
      unfold Tbl.best; rw [update_dest_other _ _ _ _ hn]
    rw [hbest, apply_other _ _ _ ?_]
    · exact hv n
    · intro x hx e
      exact hn (e.symm.trans (otc_nlri s _ _ p.nlri hold hnew x hx))

/-- nothing is sent when the peer's interest in the RT does not change -/
theorem rtc_minimal_unchanged (t : Tbl) (s : Rtm) (e : Bool) (m : Mem) (wd : Bool)
    (hsame : (s.sync m wd).has m.rt = s.has m.rt) : (rtcStep t s e m wd).2 = [] := by
  unfold rtcStep
  dsimp only
  rw [hsame, if_pos (beq_self_eq_true _)]

/-- a membership announce/withdraw keeps it too (no RTC End-of-RIB wait pending) -/
theorem rtc_member_step (t : Tbl) (s : Rtm) (v : View) (m : Mem) (wd : Bool)
    (h : TblWF t) (hi : IdxInv t) (hv : ViewOK t s v) :
    ViewOK t (rtcStep t s false m wd).1 (v.apply (rtcStep t s false m wd).2) := by
  rw [rtcStep_fst]
  have hunch : (s.sync m wd).has m.rt = s.has m.rt →
      ViewOK t (s.sync m wd) (v.apply (rtcStep t s false m wd).2) := by
    intro hsame
    rw [rtc_minimal_unchanged t s false m wd hsame, apply_nil]
    exact viewOK_congr t s _ v
      (fun ecs => interested_congr s _ ecs (fun k _ => sync_same_has s m wd hsame k)) hv
  cases wd
  · by_cases hb : s.has m.rt = true
    · apply hunch
      rw [sync_false, has_add_self, hb]
    · have hb' : s.has m.rt = false := by simpa using hb
      rw [sync_false]
      apply view_after t s (s.add m) v _ m.rt true h hv
      · intro x
        rw [ann_msgs t s m h hi hb' x]
        rfl
      · intro ecs hie
        cases hh : interested s ecs with
        | false => rfl
        | true =>
          have := interested_mono s (s.add m) ecs (fun k _ hk => has_add_ge s m k hk) hh
          rw [this] at hie; cases hie
      · intro ecs h0 hk
        exact interested_sync_other s m false ecs h0 hk
  · by_cases ha : (s.sub m).has m.rt = true
    · apply hunch
      rw [sync_true, ha, has_sub_le s m _ ha]
    · have ha' : (s.sub m).has m.rt = false := by simpa using ha
      by_cases hb : s.has m.rt = true
      · rw [sync_true]
        apply view_after t s (s.sub m) v _ m.rt false h hv
        · intro x
          rw [wd_msgs t s false m h hi hb ha' x]
          rfl
        · intro ecs hie
          exact interested_mono (s.sub m) s ecs (fun k _ hk => has_sub_le s m k hk) hie
        · intro ecs h0 hk
          exact interested_sync_other s m true ecs h0 hk
      · have hb' : s.has m.rt = false := by simpa using hb
        apply hunch
        rw [sync_true, ha', hb']

/-- first interest in a specific RT: exactly the best paths carrying it are advertised, nothing is withdrawn -/
theorem rtc_minimal_announce (t : Tbl) (s : Rtm) (m : Mem) (h : TblWF t) (hi : IdxInv t)
    (hk : m.rt ≠ 0) (hb : s.has m.rt = false) (x : Msg) :
    x ∈ (rtcStep t s false m false).2 ↔
      ∃ b, t.best b.nlri = some b ∧ m.rt ∈ keys b.ecs ∧ x = Msg.adv b.nlri b.marker := by
  rw [ann_msgs t s m h hi hb x]
  constructor
  · rintro ⟨b, h1, h2, _, h4⟩
    exact ⟨b, h1, h2 hk, h4⟩
  · rintro ⟨b, h1, h2, h4⟩
    exact ⟨b, h1, fun _ => h2, interested_of_key _ _ _ h2 (has_add_self s m), h4⟩

/-- last interest in a specific RT: exactly the best paths carrying it that no remaining membership
    (another RT of the route, or the default) covers are withdrawn, nothing is advertised -/
theorem rtc_minimal_withdraw (t : Tbl) (s : Rtm) (e : Bool) (m : Mem) (h : TblWF t) (hi : IdxInv t)
    (hk : m.rt ≠ 0) (hb : s.has m.rt = true) (ha : (s.sub m).has m.rt = false) (x : Msg) :
    x ∈ (rtcStep t s e m true).2 ↔
      ∃ b, t.best b.nlri = some b ∧ m.rt ∈ keys b.ecs ∧ interested (s.sub m) b.ecs = false ∧ x = Msg.wd b.nlri := by
  rw [wd_msgs t s e m h hi hb ha x]
  constructor
  · rintro ⟨b, h1, h2, h3, h4⟩
    exact ⟨b, h1, h2 hk, h3, h4⟩
  · rintro ⟨b, h1, h2, h3, h4⟩
    exact ⟨b, h1, fun _ => h2, h3, h4⟩

end VrfRtc
