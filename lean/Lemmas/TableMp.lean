/-
C02 (table level) — helper lemmas, part E: the multipath notification stream
(`Update.GetMultiBestPathDiff`) is the set difference on (source, path-id) keys, and replaying it
reproduces the multipath set.  Core-only.
-/
import Model.Table
namespace Tbl

/-- no two members with the same (source, path-id): holds for every destination's path list
    (one path per source and path-id), hence for its multipath prefix -/
def KeysNodup (l : List TPath) : Prop := (l.map (fun x => (x.src, x.rid))).Nodup


theorem tE_keyEq_iff (a b : TPath) : a.keyEq b = true ↔ (a.src, a.rid) = (b.src, b.rid) := by
  simp only [TPath.keyEq, Bool.and_eq_true, beq_iff_eq, Prod.mk.injEq]

theorem tE_sub {l₁ l₂ : List TPath} (h : l₁.Sublist l₂) (hl : KeysNodup l₂) : KeysNodup l₁ :=
  List.Nodup.sublist (h.map _) hl

theorem tE_unique : ∀ (l : List TPath), KeysNodup l → ∀ a b, a ∈ l → b ∈ l →
    (a.src, a.rid) = (b.src, b.rid) → a = b := by
  intro l
  induction l with
  | nil => intro _ a b ha; cases ha
  | cons x r ih =>
    intro hl a b ha hb hk
    have hl' : ¬ (x.src, x.rid) ∈ r.map (fun x => (x.src, x.rid)) ∧ KeysNodup r := by
      have := hl
      simp only [KeysNodup, List.map_cons, List.nodup_cons] at this
      exact this
    rcases List.mem_cons.mp ha with ha | ha
    · rcases List.mem_cons.mp hb with hb | hb
      · rw [ha, hb]
      · exfalso; apply hl'.1
        rw [← ha, hk]
        exact List.mem_map.mpr ⟨b, hb, rfl⟩
    · rcases List.mem_cons.mp hb with hb | hb
      · exfalso; apply hl'.1
        rw [← hb, ← hk]
        exact List.mem_map.mpr ⟨a, ha, rfl⟩
      · exact ih hl'.2 a b ha hb hk

theorem tE_find_key (l : List TPath) (hl : KeysNodup l) (a : TPath) (ha : a ∈ l) :
    l.find? (fun n => (n.src, n.rid) == (a.src, a.rid)) = some a := by
  cases h : l.find? (fun n => (n.src, n.rid) == (a.src, a.rid)) with
  | none =>
    exfalso
    have := List.find?_eq_none.mp h a ha
    apply this
    simp only [beq_self_eq_true]
  | some b =>
    have hb := List.mem_of_find?_eq_some h
    have hk := List.find?_some h
    have hk' : (b.src, b.rid) = (a.src, a.rid) := by
      simpa only [beq_iff_eq] using hk
    rw [tE_unique l hl b a hb ha hk']

theorem tE_find_none (l : List TPath) (k : Nat × Nat) (h : ∀ x ∈ l, (x.src, x.rid) ≠ k) :
    l.find? (fun n => (n.src, n.rid) == k) = none := by
  apply List.find?_eq_none.mpr
  intro x hx hp
  exact h x hx (by simpa only [beq_iff_eq] using hp)

theorem tE_wdFrom (new : List TPath) : ∀ (rest seen : List TPath),
    (∀ s ∈ seen, ∀ o ∈ rest, s.keyEq o = false) → KeysNodup rest →
    mpWithdrawFrom new seen rest = rest.filter (fun o => !(new.any (fun n => n.keyEq o))) := by
  intro rest
  induction rest with
  | nil => intro seen _ _; rfl
  | cons o r ih =>
    intro seen hs hl
    have hl' : ¬ (o.src, o.rid) ∈ r.map (fun x => (x.src, x.rid)) ∧ KeysNodup r := by
      have := hl
      simp only [KeysNodup, List.map_cons, List.nodup_cons] at this
      exact this
    have hfirst : seen.any (fun s => s.keyEq o) = false := by
      apply List.any_eq_false.mpr
      intro s hs' hp
      have := hs s hs' o (List.mem_cons_self)
      rw [this] at hp
      cases hp
    have htail : ∀ s ∈ seen ++ [o], ∀ o' ∈ r, s.keyEq o' = false := by
      intro s hs' o' ho'
      rcases List.mem_append.mp hs' with h1 | h1
      · exact hs s h1 o' (List.mem_cons_of_mem _ ho')
      · have : s = o := by simpa using h1
        subst this
        cases hke : s.keyEq o' with
        | false => rfl
        | true =>
          exfalso; apply hl'.1
          rw [(tE_keyEq_iff s o').mp hke]
          exact List.mem_map.mpr ⟨o', ho', rfl⟩
    have ih' := ih (seen ++ [o]) htail hl'.2
    show (if (!(seen.any (fun s => s.keyEq o)) && new.any (fun n => n.keyEq o)) = true then [] else [o])
        ++ mpWithdrawFrom new (seen ++ [o]) r = _
    rw [ih', hfirst, List.filter_cons]
    cases hm : new.any (fun n => n.keyEq o) <;> simp

/-- the withdraw list is the set difference old ∖ new on (source, path-id) keys -/
theorem mpWithdraw_is_set_difference (old new : List TPath) (ho : KeysNodup old) :
    mpWithdraw old new = old.filter (fun o => !(new.any (fun n => n.keyEq o))) := by
  apply tE_wdFrom new old [] _ ho
  intro s hs
  cases hs

/-- the update list: the members of new whose key is not in old, or is there with other attributes -/
theorem mem_mpUpdate (old new : List TPath) (ho : KeysNodup old) (n : TPath) :
    n ∈ mpUpdate old new ↔
      n ∈ new ∧ ∀ o ∈ old, n.keyEq o = true → n.attrEq o = false := by
  cases h : old.find? (fun o => n.keyEq o) with
  | none =>
    simp only [mpUpdate, List.mem_filter, h]
    have hn := List.find?_eq_none.mp h
    constructor
    · intro ⟨h1, _⟩
      exact ⟨h1, fun o ho' hk => absurd hk (hn o ho')⟩
    · intro ⟨h1, _⟩
      exact ⟨h1, trivial⟩
  | some o =>
    simp only [mpUpdate, List.mem_filter, h]
    have hom := List.mem_of_find?_eq_some h
    have hok : n.keyEq o = true := List.find?_some h
    constructor
    · intro ⟨h1, h2⟩
      refine ⟨h1, ?_⟩
      intro o' ho' hk'
      have : o' = o := tE_unique old ho o' o ho' hom
        (((tE_keyEq_iff n o').mp hk').symm.trans ((tE_keyEq_iff n o).mp hok))
      rw [this]
      simpa using h2
    · intro ⟨h1, h2⟩
      refine ⟨h1, ?_⟩
      rw [h2 o hom hok]
      rfl

/-- replaying one notification on a consumer that mirrors the old multipath set yields the mirror
    of the new one -/
theorem mpApply_view (old new : List TPath) (ho : KeysNodup old) (hn : KeysNodup new) :
    mpApply (mpView old) (mpUpdate old new, mpWithdraw old new) = mpView new := by
  funext k
  have hUsub : (mpUpdate old new).Sublist new := List.filter_sublist
  have hUn : KeysNodup (mpUpdate old new) := tE_sub hUsub hn
  have hW := mpWithdraw_is_set_difference old new ho
  show (match (mpUpdate old new).find? (fun n => (n.src, n.rid) == k) with
      | some n => some n.val
      | none => if (mpWithdraw old new).any (fun o => (o.src, o.rid) == k) then none
          else (old.find? (fun n => (n.src, n.rid) == k)).map (·.val))
    = (new.find? (fun n => (n.src, n.rid) == k)).map (·.val)
  cases hN : new.find? (fun n => (n.src, n.rid) == k) with
  | some n =>
    have hnm := List.mem_of_find?_eq_some hN
    have hnk : (n.src, n.rid) = k := by
      simpa only [beq_iff_eq] using List.find?_some hN
    subst hnk
    by_cases hmem : n ∈ mpUpdate old new
    · rw [tE_find_key _ hUn n hmem]
      rfl
    · have hex : ∃ o, o ∈ old ∧ n.keyEq o = true ∧ n.attrEq o = true := by
        apply Classical.byContradiction
        intro hne
        apply hmem
        rw [mem_mpUpdate old new ho n]
        refine ⟨hnm, ?_⟩
        intro o ho' hk
        cases ha : n.attrEq o with
        | false => rfl
        | true => exact absurd ⟨o, ho', hk, ha⟩ hne
      obtain ⟨o, hom, hok, hoa⟩ := hex
      have hkey := (tE_keyEq_iff n o).mp hok
      have hU : (mpUpdate old new).find? (fun x => (x.src, x.rid) == (n.src, n.rid)) = none := by
        apply tE_find_none
        intro x hx hxk
        have : x = n := tE_unique new hn x n (hUsub.subset hx) hnm hxk
        exact hmem (this ▸ hx)
      have hWa : (mpWithdraw old new).any (fun x => (x.src, x.rid) == (n.src, n.rid)) = false := by
        apply List.any_eq_false.mpr
        intro x hx hp
        rw [hW] at hx
        have hx' := List.mem_filter.mp hx
        have hxk : (x.src, x.rid) = (n.src, n.rid) := by simpa only [beq_iff_eq] using hp
        have : x = o := tE_unique old ho x o hx'.1 hom (hxk.trans hkey)
        have hany : new.any (fun m => m.keyEq x) = true :=
          List.any_eq_true.mpr ⟨n, hnm, this ▸ hok⟩
        have h2 := hx'.2
        rw [hany] at h2
        cases h2
      rw [hU]
      simp only [hWa]
      rw [hkey, tE_find_key old ho o hom]
      have : n.val = o.val := by simpa only [TPath.attrEq, beq_iff_eq] using hoa
      simp [this]
  | none =>
    have hNn := List.find?_eq_none.mp hN
    have hNk : ∀ x ∈ new, (x.src, x.rid) ≠ k := by
      intro x hx hxk
      exact hNn x hx (by simpa only [beq_iff_eq] using hxk)
    have hU : (mpUpdate old new).find? (fun x => (x.src, x.rid) == k) = none :=
      tE_find_none _ k (fun x hx => hNk x (hUsub.subset hx))
    rw [hU]
    cases hO : old.find? (fun n => (n.src, n.rid) == k) with
    | some o =>
      have hom := List.mem_of_find?_eq_some hO
      have hok : (o.src, o.rid) = k := by
        simpa only [beq_iff_eq] using List.find?_some hO
      have hWa : (mpWithdraw old new).any (fun x => (x.src, x.rid) == k) = true := by
        apply List.any_eq_true.mpr
        refine ⟨o, ?_, by simpa only [beq_iff_eq] using hok⟩
        rw [hW]
        apply List.mem_filter.mpr
        refine ⟨hom, ?_⟩
        have : new.any (fun m => m.keyEq o) = false := by
          apply List.any_eq_false.mpr
          intro m hm hp
          exact hNk m hm (((tE_keyEq_iff m o).mp hp).trans hok)
        rw [this]
        rfl
      simp [hWa]
    | none =>
      have hOn := List.find?_eq_none.mp hO
      have hWa : (mpWithdraw old new).any (fun x => (x.src, x.rid) == k) = false := by
        apply List.any_eq_false.mpr
        intro x hx hp
        rw [hW] at hx
        exact hOn x (List.mem_filter.mp hx).1 hp
      simp [hWa]

/-- a prefix (in particular the multipath run) of a key-duplicate-free list is key-duplicate-free -/
theorem keysNodup_multiBest (l : List TPath) (hl : KeysNodup l) : KeysNodup (multiBest l) := by
  cases l with
  | nil => exact hl
  | cons b r =>
    exact tE_sub (List.Sublist.cons_cons b (List.takeWhile_sublist _)) hl

end Tbl
