/-
  C15, import side at the level of the abstract Loc-RIB content (`BestPath.spec`): replaying the
  accepted Adj-RIB-In through the current import policy (softResetIn) after ANY history in which
  every event was evaluated under whatever policy was in force when it arrived, yields the same
  content as the history evaluated under the current policy throughout.
-/
import Lemmas.BestPathHist
import Model.SoftResetEv
namespace SoftResetIn
open BestPath

/-- the accepted Adj-RIB-In entries for the destination: latest un-withdrawn announcement per key -/
def adjOf (evs : List Ev) : List Cand := spec (evs.map rawOp)

/-- the Loc-RIB operations of a history whose events were each evaluated under their own policy -/
def hist (evs : List (Ev × (Cand → Option Cand))) : List Op := evs.map (fun p => opOf p.2 p.1)

/-- softResetIn: every Adj-RIB-In entry goes through propagateUpdate again -/
def softOps (f : Cand → Option Cand) (A : List Cand) : List Op := A.map (fun c => opOf f (.ann c))

/-! ### keys -/

theorem sameKey_refl (a : Cand) : sameKey a a = true := by
  simp [sameKey, Src.equal]

theorem sameKey_left {f : Cand → Option Cand} (hk : KeyPres f) {c c' : Cand} (h : f c = some c')
    (y : Cand) : sameKey c' y = sameKey c y := by
  obtain ⟨h1, h2⟩ := hk c c' h
  unfold sameKey
  rw [h1, h2]

theorem sameKey_right {f : Cand → Option Cand} (hk : KeyPres f) {c c' : Cand} (h : f c = some c')
    (y : Cand) : sameKey y c' = sameKey y c := by
  rw [sameKey_symm y c', sameKey_symm y c, sameKey_left hk h]

/-! ### one step, in uniform shape -/

theorem step_ann {f : Cand → Option Cand} (hk : KeyPres f) (S : List Cand) (c : Cand) :
    specStep S (opOf f (.ann c)) = (f c).toList ++ S.filter (fun y => !sameKey c y) := by
  cases h : f c with
  | none =>
    simp only [opOf, h, specStep, Option.toList, List.nil_append]
    apply List.filter_congr
    intro y _
    rw [sameKey_symm]
  | some c' =>
    simp only [opOf, h, specStep, Option.toList, List.singleton_append]
    congr 1
    apply List.filter_congr
    intro y _
    rw [sameKey_left hk h]

theorem step_wd (f : Cand → Option Cand) (S : List Cand) (c : Cand) :
    specStep S (opOf f (.wd c)) = S.filter (fun y => !sameKey c y) := by
  simp only [opOf, specStep]
  apply List.filter_congr
  intro y _
  rw [sameKey_symm]

theorem raw_ann (A : List Cand) (c : Cand) :
    specStep A (rawOp (.ann c)) = c :: A.filter (fun y => !sameKey c y) := rfl

theorem raw_wd (A : List Cand) (c : Cand) :
    specStep A (rawOp (.wd c)) = A.filter (fun y => !sameKey c y) := by
  simp only [rawOp, specStep]
  apply List.filter_congr
  intro y _
  rw [sameKey_symm]

/-! ### L3: the policy image of the Adj-RIB-In tracks the fresh evaluation -/

theorem filter_filterMap_key {f : Cand → Option Cand} (hk : KeyPres f) (c : Cand) (A : List Cand) :
    (A.filterMap f).filter (fun y => !sameKey c y) =
      (A.filter (fun y => !sameKey c y)).filterMap f := by
  induction A with
  | nil => rfl
  | cons a A ih =>
    cases h : f a with
    | none =>
      cases hc : sameKey c a <;> simp [h, hc, ih]
    | some a' =>
      have hk' : sameKey c a' = sameKey c a := sameKey_right hk h c
      cases hc : sameKey c a <;>
        simp [h, hc, hk' ▸ hc, ih]

theorem sim_step {f : Cand → Option Cand} (hk : KeyPres f) (A : List Cand) (e : Ev) :
    specStep (A.filterMap f) (opOf f e) = (specStep A (rawOp e)).filterMap f := by
  cases e with
  | ann c =>
    rw [step_ann hk, raw_ann, filter_filterMap_key hk, List.filterMap_cons]
    cases h : f c <;> simp
  | wd c =>
    rw [step_wd, raw_wd, filter_filterMap_key hk]

theorem sim_fold {f : Cand → Option Cand} (hk : KeyPres f) (E : List Ev) :
    ∀ A : List Cand, (E.map (opOf f)).foldl specStep (A.filterMap f) =
      ((E.map rawOp).foldl specStep A).filterMap f := by
  induction E with
  | nil => intro A; rfl
  | cons e E ih =>
    intro A
    simp only [List.map_cons, List.foldl_cons]
    rw [sim_step hk, ih]

/-- fresh evaluation under `f` = policy image of the Adj-RIB-In -/
theorem fresh_eq {f : Cand → Option Cand} (hk : KeyPres f) (E : List Ev) :
    spec (E.map (opOf f)) = (adjOf E).filterMap f := by
  have := sim_fold hk E []
  simpa [spec, adjOf] using this

/-! ### L1: every Loc-RIB entry has its key in the Adj-RIB-In -/

def Covered (S A : List Cand) : Prop := ∀ x ∈ S, ∃ a ∈ A, sameKey a x = true

theorem covered_filter {S A : List Cand} (h : Covered S A) (c : Cand) :
    Covered (S.filter (fun y => !sameKey c y)) (A.filter (fun y => !sameKey c y)) := by
  intro x hx
  rw [List.mem_filter] at hx
  obtain ⟨hxS, hcx⟩ := hx
  obtain ⟨a, haA, hax⟩ := h x hxS
  refine ⟨a, ?_, hax⟩
  rw [List.mem_filter]
  refine ⟨haA, ?_⟩
  cases hca : sameKey c a
  · rfl
  · have : sameKey c x = true := sameKey_trans c a x hca hax
    simp [this] at hcx

theorem nodupKey_raw {A : List Cand} (h : NodupKey A) (e : Ev) :
    NodupKey (specStep A (rawOp e)) := by
  cases e with
  | ann c =>
    rw [raw_ann]
    unfold NodupKey
    rw [List.pairwise_cons]
    refine ⟨?_, nodupKey_filter A _ h⟩
    intro y hy
    have := (List.mem_filter.mp hy).2
    simpa using this
  | wd c =>
    rw [raw_wd]
    exact nodupKey_filter A _ h

theorem covered_step {f : Cand → Option Cand} (hk : KeyPres f) {S A : List Cand}
    (h : Covered S A) (e : Ev) : Covered (specStep S (opOf f e)) (specStep A (rawOp e)) := by
  cases e with
  | ann c =>
    rw [step_ann hk, raw_ann]
    intro x hx
    rw [List.mem_append] at hx
    rcases hx with hx | hx
    · refine ⟨c, List.mem_cons_self, ?_⟩
      have hfc : f c = some x := by
        cases hfc : f c with
        | none => simp [hfc] at hx
        | some c' => simp [hfc] at hx; rw [hx]
      rw [sameKey_right hk hfc]
      exact sameKey_refl c
    · obtain ⟨a, ha, hax⟩ := covered_filter h c x hx
      exact ⟨a, List.mem_cons_of_mem _ ha, hax⟩
  | wd c =>
    rw [step_wd, raw_wd]
    exact covered_filter h c

theorem inv_fold (evs : List (Ev × (Cand → Option Cand))) (hk : ∀ p ∈ evs, KeyPres p.2) :
    ∀ S A : List Cand, NodupKey A → Covered S A →
      NodupKey (((evs.map (·.1)).map rawOp).foldl specStep A) ∧
        Covered ((hist evs).foldl specStep S) (((evs.map (·.1)).map rawOp).foldl specStep A) := by
  induction evs with
  | nil => intro S A hn hc; exact ⟨hn, hc⟩
  | cons p evs ih =>
    intro S A hn hc
    simp only [hist, List.map_cons, List.foldl_cons]
    have hkp : KeyPres p.2 := hk p List.mem_cons_self
    have hk' : ∀ q ∈ evs, KeyPres q.2 := fun q hq => hk q (List.mem_cons_of_mem _ hq)
    exact ih hk' _ _ (nodupKey_raw hn p.1) (covered_step hkp hc p.1)

theorem inv_hist (evs : List (Ev × (Cand → Option Cand))) (hk : ∀ p ∈ evs, KeyPres p.2) :
    NodupKey (adjOf (evs.map (·.1))) ∧ Covered (spec (hist evs)) (adjOf (evs.map (·.1))) :=
  inv_fold evs hk [] [] List.Pairwise.nil (fun _ h => by simp at h)

/-! ### L2: what a soft reset does to an arbitrary content -/

theorem soft_fold {f : Cand → Option Cand} (hk : KeyPres f) (B : List Cand) :
    ∀ S : List Cand, NodupKey B →
      (softOps f B).foldl specStep S =
        B.reverse.filterMap f ++ S.filter (fun x => !B.any (fun b => sameKey b x)) := by
  induction B with
  | nil =>
    intro S _
    simp only [softOps, List.map_nil, List.foldl_nil, List.reverse_nil, List.filterMap_nil,
      List.nil_append, List.any_nil, Bool.not_false]
    symm
    rw [List.filter_eq_self]
    intro _ _
    rfl
  | cons b B ih =>
    intro S hn
    unfold NodupKey at hn
    rw [List.pairwise_cons] at hn
    obtain ⟨hb, hn'⟩ := hn
    have hsoft : softOps f (b :: B) = opOf f (.ann b) :: softOps f B := rfl
    rw [hsoft, List.foldl_cons, step_ann hk, ih _ hn', List.filter_append, List.reverse_cons,
      List.filterMap_append, List.append_assoc]
    congr 1
    have h1 : (f b).toList.filter (fun x => !B.any (fun b => sameKey b x)) = (f b).toList := by
      rw [List.filter_eq_self]
      intro x hx
      have hfb : f b = some x := by
        cases hfb : f b with
        | none => simp [hfb] at hx
        | some c' => simp [hfb] at hx; rw [hx]
      have : B.any (fun y => sameKey y x) = false := by
        rw [List.any_eq_false]
        intro y hy
        rw [sameKey_right hk hfb, sameKey_symm, hb y hy]
        simp
      simp [this]
    have h2 : [b].filterMap f = (f b).toList := by
      cases h : f b <;> simp [h]
    rw [h1, h2, List.filter_filter]
    congr 1
    apply List.filter_congr
    intro x _
    simp [List.any_cons, Bool.and_comm]

theorem soft_covered {f : Cand → Option Cand} (hk : KeyPres f) (A S : List Cand)
    (hn : NodupKey A) (hc : Covered S A) :
    (softOps f A).foldl specStep S = A.reverse.filterMap f := by
  rw [soft_fold hk A S hn]
  have : S.filter (fun x => !A.any (fun b => sameKey b x)) = [] := by
    rw [List.filter_eq_nil_iff]
    intro x hx
    obtain ⟨a, ha, hax⟩ := hc x hx
    have : A.any (fun b => sameKey b x) = true := List.any_eq_true.mpr ⟨a, ha, hax⟩
    simp [this]
  rw [this, List.append_nil]

theorem covered_image {f : Cand → Option Cand} (hk : KeyPres f) (A : List Cand) :
    Covered (A.reverse.filterMap f) A := by
  intro x hx
  rw [List.mem_filterMap] at hx
  obtain ⟨a, ha, hfa⟩ := hx
  refine ⟨a, List.mem_reverse.mp ha, ?_⟩
  rw [sameKey_right hk hfa]
  exact sameKey_refl a

/-- content after history + soft reset in, as a list -/
theorem spec_soft_eq (f1 : Cand → Option Cand) (evs : List (Ev × (Cand → Option Cand)))
    (hk1 : KeyPres f1) (hk : ∀ p ∈ evs, KeyPres p.2) :
    spec (hist evs ++ softOps f1 (adjOf (evs.map (·.1)))) =
      (adjOf (evs.map (·.1))).reverse.filterMap f1 := by
  obtain ⟨hn, hc⟩ := inv_hist evs hk
  have : spec (hist evs ++ softOps f1 (adjOf (evs.map (·.1)))) =
      (softOps f1 (adjOf (evs.map (·.1)))).foldl specStep (spec (hist evs)) := by
    unfold spec
    rw [List.foldl_append]
  rw [this]
  exact soft_covered hk1 _ _ hn hc

/-- content after history + soft reset in = content of the same events under the current policy -/
theorem spec_soft_eq_fresh (f1 : Cand → Option Cand) (evs : List (Ev × (Cand → Option Cand)))
    (hk1 : KeyPres f1) (hk : ∀ p ∈ evs, KeyPres p.2) :
    (spec (hist evs ++ softOps f1 (adjOf (evs.map (·.1))))).Perm
      (spec ((evs.map (·.1)).map (opOf f1))) := by
  rw [spec_soft_eq f1 evs hk1 hk, fresh_eq hk1]
  exact (List.reverse_perm _).filterMap f1

/-- a second soft reset in changes nothing -/
theorem spec_soft_idem (f1 : Cand → Option Cand) (evs : List (Ev × (Cand → Option Cand)))
    (hk1 : KeyPres f1) (hk : ∀ p ∈ evs, KeyPres p.2) :
    (spec (hist evs ++ softOps f1 (adjOf (evs.map (·.1))) ++ softOps f1 (adjOf (evs.map (·.1))))).Perm
      (spec (hist evs ++ softOps f1 (adjOf (evs.map (·.1))))) := by
  obtain ⟨hn, _⟩ := inv_hist evs hk
  have : spec (hist evs ++ softOps f1 (adjOf (evs.map (·.1))) ++
        softOps f1 (adjOf (evs.map (·.1)))) =
      (softOps f1 (adjOf (evs.map (·.1)))).foldl specStep
        (spec (hist evs ++ softOps f1 (adjOf (evs.map (·.1))))) := by
    unfold spec
    rw [List.foldl_append]
  rw [this, spec_soft_eq f1 evs hk1 hk,
    soft_covered hk1 _ _ hn (covered_image hk1 _)]

end SoftResetIn

/-! ### order independence when several routes share a neighbour (ADD-PATH receive)

  C03's `C03_order_independent` asks for pairwise different neighbour addresses. With ADD-PATH
  receive a neighbour contributes several routes (one per path-id) to a destination; what the
  argument really needs is that no two DIFFERENT live routes tie in the whole decision process
  (equal preference keys). Different neighbour addresses imply that; so does, for the routes of
  one neighbour, any difference in LOCAL_PREF, AS_PATH length, ORIGIN, MED or (eBGP) age. -/
namespace SoftResetIn
open BestPath Lex

theorem spec_sub_opCands (ops : List Op) : ∀ c ∈ spec ops, c ∈ opCands ops := by
  have : ∀ (ops : List Op) (S : List Cand) (U : List Cand), (∀ c ∈ S, c ∈ U) →
      (∀ c ∈ opCands ops, c ∈ U) → ∀ c ∈ ops.foldl specStep S, c ∈ U := by
    intro ops
    induction ops with
    | nil => intro S U hS _ c hc; exact hS c hc
    | cons op rest ih =>
      intro S U hS hops c hc
      simp only [List.foldl_cons] at hc
      refine ih _ U ?_ ?_ c hc
      · intro y hy
        cases op with
        | ann d =>
          simp only [specStep, List.mem_cons] at hy
          rcases hy with rfl | hy
          · apply hops; simp [opCands, Op.cands]
          · exact hS y (List.mem_filter.mp hy).1
        | wd d =>
          simp only [specStep] at hy
          exact hS y (List.mem_filter.mp hy).1
      · intro y hy; apply hops
        simp only [opCands, List.flatMap_cons, List.mem_append]; right; exact hy
  exact this ops [] _ (by simp) (fun c hc => hc)

/-- two histories with the same live candidate set in which no two different live candidates
    have the same preference key produce the same path list -/
theorem order_independent_keys (o : Opts) (ops1 ops2 : List Op)
    (wf : SetWF o (opCands ops1 ++ opCands ops2))
    (distinct : (spec ops1).Pairwise (fun a b => key o a ≠ key o b))
    (same : (spec ops1).Perm (spec ops2)) :
    run o ops1 = run o ops2 := by
  have wf1 : SetWF o (opCands ops1) := wf.sub (fun x hx => List.mem_append_left _ hx)
  have wf2 : SetWF o (opCands ops2) := wf.sub (fun x hx => List.mem_append_right _ hx)
  obtain ⟨s1, _, p1⟩ := run_inv o ops1 wf1
  obtain ⟨s2, _, p2⟩ := run_inv o ops2 wf2
  have hperm : (run o ops1).Perm (run o ops2) := p1.trans (same.trans p2.symm)
  have sub1 := spec_sub_opCands ops1
  apply List.Perm.eq_of_pairwise (le := fun a b => better o a b = true) _ s1 s2 hperm
  intro a b ha hb hab hba
  have ha1 : a ∈ spec ops1 := p1.subset ha
  have hb1 : b ∈ spec ops1 := (same.symm.subset (p2.subset hb))
  have wab : PairWF o a b := wf a (List.mem_append_left _ (sub1 a ha1)) b
    (List.mem_append_left _ (sub1 b hb1))
  have wba : PairWF o b a := wf b (List.mem_append_left _ (sub1 b hb1)) a
    (List.mem_append_left _ (sub1 a ha1))
  rw [better_eq_lex o a b wab] at hab
  rw [better_eq_lex o b a wba] at hba
  have hk := lexLe_antisymm _ _ (by simp [key_length]) hab hba
  by_cases e : a = b
  · exact e
  · exfalso
    rcases List.mem_iff_append.mp ha1 with ⟨l1, l2, hl⟩
    rw [hl] at hb1 distinct
    rw [List.pairwise_append] at distinct
    rcases List.mem_append.mp hb1 with hb' | hb'
    · exact distinct.2.2 b hb' a List.mem_cons_self hk.symm
    · rw [List.mem_cons] at hb'
      rcases hb' with rfl | hb'
      · exact e rfl
      · exact (List.pairwise_cons.mp distinct.2.1).1 b hb' hk

end SoftResetIn
