/-
  Helper lemmas for C03: the comparator chain is a lexicographic comparison of a documented
  key; Go's binary search finds the partition point of a monotone predicate; binary insertion
  keeps a list sorted.
-/
import Model.BestPath
import Lemmas.Lex
namespace BestPath
open Lex

def b2i (b : Bool) : Int := if b then 1 else 0

theorem b2i_lt (a b : Bool) : b2i a < b2i b ↔ (a = false ∧ b = true) := by
  cases a <;> cases b <;> simp [b2i]

theorem b2i_eq (a b : Bool) : b2i a = b2i b ↔ a = b := by
  cases a <;> cases b <;> simp [b2i]

/-- The documented preference, as a key compared lexicographically, lower = preferred:
    not LLGR-stale, reachable, highest LOCAL_PREF, local origin, shortest AS_PATH (unless
    ignored), lowest ORIGIN, lowest MED, external over internal, oldest (external only, unless
    external-compare-router-id), lowest router-id, lowest neighbour address. -/
def key (o : Opts) (c : Cand) : List Int :=
  [ b2i c.stale,
    b2i c.nhInvalid,
    -(c.getLocalPref : Int),
    if c.isLocal then 0 else 1,
    if o.ignoreAsPathLen then 0 else (asPathLen c : Int),
    ((c.origin.getD 0 : Nat) : Int),
    (c.getMed : Int),
    b2i c.isInternal,
    if !c.isInternal && !o.extCompareRouterId then (c.ts : Int) else 0,
    if o.extCompareRouterId || c.isInternal then (c.src.rid : Int) else 0,
    match c.src.addr with | none => 0 | some p => (p : Int) + 1 ]

theorem key_length (o : Opts) (c : Cand) : (key o c).length = 11 := rfl

/-- Well-formedness of a pair of candidates: the preconditions the property states (MED
    comparable) plus what every installed route satisfies (ORIGIN is mandatory; there is one
    local source). -/
structure PairWF (o : Opts) (a b : Cand) : Prop where
  med    : medComparable o a b = true
  origA  : a.origin.isSome = true
  origB  : b.origin.isSome = true
  local1 : a.isLocal = true → b.isLocal = true → a.src.equal b.src = true

theorem srcEqual_addr {a b : Src} (h : a.equal b = true) : a.addr = b.addr := by
  simp [Src.equal] at h; exact h.2

theorem srcEqual_rid {a b : Src} (h : a.equal b = true) : a.rid = b.rid := by
  simp [Src.equal] at h; exact h.1.1.2

theorem chain_agree (o : Opts) (a b : Cand) (wf : PairWF o a b) :
    Agree (chain o a b) (key o a) (key o b) := by
  unfold chain key
  -- 1 LLGR
  unfold Agree
  refine ⟨?_, ?_, fun e1 => Or.inl ⟨?_, ?_⟩⟩
  · intro h; rw [b2i_lt] at h; simp [cLLGR, h.1, h.2]
  · intro h; rw [b2i_lt] at h; simp [cLLGR, h.1, h.2]
  · rw [b2i_eq] at e1; simp [cLLGR, e1]
  -- 2 reachable
  unfold Agree
  refine ⟨?_, ?_, fun e2 => Or.inl ⟨?_, ?_⟩⟩
  · intro h; rw [b2i_lt] at h; simp [cReach, h.1, h.2]
  · intro h; rw [b2i_lt] at h; simp [cReach, h.1, h.2]
  · rw [b2i_eq] at e2; simp [cReach, e2]
  -- 3 local pref
  unfold Agree
  refine ⟨?_, ?_, fun e3 => Or.inl ⟨?_, ?_⟩⟩
  · intro h
    have : a.getLocalPref > b.getLocalPref := by omega
    simp [cLocalPref, this]
  · intro h
    have h1 : ¬ a.getLocalPref > b.getLocalPref := by omega
    have h2 : a.getLocalPref < b.getLocalPref := by omega
    simp [cLocalPref, h1, h2]
  · have h1 : ¬ a.getLocalPref > b.getLocalPref := by omega
    have h2 : ¬ a.getLocalPref < b.getLocalPref := by omega
    simp [cLocalPref, h1, h2]
  -- 4 local origin
  unfold Agree
  refine ⟨?_, ?_, fun e4 => Or.inl ⟨?_, ?_⟩⟩
  · intro h
    have ha : a.isLocal = true := by
      cases hh : a.isLocal <;> cases hb : b.isLocal <;> simp [hh, hb] at h ⊢
    have hb : b.isLocal = false := by
      cases hh : a.isLocal <;> cases hb : b.isLocal <;> simp [hh, hb] at h ⊢
    have hne : a.src.equal b.src = false := by
      cases he : a.src.equal b.src
      · rfl
      · have := srcEqual_addr he
        unfold Cand.isLocal at ha hb
        rw [this] at ha
        rw [ha] at hb
        cases hb
    simp [cLocalOrigin, hne, ha]
  · intro h
    have ha : a.isLocal = false := by
      cases hh : a.isLocal <;> cases hb : b.isLocal <;> simp [hh, hb] at h ⊢
    have hb : b.isLocal = true := by
      cases hh : a.isLocal <;> cases hb : b.isLocal <;> simp [hh, hb] at h ⊢
    have hne : a.src.equal b.src = false := by
      cases he : a.src.equal b.src
      · rfl
      · have := srcEqual_addr he
        unfold Cand.isLocal at ha hb
        rw [this] at ha
        rw [ha] at hb
        cases hb
    simp [cLocalOrigin, hne, ha, hb]
  · have hl : a.isLocal = b.isLocal := by
      cases hh : a.isLocal <;> cases hb : b.isLocal <;> simp [hh, hb] at e4 ⊢
    cases he : a.src.equal b.src
    · cases ha : a.isLocal
      · have hb : b.isLocal = false := by rw [← hl]; exact ha
        simp [cLocalOrigin, he, ha, hb]
      · have hb : b.isLocal = true := by rw [← hl]; exact ha
        have := wf.local1 ha hb
        simp [he] at this
    · simp [cLocalOrigin, he]
  -- 5 AS_PATH length
  unfold Agree
  refine ⟨?_, ?_, fun e5 => Or.inl ⟨?_, ?_⟩⟩
  · intro h
    cases hi : o.ignoreAsPathLen
    · simp [hi] at h
      have h1 : ¬ asPathLen a > asPathLen b := by omega
      simp [cAsPath, hi, h1, h]
    · simp [hi] at h
  · intro h
    cases hi : o.ignoreAsPathLen
    · simp [hi] at h
      have h1 : asPathLen a > asPathLen b := by omega
      simp [cAsPath, hi, h1]
    · simp [hi] at h
  · cases hi : o.ignoreAsPathLen
    · simp [hi] at e5
      have h1 : ¬ asPathLen a > asPathLen b := by omega
      have h2 : ¬ asPathLen a < asPathLen b := by omega
      simp [cAsPath, hi, h1, h2]
    · simp [cAsPath, hi]
  -- 6 origin
  have ⟨oa, hoa⟩ := Option.isSome_iff_exists.mp wf.origA
  have ⟨ob, hob⟩ := Option.isSome_iff_exists.mp wf.origB
  unfold Agree
  refine ⟨?_, ?_, fun e6 => Or.inl ⟨?_, ?_⟩⟩
  · intro h
    simp [hoa, hob] at h
    have h1 : oa ≠ ob := by omega
    have h2 : oa < ob := by omega
    simp [cOrigin, hoa, hob, h1, h2]
  · intro h
    simp [hoa, hob] at h
    have h1 : oa ≠ ob := by omega
    have h2 : ¬ oa < ob := by omega
    simp [cOrigin, hoa, hob, h1, h2]
  · simp [hoa, hob] at e6
    have e6' : oa = ob := by omega
    simp [cOrigin, hoa, hob, e6']
  -- 7 MED
  unfold Agree
  refine ⟨?_, ?_, fun e7 => Or.inl ⟨?_, ?_⟩⟩
  · intro h
    have h1 : a.getMed ≠ b.getMed := by omega
    have h2 : a.getMed < b.getMed := by omega
    simp [cMed, wf.med, h1, h2]
  · intro h
    have h1 : a.getMed ≠ b.getMed := by omega
    have h2 : ¬ a.getMed < b.getMed := by omega
    simp [cMed, wf.med, h1, h2]
  · have h1 : a.getMed = b.getMed := by omega
    simp [cMed, wf.med, h1]
  -- 8 external over internal
  unfold Agree
  refine ⟨?_, ?_, fun e8 => Or.inl ⟨?_, ?_⟩⟩
  · intro h; rw [b2i_lt] at h; simp [cAsNumber, h.1, h.2]
  · intro h; rw [b2i_lt] at h; simp [cAsNumber, h.1, h.2]
  · rw [b2i_eq] at e8; simp [cAsNumber, e8]
  rw [b2i_eq] at e8
  -- 9 age
  unfold Agree
  refine ⟨?_, ?_, fun e9 => Or.inl ⟨?_, ?_⟩⟩
  · intro h
    rw [← e8] at h
    cases hi : a.isInternal <;> cases hx : o.extCompareRouterId <;> simp [hi, hx] at h
    have h1 : a.ts ≠ b.ts := by omega
    have h2 : a.ts < b.ts := by omega
    simp [cAge, ← e8, hi, hx, h1, h2]
  · intro h
    rw [← e8] at h
    cases hi : a.isInternal <;> cases hx : o.extCompareRouterId <;> simp [hi, hx] at h
    have h1 : a.ts ≠ b.ts := by omega
    have h2 : ¬ a.ts < b.ts := by omega
    simp [cAge, ← e8, hi, hx, h1, h2]
  · rw [← e8] at e9
    cases hi : a.isInternal <;> cases hx : o.extCompareRouterId <;> simp [hi, hx] at e9 <;>
      simp [cAge, ← e8, hi, hx]
    have : a.ts = b.ts := by omega
    simp [this]
  -- 10 router id
  have hl : a.isLocal = b.isLocal := by
    cases hh : a.isLocal <;> cases hb : b.isLocal <;> simp [hh, hb] at e4 ⊢
  unfold Agree
  refine ⟨?_, ?_, fun e10 => Or.inl ⟨?_, ?_⟩⟩
  · intro h
    rw [← e8] at h
    have hnl : (a.isLocal && b.isLocal) = false := by
      cases ha : a.isLocal
      · simp
      · have hb : b.isLocal = true := by rw [← hl]; exact ha
        have := srcEqual_rid (wf.local1 ha hb)
        rw [this] at h
        split at h <;> omega
    cases hi : a.isInternal <;> cases hx : o.extCompareRouterId <;> simp [hi, hx] at h <;>
    · have h1 : a.src.rid ≠ b.src.rid := by omega
      have h2 : a.src.rid < b.src.rid := by omega
      simp [cRouterId, hnl, ← e8, hi, hx, h1, h2]
  · intro h
    rw [← e8] at h
    have hnl : (a.isLocal && b.isLocal) = false := by
      cases ha : a.isLocal
      · simp
      · have hb : b.isLocal = true := by rw [← hl]; exact ha
        have := srcEqual_rid (wf.local1 ha hb)
        rw [this] at h
        split at h <;> omega
    cases hi : a.isInternal <;> cases hx : o.extCompareRouterId <;> simp [hi, hx] at h <;>
    · have h1 : a.src.rid ≠ b.src.rid := by omega
      have h2 : ¬ a.src.rid < b.src.rid := by omega
      simp [cRouterId, hnl, ← e8, hi, hx, h1, h2]
  · rw [← e8] at e10
    cases hll : (a.isLocal && b.isLocal)
    · cases hi : a.isInternal <;> cases hx : o.extCompareRouterId <;> simp [hi, hx] at e10 <;>
        simp [cRouterId, hll, ← e8, hi, hx] <;>
      · have : a.src.rid = b.src.rid := by omega
        simp [this]
    · simp [cRouterId, hll]
  -- 11 neighbour address (last)
  unfold Agree
  refine ⟨?_, ?_, fun e11 => ?_⟩
  · intro h
    cases ha : a.src.addr with
    | none => simp [cNeighbor, ha]
    | some p1 =>
      cases hb : b.src.addr with
      | none => simp [ha, hb] at h; omega
      | some p2 =>
        simp [ha, hb] at h
        have : p1 < p2 := by omega
        simp [cNeighbor, ha, hb, this]
  · intro h
    cases ha : a.src.addr with
    | none => cases hb : b.src.addr <;> simp [ha, hb] at h; omega
    | some p1 =>
      cases hb : b.src.addr with
      | none => simp [cNeighbor, ha, hb]
      | some p2 =>
        simp [ha, hb] at h
        have h1 : ¬ p1 < p2 := by omega
        have h2 : p2 < p1 := by omega
        simp [cNeighbor, ha, hb, h1, h2]
  · cases ha : a.src.addr with
    | none => right; simp [cNeighbor, ha]
    | some p1 =>
      cases hb : b.src.addr with
      | none => simp [ha, hb] at e11; omega
      | some p2 =>
        simp [ha, hb] at e11
        left
        have h1 : ¬ p1 < p2 := by omega
        have h2 : ¬ p2 < p1 := by omega
        simp [cNeighbor, ha, hb, h1, h2, Agree]

theorem better_eq_lex (o : Opts) (a b : Cand) (wf : PairWF o a b) :
    better o a b = lexLe (key o a) (key o b) :=
  agree_sound _ _ _ (chain_agree o a b wf)

/-! ### sort.Search -/

theorem searchLoop_spec (f : Nat → Bool) (n : Nat)
    (mono : ∀ a b, a ≤ b → b < n → f a = true → f b = true) :
    ∀ (fuel i j : Nat), j - i ≤ fuel → i ≤ j → j ≤ n →
      (∀ k, k < i → f k = false) → (∀ k, j ≤ k → k < n → f k = true) →
      i ≤ searchLoop f fuel i j ∧ searchLoop f fuel i j ≤ j ∧
      (∀ k, k < searchLoop f fuel i j → f k = false) ∧
      (∀ k, searchLoop f fuel i j ≤ k → k < n → f k = true) := by
  intro fuel
  induction fuel with
  | zero =>
    intro i j hd hij hjn hlo hhi
    have : i = j := by omega
    subst this
    exact ⟨Nat.le_refl _, Nat.le_refl _, hlo, hhi⟩
  | succ fuel ih =>
    intro i j hd hij hjn hlo hhi
    unfold searchLoop
    by_cases h : i < j
    · simp only [h, if_true]
      have hm1 : i ≤ (i + j) / 2 := by omega
      have hm2 : (i + j) / 2 < j := by omega
      cases hf : f ((i + j) / 2)
      · simp only [Bool.not_false, if_true]
        have hlo' : ∀ k, k < (i + j) / 2 + 1 → f k = false := by
          intro k hk
          cases hfk : f k
          · rfl
          · have := mono k ((i + j) / 2) (by omega) (by omega) hfk
            simp [hf] at this
        have := ih ((i + j) / 2 + 1) j (by omega) (by omega) hjn hlo' hhi
        refine ⟨by omega, this.2.1, this.2.2.1, this.2.2.2⟩
      · simp only [Bool.not_true, Bool.false_eq_true, if_false]
        have hhi' : ∀ k, (i + j) / 2 ≤ k → k < n → f k = true := by
          intro k hk hkn
          exact mono _ _ hk hkn hf
        have := ih i ((i + j) / 2) (by omega) hm1 (by omega) hlo hhi'
        refine ⟨this.1, by omega, this.2.2.1, this.2.2.2⟩
    · simp only [h, if_false]
      have : i = j := by omega
      subst this
      exact ⟨Nat.le_refl _, Nat.le_refl _, hlo, hhi⟩

theorem search_spec (f : Nat → Bool) (n : Nat)
    (mono : ∀ a b, a ≤ b → b < n → f a = true → f b = true) :
    search n f ≤ n ∧ (∀ k, k < search n f → f k = false) ∧
      (∀ k, search n f ≤ k → k < n → f k = true) := by
  have := searchLoop_spec f n mono n 0 n (by omega) (Nat.zero_le _) (Nat.le_refl _)
    (fun k hk => by omega) (fun k hk hkn => by omega)
  exact ⟨this.2.1, this.2.2.1, this.2.2.2⟩

/-! ### sorted insertion -/

def Sorted (o : Opts) (l : List Cand) : Prop := l.Pairwise (fun a b => better o a b = true)

def SetWF (o : Opts) (l : List Cand) : Prop := ∀ a ∈ l, ∀ b ∈ l, PairWF o a b

theorem SetWF.sub {o : Opts} {l l' : List Cand} (h : SetWF o l) (hs : ∀ x ∈ l', x ∈ l) :
    SetWF o l' := fun a ha b hb => h a (hs a ha) b (hs b hb)

theorem better_total (o : Opts) (a b : Cand) (w1 : PairWF o a b) (w2 : PairWF o b a) :
    better o a b = true ∨ better o b a = true := by
  rw [better_eq_lex o a b w1, better_eq_lex o b a w2]
  exact lexLe_total _ _

theorem better_trans (o : Opts) (a b c : Cand) (wab : PairWF o a b) (wbc : PairWF o b c)
    (wac : PairWF o a c) (h1 : better o a b = true) (h2 : better o b c = true) :
    better o a c = true := by
  rw [better_eq_lex o a b wab] at h1
  rw [better_eq_lex o b c wbc] at h2
  rw [better_eq_lex o a c wac]
  exact lexLe_trans _ _ _ (by simp [key_length]) (by simp [key_length]) h1 h2

theorem insertAt_perm (l : List Cand) (i : Nat) (x : Cand) : (insertAt l i x).Perm (x :: l) := by
  unfold insertAt
  have h1 : (l.take i ++ x :: l.drop i).Perm (x :: (l.take i ++ l.drop i)) :=
    List.perm_middle
  rw [List.take_append_drop] at h1
  exact h1

theorem insertSort_perm (o : Opts) (l : List Cand) (x : Cand) :
    (insertSort o l x).Perm (x :: l) := insertAt_perm _ _ _

theorem insertSort_sorted (o : Opts) (l : List Cand) (x : Cand)
    (wf : SetWF o (x :: l)) (hs : Sorted o l) : Sorted o (insertSort o l x) := by
  unfold insertSort
  generalize hf : (fun (i : Nat) => match l[i]? with
    | some y => better o x y
    | none => true) = f
  have hfk : ∀ k (hk : k < l.length), f k = better o x l[k] := by
    intro k hk; subst hf; simp [List.getElem?_eq_getElem hk]
  have hpw := List.pairwise_iff_getElem.mp hs
  have mono : ∀ a b, a ≤ b → b < l.length → f a = true → f b = true := by
    intro a b hab hb hfa
    by_cases e : a = b
    · subst e; exact hfa
    · have ha : a < l.length := by omega
      rw [hfk a ha] at hfa
      rw [hfk b hb]
      have hla : l[a] ∈ x :: l := List.mem_cons_of_mem _ (List.getElem_mem ha)
      have hlb : l[b] ∈ x :: l := List.mem_cons_of_mem _ (List.getElem_mem hb)
      have hx : x ∈ x :: l := List.mem_cons_self
      exact better_trans o x l[a] l[b] (wf _ hx _ hla) (wf _ hla _ hlb) (wf _ hx _ hlb) hfa
        (hpw a b ha hb (by omega))
  obtain ⟨hle, hlo, hhi⟩ := search_spec f l.length mono
  generalize search l.length f = r at hle hlo hhi
  unfold insertAt Sorted
  rw [List.pairwise_append]
  have hsplit : (l.take r ++ l.drop r).Pairwise (fun a b => better o a b = true) := by
    rw [List.take_append_drop]; exact hs
  rw [List.pairwise_append] at hsplit
  have htake : ∀ a ∈ l.take r, better o a x = true := by
    intro a ha
    obtain ⟨k, hk, rfl⟩ := List.mem_take_iff_getElem.mp ha
    have hk1 : k < r := by omega
    have hk2 : k < l.length := by omega
    have h1 := hlo k hk1
    rw [hfk k hk2] at h1
    have hla : l[k] ∈ x :: l := List.mem_cons_of_mem _ (List.getElem_mem hk2)
    have hx : x ∈ x :: l := List.mem_cons_self
    rcases better_total o x l[k] (wf _ hx _ hla) (wf _ hla _ hx) with h | h
    · simp [h1] at h
    · exact h
  have hdrop : ∀ b ∈ l.drop r, better o x b = true := by
    intro b hb
    obtain ⟨k, hk, rfl⟩ := List.mem_drop_iff_getElem.mp hb
    have h1 := hhi (k + r) (by omega) hk
    rw [hfk (k + r) hk] at h1
    simpa [Nat.add_comm] using h1
  refine ⟨hsplit.1, ?_, ?_⟩
  · rw [List.pairwise_cons]
    exact ⟨hdrop, hsplit.2.1⟩
  · intro a ha b hb
    rw [List.mem_cons] at hb
    rcases hb with rfl | hb
    · exact htake a ha
    · exact hsplit.2.2 a ha b hb

end BestPath
