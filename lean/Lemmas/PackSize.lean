import Lemmas.PackFlat
/-! C11 helper lemmas, part 4: sizes of the emitted messages. -/
namespace Pack

/-- shape facts the packers guarantee: MP_UNREACH / MP_REACH messages of IPv4 unicast only for the
    RFC 5549 case -/
def MsgOK : Msg → Prop
  | .wd4 _ => True
  | .ann4 _ nh _ => nhIs4 nh = true
  | .unreach f _ => f ≠ 0
  | .reach f _ nh _ => f ≠ 0 ∨ nhIs4 nh = false
  | .eor _ => True

theorem hdr_mono {a b : Nat} (h : a ≤ b) : hdr a ≤ hdr b := by
  unfold hdr; split <;> split <;> omega

theorem hdr_le (a : Nat) : hdr a ≤ 4 := by unfold hdr; split <;> omega
theorem hdr_ge (a : Nat) : 3 ≤ hdr a := by unfold hdr; split <;> omega

theorem entry_le_sum (o : Opts) (f : Nat) : ∀ (ns : List Nlri) (n : Nlri), n ∈ ns →
    entryLen o f n ≤ sumLen o f ns := by
  intro ns
  induction ns with
  | nil => intro n h; cases h
  | cons x r ih =>
    intro n h
    simp only [sumLen, List.map_cons, List.sum_cons]
    cases h with
    | head => omega
    | tail _ hm => have := ih n hm; unfold sumLen at this; omega

theorem sumLen_single (o : Opts) (f : Nat) (n : Nlri) : sumLen o f [n] = entryLen o f n := by
  simp [sumLen]

theorem sumLen_le_mul (o : Opts) (f B : Nat) : ∀ (ns : List Nlri), (∀ n ∈ ns, entryLen o f n ≤ B) →
    sumLen o f ns ≤ ns.length * B := by
  intro ns
  induction ns with
  | nil => intro _; simp [sumLen]
  | cons x r ih =>
    intro h
    have h1 := h x List.mem_cons_self
    have h2 := ih (fun n hn => h n (List.mem_cons_of_mem _ hn))
    simp only [sumLen, List.map_cons, List.sum_cons, List.length_cons, Nat.succ_mul] at h2 ⊢
    omega

theorem ap_cases (o : Opts) (f : Nat) : ap o f = 0 ∨ ap o f = 4 := by
  unfold ap; split <;> simp

theorem limit_cases (o : Opts) : limit o = 4096 ∨ limit o = 65535 := by
  unfold limit; split <;> simp

/-- a message carrying route `c` is at least as long as the message carrying `c` alone -/
theorem alone_le (o : Opts) (m : Msg) (hm : MsgOK m) (c : Change) (hc : c ∈ flat m) :
    size o (aloneMsg c) ≤ size o m := by
  cases m with
  | wd4 ns =>
    simp only [flat, List.mem_map] at hc
    obtain ⟨n, hn, e⟩ := hc; subst e
    have := entry_le_sum o 0 ns n hn
    simp [aloneMsg, size, sumLen_single]; omega
  | ann4 a nh ns =>
    simp only [flat, List.mem_map] at hc
    obtain ⟨n, hn, e⟩ := hc; subst e
    have := entry_le_sum o 0 ns n hn
    have h4 : nhIs4 nh = true := hm
    simp [aloneMsg, h4, size, sumLen_single]; omega
  | unreach f ns =>
    simp only [flat, List.mem_map] at hc
    obtain ⟨n, hn, e⟩ := hc; subst e
    have h1 := entry_le_sum o f ns n hn
    have hf : f ≠ 0 := hm
    have h2 : hdr (3 + entryLen o f n) ≤ hdr (3 + sumLen o f ns) := hdr_mono (by omega)
    simp [aloneMsg, hf, size, sumLen_single]; omega
  | reach f a nh ns =>
    simp only [flat, List.mem_map] at hc
    obtain ⟨n, hn, e⟩ := hc; subst e
    have h1 := entry_le_sum o f ns n hn
    have h2 : hdr (5 + nhLen nh + entryLen o f n) ≤ hdr (5 + nhLen nh + sumLen o f ns) := hdr_mono (by omega)
    have hne : ¬ (f = 0 ∧ nhIs4 nh = true) := by
      rcases hm with h | h
      · exact fun x => h x.1
      · exact fun x => by rw [h] at x; exact absurd x.2 (by simp)
    simp [aloneMsg, hne, size, sumLen_single]; omega
  | eor f => simp [flat] at hc

/-- a well-shaped message that carries one route is that route's single-route encoding -/
theorem single_alone (m : Msg) (hm : MsgOK m) (c : Change) (hc : flat m = [c]) : m = aloneMsg c := by
  cases m with
  | wd4 ns =>
    cases ns with
    | nil => simp [flat] at hc
    | cons n r =>
      cases r with
      | nil => simp only [flat, List.map_cons, List.map_nil, List.cons.injEq, and_true] at hc; subst hc; rfl
      | cons _ _ => simp [flat] at hc
  | ann4 a nh ns =>
    have h4 : nhIs4 nh = true := hm
    cases ns with
    | nil => simp [flat] at hc
    | cons n r =>
      cases r with
      | nil =>
        simp only [flat, List.map_cons, List.map_nil, List.cons.injEq, and_true] at hc; subst hc
        simp [aloneMsg, h4]
      | cons _ _ => simp [flat] at hc
  | unreach f ns =>
    have hf : f ≠ 0 := hm
    cases ns with
    | nil => simp [flat] at hc
    | cons n r =>
      cases r with
      | nil =>
        simp only [flat, List.map_cons, List.map_nil, List.cons.injEq, and_true] at hc; subst hc
        simp [aloneMsg, hf]
      | cons _ _ => simp [flat] at hc
  | reach f a nh ns =>
    have hne : ¬ (f = 0 ∧ nhIs4 nh = true) := by
      rcases hm with h | h
      · exact fun x => h x.1
      · exact fun x => by rw [h] at x; exact absurd x.2 (by simp)
    cases ns with
    | nil => simp [flat] at hc
    | cons n r =>
      cases r with
      | nil =>
        simp only [flat, List.map_cons, List.map_nil, List.cons.injEq, and_true] at hc; subst hc
        simp [aloneMsg, hne]
      | cons _ _ => simp [flat] at hc
  | eor f => simp [flat] at hc

theorem flat_len_wd4 (ns : List Nlri) : (flat (Msg.wd4 ns)).length = ns.length := by simp [flat]
theorem flat_len_ann4 (a : Attrs) (nh : Option NH) (ns : List Nlri) : (flat (Msg.ann4 a nh ns)).length = ns.length := by simp [flat]
theorem flat_len_unreach (f : Nat) (ns : List Nlri) : (flat (Msg.unreach f ns)).length = ns.length := by simp [flat]
theorem flat_len_reach (f : Nat) (a : Attrs) (nh : Option NH) (ns : List Nlri) :
    (flat (Msg.reach f a nh ns)).length = ns.length := by simp [flat]

/-- the count budget of packerV4: a chunk either fits or is a single NLRI -/
theorem maxN_bound (o : Opts) (alen : Nat) (c : List Nlri) (hl : c.length ≤ maxN o alen)
    (hb : ∀ n ∈ c, entryLen o 0 n ≤ 5 + ap o 0) :
    23 + alen + sumLen o 0 c ≤ limit o ∨ c.length ≤ 1 := by
  have hs := sumLen_le_mul o 0 (5 + ap o 0) c hb
  unfold maxN at hl
  rcases ap_cases o 0 with ha | ha <;> rcases limit_cases o with hL | hL <;>
    simp only [ha, hL, Nat.add_zero] at hl hs ⊢ <;> omega

/-- IPv4 prefixes are at most /32, so an NLRI entry takes at most 5 (+4) octets -/
theorem entry_v4_le (o : Opts) (n : Nlri) (h : n.bits ≤ 32) : entryLen o 0 n ≤ 5 + ap o 0 := by
  unfold entryLen nlriLen famExtra
  simp
  omega

def Good (o : Opts) (m : Msg) : Prop := MsgOK m ∧ (size o m ≤ limit o ∨ (flat m).length = 1)

theorem packV4_good (o : Opts) (ps : List Path) (e : Bool) (hb : ∀ p ∈ ps, p.c.n.bits ≤ 32)
    (m : Msg) (hm : m ∈ packV4 o ps e) : Good o m := by
  have hwd : ∀ n ∈ ps.filterMap wdOf, n.bits ≤ 32 := by
    intro n hn
    obtain ⟨p, hp, e⟩ := List.mem_filterMap.mp hn
    unfold wdOf at e
    split at e
    · simp only [Option.some.injEq] at e; subst e; exact hb p hp
    · cases e
  have hann : ∀ a ∈ ps.filterMap annOf, a.n.bits ≤ 32 := by
    intro a ha
    obtain ⟨p, hp, e⟩ := List.mem_filterMap.mp ha
    unfold annOf at e
    split at e
    · cases e
    · simp only [Option.some.injEq] at e; subst e; exact hb p hp
  unfold packV4 at hm
  simp only [List.mem_append] at hm
  rcases hm with ((hm | hm) | hm) | hm
  · -- withdrawals
    obtain ⟨c, hc, e⟩ := List.mem_map.mp hm
    subst e
    obtain ⟨h1, h2, h3⟩ := chunkN_mem _ (one_le_maxN o 0) _ _ c hc
    refine ⟨trivial, ?_⟩
    rcases maxN_bound o 0 c h1 (fun n hn => entry_v4_le o n (hwd n (h3 n hn))) with h | h
    · left; simp only [size]; omega
    · right; rw [flat_len_wd4]
      cases c with
      | nil => exact absurd rfl h2
      | cons _ r => simp only [List.length_cons] at h ⊢; omega
  · -- cages
    obtain ⟨g, hg, hm⟩ := List.mem_flatMap.mp hm
    obtain ⟨c, hc, e⟩ := List.mem_map.mp hm
    subst e
    obtain ⟨_, hk⟩ := groupBy_key _ _ _ g hg
    obtain ⟨h1, h2, h3⟩ := chunkN_mem _ (one_le_maxN o _) _ _ c hc
    have hg2 : g.2 ≠ [] := (groupBy_key _ _ _ g hg).1
    have h4 : nhIs4 g.1.2.2.1 = true := by
      cases hx : g.2 with
      | nil => exact absurd hx hg2
      | cons a0 _ =>
        obtain ⟨hkey, hmem⟩ := hk a0 (by rw [hx]; exact List.mem_cons_self)
        have hnh : a0.r.nh = g.1.2.2.1 := congrArg (fun k => k.2.2.1) hkey
        rw [← hnh]
        exact (List.mem_filter.mp hmem).2
    refine ⟨h4, ?_⟩
    have hbits : ∀ n ∈ c, entryLen o 0 n ≤ 5 + ap o 0 := by
      intro n hn
      obtain ⟨a, ha, e⟩ := List.mem_map.mp (h3 n hn)
      subst e
      exact entry_v4_le o _ (hann a (List.mem_filter.mp (hk a ha).2).1)
    rcases maxN_bound o (g.1.2.1.len + synthNH g.1.2.2.1) c h1 hbits with h | h
    · left; simp only [size]; omega
    · right; rw [flat_len_ann4]
      cases c with
      | nil => exact absurd rfl h2
      | cons _ r => simp only [List.length_cons] at h ⊢; omega
  · -- RFC 5549
    obtain ⟨a, ha, e⟩ := List.mem_map.mp hm
    subst e
    refine ⟨Or.inr ?_, Or.inr (by simp [flat])⟩
    have := (List.mem_filter.mp ha).2
    simpa using this
  · unfold eorMsg at hm
    split at hm
    · simp only [List.mem_singleton] at hm; subst hm
      refine ⟨trivial, Or.inl ?_⟩
      simp only [size, if_true]
      rcases limit_cases o with h | h <;> omega
    · cases hm

theorem packMP_good (o : Opts) (f : Nat) (hf : f ≠ 0) (ps : List Path) (e : Bool)
    (hnh : ∀ p ∈ ps, ∀ r, p.c.act = some r → nhLen r.nh ≤ nhCLen r.nh)
    (m : Msg) (hm : m ∈ packMP o f ps e) : Good o m := by
  unfold packMP at hm
  simp only [List.mem_append] at hm
  rcases hm with (hm | hm) | hm
  · obtain ⟨c, hc, e⟩ := List.mem_map.mp hm
    subst e
    obtain ⟨h1, h2⟩ := splitMP_mem o f 30 _ c hc
    refine ⟨hf, ?_⟩
    rcases h2 with h | h
    · right; rw [flat_len_unreach]; exact h
    · left
      have := hdr_le (3 + sumLen o f c)
      simp only [size]; omega
  · obtain ⟨g, hg, hm⟩ := List.mem_flatMap.mp hm
    obtain ⟨_, hk⟩ := groupBy_key _ _ _ g hg
    obtain ⟨k, xs⟩ := g
    cases xs with
    | nil => simp at hm
    | cons a0 rest =>
      simp only at hm
      obtain ⟨c, hc, e⟩ := List.mem_map.mp hm
      subst e
      obtain ⟨h1, h2⟩ := splitMP_mem o f _ _ c hc
      refine ⟨Or.inl hf, ?_⟩
      rcases h2 with h | h
      · right; rw [flat_len_reach]; exact h
      · left
        have hnhk : nhLen k.2 ≤ nhCLen k.2 := by
          obtain ⟨hkey, hmem⟩ := hk a0 List.mem_cons_self
          obtain ⟨p, hp, e⟩ := List.mem_filterMap.mp hmem
          unfold annOf at e
          split at e
          · cases e
          · rename_i r hr
            simp only [Option.some.injEq] at e
            have := hnh p hp r hr
            have hk2 : a0.r.nh = k.2 := congrArg Prod.snd hkey
            rw [← hk2, ← e]
            exact this
        have := hdr_le (5 + nhLen k.2 + sumLen o f c)
        have := hdr_ge (5 + nhCLen k.2 + nlriLen f a0.n)
        unfold baseReach at h
        simp only [size]; omega
  · unfold eorMsg at hm
    split at hm
    · simp only [List.mem_singleton] at hm; subst hm
      refine ⟨trivial, Or.inl ?_⟩
      simp only [size, hf, if_false]
      rcases limit_cases o with h | h <;> omega
    · cases hm

/-- IPv4 prefixes are at most /32; the next-hop length NewPathAttributeMpReachNLRI declares is
    not smaller than the one Serialize writes -/
def SizesOK (is : List Item) : Prop :=
  ∀ c ∈ changes is, (c.fam = 0 → c.n.bits ≤ 32) ∧ (∀ r, c.act = some r → nhLen r.nh ≤ nhCLen r.nh)

theorem pack_good (o : Opts) (is : List Item) (hs : SizesOK is) (m : Msg) (hm : m ∈ pack o is) :
    Good o m := by
  unfold pack at hm
  obtain ⟨g, hg, hm⟩ := List.mem_flatMap.mp hm
  obtain ⟨_, hk⟩ := groupBy_key _ _ _ g hg
  have hp : ∀ p ∈ g.2.filterMap pathOf, p.c.fam = g.1 ∧ p.c ∈ changes is := by
    intro p hp
    obtain ⟨i, hi, e⟩ := List.mem_filterMap.mp hp
    cases i with
    | eor f => simp [pathOf] at e
    | path q =>
      simp only [pathOf, Option.some.injEq] at e; subst e
      obtain ⟨h1, h2⟩ := hk _ hi
      exact ⟨h1, mem_changes.mpr ⟨q, dedup_sub o h2, rfl⟩⟩
  unfold packFam at hm
  split at hm
  · rename_i h0
    refine packV4_good o _ _ (fun p hpp => ?_) m hm
    obtain ⟨h1, h2⟩ := hp p hpp
    exact (hs _ h2).1 (h1.trans h0)
  · rename_i h0
    refine packMP_good o g.1 h0 _ _ (fun p hpp r hr => ?_) m hm
    exact (hs _ (hp p hpp).2).2 r hr

end Pack
