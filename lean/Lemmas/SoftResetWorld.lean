/-
  Lemmas for the whole-speaker C15 theorems: the compositional model of
  Model/SoftResetWorld.lean, destination by destination and peer by peer.
-/
import Model.SoftResetWorld
import Lemmas.SoftReset
import Lemmas.SoftResetIn
import Lemmas.SoftResetWorldAux
namespace SoftResetWorld
open BestPath World SoftReset SoftResetIn Lex

/-! ### what an import function keeps -/

/-- source, path-id, ORIGIN and destination of a route survive the import function -/
def Pres (f : Cand → Option Cand) : Prop :=
  ∀ c c', f c = some c' → c'.src = c.src ∧ c'.pathId = c.pathId ∧ c'.origin = c.origin ∧ c'.pfx = c.pfx

theorem Pres.keyPres {f : Cand → Option Cand} (h : Pres f) : KeyPres f :=
  fun c c' hc => ⟨(h c c' hc).1, (h c c' hc).2.1⟩

theorem modify_pres (s : Stmt) (r : Cand) :
    (s.modify r).src = r.src ∧ (s.modify r).pathId = r.pathId ∧ (s.modify r).origin = r.origin ∧
      (s.modify r).pfx = r.pfx := by
  unfold Stmt.modify
  cases s.addComm <;> cases s.setMed <;> cases s.setLp <;> simp

theorem evalStmts_pres (d : Bool) (i : Nat) (ss : List Stmt) :
    ∀ (r r' : Cand), evalStmts d i ss r = some r' →
      r'.src = r.src ∧ r'.pathId = r.pathId ∧ r'.origin = r.origin ∧ r'.pfx = r.pfx := by
  induction ss with
  | nil =>
    intro r r' h
    unfold evalStmts at h
    cases d <;> simp at h
    subst h; exact ⟨rfl, rfl, rfl, rfl⟩
  | cons s rest ih =>
    intro r r' h
    unfold evalStmts at h
    cases hm : s.matches i r with
    | false => simp only [hm, Bool.false_eq_true, if_false] at h; exact ih r r' h
    | true =>
      simp only [hm, if_true] at h
      have hk := modify_pres s r
      by_cases h1 : s.route = 1
      · simp only [h1, if_true, Option.some.injEq] at h
        subst h; exact hk
      · by_cases h2 : s.route = 2
        · simp [h1, h2] at h
        · simp only [h1, h2, if_false] at h
          have := ih _ _ h
          exact ⟨this.1.trans hk.1, this.2.1.trans hk.2.1, this.2.2.1.trans hk.2.2.1,
            this.2.2.2.trans hk.2.2.2⟩

theorem stripLP_pres (g : Global) (x : PeerCfg) (c : Cand) :
    (stripLP g x c).src = c.src ∧ (stripLP g x c).pathId = c.pathId ∧
      (stripLP g x c).origin = c.origin ∧ (stripLP g x c).pfx = c.pfx := by
  unfold stripLP; split <;> simp

theorem impFn_pres (g : Global) (imp : Pol) (cfgs : List PeerCfg) : Pres (impFn g imp cfgs) := by
  intro c c' h
  unfold impFn at h
  cases hf : cfgs.find? (fun x => fromPeer x c) with
  | none => simp [hf] at h
  | some x =>
    simp only [hf] at h
    have h1 := evalStmts_pres _ _ _ _ _ h
    have h2 := stripLP_pres g x c
    exact ⟨h1.1.trans h2.1, h1.2.1.trans h2.2.1, h1.2.2.1.trans h2.2.2.1, h1.2.2.2.trans h2.2.2.2⟩

/-! ### MED comparable throughout: always-compare-med and the mandatory ORIGIN -/

/-- a received route: ORIGIN present, learned from a neighbour (not locally originated) -/
def Good (c : Cand) : Prop := c.origin.isSome = true ∧ c.src.addr.isSome = true

theorem pairWF_of_good (o : Opts) (h : o.alwaysCompareMed = true) (a b : Cand) (ha : Good a)
    (hb : Good b) : PairWF o a b := by
  refine ⟨?_, ha.1, hb.1, ?_⟩
  · unfold medComparable; simp [h]
  · intro hl
    unfold Cand.isLocal at hl
    have := ha.2
    cases hx : a.src.addr <;> simp [hx] at hl this

theorem setWF_of_good (o : Opts) (h : o.alwaysCompareMed = true) (l : List Cand)
    (hl : ∀ c ∈ l, Good c) : SetWF o l :=
  fun a ha b hb => pairWF_of_good o h a b (hl a ha) (hl b hb)


theorem good_image {f : Cand → Option Cand} (hf : Pres f) {c c' : Cand} (h : f c = some c')
    (hc : Good c) : Good c' := by
  obtain ⟨h1, _, h3, _⟩ := hf c c' h
  unfold Good at *
  rw [h1, h3]; exact hc

/-! ### one destination: Loc-RIB and Adj-RIB-In as functions of the event history -/

/-- the destination's Loc-RIB is the run of its event history (each event under the import
    function in force when it arrived), its Adj-RIB-In the history's abstract content -/
structure Tracks (o : Opts) (st : DSt) (evs : List (Ev × (Cand → Option Cand))) : Prop where
  rib   : st.rib = BestPath.run o (hist evs)
  adj   : st.adj.Perm (adjOf (evs.map (·.1)))
  nodup : NodupKey st.adj
  pres  : ∀ p ∈ evs, Pres p.2
  good  : ∀ p ∈ evs, ∀ c, p.1 = Ev.ann c → Good c

theorem tracks_nil (o : Opts) : Tracks o {} [] :=
  ⟨rfl, List.Perm.refl _, List.Pairwise.nil, fun _ h => by simp at h, fun _ h => by simp at h⟩

theorem run_snoc (o : Opts) (ops : List Op) (op : Op) :
    BestPath.run o (ops ++ [op]) = calcStep o (BestPath.run o ops) op := by
  unfold BestPath.run; rw [List.foldl_append]; rfl

theorem hist_snoc (evs : List (Ev × (Cand → Option Cand))) (p : Ev × (Cand → Option Cand)) :
    hist (evs ++ [p]) = hist evs ++ [opOf p.2 p.1] := by
  unfold hist; simp

theorem adjOf_snoc (E : List Ev) (ev : Ev) : adjOf (E ++ [ev]) = specStep (adjOf E) (rawOp ev) := by
  unfold adjOf spec; rw [List.map_append, List.foldl_append]; rfl

theorem track_dEv (k : Ctx) (st : DSt) (evs : List (Ev × (Cand → Option Cand))) (ev : Ev)
    (t : Tracks k.opts st evs) (hg : ∀ c, ev = Ev.ann c → Good c) :
    Tracks k.opts (dEv k st ev) (evs ++ [(ev, impFn k.g k.imp k.cfgs)]) := by
  refine ⟨?_, ?_, ?_, ?_, ?_⟩
  · rw [hist_snoc, run_snoc, ← t.rib]; rfl
  · rw [List.map_append]
    simp only [List.map_cons, List.map_nil]
    rw [adjOf_snoc]
    exact adjInPlace_perm st.adj _ ev t.nodup t.adj
  · exact adjInPlace_nodup st.adj ev t.nodup
  · intro p hp
    rcases List.mem_append.mp hp with h | h
    · exact t.pres p h
    · simp at h; subst h; exact impFn_pres _ _ _
  · intro p hp c hc
    rcases List.mem_append.mp hp with h | h
    · exact t.good p h c hc
    · simp at h; subst h; exact hg c hc

theorem track_fold (k : Ctx) (evL : List Ev) :
    ∀ (st : DSt) (evs : List (Ev × (Cand → Option Cand))), Tracks k.opts st evs →
      (∀ ev ∈ evL, ∀ c, ev = Ev.ann c → Good c) →
      Tracks k.opts (evL.foldl (dEv k) st) (evs ++ evL.map (fun ev => (ev, impFn k.g k.imp k.cfgs))) := by
  induction evL with
  | nil => intro st evs t _; simpa using t
  | cons ev rest ih =>
    intro st evs t hg
    simp only [List.foldl_cons, List.map_cons]
    have := ih (dEv k st ev) _ (track_dEv k st evs ev t (hg ev List.mem_cons_self))
      (fun e he => hg e (List.mem_cons_of_mem _ he))
    simpa [List.append_assoc] using this

/-! ### candidates of a history -/

theorem mem_opCands_hist (evs : List (Ev × (Cand → Option Cand))) (c' : Cand)
    (h : c' ∈ opCands (hist evs)) : ∃ p ∈ evs, ∃ c, p.1 = Ev.ann c ∧ p.2 c = some c' := by
  induction evs with
  | nil => simp [hist, opCands] at h
  | cons p rest ih =>
    have : hist (p :: rest) = opOf p.2 p.1 :: hist rest := rfl
    rw [this] at h
    simp only [opCands, List.flatMap_cons, List.mem_append] at h
    rcases h with h | h
    · obtain ⟨ev, f⟩ := p
      cases ev with
      | wd c => simp [opOf, Op.cands] at h
      | ann c =>
        simp only [opOf] at h
        cases hf : f c with
        | none => simp [hf, Op.cands] at h
        | some x =>
          simp only [hf, Op.cands, List.mem_singleton] at h
          subst h
          exact ⟨(Ev.ann c, f), List.mem_cons_self, c, rfl, hf⟩
    · obtain ⟨q, hq, c, h1, h2⟩ := ih h
      exact ⟨q, List.mem_cons_of_mem _ hq, c, h1, h2⟩

theorem mem_opCands_softOps (f : Cand → Option Cand) (B : List Cand) (c' : Cand)
    (h : c' ∈ opCands (softOps f B)) : ∃ c ∈ B, f c = some c' := by
  induction B with
  | nil => simp [softOps, opCands] at h
  | cons b rest ih =>
    have : softOps f (b :: rest) = opOf f (.ann b) :: softOps f rest := rfl
    rw [this] at h
    simp only [opCands, List.flatMap_cons, List.mem_append] at h
    rcases h with h | h
    · simp only [opOf] at h
      cases hf : f b with
      | none => simp [hf, Op.cands] at h
      | some x =>
        simp only [hf, Op.cands, List.mem_singleton] at h
        subst h
        exact ⟨b, List.mem_cons_self, hf⟩
    · obtain ⟨c, hc, h1⟩ := ih h
      exact ⟨c, List.mem_cons_of_mem _ hc, h1⟩

theorem mem_adjOf (E : List Ev) (c : Cand) (h : c ∈ adjOf E) : Ev.ann c ∈ E := by
  have h1 := spec_sub_opCands _ c h
  clear h
  induction E with
  | nil => simp [opCands] at h1
  | cons e rest ih =>
    simp only [List.map_cons, opCands, List.flatMap_cons, List.mem_append] at h1
    rcases h1 with h1 | h1
    · cases e with
      | wd x => simp [rawOp, Op.cands] at h1
      | ann x =>
        simp only [rawOp, Op.cands, List.mem_singleton] at h1
        subst h1; exact List.mem_cons_self
    · exact List.mem_cons_of_mem _ (ih h1)

theorem good_of_adj {o : Opts} {st : DSt} {evs : List (Ev × (Cand → Option Cand))}
    (t : Tracks o st evs) (c : Cand) (hc : c ∈ st.adj) : Good c := by
  have h1 : Ev.ann c ∈ evs.map (·.1) := mem_adjOf _ c (t.adj.subset hc)
  obtain ⟨p, hp, hpe⟩ := List.mem_map.mp h1
  exact t.good p hp c hpe

theorem hist_all (f1 : Cand → Option Cand) (evs : List (Ev × (Cand → Option Cand)))
    (hall : ∀ p ∈ evs, p.2 = f1) : hist evs = (evs.map (·.1)).map (opOf f1) := by
  unfold hist
  rw [List.map_map]
  apply List.map_congr_left
  intro p hp
  simp [hall p hp]

/-- **one destination, import side**: whatever policies the events of the soft-reset speaker
    were evaluated under, replaying its accepted Adj-RIB-In (in any order) under `f1` gives the
    Loc-RIB path list of the speaker that evaluated the same Adj-RIB-In content under `f1`
    throughout -/
theorem dest_soft_in_equals_fresh (o : Opts) (halw : o.alwaysCompareMed = true)
    (st1 st2 : DSt) (evs1 evs2 : List (Ev × (Cand → Option Cand))) (f1 : Cand → Option Cand)
    (hf1 : Pres f1) (t1 : Tracks o st1 evs1) (t2 : Tracks o st2 evs2)
    (hall : ∀ p ∈ evs2, p.2 = f1) (hadj : st1.adj = st2.adj)
    (B : List Cand) (hB : B.Perm st1.adj)
    (hties : st2.rib.Pairwise (fun a b => key o a ≠ key o b)) :
    BestPath.run o (hist evs1 ++ softOps f1 B) = st2.rib := by
  have hk1 : ∀ p ∈ evs1, KeyPres p.2 := fun p hp => (t1.pres p hp).keyPres
  have hkf : KeyPres f1 := hf1.keyPres
  -- every candidate of either history is a good one
  have g2 : ∀ c ∈ opCands (hist evs2), Good c := by
    intro c hc
    obtain ⟨p, hp, x, h1, h2⟩ := mem_opCands_hist evs2 c hc
    exact good_image (t2.pres p hp) h2 (t2.good p hp x h1)
  have g1 : ∀ c ∈ opCands (hist evs1 ++ softOps f1 B), Good c := by
    intro c hc
    simp only [opCands, List.flatMap_append, List.mem_append] at hc
    rcases hc with hc | hc
    · obtain ⟨p, hp, x, h1, h2⟩ := mem_opCands_hist evs1 c hc
      exact good_image (t1.pres p hp) h2 (t1.good p hp x h1)
    · obtain ⟨x, hx, h2⟩ := mem_opCands_softOps f1 B c hc
      exact good_image hf1 h2 (good_of_adj t1 x (hB.subset hx))
  have wf : SetWF o (opCands (hist evs2) ++ opCands (hist evs1 ++ softOps f1 B)) :=
    setWF_of_good o halw _ (fun c hc => by
      rcases List.mem_append.mp hc with h | h
      · exact g2 c h
      · exact g1 c h)
  have wf2 : SetWF o (opCands (hist evs2)) := setWF_of_good o halw _ g2
  obtain ⟨_, _, p2⟩ := run_inv o (hist evs2) wf2
  have distinct : (spec (hist evs2)).Pairwise (fun a b => key o a ≠ key o b) := by
    rw [t2.rib] at hties
    exact hties.perm p2 (fun {x y} h => fun e => h e.symm)
  -- contents
  obtain ⟨hn, hc⟩ := inv_hist evs1 hk1
  have hBA : B.Perm (adjOf (evs1.map (·.1))) := hB.trans t1.adj
  have hnB : NodupKey B := nodupKey_perm hn hBA.symm
  have hcB : Covered (spec (hist evs1)) B := by
    intro x hx
    obtain ⟨a, ha, hax⟩ := hc x hx
    exact ⟨a, hBA.symm.subset ha, hax⟩
  have hs1 : spec (hist evs1 ++ softOps f1 B) = B.reverse.filterMap f1 := by
    have : spec (hist evs1 ++ softOps f1 B) = (softOps f1 B).foldl specStep (spec (hist evs1)) := by
      unfold spec; rw [List.foldl_append]
    rw [this]
    exact soft_covered hkf B _ hnB hcB
  have hs2 : spec (hist evs2) = (adjOf (evs2.map (·.1))).filterMap f1 := by
    rw [hist_all f1 evs2 hall]; exact fresh_eq hkf _
  have same : (spec (hist evs2)).Perm (spec (hist evs1 ++ softOps f1 B)) := by
    rw [hs1, hs2]
    apply List.Perm.filterMap
    have : (adjOf (evs2.map (·.1))).Perm B := by
      have h2 := t2.adj
      rw [← hadj] at h2
      exact h2.symm.trans hB.symm
    exact this.trans (List.reverse_perm B).symm
  rw [t2.rib]
  exact (order_independent_keys o _ _ wf distinct same).symm


/-! ### well-formedness: configuration, candidates, destinations -/

/-- the peers have pairwise different indices and addresses, none is a route-server client -/
structure CfgWF (k : Ctx) : Prop where
  idx  : k.cfgs.Pairwise (fun a b => a.idx ≠ b.idx)
  addr : k.cfgs.Pairwise (fun a b => a.addr ≠ b.addr)
  nors : ∀ t ∈ k.cfgs, t.isRSClient = false

/-- a route of destination `dst` learned from a configured peer, ORIGIN present -/
def CandWF (k : Ctx) (dst : Nat) (c : Cand) : Prop :=
  (∃ x ∈ k.cfgs, c.src = x.srcInfo k.g) ∧ c.pfx = dst ∧ c.origin.isSome = true

theorem CandWF.good {k : Ctx} {dst : Nat} {c : Cand} (h : CandWF k dst c) : Good c := by
  obtain ⟨⟨x, _, hx⟩, _, ho⟩ := h
  exact ⟨ho, by rw [hx]; simp [PeerCfg.srcInfo]⟩

theorem CandWF.image {k : Ctx} {dst : Nat} {f : Cand → Option Cand} (hf : Pres f) {c c' : Cand}
    (h : f c = some c') (hc : CandWF k dst c) : CandWF k dst c' := by
  obtain ⟨h1, _, h3, h4⟩ := hf c c' h
  unfold CandWF at *
  rw [h1, h3, h4]; exact hc

theorem pairwise_inj {α β : Type} (f : α → β) (l : List α) (h : l.Pairwise (fun a b => f a ≠ f b))
    (a b : α) (ha : a ∈ l) (hb : b ∈ l) (e : f a = f b) : a = b := by
  induction l with
  | nil => simp at ha
  | cons x rest ih =>
    rw [List.pairwise_cons] at h
    rcases List.mem_cons.mp ha with rfl | ha' <;> rcases List.mem_cons.mp hb with rfl | hb'
    · rfl
    · exact absurd e (h.1 b hb')
    · exact absurd e.symm (h.1 a ha')
    · exact ih h.2 ha' hb'

theorem fromPeerWF_of {k : Ctx} (cw : CfgWF k) {dst : Nat} {t : PeerCfg} (ht : t ∈ k.cfgs) {o : Cand}
    (hc : CandWF k dst o) : FromPeerWF k.g t o := by
  intro ha
  obtain ⟨⟨x, hx, hs⟩, _, _⟩ := hc
  rw [hs] at ha ⊢
  have : x.addr = t.addr := by simpa [PeerCfg.srcInfo] using ha
  rw [pairwise_inj (·.addr) k.cfgs cw.addr x t hx ht this]

theorem srcEq_of {k : Ctx} (cw : CfgWF k) {d1 d2 : Nat} {b o : Cand} (hb : CandWF k d1 b)
    (ho : CandWF k d2 o) (e : b.src.equal o.src = true) : b.src = o.src := by
  obtain ⟨⟨x, hx, hs⟩, _, _⟩ := hb
  obtain ⟨⟨y, hy, hs'⟩, _, _⟩ := ho
  rw [hs, hs'] at e ⊢
  have : x.addr = y.addr := by
    have := srcEqual_addr e
    simpa [PeerCfg.srcInfo] using this
  rw [pairwise_inj (·.addr) k.cfgs cw.addr x y hx hy this]

/-- one destination: every Loc-RIB path and every Adj-RIB-In entry is well-formed -/
structure DWF (k : Ctx) (dst : Nat) (st : DSt) : Prop where
  rib   : ∀ c ∈ st.rib, CandWF k dst c
  adj   : ∀ c ∈ st.adj, CandWF k dst c
  nodup : NodupKey st.adj

def EvWF (k : Ctx) (dst : Nat) (ev : Ev) : Prop := ∀ c, ev = Ev.ann c → CandWF k dst c

theorem mem_adjInPlace (l : List Cand) (ev : Ev) (c : Cand) (h : c ∈ adjInPlace l ev) :
    c ∈ l ∨ ev = Ev.ann c := by
  cases ev with
  | wd x =>
    left
    rw [adjInPlace_wd] at h
    exact (List.mem_filter.mp h).1
  | ann x =>
    rw [adjInPlace_ann] at h
    by_cases ha : (l.any fun y => sameKey x y) = true
    · rw [if_pos ha] at h
      obtain ⟨y, hy, he⟩ := List.mem_map.mp h
      by_cases hk : sameKey x y = true
      · right; rw [if_pos hk] at he; rw [he]
      · left; rw [if_neg hk] at he; rw [← he]; exact hy
    · rw [if_neg ha] at h
      rcases List.mem_append.mp h with h | h
      · left; exact h
      · right; simp at h; rw [h]

theorem dEv_dwf {k : Ctx} {dst : Nat} {st : DSt} {ev : Ev} (w : DWF k dst st) (hev : EvWF k dst ev) :
    DWF k dst (dEv k st ev) := by
  refine ⟨?_, ?_, adjInPlace_nodup st.adj ev w.nodup⟩
  · intro c hc
    rcases mem_calcStep _ _ _ c hc with h | h
    · exact w.rib c h
    · cases ev with
      | wd x => simp [opOf] at h
      | ann x =>
        simp only [opOf] at h
        cases hf : impFn k.g k.imp k.cfgs x with
        | none => simp [hf] at h
        | some y =>
          simp only [hf, Op.ann.injEq] at h
          subst h
          exact CandWF.image (impFn_pres _ _ _) hf (hev x rfl)
  · intro c hc
    rcases mem_adjInPlace _ _ c hc with h | h
    · exact w.adj c h
    · exact hev c h

theorem fold_dwf {k : Ctx} {dst : Nat} (evL : List Ev) :
    ∀ st : DSt, DWF k dst st → (∀ ev ∈ evL, EvWF k dst ev) → DWF k dst (evL.foldl (dEv k) st) := by
  induction evL with
  | nil => intro st w _; exact w
  | cons ev rest ih =>
    intro st w h
    exact ih _ (dEv_dwf w (h ev List.mem_cons_self)) (fun e he => h e (List.mem_cons_of_mem _ he))

theorem DWF.congr {k k' : Ctx} {dst : Nat} {st : DSt} (w : DWF k dst st) (hg : k'.g = k.g)
    (hc : k'.cfgs = k.cfgs) : DWF k' dst st := by
  have : ∀ c, CandWF k dst c → CandWF k' dst c := by
    intro c h; unfold CandWF at *; rw [hg, hc]; exact h
  exact ⟨fun c h => this c (w.rib c h), fun c h => this c (w.adj c h), w.nodup⟩

theorem CfgWF.congr {k k' : Ctx} (w : CfgWF k) (hc : k'.cfgs = k.cfgs) : CfgWF k' := by
  refine ⟨?_, ?_, ?_⟩
  · rw [hc]; exact w.idx
  · rw [hc]; exact w.addr
  · rw [hc]; exact w.nors

/-! ### what the peers hold for one destination -/

/-- the weak invariant of Lemmas/SoftReset.lean for every established peer -/
def ViewInv (k : Ctx) (st : DSt) : Prop :=
  ∀ i t, k.cfg? i = some t → k.up i = true → WeakInv k.g t st.rib (st.held i)

/-- every established peer holds exactly the export of the best path under the export policy -/
def ViewEq (k : Ctx) (st : DSt) : Prop :=
  ∀ i t, k.cfg? i = some t → k.up i = true → st.held i = wantOfP k.g k.exp t st.rib

theorem fanoutD_up {k : Ctx} (cw : CfgWF k) {i : Nat} {t : PeerCfg} (hc : k.cfg? i = some t)
    (hu : k.up i = true) (oldL newL : List Cand) (held : Nat → Option Held) :
    fanoutD k oldL newL held i = heldApplyP k.g t (held i) (deltaForP k.g k.exp t oldL newL) := by
  unfold fanoutD
  simp [hc, hu, cw.nors t (cfg?_some hc).1]

theorem head_mem {l : List Cand} {c : Cand} (h : l.head? = some c) : c ∈ l := by
  cases l with
  | nil => simp at h
  | cons x xs => simp at h; subst h; exact List.mem_cons_self

theorem dEv_viewInv {k : Ctx} (cw : CfgWF k) {dst : Nat} {st : DSt} {ev : Ev} (w : DWF k dst st)
    (hev : EvWF k dst ev) (v : ViewInv k st) : ViewInv k (dEv k st ev) := by
  intro i t hc hu
  have w' := dEv_dwf w hev
  show WeakInv k.g t (dEv k st ev).rib (fanoutD k st.rib (dEv k st ev).rib st.held i)
  rw [fanoutD_up cw hc hu]
  have ht := (cfg?_some hc).1
  exact weak_inv_step k.g k.exp t (cw.nors t ht) st.rib _ (st.held i)
    (fun o ho => fromPeerWF_of cw ht (w.rib o (head_mem ho)))
    (fun b o hb ho e => srcEq_of cw (w'.rib b (head_mem hb)) (w.rib o (head_mem ho)) e)
    (v i t hc hu)

theorem dEv_viewEq {k : Ctx} (cw : CfgWF k) {dst : Nat} {st : DSt} {ev : Ev} (w : DWF k dst st)
    (hev : EvWF k dst ev) (v : ViewEq k st) : ViewEq k (dEv k st ev) := by
  intro i t hc hu
  have w' := dEv_dwf w hev
  show fanoutD k st.rib (dEv k st ev).rib st.held i = wantOfP k.g k.exp t (dEv k st ev).rib
  rw [fanoutD_up cw hc hu, v i t hc hu]
  have ht := (cfg?_some hc).1
  exact delta_correct_P k.g k.exp t (cw.nors t ht) st.rib _
    (fun o ho => fromPeerWF_of cw ht (w.rib o (head_mem ho)))
    (fun b o hb ho e => srcEq_of cw (w'.rib b (head_mem hb)) (w.rib o (head_mem ho)) e)
    (fun b o hb ho => by
      rw [(w'.rib b (head_mem hb)).2.1, (w.rib o (head_mem ho)).2.1])

theorem fold_viewInv {k : Ctx} (cw : CfgWF k) {dst : Nat} (evL : List Ev) :
    ∀ st : DSt, DWF k dst st → (∀ ev ∈ evL, EvWF k dst ev) → ViewInv k st →
      ViewInv k (evL.foldl (dEv k) st) := by
  induction evL with
  | nil => intro st _ _ v; exact v
  | cons ev rest ih =>
    intro st w h v
    have he := h ev List.mem_cons_self
    exact ih _ (dEv_dwf w he) (fun e hm => h e (List.mem_cons_of_mem _ hm)) (dEv_viewInv cw w he v)

theorem fold_viewEq {k : Ctx} (cw : CfgWF k) {dst : Nat} (evL : List Ev) :
    ∀ st : DSt, DWF k dst st → (∀ ev ∈ evL, EvWF k dst ev) → ViewEq k st →
      ViewEq k (evL.foldl (dEv k) st) := by
  induction evL with
  | nil => intro st _ _ v; exact v
  | cons ev rest ih =>
    intro st w h v
    have he := h ev List.mem_cons_self
    exact ih _ (dEv_dwf w he) (fun e hm => h e (List.mem_cons_of_mem _ hm)) (dEv_viewEq cw w he v)

theorem viewEq_inv {k : Ctx} {st : DSt} (v : ViewEq k st) : ViewInv k st := by
  intro i t hc hu
  rw [v i t hc hu]
  exact weak_of_want _ _ _ _

/-- the Adj-RIB-In component of a fold of events does not depend on anything else -/
theorem fold_adj (k : Ctx) (evL : List Ev) :
    ∀ st : DSt, (evL.foldl (dEv k) st).adj = evL.foldl adjInPlace st.adj := by
  induction evL with
  | nil => intro st; rfl
  | cons ev rest ih => intro st; simp only [List.foldl_cons]; rw [ih]; rfl


/-! ### one destination: everything together -/

abbrev Hist := List (Ev × (Cand → Option Cand))

structure DInv (k : Ctx) (dst : Nat) (st : DSt) (evs : Hist) : Prop where
  wf   : DWF k dst st
  view : ViewInv k st
  tr   : Tracks k.opts st evs

def kf (k : Ctx) : Cand → Option Cand := impFn k.g k.imp k.cfgs

theorem fold_dinv {k : Ctx} (cw : CfgWF k) {dst : Nat} (evL : List Ev) (st : DSt) (evs : Hist)
    (h : DInv k dst st evs) (hev : ∀ ev ∈ evL, EvWF k dst ev) :
    DInv k dst (evL.foldl (dEv k) st) (evs ++ evL.map (fun ev => (ev, kf k))) :=
  ⟨fold_dwf evL st h.wf hev, fold_viewInv cw evL st h.wf hev h.view,
   track_fold k evL st evs h.tr (fun ev he c hc => (hev ev he c hc).good)⟩

theorem fold_replay (l : List Cand) (hn : NodupKey l) (L : List Cand) (hL : ∀ c ∈ L, c ∈ l) :
    (L.map Ev.ann).foldl adjInPlace l = l := by
  induction L with
  | nil => rfl
  | cons c rest ih =>
    simp only [List.map_cons, List.foldl_cons]
    rw [adjInPlace_replay l c hn (hL c List.mem_cons_self)]
    exact ih (fun x hx => hL x (List.mem_cons_of_mem _ hx))

theorem replays_wf {k : Ctx} {dst : Nat} {st : DSt} (w : DWF k dst st) (x : PeerCfg) :
    ∀ ev ∈ (st.adj.filter (fromPeer x)).map Ev.ann, EvWF k dst ev := by
  intro ev he c hc
  obtain ⟨y, hy, rfl⟩ := List.mem_map.mp he
  simp only [Ev.ann.injEq] at hc
  subst hc
  exact w.adj y (List.mem_filter.mp hy).1

theorem wds_wf {k : Ctx} {dst : Nat} (L : List Cand) : ∀ ev ∈ L.map Ev.wd, EvWF k dst ev := by
  intro ev he c hc
  obtain ⟨y, _, rfl⟩ := List.mem_map.mp he
  cases hc

theorem dSoftIn_adj (k : Ctx) (x : PeerCfg) (st : DSt) (hn : NodupKey st.adj) :
    (dSoftIn k x st).adj = st.adj := by
  unfold dSoftIn
  rw [fold_adj]
  exact fold_replay st.adj hn _ (fun c hc => (List.mem_filter.mp hc).1)

theorem dSoftIn_dinv {k : Ctx} (cw : CfgWF k) {dst : Nat} (x : PeerCfg) (st : DSt) (evs : Hist)
    (h : DInv k dst st evs) :
    DInv k dst (dSoftIn k x st)
      (evs ++ ((st.adj.filter (fromPeer x)).map Ev.ann).map (fun ev => (ev, kf k))) :=
  fold_dinv cw _ st evs h (replays_wf h.wf x)

theorem dSoftOut_dinv {k : Ctx} {dst : Nat} {i : Nat} {t : PeerCfg} (hc : k.cfg? i = some t)
    (st : DSt) (evs : Hist) (h : DInv k dst st evs) : DInv k dst (dSoftOut k t st) evs := by
  have hti := (cfg?_some hc).2
  refine ⟨⟨h.wf.rib, h.wf.adj, h.wf.nodup⟩, ?_, ⟨h.tr.rib, h.tr.adj, h.tr.nodup, h.tr.pres, h.tr.good⟩⟩
  intro j t' hc' hu
  show WeakInv k.g t' st.rib (upd st.held t.idx _ j)
  unfold upd
  by_cases hj : j = t.idx
  · have : t' = t := by
      rw [hj, hti] at hc'; rw [hc] at hc'; exact (Option.some.inj hc').symm
    subst this
    rw [if_pos hj]
    have hw := h.view j t' hc' hu
    rw [hj] at hw
    rw [SoftReset.soft_out_restores k.g k.exp t' st.rib _ hw]
    exact weak_of_want _ _ _ _
  · rw [if_neg hj]; exact h.view j t' hc' hu

/-- after a soft reset out of peer `i` it holds the export of the best path of the destination -/
theorem dSoftOut_held {k : Ctx} {i : Nat} {t : PeerCfg} (hc : k.cfg? i = some t) (st : DSt)
    (hw : WeakInv k.g t st.rib (st.held i)) :
    (dSoftOut k t st).held i = wantOfP k.g k.exp t st.rib := by
  have hti := (cfg?_some hc).2
  show upd st.held t.idx _ i = _
  unfold upd
  rw [if_pos hti.symm, hti]
  exact SoftReset.soft_out_restores k.g k.exp t st.rib _ hw

theorem dSoftOut_other (k : Ctx) (t : PeerCfg) (st : DSt) (j : Nat) (hj : j ≠ t.idx) :
    (dSoftOut k t st).held j = st.held j := by
  show upd st.held t.idx _ j = _
  unfold upd; rw [if_neg hj]

theorem dUp_held (k : Ctx) (t : PeerCfg) (st : DSt) :
    (dUp k t st).held t.idx = wantOfP k.g k.exp t st.rib := by
  show upd st.held t.idx _ t.idx = _
  unfold upd
  rw [if_pos rfl]
  exact SoftReset.soft_out_restores k.g k.exp t st.rib none (fun h => absurd rfl h)

theorem dUp_other (k : Ctx) (t : PeerCfg) (st : DSt) (j : Nat) (hj : j ≠ t.idx) :
    (dUp k t st).held j = st.held j := by
  show upd st.held t.idx _ j = _
  unfold upd; rw [if_neg hj]


/-! ### the whole speaker -/

/-- the invariant of every reachable state, with the (ghost) event history of every destination -/
def WI (s : SW) (E : Nat → Hist) : Prop := CfgWF s.k ∧ ∀ d, DInv s.k d (s.d d) (E d)

/-- the histories grew only by events evaluated under the import function of `k` -/
def NewEvs (k : Ctx) (E E' : Nat → Hist) : Prop := ∀ d p, p ∈ E' d → p ∈ E d ∨ p.2 = kf k

theorem NewEvs.refl (k : Ctx) (E : Nat → Hist) : NewEvs k E E := fun _ _ h => Or.inl h

theorem NewEvs.trans {k : Ctx} {E E' E'' : Nat → Hist} (h1 : NewEvs k E E') (h2 : NewEvs k E' E'') :
    NewEvs k E E'' := by
  intro d p hp
  rcases h2 d p hp with h | h
  · exact h1 d p h
  · exact Or.inr h

theorem annEv_wf (k : Ctx) (x : PeerCfg) (hx : x ∈ k.cfgs) (tick : Nat) (adj : List Cand) (r0 : Cand)
    (ho : r0.origin.isSome = true) : EvWF k r0.pfx (annEv k.g x tick adj r0) := by
  intro c hc
  unfold annEv at hc
  simp only at hc
  by_cases hr : inboundRejected k.g x { r0 with src := x.srcInfo k.g, ts := tick } = true
  · rw [if_pos hr] at hc; cases hc
  · rw [if_neg hr] at hc
    cases hf : adj.find? (fun y => sameKey { r0 with src := x.srcInfo k.g, ts := tick } y) with
    | none =>
      simp only [hf, Ev.ann.injEq] at hc
      subst hc
      exact ⟨⟨x, hx, rfl⟩, rfl, ho⟩
    | some old =>
      simp only [hf] at hc
      by_cases hp : pathEqual old { r0 with src := x.srcInfo k.g, ts := tick } = true
      · rw [if_pos hp] at hc
        simp only [Ev.ann.injEq] at hc
        subst hc
        exact ⟨⟨x, hx, rfl⟩, rfl, ho⟩
      · rw [if_neg hp] at hc
        simp only [Ev.ann.injEq] at hc
        subst hc
        exact ⟨⟨x, hx, rfl⟩, rfl, ho⟩

theorem wdEv_wf (k : Ctx) (dst : Nat) (x : PeerCfg) (tick pfx pid : Nat) :
    EvWF k dst (wdEv k.g x tick pfx pid) := by
  intro c hc; unfold wdEv at hc; cases hc

/-- one event for one destination, the other destinations untouched -/
theorem oneEv_wi (s : SW) (E : Nat → Hist) (h : WI s E) (dst : Nat) (ev : Ev) (hev : EvWF s.k dst ev)
    (tick : Nat) :
    WI { s with tick := tick, d := upd s.d dst (dEv s.k (s.d dst) ev) }
      (upd E dst (E dst ++ [(ev, kf s.k)])) ∧
    NewEvs s.k E (upd E dst (E dst ++ [(ev, kf s.k)])) := by
  refine ⟨⟨h.1, ?_⟩, ?_⟩
  · intro d
    show DInv s.k d (upd s.d dst _ d) (upd E dst _ d)
    unfold upd
    by_cases hd : d = dst
    · subst hd
      rw [if_pos rfl, if_pos rfl]
      have := fold_dinv h.1 [ev] (s.d d) (E d) (h.2 d) (fun e he => by
        simp at he; subst he; exact hev)
      simpa using this
    · rw [if_neg hd, if_neg hd]; exact h.2 d
  · intro d p hp
    unfold upd at hp
    by_cases hd : d = dst
    · subst hd
      rw [if_pos rfl] at hp
      rcases List.mem_append.mp hp with hp | hp
      · exact Or.inl hp
      · simp at hp; subst hp; exact Or.inr rfl
    · rw [if_neg hd] at hp; exact Or.inl hp

theorem recvAnn_wi (s : SW) (E : Nat → Hist) (i : Nat) (r0 : Cand) (ho : r0.origin.isSome = true)
    (h : WI s E) : ∃ E', WI (recvAnn s i r0) E' ∧ NewEvs s.k E E' := by
  unfold recvAnn
  cases hc : s.k.cfg? i with
  | none => exact ⟨E, h, NewEvs.refl _ _⟩
  | some x =>
    simp only
    by_cases hu : (!s.k.up i) = true
    · rw [if_pos hu]; exact ⟨E, h, NewEvs.refl _ _⟩
    · rw [if_neg hu]
      exact ⟨_, oneEv_wi s E h r0.pfx _ (annEv_wf s.k x (cfg?_some hc).1 _ _ r0 ho) _⟩

theorem recvWd_wi (s : SW) (E : Nat → Hist) (i pfx pid : Nat) (h : WI s E) :
    ∃ E', WI (recvWd s i pfx pid) E' ∧ NewEvs s.k E E' := by
  unfold recvWd
  cases hc : s.k.cfg? i with
  | none => exact ⟨E, h, NewEvs.refl _ _⟩
  | some x =>
    simp only
    by_cases hu : (!s.k.up i) = true
    · rw [if_pos hu]; exact ⟨E, h, NewEvs.refl _ _⟩
    · rw [if_neg hu]
      exact ⟨_, oneEv_wi s E h pfx _ (wdEv_wf s.k pfx x _ pfx pid) _⟩

theorem dinv_congr {k k' : Ctx} {dst : Nat} {st : DSt} {evs : Hist} (h : DInv k dst st evs)
    (hg : k'.g = k.g) (hc : k'.cfgs = k.cfgs) (ho : k'.opts = k.opts) (hu : k'.up = k.up) :
    DInv k' dst st evs := by
  refine ⟨h.wf.congr hg hc, ?_, by rw [ho]; exact h.tr⟩
  intro i t hc' hu'
  have h1 : k.cfg? i = some t := by unfold Ctx.cfg? at hc' ⊢; rw [← hc]; exact hc'
  rw [hg]
  exact h.view i t h1 (by rw [← hu]; exact hu')

theorem setImp_wi (s : SW) (E : Nat → Hist) (p : Pol) (h : WI s E) :
    WI { s with k := { s.k with imp := p } } E :=
  ⟨h.1.congr rfl, fun d => dinv_congr (h.2 d) rfl rfl rfl rfl⟩

theorem setExp_wi (s : SW) (E : Nat → Hist) (p : Pol) (h : WI s E) :
    WI { s with k := { s.k with exp := p } } E :=
  ⟨h.1.congr rfl, fun d => dinv_congr (h.2 d) rfl rfl rfl rfl⟩

theorem softIn_k (s : SW) (i : Nat) : (softIn s i).k = s.k := by
  unfold softIn; cases s.k.cfg? i <;> rfl

theorem softOut_k (s : SW) (i : Nat) : (softOut s i).k = s.k := by
  unfold softOut
  cases s.k.cfg? i with
  | none => rfl
  | some t => simp only; split <;> rfl

theorem softIn_wi (s : SW) (E : Nat → Hist) (i : Nat) (h : WI s E) :
    ∃ E', WI (softIn s i) E' ∧ NewEvs s.k E E' := by
  unfold softIn
  cases hc : s.k.cfg? i with
  | none => exact ⟨E, h, NewEvs.refl _ _⟩
  | some x =>
    refine ⟨fun d => E d ++ (((s.d d).adj.filter (fromPeer x)).map Ev.ann).map (fun ev => (ev, kf s.k)),
      ⟨h.1, fun d => dSoftIn_dinv h.1 x (s.d d) (E d) (h.2 d)⟩, ?_⟩
    intro d p hp
    rcases List.mem_append.mp hp with hp | hp
    · exact Or.inl hp
    · obtain ⟨ev, _, rfl⟩ := List.mem_map.mp hp
      exact Or.inr rfl

theorem softOut_wi (s : SW) (E : Nat → Hist) (i : Nat) (h : WI s E) : WI (softOut s i) E := by
  unfold softOut
  cases hc : s.k.cfg? i with
  | none => exact h
  | some t =>
    simp only
    by_cases hu : (!s.k.up i) = true
    · rw [if_pos hu]; exact h
    · rw [if_neg hu]
      exact ⟨h.1, fun d => dSoftOut_dinv hc (s.d d) (E d) (h.2 d)⟩

theorem sessionUp_wi (s : SW) (E : Nat → Hist) (i : Nat) (h : WI s E) : WI (sessionUp s i) E := by
  unfold sessionUp
  cases hc : s.k.cfg? i with
  | none => exact h
  | some t =>
    have hti := (cfg?_some hc).2
    show WI { k := { s.k with up := upd s.k.up i true }, tick := s.tick + 1,
              d := fun dst => dUp { s.k with up := upd s.k.up i true } t (s.d dst) } E
    refine ⟨h.1.congr rfl, fun d => ?_⟩
    have hd := h.2 d
    have w' : DWF { s.k with up := upd s.k.up i true } d (s.d d) := hd.wf.congr rfl rfl
    refine ⟨⟨w'.rib, w'.adj, w'.nodup⟩, ?_, ⟨hd.tr.rib, hd.tr.adj, hd.tr.nodup, hd.tr.pres, hd.tr.good⟩⟩
    intro j t' hc' hu'
    have hc'' : s.k.cfg? j = some t' := hc'
    by_cases hj : j = t.idx
    · have : t' = t := by
        rw [hj, hti] at hc''; rw [hc] at hc''; exact (Option.some.inj hc'').symm
      subst this
      show WeakInv _ t' _ ((dUp _ t' (s.d d)).held j)
      rw [hj, dUp_held]
      exact weak_of_want _ _ _ _
    · show WeakInv _ t' _ ((dUp _ t (s.d d)).held j)
      rw [dUp_other _ _ _ _ hj]
      have hu'' : s.k.up j = true := by
        have : upd s.k.up i true j = true := hu'
        unfold upd at this
        rw [if_neg (by rw [← hti]; exact hj)] at this
        exact this
      exact hd.view j t' hc'' hu''

theorem sessionDown_wi (s : SW) (E : Nat → Hist) (i : Nat) (h : WI s E) :
    ∃ E', WI (sessionDown s i) E' ∧ NewEvs s.k E E' := by
  unfold sessionDown
  cases hc : s.k.cfg? i with
  | none => exact ⟨E, h, NewEvs.refl _ _⟩
  | some x =>
    have hxi := (cfg?_some hc).2
    let k' : Ctx := { s.k with up := upd s.k.up i false }
    have cw' : CfgWF k' := h.1.congr rfl
    refine ⟨fun d => E d ++ (((s.d d).adj.filter (fromPeer x)).map Ev.wd).map (fun ev => (ev, kf k')),
      ⟨cw', fun d => ?_⟩, ?_⟩
    · have hd := h.2 d
      have h0 : DInv k' d { s.d d with held := upd (s.d d).held x.idx none } (E d) := by
        refine ⟨⟨hd.wf.rib, hd.wf.adj, hd.wf.nodup⟩, ?_, ⟨hd.tr.rib, hd.tr.adj, hd.tr.nodup, hd.tr.pres, hd.tr.good⟩⟩
        intro j t' hc' hu'
        have hc'' : s.k.cfg? j = some t' := hc'
        have hne : j ≠ i := by
          intro e
          have : upd s.k.up i false j = true := hu'
          unfold upd at this
          rw [if_pos e] at this
          cases this
        have hu'' : s.k.up j = true := by
          have : upd s.k.up i false j = true := hu'
          unfold upd at this
          rw [if_neg hne] at this
          exact this
        show WeakInv _ t' _ (upd (s.d d).held x.idx none j)
        unfold upd
        rw [if_neg (by rw [hxi]; exact hne)]
        exact hd.view j t' hc'' hu''
      exact fold_dinv cw' _ _ (E d) h0 (wds_wf _)
    · intro d p hp
      rcases List.mem_append.mp hp with hp | hp
      · exact Or.inl hp
      · obtain ⟨ev, _, rfl⟩ := List.mem_map.mp hp
        exact Or.inr rfl

theorem foldl_wi (f : SW → Nat → SW) (hk : ∀ s i, (f s i).k = s.k)
    (hf : ∀ s E i, WI s E → ∃ E', WI (f s i) E' ∧ NewEvs s.k E E') (l : List Nat) :
    ∀ s E, WI s E → ∃ E', WI (l.foldl f s) E' ∧ NewEvs s.k E E' := by
  induction l with
  | nil => intro s E h; exact ⟨E, h, NewEvs.refl _ _⟩
  | cons i rest ih =>
    intro s E h
    obtain ⟨E1, h1, n1⟩ := hf s E i h
    obtain ⟨E2, h2, n2⟩ := ih (f s i) E1 h1
    rw [hk] at n2
    exact ⟨E2, h2, n1.trans n2⟩

theorem foldl_k (f : SW → Nat → SW) (hk : ∀ s i, (f s i).k = s.k) (l : List Nat) :
    ∀ s, (l.foldl f s).k = s.k := by
  induction l with
  | nil => intro s; rfl
  | cons i rest ih => intro s; simp only [List.foldl_cons]; rw [ih, hk]

/-- the announcements of a history carry an ORIGIN (it is a mandatory attribute) -/
def OpOK : SOp → Prop
  | .ann _ r => r.origin.isSome = true
  | _ => True

theorem step_wi (s : SW) (E : Nat → Hist) (op : SOp) (hop : OpOK op) (h : WI s E) :
    ∃ E', WI (step s op) E' ∧ NewEvs s.k E E' := by
  cases op with
  | up i => exact ⟨E, sessionUp_wi s E i h, NewEvs.refl _ _⟩
  | down i => exact sessionDown_wi s E i h
  | ann i r => exact recvAnn_wi s E i r hop h
  | wd i p pid => exact recvWd_wi s E i p pid h
  | setImp p => exact ⟨E, setImp_wi s E p h, NewEvs.refl _ _⟩
  | setExp p => exact ⟨E, setExp_wi s E p h, NewEvs.refl _ _⟩
  | softIn i => exact softIn_wi s E i h
  | softOut i => exact ⟨E, softOut_wi s E i h, NewEvs.refl _ _⟩
  | softBoth i =>
    obtain ⟨E1, h1, n1⟩ := softIn_wi s E i h
    exact ⟨E1, softOut_wi _ E1 i h1, n1⟩
  | softInAll => exact foldl_wi softIn softIn_k softIn_wi _ s E h
  | softOutAll =>
    exact foldl_wi softOut softOut_k (fun s E i h => ⟨E, softOut_wi s E i h, NewEvs.refl _ _⟩) _ s E h
  | softBothAll =>
    obtain ⟨E1, h1, n1⟩ := foldl_wi softIn softIn_k softIn_wi (idxs s) s E h
    obtain ⟨E2, h2, n2⟩ := foldl_wi softOut softOut_k
      (fun s E i h => ⟨E, softOut_wi s E i h, NewEvs.refl _ _⟩) (idxs (softInAll s)) (softInAll s) E1 h1
    have hk : (softInAll s).k = s.k := foldl_k softIn softIn_k _ s
    rw [hk] at n2
    exact ⟨E2, h2, n1.trans n2⟩
  | refresh i => exact ⟨E, softOut_wi s E i h, NewEvs.refl _ _⟩


/-! ### histories -/

def isRoute : SOp → Bool
  | .up _ => true
  | .down _ => true
  | .ann _ _ => true
  | .wd _ _ _ => true
  | _ => false

theorem run_wi (ops : List SOp) : ∀ (s : SW) (E : Nat → Hist), (∀ op ∈ ops, OpOK op) → WI s E →
    ∃ E', WI (run s ops) E' := by
  induction ops with
  | nil => intro s E _ h; exact ⟨E, h⟩
  | cons op rest ih =>
    intro s E hop h
    obtain ⟨E1, h1, _⟩ := step_wi s E op (hop op List.mem_cons_self) h
    exact ih (step s op) E1 (fun o ho => hop o (List.mem_cons_of_mem _ ho)) h1

/-- a route event changes neither the policies nor the configuration -/
theorem route_k (s : SW) (op : SOp) (hr : isRoute op = true) :
    (step s op).k.g = s.k.g ∧ (step s op).k.opts = s.k.opts ∧ (step s op).k.cfgs = s.k.cfgs ∧
      (step s op).k.imp = s.k.imp ∧ (step s op).k.exp = s.k.exp := by
  cases op with
  | up i => simp only [step, sessionUp]; cases s.k.cfg? i <;> simp
  | down i => simp only [step, sessionDown]; cases s.k.cfg? i <;> simp
  | ann i r =>
    simp only [step, recvAnn]
    cases s.k.cfg? i with
    | none => simp
    | some x => simp only; split <;> simp
  | wd i p pid =>
    simp only [step, recvWd]
    cases s.k.cfg? i with
    | none => simp
    | some x => simp only; split <;> simp
  | setImp p => cases hr
  | setExp p => cases hr
  | softIn i => cases hr
  | softOut i => cases hr
  | softBoth i => cases hr
  | softInAll => cases hr
  | softOutAll => cases hr
  | softBothAll => cases hr
  | refresh i => cases hr

theorem route_kf (s : SW) (op : SOp) (hr : isRoute op = true) : kf (step s op).k = kf s.k := by
  obtain ⟨h1, _, h3, h4, _⟩ := route_k s op hr
  unfold kf; rw [h1, h3, h4]

/-- the speaker whose policies never change: every event of every destination was evaluated
    under the one import function -/
theorem run_fresh_wi (ops : List SOp) : ∀ (s : SW) (E : Nat → Hist), (∀ op ∈ ops, OpOK op) →
    (∀ op ∈ ops, isRoute op = true) → WI s E → (∀ d p, p ∈ E d → p.2 = kf s.k) →
    ∃ E', WI (run s ops) E' ∧ (∀ d p, p ∈ E' d → p.2 = kf s.k) ∧ kf (run s ops).k = kf s.k := by
  induction ops with
  | nil => intro s E _ _ h ha; exact ⟨E, h, ha, rfl⟩
  | cons op rest ih =>
    intro s E hop hr h ha
    obtain ⟨E1, h1, n1⟩ := step_wi s E op (hop op List.mem_cons_self) h
    have hkf := route_kf s op (hr op List.mem_cons_self)
    have ha1 : ∀ d p, p ∈ E1 d → p.2 = kf (step s op).k := by
      intro d p hp
      rw [hkf]
      rcases n1 d p hp with h' | h'
      · exact ha d p h'
      · exact h'
    obtain ⟨E2, h2, a2, k2⟩ := ih (step s op) E1 (fun o ho => hop o (List.mem_cons_of_mem _ ho))
      (fun o ho => hr o (List.mem_cons_of_mem _ ho)) h1 ha1
    refine ⟨E2, h2, ?_, ?_⟩
    · intro d p hp; rw [← hkf]; exact a2 d p hp
    · show kf (run (step s op) rest).k = kf s.k
      rw [k2, hkf]

/-! ### the speaker whose export policy never changes holds the exports -/

def VE (s : SW) : Prop := ∀ d, ViewEq s.k (s.d d)

theorem viewEq_congr {k k' : Ctx} {st : DSt} (v : ViewEq k st) (hg : k'.g = k.g)
    (hc : k'.cfgs = k.cfgs) (he : k'.exp = k.exp) (hu : k'.up = k.up) : ViewEq k' st := by
  intro i t hc' hu'
  have h1 : k.cfg? i = some t := by unfold Ctx.cfg? at hc' ⊢; rw [← hc]; exact hc'
  rw [hg, he]
  exact v i t h1 (by rw [← hu]; exact hu')

theorem oneEv_ve (s : SW) (E : Nat → Hist) (h : WI s E) (v : VE s) (dst : Nat) (ev : Ev)
    (hev : EvWF s.k dst ev) (tick : Nat) :
    VE { s with tick := tick, d := upd s.d dst (dEv s.k (s.d dst) ev) } := by
  intro d
  show ViewEq s.k (upd s.d dst _ d)
  unfold upd
  by_cases hd : d = dst
  · subst hd; rw [if_pos rfl]; exact dEv_viewEq h.1 (h.2 d).wf hev (v d)
  · rw [if_neg hd]; exact v d

theorem step_ve (s : SW) (E : Nat → Hist) (op : SOp) (hop : OpOK op) (hr : isRoute op = true)
    (h : WI s E) (v : VE s) : VE (step s op) := by
  cases op with
  | ann i r =>
    simp only [step, recvAnn]
    cases hc : s.k.cfg? i with
    | none => exact v
    | some x =>
      simp only
      by_cases hu : (!s.k.up i) = true
      · rw [if_pos hu]; exact v
      · rw [if_neg hu]
        exact oneEv_ve s E h v r.pfx _ (annEv_wf s.k x (cfg?_some hc).1 _ _ r hop) _
  | wd i p pid =>
    simp only [step, recvWd]
    cases hc : s.k.cfg? i with
    | none => exact v
    | some x =>
      simp only
      by_cases hu : (!s.k.up i) = true
      · rw [if_pos hu]; exact v
      · rw [if_neg hu]
        exact oneEv_ve s E h v p _ (wdEv_wf s.k p x _ p pid) _
  | up i =>
    simp only [step, sessionUp]
    cases hc : s.k.cfg? i with
    | none => exact v
    | some t =>
      have hti := (cfg?_some hc).2
      intro d
      show ViewEq { s.k with up := upd s.k.up i true } (dUp { s.k with up := upd s.k.up i true } t (s.d d))
      intro j t' hc' hu'
      have hc'' : s.k.cfg? j = some t' := hc'
      by_cases hj : j = t.idx
      · have : t' = t := by
          rw [hj, hti] at hc''; rw [hc] at hc''; exact (Option.some.inj hc'').symm
        subst this
        rw [hj, dUp_held]; rfl
      · rw [dUp_other _ _ _ _ hj]
        have hu'' : s.k.up j = true := by
          have : upd s.k.up i true j = true := hu'
          unfold upd at this
          rw [if_neg (by rw [← hti]; exact hj)] at this
          exact this
        exact v d j t' hc'' hu''
  | down i =>
    simp only [step, sessionDown]
    cases hc : s.k.cfg? i with
    | none => exact v
    | some x =>
      have hxi := (cfg?_some hc).2
      intro d
      have cw' : CfgWF { s.k with up := upd s.k.up i false } := h.1.congr rfl
      have hd := h.2 d
      have w0 : DWF { s.k with up := upd s.k.up i false } d
          { s.d d with held := upd (s.d d).held x.idx none } := by
        have w' : DWF { s.k with up := upd s.k.up i false } d (s.d d) := hd.wf.congr rfl rfl
        exact ⟨w'.rib, w'.adj, w'.nodup⟩
      have v0 : ViewEq { s.k with up := upd s.k.up i false }
          { s.d d with held := upd (s.d d).held x.idx none } := by
        intro j t' hc' hu'
        have hc'' : s.k.cfg? j = some t' := hc'
        have hne : j ≠ i := by
          intro e
          have : upd s.k.up i false j = true := hu'
          unfold upd at this
          rw [if_pos e] at this
          cases this
        have hu'' : s.k.up j = true := by
          have : upd s.k.up i false j = true := hu'
          unfold upd at this
          rw [if_neg hne] at this
          exact this
        show upd (s.d d).held x.idx none j = _
        unfold upd
        rw [if_neg (by rw [hxi]; exact hne)]
        exact v d j t' hc'' hu''
      exact fold_viewEq cw' _ _ w0 (wds_wf _) v0
  | setImp p => cases hr
  | setExp p => cases hr
  | softIn i => cases hr
  | softOut i => cases hr
  | softBoth i => cases hr
  | softInAll => cases hr
  | softOutAll => cases hr
  | softBothAll => cases hr
  | refresh i => cases hr

theorem run_fresh_ve (ops : List SOp) : ∀ (s : SW) (E : Nat → Hist), (∀ op ∈ ops, OpOK op) →
    (∀ op ∈ ops, isRoute op = true) → WI s E → VE s → VE (run s ops) := by
  induction ops with
  | nil => intro s E _ _ _ v; exact v
  | cons op rest ih =>
    intro s E hop hr h v
    obtain ⟨E1, h1, _⟩ := step_wi s E op (hop op List.mem_cons_self) h
    exact ih (step s op) E1 (fun o ho => hop o (List.mem_cons_of_mem _ ho))
      (fun o ho => hr o (List.mem_cons_of_mem _ ho)) h1
      (step_ve s E op (hop op List.mem_cons_self) (hr op List.mem_cons_self) h v)


/-! ### what does not depend on the policies: sessions, clock, Adj-RIB-Ins -/

structure SameCore (s1 s2 : SW) : Prop where
  g    : s1.k.g = s2.k.g
  opts : s1.k.opts = s2.k.opts
  cfgs : s1.k.cfgs = s2.k.cfgs
  up   : s1.k.up = s2.k.up
  tick : s1.tick = s2.tick
  adj  : ∀ d, (s1.d d).adj = (s2.d d).adj

theorem SameCore.refl (s : SW) : SameCore s s := ⟨rfl, rfl, rfl, rfl, rfl, fun _ => rfl⟩

theorem SameCore.trans {a b c : SW} (h1 : SameCore a b) (h2 : SameCore b c) : SameCore a c :=
  ⟨h1.g.trans h2.g, h1.opts.trans h2.opts, h1.cfgs.trans h2.cfgs, h1.up.trans h2.up,
   h1.tick.trans h2.tick, fun d => (h1.adj d).trans (h2.adj d)⟩

theorem SameCore.cfg? {s1 s2 : SW} (h : SameCore s1 s2) (i : Nat) : s1.k.cfg? i = s2.k.cfg? i := by
  unfold Ctx.cfg?; rw [h.cfgs]

theorem dDown_adj (k : Ctx) (x : PeerCfg) (st : DSt) :
    (dDown k x st).adj = ((st.adj.filter (fromPeer x)).map Ev.wd).foldl adjInPlace st.adj := by
  unfold dDown; rw [fold_adj]

theorem route_core (s1 s2 : SW) (op : SOp) (hr : isRoute op = true) (h : SameCore s1 s2) :
    SameCore (step s1 op) (step s2 op) := by
  cases op with
  | ann i r =>
    simp only [step, recvAnn]
    rw [h.cfg? i, h.up]
    cases hc : s2.k.cfg? i with
    | none => exact h
    | some x =>
      simp only
      by_cases hu : (!s2.k.up i) = true
      · rw [if_pos hu, if_pos hu]; exact h
      · rw [if_neg hu, if_neg hu]
        refine ⟨h.g, h.opts, h.cfgs, h.up, by simp [h.tick], ?_⟩
        intro d
        show (upd s1.d r.pfx _ d).adj = (upd s2.d r.pfx _ d).adj
        unfold upd
        by_cases hd : d = r.pfx
        · rw [if_pos hd, if_pos hd]
          show adjInPlace (s1.d r.pfx).adj _ = adjInPlace (s2.d r.pfx).adj _
          rw [h.adj, h.g, h.tick]
        · rw [if_neg hd, if_neg hd]; exact h.adj d
  | wd i p pid =>
    simp only [step, recvWd]
    rw [h.cfg? i, h.up]
    cases hc : s2.k.cfg? i with
    | none => exact h
    | some x =>
      simp only
      by_cases hu : (!s2.k.up i) = true
      · rw [if_pos hu, if_pos hu]; exact h
      · rw [if_neg hu, if_neg hu]
        refine ⟨h.g, h.opts, h.cfgs, h.up, by simp [h.tick], ?_⟩
        intro d
        show (upd s1.d p _ d).adj = (upd s2.d p _ d).adj
        unfold upd
        by_cases hd : d = p
        · rw [if_pos hd, if_pos hd]
          show adjInPlace (s1.d p).adj (wdEv s1.k.g x (s1.tick + 1) p pid) =
            adjInPlace (s2.d p).adj (wdEv s2.k.g x (s2.tick + 1) p pid)
          rw [h.adj, h.g, h.tick]
        · rw [if_neg hd, if_neg hd]; exact h.adj d
  | up i =>
    simp only [step, sessionUp]
    rw [h.cfg? i]
    cases hc : s2.k.cfg? i with
    | none => exact h
    | some t =>
      refine ⟨h.g, h.opts, h.cfgs, ?_, by simp [h.tick], fun d => h.adj d⟩
      show upd s1.k.up i true = upd s2.k.up i true
      rw [h.up]
  | down i =>
    simp only [step, sessionDown]
    rw [h.cfg? i]
    cases hc : s2.k.cfg? i with
    | none => exact h
    | some x =>
      refine ⟨h.g, h.opts, h.cfgs, ?_, by simp [h.tick], ?_⟩
      · show upd s1.k.up i false = upd s2.k.up i false
        rw [h.up]
      · intro d
        show (dDown _ x (s1.d d)).adj = (dDown _ x (s2.d d)).adj
        rw [dDown_adj, dDown_adj, h.adj]
  | setImp p => cases hr
  | setExp p => cases hr
  | softIn i => cases hr
  | softOut i => cases hr
  | softBoth i => cases hr
  | softInAll => cases hr
  | softOutAll => cases hr
  | softBothAll => cases hr
  | refresh i => cases hr

theorem softIn_core (s : SW) (E : Nat → Hist) (i : Nat) (h : WI s E) : SameCore (softIn s i) s := by
  unfold softIn
  cases hc : s.k.cfg? i with
  | none => exact SameCore.refl s
  | some x =>
    exact ⟨rfl, rfl, rfl, rfl, rfl, fun d => dSoftIn_adj s.k x (s.d d) (h.2 d).wf.nodup⟩

theorem softOut_core (s : SW) (i : Nat) : SameCore (softOut s i) s := by
  unfold softOut
  cases hc : s.k.cfg? i with
  | none => exact SameCore.refl s
  | some t =>
    simp only
    by_cases hu : (!s.k.up i) = true
    · rw [if_pos hu]; exact SameCore.refl s
    · rw [if_neg hu]; exact ⟨rfl, rfl, rfl, rfl, rfl, fun _ => rfl⟩

theorem foldl_core (f : SW → Nat → SW) (_hk : ∀ s i, (f s i).k = s.k)
    (hf : ∀ s E i, WI s E → ∃ E', WI (f s i) E' ∧ NewEvs s.k E E')
    (hc : ∀ s E i, WI s E → SameCore (f s i) s) (l : List Nat) :
    ∀ s E, WI s E → SameCore (l.foldl f s) s := by
  induction l with
  | nil => intro s _ _; exact SameCore.refl s
  | cons i rest ih =>
    intro s E h
    obtain ⟨E1, h1, _⟩ := hf s E i h
    exact (ih (f s i) E1 h1).trans (hc s E i h)

theorem nonroute_core (s : SW) (E : Nat → Hist) (op : SOp) (hr : isRoute op = false) (h : WI s E) :
    SameCore (step s op) s := by
  have hso : ∀ s E i, WI s E → ∃ E', WI (softOut s i) E' ∧ NewEvs s.k E E' :=
    fun s E i h => ⟨E, softOut_wi s E i h, NewEvs.refl _ _⟩
  cases op with
  | up i => cases hr
  | down i => cases hr
  | ann i r => cases hr
  | wd i p pid => cases hr
  | setImp p => exact ⟨rfl, rfl, rfl, rfl, rfl, fun _ => rfl⟩
  | setExp p => exact ⟨rfl, rfl, rfl, rfl, rfl, fun _ => rfl⟩
  | softIn i => exact softIn_core s E i h
  | softOut i => exact softOut_core s i
  | softBoth i => exact (softOut_core _ i).trans (softIn_core s E i h)
  | softInAll => exact foldl_core softIn softIn_k softIn_wi softIn_core _ s E h
  | softOutAll => exact foldl_core softOut softOut_k hso (fun s _ i _ => softOut_core s i) _ s E h
  | softBothAll =>
    obtain ⟨E1, h1, _⟩ := foldl_wi softIn softIn_k softIn_wi (idxs s) s E h
    exact (foldl_core softOut softOut_k hso (fun s _ i _ => softOut_core s i) _ (softInAll s) E1 h1).trans
      (foldl_core softIn softIn_k softIn_wi softIn_core _ s E h)
  | refresh i => exact softOut_core s i

theorem run_core (ops : List SOp) : ∀ (s1 s2 : SW) (E : Nat → Hist), (∀ op ∈ ops, OpOK op) →
    WI s1 E → SameCore s1 s2 → SameCore (run s1 ops) (run s2 (ops.filter isRoute)) := by
  induction ops with
  | nil => intro s1 s2 _ _ _ h; exact h
  | cons op rest ih =>
    intro s1 s2 E hop h hc
    obtain ⟨E1, h1, _⟩ := step_wi s1 E op (hop op List.mem_cons_self) h
    have hrest := fun o ho => hop o (List.mem_cons_of_mem _ ho)
    cases hr : isRoute op with
    | true =>
      rw [List.filter_cons_of_pos (by simpa using hr)]
      exact ih (step s1 op) (step s2 op) E1 hrest h1 (route_core s1 s2 op hr hc)
    | false =>
      rw [List.filter_cons_of_neg (by simp [hr])]
      exact ih (step s1 op) s2 E1 hrest h1 ((nonroute_core s1 E op hr h).trans hc)


/-! ### soft reset in of all peers, one destination -/

def dSoftInAll (k : Ctx) (cs : List PeerCfg) (st : DSt) : DSt :=
  cs.foldl (fun st x => dSoftIn k x st) st

theorem foldl_softIn_d (l : List Nat) : ∀ (s : SW) (d : Nat),
    ((l.foldl softIn s).d d) = dSoftInAll s.k (l.filterMap s.k.cfg?) (s.d d) := by
  induction l with
  | nil => intro s d; rfl
  | cons i rest ih =>
    intro s d
    simp only [List.foldl_cons]
    rw [ih (softIn s i) d, softIn_k]
    unfold softIn
    cases hc : s.k.cfg? i with
    | none => simp [List.filterMap_cons, hc]
    | some x => simp [List.filterMap_cons, hc, dSoftInAll, SW.mapD]

theorem dSoftInAll_dinv {k : Ctx} (cw : CfgWF k) {dst : Nat} (cs : List PeerCfg) :
    ∀ (st : DSt) (evs : Hist), DInv k dst st evs →
      DInv k dst (dSoftInAll k cs st)
        (evs ++ (cs.flatMap (fun x => st.adj.filter (fromPeer x))).map (fun c => (Ev.ann c, kf k))) ∧
      (dSoftInAll k cs st).adj = st.adj := by
  induction cs with
  | nil => intro st evs h; simpa [dSoftInAll] using h
  | cons x rest ih =>
    intro st evs h
    have h1 := dSoftIn_dinv cw x st evs h
    have a1 := dSoftIn_adj k x st h.wf.nodup
    obtain ⟨h2, a2⟩ := ih (dSoftIn k x st) _ h1
    rw [a1] at h2 a2
    refine ⟨?_, a2⟩
    have : dSoftInAll k (x :: rest) st = dSoftInAll k rest (dSoftIn k x st) := rfl
    rw [this]
    simpa [List.flatMap_cons, List.map_append, List.map_map, List.append_assoc, Function.comp_def] using h2

theorem hist_replays (evs : Hist) (f : Cand → Option Cand) (B : List Cand) :
    hist (evs ++ B.map (fun c => (Ev.ann c, f))) = hist evs ++ softOps f B := by
  unfold hist softOps
  rw [List.map_append, List.map_map]
  rfl

theorem replays_perm {k : Ctx} (cw : CfgWF k) {dst : Nat} {st : DSt} (w : DWF k dst st) :
    (k.cfgs.flatMap (fun x => st.adj.filter (fromPeer x))).Perm st.adj := by
  apply flatMap_filter_perm k.cfgs st.adj fromPeer
  · intro a ha
    obtain ⟨⟨x, hx, hs⟩, _, _⟩ := w.adj a ha
    exact ⟨x, hx, by unfold fromPeer; rw [hs]; simp [PeerCfg.srcInfo]⟩
  · apply cw.addr.imp
    intro x y hxy a _ hboth
    unfold fromPeer at hboth
    have h1 : a.src.addr = some x.addr := by simpa using hboth.1
    have h2 : a.src.addr = some y.addr := by simpa using hboth.2
    rw [h1] at h2
    exact hxy (Option.some.inj h2)

/-! ### soft reset out of all peers -/

theorem softOut_d_rib (s : SW) (i d : Nat) :
    ((softOut s i).d d).rib = (s.d d).rib ∧ ((softOut s i).d d).adj = (s.d d).adj := by
  unfold softOut
  cases s.k.cfg? i with
  | none => exact ⟨rfl, rfl⟩
  | some t => simp only; split <;> exact ⟨rfl, rfl⟩

theorem foldl_softOut_rib (l : List Nat) : ∀ (s : SW) (d : Nat),
    ((l.foldl softOut s).d d).rib = (s.d d).rib := by
  induction l with
  | nil => intro s d; rfl
  | cons i rest ih => intro s d; simp only [List.foldl_cons]; rw [ih, (softOut_d_rib s i d).1]

theorem softOut_held_other (s : SW) (i j d : Nat) (hj : j ≠ i) :
    ((softOut s i).d d).held j = (s.d d).held j := by
  unfold softOut
  cases hc : s.k.cfg? i with
  | none => rfl
  | some t =>
    simp only
    split
    · rfl
    · exact dSoftOut_other s.k t (s.d d) j (by rw [(cfg?_some hc).2]; exact hj)

theorem foldl_softOut_other (l : List Nat) : ∀ (s : SW) (d j : Nat), j ∉ l →
    ((l.foldl softOut s).d d).held j = (s.d d).held j := by
  induction l with
  | nil => intro s d j _; rfl
  | cons i rest ih =>
    intro s d j hj
    simp only [List.foldl_cons]
    rw [ih (softOut s i) d j (fun h => hj (List.mem_cons_of_mem _ h)),
      softOut_held_other s i j d (fun e => hj (by rw [e]; exact List.mem_cons_self))]

theorem softOut_held_self (s : SW) (E : Nat → Hist) (i : Nat) (t : PeerCfg) (d : Nat) (h : WI s E)
    (hc : s.k.cfg? i = some t) (hu : s.k.up i = true) :
    ((softOut s i).d d).held i = wantOfP s.k.g s.k.exp t (s.d d).rib := by
  unfold softOut
  rw [hc]
  simp only [hu, Bool.not_true, Bool.false_eq_true, if_false]
  exact dSoftOut_held hc (s.d d) ((h.2 d).view i t hc hu)

theorem foldl_softOut_held (l : List Nat) : ∀ (s : SW) (E : Nat → Hist), WI s E →
    ∀ (d i : Nat) (t : PeerCfg), i ∈ l → s.k.cfg? i = some t → s.k.up i = true →
      ((l.foldl softOut s).d d).held i = wantOfP s.k.g s.k.exp t (s.d d).rib := by
  induction l with
  | nil => intro s E _ d i t hi; simp at hi
  | cons j rest ih =>
    intro s E h d i t hi hc hu
    simp only [List.foldl_cons]
    have h1 := softOut_wi s E j h
    have hk := softOut_k s j
    by_cases hir : i ∈ rest
    · have := ih (softOut s j) E h1 d i t hir (by rw [hk]; exact hc) (by rw [hk]; exact hu)
      rw [this, hk, (softOut_d_rib s j d).1]
    · have hij : i = j := by
        rcases List.mem_cons.mp hi with e | e
        · exact e
        · exact absurd e hir
      subst hij
      rw [foldl_softOut_other rest (softOut s i) d i hir]
      exact softOut_held_self s E i t d h hc hu

/-! ### the two speakers -/

def init (g : Global) (opts : Opts) (cfgs : List PeerCfg) (imp exp : Pol) : SW :=
  { k := { g := g, opts := opts, imp := imp, exp := exp, cfgs := cfgs } }

theorem init_wi (g : Global) (opts : Opts) (cfgs : List PeerCfg) (imp exp : Pol)
    (hc : CfgWF (init g opts cfgs imp exp).k) : WI (init g opts cfgs imp exp) (fun _ => []) := by
  refine ⟨hc, fun d => ⟨⟨?_, ?_, List.Pairwise.nil⟩, ?_, tracks_nil _⟩⟩
  · intro c h; simp [init] at h
  · intro c h; simp [init] at h
  · intro i t _ hu; simp [init] at hu

theorem init_ve (g : Global) (opts : Opts) (cfgs : List PeerCfg) (imp exp : Pol) :
    VE (init g opts cfgs imp exp) := by
  intro d i t _ hu; simp [init] at hu

theorem run_route_k (ops : List SOp) : ∀ (s : SW), (∀ op ∈ ops, isRoute op = true) →
    (run s ops).k.g = s.k.g ∧ (run s ops).k.opts = s.k.opts ∧ (run s ops).k.cfgs = s.k.cfgs ∧
      (run s ops).k.imp = s.k.imp ∧ (run s ops).k.exp = s.k.exp := by
  induction ops with
  | nil => intro s _; exact ⟨rfl, rfl, rfl, rfl, rfl⟩
  | cons op rest ih =>
    intro s hr
    obtain ⟨a1, a2, a3, a4, a5⟩ := route_k s op (hr op List.mem_cons_self)
    obtain ⟨b1, b2, b3, b4, b5⟩ := ih (step s op) (fun o ho => hr o (List.mem_cons_of_mem _ ho))
    exact ⟨b1.trans a1, b2.trans a2, b3.trans a3, b4.trans a4, b5.trans a5⟩

/-- **the whole speaker**: after any history and a final soft reset in + out of all peers, the
    Loc-RIB of every destination and what every established peer holds for it are those of the
    speaker that received the same routes with the final policies in force from the start -/
theorem world_soft_equals_fresh (g : Global) (opts : Opts) (cfgs : List PeerCfg) (p0i p0e : Pol)
    (ops : List SOp) (hcfg : CfgWF (init g opts cfgs p0i p0e).k)
    (halw : opts.alwaysCompareMed = true) (hops : ∀ op ∈ ops, OpOK op)
    (hties : ∀ d, ((run (init g opts cfgs (run (init g opts cfgs p0i p0e) ops).k.imp
        (run (init g opts cfgs p0i p0e) ops).k.exp) (ops.filter isRoute)).d d).rib.Pairwise
          (fun a b => key opts a ≠ key opts b)) :
    let sa := run (init g opts cfgs p0i p0e) ops
    let s1 := softBothAll sa
    let s2 := run (init g opts cfgs sa.k.imp sa.k.exp) (ops.filter isRoute)
    ∀ d, (s1.d d).rib = (s2.d d).rib ∧
      ∀ i t, sa.k.cfg? i = some t → sa.k.up i = true → (s1.d d).held i = (s2.d d).held i := by
  intro sa s1 s2 d
  -- the soft-reset speaker before the final reset
  obtain ⟨Ea, ha⟩ := run_wi ops (init g opts cfgs p0i p0e) _ hops (init_wi g opts cfgs p0i p0e hcfg)
  -- the fresh speaker
  have hcfg2 : CfgWF (init g opts cfgs sa.k.imp sa.k.exp).k := hcfg.congr rfl
  have hr2 : ∀ op ∈ ops.filter isRoute, isRoute op = true := fun op h => (List.mem_filter.mp h).2
  have ho2 : ∀ op ∈ ops.filter isRoute, OpOK op := fun op h => hops op (List.mem_filter.mp h).1
  obtain ⟨E2, h2, all2, kf2⟩ := run_fresh_wi (ops.filter isRoute) (init g opts cfgs sa.k.imp sa.k.exp)
    (fun _ => []) ho2 hr2 (init_wi g opts cfgs _ _ hcfg2) (fun _ _ h => by simp at h)
  have ve2 : VE s2 := run_fresh_ve (ops.filter isRoute) _ (fun _ => []) ho2 hr2
    (init_wi g opts cfgs _ _ hcfg2) (init_ve g opts cfgs _ _)
  obtain ⟨k2g, k2o, k2c, k2i, k2e⟩ := run_route_k (ops.filter isRoute)
    (init g opts cfgs sa.k.imp sa.k.exp) hr2
  have core : SameCore sa s2 := run_core ops (init g opts cfgs p0i p0e)
    (init g opts cfgs sa.k.imp sa.k.exp) _ hops (init_wi g opts cfgs p0i p0e hcfg)
    ⟨rfl, rfl, rfl, rfl, rfl, fun _ => rfl⟩
  have hgo : sa.k.opts = opts := core.opts.trans k2o
  -- soft reset in of all peers, this destination
  obtain ⟨E1, h1, _⟩ := foldl_wi softIn softIn_k softIn_wi (idxs sa) sa Ea ha
  have hk1 : (softInAll sa).k = sa.k := foldl_k softIn softIn_k _ sa
  have hd1 : (softInAll sa).d d = dSoftInAll sa.k sa.k.cfgs (sa.d d) := by
    show ((idxs sa).foldl softIn sa).d d = _
    rw [foldl_softIn_d]
    unfold idxs
    rw [filterMap_cfg?_idxs sa.k ha.1.idx]
  obtain ⟨dA, _⟩ := dSoftInAll_dinv ha.1 sa.k.cfgs (sa.d d) (Ea d) (ha.2 d)
  have hB := replays_perm ha.1 (ha.2 d).wf
  have hrib1 : (s1.d d).rib = BestPath.run sa.k.opts
      (hist (Ea d) ++ softOps (kf sa.k) (sa.k.cfgs.flatMap (fun x => (sa.d d).adj.filter (fromPeer x)))) := by
    show (((idxs (softInAll sa)).foldl softOut (softInAll sa)).d d).rib = _
    rw [foldl_softOut_rib, hd1, dA.tr.rib, hist_replays]
  have hkf : kf (init g opts cfgs sa.k.imp sa.k.exp).k = kf sa.k := by
    unfold kf
    show impFn g sa.k.imp cfgs = impFn sa.k.g sa.k.imp sa.k.cfgs
    rw [core.g, k2g, core.cfgs, k2c]; rfl
  have t2 : Tracks sa.k.opts (s2.d d) (E2 d) := by
    have := (h2.2 d).tr
    rw [← core.opts] at this
    exact this
  have hribEq : (s1.d d).rib = (s2.d d).rib := by
    rw [hrib1]
    apply dest_soft_in_equals_fresh sa.k.opts (by rw [hgo]; exact halw) (sa.d d) (s2.d d) (Ea d) (E2 d)
      (kf sa.k) (impFn_pres _ _ _) (ha.2 d).tr t2
      (fun p hp => by rw [← hkf]; exact all2 d p hp) (core.adj d) _ hB
    rw [hgo]; exact hties d
  refine ⟨hribEq, ?_⟩
  intro i t hc hu
  have hi : i ∈ idxs (softInAll sa) := by
    unfold idxs
    rw [hk1]
    obtain ⟨ht, hti⟩ := cfg?_some hc
    exact List.mem_map.mpr ⟨t, ht, hti⟩
  have e1 : (s1.d d).held i = wantOfP sa.k.g sa.k.exp t ((softInAll sa).d d).rib := by
    have := foldl_softOut_held (idxs (softInAll sa)) (softInAll sa) E1 h1 d i t hi
      (by rw [hk1]; exact hc) (by rw [hk1]; exact hu)
    rw [hk1] at this
    exact this
  have e2 : (s2.d d).held i = wantOfP s2.k.g s2.k.exp t (s2.d d).rib :=
    ve2 d i t (by rw [← core.cfg? i]; exact hc) (by rw [← core.up]; exact hu)
  have hrib' : ((softInAll sa).d d).rib = (s2.d d).rib := by
    rw [← hribEq]
    show _ = (((idxs (softInAll sa)).foldl softOut (softInAll sa)).d d).rib
    rw [foldl_softOut_rib]
  rw [e1, e2, hrib', core.g, k2e]
  rfl


theorem softBothAll_k (s : SW) : (softBothAll s).k = s.k := by
  unfold softBothAll softOutAll softInAll
  rw [foldl_k softOut softOut_k, foldl_k softIn softIn_k]

theorem run_append (s : SW) (a b : List SOp) : run s (a ++ b) = run (run s a) b := by
  unfold run; rw [List.foldl_append]

/-- **idempotence, whole speaker**: a second soft reset in + out of all peers changes neither
    any Loc-RIB nor what any established peer holds -/
theorem world_reset_idempotent (g : Global) (opts : Opts) (cfgs : List PeerCfg) (p0i p0e : Pol)
    (ops : List SOp) (hcfg : CfgWF (init g opts cfgs p0i p0e).k)
    (halw : opts.alwaysCompareMed = true) (hops : ∀ op ∈ ops, OpOK op)
    (hties : ∀ d, ((run (init g opts cfgs (run (init g opts cfgs p0i p0e) ops).k.imp
        (run (init g opts cfgs p0i p0e) ops).k.exp) (ops.filter isRoute)).d d).rib.Pairwise
          (fun a b => key opts a ≠ key opts b)) :
    let sa := run (init g opts cfgs p0i p0e) ops
    let s1 := softBothAll sa
    ∀ d, ((softBothAll s1).d d).rib = (s1.d d).rib ∧
      ∀ i t, sa.k.cfg? i = some t → sa.k.up i = true →
        ((softBothAll s1).d d).held i = (s1.d d).held i := by
  intro sa s1 d
  have hrun : run (init g opts cfgs p0i p0e) (ops ++ [SOp.softBothAll]) = s1 := by
    rw [run_append]; rfl
  have hk : s1.k = sa.k := softBothAll_k sa
  have hfilt : (ops ++ [SOp.softBothAll]).filter isRoute = ops.filter isRoute := by
    rw [List.filter_append]; simp [isRoute]
  have hops' : ∀ op ∈ ops ++ [SOp.softBothAll], OpOK op := by
    intro op h
    rcases List.mem_append.mp h with h | h
    · exact hops op h
    · simp at h; subst h; trivial
  have A := world_soft_equals_fresh g opts cfgs p0i p0e ops hcfg halw hops hties d
  have hties' : ∀ d, ((run (init g opts cfgs
        (run (init g opts cfgs p0i p0e) (ops ++ [SOp.softBothAll])).k.imp
        (run (init g opts cfgs p0i p0e) (ops ++ [SOp.softBothAll])).k.exp)
        ((ops ++ [SOp.softBothAll]).filter isRoute)).d d).rib.Pairwise
          (fun a b => key opts a ≠ key opts b) := by
    intro d'
    rw [hrun, hfilt, hk]
    exact hties d'
  have B := world_soft_equals_fresh g opts cfgs p0i p0e (ops ++ [SOp.softBothAll]) hcfg halw hops'
    hties' d
  simp only [hrun, hfilt, hk] at B
  refine ⟨B.1.trans A.1.symm, ?_⟩
  intro i t hc hu
  have b := B.2 i t hc hu
  exact b.trans (A.2 i t hc hu).symm

/-- **soft reset out / ROUTE-REFRESH of ONE peer, whole speaker**: after any history the peer
    holds, for every destination, exactly the export of the current best path under the current
    export policy — whatever the other peers' state -/
theorem world_soft_out_peer (g : Global) (opts : Opts) (cfgs : List PeerCfg) (p0i p0e : Pol)
    (ops : List SOp) (hcfg : CfgWF (init g opts cfgs p0i p0e).k) (hops : ∀ op ∈ ops, OpOK op)
    (i : Nat) (t : PeerCfg) :
    let sa := run (init g opts cfgs p0i p0e) ops
    sa.k.cfg? i = some t → sa.k.up i = true →
    ∀ d, ((softOut sa i).d d).held i = wantOfP sa.k.g sa.k.exp t ((softOut sa i).d d).rib ∧
      ((softOut sa i).d d).rib = (sa.d d).rib := by
  intro sa hc hu d
  obtain ⟨Ea, ha⟩ := run_wi ops (init g opts cfgs p0i p0e) _ hops (init_wi g opts cfgs p0i p0e hcfg)
  rw [(softOut_d_rib sa i d).1]
  exact ⟨softOut_held_self sa Ea i t d ha hc hu, rfl⟩

end SoftResetWorld
