import Model.Wire
import Model.ErrHandling
import Model.ParseTotal
import Lemmas.Wire
/-! C05 part A: no over-read, fuel independence, output bounded by input, re-serialisable (core Lean only) -/
namespace PTotL
open Wire PTot

/-! ## (1) octets beyond the declared header length never influence the result -/

theorem rd16_append (a b : Bytes) (h : 2 ≤ a.length) : rd16 (a ++ b) = rd16 a := by
  match a, h with
  | x :: y :: t, _ => rfl

theorem getD_append_lt (a b : Bytes) (i : Nat) (h : i < a.length) : (a ++ b).getD i 0 = a.getD i 0 := by
  simp [List.getD, List.getElem?_append_left h]

/-- everything the three header decoders read from `bs ++ extra` is read from `bs` -/
theorem hdr_append (bs extra : Bytes)
    (h19 : 19 ≤ rd16 (bs.drop 16)) (hdecl : rd16 (bs.drop 16) ≤ bs.length)
    (h64 : (bs ++ extra).length < 65536) :
    (bs ++ extra).length % 65536 = (bs ++ extra).length ∧ bs.length % 65536 = bs.length ∧
    (bs ++ extra).take 16 = bs.take 16 ∧
    rd16 ((bs ++ extra).drop 16) = rd16 (bs.drop 16) ∧
    (bs ++ extra).getD 18 0 = bs.getD 18 0 ∧
    (bs ++ extra).take (rd16 (bs.drop 16)) = bs.take (rd16 (bs.drop 16)) := by
  have hl : (bs ++ extra).length = bs.length + extra.length := List.length_append
  refine ⟨Nat.mod_eq_of_lt h64, Nat.mod_eq_of_lt (by omega), ?_, ?_, ?_, ?_⟩
  · exact List.take_append_of_le_length (by omega)
  · rw [List.drop_append_of_le_length (by omega)]
    exact rd16_append _ _ (by rw [List.length_drop]; omega)
  · exact getD_append_lt _ _ _ (by omega)
  · exact List.take_append_of_le_length hdecl

theorem parse_append (o : Opts) (bs extra : Bytes)
    (h19 : 19 ≤ rd16 (bs.drop 16)) (hdecl : rd16 (bs.drop 16) ≤ bs.length)
    (h64 : (bs ++ extra).length < 65536) : parse o (bs ++ extra) = parse o bs := by
  obtain ⟨h1, h2, h3, h4, h5, h6⟩ := hdr_append bs extra h19 hdecl h64
  have hl : (bs ++ extra).length = bs.length + extra.length := List.length_append
  have g1 : ¬ rd16 (bs.drop 16) > (bs ++ extra).length := by omega
  have g2 : ¬ rd16 (bs.drop 16) > bs.length := by omega
  have g3 : ¬ (bs ++ extra).length < 19 := by omega
  have g4 : ¬ bs.length < 19 := by omega
  unfold parse
  simp only [h1, h2, h3, h4, h5, h6, g1, g2, g3, g4, if_false]

theorem parseL_append (o : Opts) (bs extra : Bytes)
    (h19 : 19 ≤ rd16 (bs.drop 16)) (hdecl : rd16 (bs.drop 16) ≤ bs.length)
    (h64 : (bs ++ extra).length < 65536) : parseL o (bs ++ extra) = parseL o bs := by
  obtain ⟨h1, h2, h3, h4, h5, h6⟩ := hdr_append bs extra h19 hdecl h64
  have hl : (bs ++ extra).length = bs.length + extra.length := List.length_append
  have g1 : ¬ rd16 (bs.drop 16) > (bs ++ extra).length := by omega
  have g2 : ¬ rd16 (bs.drop 16) > bs.length := by omega
  have g3 : ¬ (bs ++ extra).length < 19 := by omega
  have g4 : ¬ bs.length < 19 := by omega
  unfold parseL
  simp only [h1, h2, h3, h4, h5, h6, g1, g2, g3, g4, if_false]

theorem parseOpen_append (bs extra : Bytes)
    (h19 : 19 ≤ rd16 (bs.drop 16)) (hdecl : rd16 (bs.drop 16) ≤ bs.length)
    (h64 : (bs ++ extra).length < 65536) : parseOpen (bs ++ extra) = parseOpen bs := by
  obtain ⟨h1, h2, h3, h4, h5, h6⟩ := hdr_append bs extra h19 hdecl h64
  have hl : (bs ++ extra).length = bs.length + extra.length := List.length_append
  have g1 : ¬ rd16 (bs.drop 16) > (bs ++ extra).length := by omega
  have g2 : ¬ rd16 (bs.drop 16) > bs.length := by omega
  have g3 : ¬ (bs ++ extra).length < 19 := by omega
  have g4 : ¬ bs.length < 19 := by omega
  unfold parseOpen
  simp only [h1, h2, h3, h4, h5, h6, g1, g2, g3, g4, if_false]

/-- the declared-length prefix of `bs` is itself a message with the same declared length -/
theorem take_decl (bs : Bytes)
    (h19 : 19 ≤ rd16 (bs.drop 16)) (hdecl : rd16 (bs.drop 16) ≤ bs.length) :
    rd16 ((bs.take (rd16 (bs.drop 16))).drop 16) = rd16 (bs.drop 16) ∧
    (bs.take (rd16 (bs.drop 16))).length = rd16 (bs.drop 16) := by
  have hlen : (bs.take (rd16 (bs.drop 16))).length = rd16 (bs.drop 16) := by
    rw [List.length_take]; omega
  refine ⟨?_, hlen⟩
  generalize hn : rd16 (bs.drop 16) = n at *
  have hsplit : bs = bs.take n ++ bs.drop n := (List.take_append_drop n bs).symm
  have : bs.drop 16 = (bs.take n).drop 16 ++ bs.drop n := by
    conv => lhs; rw [hsplit]
    exact List.drop_append_of_le_length (by omega)
  rw [← rd16_append ((bs.take n).drop 16) (bs.drop n) (by rw [List.length_drop]; omega), ← this]
  exact hn

theorem parse_prefix_irrelevant (o : Opts) (bs extra : Bytes)
    (h19 : 19 ≤ rd16 (bs.drop 16)) (hdecl : rd16 (bs.drop 16) ≤ bs.length)
    (h64 : (bs ++ extra).length < 65536) :
    parse o (bs ++ extra) = parse o bs ∧ parse o bs = parse o (bs.take (rd16 (bs.drop 16))) := by
  refine ⟨parse_append o bs extra h19 hdecl h64, ?_⟩
  obtain ⟨ht, htl⟩ := take_decl bs h19 hdecl
  have hl : (bs ++ extra).length = bs.length + extra.length := List.length_append
  have := parse_append o (bs.take (rd16 (bs.drop 16))) (bs.drop (rd16 (bs.drop 16)))
    (by rw [ht]; exact h19) (by rw [ht, htl]; exact Nat.le_refl _)
    (by rw [List.take_append_drop]; omega)
  rw [List.take_append_drop] at this
  exact this

theorem parseL_prefix_irrelevant (o : Opts) (bs extra : Bytes)
    (h19 : 19 ≤ rd16 (bs.drop 16)) (hdecl : rd16 (bs.drop 16) ≤ bs.length)
    (h64 : (bs ++ extra).length < 65536) :
    parseL o (bs ++ extra) = parseL o bs ∧ parseL o bs = parseL o (bs.take (rd16 (bs.drop 16))) := by
  refine ⟨parseL_append o bs extra h19 hdecl h64, ?_⟩
  obtain ⟨ht, htl⟩ := take_decl bs h19 hdecl
  have hl : (bs ++ extra).length = bs.length + extra.length := List.length_append
  have := parseL_append o (bs.take (rd16 (bs.drop 16))) (bs.drop (rd16 (bs.drop 16)))
    (by rw [ht]; exact h19) (by rw [ht, htl]; exact Nat.le_refl _)
    (by rw [List.take_append_drop]; omega)
  rw [List.take_append_drop] at this
  exact this

theorem parseOpen_prefix_irrelevant (bs extra : Bytes)
    (h19 : 19 ≤ rd16 (bs.drop 16)) (hdecl : rd16 (bs.drop 16) ≤ bs.length)
    (h64 : (bs ++ extra).length < 65536) :
    parseOpen (bs ++ extra) = parseOpen bs ∧
    parseOpen bs = parseOpen (bs.take (rd16 (bs.drop 16))) := by
  refine ⟨parseOpen_append bs extra h19 hdecl h64, ?_⟩
  obtain ⟨ht, htl⟩ := take_decl bs h19 hdecl
  have hl : (bs ++ extra).length = bs.length + extra.length := List.length_append
  have := parseOpen_append (bs.take (rd16 (bs.drop 16))) (bs.drop (rd16 (bs.drop 16)))
    (by rw [ht]; exact h19) (by rw [ht, htl]; exact Nat.le_refl _)
    (by rw [List.take_append_drop]; omega)
  rw [List.take_append_drop] at this
  exact this

/-- a 23-octet UPDATE followed by 3 foreign octets: hypotheses hold, the tail is not read -/
example :
    let bs : Bytes := List.replicate 16 255 ++ [0, 23, 2, 0, 0, 0, 0]
    let extra : Bytes := [9, 9, 9]
    19 ≤ rd16 (bs.drop 16) ∧ rd16 (bs.drop 16) ≤ bs.length ∧ (bs ++ extra).length < 65536 := by
  decide

example :
    parse ⟨false, false, false, false⟩ (List.replicate 16 255 ++ [0, 23, 2, 0, 0, 0, 0] ++ [9, 9, 9])
      = .ok ⟨23, 2, .update ⟨0, [], 0, [], []⟩⟩ := by
  decide

/-! ## (2) fuel independence: every loop terminates within its counter -/

theorem rdPathId_len {ap : Bool} {d d1 : Bytes} {id : Nat} (h : rdPathId ap d = some (id, d1)) :
    d1.length + (if ap then 4 else 0) = d.length := by
  unfold rdPathId at h
  cases ap with
  | false => simp at h; simp [h.2]
  | true =>
    simp only [if_true] at h
    split at h
    · cases h
    · simp only [Option.some.injEq, Prod.mk.injEq] at h
      rw [← h.2, List.length_drop]; simp only [if_true]; omega

theorem segLen_ge (s : Seg) : 2 ≤ segLen s := by unfold segLen; omega
theorem attrLen_ge (a : Attr) : 3 ≤ attrLen a := by unfold attrLen; split <;> omega
theorem lattrLen_ge (a : LAttr) : 3 ≤ a.len := by
  cases a with
  | full a => exact attrLen_ge a
  | half f t l => simp only [LAttr.len]; split <;> omega

theorem decWithdrawn_fuel2 (ap : Bool) : ∀ (f g rl : Nat) (d : Bytes), rl ≤ f → rl ≤ g →
    decWithdrawn ap f rl d = decWithdrawn ap g rl d := by
  intro f
  induction f with
  | zero =>
    intro g rl d h1 h2
    have : rl = 0 := by omega
    subst this
    cases g <;> simp [decWithdrawn]
  | succ f ih =>
    intro g rl d h1 h2
    cases g with
    | zero =>
      have : rl = 0 := by omega
      subst this
      simp [decWithdrawn]
    | succ g =>
      simp only [decWithdrawn]
      by_cases h0 : rl = 0
      · simp [h0]
      · simp only [h0, if_false]
        cases rdPathId ap d with
        | none => rfl
        | some p =>
          obtain ⟨id, d1⟩ := p
          simp only []
          cases decPrefix d1 with
          | none => rfl
          | some w =>
            simp only []
            have hp := prefixLen_pos w
            by_cases hw : prefixLen w + (if ap then 4 else 0) > rl
            · simp [hw]
            · simp only [hw, if_false]
              rw [ih g _ _ (by omega) (by omega)]

theorem decWithdrawn_fuel (ap : Bool) (f rl : Nat) (d : Bytes) (h : rl ≤ f) :
    decWithdrawn ap f rl d = decWithdrawn ap rl rl d :=
  decWithdrawn_fuel2 ap f rl rl d h (Nat.le_refl _)

theorem decNlriTail_fuel2 (ap : Bool) : ∀ (f g : Nat) (d : Bytes), d.length ≤ f → d.length ≤ g →
    decNlriTail ap f d = decNlriTail ap g d := by
  intro f
  induction f with
  | zero =>
    intro g d h1 h2
    have h0 : d.length = 0 := by omega
    cases g <;> simp [decNlriTail, h0]
  | succ f ih =>
    intro g d h1 h2
    cases g with
    | zero =>
      have h0 : d.length = 0 := by omega
      simp [decNlriTail, h0]
    | succ g =>
      simp only [decNlriTail]
      by_cases h0 : d.length = 0
      · simp [h0]
      · simp only [h0, if_false]
        cases hr : rdPathId ap d with
        | none => rfl
        | some p =>
          obtain ⟨id, d1⟩ := p
          have hl := rdPathId_len hr
          simp only []
          cases decPrefix d1 with
          | none => rfl
          | some w =>
            simp only []
            have hp := prefixLen_pos w
            by_cases hw : d1.length < prefixLen w
            · simp [hw]
            · simp only [hw, if_false]
              have hdl : (d1.drop (prefixLen w)).length = d1.length - prefixLen w := List.length_drop
              rw [ih g _ (by omega) (by omega)]

theorem decNlriTail_fuel (ap : Bool) (f : Nat) (d : Bytes) (h : d.length ≤ f) :
    decNlriTail ap f d = decNlriTail ap d.length d :=
  decNlriTail_fuel2 ap f d.length d h (Nat.le_refl _)

theorem validateAsLoop_fuel2 (w4 : Bool) : ∀ (f g : Nat) (d : Bytes), d.length ≤ f → d.length ≤ g →
    validateAsLoop w4 f d = validateAsLoop w4 g d := by
  intro f
  induction f with
  | zero =>
    intro g d h1 h2
    have h0 : d.length = 0 := by omega
    cases g <;> simp [validateAsLoop, h0]
  | succ f ih =>
    intro g d h1 h2
    cases g with
    | zero =>
      have h0 : d.length = 0 := by omega
      simp [validateAsLoop, h0]
    | succ g =>
      simp only [validateAsLoop]
      by_cases h0 : d.length = 0
      · simp [h0]
      · simp only [h0, if_false]
        by_cases h2' : d.length < 2
        · simp [h2']
        · simp only [h2', if_false]
          have hdl : ∀ n, ((d.drop 2).drop n).length = d.length - 2 - n := by
            intro n; rw [List.length_drop, List.length_drop]
          rw [ih g _ (by rw [hdl]; omega) (by rw [hdl]; omega)]

theorem validateAsLoop_fuel (w4 : Bool) (f : Nat) (d : Bytes) (h : d.length ≤ f) :
    validateAsLoop w4 f d = validateAsLoop w4 d.length d :=
  validateAsLoop_fuel2 w4 f d.length d h (Nat.le_refl _)

theorem decSegs_fuel2 (w4 : Bool) : ∀ (f g : Nat) (v : Bytes), v.length ≤ f → v.length ≤ g →
    decSegs w4 f v = decSegs w4 g v := by
  intro f
  induction f with
  | zero =>
    intro g v h1 h2
    have h0 : v.length = 0 := by omega
    cases g <;> simp [decSegs, h0]
  | succ f ih =>
    intro g v h1 h2
    cases g with
    | zero =>
      have h0 : v.length = 0 := by omega
      simp [decSegs, h0]
    | succ g =>
      simp only [decSegs]
      by_cases h0 : v.length = 0
      · simp [h0]
      · simp only [h0, if_false]
        cases decSeg w4 v with
        | none => rfl
        | some s =>
          simp only []
          have hs := segLen_ge s
          by_cases hw : v.length < segLen s
          · simp [hw]
          · simp only [hw, if_false]
            have hdl : (v.drop (segLen s)).length = v.length - segLen s := List.length_drop
            rw [ih g _ (by omega) (by omega)]

theorem decSegs_fuel (w4 : Bool) (f : Nat) (v : Bytes) (h : v.length ≤ f) :
    decSegs w4 f v = decSegs w4 v.length v :=
  decSegs_fuel2 w4 f v.length v h (Nat.le_refl _)

theorem decAttrs_fuel2 (o : Opts) : ∀ (f g pl : Nat) (d : Bytes), pl ≤ f → pl ≤ g →
    d.length < 65536 → decAttrs o f pl d = decAttrs o g pl d := by
  intro f
  induction f with
  | zero =>
    intro g pl d h1 h2 _
    have h0 : pl = 0 := by omega
    subst h0
    cases g <;> simp [decAttrs]
  | succ f ih =>
    intro g pl d h1 h2 hd
    cases g with
    | zero =>
      have h0 : pl = 0 := by omega
      subst h0
      simp [decAttrs]
    | succ g =>
      simp only [decAttrs]
      by_cases h0 : pl = 0
      · simp [h0]
      · simp only [h0, if_false]
        by_cases h3 : pl < 3
        · simp [h3]
        · simp only [h3, if_false]
          by_cases hd2 : d.length < 2
          · simp [hd2]
          · simp only [hd2, if_false]
            cases decAttr o d with
            | err => rfl
            | unmodelled => rfl
            | ok a =>
              simp only []
              have ha := attrLen_ge a
              by_cases hw : attrLen a % 65536 > pl
              · simp [hw]
              · simp only [hw, if_false]
                by_cases hl : d.length < attrLen a
                · simp [hl]
                · simp only [hl, if_false]
                  have hm : attrLen a % 65536 = attrLen a := Nat.mod_eq_of_lt (by omega)
                  have hdl : (d.drop (attrLen a)).length = d.length - attrLen a := List.length_drop
                  rw [ih g _ _ (by omega) (by omega) (by omega)]

theorem decAttrs_fuel (o : Opts) (f pl : Nat) (d : Bytes) (h : pl ≤ f) (hd : d.length < 65536) :
    decAttrs o f pl d = decAttrs o pl pl d :=
  decAttrs_fuel2 o f pl pl d h (Nat.le_refl _) hd

theorem decAttrsL_fuel2 (o : Opts) : ∀ (f g pl : Nat) (d : Bytes) (cur : Option ErrH.MErr),
    pl ≤ f → pl ≤ g → d.length < 65536 → decAttrsL o f pl d cur = decAttrsL o g pl d cur := by
  intro f
  induction f with
  | zero =>
    intro g pl d cur h1 h2 _
    have h0 : pl = 0 := by omega
    subst h0
    cases g <;> simp [decAttrsL]
  | succ f ih =>
    intro g pl d cur h1 h2 hd
    cases g with
    | zero =>
      have h0 : pl = 0 := by omega
      subst h0
      simp [decAttrsL]
    | succ g =>
      simp only [decAttrsL]
      by_cases h0 : pl = 0
      · simp [h0]
      · simp only [h0, if_false]
        by_cases h3 : pl < 3
        · simp [h3]
        · simp only [h3, if_false]
          by_cases hd2 : d.length < 2
          · simp [hd2]
          · simp only [hd2, if_false]
            cases decAttrL o d with
            | unmodelled => rfl
            | ok a =>
              simp only []
              have ha := attrLen_ge a
              by_cases hw : (attrLen a % 65536 > pl || d.length < attrLen a) = true
              · simp only [hw, if_true]
              · simp only [hw]
                simp only [Bool.or_eq_true, decide_eq_true_eq, not_or, Nat.not_lt] at hw
                have hm : attrLen a % 65536 = attrLen a := Nat.mod_eq_of_lt (by omega)
                have hdl : (d.drop (attrLen a)).length = d.length - attrLen a := List.length_drop
                rw [ih g _ _ _ (by omega) (by omega) (by omega)]
            | bad fl t l c s =>
              simp only []
              have ha := lattrLen_ge (.half fl t l)
              by_cases hw : ((LAttr.half fl t l).len % 65536 > pl || d.length < (LAttr.half fl t l).len) = true
              · simp only [hw, if_true]
              · simp only [hw]
                simp only [Bool.or_eq_true, decide_eq_true_eq, not_or, Nat.not_lt] at hw
                have hm : (LAttr.half fl t l).len % 65536 = (LAttr.half fl t l).len :=
                  Nat.mod_eq_of_lt (by omega)
                have hdl : (d.drop (LAttr.half fl t l).len).length = d.length - (LAttr.half fl t l).len :=
                  List.length_drop
                rw [ih g _ _ _ (by omega) (by omega) (by omega)]

theorem decAttrsL_fuel (o : Opts) (f pl : Nat) (d : Bytes) (cur : Option ErrH.MErr) (h : pl ≤ f)
    (hd : d.length < 65536) : decAttrsL o f pl d cur = decAttrsL o pl pl d cur :=
  decAttrsL_fuel2 o f pl pl d cur h (Nat.le_refl _) hd

/-- one withdrawn /24 (4 octets) decoded with far more fuel than the counter: same answer -/
example : decWithdrawn false 1000 4 [24, 10, 1, 2, 7, 7] = decWithdrawn false 4 4 [24, 10, 1, 2, 7, 7] :=
  decWithdrawn_fuel false 1000 4 _ (by decide)
example : decWithdrawn false 4 4 [24, 10, 1, 2, 7, 7] = some ([⟨0, ⟨24, [10, 1, 2, 0]⟩⟩], [7, 7]) := by
  decide
/-- ORIGIN attribute, pathlen 4, data of 4 octets: hypotheses of `decAttrsL_fuel` hold -/
example : decAttrsL ⟨false, false, false, false⟩ 99 4 [64, 1, 1, 0] none
    = decAttrsL ⟨false, false, false, false⟩ 4 4 [64, 1, 1, 0] none :=
  decAttrsL_fuel _ 99 4 _ none (by decide) (by decide)

/-! ## (3) the number of items handed back is bounded by the input size -/

theorem decWithdrawn_count {ap : Bool} {f rl : Nat} {d : Bytes} {ws : List PathNLRI} {rest : Bytes}
    (h : decWithdrawn ap f rl d = some (ws, rest)) :
    ws.length ≤ rl ∧ ws.length + rest.length ≤ d.length := by
  induction f generalizing rl d ws rest with
  | zero =>
    simp only [decWithdrawn] at h
    split at h
    · simp only [Option.some.injEq, Prod.mk.injEq] at h
      rw [← h.1, ← h.2]; simp
    · cases h
  | succ f ih =>
    simp only [decWithdrawn] at h
    split at h
    · simp only [Option.some.injEq, Prod.mk.injEq] at h
      rw [← h.1, ← h.2]; simp
    · cases hr : rdPathId ap d with
      | none => rw [hr] at h; cases h
      | some p =>
        obtain ⟨id, d1⟩ := p
        have hl := rdPathId_len hr
        rw [hr] at h
        simp only [] at h
        cases hp : decPrefix d1 with
        | none => rw [hp] at h; cases h
        | some w =>
          rw [hp] at h
          simp only [] at h
          have hpl := prefixLen_pos w
          by_cases hw : prefixLen w + (if ap = true then 4 else 0) > rl
          · rw [if_pos hw] at h; cases h
          · rw [if_neg hw] at h
            by_cases hw2 : d1.length < prefixLen w
            · rw [if_pos hw2] at h; cases h
            · rw [if_neg hw2] at h
              cases hrec : decWithdrawn ap f (rl - (prefixLen w + if ap = true then 4 else 0))
                  (d1.drop (prefixLen w)) with
              | none => rw [hrec] at h; cases h
              | some q =>
                obtain ⟨ws', rest'⟩ := q
                rw [hrec] at h
                simp only [Option.some.injEq, Prod.mk.injEq] at h
                have := ih hrec
                have hdl : (d1.drop (prefixLen w)).length = d1.length - prefixLen w := List.length_drop
                rw [← h.1, ← h.2, List.length_cons]
                omega

theorem decNlriTail_count {ap : Bool} {f : Nat} {d : Bytes} {ns : List PathNLRI}
    (h : decNlriTail ap f d = some ns) : ns.length ≤ d.length := by
  induction f generalizing d ns with
  | zero =>
    simp only [decNlriTail] at h
    split at h
    · simp only [Option.some.injEq] at h
      rw [← h]; simp
    · cases h
  | succ f ih =>
    simp only [decNlriTail] at h
    split at h
    · simp only [Option.some.injEq] at h
      rw [← h]; simp
    · cases hr : rdPathId ap d with
      | none => rw [hr] at h; cases h
      | some p =>
        obtain ⟨id, d1⟩ := p
        have hl := rdPathId_len hr
        rw [hr] at h
        simp only [] at h
        cases hp : decPrefix d1 with
        | none => rw [hp] at h; cases h
        | some w =>
          rw [hp] at h
          simp only [] at h
          have hpl := prefixLen_pos w
          split at h
          · cases h
          · split at h
            · cases h
            · cases hrec : decNlriTail ap f (d1.drop (prefixLen w)) with
              | none => rw [hrec] at h; cases h
              | some ns' =>
                rw [hrec] at h
                simp only [Option.some.injEq] at h
                have := ih hrec
                have hdl : (d1.drop (prefixLen w)).length = d1.length - prefixLen w := List.length_drop
                rw [← h, List.length_cons]
                omega

theorem decAttrsL_count {o : Opts} {f pl : Nat} {d : Bytes} {cur : Option ErrH.MErr}
    {as : List LAttr} {e : Option ErrH.MErr} {rest : Bytes}
    (h : decAttrsL o f pl d cur = .ok as e rest) (hd : d.length < 65536) :
    3 * as.length ≤ pl ∧ as.length + rest.length ≤ d.length := by
  induction f generalizing pl d cur as e rest with
  | zero =>
    simp only [decAttrsL, LoopRes.ok.injEq] at h
    rw [← h.1, ← h.2.2]; simp
  | succ f ih =>
    simp only [decAttrsL] at h
    split at h
    · simp only [LoopRes.ok.injEq] at h
      rw [← h.1, ← h.2.2]; simp
    · split at h
      · simp only [LoopRes.ok.injEq] at h
        rw [← h.1, ← h.2.2]; simp
      · split at h
        · cases h
        · cases hr : decAttrL o d with
          | unmodelled => rw [hr] at h; cases h
          | ok a =>
            rw [hr] at h
            simp only [] at h
            have ha := attrLen_ge a
            split at h
            · simp only [LoopRes.ok.injEq] at h
              rw [← h.1, ← h.2.2]; simp
            · rename_i hw
              simp only [Bool.or_eq_true, decide_eq_true_eq, not_or, Nat.not_lt] at hw
              have hm : attrLen a % 65536 = attrLen a := Nat.mod_eq_of_lt (by omega)
              have hdl : (d.drop (attrLen a)).length = d.length - attrLen a := List.length_drop
              cases hrec : decAttrsL o f (pl - attrLen a % 65536) (d.drop (attrLen a)) cur with
              | fatal => rw [hrec] at h; cases h
              | unmodelled => rw [hrec] at h; cases h
              | ok as' e' rest' =>
                rw [hrec] at h
                simp only [LoopRes.ok.injEq] at h
                have := ih hrec (by omega)
                rw [← h.1, ← h.2.2, List.length_cons]
                omega
          | bad fl t l c s =>
            rw [hr] at h
            simp only [] at h
            have ha := lattrLen_ge (.half fl t l)
            split at h
            · simp only [LoopRes.ok.injEq] at h
              rw [← h.1, ← h.2.2]; simp
            · rename_i hw
              simp only [Bool.or_eq_true, decide_eq_true_eq, not_or, Nat.not_lt] at hw
              have hm : (LAttr.half fl t l).len % 65536 = (LAttr.half fl t l).len :=
                Nat.mod_eq_of_lt (by omega)
              have hdl : (d.drop (LAttr.half fl t l).len).length = d.length - (LAttr.half fl t l).len :=
                List.length_drop
              cases hrec : decAttrsL o f (pl - (LAttr.half fl t l).len % 65536)
                  (d.drop (LAttr.half fl t l).len) (ErrH.keep cur (attrErr t c s)) with
              | fatal => rw [hrec] at h; cases h
              | unmodelled => rw [hrec] at h; cases h
              | ok as' e' rest' =>
                rw [hrec] at h
                simp only [LoopRes.ok.injEq] at h
                have := ih hrec (by omega)
                rw [← h.1, ← h.2.2]
                split
                · omega
                · rw [List.length_cons]; omega

theorem decAttrs_count {o : Opts} {f pl : Nat} {d : Bytes} {as : List Attr} {rest : Bytes}
    (h : decAttrs o f pl d = .ok (as, rest)) (hd : d.length < 65536) :
    3 * as.length ≤ pl ∧ as.length + rest.length ≤ d.length := by
  induction f generalizing pl d as rest with
  | zero =>
    simp only [decAttrs] at h
    split at h
    · simp only [Res.ok.injEq, Prod.mk.injEq] at h
      rw [← h.1, ← h.2]; simp
    · cases h
  | succ f ih =>
    simp only [decAttrs] at h
    split at h
    · simp only [Res.ok.injEq, Prod.mk.injEq] at h
      rw [← h.1, ← h.2]; simp
    · split at h
      · cases h
      · split at h
        · cases h
        · cases hr : decAttr o d with
          | err => rw [hr] at h; cases h
          | unmodelled => rw [hr] at h; cases h
          | ok a =>
            rw [hr] at h
            simp only [] at h
            have ha := attrLen_ge a
            split at h
            · cases h
            · split at h
              · cases h
              · have hm : attrLen a % 65536 = attrLen a := Nat.mod_eq_of_lt (by omega)
                have hdl : (d.drop (attrLen a)).length = d.length - attrLen a := List.length_drop
                cases hrec : decAttrs o f (pl - attrLen a % 65536) (d.drop (attrLen a)) with
                | reject => rw [hrec] at h; cases h
                | unmodelled => rw [hrec] at h; cases h
                | ok q =>
                  obtain ⟨as', rest'⟩ := q
                  rw [hrec] at h
                  simp only [Res.ok.injEq, Prod.mk.injEq] at h
                  have := ih hrec (by omega)
                  rw [← h.1, ← h.2, List.length_cons]
                  omega

/-- what a successful lenient UPDATE decode went through -/
theorem decUpdateL_ok {o : Opts} {data : Bytes} {u : LUpdate} {e : Option ErrH.MErr}
    (h : decUpdateL o data = some (some (u, e))) :
    ∃ d2 d4, 2 ≤ data.length ∧ 2 ≤ d2.length ∧
      decWithdrawn o.apRx (rd16 data) (rd16 data) (data.drop 2) = some (u.withdrawn, d2) ∧
      decAttrsL o (rd16 d2) (rd16 d2) (d2.drop 2) none = .ok u.attrs e d4 ∧
      decNlriTail o.apRx d4.length d4 = some u.nlri := by
  unfold decUpdateL at h
  by_cases h1 : data.length < 2
  · rw [if_pos h1] at h; cases h
  · rw [if_neg h1] at h
    simp only [] at h
    by_cases h2 : (data.drop 2).length < rd16 data
    · rw [if_pos h2] at h; cases h
    · rw [if_neg h2] at h
      cases hw : decWithdrawn o.apRx (rd16 data) (rd16 data) (data.drop 2) with
      | none => rw [hw] at h; cases h
      | some p =>
        obtain ⟨ws, d2⟩ := p
        rw [hw] at h
        simp only [] at h
        by_cases h3 : d2.length < 2
        · rw [if_pos h3] at h; cases h
        · rw [if_neg h3] at h
          by_cases h4 : (d2.drop 2).length < rd16 d2
          · rw [if_pos h4] at h; cases h
          · rw [if_neg h4] at h
            cases ha : decAttrsL o (rd16 d2) (rd16 d2) (d2.drop 2) none with
            | fatal => rw [ha] at h; cases h
            | unmodelled => rw [ha] at h; cases h
            | ok as e' d4 =>
              rw [ha] at h
              simp only [] at h
              cases hn : decNlriTail o.apRx d4.length d4 with
              | none => rw [hn] at h; cases h
              | some ns =>
                rw [hn] at h
                simp only [Option.some.injEq, Prod.mk.injEq] at h
                obtain ⟨hu, he⟩ := h
                subst hu; subst he
                exact ⟨d2, d4, by omega, by omega, rfl, ha, hn⟩

theorem decUpdateL_count {o : Opts} {data : Bytes} {u : LUpdate} {e : Option ErrH.MErr}
    (h : decUpdateL o data = some (some (u, e))) (hd : data.length < 65536) :
    u.withdrawn.length + u.attrs.length + u.nlri.length + 4 ≤ data.length := by
  obtain ⟨d2, d4, h1, h2, hw, ha, hn⟩ := decUpdateL_ok h
  have c1 := decWithdrawn_count hw
  have l1 : (data.drop 2).length = data.length - 2 := List.length_drop
  have l2 : (d2.drop 2).length = d2.length - 2 := List.length_drop
  have c2 := decAttrsL_count ha (by omega)
  have c3 := decNlriTail_count hn
  omega

/-- what a successful strict UPDATE decode went through -/
theorem decUpdate_ok {o : Opts} {data : Bytes} {u : Update}
    (h : decUpdate o data = .ok u) :
    ∃ d2 d4, 2 ≤ data.length ∧ 2 ≤ d2.length ∧
      decWithdrawn o.apRx (rd16 data) (rd16 data) (data.drop 2) = some (u.withdrawn, d2) ∧
      decAttrs o (rd16 d2) (rd16 d2) (d2.drop 2) = .ok (u.attrs, d4) ∧
      decNlriTail o.apRx d4.length d4 = some u.nlri := by
  unfold decUpdate at h
  by_cases h1 : data.length < 2
  · rw [if_pos h1] at h; cases h
  · rw [if_neg h1] at h
    simp only [] at h
    by_cases h2 : (data.drop 2).length < rd16 data
    · rw [if_pos h2] at h; cases h
    · rw [if_neg h2] at h
      cases hw : decWithdrawn o.apRx (rd16 data) (rd16 data) (data.drop 2) with
      | none => rw [hw] at h; cases h
      | some p =>
        obtain ⟨ws, d2⟩ := p
        rw [hw] at h
        simp only [] at h
        by_cases h3 : d2.length < 2
        · rw [if_pos h3] at h; cases h
        · rw [if_neg h3] at h
          by_cases h4 : (d2.drop 2).length < rd16 d2
          · rw [if_pos h4] at h; cases h
          · rw [if_neg h4] at h
            cases ha : decAttrs o (rd16 d2) (rd16 d2) (d2.drop 2) with
            | reject => rw [ha] at h; cases h
            | unmodelled => rw [ha] at h; cases h
            | ok q =>
              obtain ⟨as, d4⟩ := q
              rw [ha] at h
              simp only [] at h
              cases hn : decNlriTail o.apRx d4.length d4 with
              | none => rw [hn] at h; cases h
              | some ns =>
                rw [hn] at h
                simp only [Res.ok.injEq] at h
                subst h
                exact ⟨d2, d4, by omega, by omega, rfl, ha, hn⟩

theorem decUpdate_count {o : Opts} {data : Bytes} {u : Update}
    (h : decUpdate o data = .ok u) (hd : data.length < 65536) :
    u.withdrawn.length + u.attrs.length + u.nlri.length + 4 ≤ data.length := by
  obtain ⟨d2, d4, h1, h2, hw, ha, hn⟩ := decUpdate_ok h
  have c1 := decWithdrawn_count hw
  have l1 : (data.drop 2).length = data.length - 2 := List.length_drop
  have l2 : (d2.drop 2).length = d2.length - 2 := List.length_drop
  have c2 := decAttrs_count ha (by omega)
  have c3 := decNlriTail_count hn
  omega

/-- header facts + the body decode behind every message `parseL` hands back -/
theorem parseL_msg {o : Opts} {bs : Bytes} {m : LMsg} {e : Option ErrH.MErr}
    (h : parseL o bs = .msg m e) :
    19 ≤ m.hlen ∧ m.hlen ≤ bs.length ∧ m.hlen = rd16 (bs.drop 16) ∧ m.typ = bs.getD 18 0 ∧
    ((∃ u, m.body = .update u ∧ decUpdateL o ((bs.take m.hlen).drop 19) = some (some (u, e))) ∨
     (∃ b, m.body = .other b ∧ e = none ∧ decBody o m.typ ((bs.take m.hlen).drop 19) = .ok b)) := by
  unfold parseL at h
  by_cases h1 : bs.length % 65536 < 19
  · rw [if_pos h1] at h; cases h
  · rw [if_neg h1] at h
    by_cases h2 : bs.take 16 ≠ marker
    · rw [if_pos h2] at h; cases h
    · rw [if_neg h2] at h
      simp only [] at h
      by_cases h3 : rd16 (bs.drop 16) < 19
      · rw [if_pos h3] at h; cases h
      · rw [if_neg h3] at h
        by_cases h4 : rd16 (bs.drop 16) > bs.length
        · rw [if_pos h4] at h; cases h
        · rw [if_neg h4] at h
          by_cases h5 : bs.getD 18 0 = 2
          · rw [if_pos h5] at h
            cases hu : decUpdateL o ((bs.take (rd16 (bs.drop 16))).drop 19) with
            | none => rw [hu] at h; cases h
            | some r =>
              cases r with
              | none => rw [hu] at h; cases h
              | some p =>
                obtain ⟨u, e'⟩ := p
                rw [hu] at h
                simp only [LRes.msg.injEq] at h
                obtain ⟨hm, he⟩ := h
                subst hm; subst he
                exact ⟨Nat.le_of_not_lt h3, Nat.le_of_not_lt h4, rfl, rfl, Or.inl ⟨u, rfl, hu⟩⟩
          · rw [if_neg h5] at h
            cases hb : decBody o (bs.getD 18 0) ((bs.take (rd16 (bs.drop 16))).drop 19) with
            | reject => rw [hb] at h; cases h
            | unmodelled => rw [hb] at h; cases h
            | ok b =>
              rw [hb] at h
              simp only [LRes.msg.injEq] at h
              obtain ⟨hm, he⟩ := h
              subst hm; subst he
              exact ⟨Nat.le_of_not_lt h3, Nat.le_of_not_lt h4, rfl, rfl, Or.inr ⟨b, rfl, rfl, hb⟩⟩

/-- header facts + the body decode behind every message `parse` accepts -/
theorem parse_msg {o : Opts} {bs : Bytes} {m : Msg} (h : parse o bs = .ok m) :
    19 ≤ m.hlen ∧ m.hlen ≤ bs.length ∧ m.hlen = rd16 (bs.drop 16) ∧ m.typ = bs.getD 18 0 ∧
    decBody o m.typ ((bs.take m.hlen).drop 19) = .ok m.body := by
  unfold parse at h
  by_cases h1 : bs.length % 65536 < 19
  · rw [if_pos h1] at h; cases h
  · rw [if_neg h1] at h
    by_cases h2 : bs.take 16 ≠ marker
    · rw [if_pos h2] at h; cases h
    · rw [if_neg h2] at h
      simp only [] at h
      by_cases h3 : rd16 (bs.drop 16) < 19
      · rw [if_pos h3] at h; cases h
      · rw [if_neg h3] at h
        by_cases h4 : rd16 (bs.drop 16) > bs.length
        · rw [if_pos h4] at h; cases h
        · rw [if_neg h4] at h
          cases hb : decBody o (bs.getD 18 0) ((bs.take (rd16 (bs.drop 16))).drop 19) with
          | reject => rw [hb] at h; cases h
          | unmodelled => rw [hb] at h; cases h
          | ok b =>
            rw [hb] at h
            simp only [Res.ok.injEq] at h
            subst h
            exact ⟨Nat.le_of_not_lt h3, Nat.le_of_not_lt h4, rfl, rfl, hb⟩

theorem body_len (bs : Bytes) (n : Nat) (h19 : 19 ≤ n) (hn : n ≤ bs.length) :
    ((bs.take n).drop 19).length = n - 19 := by
  rw [List.length_drop, List.length_take]; omega

theorem parseL_count {o : Opts} {bs : Bytes} {hl t : Nat} {u : LUpdate} {e : Option ErrH.MErr}
    (h : parseL o bs = .msg ⟨hl, t, .update u⟩ e) (h64 : bs.length < 65536) :
    u.withdrawn.length + u.attrs.length + u.nlri.length ≤ bs.length := by
  obtain ⟨h19, hle, _, _, hb⟩ := parseL_msg h
  simp only at h19 hle hb
  have hbl := body_len bs hl h19 hle
  rcases hb with ⟨u', hu, hd⟩ | ⟨b, hb, _⟩
  · simp only [LBody.update.injEq] at hu
    subst hu
    have := decUpdateL_count hd (by omega)
    omega
  · cases hb

theorem decBody_update {o : Opts} {t : Nat} {d : Bytes} {u : Update}
    (h : decBody o t d = .ok (.update u)) : decUpdate o d = .ok u := by
  unfold decBody at h
  by_cases h1 : t = 1
  · rw [if_pos h1] at h; cases h
  · rw [if_neg h1] at h
    by_cases h2 : t = 2
    · rw [if_pos h2] at h
      cases hu : decUpdate o d with
      | reject => rw [hu] at h; cases h
      | unmodelled => rw [hu] at h; cases h
      | ok u' =>
        rw [hu] at h
        simp only [Res.ok.injEq, Body.update.injEq] at h
        rw [h]
    · rw [if_neg h2] at h
      split at h
      · split at h <;> cases h
      · split at h
        · cases h
        · split at h
          · split at h <;> cases h
          · cases h

theorem parse_count {o : Opts} {bs : Bytes} {hl t : Nat} {u : Update}
    (h : parse o bs = .ok ⟨hl, t, .update u⟩) (h64 : bs.length < 65536) :
    u.withdrawn.length + u.attrs.length + u.nlri.length ≤ bs.length := by
  obtain ⟨h19, hle, _, _, hb⟩ := parse_msg h
  simp only at h19 hle hb
  have hbl := body_len bs hl h19 hle
  have := decUpdate_count (decBody_update hb) (by omega)
  omega

/-- one withdrawn /24, no attributes, one announced /8 (29 octets): three items from 29 octets -/
example :
    parseL ⟨false, false, false, false⟩
      (List.replicate 16 255 ++ [0, 29, 2, 0, 4, 24, 10, 1, 2, 0, 0, 8, 10])
      = .msg ⟨29, 2, .update ⟨4, [⟨0, ⟨24, [10, 1, 2, 0]⟩⟩], 0, [], [⟨0, ⟨8, [10, 0, 0, 0]⟩⟩]⟩⟩ none := by
  rfl
example : decAttrsL ⟨false, false, false, false⟩ 4 4 [64, 1, 1, 0, 7] none
    = .ok [.full ⟨64, 1, 1, .origin 0⟩] none [7] := by
  rfl

/-! ## (4) whatever the decoder hands back can be measured and re-serialised -/

theorem render_total {o : Opts} {bs : Bytes} {m : LMsg} {e : Option ErrH.MErr}
    (h : parseL o bs = .msg m e) :
    19 ≤ m.hlen ∧ m.hlen ≤ bs.length ∧
    serializeL o m = some (encHeader m.hlen m.typ ++ encBodyL o m.body) := by
  obtain ⟨h19, hle, _⟩ := parseL_msg h
  refine ⟨h19, hle, ?_⟩
  unfold serializeL
  have : ¬ m.hlen = 0 := by omega
  simp only [this, if_false]

theorem render_total_strict {o : Opts} {bs : Bytes} {m : Msg} (h : parse o bs = .ok m) :
    19 ≤ m.hlen ∧ m.hlen ≤ bs.length ∧
    ∃ m', serialize o m = some (encHeader m.hlen m.typ ++ encBody o m.body, m') ∧
      m'.hlen = m.hlen ∧ m'.typ = m.typ := by
  obtain ⟨h19, hle, _⟩ := parse_msg h
  refine ⟨h19, hle, { m with body := normBody o m.body }, ?_, rfl, rfl⟩
  unfold serialize
  have : ¬ m.hlen = 0 := by omega
  simp only [this, if_false]

/-- a stored error is never session-reset class and never class-less -/
def Mild (c : Option ErrH.MErr) : Prop := ∀ e, c = some e → e.h ≠ .reset ∧ e.h ≠ .none

theorem mild_none : Mild none := by intro e h; cases h

theorem mild_keep {cur : Option ErrH.MErr} {x : ErrH.MErr} (hc : Mild cur)
    (hx : x.h ≠ .reset ∧ x.h ≠ .none) : Mild (ErrH.keep cur x) := by
  unfold ErrH.keep
  split
  · intro e he
    simp only [Option.some.injEq] at he
    rw [← he]; exact hx
  · exact hc

theorem attrClass_mild (t : Nat) : ErrH.attrClass t ≠ .reset ∧ ErrH.attrClass t ≠ .none := by
  unfold ErrH.attrClass
  split <;> exact ⟨by decide, by decide⟩

theorem attrErr_mild (t c s : Nat) : (attrErr t c s).h ≠ .reset ∧ (attrErr t c s).h ≠ .none := by
  unfold attrErr
  simp only
  split
  · exact ⟨by decide, by decide⟩
  · exact attrClass_mild t

theorem lenErr_mild : ErrH.lenErr.h ≠ .reset ∧ ErrH.lenErr.h ≠ .none :=
  ⟨by decide, by decide⟩

theorem decAttrsL_mild {o : Opts} {f pl : Nat} {d : Bytes} {cur : Option ErrH.MErr}
    {as : List LAttr} {e : Option ErrH.MErr} {rest : Bytes}
    (h : decAttrsL o f pl d cur = .ok as e rest) (hc : Mild cur) : Mild e := by
  induction f generalizing pl d cur as e rest with
  | zero =>
    simp only [decAttrsL, LoopRes.ok.injEq] at h
    rw [← h.2.1]; exact hc
  | succ f ih =>
    simp only [decAttrsL] at h
    split at h
    · simp only [LoopRes.ok.injEq] at h
      rw [← h.2.1]; exact hc
    · split at h
      · simp only [LoopRes.ok.injEq] at h
        rw [← h.2.1]; exact mild_keep hc lenErr_mild
      · split at h
        · cases h
        · cases hr : decAttrL o d with
          | unmodelled => rw [hr] at h; cases h
          | ok a =>
            rw [hr] at h
            simp only [] at h
            split at h
            · simp only [LoopRes.ok.injEq] at h
              rw [← h.2.1]; exact mild_keep hc lenErr_mild
            · cases hrec : decAttrsL o f (pl - attrLen a % 65536) (d.drop (attrLen a)) cur with
              | fatal => rw [hrec] at h; cases h
              | unmodelled => rw [hrec] at h; cases h
              | ok as' e' rest' =>
                rw [hrec] at h
                simp only [LoopRes.ok.injEq] at h
                rw [← h.2.1]
                exact ih hrec hc
          | bad fl t l c s =>
            rw [hr] at h
            simp only [] at h
            have hk := mild_keep hc (attrErr_mild t c s)
            split at h
            · simp only [LoopRes.ok.injEq] at h
              rw [← h.2.1]; exact mild_keep hk lenErr_mild
            · cases hrec : decAttrsL o f (pl - (LAttr.half fl t l).len % 65536)
                  (d.drop (LAttr.half fl t l).len) (ErrH.keep cur (attrErr t c s)) with
              | fatal => rw [hrec] at h; cases h
              | unmodelled => rw [hrec] at h; cases h
              | ok as' e' rest' =>
                rw [hrec] at h
                simp only [LoopRes.ok.injEq] at h
                rw [← h.2.1]
                exact ih hrec hk

theorem parseL_err_not_reset {o : Opts} {bs : Bytes} {m : LMsg} {e : ErrH.MErr}
    (h : parseL o bs = .msg m (some e)) : e.h ≠ .reset ∧ e.h ≠ .none := by
  obtain ⟨_, _, _, _, hb⟩ := parseL_msg h
  rcases hb with ⟨u, _, hd⟩ | ⟨b, _, he, _⟩
  · obtain ⟨d2, d4, _, _, _, ha, _⟩ := decUpdateL_ok hd
    exact decAttrsL_mild ha mild_none e rfl
  · cases he

/-- a malformed ORIGIN (length 2): the UPDATE is handed back with a treat-as-withdraw error,
    the half-decoded attribute stays in the list, and the message still serialises -/
example :
    parseL ⟨false, false, false, false⟩
      (List.replicate 16 255 ++ [0, 28, 2, 0, 0, 0, 5, 64, 1, 2, 0, 0])
      = .msg ⟨28, 2, .update ⟨0, [], 5, [.half 64 1 2], []⟩⟩ (some ⟨3, 1, .withdraw⟩) := by
  rfl
example :
    (serializeL ⟨false, false, false, false⟩
      ⟨28, 2, .update ⟨0, [], 5, [.half 64 1 2], []⟩⟩).isSome = true := by
  rfl

end PTotL
