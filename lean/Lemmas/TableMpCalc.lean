/-
C02 (table level) — helper lemmas, part F: `destination.Calculate` (model `Tbl.locCalc`) keeps
"one path per (source, path-id)".  Core-only.
-/
import Lemmas.TableMp
namespace Tbl

/-- the local-id allocation only rewrites `lid` -/
theorem tF_alloc_keys : ∀ (l : List TPath) (ids : List Nat),
    (allocIds l ids).1.map (fun x => (x.src, x.rid)) = l.map (fun x => (x.src, x.rid)) := by
  intro l
  induction l with
  | nil => intro ids; rfl
  | cons p r ih =>
    intro ids
    unfold allocIds
    split
    · simp only [List.map_cons, ih]
    · simp only [List.map_cons, ih]

theorem tF_alloc_keysNodup (l : List TPath) (ids : List Nat) (h : KeysNodup l) :
    KeysNodup (allocIds l ids).1 := by
  unfold KeysNodup
  rw [tF_alloc_keys]
  exact h

theorem tF_insert_perm (x : TPath) : ∀ (l : List TPath), (insertByRank l x).Perm (x :: l) := by
  intro l
  induction l with
  | nil => exact List.Perm.refl _
  | cons y r ih =>
    unfold insertByRank
    split
    · exact List.Perm.refl _
    · exact (List.Perm.cons y ih).trans (List.Perm.swap x y r)

theorem tF_sameKey_iff (x : TPath) (s r : Nat) :
    x.sameKey s r = true ↔ (x.src, x.rid) = (s, r) := by
  simp only [TPath.sameKey, Bool.and_eq_true, beq_iff_eq, Prod.mk.injEq]

theorem tF_insert_keysNodup (l : List TPath) (x : TPath) (hl : KeysNodup l)
    (hx : ∀ y ∈ l, (y.src, y.rid) ≠ (x.src, x.rid)) : KeysNodup (insertByRank l x) := by
  unfold KeysNodup
  rw [((tF_insert_perm x l).map _).nodup_iff]
  rw [List.map_cons, List.nodup_cons]
  refine ⟨?_, hl⟩
  intro hm
  obtain ⟨y, hy, hk⟩ := List.mem_map.mp hm
  exact hx y hy hk

/-- after erasing the first path with a key, no path with that key is left -/
theorem tF_erase_first (s r : Nat) : ∀ (l : List TPath) (i : Nat), KeysNodup l →
    l.findIdx? (fun x => x.sameKey s r) = some i →
    ∀ x ∈ l.eraseIdx i, (x.src, x.rid) ≠ (s, r) := by
  intro l
  induction l with
  | nil => intro i _ h; simp at h
  | cons y t ih =>
    intro i hl h x hx
    have hl' : ¬ (y.src, y.rid) ∈ t.map (fun x => (x.src, x.rid)) ∧ KeysNodup t := by
      have := hl
      simp only [KeysNodup, List.map_cons, List.nodup_cons] at this
      exact this
    rw [List.findIdx?_cons] at h
    cases hy : y.sameKey s r with
    | true =>
      rw [hy] at h
      simp only [if_true, Option.some.injEq] at h
      subst h
      rw [List.eraseIdx_cons_zero] at hx
      intro hk
      apply hl'.1
      rw [(tF_sameKey_iff y s r).mp hy, ← hk]
      exact List.mem_map.mpr ⟨x, hx, rfl⟩
    | false =>
      rw [hy] at h
      simp only [Bool.false_eq_true, if_false] at h
      cases hj : t.findIdx? (fun x => x.sameKey s r) with
      | none => rw [hj] at h; cases h
      | some j =>
        rw [hj] at h
        simp only [Option.map_some, Option.some.injEq] at h
        subst h
        rw [List.eraseIdx_cons_succ] at hx
        rcases List.mem_cons.mp hx with hx | hx
        · subst hx
          intro hk
          rw [(tF_sameKey_iff x s r).mpr hk] at hy
          cases hy
        · exact ih j hl'.2 hj x hx

/-- `Calculate` keeps at most one path per (source, path-id): the announcement's implicit withdraw
    removes the path with the same key before the new one is inserted; a withdrawal only removes;
    the local-id allocation does not touch keys -/
theorem locCalc_keysNodup (d : TDest) (op : TOp) (hd : KeysNodup d.paths) :
    KeysNodup (locCalc d op).paths := by
  cases op with
  | wd src rid dropped =>
    simp only [locCalc]
    apply tF_alloc_keysNodup
    split
    · exact hd
    · exact tE_sub (List.eraseIdx_sublist _ _) hd
  | ann p =>
    simp only [locCalc]
    apply tF_alloc_keysNodup
    cases h : d.paths.findIdx? (fun x => x.sameKey p.src p.rid) with
    | none =>
      simp only []
      apply tF_insert_keysNodup _ _ hd
      intro y hy hk
      have := List.findIdx?_eq_none_iff.mp h y hy
      rw [(tF_sameKey_iff y p.src p.rid).mpr hk] at this
      cases this
    | some i =>
      simp only []
      apply tF_insert_keysNodup _ _ (tE_sub (List.eraseIdx_sublist _ _) hd)
      exact tF_erase_first p.src p.rid d.paths i hd h

end Tbl
