/-
C13 — what the recognisers of the pattern compiler establish about the pattern string, and the
soundness of each compiled mode against the regular expression semantics.
-/
import Model.CommMatch
import Lemmas.C13Sem
namespace CommMatch
open Regex

/-! ### string facts delivered by the recognisers -/

theorem anchoredBody_some {s b : Str} (h : anchoredBody s = some b) : s = 94 :: (b ++ [36]) := by
  unfold anchoredBody at h
  split at h
  · cases h
  · next hc =>
    simp only [Bool.or_eq_true, bne_iff_ne, ne_eq, decide_eq_true_eq, not_or, Decidable.not_not, Nat.not_lt] at hc
    obtain ⟨⟨hl, hh⟩, hg⟩ := hc
    simp only [Option.some.injEq] at h
    rcases List.head?_eq_some_iff.1 hh with ⟨ys, rfl⟩
    rcases List.getLast?_eq_some_iff.1 hg with ⟨zs, hz⟩
    cases zs with
    | nil => simp at hz
    | cons z zs =>
      simp only [List.cons_append, List.cons.injEq] at hz
      obtain ⟨rfl, rfl⟩ := hz
      subst h
      simp

theorem fromColon_cons : ∀ {s : Str} {x : Nat} {l : Str}, fromColon s = x :: l →
    x = 58 ∧ s = beforeColon s ++ 58 :: l ∧ ∀ c ∈ beforeColon s, c ≠ 58 := by
  intro s
  induction s with
  | nil => intro x l h; simp [fromColon] at h
  | cons c s ih =>
    intro x l h
    by_cases hc : c = 58
    · subst hc
      simp only [fromColon, List.dropWhile_cons, bne_self_eq_false, Bool.false_eq_true, if_false,
        List.cons.injEq] at h
      simp [beforeColon, h.1.symm, h.2]
    · have hb : (c != 58) = true := by simp [hc]
      simp only [fromColon, List.dropWhile_cons, hb, if_true] at h
      rcases ih h with ⟨h1, h2, h3⟩
      refine ⟨h1, ?_, ?_⟩
      · simp only [beforeColon, List.takeWhile_cons, hb, if_true, List.cons_append, List.cons.injEq, true_and]
        exact h2
      · intro d hd
        simp only [beforeColon, List.takeWhile_cons, hb, if_true, List.mem_cons] at hd
        rcases hd with rfl | hd
        · exact hc
        · exact h3 d hd

theorem parseUint_some {s : Str} {bits v : Nat} (h : parseUint s bits = some v) :
    s ≠ [] ∧ s.all isDigit = true ∧ v = digitsVal s ∧ v < 2 ^ bits := by
  unfold parseUint at h
  split at h
  · cases h
  · next hne =>
    split at h
    · cases h
    · next hall =>
      split at h
      · next hlt =>
        simp only [Option.some.injEq] at h
        subst h
        refine ⟨by intro e; subst e; simp at hne, by simpa using hall, rfl, hlt⟩
      · cases h

theorem digits_plain {A : Str} (h : A.all isDigit = true) : ∀ c ∈ A, Plain c := by
  intro c hc
  have := List.all_eq_true.1 h c hc
  simp only [isDigit, Bool.and_eq_true, decide_eq_true_eq] at this
  exact ⟨this.1, by omega⟩

theorem digits_no_colon {A : Str} (h : A.all isDigit = true) : ¬ (58 ∈ A) := by
  intro hc
  have := List.all_eq_true.1 h 58 hc
  simp [isDigit] at this

/-- two texts `A:u` and `B:v` whose parts before the colon have no colon -/
theorem colon_split_unique : ∀ {A B u v : Str}, A ++ 58 :: u = B ++ 58 :: v → ¬ (58 ∈ A) → ¬ (58 ∈ B) →
    A = B ∧ u = v := by
  intro A
  induction A with
  | nil =>
    intro B u v h _ hB
    cases B with
    | nil => simp at h; exact ⟨rfl, h⟩
    | cons b B => simp at h; exact absurd (by simp [h.1]) hB
  | cons a A ih =>
    intro B u v h hA hB
    cases B with
    | nil => simp at h; exact absurd (by simp [h.1]) hA
    | cons b B =>
      simp only [List.cons_append, List.cons.injEq] at h
      rcases ih h.2 (fun hc => hA (by simp [hc])) (fun hc => hB (by simp [hc])) with ⟨h1, h2⟩
      exact ⟨by rw [h.1, h1], h2⟩

theorem render_eq (c : Nat) : render c = toDec (c / 65536) ++ 58 :: toDec (c % 65536) := by
  simp [render]

/-- the text `A:L` (canonical decimals) is the rendering of exactly one community -/
theorem text_eq_iff {A L : Str} {hi lo : Nat}
    (hA1 : A ≠ []) (hA2 : A.all isDigit = true) (hA3 : isCanonical A = true)
    (hL1 : L ≠ []) (hL2 : L.all isDigit = true) (hL3 : isCanonical L = true) :
    (toDec hi ++ 58 :: toDec lo = A ++ 58 :: L) ↔ (hi = digitsVal A ∧ lo = digitsVal L) := by
  constructor
  · intro h
    rcases colon_split_unique h (toDec_no_colon hi) (digits_no_colon hA2) with ⟨h1, h2⟩
    exact ⟨by rw [← h1, digitsVal_toDec], by rw [← h2, digitsVal_toDec]⟩
  · rintro ⟨rfl, rfl⟩
    rw [toDec_digitsVal A hA1 hA2 hA3, toDec_digitsVal L hL1 hL2 hL3]

/-! ### lexing and parsing `^A:` + rest -/

theorem lex_prefix {A rest : Str} {tks : List Tok} (hA : A.all isDigit = true)
    (h : lex (94 :: (A ++ 58 :: rest)) = .ok tks) :
    ∃ tks', lexGo .normal rest = .ok tks' ∧
      tks = (R.bot :: (A ++ [58]).map lit).map Tok.atom ++ tks' := by
  unfold lex at h
  have hs : stepM .normal 94 = .ok (.normal, [.atom .bot]) := rfl
  rcases lexGo_ok_cons hs h with ⟨r1, h1, e1⟩
  have hp : ∀ c ∈ A ++ [58], Plain c := by
    intro c hc
    simp only [List.mem_append, List.mem_singleton] at hc
    rcases hc with hc | rfl
    · exact digits_plain hA c hc
    · exact ⟨by omega, by omega⟩
  have h1' : lexGo .normal ((A ++ [58]) ++ rest) = .ok r1 := by simpa using h1
  rcases lexGo_plain hp h1' with ⟨r2, h2, e2⟩
  refine ⟨r2, h2, ?_⟩
  rw [e1, e2]
  simp [List.map_map, Function.comp_def]

/-- the parser state after the prefix `^A:` -/
def prefP (A : Str) : List R := ((A ++ [58]).map lit).reverse ++ [.bot]

theorem prefP_reverse (A : Str) : (prefP A).reverse = .bot :: (A ++ [58]).map lit := by
  simp [prefP]

theorem prun_prefix (A : Str) (tks' : List Tok) :
    prun PSt.init ((R.bot :: (A ++ [58]).map lit).map Tok.atom ++ tks') =
      prun ⟨[], ⟨none, prefP A⟩, false⟩ tks' := by
  unfold PSt.init
  rw [prun_atoms]
  simp [prefP]

theorem parseFull_prefix {A rest : Str} {x : R × Bool} (hA : A.all isDigit = true)
    (h : parseFull (94 :: (A ++ 58 :: rest)) = .ok x) :
    ∃ tks' S1, lexGo .normal rest = .ok tks' ∧ prun ⟨[], ⟨none, prefP A⟩, false⟩ tks' = some S1 ∧
      pfinish S1 = some x := by
  unfold parseFull at h
  cases hl : lex (94 :: (A ++ 58 :: rest)) with
  | err => simp [hl] at h
  | nofrag => simp [hl] at h
  | ok tks =>
    rcases lex_prefix hA hl with ⟨tks', h1, e⟩
    simp only [hl] at h
    rw [e, prun_prefix] at h
    cases hr : prun ⟨[], ⟨none, prefP A⟩, false⟩ tks' with
    | none => simp [hr] at h
    | some S1 =>
      simp only [hr] at h
      cases hf : pfinish S1 with
      | none => simp [hf] at h
      | some y =>
        simp only [hf, Res.ok.injEq] at h
        exact ⟨tks', S1, h1, hr, by rw [hf, h]⟩

theorem parse_ok_full {s : Str} {r : R} (h : parse s = .ok r) : ∃ b, parseFull s = .ok (r, b) := by
  unfold parse at h
  cases hp : parseFull s with
  | ok x => obtain ⟨r', b⟩ := x; simp [hp] at h; subst h; exact ⟨b, rfl⟩
  | err => simp [hp] at h
  | nofrag => simp [hp] at h

/-! ### `extractASN` -/

theorem isRep_eq (c : Nat) : isRepOp c = isRepChar c := rfl

structure ASNShape (s : Str) (asn : Nat) (rest : Str) (A : Str) : Prop where
  eq : s = 94 :: (A ++ 58 :: rest)
  ne : A ≠ []
  dig : A.all isDigit = true
  can : isCanonical A = true
  val : asn = digitsVal A
  lt : asn < 65536
  noAlt : hasTopAlt s = false
  noRep : ∀ c r', rest = c :: r' → isRepChar c = false

theorem extractASN_some {s : Str} {asn : Nat} {rest : Str} (h : extractASN s = some (asn, rest)) :
    ∃ A, ASNShape s asn rest A := by
  unfold extractASN at h
  cases s with
  | nil => cases h
  | cons c t =>
    simp only at h
    split at h
    · cases h
    · next hc =>
      simp only [Bool.or_eq_true, bne_iff_ne, ne_eq, not_or, Decidable.not_not, Bool.not_eq_true] at hc
      obtain ⟨rfl, hna⟩ := hc
      split at h
      · cases h
      · next x rest' hfc =>
        rcases fromColon_cons hfc with ⟨_, heq, _⟩
        split at h
        · cases h
        · next hne =>
          split at h
          · cases h
          · next asn' hpu =>
            rcases parseUint_some hpu with ⟨h1, h2, h3, h4⟩
            split at h
            · cases h
            · next hcan =>
              have hcan : isCanonical (beforeColon t) = true := by simpa using hcan
              split at h
              · next r0 r1 =>
                split at h
                · cases h
                · next hrep =>
                  simp only [Option.some.injEq, Prod.mk.injEq] at h
                  obtain ⟨rfl, rfl⟩ := h
                  refine ⟨beforeColon t, ⟨by rw [← heq], h1, h2, hcan, h3, h4, hna, ?_⟩⟩
                  intro c r' e
                  simp only [List.cons.injEq] at e
                  rw [← e.1, ← isRep_eq]; simpa using hrep
              · simp only [Option.some.injEq, Prod.mk.injEq] at h
                obtain ⟨rfl, rfl⟩ := h
                refine ⟨beforeColon t, ⟨by rw [← heq], h1, h2, hcan, h3, h4, hna, ?_⟩⟩
                intro c r' e; cases e

/-- the shape theorem at the level of patterns: a pattern `^A:rest` without top-level alternation
and without a repetition operator on the colon parses to `^`, the literal `A:`, then something -/
theorem asn_shape_parse {s : Str} {asn : Nat} {rest A : Str} {r : R}
    (hs : ASNShape s asn rest A) (hp : parse s = .ok r) :
    ∃ Y, r = catList (.bot :: ((A ++ [58]).map lit ++ Y)) := by
  rcases parse_ok_full hp with ⟨b, hpf⟩
  have hb : b = false := by
    have := hs.noAlt
    simp only [hasTopAlt, hpf] at this
    exact this
  subst hb
  rw [hs.eq] at hpf
  rcases parseFull_prefix hs.dig hpf with ⟨tks', S1, hl, hr, hf⟩
  have hq := lex_head_not_quant hs.noRep hl
  rcases prefix_shape hq hr hf with ⟨Y, hY⟩
  exact ⟨Y, by rw [hY, prefP_reverse]; rfl⟩

/-- a pattern of that shape only matches communities of that AS -/
theorem asn_shape_only {s : Str} {asn : Nat} {rest A : Str} {r : R} {c : Nat}
    (hs : ASNShape s asn rest A) (hp : parse s = .ok r) (hm : search r (render c) = true) :
    c / 65536 = asn := by
  rcases asn_shape_parse hs hp with ⟨Y, rfl⟩
  rcases search_prefix hm with ⟨u, hu⟩
  rw [render_eq] at hu
  have hu' : toDec (c / 65536) ++ 58 :: toDec (c % 65536) = A ++ 58 :: u := by simpa using hu
  rcases colon_split_unique hu' (toDec_no_colon _) (digits_no_colon hs.dig) with ⟨h1, _⟩
  rw [hs.val, ← h1, digitsVal_toDec]

end CommMatch
