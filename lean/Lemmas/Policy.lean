import Model.Policy
/-! helper lemmas for Props/C10: loops of the Go code = the documented quantifiers -/
namespace Policy

/-! ### well-formedness: what the configuration path can produce / what the documentation covers -/

/-- prefix and neighbour conditions only take `any`/`invert` (MatchSetOptionsRestrictedType);
    an `all` condition refers to a non-empty set (on an empty set the documentation's
    "matches all members" is vacuously true, the code answers false — see `all_on_empty_set`). -/
def Cond.wf : Cond → Bool
  | .prefix _ _ opt => opt != .all
  | .neighbor _ opt => opt != .all
  | .comm ps opt => !(opt == .all && ps.isEmpty)
  | .ext ps opt => !(opt == .all && ps.isEmpty)
  | .large ps opt => !(opt == .all && ps.isEmpty)
  | _ => true

def Stmt.wf (s : Stmt) : Bool := s.conds.all Cond.wf
def Pol.wf (p : Pol) : Bool := p.stmts.all Stmt.wf

/-! ### list loops -/

theorem netLoop_eq_any (a : Addr) (nets : List Pfx) :
    netLoop a nets = nets.any (fun n => n.contains a) := by
  induction nets with
  | nil => rfl
  | cons n rest ih =>
    by_cases h : n.contains a <;> simp [netLoop, h, ih]

theorem prefixLoop_eq_any (r : Pfx) (es : List PfxEntry) :
    prefixLoop r es =
      es.any (fun e => e.lo ≤ r.len && r.len ≤ e.hi && e.p.contains r.maskedAddr) := by
  induction es with
  | nil => rfl
  | cons e rest ih =>
    by_cases h : (decide (e.lo ≤ r.len) && decide (r.len ≤ e.hi) && e.p.contains r.maskedAddr) = true
    · simp [prefixLoop, h]
    · simp only [Bool.not_eq_true] at h
      simp [prefixLoop, h, ih]

theorem shift_mask_shift (x k m : Nat) (h : k ≤ m) : ((x >>> k) <<< k) >>> m = x >>> m := by
  obtain ⟨j, rfl⟩ := Nat.exists_eq_add_of_le h
  rw [Nat.shiftRight_eq_div_pow, Nat.shiftLeft_eq, Nat.shiftRight_eq_div_pow, Nat.shiftRight_eq_div_pow,
    Nat.pow_add, ← Nat.div_div_eq_div_mul, ← Nat.div_div_eq_div_mul,
    Nat.mul_div_cancel _ (Nat.pow_pos (by decide : 0 < 2))]

/-- the `p.Prefix.Contains(addr)` test inside the Supernets loop never fails -/
theorem covers_contains (p r : Pfx) (h : p.covers r = true) : p.contains r.maskedAddr = true := by
  unfold Pfx.covers at h
  simp only [Bool.and_eq_true, beq_iff_eq, decide_eq_true_eq] at h
  obtain ⟨⟨hv, hl⟩, ha⟩ := h
  unfold Pfx.contains Pfx.maskedAddr
  simp only [Bool.and_eq_true, beq_iff_eq]
  refine ⟨hv, ?_⟩
  rw [← hv, shift_mask_shift _ _ _ (by omega)]
  exact ha

theorem any_swap {α β : Type} (l : List α) (m : List β) (f : α → β → Bool) :
    l.any (fun a => m.any (fun b => f a b)) = m.any (fun b => l.any (fun a => f a b)) := by
  rw [Bool.eq_iff_iff]
  simp only [List.any_eq_true]
  constructor
  · rintro ⟨a, ha, b, hb, h⟩; exact ⟨b, hb, a, ha, h⟩
  · rintro ⟨b, hb, a, ha, h⟩; exact ⟨a, ha, b, hb, h⟩

theorem contains_eq_any {α : Type} [BEq α] [LawfulBEq α] (l : List α) (p : α) :
    l.contains p = l.any (fun y => y == p) := by
  rw [Bool.eq_iff_iff]
  simp [List.any_eq_true]

theorem commIndexAny_eq (pats cs : List Nat) :
    commIndexAny pats cs = cs.any (fun c => pats.contains c) := by
  induction cs with
  | nil => rfl
  | cons c rest ih =>
    by_cases h : pats.contains c = true
    · simp [commIndexAny, h, ih]
    · simp only [Bool.not_eq_true] at h
      simp [commIndexAny, h, ih]

theorem commIndexAny_spec (pats cs : List Nat) :
    commIndexAny pats cs = pats.any (fun p => cs.contains p) := by
  rw [commIndexAny_eq]
  have h1 : (cs.any fun c => pats.contains c) = cs.any (fun c => pats.any (fun p => p == c)) := by
    congr 1; funext c; exact contains_eq_any pats c
  have h2 : (pats.any fun p => cs.contains p) = pats.any (fun p => cs.any (fun c => c == p)) := by
    congr 1; funext p; exact contains_eq_any cs p
  rw [h1, h2, any_swap]
  congr 1; funext p; congr 1; funext c
  exact Bool.eq_iff_iff.mpr ⟨fun h => by simpa using (by simpa using h : p = c).symm,
    fun h => by simpa using (by simpa using h : c = p).symm⟩

theorem extIndexAny_eq (pats : List ExtPat) (es : List Ext) :
    extIndexAny pats es = es.any (fun x => pats.any (fun p => x.trans && p.matches x)) := by
  induction es with
  | nil => rfl
  | cons x rest ih =>
    unfold extIndexAny
    by_cases ht : x.trans = true
    · by_cases hk : x.kind = 0
      · by_cases hm : pats.any (fun p => p.matches x) = true
        · simp [ht, hk, hm]
        · simp only [Bool.not_eq_true] at hm
          simp [ht, hk, hm, ih]
      · have : pats.any (fun p => p.matches x) = false := by
          rw [List.any_eq_false]
          intro p _
          simp [ExtPat.matches, hk]
        simp [ht, hk, this, ih]
    · simp only [Bool.not_eq_true] at ht
      simp [ht, ih]

theorem generalLoop_anyinv {α : Type} (hit : α → Bool) (opt : MatchOpt) (h : opt ≠ .all)
    (l : List α) (b : Bool) :
    generalLoop hit opt l b = if l = [] then b else l.any hit := by
  induction l generalizing b with
  | nil => simp [generalLoop]
  | cons m rest ih =>
    have ho : (opt == MatchOpt.any || opt == MatchOpt.invert) = true := by cases opt <;> simp_all
    have ha : (opt == MatchOpt.all) = false := by cases opt <;> simp_all
    by_cases hm : hit m = true
    · simp [generalLoop, hm, ho, ha]
    · simp only [Bool.not_eq_true] at hm
      simp only [generalLoop, hm, ha, ho, ih]
      by_cases hr : rest = [] <;> simp [hr, hm]

theorem generalLoop_all {α : Type} (hit : α → Bool) (l : List α) (b : Bool) :
    generalLoop hit .all l b = if l = [] then b else l.all hit := by
  induction l generalizing b with
  | nil => simp [generalLoop]
  | cons m rest ih =>
    by_cases hm : hit m = true
    · simp only [generalLoop, hm, ih]
      by_cases hr : rest = [] <;> simp [hr, hm]
    · simp only [Bool.not_eq_true] at hm
      simp [generalLoop, hm]

/-- the three community-type conditions' general path = the documented quantifier
    (for `all` on a non-empty set) -/
theorem generalLoop_spec {α : Type} (hit : α → Bool) (opt : MatchOpt) (l : List α)
    (hwf : ¬ (opt = .all ∧ l = [])) :
    (let result := generalLoop hit opt l false
     if opt == .invert then !result else result) = specSet opt l hit := by
  cases opt with
  | any =>
    simp only [specSet]
    rw [generalLoop_anyinv hit .any (by decide)]
    by_cases hl : l = [] <;> simp [hl]
  | all =>
    simp only [specSet]
    rw [generalLoop_all]
    have hl : l ≠ [] := fun e => hwf ⟨rfl, e⟩
    simp [hl]
  | invert =>
    simp only [specSet]
    rw [generalLoop_anyinv hit .invert (by decide)]
    by_cases hl : l = [] <;> simp [hl]

theorem asSingleLoop_any (a : List Nat) (ss : List AsSingle) :
    asSingleLoop .any a ss = if ss.any (fun m => m.matches a) then some true else none := by
  induction ss with
  | nil => rfl
  | cons m rest ih => by_cases h : m.matches a = true <;> simp_all [asSingleLoop]

theorem asSingleLoop_all (a : List Nat) (ss : List AsSingle) :
    asSingleLoop .all a ss = if ss.all (fun m => m.matches a) then none else some false := by
  induction ss with
  | nil => rfl
  | cons m rest ih => by_cases h : m.matches a = true <;> simp_all [asSingleLoop]

theorem asSingleLoop_invert (a : List Nat) (ss : List AsSingle) :
    asSingleLoop .invert a ss = if ss.any (fun m => m.matches a) then some false else none := by
  induction ss with
  | nil => rfl
  | cons m rest ih => by_cases h : m.matches a = true <;> simp_all [asSingleLoop]

theorem asReLoop_any (s : String) (res : List AsRe) :
    asReLoop .any s res = if res.any (fun m => m.matches s) then some true else none := by
  induction res with
  | nil => rfl
  | cons m rest ih => by_cases h : m.matches s = true <;> simp_all [asReLoop]

theorem asReLoop_all (s : String) (res : List AsRe) :
    asReLoop .all s res = if res.all (fun m => m.matches s) then none else some false := by
  induction res with
  | nil => rfl
  | cons m rest ih => by_cases h : m.matches s = true <;> simp_all [asReLoop]

theorem asReLoop_invert (s : String) (res : List AsRe) :
    asReLoop .invert s res = if res.any (fun m => m.matches s) then some false else none := by
  induction res with
  | nil => rfl
  | cons m rest ih => by_cases h : m.matches s = true <;> simp_all [asReLoop]

end Policy
