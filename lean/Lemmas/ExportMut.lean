/-
  Frame / effect lemmas for the path mutators of Model/Export.lean: what each one does to the
  per-type view (getAttr), to the receiver node's `dels`, and the fields it leaves alone.
-/
import Lemmas.ExportOverlay
namespace Export

/-- `q` was obtained from `p` by writing to the receiver node only -/
structure SameNode (p q : Path) : Prop where
  parents  : q.parents = p.parents
  src      : q.src = p.src
  family   : q.family = p.family
  withdraw : q.withdraw = p.withdraw
  nlri     : q.nlri = p.nlri

theorem SameNode.refl (p : Path) : SameNode p p := ⟨rfl, rfl, rfl, rfl, rfl⟩
theorem SameNode.trans {p q r : Path} (h1 : SameNode p q) (h2 : SameNode q r) : SameNode p r :=
  ⟨h2.parents.trans h1.parents, h2.src.trans h1.src, h2.family.trans h1.family,
   h2.withdraw.trans h1.withdraw, h2.nlri.trans h1.nlri⟩
theorem sameNode_setAttr (p : Path) (a : Attr) : SameNode p (setAttr p a) := ⟨rfl, rfl, rfl, rfl, rfl⟩
theorem sameNode_delAttr (p : Path) (t : Nat) : SameNode p (delAttr p t) := ⟨rfl, rfl, rfl, rfl, rfl⟩

theorem isLocal_congr {p q : Path} (h : SameNode p q) : isLocal q = isLocal p := by
  simp [isLocal, h.src]

@[simp] theorem dels_setAttr (p : Path) (a : Attr) : (setAttr p a).leaf.dels = p.leaf.dels := rfl
@[simp] theorem dels_delAttr (p : Path) (t : Nat) : (delAttr p t).leaf.dels = p.leaf.dels ++ [t] := rfl
@[simp] theorem dels_clone (p : Path) (w : Bool) : (clone p w).leaf.dels = [] := rfl

theorem getAttr_setAttr (p : Path) (a : Attr) (t : Nat) :
    getAttr (setAttr p a) t =
      if t = a.typ then (if t ∈ p.leaf.dels then none else some a) else getAttr p t := by
  by_cases h : t = a.typ
  · subst h; rw [getAttr_setAttr_same]; simp
  · rw [getAttr_setAttr_other _ _ _ h]; simp [h]

theorem getAttr_delAttr (p : Path) (d t : Nat) :
    getAttr (delAttr p d) t = if t = d then none else getAttr p t := by
  by_cases h : t = d
  · subst h; rw [getAttr_delAttr_same]; simp
  · rw [getAttr_delAttr_other _ _ _ h]; simp [h]

/-! ### getAsPath -/

theorem getAsPath_setAttr_asPath (p : Path) (segs : List Seg) (h : tAS_PATH ∉ p.leaf.dels) :
    getAsPath (setAttr p (mkAsPath segs)) = some segs := by
  have : getAttr (setAttr p (mkAsPath segs)) tAS_PATH = some (mkAsPath segs) := by
    rw [getAttr_setAttr]; simp [mkAsPath, h]
  simp only [getAsPath, this]
  rfl

theorem getAsPath_congr {p q : Path} (h : getAttr q tAS_PATH = getAttr p tAS_PATH) :
    getAsPath q = getAsPath p := by simp [getAsPath, h]

/-! ### SetNexthop -/

structure NexthopOnly (p q : Path) : Prop where
  same  : SameNode p q
  frame : ∀ t, t ≠ tNEXT_HOP → t ≠ tMP_REACH → getAttr q t = getAttr p t
  dels  : ∀ t, t ∈ q.leaf.dels ↔ (t ∈ p.leaf.dels ∨ (t = tNEXT_HOP ∧ tNEXT_HOP ∈ q.leaf.dels))

theorem NexthopOnly.refl (p : Path) : NexthopOnly p p :=
  ⟨SameNode.refl p, fun _ _ _ => rfl, fun t => ⟨Or.inl, fun h => h.elim id (fun h => h.1 ▸ h.2)⟩⟩

theorem setNextHopAttr_spec (p : Path) (nh : Addr) :
    SameNode p (setNextHopAttr p nh) ∧ (setNextHopAttr p nh).leaf.dels = p.leaf.dels ∧
    (∀ t, t ≠ tNEXT_HOP → getAttr (setNextHopAttr p nh) t = getAttr p t) := by
  unfold setNextHopAttr
  split
  · exact ⟨sameNode_setAttr _ _, rfl, fun t h => by rw [getAttr_setAttr]; simp [mkNextHop, h]⟩
  · exact ⟨SameNode.refl _, rfl, fun _ _ => rfl⟩

theorem setMpNexthop_spec (p : Path) (nh : Addr) :
    SameNode p (setMpNexthop p nh) ∧ (setMpNexthop p nh).leaf.dels = p.leaf.dels ∧
    (∀ t, t ≠ tMP_REACH → getAttr (setMpNexthop p nh) t = getAttr p t) := by
  unfold setMpNexthop
  split
  · exact ⟨sameNode_setAttr _ _, rfl, fun t h => by rw [getAttr_setAttr]; simp [mkMpReach, h]⟩
  · exact ⟨SameNode.refl _, rfl, fun _ _ => rfl⟩

theorem setNexthop_spec (p : Path) (nh : Addr) : NexthopOnly p (setNexthop p nh) := by
  unfold setNexthop
  split
  · refine ⟨(sameNode_delAttr _ _).trans (sameNode_setAttr _ _), ?_, ?_⟩
    · intro t h1 h2
      rw [getAttr_setAttr, getAttr_delAttr]
      simp [mkMpReach, h1, show ¬ t = tMP_REACH from h2]
    · intro t
      simp only [dels_setAttr, dels_delAttr, List.mem_append, List.mem_singleton]
      constructor
      · intro h; rcases h with h | h
        · exact Or.inl h
        · exact Or.inr ⟨h, by simp⟩
      · intro h; rcases h with h | h
        · exact Or.inl h
        · exact Or.inr h.1
  · have h1 := setNextHopAttr_spec p nh
    have h2 := setMpNexthop_spec (setNextHopAttr p nh) nh
    refine ⟨h1.1.trans h2.1, ?_, ?_⟩
    · intro t ht1 ht2
      rw [h2.2.2 t ht2, h1.2.2 t ht1]
    · intro t
      rw [h2.2.1, h1.2.1]
      exact ⟨Or.inl, fun h => h.elim id (fun h => h.1 ▸ h.2)⟩

/-! ### the AS_PATH mutators: exact effect on the AS_PATH, nothing else touched -/

/-- the segment arithmetic of PrependAsn on the AS_PATH value -/
def prependSegs (asn repeatN : Nat) (confed : Bool) (segs0 : List Seg) : List Seg :=
  let segType := if confed then 3 else 2
  let asns := List.replicate repeatN asn
  let r : List Seg × List Nat :=
    match segs0 with
    | s :: rest =>
      if s.typ == segType then
        let rep := if repeatN + s.as.length > 255 then 255 - s.as.length else repeatN
        (({ typ := segType, as := asns.take rep ++ s.as } : Seg) :: rest, asns.drop rep)
      else (segs0, asns)
    | [] => (segs0, asns)
  if r.2.length > 0 then ({ typ := segType, as := r.2 } : Seg) :: r.1 else r.1

theorem prependAsn_eq (p : Path) (asn n : Nat) (confed : Bool) :
    prependAsn p asn n confed = setAttr p (mkAsPath (prependSegs asn n confed ((getAsPath p).getD []))) := by
  unfold prependAsn prependSegs
  cases h : (getAsPath p).getD [] with
  | nil => rfl
  | cons s rest => rfl

structure AsPathOnly (p q : Path) : Prop where
  same  : SameNode p q
  frame : ∀ t, t ≠ tAS_PATH → getAttr q t = getAttr p t
  dels  : q.leaf.dels = p.leaf.dels

theorem AsPathOnly.refl (p : Path) : AsPathOnly p p := ⟨SameNode.refl p, fun _ _ => rfl, rfl⟩
theorem AsPathOnly.trans {p q r : Path} (h1 : AsPathOnly p q) (h2 : AsPathOnly q r) : AsPathOnly p r :=
  ⟨h1.same.trans h2.same, fun t ht => (h2.frame t ht).trans (h1.frame t ht), h2.dels.trans h1.dels⟩

theorem asPathOnly_set (p : Path) (segs : List Seg) : AsPathOnly p (setAttr p (mkAsPath segs)) :=
  ⟨sameNode_setAttr _ _, fun t ht => by rw [getAttr_setAttr]; simp [mkAsPath, ht], rfl⟩

theorem prependAsn_only (p : Path) (asn n : Nat) (confed : Bool) : AsPathOnly p (prependAsn p asn n confed) := by
  rw [prependAsn_eq]; exact asPathOnly_set _ _

theorem getAsPath_prependAsn (p : Path) (asn n : Nat) (confed : Bool) (h : tAS_PATH ∉ p.leaf.dels) :
    getAsPath (prependAsn p asn n confed) = some (prependSegs asn n confed ((getAsPath p).getD [])) := by
  rw [prependAsn_eq]; exact getAsPath_setAttr_asPath _ _ h

theorem removePrivateAS_only (p : Path) (l o : Nat) : AsPathOnly p (removePrivateAS p l o) := by
  unfold removePrivateAS
  split
  · exact AsPathOnly.refl _
  · split
    · exact asPathOnly_set _ _
    · exact AsPathOnly.refl _

/-- RemovePrivateAS on the AS_PATH value -/
def rmPrivOpt (localAS option : Nat) (segs : List Seg) : List Seg :=
  if option == 1 || option == 2 then rmPrivSegs localAS (option == 2) segs else segs

theorem getAsPath_removePrivateAS (p : Path) (l o : Nat) (h : tAS_PATH ∉ p.leaf.dels) :
    getAsPath (removePrivateAS p l o) = (getAsPath p).map (rmPrivOpt l o) := by
  unfold removePrivateAS rmPrivOpt
  cases hg : getAsPath p with
  | none => simpa using hg
  | some segs =>
    simp only [Option.map_some]
    split
    · exact getAsPath_setAttr_asPath _ _ h
    · exact hg

theorem removeConfedAs_only (p : Path) : AsPathOnly p (removeConfedAs p) := by
  unfold removeConfedAs
  split
  · exact AsPathOnly.refl _
  · exact asPathOnly_set _ _

theorem getAsPath_removeConfedAs (p : Path) (h : tAS_PATH ∉ p.leaf.dels) :
    getAsPath (removeConfedAs p) = (getAsPath p).map dropConfed := by
  unfold removeConfedAs
  cases hg : getAsPath p with
  | none => simpa using hg
  | some segs => simp only [Option.map_some]; exact getAsPath_setAttr_asPath _ _ h

/-! ### the first loop of UpdatePathAttrs -/

/-- the type one round of the first loop deletes, if any -/
def stepDel (peer : Peer) (a : Attr) : List Nat :=
  if !known a.typ then
    if !transitive a.flags then [a.typ] else []
  else if a.typ == tCLUSTER_LIST || a.typ == tORIGINATOR_ID then
    if peer.peerType != 0 || !peer.rrClient then [a.typ] else []
  else []

/-- the types the first loop deletes, in order -/
def stripDels (peer : Peer) (l : List Attr) : List Nat := (l.map (stepDel peer)).flatten

theorem stripStep_eq (peer : Peer) (p : Path) (a : Attr) :
    stripStep peer p a = { p with leaf := { p.leaf with dels := p.leaf.dels ++ stepDel peer a } } := by
  unfold stripStep stepDel
  split
  · split <;> simp [delAttr]
  · split
    · split <;> simp [delAttr]
    · simp

theorem stripFold_eq (peer : Peer) (l : List Attr) (p : Path) :
    l.foldl (stripStep peer) p =
      { p with leaf := { p.leaf with dels := p.leaf.dels ++ stripDels peer l } } := by
  induction l generalizing p with
  | nil => simp [stripDels]
  | cons a rest ih =>
    simp only [List.foldl_cons]
    rw [ih, stripStep_eq]
    simp [stripDels, List.append_assoc]

theorem mem_stripDels_iff {peer : Peer} {l : List Attr} {t : Nat} :
    t ∈ stripDels peer l ↔ ∃ a ∈ l, t ∈ stepDel peer a := by
  simp only [stripDels, List.mem_flatten, List.mem_map]
  constructor
  · rintro ⟨_, ⟨a, ha, rfl⟩, ht⟩; exact ⟨a, ha, ht⟩
  · rintro ⟨a, ha, ht⟩; exact ⟨_, ⟨a, ha, rfl⟩, ht⟩

theorem mem_stepDel {peer : Peer} {a : Attr} {t : Nat} (h : t ∈ stepDel peer a) :
    t = a.typ ∧ (known t = false ∧ transitive a.flags = false ∨
      ((t = tCLUSTER_LIST ∨ t = tORIGINATOR_ID) ∧ (peer.peerType ≠ 0 ∨ peer.rrClient = false))) := by
  unfold stepDel at h
  split at h
  · rename_i hk
    split at h
    · rename_i ht
      simp at h; subst h
      exact ⟨rfl, Or.inl ⟨by simpa using hk, by simpa using ht⟩⟩
    · simp at h
  · split at h
    · rename_i hc
      split at h
      · rename_i hp
        simp at h; subst h
        exact ⟨rfl, Or.inr ⟨by simpa using hc, by simpa using hp⟩⟩
      · simp at h
    · simp at h

theorem mem_stripDels {peer : Peer} {l : List Attr} {t : Nat} (h : t ∈ stripDels peer l) :
    known t = false ∨ ((t = tCLUSTER_LIST ∨ t = tORIGINATOR_ID) ∧ (peer.peerType ≠ 0 ∨ peer.rrClient = false)) := by
  rcases mem_stripDels_iff.1 h with ⟨a, _, ha⟩
  rcases (mem_stepDel ha).2 with h' | h'
  · exact Or.inl h'.1
  · exact Or.inr h'

theorem stripDels_unknown {peer : Peer} {l : List Attr} {a : Attr} (ha : a ∈ l)
    (hk : known a.typ = false) (ht : transitive a.flags = false) : a.typ ∈ stripDels peer l :=
  mem_stripDels_iff.2 ⟨a, ha, by simp [stepDel, hk, ht]⟩

theorem stripDels_rr {peer : Peer} {l : List Attr} {a : Attr} (ha : a ∈ l)
    (hc : a.typ = tCLUSTER_LIST ∨ a.typ = tORIGINATOR_ID)
    (hp : peer.peerType ≠ 0 ∨ peer.rrClient = false) : a.typ ∈ stripDels peer l := by
  refine mem_stripDels_iff.2 ⟨a, ha, ?_⟩
  have hk : known a.typ = true := by rcases hc with h | h <;> rw [h] <;> decide
  have hc' : (a.typ == tCLUSTER_LIST || a.typ == tORIGINATOR_ID) = true := by
    rcases hc with h | h <;> simp [h]
  have hp' : (peer.peerType != 0 || !peer.rrClient) = true := by
    rcases hp with h | h <;> simp [h]
  simp [stepDel, hk, hc', hp']

/-- the state after Clone + the first loop -/
def stripped (peer : Peer) (p : Path) : Path :=
  (getAttrs (clone p p.withdraw)).foldl (stripStep peer) (clone p p.withdraw)

theorem getAttrs_clone (p : Path) (w : Bool) : ∀ t, findTyp t (getAttrs (clone p w)) = findTyp t (getAttrs p) := by
  intro t; rw [findTyp_getAttrs, findTyp_getAttrs, getAttr_clone]

theorem stripped_dels (peer : Peer) (p : Path) :
    (stripped peer p).leaf.dels = stripDels peer (getAttrs (clone p p.withdraw)) := by
  unfold stripped; rw [stripFold_eq]; simp

theorem stripped_parents (peer : Peer) (p : Path) : (stripped peer p).parents = p.leaf :: p.parents := by
  unfold stripped; rw [stripFold_eq]; rfl

theorem stripped_fields (peer : Peer) (p : Path) :
    (stripped peer p).src = p.src ∧ (stripped peer p).family = p.family ∧
    (stripped peer p).withdraw = p.withdraw ∧ (stripped peer p).nlri = p.nlri ∧
    (stripped peer p).leaf.attrs = [] := by
  unfold stripped; rw [stripFold_eq]; simp [clone]

theorem getAttr_stripped (peer : Peer) (p : Path) (t : Nat) :
    getAttr (stripped peer p) t =
      if t ∈ stripDels peer (getAttrs (clone p p.withdraw)) then none else getAttr p t := by
  unfold stripped; rw [stripFold_eq]
  simp only [getAttr, Path.layers, getAttrIn, clone, List.nil_append, findTyp, List.contains_eq_mem]
  by_cases h : t ∈ stripDels peer (getAttrs (clone p p.withdraw))
  · simp [h, clone]
  · simp [h, clone]

end Export
