/-
C13 — assembling the per-mode results: the compiled matcher vs the regular expression, the pattern
loop, edits.
-/
import Model.CommMatch
import Lemmas.C13Modes
import Lemmas.C13Index
namespace CommMatch
open Regex

theorem reMatch_of_parse {s : Str} {r : R} (hp : parse s = .ok r) (t : Str) : reMatch s t = search r t := by
  simp [reMatch, hp]

theorem split_comm (c a l : Nat) (hl : l < 65536) :
    (c == a * 65536 + l) = (c / 65536 == a && c % 65536 == l) := by
  rw [Bool.eq_iff_iff]
  simp only [beq_iff_eq, Bool.and_eq_true]
  omega

/-- standard communities: every compiled mode except the wildcard-AS bitmap (mode 3) -/
theorem compile_sound_core (s : Str) (i : Nat) (pats : List Str) (r : R) (c : Nat)
    (hp : parse s = .ok r) (hi : pats[i]? = some s) (h3 : (compile s i).mode ≠ 3) :
    matchFast (compile s i) pats c = search r (render c) := by
  unfold compile at h3 ⊢
  cases h0 : (anchoredBody s).bind (fun b => parseExact b 16) with
  | some al =>
    obtain ⟨a, l⟩ := al
    rcases Option.bind_eq_some_iff.1 h0 with ⟨body, hb, he⟩
    rcases parseExact_some he with ⟨A, L, sh⟩
    simp only [matchFast]
    rw [render_eq, exact_sound hb he hp, split_comm c a l (by simpa using sh.ltL)]
  | none =>
    simp only [h0] at h3 ⊢
    cases h1 : extractASN s with
    | some x =>
      obtain ⟨asn, rest⟩ := x
      simp only [h1] at h3 ⊢
      by_cases hw : isWildcardLocal rest = true
      · simp only [hw, if_true, matchFast]
        rw [render_eq, wild_sound h1 hw hp]
      · simp only [hw, Bool.false_eq_true, if_false, matchFast, bmGet, scanBitmap]
        rcases extractASN_some h1 with ⟨A, sh⟩
        by_cases hc : c / 65536 = asn
        · have : toDec asn ++ [58] ++ toDec (c % 65536) = render c := by rw [← hc]; rfl
          rw [this, reMatch_of_parse hp]
          simp [hc]
        · have hne : (c / 65536 == asn) = false := by simpa using hc
          rw [hne, Bool.false_and]
          cases hm : search r (render c) with
          | false => rfl
          | true => exact absurd (asn_shape_only sh hp hm) hc
    | none =>
      simp only [h1] at h3 ⊢
      cases h2 : tryWildASN s with
      | some ls => simp [h2] at h3
      | none =>
        simp only [matchFast, hi]
        exact reMatch_of_parse hp _

/-! ### the pattern loop over compiled matchers vs over the regular expressions -/

/-- a list of patterns is compilable within the scope of the theorems -/
def InScope (list : List Str) : Prop :=
  ∀ s ∈ list, (∃ r, parse s = .ok r) ∧ (compile s 0).mode ≠ 3

theorem compile_mode_irrel (s : Str) (i j : Nat) : (compile s i).mode = (compile s j).mode := by
  unfold compile
  cases (anchoredBody s).bind (fun b => parseExact b 16) with
  | some al => rfl
  | none =>
    simp only
    cases extractASN s with
    | some x =>
      obtain ⟨a, rest⟩ := x
      by_cases hw : isWildcardLocal rest = true <;> simp [hw]
    | none =>
      simp only
      cases tryWildASN s <;> rfl

theorem loop_compile (opt : Nat) (pats : List Str) (cs : List Nat) :
    ∀ (l pre : List Str) (b : Bool), pats = pre ++ l → InScope l →
      evalLoop opt (fun m => cs.any (fun y => matchFast m pats y)) (compileFrom pre.length l) b =
        evalLoop opt (fun p => (cs.map render).any (fun t => reMatch p t)) l b := by
  intro l
  induction l with
  | nil => intro pre b _ _; rfl
  | cons s l ih =>
    intro pre b hp hs
    rcases hs s (by simp) with ⟨⟨r, hr⟩, h3⟩
    have hi : pats[pre.length]? = some s := by rw [hp]; simp
    have hhit : cs.any (fun y => matchFast (compile s pre.length) pats y) =
        (cs.map render).any (fun t => reMatch s t) := by
      rw [List.any_map]
      congr 1
      funext y
      simp only [Function.comp]
      rw [compile_sound_core s pre.length pats r y hr hi (by rw [compile_mode_irrel s _ 0]; exact h3), reMatch_of_parse hr]
    have hrec := ih (pre ++ [s]) ((cs.map render).any (fun t => reMatch s t)) (by rw [hp]; simp)
      (fun x hx => hs x (by simp [hx]))
    simp only [List.length_append, List.length_cons, List.length_nil, Nat.zero_add] at hrec
    simp only [compileFrom, evalLoop, hhit, hrec]

/-- the index fast path of `evaluate` equals the pattern loop over the compiled matchers -/
theorem evaluate_eq_loop' (opt : Nat) (list : List Str) (cs : List Nat) :
    evaluate opt (CSet.build list) cs =
      finish opt (evalLoop opt (fun m => cs.any (fun y => matchFast m list y)) (compileFrom 0 list) false) := by
  simp only [evaluate, CSet.build]
  apply ite_eq_right
  · intro hc
    simp only [Bool.and_eq_true, Bool.or_eq_true, beq_iff_eq, Bool.not_eq_true'] at hc
    obtain ⟨⟨hopt, _⟩, hre⟩ := hc
    have hne : opt ≠ 1 := by omega
    rw [evalLoop_any opt hne, matchesAny_buildIdx' _ list cs hre]
    congr 1
    exact (any_swap (fun m y => matchFast m list y) (compileFrom 0 list) cs).symm

/-! ### extended communities -/

/-- the text of an extended community that is NOT two-octet-AS-specific never looks like
`<digits>:…` (4-octet AS: `a.b:n`, IPv4: `a.b.c.d:n`, opaque: a number, others: words) -/
def NoASPrefix (t : Str) : Prop := ∀ A u, t = A ++ 58 :: u → ¬ (A.all isDigit = true)

def ECWF : EC → Prop
  | .two _ _ _ _ => True
  | .other _ _ t => NoASPrefix t

theorem exact_text {s body : Str} {bits a l : Nat} {r : R} {t : Str}
    (hb : anchoredBody s = some body) (he : parseExact body bits = some (a, l))
    (hp : parse s = .ok r) (hm : search r t = true) : ¬ NoASPrefix t := by
  rcases parseExact_some he with ⟨A, L, sh⟩
  have hs := anchoredBody_some hb
  rw [hs, sh.eq] at hp
  rw [parse_anchored_plain (exact_plain sh.digA sh.digL) hp, search_anchored_lits] at hm
  intro hn
  exact hn A L (by simpa using hm) sh.digA

theorem asn_text {s : Str} {asn : Nat} {rest : Str} {r : R} {t : Str}
    (he : extractASN s = some (asn, rest)) (hp : parse s = .ok r) (hm : search r t = true) :
    ¬ NoASPrefix t := by
  rcases extractASN_some he with ⟨A, sh⟩
  rcases asn_shape_parse sh hp with ⟨Y, rfl⟩
  rcases search_prefix hm with ⟨u, hu⟩
  intro hn
  exact hn A u (by simpa using hu) sh.dig

theorem false_of_noprefix {b : Bool} {t : Str} (hn : NoASPrefix t) (h : b = true → ¬ NoASPrefix t) :
    false = b := by
  cases b with
  | false => rfl
  | true => exact absurd hn (h rfl)

theorem matchExt_mode4 (sub : Nat) (s : Str) (r : R) (x : EC) (hp : parse s = .ok r) :
    matchExt ⟨sub, 4, 0, 0, none, some s⟩ x = (x.sub == sub && search r x.text) := by
  simp [matchExt, reMatch_of_parse hp]

/-- extended communities: every compiled mode except the two bitmap modes (2 and 3) -/
theorem compileExt_sound_core (sub : Nat) (s : Str) (r : R) (x : EC)
    (hp : parse s = .ok r) (hx : ECWF x)
    (h2 : (compileExt sub s).mode ≠ 2) (h3 : (compileExt sub s).mode ≠ 3) :
    matchExt (compileExt sub s) x = (x.sub == sub && search r x.text) := by
  unfold compileExt at h2 h3 ⊢
  simp only at h2 h3 ⊢
  cases h0 : (anchoredBody s).bind (fun b => parseExact b 32) with
  | some al =>
    obtain ⟨a, l⟩ := al
    rcases Option.bind_eq_some_iff.1 h0 with ⟨body, hb, he⟩
    cases x with
    | two sb tr a' l' =>
      simp only [matchExt, EC.sub, EC.text]
      rw [show toDec a' ++ [58] ++ toDec l' = toDec a' ++ 58 :: toDec l' by simp]
      rw [exact_sound hb he hp, Bool.and_assoc]
    | other sb tr t =>
      simp only [matchExt, EC.sub, EC.text]
      cases hsb : (sb == sub) with
      | false => simp
      | true =>
        simp only [Bool.true_and]
        exact false_of_noprefix hx (fun hm => exact_text hb he hp hm)
  | none =>
    simp only [h0] at h2 h3 ⊢
    cases h1 : extractASN s with
    | some y =>
      obtain ⟨asn, rest⟩ := y
      simp only [h1] at h2 h3 ⊢
      by_cases hw : isWildcardLocal rest = true
      · simp only [hw, if_true]
        cases x with
        | two sb tr a' l' =>
          simp only [matchExt, EC.sub, EC.text]
          rw [show toDec a' ++ [58] ++ toDec l' = toDec a' ++ 58 :: toDec l' by simp]
          rw [wild_sound h1 hw hp]
        | other sb tr t =>
          simp only [matchExt, EC.sub, EC.text]
          cases hsb : (sb == sub) with
          | false => simp
          | true =>
            simp only [Bool.true_and]
            exact false_of_noprefix hx (fun hm => asn_text h1 hp hm)
      · simp only [hw, Bool.false_eq_true, if_false] at h2 h3 ⊢
        cases hb : anchoredBody s with
        | none => simp only [hb]; exact matchExt_mode4 sub s r x hp
        | some b =>
          simp only [hb] at h2 h3 ⊢
          cases hf : fromColon b with
          | nil => simp only [hf]; exact matchExt_mode4 sub s r x hp
          | cons c0 rhs =>
            simp only [hf] at h2 h3 ⊢
            cases hl : parseLocalSet rhs with
            | some ls => simp [hl] at h2
            | none => simp only [hl]; exact matchExt_mode4 sub s r x hp
    | none =>
      simp only [h1] at h2 h3 ⊢
      cases hb : anchoredBody s with
      | none => simp only [hb]; exact matchExt_mode4 sub s r x hp
      | some b =>
        simp only [hb] at h2 h3 ⊢
        cases hl : tryWildASN s with
        | some ls => simp [hl] at h3
        | none => simp only [hl]; exact matchExt_mode4 sub s r x hp

def InScopeX (list : List (Nat × Str)) : Prop :=
  ∀ e ∈ list, (∃ r, parse e.2 = .ok r) ∧ (compileExt e.1 e.2).mode ≠ 2 ∧ (compileExt e.1 e.2).mode ≠ 3

theorem any_congr_mem {α : Type} {l : List α} {p q : α → Bool} (h : ∀ a ∈ l, p a = q a) :
    l.any p = l.any q := by
  induction l with
  | nil => rfl
  | cons a l ih =>
    simp only [List.any_cons, h a (by simp), ih (fun x hx => h x (by simp [hx]))]

theorem loop_compileExt (opt : Nat) (es : List EC) (hes : ∀ x ∈ es, ECWF x) :
    ∀ (l : List (Nat × Str)) (b : Bool), InScopeX l →
      evalLoop opt (fun m => es.any (fun x => x.trans && matchExt m x)) (l.map (fun e => compileExt e.1 e.2)) b =
        evalLoop opt (fun (e : Nat × Str) => es.any (fun x => x.trans && (x.sub == e.1 && reMatch e.2 x.text))) l b := by
  intro l
  induction l with
  | nil => intro b _; rfl
  | cons e l ih =>
    intro b hs
    rcases hs e (by simp) with ⟨⟨r, hr⟩, h2, h3⟩
    have hhit : es.any (fun x => x.trans && matchExt (compileExt e.1 e.2) x) =
        es.any (fun x => x.trans && (x.sub == e.1 && reMatch e.2 x.text)) := by
      apply any_congr_mem
      intro x hx
      rw [compileExt_sound_core e.1 e.2 r x hr (hes x hx) h2 h3, reMatch_of_parse hr]
    have hrec := ih (es.any (fun x => x.trans && (x.sub == e.1 && reMatch e.2 x.text)))
      (fun y hy => hs y (by simp [hy]))
    simp only [List.map_cons, evalLoop, hhit, hrec]

end CommMatch
