/-
  Lemmas for C01RS, part 3: the invariant "every established route-server client holds, for
  every destination, exactly the export of ITS best path" is preserved by every operation of the
  speaker (route-server clients' and ordinary ones).
-/
import Lemmas.RouteServer

namespace RouteServer
open BestPath World

/-- the route was learned from SOME route-server client (configured now or earlier) -/
def RsSrc (g : Global) (r : Cand) : Prop :=
  ∃ c : PeerCfg, c.isRSClient = true ∧ r.src = c.srcInfo g

theorem rsSrc_equal {g : Global} {a b : Cand} (ha : RsSrc g a) (hb : RsSrc g b)
    (h : a.src.equal b.src = true) : a.src = b.src := by
  obtain ⟨c1, r1, s1⟩ := ha
  obtain ⟨c2, r2, s2⟩ := hb
  rw [s1, s2] at h ⊢
  unfold Src.equal PeerCfg.srcInfo at h
  simp only [Bool.and_eq_true, beq_iff_eq, Option.some.injEq] at h
  unfold PeerCfg.srcInfo
  rw [rs_not_rr c1 r1, rs_not_rr c2 r2, h.1.1.1, h.1.1.2, h.2]

/-! ### the route-server table as an association list -/

theorem rsRibOf_set_same (s : S) (pfx : Nat) (l : List Cand) : (s.setRsRib pfx l).rsRibOf pfx = l := by
  simp only [S.setRsRib, S.rsRibOf, List.find?_cons, beq_self_eq_true]

theorem rsRibOf_set_other (s : S) (pfx q : Nat) (l : List Cand) (h : q ≠ pfx) :
    (s.setRsRib pfx l).rsRibOf q = s.rsRibOf q := by
  unfold S.setRsRib S.rsRibOf
  have h1 : ((pfx, l).1 == q) = false := by simp; exact fun e => h e.symm
  simp only [List.find?_cons, h1]
  have : (s.rsRib.filter (fun x => x.1 != pfx)).find? (fun x => x.1 == q) = s.rsRib.find? (fun x => x.1 == q) := by
    apply find_filter_of_imp
    intro a ha
    simp only [beq_iff_eq] at ha
    simp [ha, h]
  rw [this]

theorem mem_rsRibOf (s : S) (pfx : Nat) (r : Cand) (h : r ∈ s.rsRibOf pfx) :
    ∃ e ∈ s.rsRib, e.1 = pfx ∧ r ∈ e.2 := by
  unfold S.rsRibOf at h
  cases hf : s.rsRib.find? (fun x => x.1 == pfx) with
  | none => simp [hf] at h
  | some e =>
    simp only [hf] at h
    refine ⟨e, List.mem_of_find?_eq_some hf, ?_, h⟩
    have := List.find?_some hf
    simpa using this

/-! ### the invariant -/

structure RSInv (s : S) : Prop where
  peers : PeersWF s.base.peers
  keys  : s.rsRib.Pairwise (fun a b => a.1 ≠ b.1)
  rib   : ∀ e ∈ s.rsRib, ∀ r ∈ e.2, r.pfx = e.1 ∧ RsSrc s.base.g r
  views : ∀ ps ∈ s.base.peers, ps.up = true → ps.cfg.isRSClient = true →
            ∀ pfx, heldOf ps.view pfx = rsWant s.base.g ps.cfg (s.rsRibOf pfx)

theorem rsTarget_eq (g : Global) (oldL newL : List Cand) (ps : PeerSt) :
    rsTarget g oldL newL ps =
      if ps.cfg.isRSClient && ps.up then
        match rsDeltaFor g ps.cfg oldL newL with
        | some p => { ps with view := viewApply ps.view p 0 }
        | none => ps
      else ps := by
  unfold rsTarget rsDeltaFor
  cases h1 : ps.cfg.isRSClient <;> cases h2 : ps.up <;> simp only [Bool.false_eq_true, if_false,
    if_true, Bool.and_self, Bool.and_false, Bool.false_and, Bool.and_true]
  cases getChangesFor ps.cfg oldL newL with
  | mk best old =>
    cases best with
    | none => rfl
    | some b => rfl

theorem rsTarget_cfg (g : Global) (oldL newL : List Cand) (ps : PeerSt) :
    (rsTarget g oldL newL ps).cfg = ps.cfg ∧ (rsTarget g oldL newL ps).up = ps.up ∧
    (rsTarget g oldL newL ps).adj = ps.adj := by
  rw [rsTarget_eq]
  split
  · split <;> exact ⟨rfl, rfl, rfl⟩
  · exact ⟨rfl, rfl, rfl⟩

/-- the fan-out of the route-server table never touches an ordinary peer -/
theorem rsTarget_ord (g : Global) (oldL newL : List Cand) (ps : PeerSt)
    (h : ps.cfg.isRSClient = false) : rsTarget g oldL newL ps = ps := by
  rw [rsTarget_eq]; simp [h]

theorem rsDeltaFor_route (g : Global) (t : PeerCfg) (h : t.isRSClient = true)
    (oldL newL : List Cand) (p : P) (hd : rsDeltaFor g t oldL newL = some p) :
    p.r ∈ oldL ∨ p.r ∈ newL := by
  rw [rsDeltaFor_eq g t h] at hd
  rcases deltaFor_route g (asOrd t) _ _ p hd with h1 | h1
  · exact Or.inl (clientBest_some (mem_toList h1)).1
  · exact Or.inr (clientBest_some (mem_toList h1)).1

/-! ### one update of the route-server table + fan-out keeps the invariant -/

theorem rsRibUpdate_inv (s : S) (op : Op) (pfx : Nat) (hinv : RSInv s)
    (hop : ∀ r, op = .ann r → r.pfx = pfx ∧ RsSrc s.base.g r) :
    RSInv (rsRibUpdate s op pfx) := by
  show RSInv (rsFanout (s.setRsRib pfx (calcStep s.base.opts (s.rsRibOf pfx) op)) (s.rsRibOf pfx)
    (calcStep s.base.opts (s.rsRibOf pfx) op))
  generalize hold : s.rsRibOf pfx = oldL
  generalize hnew : calcStep s.base.opts oldL op = newL
  have holdWF : ∀ r ∈ oldL, r.pfx = pfx ∧ RsSrc s.base.g r := by
    intro r hr
    rw [← hold] at hr
    obtain ⟨e, he, hep, hre⟩ := mem_rsRibOf s pfx r hr
    have := hinv.rib e he r hre
    rw [hep] at this
    exact this
  have hnewWF : ∀ r ∈ newL, r.pfx = pfx ∧ RsSrc s.base.g r := by
    intro r hr
    rw [← hnew] at hr
    rcases calcStep_subset s.base.opts oldL op r hr with h | h
    · exact holdWF r h
    · exact hop r h
  refine ⟨?_, ?_, ?_, ?_⟩
  · show PeersWF (s.base.peers.map (rsTarget s.base.g oldL newL))
    exact peersWF_map _ _ (fun ps => (rsTarget_cfg _ _ _ ps).1) hinv.peers
  · show ((pfx, newL) :: s.rsRib.filter (fun x => x.1 != pfx)).Pairwise (fun a b => a.1 ≠ b.1)
    rw [List.pairwise_cons]
    refine ⟨?_, List.Pairwise.sublist List.filter_sublist hinv.keys⟩
    intro e he
    have := (List.mem_filter.mp he).2
    simp only [bne_iff_ne, ne_eq] at this
    exact fun h => this h.symm
  · intro e he r hr
    have he' : e ∈ (pfx, newL) :: s.rsRib.filter (fun x => x.1 != pfx) := he
    show r.pfx = e.1 ∧ RsSrc s.base.g r
    rw [List.mem_cons] at he'
    rcases he' with rfl | he'
    · exact hnewWF r hr
    · exact hinv.rib e (List.mem_filter.mp he').1 r hr
  · intro ps' hps' hup hrs q
    have hps'' : ps' ∈ s.base.peers.map (rsTarget s.base.g oldL newL) := hps'
    obtain ⟨ps, hps, rfl⟩ := List.mem_map.mp hps''
    obtain ⟨hc, hu, _⟩ := rsTarget_cfg s.base.g oldL newL ps
    rw [hu] at hup
    rw [hc] at hrs ⊢
    show heldOf (rsTarget s.base.g oldL newL ps).view q =
      rsWant s.base.g ps.cfg ((s.setRsRib pfx newL).rsRibOf q)
    have hview := hinv.views ps hps hup hrs
    have hdelta := rs_delta_correct s.base.g ps.cfg hrs oldL newL (by
      intro b o hb ho heq
      exact rsSrc_equal (hnewWF b (clientBest_some hb).1).2 (holdWF o (clientBest_some ho).1).2 heq)
    rw [rsTarget_eq]
    simp only [hrs, hup, Bool.and_self, if_true]
    by_cases hq : q = pfx
    · subst hq
      rw [rsRibOf_set_same]
      cases hd : rsDeltaFor s.base.g ps.cfg oldL newL with
      | none =>
        simp only
        rw [hd] at hdelta
        rw [hview q, hold]
        simpa [heldApply] using hdelta
      | some p =>
        simp only
        have hpp : p.r.pfx = q := by
          rcases rsDeltaFor_route s.base.g ps.cfg hrs oldL newL p hd with h | h
          · exact (holdWF _ h).1
          · exact (hnewWF _ h).1
        rw [heldOf_viewApply_same _ _ _ hpp, hview q, hold]
        rw [hd] at hdelta
        exact hdelta
    · rw [rsRibOf_set_other _ _ _ _ hq]
      cases hd : rsDeltaFor s.base.g ps.cfg oldL newL with
      | none => simp only; exact hview q
      | some p =>
        simp only
        have hpp : p.r.pfx = pfx := by
          rcases rsDeltaFor_route s.base.g ps.cfg hrs oldL newL p hd with h | h
          · exact (holdWF _ h).1
          · exact (hnewWF _ h).1
        rw [heldOf_viewApply_other _ _ _ (by rw [hpp]; exact fun e => hq e.symm)]
        exact hview q

theorem rsPropagate_inv (s : S) (r : Cand) (wd : Bool) (h : RSInv s)
    (hr : wd = false → RsSrc s.base.g r) : RSInv (rsPropagate s r wd) := by
  unfold rsPropagate
  apply rsRibUpdate_inv s _ r.pfx h
  intro r' hop
  cases wd with
  | true => simp at hop
  | false =>
    simp only [Bool.false_eq_true, if_false, Op.ann.injEq] at hop
    subst hop
    exact ⟨rfl, hr rfl⟩

/-! ### changing the base (neighbour list, clock) without touching what the invariant reads -/

/-- a new base with the same global configuration whose established route-server clients were,
    unchanged, in the old neighbour list -/
theorem inv_of_base (s : S) (b : W) (h : RSInv s) (hg : b.g = s.base.g) (hp : PeersWF b.peers)
    (hm : ∀ ps ∈ b.peers, ps.up = true → ps.cfg.isRSClient = true → ps ∈ s.base.peers) :
    RSInv { s with base := b } := by
  refine ⟨hp, h.keys, ?_, ?_⟩
  · intro e he r hr
    show r.pfx = e.1 ∧ RsSrc b.g r
    rw [hg]
    exact h.rib e he r hr
  · intro ps hps hup hrs q
    show heldOf ps.view q = rsWant b.g ps.cfg (s.rsRibOf q)
    rw [hg]
    exact h.views ps (hm ps hps hup hrs) hup hrs q

/-- mapping a function that keeps cfg / up / view over the neighbour list -/
theorem inv_of_map (s : S) (b : W) (f : PeerSt → PeerSt) (h : RSInv s) (hg : b.g = s.base.g)
    (hp : b.peers = s.base.peers.map f)
    (hf : ∀ ps, (f ps).cfg = ps.cfg ∧ ((f ps).up = true → ps.up = true ∧ (f ps).view = ps.view)) :
    RSInv { s with base := b } := by
  refine ⟨?_, h.keys, ?_, ?_⟩
  · show PeersWF b.peers
    rw [hp]; exact peersWF_map _ f (fun ps => (hf ps).1) h.peers
  · intro e he r hr
    show r.pfx = e.1 ∧ RsSrc b.g r
    rw [hg]
    exact h.rib e he r hr
  · intro ps' hps' hup hrs q
    have hps'' : ps' ∈ b.peers := hps'
    rw [hp] at hps''
    obtain ⟨ps, hps, rfl⟩ := List.mem_map.mp hps''
    show heldOf (f ps).view q = rsWant b.g (f ps).cfg (s.rsRibOf q)
    obtain ⟨hu, hv⟩ := (hf ps).2 hup
    rw [hg, hv, (hf ps).1]
    rw [(hf ps).1] at hrs
    exact h.views ps hps hu hrs q

theorem updPeer_peers (w : W) (idx : Nat) (f : PeerSt → PeerSt) :
    (w.updPeer idx f).peers = w.peers.map (fun ps => if ps.cfg.idx == idx then f ps else ps) := rfl

/-! ### the operations of a route-server client -/

theorem rsRecvAnn_inv (s : S) (idx : Nat) (r0 : Cand) (hrsi : s.isRS idx = true) (h : RSInv s) :
    RSInv (rsRecvAnn s idx r0) := by
  unfold rsRecvAnn
  unfold S.isRS at hrsi
  cases hp : s.base.peer? idx with
  | none => exact h
  | some ps =>
    simp only [hp] at hrsi
    simp only
    split
    · exact h
    · generalize hr : ({ r0 with src := ps.cfg.srcInfo s.base.g, ts := s.base.tick + 1 } : Cand) = r
      have hsrc : r.src = ps.cfg.srcInfo s.base.g := by subst hr; rfl
      have ha := adjAnnounce_route ps.adj r (inboundRejected s.base.g ps.cfg r)
      apply rsPropagate_inv
      · refine inv_of_map s _ (fun q => if q.cfg.idx == idx then
            { q with adj := (adjAnnounce ps.adj r (inboundRejected s.base.g ps.cfg r)).1 } else q) h ?_ ?_ ?_
        · rfl
        · rfl
        · intro q
          split <;> exact ⟨rfl, fun hu => ⟨hu, rfl⟩⟩
      · intro _
        exact ⟨ps.cfg, hrsi, ha.1.trans hsrc⟩

theorem rsRecvWd_inv (s : S) (idx pfx pathId : Nat) (h : RSInv s) :
    RSInv (rsRecvWd s idx pfx pathId) := by
  unfold rsRecvWd
  cases hp : s.base.peer? idx with
  | none => exact h
  | some ps =>
    simp only
    split
    · exact h
    · apply rsPropagate_inv _ _ true _ (fun e => by cases e)
      refine inv_of_map s _ (fun q => if q.cfg.idx == idx then
          { q with adj := (adjWithdraw ps.adj
              ({ (default : Cand) with src := ps.cfg.srcInfo s.base.g, pfx := pfx, pathId := pathId,
                                       ts := s.base.tick + 1 } : Cand)) } else q) h ?_ ?_ ?_
      · rfl
      · rfl
      · intro q
        split <;> exact ⟨rfl, fun hu => ⟨hu, rfl⟩⟩

/-- the initial table transfer of a client sends, per destination, exactly `rsWant` -/
theorem rsTransfer_step_eq (g : Global) (t : PeerCfg) (h : t.isRSClient = true) (v : View)
    (e : Nat × List Cand) :
    rsTransferStep g t v e = transferStep g (asOrd t) v (e.1, (clientBest t e.2).toList) := by
  unfold rsTransferStep transferStep
  simp only [head_toList]
  cases hb : clientBest t e.2 with
  | none => rfl
  | some b =>
    simp only
    rw [sfilter_asOrd g t h ⟨b, false⟩ none (clientBest_some hb).2 (fun o ho => by cases ho)]
    rfl

theorem rsTransfer_held (g : Global) (t : PeerCfg) (h : t.isRSClient = true)
    (L : List (Nat × List Cand)) (hk : L.Pairwise (fun a b => a.1 ≠ b.1))
    (hp : ∀ e ∈ L, ∀ r ∈ e.2, r.pfx = e.1) (q : Nat) :
    heldOf (rsTransfer g L t) q =
      rsWant g t (match L.find? (fun e => e.1 == q) with | some e => e.2 | none => []) := by
  unfold rsTransfer
  have hfold : ∀ (M : List (Nat × List Cand)) (v : View),
      M.foldl (rsTransferStep g t) v =
        (M.map (fun e => (e.1, (clientBest t e.2).toList))).foldl (transferStep g (asOrd t)) v := by
    intro M
    induction M with
    | nil => intro v; rfl
    | cons e rest ih =>
      intro v
      simp only [List.foldl_cons, List.map_cons]
      rw [rsTransfer_step_eq g t h, ih]
  rw [hfold]
  rw [transfer_fold g (asOrd t) _ [] ?_ ?_ (fun _ _ => rfl) q]
  · rw [List.find?_map]
    cases hf : L.find? ((fun e => e.1 == q) ∘ fun e => (e.1, (clientBest t e.2).toList)) with
    | none =>
      have : L.find? (fun e => e.1 == q) = none := hf
      simp only [this, Option.map_none]
      simp [rsWant, clientBest, heldOf]
    | some e =>
      have : L.find? (fun e => e.1 == q) = some e := hf
      simp only [this, Option.map_some]
      exact (rsWant_eq g t h e.2).symm
  · rw [List.pairwise_map]
    exact hk
  · intro e' he' r hr
    obtain ⟨e, he, rfl⟩ := List.mem_map.mp he'
    exact hp e he r (clientBest_some (mem_toList hr)).1

theorem rsSessionUp_inv (s : S) (idx : Nat) (h : RSInv s) : RSInv (rsSessionUp s idx) := by
  unfold rsSessionUp
  cases hp : s.base.peer? idx with
  | none => exact h
  | some ps0 =>
    simp only
    refine ⟨?_, h.keys, h.rib, ?_⟩
    · show PeersWF (s.base.peers.map _)
      exact peersWF_map _ _ (fun ps => by simp only; split <;> rfl) h.peers
    · intro ps' hps' hup hrs q
      have hps'' : ps' ∈ s.base.peers.map (fun ps => if ps.cfg.idx == idx then
          { ps with up := true, view := rsTransfer s.base.g s.rsRib ps.cfg } else ps) := hps'
      obtain ⟨ps, hps, rfl⟩ := List.mem_map.mp hps''
      show heldOf _ q = rsWant s.base.g _ (s.rsRibOf q)
      by_cases hi : (ps.cfg.idx == idx) = true
      · simp only [hi, if_true] at hrs ⊢
        rw [rsTransfer_held s.base.g ps.cfg hrs s.rsRib h.keys (fun e he r hr => (h.rib e he r hr).1) q]
        rfl
      · have hi' : (ps.cfg.idx == idx) = false := by simpa using hi
        simp only [hi', Bool.false_eq_true, if_false] at hup hrs ⊢
        exact h.views ps hps hup hrs q

theorem rs_fold_withdraw (L : List AdjEntry) : ∀ (s : S), RSInv s →
    RSInv (L.foldl (fun s e => rsPropagate s e.r true) s) := by
  induction L with
  | nil => intro s h; exact h
  | cons e rest ih =>
    intro s h
    simp only [List.foldl_cons]
    exact ih _ (rsPropagate_inv s e.r true h (fun e => by cases e))

theorem rsSessionDown_inv (s : S) (idx : Nat) (h : RSInv s) : RSInv (rsSessionDown s idx) := by
  unfold rsSessionDown
  cases hp : s.base.peer? idx with
  | none => exact h
  | some ps0 =>
    simp only
    apply rs_fold_withdraw
    refine inv_of_map s _ (fun q => if q.cfg.idx == idx then
        { q with up := false, view := [], adj := {} } else q) h ?_ ?_ ?_
    · rfl
    · rfl
    · intro q
      split
      · exact ⟨rfl, fun hu => by cases hu⟩
      · exact ⟨rfl, fun hu => ⟨hu, rfl⟩⟩

theorem rsDelPeer_inv (s : S) (idx : Nat) (h : RSInv s) : RSInv (rsDelPeer s idx) := by
  unfold rsDelPeer
  cases hp : s.base.peer? idx with
  | none => exact h
  | some ps0 =>
    simp only
    have h1 : RSInv (ps0.adj.entries.foldl (fun s e => rsPropagate s e.r true)
        { s with base := (({ s.base with tick := s.base.tick + 1 } : W).updPeer idx
          (fun q => { q with adj := {} })) }) := by
      apply rs_fold_withdraw
      refine inv_of_map s _ (fun q => if q.cfg.idx == idx then { q with adj := {} } else q) h ?_ ?_ ?_
      · rfl
      · rfl
      · intro q
        split <;> exact ⟨rfl, fun hu => ⟨hu, rfl⟩⟩
    generalize (ps0.adj.entries.foldl (fun s e => rsPropagate s e.r true)
        { s with base := (({ s.base with tick := s.base.tick + 1 } : W).updPeer idx
          (fun q => { q with adj := {} })) }) = s1 at h1
    refine inv_of_base s1 _ h1 ?_ ?_ ?_
    · rfl
    · exact ⟨List.Pairwise.sublist List.filter_sublist h1.peers.addr,
        List.Pairwise.sublist List.filter_sublist h1.peers.idx⟩
    · intro ps hps _ _
      exact (List.mem_filter.mp hps).1

end RouteServer
