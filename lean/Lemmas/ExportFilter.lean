/-
  Facts about the filterpath family and the inbound loop checks of Model/Export.lean.
-/
import Model.Export
namespace Export

theorem fromSource_path_eq {peer : Peer} {p q : Path} {old : Option Path}
    (h : fromSource peer p old = .path q) : q = p := by
  unfold fromSource at h
  split at h
  · cases h; rfl
  · split at h
    · cases h; rfl
    · split at h
      · split at h <;> cases h
      · cases h

theorem ibgpBlock_not_path (peer : Peer) (p : Path) (old : Option Path) (q : Path) :
    ibgpBlock peer p old ≠ some (.path q) := by
  unfold ibgpBlock
  split
  · split
    · split
      · split <;> simp
      · simp
    · split
      · split <;> simp
      · simp
    · simp
  · simp

theorem loopCheck_path {peer : Peer} {old : Option Path} {v : Verdict} {q : Path}
    (h : loopCheck peer old v = .path q) :
    v = .path q ∧ ((!peer.rsClient && isASLoop peer q) = true → (!isLocal q || !peer.allowLoopLocal) = false) := by
  cases v with
  | drop => simp [loopCheck] at h
  | withdrawOld =>
    simp only [loopCheck] at h
    split at h
    · split at h <;> cases h
    · cases h
  | path p =>
    simp only [loopCheck] at h
    split at h
    · rename_i hl
      split at h
      · split at h
        · split at h <;> cases h
        · cases h
      · rename_i hx
        cases h
        exact ⟨rfl, fun _ => by simpa using hx⟩
    · rename_i hl
      cases h
      exact ⟨rfl, fun hh => absurd hh hl⟩

theorem filter_path {peer : Peer} {p q : Path} {old : Option Path} (h : filter peer p old = .path q) :
    q = p ∧ ibgpBlock peer p old = none ∧ fromSource peer p old = .path p ∧
    ((!peer.rsClient && isASLoop peer p) = true → (!isLocal p || !peer.allowLoopLocal) = false) := by
  unfold filter at h
  split at h
  · cases h
  · split at h
    · rename_i v hv
      subst h
      exact absurd hv (ibgpBlock_not_path _ _ _ _)
    · rename_i hn
      have hl := loopCheck_path h
      have := fromSource_path_eq hl.1
      subst this
      exact ⟨rfl, hn, hl.1, hl.2⟩

/-- `filter` hands on the very path it was given, or nothing, or a withdrawal of `old` -/
theorem filter_path_eq {peer : Peer} {p q : Path} {old : Option Path}
    (h : filter peer p old = .path q) : q = p := (filter_path h).1

/-- split horizon by router id: nothing that came from the peer's router goes back to it -/
theorem filter_not_back_to_source (peer : Peer) (p : Path) (old : Option Path)
    (hid : peer.routerId = p.src.id) (hx : ¬ (peer.rsClient = false ∧ peer.rrClient = true ∧ p.family = RF_RTC_UC)) :
    ∀ q, filter peer p old ≠ .path q := by
  intro q h
  have hfs := (filter_path h).2.2.1
  unfold fromSource at hfs
  simp only [hid, bne_self_eq_false, Bool.false_eq_true, if_false] at hfs
  split at hfs
  · rename_i hc
    apply hx
    simp only [Bool.and_eq_true, beq_iff_eq, Bool.not_eq_eq_eq_not, Bool.not_true] at hc
    exact ⟨hc.1.1, hc.1.2, hc.2⟩
  · split at hfs
    · split at hfs <;> cases hfs
    · cases hfs

/-- AS-loop toward the peer: a route whose AS_PATH (SEQ/SET segments) holds the peer's AS is not
    handed on, unless it is local and the peer allows that -/
theorem filter_not_to_as_in_path (peer : Peer) (p : Path) (old : Option Path)
    (hrs : peer.rsClient = false) (hloop : (asList p).contains peer.as = true)
    (hx : isLocal p = false ∨ peer.allowLoopLocal = false) :
    ∀ q, filter peer p old ≠ .path q := by
  intro q h
  have hloop' : peer.as ∈ asList p := by simpa using hloop
  have hl := (filter_path h).2.2.2 (by simp [hrs, isASLoop, hloop'])
  rcases hx with e | e <;> simp [e] at hl

/-- iBGP-learned routes are handed to an iBGP peer only when the source or the target is a
    route-reflector client -/
theorem filter_no_nonclient_to_nonclient (peer : Peer) (p : Path) (old : Option Path)
    (ht : peer.peerType = 0) (hr : peer.rrClient = false) (hl : isLocal p = false)
    (has : p.src.as = peer.as) (hsr : p.src.rrClient = false) :
    ∀ q, filter peer p old ≠ .path q := by
  intro q h
  have hb := (filter_path h).2.1
  have hig : ibgpIgnore peer p = some true := by
    simp [ibgpIgnore, hl, has, hsr, hr]
  simp only [ibgpBlock, ht, beq_self_eq_true, if_true, hig] at hb
  split at hb
  · split at hb <;> cases hb
  · cases hb

/-- a reflected route that already carries the local cluster-id is not reflected to a client -/
theorem filter_cluster_loop (peer : Peer) (p : Path) (old : Option Path)
    (ht : peer.peerType = 0) (hr : peer.rrClient = true) (hl : isLocal p = false)
    (hc : (clusterList p).contains peer.clusterId = true) :
    ∀ q, filter peer p old ≠ .path q := by
  have hc' : peer.clusterId ∈ clusterList p := by simpa using hc
  have hig : ibgpIgnore peer p = none := by simp [ibgpIgnore, hl, hr, hc']
  intro q
  unfold filter
  split
  · simp
  · simp only [ibgpBlock, ht, beq_self_eq_true, if_true, hig]
    cases old with
    | none => simp
    | some o =>
      simp only
      cases hw : p.withdraw <;> simp

/-! ### exportPath in terms of filter and rewrite -/

theorem exportPath_update {g : Global} {peer : Peer} {p q : Path} {old : Option Path}
    (h : exportPath g peer p old = .update q) :
    filter peer (prep peer p) old = .path (prep peer p) ∧ q = rewrite g peer (prep peer p) := by
  unfold exportPath at h
  split at h
  · cases h
  · cases h
  · rename_i p2 hf
    have := filter_path_eq hf
    subst this
    simp only [] at h
    split at h
    · cases h
    · simp only [Sent.update.injEq] at h
      exact ⟨hf, by rw [← h]; rfl⟩

theorem exportPath_withdrawSelf {g : Global} {peer : Peer} {p q : Path} {old : Option Path}
    (h : exportPath g peer p old = .withdrawSelf q) :
    filter peer (prep peer p) old = .path (prep peer p) ∧ q.withdraw = true := by
  unfold exportPath at h
  split at h
  · cases h
  · cases h
  · rename_i p2 hf
    have := filter_path_eq hf
    subst this
    simp only [] at h
    split at h
    · simp only [Sent.withdrawSelf.injEq] at h
      refine ⟨hf, ?_⟩
      rw [← h]; unfold postStrip removeLocalPref
      split
      · split <;> rfl
      · rfl
    · cases h

theorem replaceAS_src (p : Path) (l a : Nat) :
    (replaceAS p l a).src = p.src ∧ (replaceAS p l a).family = p.family := by
  unfold replaceAS
  split
  · exact ⟨rfl, rfl⟩
  · split
    · exact ⟨rfl, rfl⟩
    · exact ⟨rfl, rfl⟩

theorem prep_src (peer : Peer) (p : Path) :
    (prep peer p).src = p.src ∧ (prep peer p).family = p.family := by
  unfold prep; split
  · exact replaceAS_src _ _ _
  · exact ⟨rfl, rfl⟩

/-! ### inbound -/

theorem ownASCount_eq (own cid : Nat) (ce : Bool) (l : List Nat) :
    ownASCount own cid ce l =
      l.count own + (if ce && cid != own then l.count cid else 0) := by
  induction l with
  | nil => simp [ownASCount]
  | cons a rest ih =>
    unfold ownASCount
    rw [ih]
    by_cases h1 : a = own <;> by_cases h2 : a = cid <;> by_cases h3 : cid = own <;>
      cases ce <;> simp_all [List.count_cons] <;> omega

end Export
