import Model.WireMP
import Lemmas.Wire
/-! helper lemmas for the multiprotocol part of Props/C04 (core Lean only) -/
namespace Wire

/-! ### prefixes of width w -/

theorem wfW_bits {w : Nat} {p : Prefix} (h : p.wfW w = true) : p.bits ≤ w * 8 := by
  simp [Prefix.wfW] at h; exact h.1.1
theorem wfW_len {w : Nat} {p : Prefix} (h : p.wfW w = true) : p.addr.length = w := by
  simp [Prefix.wfW] at h; exact h.1.2
theorem wfW_mask {w : Nat} {p : Prefix} (h : p.wfW w = true) :
    maskLast p.bits (p.addr.take (byteLen p.bits) ++ List.replicate (w - byteLen p.bits) 0) = p.addr := by
  simp [Prefix.wfW] at h; exact h.2

theorem byteLen_le {w bits : Nat} (h : bits ≤ w * 8) : byteLen bits ≤ w := by unfold byteLen; omega

theorem serPrefix_length {w : Nat} {p : Prefix} (h : p.wfW w = true) :
    (serPrefix p).length = byteLen p.bits := by
  have h1 := byteLen_le (wfW_bits h)
  have h2 := wfW_len h
  simp [serPrefix, List.length_take]; omega

theorem decodePrefixW_ser {w : Nat} {p : Prefix} (h : p.wfW w = true) (rest : Bytes) :
    decodePrefixW w (serPrefix p ++ rest) p.bits = some p := by
  have hb := wfW_bits h
  have hl := serPrefix_length h
  have hm := wfW_mask h
  unfold decodePrefixW
  have c1 : ¬ ((serPrefix p ++ rest).length < byteLen p.bits) := by simp [hl]
  have c2 : ¬ (p.bits > w * 8) := by omega
  have ht : (serPrefix p ++ rest).take (byteLen p.bits) = serPrefix p := by
    have := take_append_len (serPrefix p) rest
    rw [hl] at this; exact this
  simp only [c1, c2, if_false, ht]
  unfold serPrefix at hm ⊢
  rw [hm]

theorem encPrefix_lengthW {w : Nat} {p : Prefix} (h : p.wfW w = true) :
    (encPrefix p).length = prefixLen p := by
  have := serPrefix_length h
  simp only [serPrefix] at this
  simp [encPrefix, prefixLen, this]; omega

theorem decPrefixW_enc {w : Nat} {p : Prefix} (hw : w ≤ 16) (h : p.wfW w = true) (rest : Bytes) :
    decPrefixW w (encPrefix p ++ rest) = some p := by
  have hb := wfW_bits h
  have hbm : p.bits % 256 = p.bits := by omega
  have := decodePrefixW_ser h rest
  simp only [serPrefix] at this
  simp only [encPrefix, List.cons_append, decPrefixW, hbm, this]

/-! ### label stacks -/

/-- a stack Serialize/Decode agree on: the single withdraw label, or 20-bit labels of which only the
    bottom one may be 0 or 0x80000 (the two values whose shifted form reads as a withdraw label) -/
def LabelsWF (ls : List Nat) : Prop :=
  ls = [WITHDRAW_LABEL] ∨
  (ls ≠ [] ∧ (∀ l ∈ ls, l < 1048576) ∧ ∀ l ∈ ls.dropLast, l ≠ 0 ∧ l ≠ 524288)

theorem lor_one_mul16 (k : Nat) (h : k < 16) : Nat.lor (16 * k) 1 = 16 * k + 1 := by
  have : ∀ k : Fin 16, Nat.lor (16 * k.val) 1 = 16 * k.val + 1 := by decide
  exact this ⟨k, h⟩

theorem lastByte (l : Nat) : Nat.lor (l * 16 % 256) 1 = l * 16 % 256 + 1 := by
  have e : l * 16 % 256 = 16 * (l % 16) := by omega
  rw [e]; exact lor_one_mul16 _ (Nat.mod_lt _ (by decide))

theorem encLabelsRaw_length : ∀ ls : List Nat, (encLabelsRaw ls).length = 3 * ls.length
  | [] => rfl
  | [_] => rfl
  | a :: b :: ls => by
    have := encLabelsRaw_length (b :: ls)
    simp only [encLabelsRaw, encLabel, List.length_append, List.length_cons, List.length_nil] at this ⊢
    omega

theorem no_withdraw_of_lt {ls : List Nat} (h : ∀ l ∈ ls, l < 1048576) :
    ls.any (· == WITHDRAW_LABEL) = false := by
  simp only [List.any_eq_false, beq_iff_eq]
  intro l hl e
  have := h l hl
  simp [WITHDRAW_LABEL] at e; omega

theorem encLabels_length {ls : List Nat} (h : LabelsWF ls) : (encLabels ls).length = labelsLen ls := by
  rcases h with h | ⟨_, hlt, _⟩
  · subst h; rfl
  · simp [encLabels, no_withdraw_of_lt hlt, encLabelsRaw_length, labelsLen]

/-- scanning the raw encoding: every label but the last continues, the last has the bottom bit -/
theorem scan_raw : ∀ (ls : List Nat) (fuel : Nat) (rest : Bytes), ls ≠ [] →
    (∀ l ∈ ls, l < 1048576) → (∀ l ∈ ls.dropLast, l ≠ 0 ∧ l ≠ 524288) → ls.length ≤ fuel →
    scanLabels true fuel (encLabelsRaw ls ++ rest) = .run ls true
  | [], _, _, h, _, _, _ => absurd rfl h
  | [l], fuel, rest, _, hlt, _, hf => by
    have hl := hlt l (by simp)
    cases fuel with
    | zero => simp at hf
    | succ fuel =>
      unfold scanLabels
      simp only [encLabelsRaw, lastByte, List.cons_append, List.nil_append]
      have c0 : ¬ ((l * 16 / 65536 % 256 :: l * 16 / 256 % 256 :: (l * 16 % 256 + 1) :: rest).length < 3) := by
        simp
      simp only [c0, if_false, List.getD_cons_zero, List.getD_cons_succ]
      have e : (l * 16 / 65536 % 256 * 256 + l * 16 / 256 % 256) * 256 + (l * 16 % 256 + 1) = l * 16 + 1 := by
        omega
      rw [e]
      have c1 : (decide (l * 16 + 1 = WITHDRAW_LABEL) || decide (l * 16 + 1 = 0)) = false := by
        simp [WITHDRAW_LABEL]; omega
      have c1a : ¬ (l * 16 + 1 = WITHDRAW_LABEL) := by simp [WITHDRAW_LABEL]; omega
      have c1b : ¬ (l * 16 + 1 = 0) := by omega
      have c2 : (l * 16 + 1) % 2 = 1 := by omega
      have c3 : (l * 16 + 1) / 16 = l := by omega
      simp [c1a, c1b, c2, c3]
  | a :: b :: ls, fuel, rest, _, hlt, hnb, hf => by
    have ha := hlt a (by simp)
    have hna := hnb a (by simp [List.dropLast])
    cases fuel with
    | zero => simp at hf
    | succ fuel =>
      have ih := scan_raw (b :: ls) fuel rest (by simp) (fun l hl => hlt l (by simp [hl]))
        (fun l hl => hnb l (by
          simp only [List.dropLast] at hl ⊢
          exact List.mem_cons_of_mem _ hl)) (by simp at hf ⊢; omega)
      unfold scanLabels
      have e0 : encLabelsRaw (a :: b :: ls) ++ rest =
          a * 16 / 65536 % 256 :: a * 16 / 256 % 256 :: a * 16 % 256 :: (encLabelsRaw (b :: ls) ++ rest) := by
        simp [encLabelsRaw, encLabel]
      rw [e0]
      have c0 : ¬ ((a * 16 / 65536 % 256 :: a * 16 / 256 % 256 :: a * 16 % 256 ::
          (encLabelsRaw (b :: ls) ++ rest)).length < 3) := by simp
      simp only [c0, if_false, List.getD_cons_zero, List.getD_cons_succ]
      have e : (a * 16 / 65536 % 256 * 256 + a * 16 / 256 % 256) * 256 + a * 16 % 256 = a * 16 := by
        have hx : a * 16 < 16777216 := by omega
        generalize a * 16 = x at hx
        omega
      rw [e]
      have c1a : ¬ (a * 16 = WITHDRAW_LABEL) := by
        have := hna.2
        simp [WITHDRAW_LABEL]; omega
      have c1b : ¬ (a * 16 = 0) := by have := hna.1; omega
      have c1 : (decide (a * 16 = WITHDRAW_LABEL) || decide (a * 16 = 0)) = false := by
        simp [c1a, c1b]
      have c2 : ¬ (a * 16 % 2 = 1) := by omega
      have c3 : a * 16 / 16 = a := by omega
      have d3 : (a * 16 / 65536 % 256 :: a * 16 / 256 % 256 :: a * 16 % 256 ::
          (encLabelsRaw (b :: ls) ++ rest)).drop 3 = encLabelsRaw (b :: ls) ++ rest := rfl
      simp only [c1, c2, c3, d3, ih, Bool.false_eq_true, if_false, Bool.not_true]

theorem decLabels_enc {ls : List Nat} (h : LabelsWF ls) (rest : Bytes) :
    decLabels true (encLabels ls ++ rest) = some ls := by
  rcases h with h | ⟨hne, hlt, hnb⟩
  · subst h
    have c : ¬ (rest.length + 1 + 1 + 1 < 3) := by omega
    simp [decLabels, encLabels, WITHDRAW_LABEL, scanLabels, c]
  · have hl : (encLabelsRaw ls ++ rest).length ≥ ls.length := by
      simp [encLabelsRaw_length]; omega
    simp only [decLabels, encLabels, no_withdraw_of_lt hlt, Bool.false_eq_true, if_false,
      scan_raw ls _ rest hne hlt hnb hl]

/-! ### route distinguishers -/

def RDWF : RD → Prop
  | .as2 a b => a < 65536 ∧ b < 4294967296
  | .ip4 a b => a < 4294967296 ∧ b < 65536
  | .as4 a b => a < 4294967296 ∧ b < 65536
  | .unknown t v => 3 ≤ t ∧ t < 65536 ∧ v.length = 6

theorem encRD_length {rd : RD} (h : RDWF rd) : (encRD rd).length = 8 := by
  cases rd with
  | as2 a b => simp [encRD, be16_length, be32_length]
  | ip4 a b => simp [encRD, be16_length, be32_length]
  | as4 a b => simp [encRD, be16_length, be32_length]
  | unknown t v =>
    obtain ⟨_, _, hv⟩ := h
    simp [encRD, be16_length, hv]

theorem decRD_enc {rd : RD} (h : RDWF rd) (rest : Bytes) : decRD (encRD rd ++ rest) = rd := by
  cases rd with
  | as2 a b =>
    obtain ⟨ha, hb⟩ := h
    have h1 := rd16_be16 a ha (be32 b ++ rest)
    have h2 := rd32_be32 b hb rest
    simp [decRD, encRD, be16, be32, rd16, rd32] at h1 h2 ⊢
    omega
  | ip4 a b =>
    obtain ⟨ha, hb⟩ := h
    simp [decRD, encRD, be16, be32, rd16, rd32]
    omega
  | as4 a b =>
    obtain ⟨ha, hb⟩ := h
    simp [decRD, encRD, be16, be32, rd16, rd32]
    omega
  | unknown t v =>
    obtain ⟨h3, ht, hv⟩ := h
    have e : rd16 (be16 t ++ (v.take 6 ++ List.replicate (6 - v.length) 0 ++ rest)) = t :=
      rd16_be16 t ht _
    have hv6 : v.take 6 = v := by rw [← hv]; exact List.take_length
    simp only [decRD, encRD, List.append_assoc, e, hv, Nat.sub_self, List.replicate, List.nil_append,
      drop_be16, hv6]
    have c0 : ¬ t = 0 := by omega
    have c1 : ¬ t = 1 := by omega
    have c2 : ¬ t = 2 := by omega
    have ht6 : (v ++ rest).take 6 = v := by
      have := take_append_len v rest
      rw [hv] at this; exact this
    have e' := rd16_be16 t ht (v ++ rest)
    simp [e', c0, c1, c2, ht6]

/-! ### NLRI of the modelled families -/

def kindOf : NlriX → Kind
  | .ip _ => .ip
  | .labelled _ _ => .labelled
  | .vpn _ _ _ => .vpn

/-- what the constructors build for address width w: masked prefix of at most 8w bits, a label
    stack Serialize and Decode agree on, an RD with in-range fields, and a total bit length that
    fits the one-octet length field -/
def NlriXWF (w : Nat) : NlriX → Prop
  | .ip p => p.wfW w = true
  | .labelled ls p => LabelsWF ls ∧ p.wfW w = true ∧ 8 * labelsLen ls + p.bits ≤ 255
  | .vpn ls rd p => LabelsWF ls ∧ RDWF rd ∧ p.wfW w = true ∧ 8 * (labelsLen ls + 8) + p.bits ≤ 255

theorem LabelsWF_ne {ls : List Nat} (h : LabelsWF ls) : ls.length ≠ 0 := by
  rcases h with h | ⟨hne, _, _⟩
  · subst h; simp
  · cases ls with
    | nil => exact absurd rfl hne
    | cons a l => simp

theorem encNlriX_length {w : Nat} (hw : w ≤ 16) {n : NlriX} (h : NlriXWF w n) :
    (encNlriX n).length = nlriXLen n := by
  cases n with
  | ip p => exact encPrefix_lengthW h
  | labelled ls p =>
    obtain ⟨hl, hp, hb⟩ := h
    have h1 := encLabels_length hl
    have h2 := serPrefix_length hp
    have hbits := wfW_bits hp
    simp only [encNlriX, nlriXLen, List.length_cons, List.length_append, h1, h2, byteLen]
    have : p.bits % 256 = p.bits := by omega
    rw [this]
    have : (p.bits + 7) % 256 = p.bits + 7 := by omega
    rw [this]; omega
  | vpn ls rd p =>
    obtain ⟨hl, hr, hp, hb⟩ := h
    have h1 := encLabels_length hl
    have h2 := serPrefix_length hp
    have h3 := encRD_length hr
    have hbits := wfW_bits hp
    simp only [encNlriX, nlriXLen, List.length_cons, List.length_append, h1, h2, h3, byteLen]
    have : p.bits % 256 = p.bits := by omega
    rw [this]; omega

theorem decNlriX_enc {w : Nat} (hw : w ≤ 16) {n : NlriX} (h : NlriXWF w n) (rest : Bytes) :
    decNlriX (kindOf n) w (encNlriX n ++ rest) = some n := by
  cases n with
  | ip p =>
    simp only [kindOf, decNlriX, encNlriX, decPrefixW_enc hw h rest, Option.map]
  | labelled ls p =>
    obtain ⟨hl, hp, hb⟩ := h
    have h1 := encLabels_length hl
    have h2 := serPrefix_length hp
    have hne := LabelsWF_ne hl
    simp only [kindOf, decNlriX, encNlriX, decLabelled, List.cons_append]
    have hm : (8 * labelsLen ls + p.bits) % 256 = 8 * labelsLen ls + p.bits := Nat.mod_eq_of_lt (by omega)
    rw [hm]
    have hbl : byteLen (8 * labelsLen ls + p.bits) = labelsLen ls + byteLen p.bits := by
      unfold byteLen; omega
    have hlen : (encLabels ls ++ serPrefix p).length = labelsLen ls + byteLen p.bits := by
      simp [h1, h2]
    have c0 : ¬ ((encLabels ls ++ serPrefix p ++ rest).length < byteLen (8 * labelsLen ls + p.bits)) := by
      rw [hbl]; simp [h1, h2]
    have ht : (encLabels ls ++ serPrefix p ++ rest).take (byteLen (8 * labelsLen ls + p.bits))
        = encLabels ls ++ serPrefix p := by
      rw [hbl, ← hlen]; exact take_append_len _ _
    simp only [c0, if_false, ht, decLabels_enc hl (serPrefix p)]
    have c1 : ¬ (8 * labelsLen ls + p.bits < 8 * labelsLen ls) := by omega
    have c2 : ¬ ((encLabels ls ++ serPrefix p).length < labelsLen ls) := by rw [hlen]; omega
    have hd : (encLabels ls ++ serPrefix p).drop (labelsLen ls) = serPrefix p := by
      rw [← h1]; exact drop_append_len _ _
    have hr : (8 * labelsLen ls + p.bits - 8 * labelsLen ls) % 256 = p.bits := by
      have : 8 * labelsLen ls + p.bits - 8 * labelsLen ls = p.bits := by omega
      rw [this]; exact Nat.mod_eq_of_lt (by omega)
    have hdp := decodePrefixW_ser hp []
    simp only [List.append_nil] at hdp
    simp only [hne, c1, c2, if_false, hd, hr, hdp]
  | vpn ls rd p =>
    obtain ⟨hl, hrd, hp, hb⟩ := h
    have h1 := encLabels_length hl
    have h2 := serPrefix_length hp
    have h3 := encRD_length hrd
    simp only [kindOf, decNlriX, encNlriX, decVpn, List.cons_append]
    have hm : (8 * (labelsLen ls + 8) + p.bits) % 256 = 8 * (labelsLen ls + 8) + p.bits :=
      Nat.mod_eq_of_lt (by omega)
    rw [hm]
    have hbl : byteLen (8 * (labelsLen ls + 8) + p.bits) = labelsLen ls + 8 + byteLen p.bits := by
      unfold byteLen; omega
    have hlen : (encLabels ls ++ (encRD rd ++ serPrefix p)).length = labelsLen ls + 8 + byteLen p.bits := by
      simp [h1, h2, h3]; omega
    have c0 : ¬ ((encLabels ls ++ (encRD rd ++ serPrefix p) ++ rest).length <
        byteLen (8 * (labelsLen ls + 8) + p.bits)) := by
      rw [hbl]; simp [h1, h2, h3]; omega
    have ht : (encLabels ls ++ (encRD rd ++ serPrefix p) ++ rest).take
        (byteLen (8 * (labelsLen ls + 8) + p.bits)) = encLabels ls ++ (encRD rd ++ serPrefix p) := by
      rw [hbl, ← hlen]; exact take_append_len _ _
    simp only [c0, if_false, ht, decLabels_enc hl (encRD rd ++ serPrefix p)]
    have c1 : ¬ (8 * (labelsLen ls + 8) + p.bits < 8 * labelsLen ls) := by omega
    have c2 : ¬ ((encLabels ls ++ (encRD rd ++ serPrefix p)).length < labelsLen ls + 8) := by
      rw [hlen]; omega
    have hd : (encLabels ls ++ (encRD rd ++ serPrefix p)).drop (labelsLen ls) = encRD rd ++ serPrefix p := by
      rw [← h1]; exact drop_append_len _ _
    have hd8 : (encRD rd ++ serPrefix p).drop 8 = serPrefix p := by
      rw [← h3]; exact drop_append_len _ _
    have hr : (8 * (labelsLen ls + 8) + p.bits + 256 - 8 * (labelsLen ls + 8)) % 256 = p.bits := by
      have : 8 * (labelsLen ls + 8) + p.bits + 256 - 8 * (labelsLen ls + 8) = p.bits + 256 := by omega
      rw [this]; omega
    have hdp := decodePrefixW_ser hp []
    simp only [List.append_nil] at hdp
    simp only [c1, c2, if_false, hd, hd8, hr, hdp, decRD_enc hrd (serPrefix p)]

/-! ### the NLRI list of an MP attribute: framing -/

def PathNlriXWF (ap : Bool) (k : Kind) (w : Nat) (x : PathNlriX) : Prop :=
  kindOf x.n = k ∧ NlriXWF w x.n ∧ x.id < 4294967296 ∧ (ap = false → x.id = 0)

/-- octets one PathNLRI occupies: 4 for the path id when ADD-PATH is on, plus the NLRI's Len() -/
def pathNlriXLen (ap : Bool) (x : PathNlriX) : Nat := (if ap then 4 else 0) + nlriXLen x.n

def sumPathLens (ap : Bool) : List PathNlriX → Nat
  | [] => 0
  | x :: xs => pathNlriXLen ap x + sumPathLens ap xs

theorem encPathNlriX_length {ap : Bool} {k : Kind} {w : Nat} (hw : w ≤ 16) {x : PathNlriX}
    (h : PathNlriXWF ap k w x) : (encPathNlriX ap x).length = pathNlriXLen ap x := by
  have := encNlriX_length hw h.2.1
  cases ap <;> simp [encPathNlriX, pathNlriXLen, be32_length, this]

theorem encPathNlrisX_length {ap : Bool} {k : Kind} {w : Nat} (hw : w ≤ 16) :
    ∀ xs : List PathNlriX, (∀ x ∈ xs, PathNlriXWF ap k w x) →
      (encPathNlrisX ap xs).length = sumPathLens ap xs
  | [], _ => rfl
  | x :: xs, h => by
    simp [encPathNlrisX, sumPathLens, encPathNlriX_length hw (h x (by simp)),
      encPathNlrisX_length hw xs (fun y hy => h y (by simp [hy]))]

theorem nlriXLen_pos (n : NlriX) : 1 ≤ nlriXLen n := by
  cases n <;> simp [nlriXLen, prefixLen] <;> omega

theorem rdPathId_encX {ap : Bool} {k : Kind} {w : Nat} {x : PathNlriX} (h : PathNlriXWF ap k w x)
    (rest : Bytes) : rdPathId ap (encPathNlriX ap x ++ rest) = some (x.id, encNlriX x.n ++ rest) := by
  cases ap with
  | true =>
    have hl4 : ¬ ((be32 x.id ++ (encNlriX x.n ++ rest)).length < 4) := by simp [be32_length]
    simp only [rdPathId, encPathNlriX, if_true, List.append_assoc, hl4, if_false,
      rd32_be32 x.id h.2.2.1, drop_be32]
  | false =>
    have hid : x.id = 0 := h.2.2.2 rfl
    simp [rdPathId, encPathNlriX, hid]

theorem decNlriLoop_enc {ap : Bool} {k : Kind} {w : Nat} (hw : w ≤ 16) :
    ∀ (xs : List PathNlriX) (fuel : Nat), (∀ x ∈ xs, PathNlriXWF ap k w x) →
      (encPathNlrisX ap xs).length ≤ fuel → decNlriLoop ap k w fuel (encPathNlrisX ap xs) = some xs
  | [], fuel, _, _ => by cases fuel <;> simp [encPathNlrisX, decNlriLoop]
  | x :: xs, fuel, h, hf => by
    have hx := h x (by simp)
    have hxs : ∀ y ∈ xs, PathNlriXWF ap k w y := fun y hy => h y (by simp [hy])
    have hl := encPathNlriX_length hw hx
    have hnl := encNlriX_length hw hx.2.1
    have hpos := nlriXLen_pos x.n
    have hlen : (encPathNlrisX ap (x :: xs)).length = pathNlriXLen ap x + (encPathNlrisX ap xs).length := by
      simp [encPathNlrisX, hl]
    have hp1 : 1 ≤ pathNlriXLen ap x := by unfold pathNlriXLen; omega
    cases fuel with
    | zero => omega
    | succ fuel =>
      have ih := decNlriLoop_enc hw xs fuel hxs (by omega)
      have hne : ¬ ((encPathNlrisX ap (x :: xs)).length = 0) := by omega
      unfold decNlriLoop
      simp only [hne, if_false]
      have e : encPathNlrisX ap (x :: xs) = encPathNlriX ap x ++ encPathNlrisX ap xs := rfl
      rw [e, rdPathId_encX hx]
      have hk : k = kindOf x.n := hx.1.symm
      have hd := decNlriX_enc hw hx.2.1 (encPathNlrisX ap xs)
      rw [← hk] at hd
      have c1 : ¬ ((encNlriX x.n ++ encPathNlrisX ap xs).length < nlriXLen x.n) := by simp [hnl]
      have e2 : (encNlriX x.n ++ encPathNlrisX ap xs).drop (nlriXLen x.n) = encPathNlrisX ap xs := by
        rw [← hnl]; exact drop_append_len _ _
      simp only [hd, c1, if_false, e2, ih]

/-! ### next hop field of MP_REACH_NLRI -/

theorem list_len4 {l : Bytes} (h : l.length = 4) : ∃ a b c d, l = [a, b, c, d] := by
  match l, h with
  | [a, b, c, d], _ => exact ⟨a, b, c, d, rfl⟩

theorem list_len16 {l : Bytes} (h : l.length = 16) :
    ∃ a0 a1 a2 a3 a4 a5 a6 a7 a8 a9 a10 a11 a12 a13 a14 a15,
      l = [a0, a1, a2, a3, a4, a5, a6, a7, a8, a9, a10, a11, a12, a13, a14, a15] := by
  match l, h with
  | [a0, a1, a2, a3, a4, a5, a6, a7, a8, a9, a10, a11, a12, a13, a14, a15], _ =>
    exact ⟨a0, a1, a2, a3, a4, a5, a6, a7, a8, a9, a10, a11, a12, a13, a14, a15, rfl⟩

/-- the next hops Serialize and Decode agree on: an IPv4 address for an AFI other than IPv6, or a
    16-octet address alone or followed by a link-local one -/
def NexthopWF (afi : Nat) (nh ll : Bytes) : Prop :=
  (nh.length = 4 ∧ afi ≠ 2 ∧ ll = []) ∨
  (nh.length = 16 ∧ (ll = [] ∨ (ll.length = 16 ∧ isLinkLocal ll = true)))

theorem nexthop_roundtrip {afi safi : Nat} {nh ll : Bytes} (h : NexthopWF afi nh ll)
    (hs : safi ≠ 133 ∧ safi ≠ 134) :
    (encNexthop afi safi nh ll).length < 256 ∧ (encNexthop afi safi nh ll).length ≠ 0 ∧
    decNexthop safi (encNexthop afi safi nh ll).length (encNexthop afi safi nh ll) = some (nh, ll) := by
  obtain ⟨hs1, hs2⟩ := hs
  rcases h with ⟨h4, ha, hl⟩ | ⟨h16, hl⟩
  · obtain ⟨a, b, c, d, rfl⟩ := list_len4 h4
    subst hl
    by_cases hv : safi = 128
    · subst hv
      simp [encNexthop, decNexthop, ha, List.replicate]
    · simp [encNexthop, decNexthop, ha, hs1, hs2, hv]
  · obtain ⟨a0, a1, a2, a3, a4, a5, a6, a7, a8, a9, a10, a11, a12, a13, a14, a15, rfl⟩ := list_len16 h16
    rcases hl with hl | ⟨hl16, hll⟩
    · subst hl
      have hnl : isLinkLocal [] = false := by simp [isLinkLocal]
      by_cases hv : safi = 128
      · subst hv
        simp [encNexthop, decNexthop, as16, hnl, List.replicate]
      · simp [encNexthop, decNexthop, as16, hnl, hs1, hs2, hv]
    · obtain ⟨b0, b1, b2, b3, b4, b5, b6, b7, b8, b9, b10, b11, b12, b13, b14, b15, rfl⟩ := list_len16 hl16
      by_cases hv : safi = 128
      · subst hv
        simp [encNexthop, decNexthop, as16, hll, List.replicate]
      · simp [encNexthop, decNexthop, as16, hll, hs1, hs2, hv, List.replicate]

theorem famKind_w {afi safi : Nat} {k : Kind} {w : Nat} (h : famKind afi safi = some (k, w)) :
    w ≤ 16 ∧ safi ≠ 133 ∧ safi ≠ 134 := by
  unfold famKind at h
  split at h
  · cases h
  · by_cases h1 : safi = 1 ∨ safi = 2
    · simp [h1] at h; obtain ⟨_, hw⟩ := h; subst hw; split <;> omega
    · by_cases h2 : safi = 4
      · simp [h1, h2] at h; obtain ⟨_, hw⟩ := h; subst hw; split <;> omega
      · by_cases h3 : safi = 128 ∨ safi = 129
        · simp [h1, h2, h3] at h; obtain ⟨_, hw⟩ := h; subst hw; split <;> omega
        · simp [h1, h2, h3] at h

/-! ### the two attributes -/

/-- header part shared by both attributes: cached Flags / Length consistent with the value `v` -/
def HdrWF (typ flags length : Nat) (v : Bytes) : Prop :=
  flags < 256 ∧ length = v.length ∧ length < 65536 ∧
  (hasBit flags FLAG_EXT = true ∨ length ≤ 255) ∧ validateFlags typ flags = true

def MpUnreachWF (o : OptsX) (u : MpUnreach) : Prop :=
  u.afi < 65536 ∧ u.safi < 256 ∧ apRxFor o u.afi u.safi = apTxFor o u.afi u.safi ∧
  (∃ k w, famKind u.afi u.safi = some (k, w) ∧
    ∀ x ∈ u.nlri, PathNlriXWF (apTxFor o u.afi u.safi) k w x) ∧
  HdrWF 15 u.flags u.length (encMpUnreachVal o u)

def MpReachWF (o : OptsX) (r : MpReach) : Prop :=
  r.afi < 65536 ∧ r.safi < 256 ∧ apRxFor o r.afi r.safi = apTxFor o r.afi r.safi ∧
  NexthopWF r.afi r.nh r.ll ∧
  (∃ k w, famKind r.afi r.safi = some (k, w) ∧
    ∀ x ∈ r.nlri, PathNlriXWF (apTxFor o r.afi r.safi) k w x) ∧
  HdrWF 14 r.flags r.length (encMpReachVal o r)

theorem decMpUnreachVal_enc {o : OptsX} {u : MpUnreach} (h : MpUnreachWF o u) :
    decMpUnreachVal o u.flags (encMpUnreachVal o u).length (encMpUnreachVal o u) =
      .ok { u with length := (encMpUnreachVal o u).length } := by
  obtain ⟨ha, hs, hap, ⟨k, w, hk, hx⟩, _⟩ := h
  have hw := (famKind_w hk).1
  unfold decMpUnreachVal
  have e : encMpUnreachVal o u = be16 u.afi ++ (u.safi :: encPathNlrisX (apTxFor o u.afi u.safi) u.nlri) := by
    simp [encMpUnreachVal, Nat.mod_eq_of_lt hs]
  rw [e]
  have c0 : ¬ ((be16 u.afi ++ (u.safi :: encPathNlrisX (apTxFor o u.afi u.safi) u.nlri)).length < 3) := by
    simp [be16_length]; omega
  have g2 : (be16 u.afi ++ (u.safi :: encPathNlrisX (apTxFor o u.afi u.safi) u.nlri)).getD 2 0 = u.safi := by
    simp [be16]
  have d3 : (be16 u.afi ++ (u.safi :: encPathNlrisX (apTxFor o u.afi u.safi) u.nlri)).drop 3
      = encPathNlrisX (apTxFor o u.afi u.safi) u.nlri := by simp [be16]
  simp only [c0, if_false, rd16_be16 u.afi ha, g2, d3, hk, hap,
    decNlriLoop_enc hw u.nlri _ hx (Nat.le_refl _)]

theorem decMpReachVal_enc {o : OptsX} {r : MpReach} (h : MpReachWF o r) :
    decMpReachVal o r.flags (encMpReachVal o r).length (encMpReachVal o r) =
      .ok { r with length := (encMpReachVal o r).length } := by
  obtain ⟨ha, hs, hap, hnh, ⟨k, w, hk, hx⟩, _⟩ := h
  have hfw := famKind_w hk
  have hw := hfw.1
  obtain ⟨hn256, hn0, hdn⟩ := nexthop_roundtrip (safi := r.safi) hnh hfw.2
  unfold decMpReachVal
  generalize hN : encNexthop r.afi r.safi r.nh r.ll = N at hn256 hn0 hdn
  generalize hL : encPathNlrisX (apTxFor o r.afi r.safi) r.nlri = L
  have e : encMpReachVal o r = be16 r.afi ++ (r.safi :: N.length :: (N ++ (0 :: L))) := by
    simp [encMpReachVal, Nat.mod_eq_of_lt hs, Nat.mod_eq_of_lt hn256, hN, hL]
  rw [e]
  have c0 : ¬ ((be16 r.afi ++ (r.safi :: N.length :: (N ++ (0 :: L)))).length < 3) := by
    simp [be16_length]; omega
  have g2 : (be16 r.afi ++ (r.safi :: N.length :: (N ++ (0 :: L)))).getD 2 0 = r.safi := by simp [be16]
  have d3 : (be16 r.afi ++ (r.safi :: N.length :: (N ++ (0 :: L)))).drop 3 = N.length :: (N ++ (0 :: L)) := by
    simp [be16]
  simp only [c0, if_false, rd16_be16 r.afi ha, g2, d3]
  have c1 : ¬ ((N.length :: (N ++ (0 :: L))).length < 1) := by simp
  have g0 : (N.length :: (N ++ (0 :: L))).getD 0 0 = N.length := rfl
  have c2 : ¬ ((N.length :: (N ++ (0 :: L))).length < 1 + N.length) := by simp; omega
  have d1 : (N.length :: (N ++ (0 :: L))).drop 1 = N ++ (0 :: L) := rfl
  have tk : (N ++ (0 :: L)).take N.length = N := take_append_len _ _
  have dn : (N.length :: (N ++ (0 :: L))).drop (1 + N.length) = 0 :: L := by
    have : (N.length :: (N ++ (0 :: L))).drop (1 + N.length) = (N ++ (0 :: L)).drop N.length := by
      rw [Nat.add_comm]; rfl
    rw [this]; exact drop_append_len _ _
  simp only [c1, g0, c2, if_false, d1, tk, dn, hdn]
  have c3 : ¬ ((0 :: L).length = 0) := by simp
  have d2 : (0 :: L).drop 1 = L := rfl
  have hloop := decNlriLoop_enc hw r.nlri L.length hx (by rw [hL]; exact Nat.le_refl _)
  rw [hL] at hloop
  simp only [c3, if_false, hk, d2, hap, hloop]

/-- **decode ∘ encode** for MP_UNREACH_NLRI as an attribute, followed by arbitrary octets -/
theorem decAttrX_encMpUnreach {o : OptsX} {u : MpUnreach} (h : MpUnreachWF o u) (rest : Bytes) :
    decAttrX o (encMpUnreach o u ++ rest) = .ok (.unreach u) := by
  have hv := decMpUnreachVal_enc h
  obtain ⟨_, _, _, _, hf, hl, hlt, he, hvf⟩ := h
  unfold decAttrX encMpUnreach
  rw [decAttrHdr_enc hf (by decide) (by omega) (by rw [← hl]; exact he) hvf rest]
  simp only [show (15 : Nat) ≠ 14 by decide, if_false, if_true, hv]
  have hu : ({ u with length := (encMpUnreachVal o u).length } : MpUnreach) = u := by
    rw [← hl]
  rw [hu]

/-- **decode ∘ encode** for MP_REACH_NLRI as an attribute, followed by arbitrary octets -/
theorem decAttrX_encMpReach {o : OptsX} {r : MpReach} (h : MpReachWF o r) (rest : Bytes) :
    decAttrX o (encMpReach o r ++ rest) = .ok (.reach r) := by
  have hv := decMpReachVal_enc h
  obtain ⟨_, _, _, _, _, hf, hl, hlt, he, hvf⟩ := h
  unfold decAttrX encMpReach
  rw [decAttrHdr_enc hf (by decide) (by omega) (by rw [← hl]; exact he) hvf rest]
  simp only [if_true, hv]
  have hr : ({ r with length := (encMpReachVal o r).length } : MpReach) = r := by
    rw [← hl]
  rw [hr]

/-- Len() = octets emitted, for both attributes -/
theorem encMp_length {typ flags length : Nat} {v : Bytes} (ht : typ < 256) (h : HdrWF typ flags length v) :
    (encAttrHdr flags typ v).length = (if hasBit flags FLAG_EXT then 4 else 3) + length := by
  obtain ⟨hf, hl, hlt, he, _⟩ := h
  cases hb : hasBit flags FLAG_EXT with
  | true =>
    rw [encAttrHdr_ext hf ht (by omega) hb]; simp [be16_length, hl]; omega
  | false =>
    have : length ≤ 255 := by rcases he with he | he; (rw [hb] at he; cases he); exact he
    rw [encAttrHdr_short hf ht (by omega) hb]; simp [hl]; omega

end Wire
