import Lemmas.VrfRtcDefs
namespace VrfRtc

/-! ### index membership -/

theorem idx_mem_del (i : Idx) (k' : Nat) (p : VPath) (k : Nat) (q : VPath) :
    (k, q) ∈ i.del k' p ↔ ((k, q) ∈ i ∧ ¬ (k = k' ∧ pkey q = pkey p)) := by
  unfold Idx.del
  rw [List.mem_filter]
  simp
  intro _
  by_cases h : k = k' <;> simp [h]

theorem idx_mem_put (i : Idx) (k' : Nat) (p : VPath) (k : Nat) (q : VPath) :
    (k, q) ∈ i.put k' p ↔ ((k = k' ∧ q = p) ∨ ((k, q) ∈ i ∧ ¬ (k = k' ∧ pkey q = pkey p))) := by
  unfold Idx.put
  rw [List.mem_cons, idx_mem_del]
  simp

theorem idx_mem_putl (ks : List Nat) (i : Idx) (p : VPath) (k : Nat) (q : VPath) :
    (k, q) ∈ ks.foldl (fun acc k => acc.put k p) i ↔
      ((k ∈ ks ∧ q = p) ∨ ((k, q) ∈ i ∧ ¬ (k ∈ ks ∧ pkey q = pkey p))) := by
  induction ks generalizing i with
  | nil => simp
  | cons a ks ih =>
    rw [List.foldl_cons, ih, idx_mem_put]
    by_cases h1 : k = a <;> by_cases h2 : k ∈ ks <;> by_cases h3 : q = p <;>
      by_cases h4 : pkey q = pkey p <;> simp_all

theorem idx_mem_dell (ks : List Nat) (i : Idx) (p : VPath) (k : Nat) (q : VPath) :
    (k, q) ∈ ks.foldl (fun acc k => acc.del k p) i ↔
      ((k, q) ∈ i ∧ ¬ (k ∈ ks ∧ pkey q = pkey p)) := by
  induction ks generalizing i with
  | nil => simp
  | cons a ks ih =>
    rw [List.foldl_cons, ih, idx_mem_del]
    by_cases h1 : k = a <;> by_cases h2 : k ∈ ks <;>
      by_cases h4 : pkey q = pkey p <;> simp_all

theorem idx_mem_register (i : Idx) (p : VPath) (k : Nat) (q : VPath) :
    (k, q) ∈ i.register p ↔ ((k ∈ keys p.ecs ∧ q = p) ∨ ((k, q) ∈ i ∧ ¬ (k ∈ keys p.ecs ∧ pkey q = pkey p))) :=
  idx_mem_putl (keys p.ecs) i p k q

theorem idx_mem_unregister (i : Idx) (p : VPath) (k : Nat) (q : VPath) :
    (k, q) ∈ i.unregister p ↔ ((k, q) ∈ i ∧ ¬ (k ∈ keys p.ecs ∧ pkey q = pkey p)) :=
  idx_mem_dell (keys p.ecs) i p k q

theorem mem_byRT (i : Idx) (k : Nat) (q : VPath) : q ∈ i.byRT k ↔ (k, q) ∈ i := by
  unfold Idx.byRT
  rw [List.mem_map]
  constructor
  · rintro ⟨⟨k', q'⟩, h, rfl⟩
    rw [List.mem_filter] at h
    have : k' = k := by simpa using h.2
    subst this
    exact h.1
  · intro h
    exact ⟨(k, q), by rw [List.mem_filter]; exact ⟨h, by simp⟩, rfl⟩

/-! ### removeSlot / insertSort -/

private theorem sameSlot_symm (p q : VPath) : sameSlot p q = sameSlot q p := by
  unfold sameSlot
  rw [Bool.eq_iff_iff]
  simp only [Bool.and_eq_true, beq_iff_eq]
  constructor <;> (intro h; exact ⟨h.1.symm, h.2.symm⟩)

private theorem sameSlot_trans_eq (p q x : VPath) (h : sameSlot p q = true) : sameSlot p x = sameSlot q x := by
  unfold sameSlot at *
  simp at h
  simp [h.1, h.2]

private theorem rs_mem (l : List VPath) (p x : VPath) :
    x ∈ l ↔ (x ∈ (removeSlot l p).1 ∨ (removeSlot l p).2 = some x) := by
  induction l with
  | nil => simp [removeSlot]
  | cons q r ih =>
    unfold removeSlot
    by_cases h : sameSlot p q = true
    · simp [h]; grind
    · simp [h, ih]; grind

private theorem rs_sub (l : List VPath) (p : VPath) : List.Sublist (removeSlot l p).1 l := by
  induction l with
  | nil => simp [removeSlot]
  | cons q r ih =>
    unfold removeSlot
    by_cases h : sameSlot p q = true
    · simp [h]
    · simp [h]; exact ih

private theorem rs_old (l : List VPath) (p o : VPath) (h : (removeSlot l p).2 = some o) :
    sameSlot p o = true := by
  induction l with
  | nil => simp [removeSlot] at h
  | cons q r ih =>
    unfold removeSlot at h
    by_cases hs : sameSlot p q = true
    · simp [hs] at h; subst h; exact hs
    · simp [hs] at h; exact ih h

private theorem rs_none (l : List VPath) (p : VPath) (hl : l.Pairwise (fun a b => sameSlot a b = false)) :
    ∀ x, x ∈ (removeSlot l p).1 → sameSlot p x = false := by
  induction l with
  | nil => simp [removeSlot]
  | cons q r ih =>
    rw [List.pairwise_cons] at hl
    unfold removeSlot
    by_cases hs : sameSlot p q = true
    · simp [hs]
      intro x hx
      rw [sameSlot_trans_eq p q x hs]
      exact hl.1 x hx
    · simp [hs]
      exact ih hl.2

private theorem is_mem (l : List VPath) (p x : VPath) : x ∈ insertSort l p ↔ (x = p ∨ x ∈ l) := by
  induction l with
  | nil => simp [insertSort]
  | cons q r ih =>
    unfold insertSort
    by_cases h : q.pref < p.pref
    · simp [h]
    · simp [h, ih]; grind

private theorem is_pairwise (l : List VPath) (p : VPath)
    (hl : l.Pairwise (fun a b => sameSlot a b = false))
    (hp : ∀ x, x ∈ l → sameSlot p x = false) :
    (insertSort l p).Pairwise (fun a b => sameSlot a b = false) := by
  induction l with
  | nil => simp [insertSort]
  | cons q r ih =>
    unfold insertSort
    by_cases h : q.pref < p.pref
    · simp only [h, if_true]
      rw [List.pairwise_cons]
      exact ⟨hp, hl⟩
    · simp only [h, if_false]
      rw [List.pairwise_cons] at hl ⊢
      refine ⟨?_, ih hl.2 (fun x hx => hp x (List.mem_cons_of_mem _ hx))⟩
      intro x hx
      rw [is_mem] at hx
      cases hx with
      | inl e => subst e; rw [sameSlot_symm]; exact hp q (List.mem_cons_self ..)
      | inr hx => exact hl.1 x hx

private theorem is_head (l : List VPath) (p : VPath) : ∃ x, (insertSort l p).head? = some x := by
  cases l with
  | nil => exact ⟨p, rfl⟩
  | cons q r =>
    unfold insertSort
    by_cases h : q.pref < p.pref <;> simp [h]

private theorem rs_excl (l : List VPath) (p q : VPath) (hl : l.Pairwise (fun a b => sameSlot a b = false))
    (hq : q ∈ (removeSlot l p).1) : (removeSlot l p).2 ≠ some q := by
  intro e
  have a := rs_none l p hl q hq
  have b := rs_old l p q e
  rw [a] at b; cases b

private theorem rs_not_self (l : List VPath) (p q : VPath) (hl : l.Pairwise (fun a b => sameSlot a b = false))
    (hq : q ∈ (removeSlot l p).1) : q ≠ p := by
  intro e
  have a := rs_none l p hl q hq
  rw [e] at a
  simp [sameSlot] at a

/-! ### the new destination list -/

/-- a stored path of the announcement that is fed is the occupant of the slot the update empties -/
private theorem fresh_root (t : Tbl) (p : VPath) (h : TblWF t) (hf : Fresh t p) (n : Nat × Nat) (q : VPath)
    (hq : q ∈ t.dest n) (e : q.root = p.root) :
    n = p.nlri ∧ (removeSlot (t.dest p.nlri) p).2 = some q := by
  have f := hf.2 n q hq e
  have hn : n = p.nlri := by rw [← h.nlri_ok n q hq]; exact f.1
  subst hn
  refine ⟨rfl, ?_⟩
  rcases (rs_mem _ p q).1 hq with hr | ho
  · have a := rs_none _ p (h.slot_uniq _) q hr
    rw [f.2] at a; cases a
  · exact ho

/-- the universe of paths around one update: what is stored, and the announced path -/
private def InU (t : Tbl) (p : VPath) (wd : Bool) (q : VPath) : Prop :=
  (∃ n, q ∈ t.dest n) ∨ (wd = false ∧ q = p)

private theorem inU_inj (t : Tbl) (p : VPath) (wd : Bool) (h : TblWF t) (hf : wd = false → Fresh t p)
    (a b : VPath) (ha : InU t p wd a) (hb : InU t p wd b) (e : a.uid = b.uid) : a = b := by
  rcases ha with ⟨n, ha⟩ | ⟨hw, rfl⟩ <;> rcases hb with ⟨n', hb⟩ | ⟨hw', rfl⟩
  · exact h.uid_uniq n n' a b ha hb e
  · exact (hf hw').1 n a ha e
  · exact ((hf hw).1 n' b hb e.symm).symm
  · rfl

private theorem calc_mem (l : List VPath) (p : VPath) (wd : Bool) (x : VPath) :
    x ∈ (calcDest l p wd).1 ↔ ((wd = false ∧ x = p) ∨ x ∈ (removeSlot l p).1) := by
  unfold calcDest
  cases wd
  · simp [is_mem]
  · simp

private theorem calc_snd (l : List VPath) (p : VPath) (wd : Bool) :
    (calcDest l p wd).2 = (removeSlot l p).2 := by
  unfold calcDest
  cases wd <;> simp

private theorem calc_inU (t : Tbl) (p : VPath) (wd : Bool) (x : VPath)
    (hx : x ∈ (calcDest (t.dest p.nlri) p wd).1) : InU t p wd x := by
  rw [calc_mem] at hx
  rcases hx with hx | hx
  · exact Or.inr hx
  · exact Or.inl ⟨p.nlri, (rs_sub _ _).subset hx⟩

private theorem update_dest_eq (t : Tbl) (p : VPath) (wd : Bool) :
    (t.update p wd).dest p.nlri = (calcDest (t.dest p.nlri) p wd).1 := by
  simp [Tbl.update]

private theorem update_dest_ne (t : Tbl) (p : VPath) (wd : Bool) (n : Nat × Nat) (hn : n ≠ p.nlri) :
    (t.update p wd).dest n = t.dest n := by
  simp [Tbl.update, hn]

private theorem update_inU (t : Tbl) (p : VPath) (wd : Bool) (n : Nat × Nat) (x : VPath)
    (hx : x ∈ (t.update p wd).dest n) : InU t p wd x := by
  by_cases hn : n = p.nlri
  · subst hn; rw [update_dest_eq] at hx; exact calc_inU t p wd x hx
  · rw [update_dest_ne t p wd n hn] at hx; exact Or.inl ⟨n, hx⟩

private theorem update_mem (t : Tbl) (p : VPath) (wd : Bool) (n : Nat × Nat) (x : VPath)
    (hx : x ∈ (t.update p wd).dest n) :
    (wd = false ∧ x = p) ∨ (x ∈ t.dest n ∧ (n = p.nlri → x ∈ (removeSlot (t.dest p.nlri) p).1)) := by
  by_cases hn : n = p.nlri
  · subst hn
    rw [update_dest_eq, calc_mem] at hx
    rcases hx with hx | hx
    · exact Or.inl hx
    · exact Or.inr ⟨(rs_sub _ _).subset hx, fun _ => hx⟩
  · rw [update_dest_ne t p wd n hn] at hx
    exact Or.inr ⟨hx, fun e => absurd e hn⟩

theorem empty_wf : TblWF Tbl.empty :=
  ⟨by simp [Tbl.empty], by simp [Tbl.empty], by simp [Tbl.empty], by simp [Tbl.empty], by simp [Tbl.empty]⟩

theorem empty_idxInv : IdxInv Tbl.empty := by
  intro k q
  simp [Tbl.empty]

/-- Table.update keeps the table well formed -/
theorem update_wf (t : Tbl) (p : VPath) (wd : Bool) (h : TblWF t) (hf : wd = false → Fresh t p) :
    TblWF (t.update p wd) := by
  refine ⟨?_, ?_, ?_, ?_, ?_⟩
  · intro n x hx
    by_cases hn : n = p.nlri
    · subst hn
      rw [update_dest_eq, calc_mem] at hx
      rcases hx with ⟨_, rfl⟩ | hx
      · rfl
      · exact h.nlri_ok _ x ((rs_sub _ _).subset hx)
    · rw [update_dest_ne t p wd n hn] at hx
      exact h.nlri_ok n x hx
  · intro n n' a b ha hb e
    exact inU_inj t p wd h hf a b (update_inU t p wd n a ha) (update_inU t p wd n' b hb) e
  · intro n n' a b ha hb e
    have key : ∀ m y, (y ∈ t.dest m ∧ (m = p.nlri → y ∈ (removeSlot (t.dest p.nlri) p).1)) →
        wd = false → y.root = p.root → False := by
      intro m y hy hw er
      have f := fresh_root t p h (hf hw) m y hy.1 er
      exact rs_excl _ p y (h.slot_uniq _) (hy.2 f.1) f.2
    rcases update_mem t p wd n a ha with ⟨hw, ea⟩ | ha' <;>
      rcases update_mem t p wd n' b hb with ⟨hw', eb⟩ | hb'
    · rw [ea, eb]
    · rw [ea] at e; exact (key n' b hb' hw e.symm).elim
    · rw [eb] at e; exact (key n a ha' hw' e).elim
    · exact h.root_uniq n n' a b ha'.1 hb'.1 e
  · intro n
    by_cases hn : n = p.nlri
    · subst hn
      rw [update_dest_eq]
      have hR := (h.slot_uniq p.nlri).sublist (rs_sub (t.dest p.nlri) p)
      unfold calcDest
      cases wd
      · simp only [Bool.false_eq_true, if_false]
        exact is_pairwise _ p hR (rs_none _ p (h.slot_uniq p.nlri))
      · simpa using hR
    · rw [update_dest_ne t p wd n hn]
      exact h.slot_uniq n
  · intro n hne
    by_cases hn : n = p.nlri
    · subst hn
      simp only [Tbl.update]
      by_cases hm : p.nlri ∈ t.nlris <;> simp [hm]
    · rw [update_dest_ne t p wd n hn] at hne
      have := h.listed n hne
      simp only [Tbl.update]
      by_cases hm : p.nlri ∈ t.nlris <;> simp [hm, this]

/-! ### the index operations on a universe of paths told apart by uid -/

private def Good (U : VPath → Prop) (S : Idx) : Prop := ∀ k q, (k, q) ∈ S → U q ∧ k ∈ keys q.ecs

private def UInj (U : VPath → Prop) : Prop := ∀ a b, U a → U b → a.uid = b.uid → a = b

/-- no entry of another path has the index key of `x` -/
private def Sep (S : Idx) (x : VPath) : Prop := ∀ k q, (k, q) ∈ S → pkey q = pkey x → q = x

private theorem unreg_good (U : VPath → Prop) (S : Idx) (x : VPath) (hS : Good U S) : Good U (S.unregister x) := by
  intro k q h
  rw [idx_mem_unregister] at h
  exact hS k q h.1

private theorem unreg_mem (U : VPath → Prop) (S : Idx) (x : VPath) (hS : Good U S) (hs : Sep S x)
    (k : Nat) (q : VPath) : (k, q) ∈ S.unregister x ↔ ((k, q) ∈ S ∧ q ≠ x) := by
  rw [idx_mem_unregister]
  constructor
  · rintro ⟨h1, h2⟩
    refine ⟨h1, ?_⟩
    rintro rfl
    exact h2 ⟨(hS k q h1).2, rfl⟩
  · rintro ⟨h1, h2⟩
    refine ⟨h1, ?_⟩
    rintro ⟨_, e⟩
    exact h2 (hs k q h1 e)

private theorem reg_good (U : VPath → Prop) (S : Idx) (x : VPath) (hS : Good U S) (hx : U x) :
    Good U (S.register x) := by
  intro k q h
  rw [idx_mem_register] at h
  rcases h with ⟨hk, rfl⟩ | ⟨h1, _⟩
  · exact ⟨hx, hk⟩
  · exact hS k q h1

private theorem reg_mem (U : VPath → Prop) (S : Idx) (x : VPath) (hS : Good U S) (hs : Sep S x)
    (k : Nat) (q : VPath) :
    (k, q) ∈ S.register x ↔ ((k ∈ keys q.ecs ∧ q = x) ∨ ((k, q) ∈ S ∧ q ≠ x)) := by
  rw [idx_mem_register]
  constructor
  · rintro (⟨hk, rfl⟩ | ⟨h1, h2⟩)
    · exact Or.inl ⟨hk, rfl⟩
    · by_cases e : q = x
      · subst e; exact Or.inl ⟨(hS k q h1).2, rfl⟩
      · exact Or.inr ⟨h1, e⟩
  · rintro (⟨hk, rfl⟩ | ⟨h1, h2⟩)
    · exact Or.inl ⟨hk, rfl⟩
    · refine Or.inr ⟨h1, ?_⟩
      rintro ⟨_, e⟩
      exact h2 (hs k q h1 e)

private theorem uid_ne_iff (U : VPath → Prop) (hU : UInj U) (oh : Option VPath) (q : VPath)
    (hoh : ∀ x, oh = some x → U x) (hq : U q) : (uidOf oh != some q.uid) = true ↔ oh ≠ some q := by
  cases oh with
  | none => simp [uidOf]
  | some x =>
    simp only [uidOf, Option.map_some, bne_iff_ne, ne_eq, Option.some.injEq]
    constructor
    · intro h e; subst e; exact h rfl
    · intro h e; exact h (hU x q (hoh x rfl) hq e)

private theorem uid_eq_iff (U : VPath → Prop) (hU : UInj U) (oh : Option VPath) (q : VPath)
    (hoh : ∀ x, oh = some x → U x) (hq : U q) : (uidOf oh == some q.uid) = true ↔ oh = some q := by
  cases oh with
  | none => simp [uidOf]
  | some x =>
    simp only [uidOf, Option.map_some, beq_iff_eq, Option.some.injEq]
    constructor
    · intro e; exact hU x q (hoh x rfl) hq e
    · intro e; rw [e]

/-! the four stages of updateIdx -/

private def u1 (i : Idx) (oldPath : Option VPath) : Idx :=
  match oldPath with
  | some o => i.unregister o
  | none => i

private def u2 (i1 : Idx) (oldBest newBest oldPath : Option VPath) : Idx :=
  match oldBest with
  | some ob =>
    if uidOf newBest != some ob.uid && uidOf oldPath != some ob.uid && ob.pathId == 0 then i1.unregister ob
    else i1
  | none => i1

private def u3 (i2 : Idx) (p : VPath) (wd : Bool) : Idx := if !wd && p.pathId != 0 then i2.register p else i2

private def u4 (i3 : Idx) (oldBest newBest oldPath : Option VPath) : Idx :=
  match newBest with
  | some nb => if uidOf oldBest != some nb.uid || uidOf oldPath == some nb.uid then i3.register nb else i3
  | none => i3

private theorem updateIdx_eq (i : Idx) (oldL newL : List VPath) (p : VPath) (wd : Bool) (op : Option VPath) :
    updateIdx i oldL newL p wd op =
      u4 (u3 (u2 (u1 i op) oldL.head? newL.head? op) p wd) oldL.head? newL.head? op := rfl

private theorem u1_good (U : VPath → Prop) (S : Idx) (op : Option VPath) (hS : Good U S) : Good U (u1 S op) := by
  cases op with
  | none => exact hS
  | some o => exact unreg_good U S o hS

private theorem u1_sub (S : Idx) (op : Option VPath) (k : Nat) (q : VPath) (hm : (k, q) ∈ u1 S op) :
    (k, q) ∈ S := by
  cases op with
  | none => exact hm
  | some o => exact ((idx_mem_unregister S o k q).1 hm).1

private theorem u1_mem (U : VPath → Prop) (S : Idx) (op : Option VPath) (hS : Good U S)
    (hs : ∀ x, op = some x → Sep S x) (k : Nat) (q : VPath) :
    (k, q) ∈ u1 S op ↔ ((k, q) ∈ S ∧ op ≠ some q) := by
  cases op with
  | none => simp [u1]
  | some o =>
    simp only [u1]
    rw [unreg_mem U S o hS (hs o rfl)]
    simp [eq_comm]

private theorem u2_good (U : VPath → Prop) (S : Idx) (oh nh op : Option VPath) (hS : Good U S) :
    Good U (u2 S oh nh op) := by
  cases oh with
  | none => exact hS
  | some ob =>
    simp only [u2]
    split
    · exact unreg_good U S ob hS
    · exact hS

private theorem u2_sub (S : Idx) (oh nh op : Option VPath) (k : Nat) (q : VPath)
    (hm : (k, q) ∈ u2 S oh nh op) : (k, q) ∈ S := by
  cases oh with
  | none => exact hm
  | some ob =>
    simp only [u2] at hm
    split at hm
    · exact ((idx_mem_unregister S ob k q).1 hm).1
    · exact hm

private theorem u2_mem (U : VPath → Prop) (hU : UInj U) (S : Idx) (oh nh op : Option VPath) (hS : Good U S)
    (hs : ∀ x, oh = some x → Sep S x)
    (hoh : ∀ x, oh = some x → U x) (hnh : ∀ x, nh = some x → U x) (hop : ∀ x, op = some x → U x)
    (k : Nat) (q : VPath) :
    (k, q) ∈ u2 S oh nh op ↔
      ((k, q) ∈ S ∧ ¬ (oh = some q ∧ nh ≠ some q ∧ op ≠ some q ∧ q.pathId = 0)) := by
  cases oh with
  | none => simp [u2]
  | some ob =>
    have hob := hoh ob rfl
    have e1 := uid_ne_iff U hU nh ob hnh hob
    have e2 := uid_ne_iff U hU op ob hop hob
    simp only [u2]
    by_cases c : (uidOf nh != some ob.uid && uidOf op != some ob.uid && ob.pathId == 0) = true
    · rw [if_pos c, unreg_mem U S ob hS (hs ob rfl)]
      simp only [Bool.and_eq_true, beq_iff_eq] at c
      have c1 := e1.1 c.1.1
      have c2 := e2.1 c.1.2
      have c3 := c.2
      constructor
      · rintro ⟨h1, h2⟩
        refine ⟨h1, ?_⟩
        rintro ⟨e, _⟩
        exact h2 (Option.some.inj e).symm
      · rintro ⟨h1, h2⟩
        refine ⟨h1, ?_⟩
        rintro rfl
        exact h2 ⟨rfl, c1, c2, c3⟩
    · rw [if_neg c]
      simp only [Bool.and_eq_true, beq_iff_eq] at c
      constructor
      · intro h1
        refine ⟨h1, ?_⟩
        rintro ⟨e, h2, h3, h4⟩
        have e' := Option.some.inj e
        subst e'
        exact c ⟨⟨e1.2 h2, e2.2 h3⟩, h4⟩
      · exact fun h => h.1

private theorem u3_good (U : VPath → Prop) (S : Idx) (p : VPath) (wd : Bool) (hS : Good U S)
    (hp : wd = false → U p) : Good U (u3 S p wd) := by
  unfold u3
  split
  · rename_i c
    simp only [Bool.and_eq_true, Bool.not_eq_true'] at c
    exact reg_good U S p hS (hp c.1)
  · exact hS

private theorem u3_sub (S : Idx) (p : VPath) (wd : Bool) (k : Nat) (q : VPath)
    (hm : (k, q) ∈ u3 S p wd) : (wd = false ∧ q = p) ∨ (k, q) ∈ S := by
  unfold u3 at hm
  split at hm
  · rename_i c
    simp only [Bool.and_eq_true, Bool.not_eq_true'] at c
    rcases (idx_mem_register S p k q).1 hm with h1 | h1
    · exact Or.inl ⟨c.1, h1.2⟩
    · exact Or.inr h1.1
  · exact Or.inr hm

private theorem u3_mem (U : VPath → Prop) (S : Idx) (p : VPath) (wd : Bool) (hS : Good U S)
    (hs : wd = false → Sep S p) (k : Nat) (q : VPath) :
    (k, q) ∈ u3 S p wd ↔
      ((wd = false ∧ p.pathId ≠ 0 ∧ k ∈ keys q.ecs ∧ q = p) ∨
       ((k, q) ∈ S ∧ ¬ (wd = false ∧ p.pathId ≠ 0 ∧ q = p))) := by
  unfold u3
  by_cases c : (!wd && p.pathId != 0) = true
  · rw [if_pos c]
    simp only [Bool.and_eq_true, Bool.not_eq_true', bne_iff_ne, ne_eq] at c
    rw [reg_mem U S p hS (hs c.1)]
    simp [c.1, c.2]
  · rw [if_neg c]
    simp only [Bool.and_eq_true, Bool.not_eq_true', bne_iff_ne, ne_eq] at c
    constructor
    · intro h; exact Or.inr ⟨h, fun h' => c ⟨h'.1, h'.2.1⟩⟩
    · rintro (h | h)
      · exact absurd ⟨h.1, h.2.1⟩ c
      · exact h.1

private theorem u4_good (U : VPath → Prop) (S : Idx) (oh nh op : Option VPath) (hS : Good U S)
    (hnh : ∀ x, nh = some x → U x) : Good U (u4 S oh nh op) := by
  cases nh with
  | none => exact hS
  | some nb =>
    simp only [u4]
    split
    · exact reg_good U S nb hS (hnh nb rfl)
    · exact hS

private theorem u4_mem (U : VPath → Prop) (hU : UInj U) (S : Idx) (oh nh op : Option VPath) (hS : Good U S)
    (hs : ∀ x, nh = some x → Sep S x)
    (hoh : ∀ x, oh = some x → U x) (hnh : ∀ x, nh = some x → U x) (hop : ∀ x, op = some x → U x)
    (k : Nat) (q : VPath) :
    (k, q) ∈ u4 S oh nh op ↔
      ((nh = some q ∧ (oh ≠ some q ∨ op = some q) ∧ k ∈ keys q.ecs) ∨
       ((k, q) ∈ S ∧ ¬ (nh = some q ∧ (oh ≠ some q ∨ op = some q)))) := by
  cases nh with
  | none => simp [u4]
  | some nb =>
    have hnb := hnh nb rfl
    have e1 := uid_ne_iff U hU oh nb hoh hnb
    have e2 := uid_eq_iff U hU op nb hop hnb
    have ec : (uidOf oh != some nb.uid || uidOf op == some nb.uid) = true ↔ (oh ≠ some nb ∨ op = some nb) := by
      rw [Bool.or_eq_true, e1, e2]
    simp only [u4]
    by_cases c : (uidOf oh != some nb.uid || uidOf op == some nb.uid) = true
    · rw [if_pos c, reg_mem U S nb hS (hs nb rfl)]
      have c1 := ec.1 c
      constructor
      · rintro (⟨hk, rfl⟩ | ⟨h1, h2⟩)
        · exact Or.inl ⟨rfl, c1, hk⟩
        · refine Or.inr ⟨h1, ?_⟩
          rintro ⟨e, _⟩
          exact h2 (Option.some.inj e).symm
      · rintro (⟨e, _, hk⟩ | ⟨h1, h2⟩)
        · exact Or.inl ⟨hk, (Option.some.inj e).symm⟩
        · refine Or.inr ⟨h1, ?_⟩
          rintro rfl
          exact h2 ⟨rfl, c1⟩
    · rw [if_neg c]
      constructor
      · intro h1
        refine Or.inr ⟨h1, ?_⟩
        rintro ⟨e, h2⟩
        have e' := Option.some.inj e
        subst e'
        exact c (ec.2 h2)
      · rintro (⟨e, h2, _⟩ | ⟨h1, _⟩)
        · have e' := Option.some.inj e
          subst e'
          exact absurd (ec.2 h2) c
        · exact h1

private theorem head_mem (l : List VPath) (x : VPath) (h : l.head? = some x) : x ∈ l := by
  cases l with
  | nil => simp at h
  | cons a r => simp at h; subst h; exact List.mem_cons_self ..

private theorem update_idx_eq (t : Tbl) (p : VPath) (wd : Bool) :
    (t.update p wd).idx =
      updateIdx t.idx (t.dest p.nlri) (calcDest (t.dest p.nlri) p wd).1 p wd
        (calcDest (t.dest p.nlri) p wd).2 := rfl

/-- Table.update keeps the RT index exact -/
theorem update_idxInv (t : Tbl) (p : VPath) (wd : Bool) (h : TblWF t) (hi : IdxInv t)
    (hf : wd = false → Fresh t p) : IdxInv (t.update p wd) := by
  intro k q
  have hU : UInj (InU t p wd) := inU_inj t p wd h hf
  have g0 : Good (InU t p wd) t.idx := by
    intro k q hm
    have := (hi k q).1 hm
    exact ⟨Or.inl ⟨_, this.1⟩, this.2.1⟩
  have hoh : ∀ x, (t.dest p.nlri).head? = some x → InU t p wd x :=
    fun x hx => Or.inl ⟨_, head_mem _ x hx⟩
  have hnh : ∀ x, (calcDest (t.dest p.nlri) p wd).1.head? = some x → InU t p wd x :=
    fun x hx => calc_inU t p wd x (head_mem _ x hx)
  have hop : ∀ x, (calcDest (t.dest p.nlri) p wd).2 = some x → InU t p wd x := by
    intro x hx
    rw [calc_snd] at hx
    exact Or.inl ⟨_, (rs_mem _ p x).2 (Or.inr hx)⟩
  have hp : wd = false → InU t p wd p := fun hw => Or.inr ⟨hw, rfl⟩
  have hwf' := update_wf t p wd h hf
  have st : ∀ k q, (k, q) ∈ t.idx → q ∈ t.dest q.nlri := fun k q hm => ((hi k q).1 hm).1
  have s1 : ∀ x, (calcDest (t.dest p.nlri) p wd).2 = some x → Sep t.idx x := by
    intro x hx k' q' hm e
    have hx' : x ∈ t.dest p.nlri := by
      rw [calc_snd] at hx; exact (rs_mem _ p x).2 (Or.inr hx)
    exact h.root_uniq _ _ q' x (st k' q' hm) hx' (congrArg Prod.fst e)
  have g1 := u1_good (InU t p wd) t.idx (calcDest (t.dest p.nlri) p wd).2 g0
  have m1 := u1_mem (InU t p wd) t.idx (calcDest (t.dest p.nlri) p wd).2 g0 s1
  have s2 : ∀ x, (t.dest p.nlri).head? = some x →
      Sep (u1 t.idx (calcDest (t.dest p.nlri) p wd).2) x := by
    intro x hx k' q' hm e
    exact h.root_uniq _ _ q' x (st k' q' (u1_sub _ _ _ _ hm)) (head_mem _ x hx) (congrArg Prod.fst e)
  have g2 := u2_good (InU t p wd) _ (t.dest p.nlri).head? (calcDest (t.dest p.nlri) p wd).1.head?
    (calcDest (t.dest p.nlri) p wd).2 g1
  have m2 := u2_mem (InU t p wd) hU _ (t.dest p.nlri).head? (calcDest (t.dest p.nlri) p wd).1.head?
    (calcDest (t.dest p.nlri) p wd).2 g1 s2 hoh hnh hop k q
  have s3 : wd = false → Sep (u2 (u1 t.idx (calcDest (t.dest p.nlri) p wd).2) (t.dest p.nlri).head?
      (calcDest (t.dest p.nlri) p wd).1.head? (calcDest (t.dest p.nlri) p wd).2) p := by
    intro hw k' q' hm e
    have hm1 := (m1 k' q').1 (u2_sub _ _ _ _ _ _ hm)
    have f := fresh_root t p h (hf hw) _ q' (st k' q' hm1.1) (congrArg Prod.fst e)
    rw [calc_snd] at hm1
    exact absurd f.2 hm1.2
  have g3 := u3_good (InU t p wd) _ p wd g2 hp
  have m3 := u3_mem (InU t p wd) _ p wd g2 s3 k q
  have s4 : ∀ x, (calcDest (t.dest p.nlri) p wd).1.head? = some x →
      Sep (u3 (u2 (u1 t.idx (calcDest (t.dest p.nlri) p wd).2) (t.dest p.nlri).head?
        (calcDest (t.dest p.nlri) p wd).1.head? (calcDest (t.dest p.nlri) p wd).2) p wd) x := by
    intro x hx k' q' hm e
    have hxn : x ∈ (t.update p wd).dest p.nlri := by
      rw [update_dest_eq]; exact head_mem _ x hx
    have hqn : q' ∈ (t.update p wd).dest q'.nlri := by
      rcases u3_sub _ _ _ _ _ hm with ⟨hw, eq⟩ | hm2
      · rw [eq, update_dest_eq, calc_mem]; exact Or.inl ⟨hw, rfl⟩
      · have hm1 := (m1 k' q').1 (u2_sub _ _ _ _ _ _ hm2)
        have hs := st k' q' hm1.1
        by_cases hn : q'.nlri = p.nlri
        · rw [hn, update_dest_eq, calc_mem]
          rw [hn] at hs
          rcases (rs_mem _ p q').1 hs with hr | ho
          · exact Or.inr hr
          · rw [calc_snd] at hm1; exact absurd ho hm1.2
        · rw [update_dest_ne t p wd _ hn]; exact hs
    exact hwf'.root_uniq _ _ q' x hqn hxn (congrArg Prod.fst e)
  have m4 := u4_mem (InU t p wd) hU _ (t.dest p.nlri).head? (calcDest (t.dest p.nlri) p wd).1.head?
    (calcDest (t.dest p.nlri) p wd).2 g3 s4 hoh hnh hop k q
  rw [update_idx_eq, updateIdx_eq, m4, m3, m2, m1 k q, hi k q]
  -- facts about the lists
  have fL := rs_mem (t.dest p.nlri) p q
  have fN := calc_mem (t.dest p.nlri) p wd q
  have fS := calc_snd (t.dest p.nlri) p wd
  have fD : q ∈ (removeSlot (t.dest p.nlri) p).1 → (removeSlot (t.dest p.nlri) p).2 ≠ some q :=
    rs_excl _ p q (h.slot_uniq p.nlri)
  have fP : q ∈ (removeSlot (t.dest p.nlri) p).1 → q ≠ p := rs_not_self _ p q (h.slot_uniq p.nlri)
  have fhl := head_mem (t.dest p.nlri) q
  have fhn := head_mem (calcDest (t.dest p.nlri) p wd).1 q
  rw [fS] at m2 m3 m4 ⊢
  by_cases hq : q.nlri = p.nlri
  · rw [hq, update_dest_eq]
    grind
  · rw [update_dest_ne t p wd q.nlri hq]
    have n1 : q ∉ t.dest p.nlri := fun hm => hq (h.nlri_ok _ q hm)
    have n2 : q ≠ p := fun e => hq (by rw [e])
    grind

theorem reach_inv (t : Tbl) (h : Reach t) : TblWF t ∧ IdxInv t := by
  induction h with
  | empty => exact ⟨empty_wf, empty_idxInv⟩
  | step t p wd _ hf ih => exact ⟨update_wf t p wd ih.1 hf, update_idxInv t p wd ih.1 ih.2 hf⟩

end VrfRtc
