import Model.As4
/-! Helper lemmas for Props/C14.lean (core only). -/
namespace As4

/-! ### basic facts -/

theorem validSeg_iff (s : Seg) :
    validSeg s = true ↔ (1 ≤ s.typ ∧ s.typ ≤ 4 ∧ 1 ≤ s.as.length ∧ s.as.length ≤ 255) := by
  unfold validSeg
  simp [Bool.and_eq_true, decide_eq_true_eq, and_assoc]

theorem asLen_append (a b : Path) : asLen (a ++ b) = asLen a + asLen b := by
  induction a with
  | nil => simp [asLen]
  | cons s r ih => simp [asLen, ih, Nat.add_assoc]

theorem asLen_reverse (a : Path) : asLen a.reverse = asLen a := by
  induction a with
  | nil => simp [asLen]
  | cons s r ih => simp [asLen_append, asLen, ih, Nat.add_comm]

theorem flat_append (a b : Path) : flat (a ++ b) = flat a ++ flat b := by
  induction a with
  | nil => simp [flat]
  | cons s r ih => simp [flat, ih, List.append_assoc]

theorem Wire_nil : Wire [] := by intro s h; cases h

theorem Wire_cons {s : Seg} {r : Path} : Wire (s :: r) ↔ validSeg s = true ∧ Wire r := by
  unfold Wire; simp

theorem Wire_append {a b : Path} : Wire (a ++ b) ↔ Wire a ∧ Wire b := by
  unfold Wire
  constructor
  · intro h
    exact ⟨fun s hs => h s (List.mem_append.mpr (Or.inl hs)),
           fun s hs => h s (List.mem_append.mpr (Or.inr hs))⟩
  · intro ⟨ha, hb⟩ s hs
    rcases List.mem_append.mp hs with h | h
    · exact ha s h
    · exact hb s h

theorem Wire_reverse {a : Path} : Wire a.reverse ↔ Wire a := by
  unfold Wire; simp

/-! ### the merge loop -/

theorem mergeStep_flat (acc : Path) (s : Seg) :
    flat (mergeStep acc s).reverse = flat acc.reverse ++ flatSeg s := by
  unfold mergeStep
  cases acc with
  | nil => simp [flat]
  | cons last rest =>
    simp only
    split
    · rename_i h
      obtain ⟨hs, hl⟩ := h
      split
      · simp only [List.reverse_cons, flat_append, flat, flatSeg, hs, hl, if_true,
          List.append_nil, List.append_assoc, List.map_append]
        rw [← List.append_assoc ((List.map Item.one last.as)), ← List.map_append,
          ← List.map_append, List.append_assoc, List.take_append_drop, List.map_append]
      · simp only [List.reverse_cons, flat_append, flat, flatSeg, hs, hl, if_true,
          List.append_nil, List.append_assoc, List.map_append]
    · simp [flat_append, flat]

theorem foldl_merge_flat (a4 acc : Path) :
    flat (a4.foldl mergeStep acc).reverse = flat acc.reverse ++ flat a4 := by
  induction a4 generalizing acc with
  | nil => simp [flat]
  | cons s r ih => simp [List.foldl, ih, mergeStep_flat, flat, List.append_assoc]

theorem merge_flat (kept a4 : Path) : flat (merge kept a4) = flat kept ++ flat a4 := by
  unfold merge
  rw [foldl_merge_flat]; simp

theorem mergeStep_asLen (acc : Path) (s : Seg) :
    asLen (mergeStep acc s) = asLen acc + segLen s := by
  unfold mergeStep
  cases acc with
  | nil => simp [asLen]
  | cons last rest =>
    simp only
    split
    · rename_i h
      obtain ⟨hs, hl⟩ := h
      split
      · simp only [asLen, segLen, hs, hl, if_true, List.length_append, List.length_take,
          List.length_drop]
        omega
      · simp only [asLen, segLen, hs, hl, if_true, List.length_append]
        omega
    · simp [asLen]; omega

theorem foldl_merge_asLen (a4 acc : Path) :
    asLen (a4.foldl mergeStep acc) = asLen acc + asLen a4 := by
  induction a4 generalizing acc with
  | nil => simp [asLen]
  | cons s r ih => simp [List.foldl, ih, mergeStep_asLen, asLen, Nat.add_assoc]

theorem merge_asLen (kept a4 : Path) : asLen (merge kept a4) = asLen kept + asLen a4 := by
  unfold merge
  rw [asLen_reverse, foldl_merge_asLen, asLen_reverse]

theorem mergeStep_wire (acc : Path) (s : Seg) (ha : Wire acc) (hs : validSeg s = true) :
    Wire (mergeStep acc s) := by
  unfold mergeStep
  cases acc with
  | nil => exact Wire_cons.mpr ⟨hs, Wire_nil⟩
  | cons last rest =>
    obtain ⟨hl, hr⟩ := Wire_cons.mp ha
    have hs' := (validSeg_iff s).mp hs
    have hl' := (validSeg_iff last).mp hl
    simp only
    split
    · split
      · rename_i hgt
        refine Wire_cons.mpr ⟨?_, Wire_cons.mpr ⟨?_, hr⟩⟩
        · rw [validSeg_iff]; simp only [List.length_drop]; omega
        · rw [validSeg_iff]; simp only [List.length_append, List.length_take]; omega
      · rename_i hle
        refine Wire_cons.mpr ⟨?_, hr⟩
        rw [validSeg_iff]; simp only [List.length_append]; omega
    · exact Wire_cons.mpr ⟨hs, ha⟩

theorem foldl_merge_wire (a4 acc : Path) (ha : Wire acc) (h4 : Wire a4) :
    Wire (a4.foldl mergeStep acc) := by
  induction a4 generalizing acc with
  | nil => simpa using ha
  | cons s r ih =>
    obtain ⟨hs, hr⟩ := Wire_cons.mp h4
    exact ih _ (mergeStep_wire acc s ha hs) hr

theorem merge_wire (kept a4 : Path) (hk : Wire kept) (h4 : Wire a4) : Wire (merge kept a4) := by
  unfold merge
  exact Wire_reverse.mpr (foldl_merge_wire a4 _ (Wire_reverse.mpr hk) h4)

/-! ### the keep walk -/

theorem segLen_le_length (s : Seg) (h : validSeg s = true) : segLen s ≤ s.as.length := by
  have := (validSeg_iff s).mp h
  unfold segLen; split
  · omega
  · split <;> omega

theorem keep_wire (k : Nat) (a : Path) (ha : Wire a) : Wire (keep k a) := by
  induction a generalizing k with
  | nil => simpa [keep] using Wire_nil
  | cons s r ih =>
    obtain ⟨hs, hr⟩ := Wire_cons.mp ha
    unfold keep
    split
    · exact Wire_cons.mpr ⟨hs, ih k hr⟩
    · split
      · exact Wire_nil
      · split
        · exact Wire_cons.mpr ⟨hs, ih _ hr⟩
        · rename_i h0 hk hlt
          have hv := (validSeg_iff s).mp hs
          have hle := segLen_le_length s hs
          refine Wire_cons.mpr ⟨?_, Wire_nil⟩
          rw [validSeg_iff]; simp only [List.length_take]; omega

theorem keep_asLen (k : Nat) (a : Path) (hk : k ≤ asLen a) : asLen (keep k a) = k := by
  induction a generalizing k with
  | nil => simp [asLen] at hk; simp [keep, asLen, hk]
  | cons s r ih =>
    unfold keep
    simp only [asLen] at hk
    split
    · rename_i h0
      simp only [asLen, h0, Nat.zero_add]
      exact ih k (by omega)
    · split
      · rename_i hk0; simp [asLen, hk0]
      · split
        · rename_i hle
          simp only [asLen]
          rw [ih (k - segLen s) (by omega)]; omega
        · rename_i h0 hk0 hlt
          -- only an AS_SEQUENCE can be longer than a positive count
          have h2 : s.typ = 2 := by
            unfold segLen at hlt h0
            split at hlt
            · assumption
            · split at hlt <;> omega
          simp only [asLen, segLen, h2, if_true, List.length_take, Nat.add_zero]
          simp only [segLen, h2, if_true] at hlt
          omega

/-- the kept part is a leading part of the AS_PATH, as a sequence of items -/
theorem keep_flat_prefix (k : Nat) (a : Path) : ∃ t, flat a = flat (keep k a) ++ t := by
  induction a generalizing k with
  | nil => exact ⟨[], by simp [keep, flat]⟩
  | cons s r ih =>
    unfold keep
    split
    · obtain ⟨t, ht⟩ := ih k
      exact ⟨t, by simp [flat, ht, List.append_assoc]⟩
    · split
      · exact ⟨flat (s :: r), by simp [flat]⟩
      · split
        · obtain ⟨t, ht⟩ := ih (k - segLen s)
          exact ⟨t, by simp [flat, ht, List.append_assoc]⟩
        · rename_i h0 hk0 hlt
          have h2 : s.typ = 2 := by
            unfold segLen at hlt h0
            split at hlt
            · assumption
            · split at hlt <;> omega
          refine ⟨(s.as.drop k).map Item.one ++ flat r, ?_⟩
          simp only [flat, flatSeg, h2, if_true, List.append_nil]
          rw [← List.append_assoc, ← List.map_append, List.take_append_drop]

theorem keep_zero_confed (c q : Path) (hc : ∀ s ∈ c, segLen s = 0)
    (hq : ∀ s ∈ q, segLen s ≠ 0) : keep 0 (c ++ q) = c := by
  induction c with
  | nil =>
    cases q with
    | nil => simp [keep]
    | cons s r =>
      have := hq s (List.mem_cons_self ..)
      simp [keep, this]
  | cons s r ih =>
    have h0 := hc s (List.mem_cons_self ..)
    simp only [List.cons_append, keep, h0, if_true]
    rw [ih (fun t ht => hc t (List.mem_cons_of_mem _ ht))]

/-! ### serialisation and validateAsPathValueBytes -/

theorem beBytes_length (w v : Nat) : (beBytes w v).length = w := by
  induction w generalizing v with
  | zero => simp [beBytes]
  | succ n ih => simp [beBytes, ih]

theorem flatMap_beBytes_length (w : Nat) (as : List Nat) :
    (as.flatMap (beBytes w)).length = w * as.length := by
  induction as with
  | nil => simp
  | cons a r ih => simp [List.flatMap_cons, beBytes_length, ih, Nat.mul_succ]; omega

theorem serSegs_length (w : Nat) (p : Path) : (serSegs w p).length = valueLen w p := by
  induction p with
  | nil => simp [serSegs, valueLen]
  | cons s r ih =>
    simp only [serSegs, valueLen, List.length_append, List.length_cons, List.length_nil,
      flatMap_beBytes_length, ih]

theorem valueLen_even (w : Nat) (hw : w % 2 = 0) (p : Path) : valueLen w p % 2 = 0 := by
  induction p with
  | nil => simp [valueLen]
  | cons s r ih =>
    simp only [valueLen]
    have : (w * s.as.length) % 2 = 0 := by
      rw [Nat.mul_mod, hw]; simp
    omega

theorem validateLoop_ser (w : Nat) (p : Path) (h : Wire p) (f : Nat)
    (hf : (serSegs w p).length ≤ f) : validateLoop w f (serSegs w p) = true := by
  induction p generalizing f with
  | nil => cases f <;> simp [serSegs, validateLoop]
  | cons s r ih =>
    obtain ⟨hs, hr⟩ := Wire_cons.mp h
    have hv := (validSeg_iff s).mp hs
    have ht : s.typ % 256 = s.typ := Nat.mod_eq_of_lt (by omega)
    have hn : s.as.length % 256 = s.as.length := Nat.mod_eq_of_lt (by omega)
    have hlen := serSegs_length w (s :: r)
    cases f with
    | zero =>
      simp only [serSegs, List.length_append, List.length_cons] at hf
      omega
    | succ f' =>
      have hbody := flatMap_beBytes_length w s.as
      simp only [serSegs, ht, hn, List.cons_append, List.nil_append, validateLoop]
      have h1 : ¬ (s.typ = 0 ∨ s.typ > 4) := by omega
      have h2 : ¬ (s.as.length = 0) := by omega
      have h3 : ¬ (s.as.length * w > (s.as.flatMap (beBytes w) ++ serSegs w r).length) := by
        rw [List.length_append, hbody, Nat.mul_comm]; omega
      rw [if_neg h1, if_neg h2, if_neg h3]
      have hd : (s.as.flatMap (beBytes w) ++ serSegs w r).drop (s.as.length * w) = serSegs w r := by
        apply List.drop_left'
        rw [hbody, Nat.mul_comm]
      rw [hd]
      apply ih hr
      simp only [serSegs, List.length_append, List.length_cons, List.length_nil] at hf
      omega

theorem validateBytes_ser (w : Nat) (hw : w % 2 = 0) (p : Path) (h : Wire p) :
    validateBytes w (serSegs w p) = true := by
  unfold validateBytes
  have he : (serSegs w p).length % 2 = 0 := by rw [serSegs_length]; exact valueLen_even w hw p
  simp only [he, ne_eq, not_true_eq_false, if_false]
  exact validateLoop_ser w p h _ (Nat.le_refl _)

/-! ### the down conversion -/

theorem down2_append (a b : Path) : down2 (a ++ b) = down2 a ++ down2 b := by
  simp [down2]

theorem segLen_down2 (s : Seg) : segLen ⟨s.typ, s.as.map trans⟩ = segLen s := by
  simp [segLen]

theorem asLen_down2 (p : Path) : asLen (down2 p) = asLen p := by
  induction p with
  | nil => simp [down2, asLen]
  | cons s r ih =>
    simp only [down2, List.map_cons, asLen, segLen_down2]
    simp only [down2] at ih
    rw [ih]

theorem validSeg_down2 (s : Seg) : validSeg ⟨s.typ, s.as.map trans⟩ = validSeg s := by
  simp [validSeg]

theorem Wire_down2 {p : Path} (h : Wire p) : Wire (down2 p) := by
  intro s hs
  simp only [down2, List.mem_map] at hs
  obtain ⟨t, ht, rfl⟩ := hs
  rw [validSeg_down2]; exact h t ht

theorem trans_lt (a : Nat) : trans a < 65536 := by
  unfold trans asTrans; split <;> omega

theorem trans_id {a : Nat} (h : ¬ a > 65535) : trans a = a := by
  unfold trans; simp [h]

theorem map_trans_id {l : List Nat} (h : ∀ a ∈ l, ¬ a > 65535) : l.map trans = l := by
  induction l with
  | nil => rfl
  | cons a r ih =>
    simp only [List.map_cons]
    rw [trans_id (h a (List.mem_cons_self ..)), ih (fun b hb => h b (List.mem_cons_of_mem _ hb))]

theorem confed_segLen {s : Seg} (h : isConfed s.typ = true) : segLen s = 0 := by
  unfold isConfed at h
  simp only [Bool.or_eq_true, beq_iff_eq] at h
  unfold segLen
  rcases h with h | h <;> simp [h]

theorem plain_segLen {s : Seg} (h : isConfed s.typ = false) (hv : validSeg s = true) :
    segLen s ≠ 0 := by
  have hv := (validSeg_iff s).mp hv
  unfold isConfed at h
  simp only [Bool.or_eq_false_iff, beq_eq_false_iff_ne, ne_eq] at h
  unfold segLen
  split
  · omega
  · split
    · omega
    · omega

theorem filter_confed_append (c q : Path) (hc : ∀ s ∈ c, isConfed s.typ = true)
    (hq : ∀ s ∈ q, isConfed s.typ = false) :
    (c ++ q).filter (fun s => !isConfed s.typ) = q := by
  rw [List.filter_append]
  have h1 : c.filter (fun s => !isConfed s.typ) = [] := by
    apply List.filter_eq_nil_iff.mpr
    intro s hs; simp [hc s hs]
  have h2 : q.filter (fun s => !isConfed s.typ) = q := by
    apply List.filter_eq_self.mpr
    intro s hs; simp [hq s hs]
  rw [h1, h2]; rfl

theorem needs4_false {p : Path} (h : needs4 p = false) :
    ∀ s ∈ p, ∀ a ∈ s.as, ¬ a > 65535 := by
  intro s hs a ha hgt
  have : needs4 p = true := by
    unfold needs4
    rw [List.any_eq_true]
    refine ⟨s, hs, ?_⟩
    rw [List.any_eq_true]
    exact ⟨a, ha, by simp [hgt]⟩
  rw [h] at this; cases this

theorem down2_id {p : Path} (h : ∀ s ∈ p, ∀ a ∈ s.as, ¬ a > 65535) : down2 p = p := by
  induction p with
  | nil => rfl
  | cons s r ih =>
    simp only [down2, List.map_cons]
    have := ih (fun t ht => h t (List.mem_cons_of_mem _ ht))
    simp only [down2] at this
    rw [this, map_trans_id (h s (List.mem_cons_self ..))]

theorem confedTrans_id {p : Path} (h : ∀ s ∈ p, ∀ a ∈ s.as, ¬ a > 65535) : confedTrans p = p := by
  induction p with
  | nil => rfl
  | cons s r ih =>
    simp only [confedTrans, List.map_cons]
    have := ih (fun t ht => h t (List.mem_cons_of_mem _ ht))
    simp only [confedTrans] at this
    rw [this, map_trans_id (h s (List.mem_cons_self ..))]
    simp

theorem confedTrans_confed {c : Path} (hc : ∀ s ∈ c, isConfed s.typ = true) :
    confedTrans c = down2 c := by
  induction c with
  | nil => rfl
  | cons s r ih =>
    simp only [confedTrans, down2, List.map_cons, hc s (List.mem_cons_self ..), if_true]
    have := ih (fun t ht => hc t (List.mem_cons_of_mem _ ht))
    simp only [confedTrans, down2] at this
    rw [this]

theorem confedTrans_plain {q : Path} (hq : ∀ s ∈ q, isConfed s.typ = false) :
    confedTrans q = q := by
  induction q with
  | nil => rfl
  | cons s r ih =>
    simp only [confedTrans, List.map_cons, hq s (List.mem_cons_self ..)]
    have := ih (fun t ht => hq t (List.mem_cons_of_mem _ ht))
    simp only [confedTrans] at this
    rw [this]; simp

theorem confedTrans_append (a b : Path) : confedTrans (a ++ b) = confedTrans a ++ confedTrans b := by
  simp [confedTrans]

/-! ### the round trip, reduced to the merge loop -/

theorem asLen_confed {c : Path} (hc : ∀ s ∈ c, isConfed s.typ = true) : asLen c = 0 := by
  induction c with
  | nil => rfl
  | cons t u ih =>
    simp only [asLen, confed_segLen (hc t (List.mem_cons_self ..)), Nat.zero_add]
    exact ih (fun v hv => hc v (List.mem_cons_of_mem _ hv))

/-- for an RFC-valid path `c ++ q` the reconstruction is: the confederation run as sent, then the
merge loop over the AS4_PATH (= `q`) — or, when no AS4_PATH was sent, the AS_PATH as sent -/
theorem up_down_eq (c q : Path)
    (hc : ∀ s ∈ c, isConfed s.typ = true) (hq : ∀ s ∈ q, isConfed s.typ = false)
    (hw : Wire (c ++ q)) :
    up (down (c ++ q)).1 (down (c ++ q)).2 =
      if needs4 (c ++ q) = true ∧ q ≠ [] then merge (down2 c) q else confedTrans (c ++ q) := by
  have hwq : Wire q := (Wire_append.mp hw).2
  have hd4 : down4 (c ++ q) = q := filter_confed_append c q hc hq
  have hct : confedTrans (c ++ q) = down2 c ++ q := by
    rw [confedTrans_append, confedTrans_confed hc, confedTrans_plain hq]
  simp only [down, hd4]
  by_cases hn : needs4 (c ++ q) = true
  · cases q with
    | nil =>
      simp [up, (confedTrans_confed hc).symm]
    | cons s r =>
      simp only [hn, List.isEmpty_cons, Bool.not_false, Bool.and_true, if_true, up, ne_eq,
        reduceCtorEq, not_false_eq_true, and_self]
      have hdc : dropConfed (s :: r) = s :: r := by
        have := filter_confed_append [] (s :: r) (by intro t ht; cases ht) hq
        simpa [dropConfed] using this
      have hlen : asLen (down2 (c ++ s :: r)) = asLen (s :: r) := by
        rw [asLen_down2, asLen_append, asLen_confed hc]; omega
      rw [hdc, hlen, if_neg (Nat.lt_irrefl _), Nat.sub_self, down2_append]
      rw [keep_zero_confed (down2 c) (down2 (s :: r))]
      · intro t ht
        simp only [down2, List.mem_map] at ht
        obtain ⟨v, hv, rfl⟩ := ht
        rw [segLen_down2]; exact confed_segLen (hc v hv)
      · intro t ht
        simp only [down2, List.mem_map] at ht
        obtain ⟨v, hv, rfl⟩ := ht
        rw [segLen_down2]; exact plain_segLen (hq v hv) (hwq v hv)
  · have hn' : needs4 (c ++ q) = false := by simpa using hn
    simp only [hn', Bool.false_and, Bool.false_eq_true, if_false, up, false_and]
    rw [down2_id (needs4_false hn'), confedTrans_id (needs4_false hn')]

/-! ### the merge loop on packed input changes nothing -/

theorem mergeStep_packed (acc : Path) (s : Seg) (hs : validSeg s = true)
    (hj : ∀ last, acc.head? = some last → last.typ = 2 → s.typ = 2 → last.as.length = 255) :
    mergeStep acc s = s :: acc := by
  unfold mergeStep
  cases acc with
  | nil => rfl
  | cons last rest =>
    have hv := (validSeg_iff s).mp hs
    simp only
    split
    · rename_i h
      have h255 := hj last rfl h.2 h.1
      have hgt : last.as.length + s.as.length > 255 := by omega
      rw [if_pos hgt, h255]
      cases s with
      | mk st sa =>
        cases last with
        | mk lt la =>
          simp only at h
          simp [h.1, h.2]
    · rfl

theorem foldl_merge_packed (q acc : Path) (hw : Wire q) (hp : Packed q)
    (hj : ∀ last s, acc.head? = some last → q.head? = some s → last.typ = 2 → s.typ = 2 →
      last.as.length = 255) :
    q.foldl mergeStep acc = q.reverse ++ acc := by
  induction q generalizing acc with
  | nil => simp
  | cons s r ih =>
    obtain ⟨hs, hr⟩ := Wire_cons.mp hw
    have e := mergeStep_packed acc s hs (fun last hl => hj last s hl rfl)
    simp only [List.foldl, e]
    cases r with
    | nil => simp
    | cons t u =>
      have hp' : (s.typ = 2 → t.typ = 2 → s.as.length = 255) ∧ Packed (t :: u) := hp
      rw [ih (s :: acc) hr hp'.2]
      · simp
      · intro last x hl hx
        simp only [List.head?_cons, Option.some.injEq] at hl hx
        subst hl; subst hx
        exact hp'.1

theorem merge_packed (kept q : Path) (hw : Wire q) (hp : Packed q)
    (hk : ∀ last, kept.getLast? = some last → last.typ ≠ 2) : merge kept q = kept ++ q := by
  unfold merge
  rw [foldl_merge_packed q kept.reverse hw hp]
  · simp
  · intro last s hl _ h2
    rw [List.head?_reverse] at hl
    exact absurd h2 (hk last hl)

end As4
