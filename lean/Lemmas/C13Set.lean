/-
C13 — the "local-admin set" shapes `^W:(n|n|…)$`, `^W:n$` (wildcard AS) and `^A:(n|n|…)$` (literal AS):
the parsed regular expression matches the text `hi:lo` iff `lo` is one of the listed values.
-/
import Model.CommMatch
import Lemmas.C13Main
namespace CommMatch
open Regex

/-! ### string facts -/

structure TokOK (tok : Str) : Prop where
  ne : tok ≠ []
  dig : tok.all isDigit = true
  can : isCanonical tok = true
  lt : digitsVal tok < 65536

theorem parseTok_some {t : Str} {n : Nat} (h : parseTok t = some n) : TokOK t ∧ n = digitsVal t := by
  unfold parseTok at h
  split at h
  · next v hv =>
    rcases parseUint_some hv with ⟨h1, h2, h3, h4⟩
    split at h
    · next hc =>
      simp only [Option.some.injEq] at h
      subst h
      exact ⟨⟨h1, h2, hc, by rw [← h3]; exact h4⟩, h3⟩
    · cases h
  · cases h

theorem parseToks_some : ∀ {toks : List Str} {ls : List Nat}, parseToks toks = some ls →
    ls = toks.map digitsVal ∧ ∀ tok ∈ toks, TokOK tok := by
  intro toks
  induction toks with
  | nil =>
    intro ls h
    simp only [parseToks, Option.some.injEq] at h
    subst h
    exact ⟨rfl, fun tok hm => by cases hm⟩
  | cons t ts ih =>
    intro ls h
    simp only [parseToks] at h
    split at h
    · next n ns h1 h2 =>
      simp only [Option.some.injEq] at h
      subst h
      rcases parseTok_some h1 with ⟨ok, hn⟩
      rcases ih h2 with ⟨e, hall⟩
      refine ⟨by simp [hn, e], ?_⟩
      intro tok hm
      simp only [List.mem_cons] at hm
      rcases hm with rfl | hm
      · exact ok
      · exact hall tok hm
    · cases h

theorem splitBar_ne_nil (w : Str) : splitBar w ≠ [] := by
  cases w with
  | nil => simp [splitBar]
  | cons c cs =>
    simp only [splitBar]
    split
    · simp
    · split <;> simp

/-- a digit or the bar -/
def BarDig (c : Nat) : Prop := isDigit c = true ∨ c = 124

theorem splitBar_bardig : ∀ (w : Str), (∀ tok ∈ splitBar w, tok.all isDigit = true) → ∀ c ∈ w, BarDig c := by
  intro w
  induction w with
  | nil => intro _ c hc; cases hc
  | cons a w ih =>
    intro h c hc
    simp only [splitBar] at h
    by_cases ha : a = 124
    · simp only [ha, if_true] at h
      simp only [List.mem_cons] at hc
      rcases hc with rfl | hc
      · exact Or.inr ha
      · exact ih (fun tok hm => h tok (by simp [hm])) c hc
    · simp only [ha, if_false] at h
      cases hs : splitBar w with
      | nil => exact absurd hs (splitBar_ne_nil w)
      | cons hd tl =>
        simp only [hs] at h
        have h0 := h (a :: hd) (by simp)
        simp only [List.all_cons, Bool.and_eq_true] at h0
        simp only [List.mem_cons] at hc
        rcases hc with rfl | hc
        · exact Or.inl h0.1
        · refine ih ?_ c hc
          intro tok hm
          rw [hs] at hm
          simp only [List.mem_cons] at hm
          rcases hm with rfl | hm
          · exact h0.2
          · exact h tok (by simp [hm])

/-- what `parseLocalSet` recognises -/
theorem parseLocalSet_some {rhs : Str} {ls : List Nat} (h : parseLocalSet rhs = some ls) :
    ∃ toks, ls = toks.map digitsVal ∧ (∀ tok ∈ toks, TokOK tok) ∧
      ((∃ inner, rhs = 40 :: (inner ++ [41]) ∧ toks = splitBar inner) ∨ toks = [rhs]) := by
  unfold parseLocalSet at h
  simp only at h
  split at h
  · next ls' hp =>
    have hls : ls' = ls := by
      split at h
      · cases h
      · split at h
        · simpa using h
        · cases h
    subst hls
    rcases parseToks_some hp with ⟨e, hall⟩
    refine ⟨_, e, hall, ?_⟩
    split
    · next hc =>
      simp only [Bool.and_eq_true, beq_iff_eq, decide_eq_true_eq] at hc
      obtain ⟨⟨hh, hg⟩, hl⟩ := hc
      rcases List.head?_eq_some_iff.1 hh with ⟨ys, rfl⟩
      rcases List.getLast?_eq_some_iff.1 hg with ⟨zs, hz⟩
      cases zs with
      | nil => simp at hz
      | cons z zs =>
        simp only [List.cons_append, List.cons.injEq] at hz
        obtain ⟨rfl, rfl⟩ := hz
        exact Or.inl ⟨zs, rfl, by simp⟩
    · exact Or.inr rfl
  · cases h

theorem parseLocalSet_lt (rhs : Str) (ls : List Nat) (hl : parseLocalSet rhs = some ls) :
    ∀ n ∈ ls, n < 65536 := by
  rcases parseLocalSet_some hl with ⟨toks, e, hall, _⟩
  intro n hn
  rw [e] at hn
  rcases List.mem_map.1 hn with ⟨tok, hm, rfl⟩
  exact (hall tok hm).lt

theorem isWildcardASN_cases {a : Str} (h : isWildcardASN a = true) :
    a = wcStarCls ∨ a = wcPlusCls ∨ a = wcStarD ∨ a = wcPlusD := by
  simp only [isWildcardASN, Bool.or_eq_true, beq_iff_eq] at h
  rcases h with ((h | h) | h) | h
  · exact Or.inl h
  · exact Or.inr (Or.inl h)
  · exact Or.inr (Or.inr (Or.inl h))
  · exact Or.inr (Or.inr (Or.inr h))

theorem tryWildASN_some {s : Str} {ls : List Nat} (h : tryWildASN s = some ls) :
    ∃ W rhs, s = 94 :: ((W ++ 58 :: rhs) ++ [36]) ∧
      (W = wcStarCls ∨ W = wcPlusCls ∨ W = wcStarD ∨ W = wcPlusD) ∧ parseLocalSet rhs = some ls := by
  unfold tryWildASN at h
  split at h
  · cases h
  · next body hb =>
    split at h
    · cases h
    · next x rhs hf =>
      rcases fromColon_cons hf with ⟨_, heq, _⟩
      simp only at h
      split at h
      · cases h
      · split at h
        · cases h
        · next hw =>
          have hw : isWildcardASN (beforeColon body) = true := by simpa using hw
          refine ⟨beforeColon body, rhs, ?_, isWildcardASN_cases hw, h⟩
          rw [← heq]
          exact anchoredBody_some hb

theorem localset_lt (s : Str) (ls : List Nat) (ht : tryWildASN s = some ls) : ∀ n ∈ ls, n < 65536 := by
  rcases tryWildASN_some ht with ⟨W, rhs, _, _, hl⟩
  exact parseLocalSet_lt rhs ls hl

/-! ### lexing -/

/-- run the lexer over a prefix: final mode and the tokens that came out -/
def lexRun : Mode → List Nat → Res (Mode × List Tok)
  | m, [] => .ok (m, [])
  | m, c :: cs =>
    match stepM m c with
    | .ok (m', ts) =>
      match lexRun m' cs with
      | .ok (m'', ts') => .ok (m'', ts ++ ts')
      | .err => .err
      | .nofrag => .nofrag
    | .err => .err
    | .nofrag => .nofrag

theorem lexGo_run : ∀ (p : List Nat) (m m' : Mode) (ts tks : List Tok) (cs : List Nat),
    lexRun m p = .ok (m', ts) → lexGo m (p ++ cs) = .ok tks →
    ∃ rest, lexGo m' cs = .ok rest ∧ tks = ts ++ rest := by
  intro p
  induction p with
  | nil =>
    intro m m' ts tks cs h1 h2
    simp only [lexRun, Res.ok.injEq, Prod.mk.injEq] at h1
    obtain ⟨rfl, rfl⟩ := h1
    exact ⟨tks, h2, rfl⟩
  | cons c p ih =>
    intro m m' ts tks cs h1 h2
    simp only [lexRun] at h1
    cases hs : stepM m c with
    | err => simp [hs] at h1
    | nofrag => simp [hs] at h1
    | ok x =>
      obtain ⟨m1, t1⟩ := x
      simp only [hs] at h1
      cases hr : lexRun m1 p with
      | err => simp [hr] at h1
      | nofrag => simp [hr] at h1
      | ok y =>
        obtain ⟨m2, t2⟩ := y
        simp only [hr, Res.ok.injEq, Prod.mk.injEq] at h1
        obtain ⟨rfl, rfl⟩ := h1
        rcases lexGo_ok_cons hs (by simpa using h2) with ⟨r1, g1, e1⟩
        rcases ih m1 m2 t2 r1 cs hr g1 with ⟨r2, g2, e2⟩
        exact ⟨r2, g2, by rw [e1, e2, List.append_assoc]⟩

def charTok (c : Nat) : Tok := if c = 124 then .bar else .atom (lit c)

theorem stepM_bardig {c : Nat} (h : BarDig c) : stepM .normal c = .ok (.normal, [charTok c]) := by
  rcases h with h | h
  · have hp : Plain c := by
      simp only [isDigit, Bool.and_eq_true, decide_eq_true_eq] at h
      exact ⟨h.1, by omega⟩
    have hne : c ≠ 124 := by
      simp only [isDigit, Bool.and_eq_true, decide_eq_true_eq] at h
      omega
    simp [stepM, stepNormal_plain hp, charTok, hne]
  · subst h; rfl

theorem lexGo_bardig {w cs : List Nat} {tks : List Tok} (hw : ∀ c ∈ w, BarDig c)
    (h : lexGo .normal (w ++ cs) = .ok tks) :
    ∃ rest, lexGo .normal cs = .ok rest ∧ tks = w.map charTok ++ rest := by
  induction w generalizing tks with
  | nil => exact ⟨tks, h, rfl⟩
  | cons c w ih =>
    rcases lexGo_ok_cons (stepM_bardig (hw c (by simp))) h with ⟨r1, h1, e1⟩
    rcases ih (fun c hc => hw c (by simp [hc])) h1 with ⟨r2, h2, e2⟩
    exact ⟨r2, h2, by simp [e1, e2]⟩

theorem lexGo_paren_eq {cs : List Nat} (h : ∀ c rest, cs = c :: rest → c ≠ 63) :
    lexGo .paren cs = lexGo .normal cs := by
  cases cs with
  | nil => rfl
  | cons c cs =>
    have := h c cs rfl
    simp [lexGo, stepM, this]

/-- the tokens of `(inner)$` -/
theorem lex_rhs_paren {inner : Str} {tks : List Tok} (hw : ∀ c ∈ inner, BarDig c)
    (h : lexGo .normal (40 :: (inner ++ [41]) ++ [36]) = .ok tks) :
    tks = .lpar :: (inner.map charTok ++ [.rpar, .atom .eot]) := by
  have hs : stepM .normal 40 = .ok (.paren, [.lpar]) := rfl
  rcases lexGo_ok_cons hs (by simpa using h) with ⟨r1, h1, e1⟩
  have hne : ∀ c rest, inner ++ [41, 36] = c :: rest → c ≠ 63 := by
    intro c rest e
    cases inner with
    | nil => simp at e; omega
    | cons a inner =>
      simp only [List.cons_append, List.cons.injEq] at e
      rcases hw a (by simp) with ha | ha
      · simp only [isDigit, Bool.and_eq_true, decide_eq_true_eq] at ha
        omega
      · omega
  rw [lexGo_paren_eq hne] at h1
  rcases lexGo_bardig hw h1 with ⟨r2, h2, e2⟩
  have h3 : lexGo .normal [41, 36] = .ok [.rpar, .atom .eot] := rfl
  rw [h3] at h2
  simp only [Res.ok.injEq] at h2
  subst h2
  rw [e1, e2]; rfl

/-- the tokens of `n$` -/
theorem lex_rhs_plain {rhs : Str} {tks : List Tok} (hw : rhs.all isDigit = true)
    (h : lexGo .normal (rhs ++ [36]) = .ok tks) :
    tks = (rhs.map lit ++ [R.eot]).map Tok.atom ++ [] := by
  rcases lexGo_plain (digits_plain hw) h with ⟨r2, h2, e2⟩
  have h3 : lexGo .normal [36] = .ok [.atom .eot] := rfl
  rw [h3] at h2
  simp only [Res.ok.injEq] at h2
  subst h2
  rw [e2]
  simp [List.map_map, Function.comp_def]

/-! ### parsing the group -/

theorem prun_append : ∀ (l1 : List Tok) (S : PSt) (l2 : List Tok),
    prun S (l1 ++ l2) = match prun S l1 with
      | some S' => prun S' l2
      | none => none := by
  intro l1
  induction l1 with
  | nil => intro S l2; simp [prun]
  | cons tk l1 ih =>
    intro S l2
    simp only [List.cons_append, prun]
    cases pstep S tk with
    | none => rfl
    | some S1 => exact ih S1 l2

/-- the frame reached from `f` after the tokens of a string of digits and bars -/
def frameAfter : Frame → Str → Frame
  | f, [] => f
  | f, c :: w => if c = 124 then frameAfter ⟨some f.close, []⟩ w else frameAfter ⟨f.alts, lit c :: f.cur⟩ w

theorem prun_group (w : Str) : ∀ (st : List Frame) (f : Frame) (jr : Bool) (tks : List Tok),
    ∃ jr', prun ⟨st, f, jr⟩ (w.map charTok ++ tks) = prun ⟨st, frameAfter f w, jr'⟩ tks := by
  induction w with
  | nil => intro st f jr tks; exact ⟨jr, rfl⟩
  | cons c w ih =>
    intro st f jr tks
    by_cases hc : c = 124
    · rcases ih st ⟨some f.close, []⟩ false tks with ⟨jr', e⟩
      refine ⟨jr', ?_⟩
      simp only [List.map_cons, List.cons_append, charTok, hc, if_true, prun, pstep, frameAfter]
      exact e
    · rcases ih st ⟨f.alts, lit c :: f.cur⟩ false tks with ⟨jr', e⟩
      refine ⟨jr', ?_⟩
      simp only [List.map_cons, List.cons_append, charTok, hc, if_false, prun, pstep, frameAfter]
      exact e

/-- the expression of the group `(inner)` -/
def grp (inner : Str) : R := (frameAfter ⟨none, []⟩ inner).close

/-- after a prefix at depth 0: `(inner)$` adds the group and the end anchor -/
theorem prun_group_tail (P : List R) (jr : Bool) (inner : Str) (S1 : PSt) (x : R × Bool)
    (hr : prun ⟨[], ⟨none, P⟩, jr⟩ (.lpar :: (inner.map charTok ++ [.rpar, .atom .eot])) = some S1)
    (hf : pfinish S1 = some x) : x = (catList (P.reverse ++ [grp inner, .eot]), false) := by
  simp only [prun, pstep] at hr
  rcases prun_group inner [⟨none, P⟩] ⟨none, []⟩ false [.rpar, .atom .eot] with ⟨jr', e⟩
  rw [e] at hr
  simp only [prun, pstep, Option.some.injEq] at hr
  subst hr
  simp only [pfinish, Option.some.injEq] at hf
  rw [← hf]
  simp [Frame.close, grp]

/-- after a prefix at depth 0: `n$` adds the literals and the end anchor -/
theorem prun_plain_tail (P : List R) (jr : Bool) (rhs : Str) (S1 : PSt) (x : R × Bool)
    (hr : prun ⟨[], ⟨none, P⟩, jr⟩ ((rhs.map lit ++ [R.eot]).map Tok.atom ++ []) = some S1)
    (hf : pfinish S1 = some x) : x = (catList (P.reverse ++ (rhs.map lit ++ [.eot])), false) := by
  rw [prun_atoms] at hr
  simp only [prun, Option.some.injEq] at hr
  subst hr
  simp only [pfinish, Option.some.injEq] at hf
  rw [← hf]
  simp [Frame.close]

/-! ### what the group matches -/

/-- the literal string `tok` sits in `t` between positions `k` and `j` -/
def IsTokAt (t : Str) (k j : Nat) (tok : Str) : Prop :=
  t.drop k = tok ++ t.drop (k + tok.length) ∧ j = k + tok.length

theorem match_tok {t : Str} {k j : Nat} (u : Str) : Match t (catList (u.map lit)) k j ↔ IsTokAt t k j u := by
  have := match_lits (t := t) (Y := []) (j := j) u k
  simp only [List.append_nil, catList, match_eps] at this
  exact this

theorem match_close {t : Str} {k j : Nat} (al : Option R) (u : Str) :
    Match t (Frame.close ⟨al, (u.map lit).reverse⟩) k j ↔
      ((∃ a, al = some a ∧ Match t a k j) ∨ IsTokAt t k j u) := by
  cases al with
  | none =>
    simp only [Frame.close, List.reverse_reverse, match_tok]
    constructor
    · intro h; exact Or.inr h
    · rintro (⟨a, h, _⟩ | h)
      · cases h
      · exact h
  | some a =>
    simp only [Frame.close, List.reverse_reverse]
    constructor
    · intro h
      cases h with
      | altl h => exact Or.inl ⟨a, rfl, h⟩
      | altr h => exact Or.inr ((match_tok u).1 h)
    · rintro (⟨a', h, hm⟩ | h)
      · cases h; exact .altl hm
      · exact .altr ((match_tok u).2 h)

/-- the tokens of `u` followed by `w`, split at the bars -/
def toksOf : Str → Str → List Str
  | u, [] => [u]
  | u, c :: w => if c = 124 then u :: toksOf [] w else toksOf (u ++ [c]) w

theorem toksOf_split : ∀ (w u : Str), ∃ h tl, splitBar w = h :: tl ∧ toksOf u w = (u ++ h) :: tl := by
  intro w
  induction w with
  | nil => intro u; exact ⟨[], [], rfl, by simp [toksOf]⟩
  | cons c w ih =>
    intro u
    by_cases hc : c = 124
    · rcases ih [] with ⟨h, tl, e1, e2⟩
      refine ⟨[], splitBar w, by simp [splitBar, hc], ?_⟩
      simp only [toksOf, hc, if_true, e2, e1, List.append_nil, List.nil_append]
    · rcases ih (u ++ [c]) with ⟨h, tl, e1, e2⟩
      refine ⟨c :: h, tl, by simp [splitBar, hc, e1], ?_⟩
      simp only [toksOf, hc, if_false, e2, List.append_assoc, List.cons_append, List.nil_append]

theorem toksOf_nil (w : Str) : toksOf [] w = splitBar w := by
  rcases toksOf_split w [] with ⟨h, tl, e1, e2⟩
  rw [e1, e2]; rfl

theorem match_frameAfter {t : Str} {k j : Nat} : ∀ (w : Str) (al : Option R) (u : Str),
    Match t (frameAfter ⟨al, (u.map lit).reverse⟩ w).close k j ↔
      ((∃ a, al = some a ∧ Match t a k j) ∨ ∃ tok ∈ toksOf u w, IsTokAt t k j tok) := by
  intro w
  induction w with
  | nil =>
    intro al u
    simp only [frameAfter, toksOf, List.mem_singleton, exists_eq_left]
    exact match_close al u
  | cons c w ih =>
    intro al u
    by_cases hc : c = 124
    · simp only [frameAfter, toksOf, hc, if_true]
      have := ih (some (Frame.close ⟨al, (u.map lit).reverse⟩)) []
      simp only [List.map_nil, List.reverse_nil] at this
      rw [this]
      simp only [Option.some.injEq, exists_eq_left', List.mem_cons, exists_eq_or_imp]
      rw [match_close, or_assoc]
    · simp only [frameAfter, toksOf, hc, if_false]
      have := ih al (u ++ [c])
      simp only [List.map_append, List.map_cons, List.map_nil, List.reverse_append, List.reverse_cons,
        List.reverse_nil, List.nil_append, List.cons_append] at this
      exact this

theorem match_grp {t : Str} {k j : Nat} (inner : Str) :
    Match t (grp inner) k j ↔ ∃ tok ∈ splitBar inner, IsTokAt t k j tok := by
  have := match_frameAfter (t := t) (k := k) (j := j) inner none []
  simp only [List.map_nil, List.reverse_nil, toksOf_nil] at this
  unfold grp
  rw [this]
  constructor
  · rintro (⟨a, h, _⟩ | h)
    · cases h
    · exact h
  · intro h; exact Or.inr h

/-! ### the tail `RHS$` of the pattern, as parsed -/

/-- `X` matches from `k` exactly when the rest of the text is one of `toks` -/
def TailSem (X : R) (toks : List Str) : Prop :=
  ∀ (t : Str) (k j : Nat), Match t X k j ↔
    ∃ tok ∈ toks, t.drop k = tok ∧ k + tok.length = t.length ∧ j = t.length

theorem tokAt_end {t tok : Str} {k m : Nat} :
    (IsTokAt t k m tok ∧ m = t.length) ↔ (t.drop k = tok ∧ k + tok.length = t.length ∧ m = t.length) := by
  unfold IsTokAt
  constructor
  · rintro ⟨⟨hd, hm⟩, he⟩
    have hk : k + tok.length = t.length := by omega
    rw [hk, List.drop_length, List.append_nil] at hd
    exact ⟨hd, hk, he⟩
  · rintro ⟨hd, hk, he⟩
    refine ⟨⟨?_, by omega⟩, he⟩
    rw [hk, List.drop_length, List.append_nil]; exact hd

theorem tailsem_group (inner : Str) : TailSem (catList [grp inner, .eot]) (splitBar inner) := by
  intro t k j
  simp only [catList]
  constructor
  · intro h
    cases h with
    | @cat _ _ _ m _ h1 h2 =>
      rcases (match_grp inner).1 h1 with ⟨tok, hm, hta⟩
      have h2' : Match t (catList [.eot]) m j := h2
      rcases match_eot_end.1 h2' with ⟨e1, e2⟩
      rcases tokAt_end.1 ⟨hta, e1⟩ with ⟨a, b, _⟩
      exact ⟨tok, hm, a, b, e2⟩
  · rintro ⟨tok, hm, a, b, c⟩
    rcases tokAt_end.2 ⟨a, b, rfl⟩ with ⟨hta, _⟩
    refine .cat ((match_grp inner).2 ⟨tok, hm, hta⟩) ?_
    have : Match t (catList [.eot]) t.length j := match_eot_end.2 ⟨rfl, c⟩
    exact this

theorem tailsem_plain (rhs : Str) : TailSem (catList (rhs.map lit ++ [.eot])) [rhs] := by
  intro t k j
  rw [match_lits rhs k, match_eot_end]
  simp only [List.mem_singleton, exists_eq_left]
  have := tokAt_end (t := t) (tok := rhs) (k := k) (m := k + rhs.length)
  unfold IsTokAt at this
  constructor
  · rintro ⟨hd, e1, e2⟩
    rcases this.1 ⟨⟨hd, rfl⟩, e1⟩ with ⟨a, b, _⟩
    exact ⟨a, b, e2⟩
  · rintro ⟨a, b, c⟩
    rcases this.2 ⟨a, b, b⟩ with ⟨⟨hd, _⟩, _⟩
    exact ⟨hd, b, c⟩

theorem rhs_parse {rhs : Str} {ls : List Nat} (hl : parseLocalSet rhs = some ls)
    {P : List R} {jr : Bool} {tks' : List Tok} {S1 : PSt} {x : R × Bool}
    (hlex : lexGo .normal (rhs ++ [36]) = .ok tks')
    (hr : prun ⟨[], ⟨none, P⟩, jr⟩ tks' = some S1) (hf : pfinish S1 = some x) :
    ∃ Y toks, x = (catList (P.reverse ++ Y), false) ∧ TailSem (catList Y) toks ∧
      ls = toks.map digitsVal ∧ ∀ tok ∈ toks, TokOK tok := by
  rcases parseLocalSet_some hl with ⟨toks, e, hall, ⟨inner, hrhs, htoks⟩ | htoks⟩
  · subst hrhs
    have hbd : ∀ c ∈ inner, BarDig c := by
      apply splitBar_bardig
      intro tok hm
      exact (hall tok (htoks ▸ hm)).dig
    have := lex_rhs_paren hbd hlex
    subst this
    refine ⟨[grp inner, .eot], toks, prun_group_tail P jr inner S1 x hr hf, ?_, e, hall⟩
    rw [htoks]; exact tailsem_group inner
  · have hd : rhs.all isDigit = true := (hall rhs (by simp [htoks])).dig
    have := lex_rhs_plain hd hlex
    subst this
    refine ⟨rhs.map lit ++ [.eot], toks, prun_plain_tail P jr rhs S1 x hr hf, ?_, e, hall⟩
    rw [htoks]; exact tailsem_plain rhs

/-- membership in the value list, in terms of the canonical text -/
theorem mem_vals {toks : List Str} (hall : ∀ tok ∈ toks, TokOK tok) (lo : Nat) :
    (∃ tok ∈ toks, toDec lo = tok) ↔ lo ∈ toks.map digitsVal := by
  constructor
  · rintro ⟨tok, hm, e⟩
    exact List.mem_map.2 ⟨tok, hm, by rw [← e, digitsVal_toDec]⟩
  · intro h
    rcases List.mem_map.1 h with ⟨tok, hm, e⟩
    have ok := hall tok hm
    exact ⟨tok, hm, by rw [← e]; exact toDec_digitsVal tok ok.ne ok.dig ok.can⟩

/-! ### literal AS + set: `^A:(n|…)$`, `^A:n$` -/

theorem drop_after_colon (H L : Str) : (H ++ 58 :: L).drop (0 + (H ++ [58]).length) = L := by
  have : H ++ 58 :: L = (H ++ [58]) ++ L := by simp
  rw [this, Nat.zero_add, List.drop_left]

theorem asbitmap_parse {s b : Str} {asn : Nat} {rest : Str} {c0 : Nat} {rhs : Str} {ls : List Nat} {r : R}
    (he : extractASN s = some (asn, rest)) (hb : anchoredBody s = some b) (hf : fromColon b = c0 :: rhs)
    (hl : parseLocalSet rhs = some ls) (hp : parse s = .ok r) :
    ∃ A Y toks, ASNShape s asn rest A ∧ r = catList (.bot :: ((A ++ [58]).map lit ++ Y)) ∧
      TailSem (catList Y) toks ∧ ls = toks.map digitsVal ∧ ∀ tok ∈ toks, TokOK tok := by
  rcases extractASN_some he with ⟨A, sh⟩
  have hs := anchoredBody_some hb
  rcases fromColon_cons hf with ⟨_, hbeq, hnc⟩
  have hex : ∃ B, b = B ++ 58 :: rhs ∧ ∀ c ∈ B, c ≠ 58 := ⟨_, hbeq, hnc⟩
  rcases hex with ⟨B, hB, hBn⟩
  have e : A ++ 58 :: rest = B ++ 58 :: (rhs ++ [36]) := by
    have := sh.eq.symm.trans hs
    rw [hB] at this
    simpa using this
  rcases colon_split_unique e (digits_no_colon sh.dig) (fun h => hBn 58 h rfl) with ⟨_, hrest⟩
  rcases parse_ok_full hp with ⟨bb, hpf⟩
  rw [sh.eq] at hpf
  rcases parseFull_prefix sh.dig hpf with ⟨tks', S1, hlex, hr, hfin⟩
  rw [hrest] at hlex
  rcases rhs_parse hl hlex hr hfin with ⟨Y, toks, hx, hts, els, hall⟩
  refine ⟨A, Y, toks, sh, ?_, hts, els, hall⟩
  simp only [Prod.mk.injEq] at hx
  rw [hx.1, prefP_reverse]; rfl

theorem asbitmap_sound (s b : Str) (asn : Nat) (rest : Str) (c0 : Nat) (rhs : Str) (ls : List Nat) (r : R)
    (hi lo : Nat)
    (he : extractASN s = some (asn, rest)) (hb : anchoredBody s = some b) (hf : fromColon b = c0 :: rhs)
    (hl : parseLocalSet rhs = some ls) (hp : parse s = .ok r) :
    search r (toDec hi ++ 58 :: toDec lo) = (hi == asn && ls.contains lo) := by
  rcases asbitmap_parse he hb hf hl hp with ⟨A, Y, toks, sh, rfl, hts, els, hall⟩
  rw [Bool.eq_iff_iff]
  simp only [Bool.and_eq_true, beq_iff_eq, List.contains_iff_mem]
  rw [els, ← mem_vals hall lo]
  constructor
  · intro hm
    rcases search_prefix hm with ⟨u, hu⟩
    have hu' : toDec hi ++ 58 :: toDec lo = A ++ 58 :: u := by simpa using hu
    rcases colon_split_unique hu' (toDec_no_colon _) (digits_no_colon sh.dig) with ⟨h1, _⟩
    refine ⟨by rw [sh.val, ← h1, digitsVal_toDec], ?_⟩
    rw [search_iff] at hm
    rcases hm with ⟨i, j, _, h⟩
    simp only [catList] at h
    rcases match_bot_cat.1 h with ⟨rfl, h'⟩
    rcases (match_lits (A ++ [58]) 0).1 h' with ⟨_, hY⟩
    rcases (hts _ _ _).1 hY with ⟨tok, hm, hd, _, _⟩
    rw [h1, drop_after_colon] at hd
    exact ⟨tok, hm, hd⟩
  · rintro ⟨hhi, tok, hm, htok⟩
    have hA : toDec hi = A := by rw [hhi, sh.val]; exact toDec_digitsVal A sh.ne sh.dig sh.can
    rw [hA, search_iff]
    refine ⟨0, (A ++ 58 :: toDec lo).length, Nat.zero_le _, ?_⟩
    simp only [catList]
    refine match_bot_cat.2 ⟨rfl, (match_lits (A ++ [58]) 0).2 ⟨?_, (hts _ _ _).2 ⟨tok, hm, ?_, ?_, rfl⟩⟩⟩
    · rw [drop_after_colon]; simp
    · rw [drop_after_colon]; exact htok
    · rw [← htok]; simp; omega

/-! ### wildcard AS + set: parsing `^W:RHS$` -/

theorem wcard_prefix {W : Str} (hW : W = wcStarCls ∨ W = wcPlusCls ∨ W = wcStarD ∨ W = wcPlusD) :
    ∃ ts wr, (wr = R.star rD ∨ wr = R.cat rD (.star rD)) ∧
      lexRun .normal (94 :: (W ++ [58])) = .ok (.normal, ts) ∧
      prun PSt.init ts = some ⟨[], ⟨none, [lit 58, wr, .bot]⟩, false⟩ := by
  rcases hW with rfl | rfl | rfl | rfl
  · exact ⟨[.atom .bot, .atom rD, .star, .atom (lit 58)], _, Or.inl rfl, rfl, rfl⟩
  · exact ⟨[.atom .bot, .atom rD, .plus, .atom (lit 58)], _, Or.inr rfl, rfl, rfl⟩
  · exact ⟨[.atom .bot, .atom rD, .star, .atom (lit 58)], _, Or.inl rfl, rfl, rfl⟩
  · exact ⟨[.atom .bot, .atom rD, .plus, .atom (lit 58)], _, Or.inr rfl, rfl, rfl⟩

theorem wcard_parse {W rhs : Str} {x : R × Bool}
    (hW : W = wcStarCls ∨ W = wcPlusCls ∨ W = wcStarD ∨ W = wcPlusD)
    (h : parseFull (94 :: (W ++ 58 :: (rhs ++ [36]))) = .ok x) :
    ∃ wr tks' S1, (wr = R.star rD ∨ wr = R.cat rD (.star rD)) ∧ lexGo .normal (rhs ++ [36]) = .ok tks' ∧
      prun ⟨[], ⟨none, [lit 58, wr, .bot]⟩, false⟩ tks' = some S1 ∧ pfinish S1 = some x := by
  rcases wcard_prefix hW with ⟨ts, wr, hwr, hrun, hpre⟩
  unfold parseFull at h
  cases hl : lex (94 :: (W ++ 58 :: (rhs ++ [36]))) with
  | err => simp [hl] at h
  | nofrag => simp [hl] at h
  | ok tks =>
    have hl' : lexGo .normal ((94 :: (W ++ [58])) ++ (rhs ++ [36])) = .ok tks := by
      unfold lex at hl; simpa using hl
    rcases lexGo_run _ _ _ _ _ _ hrun hl' with ⟨tks', h1, e⟩
    simp only [hl] at h
    rw [e, prun_append, hpre] at h
    simp only at h
    cases hr : prun ⟨[], ⟨none, [lit 58, wr, .bot]⟩, false⟩ tks' with
    | none => simp [hr] at h
    | some S1 =>
      simp only [hr] at h
      cases hf : pfinish S1 with
      | none => simp [hf] at h
      | some y =>
        simp only [hf, Res.ok.injEq] at h
        exact ⟨wr, tks', S1, hwr, h1, hr, by rw [hf, h]⟩

theorem localset_parse {s : Str} {ls : List Nat} {r : R}
    (ht : tryWildASN s = some ls) (hp : parse s = .ok r) :
    ∃ wr Y toks, (wr = R.star rD ∨ wr = R.cat rD (.star rD)) ∧
      r = catList (.bot :: wr :: lit 58 :: Y) ∧
      TailSem (catList Y) toks ∧ ls = toks.map digitsVal ∧ ∀ tok ∈ toks, TokOK tok := by
  rcases tryWildASN_some ht with ⟨W, rhs, hs, hW, hl⟩
  rcases parse_ok_full hp with ⟨bb, hpf⟩
  rw [hs] at hpf
  have hpf' : parseFull (94 :: (W ++ 58 :: (rhs ++ [36]))) = .ok (r, bb) := by simpa using hpf
  rcases wcard_parse hW hpf' with ⟨wr, tks', S1, hwr, hlex, hr, hfin⟩
  rcases rhs_parse hl hlex hr hfin with ⟨Y, toks, hx, hts, els, hall⟩
  refine ⟨wr, Y, toks, hwr, ?_, hts, els, hall⟩
  simp only [Prod.mk.injEq] at hx
  rw [hx.1]; rfl

/-! ### runs of a character set -/

theorem star_run {t : List Nat} {s : CS} {r : R} {i k : Nat} (h : Match t r i k) :
    r = .star (.chr s) → ∀ p, i ≤ p → p < k → ∃ x, t[p]? = some x ∧ s.mem x = true := by
  induction h with
  | eps i => intro e; cases e
  | chr _ _ => intro e; cases e
  | bot => intro e; cases e
  | eot => intro e; cases e
  | cat _ _ _ _ => intro e; cases e
  | altl _ _ => intro e; cases e
  | altr _ _ => intro e; cases e
  | star0 i => intro _ p h1 h2; omega
  | @starS a i k j h1 hlt h2 ih1 ih2 =>
    intro e p hp1 hp2
    cases e
    cases h1 with
    | chr hc hm =>
      by_cases hpi : p = i
      · subst hpi; exact ⟨_, hc, hm⟩
      · exact ih2 rfl p (by omega) hp2

theorem run_star {t : List Nat} {s : CS} : ∀ (n i k : Nat), k - i = n → i ≤ k →
    (∀ p, i ≤ p → p < k → ∃ x, t[p]? = some x ∧ s.mem x = true) → Match t (.star (.chr s)) i k := by
  intro n
  induction n with
  | zero =>
    intro i k h1 h2 _
    have : i = k := by omega
    subst this; exact .star0 _
  | succ n ih =>
    intro i k h1 h2 hall
    rcases hall i (Nat.le_refl _) (by omega) with ⟨x, hx, hm⟩
    refine .starS (.chr hx hm) (Nat.lt_succ_self _) ?_
    exact ih (i + 1) k (by omega) (by omega) (fun p hp1 hp2 => hall p (by omega) hp2)

/-- `[0-9]*` or `[0-9]+` from `i` to `k`: every position in between holds a digit -/
theorem wr_run {t : List Nat} {wr : R} {i k : Nat} (hwr : wr = R.star rD ∨ wr = R.cat rD (.star rD))
    (h : Match t wr i k) : ∀ p, i ≤ p → p < k → ∃ x, t[p]? = some x ∧ isDigit x = true := by
  rcases hwr with rfl | rfl
  · intro p h1 h2
    rcases star_run h rfl p h1 h2 with ⟨x, hx, hm⟩
    exact ⟨x, hx, by rw [← rD_mem]; exact hm⟩
  · intro p h1 h2
    cases h with
    | cat ha hb =>
      cases ha with
      | chr hc hm =>
        by_cases hpi : p = i
        · subst hpi; exact ⟨_, hc, by rw [← rD_mem]; exact hm⟩
        · rcases star_run hb rfl p (by omega) h2 with ⟨x, hx, hm'⟩
          exact ⟨x, hx, by rw [← rD_mem]; exact hm'⟩

theorem run_wr {t : List Nat} {wr : R} {i k : Nat} (hwr : wr = R.star rD ∨ wr = R.cat rD (.star rD))
    (hik : i < k) (hall : ∀ p, i ≤ p → p < k → ∃ x, t[p]? = some x ∧ isDigit x = true) :
    Match t wr i k := by
  have hall' : ∀ p, i ≤ p → p < k → ∃ x, t[p]? = some x ∧ CS.mem ⟨false, [(48, 57)]⟩ x = true := by
    intro p h1 h2
    rcases hall p h1 h2 with ⟨x, hx, hm⟩
    exact ⟨x, hx, by rw [rD_mem]; exact hm⟩
  rcases hwr with rfl | rfl
  · exact run_star _ i k rfl (by omega) hall'
  · rcases hall' i (Nat.le_refl _) hik with ⟨x, hx, hm⟩
    refine .cat (.chr hx hm) ?_
    exact run_star _ (i + 1) k rfl (by omega) (fun p h1 h2 => hall' p (by omega) h2)

/-- what `^W:Y` matches -/
theorem wr_sem {t : Str} {wr : R} {Y : List R} :
    search (catList (.bot :: wr :: lit 58 :: Y)) t = true ↔
      ∃ k j, Match t wr 0 k ∧ t[k]? = some 58 ∧ Match t (catList Y) (k + 1) j := by
  rw [search_iff]
  simp only [catList]
  constructor
  · rintro ⟨i, j, _, h⟩
    rcases match_bot_cat.1 h with ⟨rfl, h'⟩
    cases h' with
    | @cat _ _ _ k _ h1 h2 =>
      cases h2 with
      | cat h3 h4 =>
        rcases match_lit.1 h3 with ⟨hc, rfl⟩
        exact ⟨k, j, h1, hc, h4⟩
  · rintro ⟨k, j, h1, hc, h4⟩
    exact ⟨0, j, Nat.zero_le _, match_bot_cat.2 ⟨rfl, .cat h1 (.cat (match_lit.2 ⟨hc, rfl⟩) h4)⟩⟩

/-! ### the text `H:L` -/

theorem head_run {H L : Str} (hH : H.all isDigit = true) :
    ∀ p, 0 ≤ p → p < H.length → ∃ x, (H ++ 58 :: L)[p]? = some x ∧ isDigit x = true := by
  intro p _ hp
  refine ⟨H[p], ?_, List.all_eq_true.1 hH _ (List.getElem_mem hp)⟩
  rw [List.getElem?_append_left hp, List.getElem?_eq_getElem hp]

theorem colon_at (H L : Str) : (H ++ 58 :: L)[H.length]? = some 58 := by
  rw [List.getElem?_append_right (Nat.le_refl _)]
  simp

theorem colon_pos {H L : Str} {k : Nat} (hH : H.all isDigit = true)
    (hrun : ∀ p, 0 ≤ p → p < k → ∃ x, (H ++ 58 :: L)[p]? = some x ∧ isDigit x = true)
    (hc : (H ++ 58 :: L)[k]? = some 58) : k = H.length := by
  rcases Nat.lt_trichotomy k H.length with h | h | h
  · rw [List.getElem?_append_left h] at hc
    exact absurd (List.mem_of_getElem? hc) (digits_no_colon hH)
  · exact h
  · rcases hrun H.length (Nat.zero_le _) h with ⟨x, hx, hd⟩
    rw [colon_at] at hx
    simp only [Option.some.injEq] at hx
    subst hx
    simp [isDigit] at hd

theorem drop_after_colon' (H L : Str) : (H ++ 58 :: L).drop (H.length + 1) = L := by
  have : H ++ 58 :: L = (H ++ [58]) ++ L := by simp
  rw [this]
  have e : H.length + 1 = (H ++ [58]).length := by simp
  rw [e, List.drop_left]

/-! ### wildcard AS + set: soundness -/

theorem localset_sound (s : Str) (ls : List Nat) (r : R) (hi lo : Nat)
    (ht : tryWildASN s = some ls) (hp : parse s = .ok r) :
    search r (toDec hi ++ 58 :: toDec lo) = ls.contains lo := by
  rcases localset_parse ht hp with ⟨wr, Y, toks, hwr, rfl, hts, els, hall⟩
  rw [Bool.eq_iff_iff, wr_sem]
  simp only [List.contains_iff_mem]
  rw [els, ← mem_vals hall lo]
  have hH := toDec_all_digit hi
  constructor
  · rintro ⟨k, j, h1, hc, h4⟩
    have hk := colon_pos hH (wr_run hwr h1) hc
    subst hk
    rcases (hts _ _ _).1 h4 with ⟨tok, hm, hd, _, _⟩
    rw [drop_after_colon'] at hd
    exact ⟨tok, hm, hd⟩
  · rintro ⟨tok, hm, htok⟩
    have hne : 0 < (toDec hi).length := List.length_pos_iff.2 (toDec_ne_nil hi)
    refine ⟨(toDec hi).length, (toDec hi ++ 58 :: toDec lo).length, run_wr hwr hne (head_run hH),
      colon_at _ _, (hts _ _ _).2 ⟨tok, hm, ?_, ?_, rfl⟩⟩
    · rw [drop_after_colon']; exact htok
    · rw [← htok]; simp; omega

/-- a text matched by such a pattern starts with digits (possibly none) and a colon -/
theorem localset_text (s : Str) (ls : List Nat) (r : R) (t : Str)
    (ht : tryWildASN s = some ls) (hp : parse s = .ok r) (hm : search r t = true) : ¬ NoASPrefix t := by
  rcases localset_parse ht hp with ⟨wr, Y, toks, hwr, rfl, _, _, _⟩
  rcases wr_sem.1 hm with ⟨k, j, h1, hc, _⟩
  intro hn
  have hrun := wr_run hwr h1
  refine hn (t.take k) (t.drop (k + 1)) ?_ ?_
  · rw [← drop_of_getElem? hc, List.take_append_drop]
  · rw [List.all_eq_true]
    intro x hx
    rcases List.mem_iff_getElem?.1 hx with ⟨p, hp'⟩
    rw [List.getElem?_take] at hp'
    split at hp'
    · next hpk =>
      rcases hrun p (Nat.zero_le _) hpk with ⟨y, hy, hd⟩
      rw [hy] at hp'
      cases hp'
      exact hd
    · cases hp'

end CommMatch
