/-
C13 — the declarative semantics `Match` of the regular expressions of Model/Regex.lean and the proof
that the executable matcher `ends` / `search` computes exactly it.
-/
import Model.Regex
namespace Regex

/-- `Match t r i j`: `r` matches the text `t` between positions `i` and `j`.
(`starS` iterates non-empty matches only; `Match.star_step` below shows the textbook rule follows.) -/
inductive Match (t : List Nat) : R → Nat → Nat → Prop where
  | eps (i : Nat) : Match t .eps i i
  | chr {s : CS} {i c : Nat} : t[i]? = some c → s.mem c = true → Match t (.chr s) i (i + 1)
  | bot : Match t .bot 0 0
  | eot : Match t .eot t.length t.length
  | cat {a b : R} {i k j : Nat} : Match t a i k → Match t b k j → Match t (.cat a b) i j
  | altl {a b : R} {i j : Nat} : Match t a i j → Match t (.alt a b) i j
  | altr {a b : R} {i j : Nat} : Match t b i j → Match t (.alt a b) i j
  | star0 {a : R} (i : Nat) : Match t (.star a) i i
  | starS {a : R} {i k j : Nat} : Match t a i k → i < k → Match t (.star a) k j → Match t (.star a) i j

theorem Match.le {t : List Nat} {r : R} {i j : Nat} (h : Match t r i j) :
    i ≤ j ∧ (i < j → j ≤ t.length) := by
  induction h with
  | eps i => exact ⟨Nat.le_refl _, fun h => absurd h (Nat.lt_irrefl _)⟩
  | @chr s i c h1 _ =>
    refine ⟨Nat.le_succ _, fun _ => ?_⟩
    have : i < t.length := by
      rcases Nat.lt_or_ge i t.length with h | h
      · exact h
      · rw [List.getElem?_eq_none h] at h1; cases h1
    omega
  | bot => exact ⟨Nat.le_refl _, fun h => absurd h (Nat.lt_irrefl _)⟩
  | eot => exact ⟨Nat.le_refl _, fun _ => Nat.le_refl _⟩
  | cat _ _ ih1 ih2 => exact ⟨by omega, fun h => by omega⟩
  | altl _ ih => exact ih
  | altr _ ih => exact ih
  | star0 i => exact ⟨Nat.le_refl _, fun h => absurd h (Nat.lt_irrefl _)⟩
  | starS _ _ _ ih1 ih2 => exact ⟨by omega, fun h => by omega⟩

/-- the textbook iteration rule (possibly empty iterations) is admissible -/
theorem Match.star_step {t : List Nat} {a : R} {i k j : Nat}
    (h1 : Match t a i k) (h2 : Match t (.star a) k j) : Match t (.star a) i j := by
  rcases Nat.lt_or_ge i k with h | h
  · exact .starS h1 h h2
  · have := h1.le.1
    have e : i = k := by omega
    subst e; exact h2

/-! ### soundness and completeness of `ends` -/

theorem starEnds_sound {t : List Nat} {a : R} {f : Nat → List Nat}
    (hf : ∀ i j, j ∈ f i → Match t a i j) :
    ∀ fuel i j, j ∈ starEnds f fuel i → Match t (.star a) i j := by
  intro fuel
  induction fuel with
  | zero =>
    intro i j h
    simp [starEnds] at h
    subst h; exact .star0 _
  | succ n ih =>
    intro i j h
    simp only [starEnds, List.mem_cons, List.mem_eraseDups, List.mem_flatMap, List.mem_filter] at h
    rcases h with h | ⟨k, ⟨hk, hlt⟩, hj⟩
    · subst h; exact .star0 _
    · exact .starS (hf _ _ hk) (by simpa using hlt) (ih _ _ hj)

theorem starEnds_complete {t : List Nat} {a : R} {f : Nat → List Nat}
    (hf : ∀ i j, Match t a i j → j ∈ f i) :
    ∀ fuel i j, Match t (.star a) i j → t.length - i ≤ fuel → j ∈ starEnds f fuel i := by
  intro fuel
  induction fuel with
  | zero =>
    intro i j h hl
    cases h with
    | star0 => simp [starEnds]
    | starS h1 hlt h2 =>
      have := (h1.le.2 hlt); omega
  | succ n ih =>
    intro i j h hl
    simp only [starEnds, List.mem_cons, List.mem_eraseDups, List.mem_flatMap, List.mem_filter]
    cases h with
    | star0 => exact Or.inl rfl
    | @starS _ _ k _ h1 hlt h2 =>
      have := (h1.le.2 hlt)
      exact Or.inr ⟨k, ⟨hf _ _ h1, by simpa using hlt⟩, ih _ _ h2 (by omega)⟩

theorem ends_sound (t : List Nat) : ∀ (r : R) (i j : Nat), j ∈ ends t r i → Match t r i j := by
  intro r
  induction r with
  | eps => intro i j h; simp [ends] at h; subst h; exact .eps _
  | chr s =>
    intro i j h
    simp only [ends] at h
    split at h
    · next c hc =>
      split at h
      · next hm => simp at h; subst h; exact .chr hc hm
      · simp at h
    · simp at h
  | bot =>
    intro i j h
    simp only [ends] at h
    split at h
    · next h0 => simp at h; subst h; subst h0; exact .bot
    · simp at h
  | eot =>
    intro i j h
    simp only [ends] at h
    split at h
    · next h0 => simp at h; subst h; subst h0; exact .eot
    · simp at h
  | cat a b iha ihb =>
    intro i j h
    simp only [ends, List.mem_eraseDups, List.mem_flatMap] at h
    rcases h with ⟨k, hk, hj⟩
    exact .cat (iha _ _ hk) (ihb _ _ hj)
  | alt a b iha ihb =>
    intro i j h
    simp only [ends, List.mem_append] at h
    rcases h with h | h
    · exact .altl (iha _ _ h)
    · exact .altr (ihb _ _ h)
  | star a iha =>
    intro i j h
    simp only [ends] at h
    exact starEnds_sound (fun i j h => iha i j h) _ _ _ h

theorem ends_complete (t : List Nat) : ∀ (r : R) (i j : Nat), Match t r i j → j ∈ ends t r i := by
  intro r
  induction r with
  | eps => intro i j h; cases h; simp [ends]
  | chr s =>
    intro i j h
    cases h with
    | chr hc hm => simp [ends, hc, hm]
  | bot => intro i j h; cases h; simp [ends]
  | eot => intro i j h; cases h; simp [ends]
  | cat a b iha ihb =>
    intro i j h
    cases h with
    | cat h1 h2 =>
      simp only [ends, List.mem_eraseDups, List.mem_flatMap]
      exact ⟨_, iha _ _ h1, ihb _ _ h2⟩
  | alt a b iha ihb =>
    intro i j h
    simp only [ends, List.mem_append]
    cases h with
    | altl h => exact Or.inl (iha _ _ h)
    | altr h => exact Or.inr (ihb _ _ h)
  | star a iha =>
    intro i j h
    simp only [ends]
    exact starEnds_complete (fun i j h => iha i j h) _ _ _ h (by omega)

theorem mem_ends {t : List Nat} {r : R} {i j : Nat} : j ∈ ends t r i ↔ Match t r i j :=
  ⟨ends_sound t r i j, ends_complete t r i j⟩

/-- `search` (Go's `MatchString`) decides: some substring of the text matches -/
theorem search_iff {r : R} {t : List Nat} :
    search r t = true ↔ ∃ i j, i ≤ t.length ∧ Match t r i j := by
  simp only [search, List.any_eq_true, List.mem_range]
  constructor
  · rintro ⟨i, hi, hne⟩
    cases he : ends t r i with
    | nil => simp [he] at hne
    | cons j l =>
      exact ⟨i, j, by omega, mem_ends.1 (by simp [he])⟩
  · rintro ⟨i, j, hi, hm⟩
    refine ⟨i, by omega, ?_⟩
    have := mem_ends.2 hm
    cases he : ends t r i with
    | nil => simp [he] at this
    | cons j l => simp

end Regex
