import Model.ExportReplay
namespace Export

/-- every stored entry carries the verdict of the loop checks on its own path -/
def Marked (g : Global) (l a : Nat) (ib : Bool) (adj : List AdjIn) : Prop :=
  ∀ e ∈ adj, e.rejected = inboundReject g l a ib e.path

theorem mem_upsert {e x : AdjIn} {adj : List AdjIn} (h : x ∈ upsert e adj) : x = e ∨ x ∈ adj := by
  induction adj with
  | nil => simp [upsert] at h; exact Or.inl h
  | cons y rest ih =>
    unfold upsert at h
    split at h
    · rcases List.mem_cons.1 h with h | h
      · exact Or.inl h
      · exact Or.inr (List.mem_cons_of_mem _ h)
    · rcases List.mem_cons.1 h with h | h
      · exact Or.inr (by rw [h]; simp)
      · rcases ih h with h' | h'
        · exact Or.inl h'
        · exact Or.inr (List.mem_cons_of_mem _ h')

theorem marked_step (g : Global) (l a : Nat) (ib : Bool) (adj : List AdjIn) (ev : InEv)
    (h : Marked g l a ib adj) : Marked g l a ib (inStep g l a ib adj ev) := by
  cases ev with
  | ann k p =>
    intro e he
    simp only [inStep, recvAnnounce] at he
    rcases mem_upsert he with h' | h'
    · subst h'; rfl
    · exact h e h'
  | wd k =>
    intro e he
    simp only [inStep, recvWithdraw] at he
    exact h e (List.mem_filter.1 he).1

theorem marked_run (g : Global) (l a : Nat) (ib : Bool) (evs : List InEv) :
    Marked g l a ib (runIn g l a ib evs) := by
  unfold runIn
  suffices H : ∀ adj, Marked g l a ib adj → Marked g l a ib (evs.foldl (inStep g l a ib) adj) from
    H [] (fun e he => by simp at he)
  induction evs with
  | nil => intro adj h; exact h
  | cons ev rest ih => intro adj h; exact ih _ (marked_step g l a ib adj ev h)

end Export
