/-
  Invariants of the ADD-PATH send model (Model/AddPathSend.lean): what holds of the table side
  (local path identifiers) and of the per-peer bookkeeping after EVERY history.
-/
import Model.AddPathSend
import Lemmas.BestPathHist
namespace AddPathSend
open BestPath

/-- the table side: one path per (source, path-id); local identifiers pairwise different, never
    0, and flagged in the bitmap -/
structure TblInv (t : Tbl) : Prop where
  key  : NodupKey t.known
  ids  : (t.known.map (·.id)).Nodup
  nz   : ∀ x, x ∈ t.known → x.id ≠ 0
  used : ∀ x, x ∈ t.known → x.id ∈ t.used

/-- the bookkeeping of an ESTABLISHED peer with send-max `k` against the table `t` -/
structure BkInv (elig : Cand → Bool) (k : Nat) (t : Tbl) (b : Bk) : Prop where
  sentNodup : b.sent.Nodup
  heldNodup : b.held.Nodup
  /-- nothing is both advertised and marked held back -/
  disj : ∀ i, i ∈ b.sent → i ∉ b.held
  /-- advertised ∪ held back = the identifiers of the exportable Loc-RIB paths -/
  cover : ∀ i, (i ∈ b.sent ∨ i ∈ b.held) ↔ ∃ x, x ∈ t.known ∧ x.id = i ∧ elig x = true
  le : b.sent.length ≤ k
  /-- a path is held back only while all `k` slots are taken -/
  full : b.held ≠ [] → b.sent.length = k
  viewKeys : (b.view.map (·.1)).Nodup
  /-- the far end holds exactly the advertised identifiers, each with the CURRENT version of
      the path that carries the identifier in the Loc-RIB -/
  view : ∀ i m, (i, m) ∈ b.view ↔ (i ∈ b.sent ∧ ∃ x, x ∈ t.known ∧ x.id = i ∧ x.marker = m)

def Inv (elig : Cand → Bool) (k : Nat) (s : St) : Prop :=
  TblInv s.tbl ∧ (s.up = true → BkInv elig k s.tbl s.bk) ∧ (s.up = false → s.bk = {})

end AddPathSend
