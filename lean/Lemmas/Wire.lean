import Model.Wire
/-! helper lemmas for Props/C04 (core Lean only) -/
namespace Wire

theorem be16_length (n : Nat) : (be16 n).length = 2 := rfl
theorem be32_length (n : Nat) : (be32 n).length = 4 := rfl

theorem rd16_be16 (n : Nat) (h : n < 65536) (rest : Bytes) : rd16 (be16 n ++ rest) = n := by
  simp [be16, rd16]; omega

theorem rd32_be32 (n : Nat) (h : n < 4294967296) (rest : Bytes) : rd32 (be32 n ++ rest) = n := by
  simp [be32, rd32]; omega

theorem drop_be16 (n : Nat) (rest : Bytes) : (be16 n ++ rest).drop 2 = rest := by simp [be16]
theorem drop_be32 (n : Nat) (rest : Bytes) : (be32 n ++ rest).drop 4 = rest := by simp [be32]

theorem take_append_len {α} (l r : List α) : (l ++ r).take l.length = l := by simp
theorem drop_append_len {α} (l r : List α) : (l ++ r).drop l.length = r := by simp


/-! ### prefixes -/

theorem byteLen_le4 {bits : Nat} (h : bits ≤ 32) : byteLen bits ≤ 4 := by unfold byteLen; omega

theorem Prefix.wf_bits {p : Prefix} (h : p.wf = true) : p.bits ≤ 32 := by
  simp [Prefix.wf] at h; exact h.1.1
theorem Prefix.wf_len {p : Prefix} (h : p.wf = true) : p.addr.length = 4 := by
  simp [Prefix.wf] at h; exact h.1.2
theorem Prefix.wf_mask {p : Prefix} (h : p.wf = true) :
    maskLast p.bits (p.addr.take (byteLen p.bits) ++ List.replicate (4 - byteLen p.bits) 0) = p.addr := by
  simp [Prefix.wf] at h; exact h.2

theorem encPrefix_length {p : Prefix} (h : p.wf = true) : (encPrefix p).length = prefixLen p := by
  have h1 := byteLen_le4 (Prefix.wf_bits h)
  have h2 := Prefix.wf_len h
  simp [encPrefix, prefixLen, List.length_take]; omega

theorem decPrefix_encPrefix {p : Prefix} (h : p.wf = true) (rest : Bytes) :
    decPrefix (encPrefix p ++ rest) = some p := by
  have hb := Prefix.wf_bits h
  have h1 := byteLen_le4 hb
  have h2 := Prefix.wf_len h
  have hm := Prefix.wf_mask h
  have hbm : p.bits % 256 = p.bits := by omega
  have htl : (p.addr.take (byteLen p.bits)).length = byteLen p.bits := by
    simp [List.length_take]; omega
  simp only [encPrefix, List.cons_append, decPrefix, hbm, decodePrefix]
  have hlen : ¬ ((List.take (byteLen p.bits) p.addr ++ rest).length < byteLen p.bits) := by
    simp [List.length_append, htl]
  have hgt : ¬ (p.bits > 32) := by omega
  simp only [hlen, hgt, if_false]
  have ht : (List.take (byteLen p.bits) p.addr ++ rest).take (byteLen p.bits)
      = List.take (byteLen p.bits) p.addr := by
    have := take_append_len (List.take (byteLen p.bits) p.addr) rest
    rw [htl] at this; exact this
  rw [ht, hm]

/-! ### NLRI lists -/

def nlriLen (ap : Bool) (n : PathNLRI) : Nat := (if ap then 4 else 0) + prefixLen n.pfx

def NlriWF (ap : Bool) (n : PathNLRI) : Prop :=
  n.pfx.wf = true ∧ n.id < 4294967296 ∧ (ap = false → n.id = 0)

theorem encNlri_length {ap : Bool} {n : PathNLRI} (h : NlriWF ap n) :
    (encNlri ap n).length = nlriLen ap n := by
  have := encPrefix_length h.1
  cases ap <;> simp [encNlri, nlriLen, be32_length, this]

theorem prefixLen_pos (p : Prefix) : 1 ≤ prefixLen p := by unfold prefixLen; omega

theorem encNlris_append_assoc (ap : Bool) (n : PathNLRI) (ns : List PathNLRI) (rest : Bytes) :
    encNlris ap (n :: ns) ++ rest = encNlri ap n ++ (encNlris ap ns ++ rest) := by
  simp [encNlris, List.append_assoc]

theorem rdPathId_enc {ap : Bool} {n : PathNLRI} (h : NlriWF ap n) (rest : Bytes) :
    rdPathId ap (encNlri ap n ++ rest) = some (n.id, encPrefix n.pfx ++ rest) := by
  cases ap with
  | true =>
    have hl4 : ¬ ((be32 n.id ++ (encPrefix n.pfx ++ rest)).length < 4) := by simp [be32_length]
    simp only [rdPathId, encNlri, if_true, List.append_assoc, hl4, if_false,
      rd32_be32 n.id h.2.1, drop_be32]
  | false =>
    have hid : n.id = 0 := h.2.2 rfl
    simp [rdPathId, encNlri, hid]

theorem decWithdrawn_enc (ap : Bool) : ∀ (ns : List PathNLRI) (fuel : Nat) (rest : Bytes),
    (∀ n ∈ ns, NlriWF ap n) → (encNlris ap ns).length ≤ fuel →
    decWithdrawn ap fuel (encNlris ap ns).length (encNlris ap ns ++ rest) = some (ns, rest)
  | [], fuel, rest, _, _ => by
    cases fuel <;> simp [encNlris, decWithdrawn]
  | n :: ns, fuel, rest, hwf, hf => by
    have hn : NlriWF ap n := hwf n (by simp)
    have hns : ∀ m ∈ ns, NlriWF ap m := fun m hm => hwf m (by simp [hm])
    have hl := encNlri_length hn
    have hpl := encPrefix_length hn.1
    have hpos := prefixLen_pos n.pfx
    have hlen : (encNlris ap (n :: ns)).length = nlriLen ap n + (encNlris ap ns).length := by
      simp [encNlris, hl]
    cases fuel with
    | zero => simp [hlen, nlriLen] at hf; omega
    | succ fuel =>
      have ih := decWithdrawn_enc ap ns fuel rest hns (by rw [hlen] at hf; unfold nlriLen at hf; omega)
      rw [encNlris_append_assoc, hlen]
      unfold decWithdrawn
      have hne : ¬ (nlriLen ap n + (encNlris ap ns).length = 0) := by unfold nlriLen; omega
      simp only [hne, if_false, rdPathId_enc hn, decPrefix_encPrefix hn.1]
      have hw : ¬ (prefixLen n.pfx + (if ap = true then 4 else 0) > nlriLen ap n + (encNlris ap ns).length) := by
        unfold nlriLen; omega
      have hd : ¬ ((encPrefix n.pfx ++ (encNlris ap ns ++ rest)).length < prefixLen n.pfx) := by
        simp [hpl]
      simp only [hw, hd, if_false]
      have e1 : nlriLen ap n + (encNlris ap ns).length - (prefixLen n.pfx + (if ap = true then 4 else 0))
          = (encNlris ap ns).length := by
        unfold nlriLen; omega
      have e2 : (encPrefix n.pfx ++ (encNlris ap ns ++ rest)).drop (prefixLen n.pfx) = encNlris ap ns ++ rest := by
        rw [← hpl]; exact drop_append_len _ _
      rw [e1, e2, ih]

theorem decNlriTail_enc (ap : Bool) : ∀ (ns : List PathNLRI) (fuel : Nat),
    (∀ n ∈ ns, NlriWF ap n) → (encNlris ap ns).length ≤ fuel →
    decNlriTail ap fuel (encNlris ap ns) = some ns
  | [], fuel, _, _ => by
    cases fuel <;> simp [encNlris, decNlriTail]
  | n :: ns, fuel, hwf, hf => by
    have hn : NlriWF ap n := hwf n (by simp)
    have hns : ∀ m ∈ ns, NlriWF ap m := fun m hm => hwf m (by simp [hm])
    have hl := encNlri_length hn
    have hpl := encPrefix_length hn.1
    have hpos := prefixLen_pos n.pfx
    have hb := byteLen_le4 (Prefix.wf_bits hn.1)
    have hlen : (encNlris ap (n :: ns)).length = nlriLen ap n + (encNlris ap ns).length := by
      simp [encNlris, hl]
    cases fuel with
    | zero => simp [hlen, nlriLen] at hf; omega
    | succ fuel =>
      have ih := decNlriTail_enc ap ns fuel hns (by rw [hlen] at hf; unfold nlriLen at hf; omega)
      have hne : ¬ ((encNlris ap (n :: ns)).length = 0) := by rw [hlen]; unfold nlriLen; omega
      unfold decNlriTail
      simp only [hne, if_false]
      have : encNlris ap (n :: ns) = encNlri ap n ++ encNlris ap ns := rfl
      rw [this, rdPathId_enc hn]
      have hd : ¬ ((encPrefix n.pfx ++ encNlris ap ns).length < prefixLen n.pfx) := by simp [hpl]
      have h32 : ¬ (prefixLen n.pfx > 32) := by unfold prefixLen; omega
      simp only [decPrefix_encPrefix hn.1, hd, h32, if_false]
      have e2 : (encPrefix n.pfx ++ encNlris ap ns).drop (prefixLen n.pfx) = encNlris ap ns := by
        rw [← hpl]; exact drop_append_len _ _
      rw [e2, ih]


/-! ### fixed-width lists -/

theorem encU32s_length : ∀ vs : List Nat, (encU32s vs).length = vs.length * 4
  | [] => rfl
  | v :: vs => by simp [encU32s, be32_length, encU32s_length vs]; omega

theorem rdU32s_enc : ∀ (vs : List Nat) (rest : Bytes), (∀ v ∈ vs, v < 4294967296) →
    rdU32s vs.length (encU32s vs ++ rest) = vs
  | [], _, _ => rfl
  | v :: vs, rest, h => by
    have hv := h v (by simp)
    have ih := rdU32s_enc vs rest (fun x hx => h x (by simp [hx]))
    simp only [encU32s, List.length_cons, rdU32s, List.append_assoc, rd32_be32 v hv, drop_be32, ih]

def TripleWF (t : Nat × Nat × Nat) : Prop := t.1 < 4294967296 ∧ t.2.1 < 4294967296 ∧ t.2.2 < 4294967296

theorem encLarge_length : ∀ vs : List (Nat × Nat × Nat), (encLarge vs).length = vs.length * 12
  | [] => rfl
  | (a, b, c) :: vs => by simp [encLarge, be32_length, encLarge_length vs]; omega

theorem rdLarge_enc : ∀ (vs : List (Nat × Nat × Nat)) (rest : Bytes), (∀ v ∈ vs, TripleWF v) →
    rdLarge vs.length (encLarge vs ++ rest) = vs
  | [], _, _ => rfl
  | (a, b, c) :: vs, rest, h => by
    have hv := h (a, b, c) (by simp)
    have ih := rdLarge_enc vs rest (fun x hx => h x (by simp [hx]))
    simp only [encLarge, List.length_cons, rdLarge, List.append_assoc, rd32_be32 a hv.1, drop_be32]
    have d8 : (be32 a ++ (be32 b ++ (be32 c ++ (encLarge vs ++ rest)))).drop 8
        = be32 c ++ (encLarge vs ++ rest) := by simp [be32]
    have d12 : (be32 a ++ (be32 b ++ (be32 c ++ (encLarge vs ++ rest)))).drop 12
        = encLarge vs ++ rest := by simp [be32]
    rw [d8, d12, rd32_be32 b hv.2.1, rd32_be32 c hv.2.2, ih]

/-! ### AS path segments -/

def asWidth (w4 : Bool) : Nat := if w4 then 4 else 2
def asBound (w4 : Bool) : Nat := if w4 then 4294967296 else 65536

def SegWF (w4 : Bool) (s : Seg) : Prop :=
  s.w4 = w4 ∧ 1 ≤ s.typ ∧ s.typ ≤ 4 ∧ s.num = s.as.length ∧ 1 ≤ s.as.length ∧ s.as.length ≤ 255 ∧
  ∀ a ∈ s.as, a < asBound w4

theorem encAs_length (w4 : Bool) (a : Nat) : (encAs w4 a).length = asWidth w4 := by
  cases w4 <;> rfl

theorem encAsList_length (w4 : Bool) : ∀ as : List Nat, (encAsList w4 as).length = as.length * asWidth w4
  | [] => by simp [encAsList]
  | a :: as => by
    simp [encAsList, encAs_length, encAsList_length w4 as, Nat.add_mul]; omega

theorem rdAsList_enc (w4 : Bool) : ∀ (as : List Nat) (rest : Bytes), (∀ a ∈ as, a < asBound w4) →
    rdAsList w4 as.length (encAsList w4 as ++ rest) = as
  | [], _, _ => rfl
  | a :: as, rest, h => by
    have ha := h a (by simp)
    have ih := rdAsList_enc w4 as rest (fun x hx => h x (by simp [hx]))
    cases w4 with
    | true =>
      simp only [asBound, if_true] at ha
      simp only [encAsList, encAs, if_true, List.length_cons, rdAsList, List.append_assoc,
        rd32_be32 a ha, drop_be32, ih]
    | false =>
      simp only [asBound, Bool.false_eq_true, if_false] at ha
      simp only [encAsList, encAs, Bool.false_eq_true, if_false, List.length_cons, rdAsList,
        List.append_assoc, rd16_be16 a ha, drop_be16, ih]

theorem encSeg_length {w4 : Bool} {s : Seg} (h : SegWF w4 s) : (encSeg s).length = segLen s := by
  obtain ⟨hw, _⟩ := h
  simp [encSeg, segLen, encAsList_length, hw, asWidth]; omega

theorem segLen_eq {w4 : Bool} {s : Seg} (h : SegWF w4 s) : segLen s = 2 + s.as.length * asWidth w4 := by
  obtain ⟨hw, _⟩ := h
  simp [segLen, hw, asWidth]

theorem encSegs_length {w4 : Bool} : ∀ segs : List Seg, (∀ s ∈ segs, SegWF w4 s) →
    (encSegs segs).length = segsLen segs
  | [], _ => rfl
  | s :: ss, h => by
    simp [encSegs, segsLen, encSeg_length (h s (by simp)),
      encSegs_length ss (fun x hx => h x (by simp [hx]))]

theorem asWidth_even (w4 : Bool) : asWidth w4 % 2 = 0 := by cases w4 <;> rfl

theorem segsLen_even {w4 : Bool} : ∀ segs : List Seg, (∀ s ∈ segs, SegWF w4 s) → segsLen segs % 2 = 0
  | [], _ => rfl
  | s :: ss, h => by
    have h1 := segLen_eq (h s (by simp))
    have h2 := segsLen_even ss (fun x hx => h x (by simp [hx]))
    have h3 : (s.as.length * asWidth w4) % 2 = 0 := by
      rw [Nat.mul_mod, asWidth_even]; simp
    simp only [segsLen, h1]; omega

theorem decSeg_enc {w4 : Bool} {s : Seg} (h : SegWF w4 s) (rest : Bytes) :
    decSeg w4 (encSeg s ++ rest) = some s := by
  obtain ⟨hw, ht1, ht4, hn, hl1, hl255, hb⟩ := h
  have htm : s.typ % 256 = s.typ := by omega
  have hnm : s.num % 256 = s.as.length := by omega
  have hal := encAsList_length w4 s.as
  unfold decSeg
  simp only [encSeg, List.cons_append, hw, htm, hnm]
  have h2 : ¬ ((s.typ :: s.as.length :: (encAsList w4 s.as ++ rest)).length < 2) := by simp
  have hd : (s.typ :: s.as.length :: (encAsList w4 s.as ++ rest)).drop 2 = encAsList w4 s.as ++ rest := rfl
  have g0 : (s.typ :: s.as.length :: (encAsList w4 s.as ++ rest)).getD 0 0 = s.typ := rfl
  have g1 : (s.typ :: s.as.length :: (encAsList w4 s.as ++ rest)).getD 1 0 = s.as.length := rfl
  have hs : ¬ ((encAsList w4 s.as ++ rest).length < s.as.length * (if w4 = true then 4 else 2)) := by
    have : (if w4 = true then 4 else 2) = asWidth w4 := rfl
    rw [this]; simp [hal]
  simp only [h2, if_false, hd, g0, g1, hs, rdAsList_enc w4 s.as rest hb]
  cases s; simp_all

theorem decSegs_enc {w4 : Bool} : ∀ (segs : List Seg) (fuel : Nat), (∀ s ∈ segs, SegWF w4 s) →
    (encSegs segs).length ≤ fuel → decSegs w4 fuel (encSegs segs) = some segs
  | [], fuel, _, _ => by cases fuel <;> simp [encSegs, decSegs]
  | s :: ss, fuel, h, hf => by
    have hs := h s (by simp)
    have hss : ∀ x ∈ ss, SegWF w4 x := fun x hx => h x (by simp [hx])
    have hl := encSeg_length hs
    have hlen : (encSegs (s :: ss)).length = segLen s + (encSegs ss).length := by simp [encSegs, hl]
    have hpos : 2 ≤ segLen s := by unfold segLen; omega
    cases fuel with
    | zero => omega
    | succ fuel =>
      have ih := decSegs_enc ss fuel hss (by omega)
      have hne : ¬ ((encSegs (s :: ss)).length = 0) := by omega
      unfold decSegs
      simp only [hne, if_false]
      have e : encSegs (s :: ss) = encSeg s ++ encSegs ss := rfl
      rw [e]
      have hd : ¬ ((encSeg s ++ encSegs ss).length < segLen s) := by simp [hl]
      have e2 : (encSeg s ++ encSegs ss).drop (segLen s) = encSegs ss := by
        rw [← hl]; exact drop_append_len _ _
      simp only [decSeg_enc hs, hd, if_false, e2, ih]

theorem validateAsLoop_enc {w4 : Bool} : ∀ (segs : List Seg) (fuel : Nat), (∀ s ∈ segs, SegWF w4 s) →
    (encSegs segs).length ≤ fuel → validateAsLoop w4 fuel (encSegs segs) = true
  | [], fuel, _, _ => by cases fuel <;> simp [encSegs, validateAsLoop]
  | s :: ss, fuel, h, hf => by
    have hs := h s (by simp)
    have hss : ∀ x ∈ ss, SegWF w4 x := fun x hx => h x (by simp [hx])
    have hl := encSeg_length hs
    have hlen : (encSegs (s :: ss)).length = segLen s + (encSegs ss).length := by simp [encSegs, hl]
    have hpos : 2 ≤ segLen s := by unfold segLen; omega
    obtain ⟨hw, ht1, ht4, hn, hl1, hl255, hb⟩ := hs
    have hal := encAsList_length w4 s.as
    cases fuel with
    | zero => omega
    | succ fuel =>
      have ih := validateAsLoop_enc ss fuel hss (by omega)
      have hne : ¬ ((encSegs (s :: ss)).length = 0) := by omega
      have hn2 : ¬ ((encSegs (s :: ss)).length < 2) := by omega
      unfold validateAsLoop
      simp only [hne, hn2, if_false]
      have htm : s.typ % 256 = s.typ := by omega
      have hnm : s.num % 256 = s.as.length := by omega
      have e : encSegs (s :: ss) = s.typ :: s.as.length :: (encAsList w4 s.as ++ encSegs ss) := by
        simp [encSegs, encSeg, htm, hnm, hw]
      rw [e]
      have g0 : (s.typ :: s.as.length :: (encAsList w4 s.as ++ encSegs ss)).getD 0 0 = s.typ := rfl
      have g1 : (s.typ :: s.as.length :: (encAsList w4 s.as ++ encSegs ss)).getD 1 0 = s.as.length := rfl
      have hd : (s.typ :: s.as.length :: (encAsList w4 s.as ++ encSegs ss)).drop 2
          = encAsList w4 s.as ++ encSegs ss := rfl
      have hw' : (if w4 = true then 4 else 2) = asWidth w4 := rfl
      have c1 : (s.typ = 0 || decide (s.typ > 4)) = false := by simp; omega
      have c2 : ¬ (s.as.length = 0) := by omega
      have c3 : ¬ (s.as.length * asWidth w4 > (encAsList w4 s.as ++ encSegs ss).length) := by
        simp [hal]
      have e2 : (encAsList w4 s.as ++ encSegs ss).drop (s.as.length * asWidth w4) = encSegs ss := by
        rw [← hal]; exact drop_append_len _ _
      simp only [g0, g1, hd, hw', c1, c2, c3, if_false, e2, ih, Bool.false_eq_true]


/-! ### attributes -/

def ValWF (o : Opts) (typ : Nat) : AttrVal → Prop
  | .origin v => typ = 1 ∧ v < 256
  | .asPath segs => typ = 2 ∧ ∀ s ∈ segs, SegWF (!o.use2) s
  | .nextHop a => typ = 3 ∧ (a.length = 4 ∨ a.length = 16)
  | .med v => typ = 4 ∧ v < 4294967296
  | .localPref v => typ = 5 ∧ v < 4294967296
  | .atomicAgg => typ = 6
  | .aggregator as4 as addr => typ = 7 ∧ as < asBound as4 ∧ addr < 4294967296
  | .communities vs => typ = 8 ∧ ∀ v ∈ vs, v < 4294967296
  | .originatorId a => typ = 9 ∧ a < 4294967296
  | .clusterList ids => typ = 10 ∧ ∀ v ∈ ids, v < 4294967296
  | .as4Path segs => typ = 17 ∧ ∀ s ∈ segs, SegWF true s
  | .as4Aggregator as addr => typ = 18 ∧ as < 4294967296 ∧ addr < 4294967296
  | .largeComm vs => typ = 32 ∧ ∀ v ∈ vs, TripleWF v
  | .unknown _ => pathAttrFlags typ = none

theorem validateAsPath_enc {use2 : Bool} (segs : List Seg) (h : ∀ s ∈ segs, SegWF (!use2) s) :
    validateAsPath use2 (encSegs segs) = some (!use2) := by
  have hl := encSegs_length segs h
  have he := segsLen_even segs h
  unfold validateAsPath
  have h1 : ¬ ((encSegs segs).length % 2 ≠ 0) := by rw [hl]; omega
  simp only [h1, if_false, validateAsLoop_enc segs _ h (Nat.le_refl _), if_true]

theorem segs_nonempty_length {w4 : Bool} {s : Seg} {ss : List Seg} (h : ∀ x ∈ s :: ss, SegWF w4 x) :
    (encSegs (s :: ss)).length ≠ 0 := by
  have hl := encSeg_length (h s (by simp))
  have : (encSegs (s :: ss)).length = segLen s + (encSegs ss).length := by simp [encSegs, hl]
  unfold segLen at this; omega

theorem decVal_enc (o : Opts) (typ : Nat) (v : AttrVal) (h : ValWF o typ v) :
    decVal o typ (encVal v).length (encVal v) = some (some v) := by
  cases v with
  | origin x =>
    obtain ⟨ht, hx⟩ := h; subst ht
    have : x % 256 = x := by omega
    simp [decVal, encVal, this]
  | asPath segs =>
    obtain ⟨ht, hs⟩ := h; subst ht
    cases segs with
    | nil => simp [decVal, encVal, encSegs]
    | cons s ss =>
      have hne := segs_nonempty_length hs
      simp only [decVal, encVal]
      simp only [hne, if_false, validateAsPath_enc (s :: ss) hs,
        decSegs_enc (s :: ss) _ hs (Nat.le_refl _)]
      simp
  | nextHop a =>
    obtain ⟨ht, ha⟩ := h; subst ht
    rcases ha with ha | ha <;> simp [decVal, encVal, ha]
  | med x =>
    obtain ⟨ht, hx⟩ := h; subst ht
    have := rd32_be32 x hx []
    simp only [List.append_nil] at this
    simp [decVal, encVal, be32_length, this]
  | localPref x =>
    obtain ⟨ht, hx⟩ := h; subst ht
    have := rd32_be32 x hx []
    simp only [List.append_nil] at this
    simp [decVal, encVal, be32_length, this]
  | atomicAgg =>
    have ht : typ = 6 := h
    subst ht
    simp [decVal, encVal]
  | aggregator as4 as addr =>
    obtain ⟨ht, has, had⟩ := h; subst ht
    have h2 := rd32_be32 addr had []
    simp only [List.append_nil] at h2
    cases as4 with
    | true =>
      simp only [asBound, if_true] at has
      simp [decVal, encVal, be32_length, rd32_be32 as has, drop_be32, h2]
    | false =>
      simp only [asBound, Bool.false_eq_true, if_false] at has
      simp [decVal, encVal, be32_length, be16_length, rd16_be16 as has, drop_be16, h2]
  | communities vs =>
    obtain ⟨ht, hv⟩ := h; subst ht
    have hr := rdU32s_enc vs [] hv
    simp only [List.append_nil] at hr
    simp [decVal, encVal, encU32s_length, hr]
  | originatorId x =>
    obtain ⟨ht, hx⟩ := h; subst ht
    have := rd32_be32 x hx []
    simp only [List.append_nil] at this
    simp [decVal, encVal, be32_length, this]
  | clusterList vs =>
    obtain ⟨ht, hv⟩ := h; subst ht
    have hr := rdU32s_enc vs [] hv
    simp only [List.append_nil] at hr
    simp [decVal, encVal, encU32s_length, hr]
  | as4Path segs =>
    obtain ⟨ht, hs⟩ := h; subst ht
    cases segs with
    | nil => simp [decVal, encVal, encSegs]
    | cons s ss =>
      have hne := segs_nonempty_length hs
      have hv := validateAsPath_enc (use2 := false) (s :: ss) hs
      simp only [decVal, encVal]
      simp only [hne, if_false, hv, decSegs_enc (s :: ss) _ hs (Nat.le_refl _)]
      simp
  | as4Aggregator as addr =>
    obtain ⟨ht, has, had⟩ := h; subst ht
    have h2 := rd32_be32 addr had []
    simp only [List.append_nil] at h2
    simp [decVal, encVal, be32_length, rd32_be32 as has, drop_be32, h2]
  | largeComm vs =>
    obtain ⟨ht, hv⟩ := h; subst ht
    have hr := rdLarge_enc vs [] hv
    simp only [List.append_nil] at hr
    simp [decVal, encVal, encLarge_length, hr]
  | unknown x =>
    have hn : pathAttrFlags typ = none := h
    have hk : typ ≠ 1 ∧ typ ≠ 2 ∧ typ ≠ 3 ∧ typ ≠ 4 ∧ typ ≠ 5 ∧ typ ≠ 6 ∧ typ ≠ 7 ∧ typ ≠ 8 ∧ typ ≠ 9 ∧
        typ ≠ 10 ∧ typ ≠ 17 ∧ typ ≠ 18 ∧ typ ≠ 32 := by
      refine ⟨?_, ?_, ?_, ?_, ?_, ?_, ?_, ?_, ?_, ?_, ?_, ?_, ?_⟩ <;>
        (intro e; subst e; simp [pathAttrFlags] at hn)
    obtain ⟨k1, k2, k3, k4, k5, k6, k7, k8, k9, k10, k17, k18, k32⟩ := hk
    simp [decVal, encVal, k1, k2, k3, k4, k5, k6, k7, k8, k9, k10, k17, k18, k32, hn]


def AttrWF (o : Opts) (a : Attr) : Prop :=
  a.flags < 256 ∧ a.typ < 256 ∧ a.length = (encVal a.val).length ∧ a.length < 65536 ∧
  (hasBit a.flags FLAG_EXT = true ∨ a.length ≤ 255) ∧ validateFlags a.typ a.flags = true ∧
  ValWF o a.typ a.val

theorem encAttrHdr_ext {flags typ : Nat} {value : Bytes} (hf : flags < 256) (ht : typ < 256)
    (hl : value.length < 65536) (he : hasBit flags FLAG_EXT = true) :
    encAttrHdr flags typ value = flags :: typ :: (be16 value.length ++ value) := by
  have h1 : value.length % 65536 = value.length := Nat.mod_eq_of_lt hl
  have h2 : flags % 256 = flags := Nat.mod_eq_of_lt hf
  have h3 : typ % 256 = typ := Nat.mod_eq_of_lt ht
  simp [encAttrHdr, h1, h2, h3, he]

theorem encAttrHdr_short {flags typ : Nat} {value : Bytes} (hf : flags < 256) (ht : typ < 256)
    (hl : value.length ≤ 255) (he : hasBit flags FLAG_EXT = false) :
    encAttrHdr flags typ value = flags :: typ :: value.length :: value := by
  have h1 : value.length % 65536 = value.length := Nat.mod_eq_of_lt (by omega)
  have h2 : flags % 256 = flags := Nat.mod_eq_of_lt hf
  have h3 : typ % 256 = typ := Nat.mod_eq_of_lt ht
  have h4 : value.length % 256 = value.length := Nat.mod_eq_of_lt (by omega)
  have h5 : ¬ (value.length > 255) := by omega
  simp [encAttrHdr, h1, h2, h3, h4, he, h5]

theorem encAttr_length {o : Opts} {a : Attr} (h : AttrWF o a) : (encAttr a).length = attrLen a := by
  obtain ⟨hf, ht, hl, hlt, he, _, _⟩ := h
  unfold encAttr attrLen
  cases hb : hasBit a.flags FLAG_EXT with
  | true =>
    rw [encAttrHdr_ext hf ht (by omega) hb]; simp [be16_length, hl]; omega
  | false =>
    have : a.length ≤ 255 := by rcases he with he | he; (rw [hb] at he; cases he); exact he
    rw [encAttrHdr_short hf ht (by omega) hb]; simp [hl]; omega

theorem decAttrHdr_enc {flags typ : Nat} {value : Bytes} (hf : flags < 256) (ht : typ < 256)
    (hl : value.length < 65536) (he : hasBit flags FLAG_EXT = true ∨ value.length ≤ 255)
    (hv : validateFlags typ flags = true) (rest : Bytes) :
    decAttrHdr (encAttrHdr flags typ value ++ rest) = some (flags, typ, value.length, value) := by
  cases hb : hasBit flags FLAG_EXT with
  | true =>
    rw [encAttrHdr_ext hf ht hl hb]
    unfold decAttrHdr
    have e0 : (flags :: typ :: (be16 value.length ++ value) ++ rest) =
        flags :: typ :: (be16 value.length ++ (value ++ rest)) := by simp
    rw [e0]
    have h2 : ¬ ((flags :: typ :: (be16 value.length ++ (value ++ rest))).length < 2) := by simp
    have h4 : ¬ ((flags :: typ :: (be16 value.length ++ (value ++ rest))).length < 4) := by
      simp [be16_length]
    have g0 : (flags :: typ :: (be16 value.length ++ (value ++ rest))).getD 0 0 = flags := rfl
    have g1 : (flags :: typ :: (be16 value.length ++ (value ++ rest))).getD 1 0 = typ := rfl
    have d2 : (flags :: typ :: (be16 value.length ++ (value ++ rest))).drop 2
        = be16 value.length ++ (value ++ rest) := rfl
    have d4 : (flags :: typ :: (be16 value.length ++ (value ++ rest))).drop 4 = value ++ rest := by
      simp [be16]
    simp only [h2, if_false, g0, g1, hb, if_true, h4, d2, d4, rd16_be16 _ hl]
    have c1 : ¬ ((value ++ rest).length < value.length) := by simp
    simp [c1, hv]
  | false =>
    have hle : value.length ≤ 255 := by rcases he with he | he; (rw [hb] at he; cases he); exact he
    rw [encAttrHdr_short hf ht hle hb]
    unfold decAttrHdr
    have e0 : (flags :: typ :: value.length :: value ++ rest) =
        flags :: typ :: value.length :: (value ++ rest) := by simp
    rw [e0]
    have h2 : ¬ ((flags :: typ :: value.length :: (value ++ rest)).length < 2) := by simp
    have h3 : ¬ ((flags :: typ :: value.length :: (value ++ rest)).length < 3) := by simp
    have g0 : (flags :: typ :: value.length :: (value ++ rest)).getD 0 0 = flags := rfl
    have g1 : (flags :: typ :: value.length :: (value ++ rest)).getD 1 0 = typ := rfl
    have g2 : (flags :: typ :: value.length :: (value ++ rest)).getD 2 0 = value.length := rfl
    have d3 : (flags :: typ :: value.length :: (value ++ rest)).drop 3 = value ++ rest := rfl
    simp only [h2, if_false, g0, g1, g2, hb, Bool.false_eq_true, h3, d3]
    have c1 : ¬ ((value ++ rest).length < value.length) := by simp
    simp [c1, hv]

theorem decAttr_enc {o : Opts} {a : Attr} (h : AttrWF o a) (rest : Bytes) :
    decAttr o (encAttr a ++ rest) = .ok a := by
  obtain ⟨hf, ht, hl, hlt, he, hv, hval⟩ := h
  unfold decAttr encAttr
  rw [decAttrHdr_enc hf ht (by omega) (by rw [← hl]; exact he) hv rest]
  simp only [decVal_enc o a.typ a.val hval]
  cases a; simp_all

theorem decAttrs_enc (o : Opts) : ∀ (as : List Attr) (fuel : Nat) (rest : Bytes),
    (∀ a ∈ as, AttrWF o a) → (encAttrs as).length ≤ fuel → (encAttrs as).length < 65536 →
    decAttrs o fuel (encAttrs as).length (encAttrs as ++ rest) = .ok (as, rest)
  | [], fuel, rest, _, _, _ => by cases fuel <;> simp [encAttrs, decAttrs]
  | a :: as, fuel, rest, hwf, hf, h64 => by
    have ha := hwf a (by simp)
    have has : ∀ x ∈ as, AttrWF o x := fun x hx => hwf x (by simp [hx])
    have hl := encAttr_length ha
    have hlen : (encAttrs (a :: as)).length = attrLen a + (encAttrs as).length := by
      simp [encAttrs, hl]
    have hpos : 3 ≤ attrLen a := by unfold attrLen; split <;> omega
    cases fuel with
    | zero => omega
    | succ fuel =>
      have ih := decAttrs_enc o as fuel rest has (by omega) (by omega)
      have e : encAttrs (a :: as) ++ rest = encAttr a ++ (encAttrs as ++ rest) := by
        simp [encAttrs, List.append_assoc]
      rw [e, hlen]
      unfold decAttrs
      have c0 : ¬ (attrLen a + (encAttrs as).length = 0) := by omega
      have c1 : ¬ (attrLen a + (encAttrs as).length < 3) := by omega
      have c2 : ¬ ((encAttr a ++ (encAttrs as ++ rest)).length < 2) := by simp [hl]; omega
      simp only [c0, c1, c2, if_false, decAttr_enc ha]
      have hm : attrLen a % 65536 = attrLen a := Nat.mod_eq_of_lt (by omega)
      have c3 : ¬ (attrLen a % 65536 > attrLen a + (encAttrs as).length) := by omega
      have c4 : ¬ ((encAttr a ++ (encAttrs as ++ rest)).length < attrLen a) := by simp [hl]
      have e1 : attrLen a + (encAttrs as).length - attrLen a % 65536 = (encAttrs as).length := by omega
      have e2 : (encAttr a ++ (encAttrs as ++ rest)).drop (attrLen a) = encAttrs as ++ rest := by
        rw [← hl]; exact drop_append_len _ _
      simp only [c3, c4, if_false, e1, e2, ih]


/-! ### UPDATE and whole messages -/

def UpdateWF (o : Opts) (u : Update) : Prop :=
  (∀ n ∈ u.withdrawn, NlriWF o.apTx n) ∧ (∀ n ∈ u.nlri, NlriWF o.apTx n) ∧
  (∀ a ∈ u.attrs, AttrWF o a) ∧
  (encNlris o.apTx u.withdrawn).length < 65536 ∧ (encAttrs u.attrs).length < 65536

theorem decUpdate_enc {o : Opts} {u : Update} (hap : o.apRx = o.apTx) (h : UpdateWF o u) :
    decUpdate o (encUpdate o u) = .ok (normUpdate o u) := by
  obtain ⟨hw, hn, ha, hwl, hal⟩ := h
  have e : encUpdate o u = be16 (encNlris o.apTx u.withdrawn).length ++
      (encNlris o.apTx u.withdrawn ++ (be16 (encAttrs u.attrs).length ++
        (encAttrs u.attrs ++ encNlris o.apTx u.nlri))) := by
    simp [encUpdate, List.append_assoc]
  rw [e]
  unfold decUpdate
  have c0 : ¬ ((be16 (encNlris o.apTx u.withdrawn).length ++
      (encNlris o.apTx u.withdrawn ++ (be16 (encAttrs u.attrs).length ++
        (encAttrs u.attrs ++ encNlris o.apTx u.nlri)))).length < 2) := by simp [be16_length]
  simp only [c0, if_false, rd16_be16 _ hwl, drop_be16]
  have c1 : ¬ ((encNlris o.apTx u.withdrawn ++ (be16 (encAttrs u.attrs).length ++
        (encAttrs u.attrs ++ encNlris o.apTx u.nlri))).length < (encNlris o.apTx u.withdrawn).length) := by
    simp
  simp only [c1, if_false, hap, decWithdrawn_enc o.apTx u.withdrawn _ _ hw (Nat.le_refl _)]
  have c2 : ¬ ((be16 (encAttrs u.attrs).length ++
        (encAttrs u.attrs ++ encNlris o.apTx u.nlri)).length < 2) := by simp [be16_length]
  simp only [c2, if_false, rd16_be16 _ hal, drop_be16]
  have c3 : ¬ ((encAttrs u.attrs ++ encNlris o.apTx u.nlri).length < (encAttrs u.attrs).length) := by
    simp
  simp only [c3, if_false, decAttrs_enc o u.attrs _ _ ha (Nat.le_refl _) hal,
    decNlriTail_enc o.apTx u.nlri _ hn (Nat.le_refl _)]
  simp [normUpdate, Nat.mod_eq_of_lt hwl, Nat.mod_eq_of_lt hal]

def BodyWF (o : Opts) (typ : Nat) : Body → Prop
  | .update u => typ = 2 ∧ UpdateWF o u
  | .notification c s _ => typ = 3 ∧ c < 256 ∧ s < 256
  | .keepalive => typ = 4
  | .routeRefresh afi d s => typ = 5 ∧ afi < 65536 ∧ d < 256 ∧ s < 256
  | .openRaw _ => False

theorem decBody_enc {o : Opts} {typ : Nat} {b : Body} (hap : o.apRx = o.apTx) (h : BodyWF o typ b) :
    decBody o typ (encBody o b) = .ok (normBody o b) := by
  cases b with
  | update u =>
    obtain ⟨ht, hu⟩ := h; subst ht
    simp [decBody, encBody, normBody, decUpdate_enc hap hu]
  | notification c s d =>
    obtain ⟨ht, hc, hs⟩ := h; subst ht
    simp [decBody, encBody, normBody, Nat.mod_eq_of_lt hc, Nat.mod_eq_of_lt hs]
  | keepalive =>
    have ht : typ = 4 := h
    subst ht
    simp [decBody, encBody, normBody]
  | routeRefresh afi d s =>
    obtain ⟨ht, ha, hd, hs⟩ := h; subst ht
    have := rd16_be16 afi ha [d, s]
    simp only [be16, List.cons_append, List.nil_append] at this
    simp [decBody, encBody, normBody, this, Nat.mod_eq_of_lt hd, Nat.mod_eq_of_lt hs, be16]
  | openRaw r => exact absurd h (by simp [BodyWF])

theorem marker_length : marker.length = 16 := rfl

theorem parse_enc {o : Opts} {len typ : Nat} {b trailing : Bytes} (hl : len = 19 + b.length)
    (h64 : (encHeader len typ ++ b ++ trailing).length < 65536) (ht : typ < 256) :
    parse o (encHeader len typ ++ b ++ trailing) =
      match decBody o typ b with
      | .ok body => .ok ⟨len, typ, body⟩
      | .reject => .reject
      | .unmodelled => .unmodelled := by
  have hlen : (encHeader len typ ++ b ++ trailing).length = 19 + b.length + trailing.length := by
    simp [encHeader, marker_length, be16_length]; omega
  have hlt : len < 65536 := by omega
  have e : encHeader len typ ++ b ++ trailing = marker ++ (be16 len ++ (typ :: (b ++ trailing))) := by
    simp [encHeader, Nat.mod_eq_of_lt ht, List.append_assoc]
  unfold parse
  have c0 : ¬ ((encHeader len typ ++ b ++ trailing).length % 65536 < 19) := by
    rw [Nat.mod_eq_of_lt h64, hlen]; omega
  have t16 : (encHeader len typ ++ b ++ trailing).take 16 = marker := by
    rw [e, ← marker_length]; exact take_append_len _ _
  have d16 : (encHeader len typ ++ b ++ trailing).drop 16 = be16 len ++ (typ :: (b ++ trailing)) := by
    rw [e, ← marker_length]; exact drop_append_len _ _
  have g18 : (encHeader len typ ++ b ++ trailing).getD 18 0 = typ := by
    rw [e]; simp [marker, be16]
  have c1 : ¬ (len < 19) := by omega
  have c2 : ¬ (len > (encHeader len typ ++ b ++ trailing).length) := by rw [hlen]; omega
  have tk : ((encHeader len typ ++ b ++ trailing).take len).drop 19 = b := by
    have l2 : (encHeader len typ ++ b).length = len := by
      simp [encHeader, marker_length, be16_length]; omega
    have t1 : (encHeader len typ ++ b ++ trailing).take len = encHeader len typ ++ b := by
      have := take_append_len (encHeader len typ ++ b) trailing
      rw [l2] at this; exact this
    rw [t1]
    have l3 : (encHeader len typ).length = 19 := by simp [encHeader, marker_length, be16_length]
    have := drop_append_len (encHeader len typ) b
    rw [l3] at this; exact this
  simp only [c0, if_false, t16, d16, rd16_be16 len hlt, c1, g18, c2, tk, ne_eq, not_true_eq_false]
  rfl

end Wire
