/-
  Auxiliary list lemmas for the whole-speaker C15 theorems (Lemmas/SoftResetWorld.lean).
-/
import Model.SoftResetWorld
import Lemmas.SoftResetIn
namespace SoftResetWorld
open BestPath World SoftReset SoftResetIn

/-! ### the in-place Adj-RIB-In update -/

theorem nodupKey_perm {l l' : List Cand} (h : NodupKey l) (hp : l.Perm l') : NodupKey l' := by
  unfold NodupKey at *
  exact h.perm hp (fun {x y} hxy => by rw [sameKey_symm]; exact hxy)

/-- in a key-duplicate-free list two entries with the same key are the same entry -/
theorem nodupKey_eq_of_sameKey (l : List Cand) (hn : NodupKey l) (a b : Cand) (ha : a ∈ l)
    (hb : b ∈ l) (hab : sameKey a b = true) : a = b := by
  induction l with
  | nil => cases ha
  | cons y rest ih =>
    unfold NodupKey at hn
    rw [List.pairwise_cons] at hn
    rw [List.mem_cons] at ha hb
    rcases ha with rfl | ha
    · rcases hb with rfl | hb
      · rfl
      · have := hn.1 b hb
        rw [hab] at this
        cases this
    · rcases hb with rfl | hb
      · have := hn.1 a ha
        rw [sameKey_symm, hab] at this
        cases this
      · exact ih hn.2 ha hb

theorem replace_none (l : List Cand) (c : Cand) (h : ∀ y ∈ l, sameKey c y = false) :
    l.map (fun y => if sameKey c y then c else y) = l := by
  have : l.map (fun y => if sameKey c y then c else y) = l.map id := by
    apply List.map_congr_left
    intro y hy
    simp [h y hy]
  rw [this, List.map_id]

theorem filter_none (l : List Cand) (c : Cand) (h : ∀ y ∈ l, sameKey c y = false) :
    l.filter (fun y => !sameKey c y) = l := by
  rw [List.filter_eq_self]
  intro y hy
  simp [h y hy]

theorem no_match_tail (y : Cand) (rest : List Cand) (c : Cand)
    (hn : ∀ z ∈ rest, sameKey y z = false) (hcy : sameKey c y = true) :
    ∀ z ∈ rest, sameKey c z = false := by
  intro z hz
  cases hcz : sameKey c z
  · rfl
  · have : sameKey y z = true := sameKey_trans y c z (by rw [sameKey_symm]; exact hcy) hcz
    rw [hn z hz] at this
    cases this

theorem replace_perm (l : List Cand) (c : Cand) (hn : NodupKey l)
    (hany : l.any (fun y => sameKey c y) = true) :
    (l.map (fun y => if sameKey c y then c else y)).Perm (c :: l.filter (fun y => !sameKey c y)) := by
  induction l with
  | nil => simp at hany
  | cons y rest ih =>
    unfold NodupKey at hn
    rw [List.pairwise_cons] at hn
    cases hcy : sameKey c y
    · have hany' : rest.any (fun y => sameKey c y) = true := by
        rw [List.any_cons, hcy, Bool.false_or] at hany
        exact hany
      have h := ih hn.2 hany'
      simp only [List.map_cons, hcy, Bool.false_eq_true, if_false, List.filter_cons,
        Bool.not_false, if_true]
      exact (h.cons y).trans (List.Perm.swap c y _)
    · have hno := no_match_tail y rest c hn.1 hcy
      simp only [List.map_cons, hcy, if_true, List.filter_cons, Bool.not_true,
        Bool.false_eq_true, if_false]
      rw [replace_none rest c hno, filter_none rest c hno]

theorem any_false_none (l : List Cand) (c : Cand) (h : ¬ (l.any (fun y => sameKey c y) = true)) :
    ∀ y ∈ l, sameKey c y = false := by
  intro y hy
  cases hcy : sameKey c y
  · rfl
  · exfalso
    apply h
    rw [List.any_eq_true]
    exact ⟨y, hy, hcy⟩

theorem adjInPlace_ann (l : List Cand) (c : Cand) :
    adjInPlace l (.ann c) = if l.any (fun y => sameKey c y) then
      l.map (fun y => if sameKey c y then c else y) else l ++ [c] := rfl

theorem adjInPlace_wd (l : List Cand) (c : Cand) :
    adjInPlace l (.wd c) = l.filter (fun y => !sameKey c y) := rfl

/-- the in-place update against the list's own abstract content -/
theorem adjInPlace_perm_self (l : List Cand) (ev : Ev) (hn : NodupKey l) :
    (adjInPlace l ev).Perm (specStep l (rawOp ev)) := by
  cases ev with
  | ann c =>
    rw [raw_ann, adjInPlace_ann]
    by_cases hany : l.any (fun y => sameKey c y) = true
    · rw [if_pos hany]
      exact replace_perm l c hn hany
    · rw [if_neg hany, filter_none l c (any_false_none l c hany)]
      exact List.perm_append_singleton c l
  | wd c =>
    rw [raw_wd, adjInPlace_wd]

theorem specStep_perm {l S : List Cand} (hp : l.Perm S) (op : Op) :
    (specStep l op).Perm (specStep S op) := by
  cases op with
  | ann c => exact (hp.filter _).cons c
  | wd c => exact hp.filter _

/-- the in-place Adj-RIB-In update refines the abstract content step -/
theorem adjInPlace_perm (l S : List Cand) (ev : Ev) (hn : NodupKey l) (hp : l.Perm S) :
    (adjInPlace l ev).Perm (specStep S (rawOp ev)) :=
  (adjInPlace_perm_self l ev hn).trans (specStep_perm hp _)

theorem adjInPlace_nodup (l : List Cand) (ev : Ev) (hn : NodupKey l) : NodupKey (adjInPlace l ev) :=
  nodupKey_perm (nodupKey_raw hn ev) (adjInPlace_perm_self l ev hn).symm

/-- re-announcing an entry the list already holds changes nothing -/
theorem adjInPlace_replay (l : List Cand) (c : Cand) (hn : NodupKey l) (hc : c ∈ l) :
    adjInPlace l (.ann c) = l := by
  rw [adjInPlace_ann]
  have hany : l.any (fun y => sameKey c y) = true := by
    rw [List.any_eq_true]
    exact ⟨c, hc, sameKey_refl c⟩
  rw [if_pos hany]
  have : l.map (fun y => if sameKey c y then c else y) = l.map id := by
    apply List.map_congr_left
    intro y hy
    cases hcy : sameKey c y
    · simp
    · simp [nodupKey_eq_of_sameKey l hn c y hc hy hcy]
  rw [this, List.map_id]

/-! ### membership after one Loc-RIB step -/

theorem implicitWithdraw_sublist (l : List Cand) (x : Cand) : (implicitWithdraw l x).Sublist l := by
  induction l with
  | nil => exact List.Sublist.refl _
  | cons y rest ih =>
    unfold implicitWithdraw
    by_cases h : sameKey x y = true
    · rw [if_pos h]
      exact List.sublist_cons_self y rest
    · rw [if_neg h]
      exact ih.cons_cons y

theorem explicitWithdraw_sublist (l : List Cand) (x : Cand) : (explicitWithdraw l x).Sublist l := by
  induction l with
  | nil => exact List.Sublist.refl _
  | cons y rest ih =>
    unfold explicitWithdraw
    by_cases h : (sameKey y x && !(rest.any (fun z => sameKey z x))) = true
    · rw [if_pos h]
      exact List.sublist_cons_self y rest
    · rw [if_neg h]
      exact ih.cons_cons y

/-- every element of the new path list was there before or is the announced candidate -/
theorem mem_calcStep (o : Opts) (l : List Cand) (op : Op) (c : Cand) (h : c ∈ calcStep o l op) :
    c ∈ l ∨ op = .ann c := by
  cases op with
  | ann x =>
    simp only [calcStep] at h
    have h' := (insertSort_perm o (implicitWithdraw l x) x).subset h
    rw [List.mem_cons] at h'
    rcases h' with rfl | h'
    · exact Or.inr rfl
    · exact Or.inl ((implicitWithdraw_sublist l x).subset h')
  | wd x =>
    simp only [calcStep] at h
    exact Or.inl ((explicitWithdraw_sublist l x).subset h)

/-! ### partitions -/

theorem flatMap_congr' {α β : Type} (xs : List β) (f g : β → List α) (h : ∀ x ∈ xs, f x = g x) :
    xs.flatMap f = xs.flatMap g := by
  induction xs with
  | nil => rfl
  | cons x xs ih =>
    rw [List.flatMap_cons, List.flatMap_cons, h x List.mem_cons_self,
      ih (fun y hy => h y (List.mem_cons_of_mem _ hy))]

/-- splitting a list by pairwise exclusive, jointly exhaustive predicates and concatenating the
    parts gives a permutation of the list -/
theorem flatMap_filter_perm {α β : Type} (xs : List β) (l : List α) (p : β → α → Bool)
    (hex : ∀ a ∈ l, ∃ x ∈ xs, p x a = true)
    (huniq : xs.Pairwise (fun x y => ∀ a ∈ l, ¬(p x a = true ∧ p y a = true))) :
    (xs.flatMap (fun x => l.filter (p x))).Perm l := by
  induction xs generalizing l with
  | nil =>
    cases l with
    | nil => exact List.Perm.refl _
    | cons a l =>
      obtain ⟨x, hx, _⟩ := hex a List.mem_cons_self
      cases hx
  | cons x xs ih =>
    rw [List.pairwise_cons] at huniq
    obtain ⟨hhead, htail⟩ := huniq
    rw [List.flatMap_cons]
    have hcongr : xs.flatMap (fun y => l.filter (p y)) =
        xs.flatMap (fun y => (l.filter (fun a => !p x a)).filter (p y)) := by
      apply flatMap_congr'
      intro y hy
      rw [List.filter_filter]
      apply List.filter_congr
      intro a ha
      cases hya : p y a
      · simp
      · cases hxa : p x a
        · simp
        · exact absurd ⟨hxa, hya⟩ (hhead y hy a ha)
    rw [hcongr]
    have hex' : ∀ a ∈ l.filter (fun a => !p x a), ∃ z ∈ xs, p z a = true := by
      intro a ha
      rw [List.mem_filter] at ha
      obtain ⟨hal, hxa⟩ := ha
      obtain ⟨z, hz, hza⟩ := hex a hal
      rw [List.mem_cons] at hz
      rcases hz with rfl | hz
      · rw [hza] at hxa
        cases hxa
      · exact ⟨z, hz, hza⟩
    have huniq' : xs.Pairwise (fun y z => ∀ a ∈ l.filter (fun a => !p x a),
        ¬(p y a = true ∧ p z a = true)) :=
      htail.imp (fun {y z} h a ha => h a (List.mem_filter.mp ha).1)
    exact ((ih _ hex' huniq').append_left _).trans (List.filter_append_perm (p x) l)

/-! ### peer configuration lookup -/

theorem cfg?_some {k : Ctx} {i : Nat} {t : PeerCfg} (h : k.cfg? i = some t) : t ∈ k.cfgs ∧ t.idx = i := by
  unfold Ctx.cfg? at h
  refine ⟨List.mem_of_find?_eq_some h, ?_⟩
  have := List.find?_some h
  simpa using this

theorem find?_idx_of_mem (l : List PeerCfg) (hd : l.Pairwise (fun a b => a.idx ≠ b.idx))
    (x : PeerCfg) (hx : x ∈ l) : l.find? (·.idx == x.idx) = some x := by
  induction l with
  | nil => cases hx
  | cons y rest ih =>
    rw [List.pairwise_cons] at hd
    rw [List.mem_cons] at hx
    rcases hx with rfl | hx
    · simp
    · have hne : (y.idx == x.idx) = false := by
        simpa using hd.1 x hx
      rw [List.find?_cons, hne]
      exact ih hd.2 hx

theorem cfg?_of_mem (k : Ctx) (hd : k.cfgs.Pairwise (fun a b => a.idx ≠ b.idx)) (x : PeerCfg)
    (hx : x ∈ k.cfgs) : k.cfg? x.idx = some x :=
  find?_idx_of_mem k.cfgs hd x hx

theorem filterMap_congr' {α β : Type} (l : List α) (f g : α → Option β)
    (h : ∀ x ∈ l, f x = g x) : l.filterMap f = l.filterMap g := by
  induction l with
  | nil => rfl
  | cons x l ih =>
    rw [List.filterMap_cons, List.filterMap_cons, h x List.mem_cons_self,
      ih (fun y hy => h y (List.mem_cons_of_mem _ hy))]

theorem filterMap_cfg?_idxs (k : Ctx) (hd : k.cfgs.Pairwise (fun a b => a.idx ≠ b.idx)) :
    (k.cfgs.map (·.idx)).filterMap k.cfg? = k.cfgs := by
  rw [List.filterMap_map]
  have : k.cfgs.filterMap (k.cfg? ∘ fun x => x.idx) = k.cfgs.filterMap some :=
    filterMap_congr' k.cfgs _ _ (fun x hx => cfg?_of_mem k hd x hx)
  rw [this, List.filterMap_some]

end SoftResetWorld
