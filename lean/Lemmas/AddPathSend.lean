/-
  The invariant `Inv` of the ADD-PATH send model holds after every history, and what follows
  from it (counting).
-/
import Lemmas.AddPathSendTbl
import Lemmas.AddPathSendFan
import Lemmas.AddPathSendXfer
namespace AddPathSend
open BestPath

/-- with one path per (source, path-id), two list members of the same key are the same path -/
theorem nodupKey_eq {l : List Cand} (h : NodupKey l) {x y : Cand} (hx : x ∈ l) (hy : y ∈ l)
    (hk : sameKey x y = true) : x = y := by
  induction l with
  | nil => cases hx
  | cons a rest ih =>
    unfold NodupKey at h
    rw [List.pairwise_cons] at h
    rcases List.mem_cons.mp hx with rfl | hx' <;> rcases List.mem_cons.mp hy with rfl | hy'
    · rfl
    · have := h.1 y hy'
      rw [hk] at this; cases this
    · have := h.1 x hx'
      rw [sameKey_symm, hk] at this; cases this
    · exact ih h.2 hx' hy'

/-- pairwise different identifiers: two list members with the same identifier are the same path -/
theorem id_inj {l : List Cand} (hn : (l.map (·.id)).Nodup) {x y : Cand} (hx : x ∈ l) (hy : y ∈ l)
    (he : x.id = y.id) : x = y := by
  induction l with
  | nil => cases hx
  | cons a rest ih =>
    rw [List.map_cons, List.nodup_cons] at hn
    rcases List.mem_cons.mp hx with rfl | hx' <;> rcases List.mem_cons.mp hy with rfl | hy'
    · rfl
    · exact absurd (List.mem_map.mpr ⟨y, hy', he.symm⟩) hn.1
    · exact absurd (List.mem_map.mpr ⟨x, hx', he⟩) hn.1
    · exact ih hn.2 hx' hy'

/-- the fan-out of one table update keeps the bookkeeping invariant (established peer) -/
theorem fan_inv (o : Opts) (elig : Cand → Bool) (k : Nat) (t : Tbl) (b : Bk) (op : TOp)
    (hT : TblInv t) (hb : BkInv elig k t b) :
    BkInv elig k (tblStep o t op).tbl (fan elig k op (tblStep o t op) b) := by
  cases op with
  | ann c =>
    obtain ⟨np, hnp, _, hT', hmem, _, _, _⟩ := tblStep_ann o t c hT
    exact fanAnn_inv elig k t _ np b hT hb hT' hnp hmem
  | wd c d =>
    obtain ⟨_, hT', hcase⟩ := tblStep_wd o t c d hT
    show BkInv elig k (tblStep o t (.wd c d)).tbl (fanWd elig (tblStep o t (.wd c d)) b)
    rcases hcase with ⟨hg, ht⟩ | ⟨p, hg, hp, _, hmem⟩
    · rw [fanWd_none elig _ _ hg, ht]
      exact hb
    · exact fanWd_inv elig k t _ p b hT hb hT' hg hp hmem

/-- the fan-out of a table update toward a peer whose bookkeeping ALREADY reflects the updated
    table (its initial transfer read the table after the update): the invariant is kept — the
    late fan-out re-sends the new path or does nothing -/
theorem fan_late_inv (o : Opts) (elig : Cand → Bool) (k : Nat) (t : Tbl) (b : Bk) (op : TOp)
    (hT : TblInv t) (hb : BkInv elig k (tblStep o t op).tbl b) :
    BkInv elig k (tblStep o t op).tbl (fan elig k op (tblStep o t op) b) := by
  cases op with
  | ann c =>
    obtain ⟨np, hnp, _, hT', hmem, _, _, _⟩ := tblStep_ann o t c hT
    have hin : np ∈ (tblStep o t (.ann c)).tbl.known := (hmem np).mpr (Or.inl rfl)
    refine fanAnn_inv elig k (tblStep o t (.ann c)).tbl _ np b hT' hb hT' hnp ?_
    intro y
    constructor
    · intro hy
      by_cases he : y.id = np.id
      · exact Or.inl (id_inj hT'.ids hy hin he)
      · exact Or.inr ⟨hy, he⟩
    · rintro (rfl | ⟨hy, _⟩)
      · exact hin
      · exact hy
  | wd c d =>
    obtain ⟨_, _, hcase⟩ := tblStep_wd o t c d hT
    show BkInv elig k (tblStep o t (.wd c d)).tbl (fanWd elig (tblStep o t (.wd c d)) b)
    rcases hcase with ⟨hg, _⟩ | ⟨p, hg, _, _, hmem⟩
    · rw [fanWd_none elig _ _ hg]
      exact hb
    · -- no path of the updated table carries the identifier of the path that left
      have hno : ∀ x, x ∈ (tblStep o t (.wd c d)).tbl.known → x.id ≠ p.id :=
        fun x hx => ((hmem x).mp hx).2
      have hns : p.id ∉ b.sent := by
        intro hs
        obtain ⟨x, hx, hid, _⟩ := (hb.cover p.id).mp (Or.inl hs)
        exact hno x hx hid
      have hnh : p.id ∉ b.held := by
        intro hs
        obtain ⟨x, hx, hid, _⟩ := (hb.cover p.id).mp (Or.inr hs)
        exact hno x hx hid
      have : fanWd elig (tblStep o t (.wd c d)) b = b := by
        unfold fanWd
        rw [hg]
        simp [hns, hnh]
      rw [this]
      exact hb

theorem inv_init (elig : Cand → Bool) (k : Nat) : Inv elig k ({} : St) :=
  ⟨tblInv_init, fun h => absurd (show false = true from h) (by decide), fun _ => rfl⟩

theorem inv_step (o : Opts) (elig : Cand → Bool) (k : Nat) (s : St) (e : Ev)
    (h : Inv elig k s) : Inv elig k (step o elig k s e) := by
  obtain ⟨hT, hUp, hDown⟩ := h
  cases e with
  | rib op =>
    cases op with
    | ann c =>
      obtain ⟨np, hnp, _, hT', hmem, _, _, _⟩ := tblStep_ann o s.tbl c hT
      refine ⟨hT', ?_, ?_⟩
      · intro hu
        have hu' : s.up = true := hu
        show BkInv elig k (tblStep o s.tbl (.ann c)).tbl
          (if s.up then fan elig k (.ann c) (tblStep o s.tbl (.ann c)) s.bk else s.bk)
        rw [if_pos hu']
        exact fanAnn_inv elig k s.tbl _ np s.bk hT (hUp hu') hT' hnp hmem
      · intro hu
        have hu' : s.up = false := hu
        show (if s.up then fan elig k (.ann c) (tblStep o s.tbl (.ann c)) s.bk else s.bk) = {}
        rw [if_neg (by simp [hu'])]
        exact hDown hu'
    | wd c d =>
      obtain ⟨_, hT', hcase⟩ := tblStep_wd o s.tbl c d hT
      refine ⟨hT', ?_, ?_⟩
      · intro hu
        have hu' : s.up = true := hu
        show BkInv elig k (tblStep o s.tbl (.wd c d)).tbl
          (if s.up then fan elig k (.wd c d) (tblStep o s.tbl (.wd c d)) s.bk else s.bk)
        rw [if_pos hu']
        show BkInv elig k (tblStep o s.tbl (.wd c d)).tbl (fanWd elig (tblStep o s.tbl (.wd c d)) s.bk)
        rcases hcase with ⟨hg, ht⟩ | ⟨p, hg, hp, _, hmem⟩
        · rw [fanWd_none elig _ _ hg, ht]
          exact hUp hu'
        · exact fanWd_inv elig k s.tbl _ p s.bk hT (hUp hu') hT' hg hp hmem
      · intro hu
        have hu' : s.up = false := hu
        show (if s.up then fan elig k (.wd c d) (tblStep o s.tbl (.wd c d)) s.bk else s.bk) = {}
        rw [if_neg (by simp [hu'])]
        exact hDown hu'
  | up =>
    refine ⟨hT, fun _ => transfer_init_inv elig k s.tbl hT, fun hu => ?_⟩
    exact absurd (show true = false from hu) (by decide)
  | down =>
    exact ⟨hT, fun hu => absurd (show false = true from hu) (by decide), fun _ => rfl⟩
  | upBetween op =>
    have hT' : TblInv (tblStep o s.tbl op).tbl := by
      cases op with
      | ann c => obtain ⟨_, _, _, h, _⟩ := tblStep_ann o s.tbl c hT; exact h
      | wd c d => exact (tblStep_wd o s.tbl c d hT).2.1
    by_cases hu : s.up = true
    · have hs : step o elig k s (.upBetween op) =
          { s with tbl := (tblStep o s.tbl op).tbl, bk := fan elig k op (tblStep o s.tbl op) s.bk } := by
        simp [step, hu]
      rw [hs]
      exact ⟨hT', fun _ => fan_inv o elig k s.tbl s.bk op hT (hUp hu),
        fun hd => absurd (hu.symm.trans (show s.up = false from hd)) (by decide)⟩
    · have hs : step o elig k s (.upBetween op) =
          { tbl := (tblStep o s.tbl op).tbl, up := true,
            bk := fan elig k op (tblStep o s.tbl op) (transfer elig k (tblStep o s.tbl op).tbl false {}) } := by
        simp [step, hu]
      rw [hs]
      exact ⟨hT', fun _ => fan_late_inv o elig k s.tbl _ op hT (transfer_init_inv elig k _ hT'),
        fun hd => absurd (show true = false from hd) (by decide)⟩
  | softOut =>
    by_cases hu : s.up = true
    · have hs : step o elig k s .softOut = { s with bk := transfer elig k s.tbl true s.bk } := by
        simp [step, hu]
      rw [hs]
      exact ⟨hT, fun _ => transfer_soft_inv elig k s.tbl s.bk hT (hUp hu),
        fun hd => absurd (hu.symm.trans (show s.up = false from hd)) (by decide)⟩
    · have hs : step o elig k s .softOut = s := by simp [step, hu]
      rw [hs]
      exact ⟨hT, hUp, hDown⟩

theorem inv_run_from (o : Opts) (elig : Cand → Bool) (k : Nat) (evs : List Ev) (s : St)
    (h : Inv elig k s) : Inv elig k (evs.foldl (step o elig k) s) := by
  induction evs generalizing s with
  | nil => exact h
  | cons e rest ih => exact ih _ (inv_step o elig k s e h)

theorem inv_run (o : Opts) (elig : Cand → Bool) (k : Nat) (evs : List Ev) :
    Inv elig k (run o elig k evs) :=
  inv_run_from o elig k evs {} (inv_init elig k)

/-! ### counting -/

theorem view_keys_eq_sent {elig : Cand → Bool} {k : Nat} {t : Tbl} {b : Bk}
    (hb : BkInv elig k t b) : ∀ i, i ∈ b.view.map (·.1) ↔ i ∈ b.sent := by
  intro i
  constructor
  · intro hi
    obtain ⟨e, he, rfl⟩ := List.mem_map.mp hi
    exact ((hb.view e.1 e.2).mp he).1
  · intro hi
    obtain ⟨x, hx, hid, _⟩ := (hb.cover i).mp (Or.inl hi)
    exact List.mem_map.mpr ⟨(i, x.marker), (hb.view i x.marker).mpr ⟨hi, x, hx, hid, rfl⟩, rfl⟩

theorem view_length_eq_sent {elig : Cand → Bool} {k : Nat} {t : Tbl} {b : Bk}
    (hb : BkInv elig k t b) : b.view.length = b.sent.length := by
  have hp := (List.perm_ext_iff_of_nodup hb.viewKeys hb.sentNodup).mpr (view_keys_eq_sent hb)
  have := hp.length_eq
  simpa using this

theorem sent_held_count {elig : Cand → Bool} {k : Nat} {t : Tbl} {b : Bk}
    (hT : TblInv t) (hb : BkInv elig k t b) :
    b.sent.length + b.held.length = (t.known.filter elig).length := by
  have hnd : (b.sent ++ b.held).Nodup := by
    rw [List.nodup_append]
    refine ⟨hb.sentNodup, hb.heldNodup, ?_⟩
    intro a ha c hc hac
    exact hb.disj a ha (hac ▸ hc)
  have hnd2 : ((t.known.filter elig).map (·.id)).Nodup :=
    List.Nodup.sublist (List.Sublist.map _ List.filter_sublist) hT.ids
  have hmem : ∀ i, i ∈ b.sent ++ b.held ↔ i ∈ (t.known.filter elig).map (·.id) := by
    intro i
    rw [List.mem_append, hb.cover i, List.mem_map]
    constructor
    · rintro ⟨x, hx, hid, he⟩
      exact ⟨x, List.mem_filter.mpr ⟨hx, he⟩, hid⟩
    · rintro ⟨x, hx, hid⟩
      exact ⟨x, (List.mem_filter.mp hx).1, hid, (List.mem_filter.mp hx).2⟩
  have := ((List.perm_ext_iff_of_nodup hnd hnd2).mpr hmem).length_eq
  simpa using this

/-- exactly min(send-max, number of exportable paths) routes are at the far end -/
theorem view_count {elig : Cand → Bool} {k : Nat} {t : Tbl} {b : Bk}
    (hT : TblInv t) (hb : BkInv elig k t b) :
    b.view.length = min k (t.known.filter elig).length := by
  rw [view_length_eq_sent hb]
  have hc := sent_held_count hT hb
  have hle := hb.le
  by_cases hh : b.held = []
  · rw [hh] at hc
    simp at hc
    omega
  · have hf := hb.full hh
    omega

end AddPathSend
