/-
  Frame lemmas for the Go-slice heap model (Model/GoSlice.lean): an operation whose target slices
  are nil or live in arrays allocated after a watermark `base` leaves every array below the
  watermark exactly as it was.
-/
import Model.GoSlice
namespace GoSlice

/-- the slice is nil-like (no capacity: any append allocates, no index is in range) or lives in an
    array allocated at or after the watermark -/
def Owned (base : Nat) (s : Slice) : Prop := (s.cap = 0 ∨ base ≤ s.arr) ∧ s.len ≤ s.cap

theorem owned_nil (base : Nat) : Owned base Slice.nil := ⟨Or.inl rfl, Nat.le_refl _⟩

theorem writeCells_nil (cells : List Nat) (i : Nat) : writeCells cells i [] = cells := by
  cases cells <;> simp [writeCells]

theorem writeAt_nil (h : Heap) (a i : Nat) : writeAt h a i [] = h := by
  induction h generalizing a with
  | nil => rfl
  | cons x rest ih =>
    cases a with
    | zero => simp [writeAt, writeCells_nil]
    | succ n => simp [writeAt, ih]

theorem writeAt_length (h : Heap) (a i : Nat) (v : List Nat) : (writeAt h a i v).length = h.length := by
  induction h generalizing a with
  | nil => rfl
  | cons x rest ih =>
    cases a with
    | zero => simp [writeAt]
    | succ n => simp [writeAt, ih]

theorem writeAt_take (h : Heap) (a i : Nat) (v : List Nat) (base : Nat) (hb : base ≤ a) :
    (writeAt h a i v).take base = h.take base := by
  induction h generalizing a base with
  | nil => rfl
  | cons x rest ih =>
    cases a with
    | zero =>
      have : base = 0 := by omega
      subst this; simp
    | succ n =>
      cases base with
      | zero => simp
      | succ b => simp [writeAt, ih n b (by omega)]

/-- `h'` extends `h` without touching the arrays below `base` -/
def Keeps (base : Nat) (h h' : Heap) : Prop := h'.take base = h.take base ∧ h.length ≤ h'.length

theorem Keeps.refl (base : Nat) (h : Heap) : Keeps base h h := ⟨rfl, Nat.le_refl _⟩
theorem Keeps.trans {base : Nat} {h1 h2 h3 : Heap} (a : Keeps base h1 h2) (b : Keeps base h2 h3) :
    Keeps base h1 h3 := ⟨b.1.trans a.1, Nat.le_trans a.2 b.2⟩

theorem keeps_writeAt (base : Nat) (h : Heap) (a i : Nat) (v : List Nat) (hb : base ≤ a) :
    Keeps base h (writeAt h a i v) := ⟨writeAt_take h a i v base hb, by rw [writeAt_length]; exact Nat.le_refl _⟩

theorem keeps_alloc (base : Nat) (h : Heap) (cells : List Nat) (cap : Nat) (hb : base ≤ h.length) :
    Keeps base h (alloc h cells cap).1 ∧ Owned base (alloc h cells cap).2 := by
  refine ⟨⟨?_, by simp [alloc]⟩, ⟨Or.inr ?_, ?_⟩⟩
  · simp only [alloc]
    rw [List.take_append_of_le_length hb]
  · simpa [alloc] using hb
  · simp only [alloc]; omega

theorem keeps_goAppend (base : Nat) (h : Heap) (s : Slice) (v : List Nat) (hb : base ≤ h.length)
    (ho : Owned base s) :
    Keeps base h (goAppend h s v).1 ∧ Owned base (goAppend h s v).2 := by
  unfold goAppend
  split
  · rename_i hfit
    rcases ho.1 with h0 | h1
    · have hv : v = [] := by
        have : v.length = 0 := by omega
        exact List.eq_nil_of_length_eq_zero this
      subst hv
      refine ⟨by rw [writeAt_nil]; exact Keeps.refl _ _, ⟨Or.inl h0, ?_⟩⟩
      simpa using ho.2
    · exact ⟨keeps_writeAt base h _ _ _ h1, ⟨Or.inr h1, hfit⟩⟩
  · exact keeps_alloc base h _ _ hb

theorem keeps_store (base : Nat) (h : Heap) (s : Slice) (i v : Nat) (ho : Owned base s) :
    Keeps base h (store h s i v) := by
  unfold store
  split
  · rename_i hi
    rcases ho.1 with h0 | h1
    · have := ho.2; omega
    · exact keeps_writeAt base h _ _ _ h1
  · exact Keeps.refl _ _

def OwnedNode (base : Nat) (n : Node) : Prop := Owned base n.attrs ∧ Owned base n.dels

theorem keeps_setAttrGo (typOf : Nat → Nat) (base : Nat) (h : Heap) (n : Node) (a : Nat)
    (hb : base ≤ h.length) (ho : OwnedNode base n) :
    Keeps base h (setAttrGo typOf h n a).1 ∧ OwnedNode base (setAttrGo typOf h n a).2 := by
  unfold setAttrGo
  split
  · have := keeps_alloc base h [a] 1 hb
    exact ⟨this.1, ⟨this.2, ho.2⟩⟩
  · split
    · exact ⟨keeps_store base h _ _ _ ho.1, ho⟩
    · have := keeps_goAppend base h n.attrs [a] hb ho.1
      exact ⟨this.1, ⟨this.2, ho.2⟩⟩

theorem keeps_delAttrGo (base : Nat) (h : Heap) (n : Node) (t : Nat)
    (hb : base ≤ h.length) (ho : OwnedNode base n) :
    Keeps base h (delAttrGo h n t).1 ∧ OwnedNode base (delAttrGo h n t).2 := by
  unfold delAttrGo
  split
  · have := keeps_alloc base h [t] 1 hb
    exact ⟨this.1, ⟨ho.1, this.2⟩⟩
  · have := keeps_goAppend base h n.dels [t] hb ho.2
    exact ⟨this.1, ⟨ho.1, this.2⟩⟩

theorem keeps_runOps (typOf : Nat → Nat) (base : Nat) (h : Heap) (n : Node) (ops : List NodeOp)
    (hb : base ≤ h.length) (ho : OwnedNode base n) :
    Keeps base h (runOps typOf h n ops).1 ∧ OwnedNode base (runOps typOf h n ops).2 := by
  induction ops generalizing h n with
  | nil => exact ⟨Keeps.refl _ _, ho⟩
  | cons op rest ih =>
    cases op with
    | set a =>
      have s := keeps_setAttrGo typOf base h n a hb ho
      have r := ih (setAttrGo typOf h n a).1 (setAttrGo typOf h n a).2 (Nat.le_trans hb s.1.2) s.2
      exact ⟨s.1.trans r.1, r.2⟩
    | del t =>
      have s := keeps_delAttrGo base h n t hb ho
      have r := ih (delAttrGo h n t).1 (delAttrGo h n t).2 (Nat.le_trans hb s.1.2) s.2
      exact ⟨s.1.trans r.1, r.2⟩

theorem getD_of_take {base : Nat} {h h' : Heap} (hk : h'.take base = h.take base) {i : Nat} (hi : i < base) :
    h'.getD i [] = h.getD i [] := by
  have e1 : (h'.take base).getD i [] = h'.getD i [] := by
    simp [List.getD, List.getElem?_take, hi]
  have e2 : (h.take base).getD i [] = h.getD i [] := by
    simp [List.getD, List.getElem?_take, hi]
  rw [← e1, ← e2, hk]

/-- a slice into an array below the watermark reads the same after any kept extension -/
theorem read_of_keeps {base : Nat} {h h' : Heap} (hk : Keeps base h h') (s : Slice) (hs : s.arr < base) :
    read h' s = read h s := by
  simp only [read, getD_of_take hk.1 hs]

theorem keeps_appendAll (f : Nat → Option Nat) (base : Nat) (h : Heap) (out : Slice) (xs : List Nat)
    (hb : base ≤ h.length) (ho : Owned base out) :
    Keeps base h (appendAll f h out xs).1 ∧ Owned base (appendAll f h out xs).2 := by
  induction xs generalizing h out with
  | nil => exact ⟨Keeps.refl _ _, ho⟩
  | cons x rest ih =>
    unfold appendAll
    split
    · rename_i y hy
      have s := keeps_goAppend base h out [y] hb ho
      have r := ih (goAppend h out [y]).1 (goAppend h out [y]).2 (Nat.le_trans hb s.1.2) s.2
      exact ⟨s.1.trans r.1, r.2⟩
    · exact ih h out hb ho

theorem keeps_filterMapGo (f : Nat → Option Nat) (h : Heap) (input : Slice) :
    Keeps h.length h (filterMapGo f h input).1 := by
  unfold filterMapGo
  have a := keeps_alloc h.length h [] input.len (Nat.le_refl _)
  have r := keeps_appendAll f h.length (alloc h [] input.len).1 (alloc h [] input.len).2 (read h input) a.1.2 a.2
  exact a.1.trans r.1

theorem keeps_prependScratchNew (h : Heap) (asn repeatN rep : Nat) (asList : Slice) :
    Keeps h.length h (prependScratchNew h asn repeatN rep asList).1 := by
  unfold prependScratchNew
  have a := keeps_alloc h.length h (List.replicate repeatN asn) repeatN (Nat.le_refl _)
  have m := keeps_alloc h.length (alloc h (List.replicate repeatN asn) repeatN).1 [] (rep + asList.len) a.1.2
  have r1 := keeps_goAppend h.length _ _ (read (alloc (alloc h (List.replicate repeatN asn) repeatN).1 [] (rep + asList.len)).1
      (reslice (alloc h (List.replicate repeatN asn) repeatN).2 0 rep)) (Nat.le_trans a.1.2 m.1.2) m.2
  have r2 := keeps_goAppend h.length _ _ (read (goAppend (alloc (alloc h (List.replicate repeatN asn) repeatN).1 [] (rep + asList.len)).1
      (alloc (alloc h (List.replicate repeatN asn) repeatN).1 [] (rep + asList.len)).2
      (read (alloc (alloc h (List.replicate repeatN asn) repeatN).1 [] (rep + asList.len)).1
        (reslice (alloc h (List.replicate repeatN asn) repeatN).2 0 rep))).1 asList)
      (Nat.le_trans (Nat.le_trans a.1.2 m.1.2) r1.1.2) r1.2
  exact ((a.1.trans m.1).trans r1.1).trans r2.1

end GoSlice
