/-
  The per-clause facts about `rewrite` (= UpdatePathAttrs + the LOCAL_PREF rule of postFilterpath),
  `filter`, `exportPath` and `inboundReject` that Props/C09.lean states.
-/
import Lemmas.ExportRewrite
namespace Export

/-! ### AS_PATH arithmetic -/

/-- prepending one AS: into the first segment when it has the right type and room, else as a new
    leading segment -/
def prependOne (st asn : Nat) : List Seg → List Seg
  | [] => [⟨st, [asn]⟩]
  | s :: rest =>
    if s.typ == st && s.as.length + 1 ≤ 255 then ⟨st, asn :: s.as⟩ :: rest
    else ⟨st, [asn]⟩ :: s :: rest

theorem prependOne_cons (st asn : Nat) (s : Seg) (rest : List Seg) :
    prependOne st asn (s :: rest) =
      if s.typ == st && s.as.length + 1 ≤ 255 then ⟨st, asn :: s.as⟩ :: rest
      else ⟨st, [asn]⟩ :: s :: rest := rfl

theorem prependSegs_one (asn : Nat) (confed : Bool) (segs : List Seg) :
    prependSegs asn 1 confed segs = prependOne (if confed then 3 else 2) asn segs := by
  cases segs with
  | nil => simp [prependSegs, prependOne]
  | cons s rest =>
    rw [prependOne_cons]
    unfold prependSegs
    by_cases ht : s.typ = (if confed then 3 else 2)
    · by_cases hl : s.as.length + 1 ≤ 255
      · have h1 : ¬ (1 + s.as.length > 255) := by omega
        simp [ht, hl, h1]
      · have h1 : 1 + s.as.length > 255 := by omega
        have h0 : 255 - s.as.length = 0 := by omega
        have hs : s = ⟨(if confed then 3 else 2), s.as⟩ := by cases s; simp_all
        simp only [ht, beq_self_eq_true, h1, if_true, h0, List.take_zero, List.nil_append,
          List.drop_zero, hl, decide_false, Bool.and_false, Bool.false_eq_true, if_false,
          List.replicate_one]
        rw [← hs]; simp
    · have : (s.typ == (if confed then 3 else 2)) = false := by simpa using ht
      simp [this]

theorem allAS_cons (s : Seg) (rest : List Seg) : allAS (s :: rest) = s.as ++ allAS rest := by
  simp [allAS]

theorem allAS_prependOne (st asn : Nat) (segs : List Seg) :
    allAS (prependOne st asn segs) = asn :: allAS segs := by
  cases segs with
  | nil => simp [prependOne, allAS]
  | cons s rest =>
    rw [prependOne_cons]; split <;> simp [allAS_cons]

theorem dropConfed_cons (s : Seg) (rest : List Seg) :
    dropConfed (s :: rest) = if s.typ == 2 || s.typ == 1 then s :: dropConfed rest else dropConfed rest := by
  simp only [dropConfed, List.filter_cons]

theorem dropConfed_prependOne (asn : Nat) (segs : List Seg) :
    allAS (dropConfed (prependOne 2 asn segs)) = asn :: allAS (dropConfed segs) := by
  cases segs with
  | nil => simp [prependOne, dropConfed, allAS]
  | cons s rest =>
    rw [prependOne_cons]
    split
    · rename_i h
      have hs : s.typ = 2 := by simp at h; exact h.1
      rw [dropConfed_cons, dropConfed_cons]
      simp [hs, allAS_cons]
    · rw [dropConfed_cons]
      simp [allAS_cons]

/-- the stored AS_PATH after the private-AS option and, toward a non-member, without the
    confederation segments: what the local AS is prepended to -/
def ebgpBase (g : Global) (peer : Peer) (stored : Option (List Seg)) : List Seg :=
  let s := (stored.map (rmPrivOpt peer.localAS peer.removePrivate)).getD []
  if g.members.contains peer.as then s else dropConfed s

theorem allAS_ebgpSegs (g : Global) (peer : Peer) (stored : Option (List Seg)) :
    allAS (ebgpSegs g peer stored) = peer.localAS :: allAS (ebgpBase g peer stored) := by
  unfold ebgpSegs ebgpBase
  simp only [prependSegs_one]
  by_cases hc : g.members.contains peer.as = true
  · simp only [hc, if_true]; exact allAS_prependOne _ _ _
  · have hc' : g.members.contains peer.as = false := by simpa using hc
    simp only [hc', Bool.false_eq_true, if_false]; exact dropConfed_prependOne _ _

theorem seg_bound_prependOne (st asn : Nat) (segs : List Seg) (h : ∀ s ∈ segs, s.as.length ≤ 255) :
    ∀ s ∈ prependOne st asn segs, s.as.length ≤ 255 := by
  cases segs with
  | nil => intro s hs; simp [prependOne] at hs; subst hs; simp
  | cons x rest =>
    rw [prependOne_cons]
    split
    · rename_i hc
      simp only [Bool.and_eq_true, decide_eq_true_eq] at hc
      intro s hs
      rcases List.mem_cons.1 hs with e | e
      · subst e; simpa using hc.2
      · exact h s (List.mem_cons_of_mem _ e)
    · intro s hs
      rcases List.mem_cons.1 hs with e | e
      · subst e; simp
      · exact h s e

theorem rmPrivSegs_bound (l : Nat) (r : Bool) (segs : List Seg) (h : ∀ s ∈ segs, s.as.length ≤ 255) :
    ∀ s ∈ rmPrivSegs l r segs, s.as.length ≤ 255 := by
  have hlen : ∀ as : List Nat, (rmPrivList l r as).length ≤ as.length := by
    intro as
    induction as with
    | nil => simp [rmPrivList]
    | cons a rest ih =>
      unfold rmPrivList
      split
      · split
        · simp only [List.length_cons]; omega
        · simp only [List.length_cons]; omega
      · simp only [List.length_cons]; omega
  induction segs with
  | nil => intro s hs; simp [rmPrivSegs] at hs
  | cons x rest ih =>
    have ihr := ih (fun s hs => h s (List.mem_cons_of_mem _ hs))
    unfold rmPrivSegs
    simp only []
    split
    · intro s hs
      rcases List.mem_cons.1 hs with e | e
      · subst e
        have h1 := hlen x.as
        have h2 := h x (by simp)
        show (rmPrivList l r x.as).length ≤ 255
        omega
      · exact ihr s e
    · exact ihr

theorem ebgpSegs_bound (g : Global) (peer : Peer) (stored : Option (List Seg))
    (h : ∀ segs, stored = some segs → ∀ s ∈ segs, s.as.length ≤ 255) :
    ∀ s ∈ ebgpSegs g peer stored, s.as.length ≤ 255 := by
  unfold ebgpSegs
  simp only [prependSegs_one]
  have hb : ∀ s ∈ (stored.map (rmPrivOpt peer.localAS peer.removePrivate)).getD [], s.as.length ≤ 255 := by
    cases stored with
    | none => intro s hs; simp at hs
    | some segs =>
      simp only [Option.map_some, Option.getD_some]
      unfold rmPrivOpt
      split
      · exact rmPrivSegs_bound _ _ _ (h segs rfl)
      · exact h segs rfl
  have hp := fun st => seg_bound_prependOne st peer.localAS _ hb
  split
  · exact hp 3
  · intro s hs
    exact hp 2 s (List.mem_filter.1 hs).1

/-- the first segment of what an eBGP peer is sent starts with the local AS and has the type the
    peer's confederation membership asks for -/
theorem ebgpSegs_head (g : Global) (peer : Peer) (stored : Option (List Seg)) :
    ∃ hd tl, ebgpSegs g peer stored = hd :: tl ∧ hd.typ = (if g.members.contains peer.as then 3 else 2) ∧
      hd.as.head? = some peer.localAS := by
  unfold ebgpSegs
  simp only [prependSegs_one]
  generalize (stored.map (rmPrivOpt peer.localAS peer.removePrivate)).getD [] = base
  have hp : ∀ st, ∃ hd tl, prependOne st peer.localAS base = hd :: tl ∧ hd.typ = st ∧
      hd.as.head? = some peer.localAS := by
    intro st
    cases base with
    | nil => exact ⟨_, _, rfl, rfl, rfl⟩
    | cons s rest =>
      rw [prependOne_cons]; split
      · exact ⟨_, _, rfl, rfl, rfl⟩
      · exact ⟨_, _, rfl, rfl, rfl⟩
  by_cases hc : g.members.contains peer.as = true
  · simp only [hc, if_true]; exact hp 3
  · have hc' : g.members.contains peer.as = false := by simpa using hc
    simp only [hc', Bool.false_eq_true, if_false]
    rcases hp 2 with ⟨hd, tl, he, ht, hh⟩
    refine ⟨hd, dropConfed tl, ?_, ht, hh⟩
    rw [he, dropConfed_cons]; simp [ht]

/-! ### `rewrite`, arm by arm -/

theorem removeLocalPref_spec (p : Path) :
    SameNode p (removeLocalPref p) ∧
    (∀ t, t ≠ tLOCAL_PREF → getAttr (removeLocalPref p) t = getAttr p t) ∧
    getAttr (removeLocalPref p) tLOCAL_PREF = none ∧
    (∀ t, t ∈ p.leaf.dels → t ∈ (removeLocalPref p).leaf.dels) := by
  unfold removeLocalPref
  split
  · exact ⟨sameNode_delAttr _ _, fun t ht => by rw [getAttr_delAttr]; simp [ht],
      by rw [getAttr_delAttr]; simp, fun t ht => by simp [ht]⟩
  · rename_i hn
    exact ⟨SameNode.refl _, fun _ _ => rfl, hn, fun _ h => h⟩

theorem sameNode_stripped (peer : Peer) (p : Path) :
    (stripped peer p).parents = p.leaf :: p.parents ∧ (stripped peer p).src = p.src ∧
    (stripped peer p).family = p.family ∧ (stripped peer p).withdraw = p.withdraw ∧
    (stripped peer p).nlri = p.nlri :=
  ⟨stripped_parents peer p, (stripped_fields peer p).1, (stripped_fields peer p).2.1,
   (stripped_fields peer p).2.2.1, (stripped_fields peer p).2.2.2.1⟩

theorem rewrite_ebgp (g : Global) (peer : Peer) (p : Path) (hrs : peer.rsClient = false)
    (ht : peer.peerType = 1) :
    rewrite g peer p =
      removeLocalPref (updateExternal g peer (stripped peer p) (getNexthop (stripped peer p))) := by
  simp [rewrite, postStrip, updatePathAttrs_eq g peer p hrs, ht, hrs]

theorem rewrite_ibgp (g : Global) (peer : Peer) (p : Path) (hrs : peer.rsClient = false)
    (ht : peer.peerType = 0) :
    rewrite g peer p = updateInternal g peer (stripped peer p) (getNexthop (stripped peer p)) := by
  simp [rewrite, postStrip, updatePathAttrs_eq g peer p hrs, ht]

theorem rewrite_other (g : Global) (peer : Peer) (p : Path) (hrs : peer.rsClient = false)
    (h0 : peer.peerType ≠ 0) (h1 : peer.peerType ≠ 1) :
    rewrite g peer p = removeLocalPref (stripped peer p) := by
  simp [rewrite, postStrip, updatePathAttrs_eq g peer p hrs, h0, h1, hrs]

theorem rewrite_rs (g : Global) (peer : Peer) (p : Path) (hrs : peer.rsClient = true) :
    rewrite g peer p = p := by
  simp [rewrite, postStrip, updatePathAttrs, hrs]

/-- the copy is a fresh node on top of the stored path; everything else of the stored path is
    carried over as it is -/
theorem rewrite_sameNode (g : Global) (peer : Peer) (p : Path) (hrs : peer.rsClient = false) :
    SameNode (stripped peer p) (rewrite g peer p) := by
  by_cases h1 : peer.peerType = 1
  · rw [rewrite_ebgp g peer p hrs h1]
    exact (updateExternal_spec g peer _ _
      (not_mem_dels_stripped_known peer p (by decide) (by decide) (by decide))).1.trans
      (removeLocalPref_spec _).1
  · by_cases h0 : peer.peerType = 0
    · rw [rewrite_ibgp g peer p hrs h0]; exact (updateInternal_touches g peer _ _).same
    · rw [rewrite_other g peer p hrs h0 h1]; exact (removeLocalPref_spec _).1

def footprint : List Nat := [tAS_PATH, tNEXT_HOP, tMED, tLOCAL_PREF, tORIGINATOR_ID, tCLUSTER_LIST, tMP_REACH]

/-- outside the seven attribute types the rewriting owns, the copy reads what the first loop left -/
theorem rewrite_frame (g : Global) (peer : Peer) (p : Path) (hrs : peer.rsClient = false)
    (t : Nat) (ht : t ∉ footprint) : getAttr (rewrite g peer p) t = getAttr (stripped peer p) t := by
  simp only [footprint, List.mem_cons, List.not_mem_nil, or_false, not_or] at ht
  obtain ⟨t2, t3, t4, t5, t9, t10, t14⟩ := ht
  by_cases h1 : peer.peerType = 1
  · rw [rewrite_ebgp g peer p hrs h1, (removeLocalPref_spec _).2.1 t t5]
    exact (updateExternal_spec g peer _ _
      (not_mem_dels_stripped_known peer p (by decide) (by decide) (by decide))).2.2.1 t t2 t3 t14 t4
  · by_cases h0 : peer.peerType = 0
    · rw [rewrite_ibgp g peer p hrs h0]
      exact (updateInternal_touches g peer _ _).frame t (by simp [ibgpFp]; omega)
    · rw [rewrite_other g peer p hrs h0 h1]; exact (removeLocalPref_spec _).2.1 t t5

/-- a type deleted by the first loop stays deleted -/
theorem rewrite_dels (g : Global) (peer : Peer) (p : Path) (hrs : peer.rsClient = false)
    (t : Nat) (ht : t ∈ (stripped peer p).leaf.dels) : getAttr (rewrite g peer p) t = none := by
  apply getAttr_of_del
  by_cases h1 : peer.peerType = 1
  · rw [rewrite_ebgp g peer p hrs h1]
    exact (removeLocalPref_spec _).2.2.2 t ((updateExternal_spec g peer _ _
      (not_mem_dels_stripped_known peer p (by decide) (by decide) (by decide))).2.2.2.1 t ht)
  · by_cases h0 : peer.peerType = 0
    · rw [rewrite_ibgp g peer p hrs h0]
      exact ((updateInternal_touches g peer _ _).dels t).2 (Or.inl ht)
    · rw [rewrite_other g peer p hrs h0 h1]; exact (removeLocalPref_spec _).2.2.2 t ht

theorem root_of_parents {q : Path} {l : Layer} {rest : List Layer} (h : q.parents = l :: rest) :
    q.root = rootOf l rest := by
  simp [Path.root, h, rootOf]

theorem rewrite_root (g : Global) (peer : Peer) (p : Path) (hrs : peer.rsClient = false) :
    (rewrite g peer p).root = p.root := by
  have h := (rewrite_sameNode g peer p hrs).parents
  rw [stripped_parents] at h
  rw [root_of_parents h]; rfl

theorem clone_root (p : Path) (w : Bool) : (clone p w).root = p.root := rfl

/-! ### eBGP clauses -/

theorem getNexthop_congr {p q : Path} (h3 : getAttr q tNEXT_HOP = getAttr p tNEXT_HOP)
    (h14 : getAttr q tMP_REACH = getAttr p tMP_REACH) : getNexthop q = getNexthop p := by
  simp [getNexthop, h3, h14]

theorem ebgp_asPath (g : Global) (peer : Peer) (p : Path) (hrs : peer.rsClient = false)
    (ht : peer.peerType = 1) :
    getAsPath (rewrite g peer p) = some (ebgpSegs g peer (getAsPath p)) := by
  rw [rewrite_ebgp g peer p hrs ht, getAsPath_congr ((removeLocalPref_spec _).2.1 _ (by decide)),
    (updateExternal_spec g peer _ _
      (not_mem_dels_stripped_known peer p (by decide) (by decide) (by decide))).2.1,
    getAsPath_congr (getAttr_stripped_known peer p (t := tAS_PATH) (by decide) (by decide) (by decide))]

theorem ebgp_absent (g : Global) (peer : Peer) (p : Path) (hrs : peer.rsClient = false)
    (ht : peer.peerType = 1) :
    getAttr (rewrite g peer p) tLOCAL_PREF = none ∧
    getAttr (rewrite g peer p) tORIGINATOR_ID = none ∧
    getAttr (rewrite g peer p) tCLUSTER_LIST = none ∧
    (isLocal p = false → getAttr (rewrite g peer p) tMED = none) ∧
    (isLocal p = true → getAttr (rewrite g peer p) tMED = getAttr p tMED) := by
  have hx := updateExternal_spec g peer (stripped peer p) (getNexthop (stripped peer p))
      (not_mem_dels_stripped_known peer p (by decide) (by decide) (by decide))
  have hl := removeLocalPref_spec (updateExternal g peer (stripped peer p) (getNexthop (stripped peer p)))
  have hne : peer.peerType ≠ 0 ∨ peer.rrClient = false := Or.inl (by omega)
  have hloc : isLocal (stripped peer p) = isLocal p := by simp [isLocal, (sameNode_stripped peer p).2.1]
  rw [rewrite_ebgp g peer p hrs ht]
  refine ⟨hl.2.2.1, ?_, ?_, ?_, ?_⟩
  · rw [hl.2.1 _ (by decide), hx.2.2.1 _ (by decide) (by decide) (by decide) (by decide)]
    exact getAttr_stripped_rr_none peer p (Or.inr rfl) hne
  · rw [hl.2.1 _ (by decide), hx.2.2.1 _ (by decide) (by decide) (by decide) (by decide)]
    exact getAttr_stripped_rr_none peer p (Or.inl rfl) hne
  · intro hnl
    rw [hl.2.1 _ (by decide), hx.2.2.2.2.1, hloc, hnl]; rfl
  · intro hnl
    rw [hl.2.1 _ (by decide), hx.2.2.2.2.1, hloc, hnl]
    simp [getAttr_stripped_known peer p (t := tMED) (by decide) (by decide) (by decide)]

/-- the stored route carries an attribute SetNexthop can write the address into -/
def hasNexthopAttr (p : Path) : Prop :=
  (getAttr p tNEXT_HOP).isSome = true ∨
    ∃ ty fl f a b n, getAttr p tMP_REACH = some ⟨ty, fl, .mpReach f a b n⟩

theorem getAttr_setAttr_same' (p : Path) (a : Attr) (t : Nat) (ht : a.typ = t) (h : t ∉ p.leaf.dels) :
    getAttr (setAttr p a) t = some a := by
  subst ht; rw [getAttr_setAttr_same]; simp [h]

theorem getNexthop_of (p : Path) (nh : Addr) (g3 : getAttr p tNEXT_HOP = none)
    (g14 : ∃ ty fl f ll n, getAttr p tMP_REACH = some ⟨ty, fl, .mpReach f nh ll n⟩) : getNexthop p = nh := by
  rcases g14 with ⟨ty, fl, f, ll, n, h⟩
  simp only [getNexthop, g3, h]

theorem getNexthop_of3 (p : Path) (nh : Addr) (g3 : getAttr p tNEXT_HOP = some (mkNextHop nh)) :
    getNexthop p = nh := by
  simp only [getNexthop, g3, mkNextHop]

theorem mkMpReach_valid (f : Nat) (n : String) (nh : Addr) (hv : nh.isValid = true) :
    mkMpReach f n nh = ⟨tMP_REACH, 128, .mpReach f nh Addr.zero n⟩ := by simp [mkMpReach, hv]

theorem getNexthop_setNexthop (p : Path) (nh : Addr) (h3 : tNEXT_HOP ∉ p.leaf.dels)
    (h14 : tMP_REACH ∉ p.leaf.dels) (hv : nh.isValid = true)
    (h : hasNexthopAttr p ∨ (p.family = RF_IPv4_UC ∧ nh.is6 = true)) :
    getNexthop (setNexthop p nh) = nh := by
  unfold setNexthop
  split
  · apply getNexthop_of
    · rw [getAttr_setAttr_other _ _ _ (by simp [mkMpReach, tNEXT_HOP, tMP_REACH]), getAttr_delAttr_same]
    · refine ⟨tMP_REACH, 128, p.family, Addr.zero, p.nlri, ?_⟩
      rw [← mkMpReach_valid _ _ _ hv]
      apply getAttr_setAttr_same' _ _ _ rfl
      simp only [dels_delAttr, List.mem_append, List.mem_singleton, not_or]
      exact ⟨h14, by simp [mkMpReach, tMP_REACH, tNEXT_HOP]⟩
  · rename_i hb
    have hno : ¬ (p.family = RF_IPv4_UC ∧ nh.is6 = true) := by
      intro hh; apply hb; simp [hh.1, hh.2]
    have hh : hasNexthopAttr p := h.resolve_right hno
    have s2 := setMpNexthop_spec (setNextHopAttr p nh) nh
    cases h3p : getAttr p tNEXT_HOP with
    | some a =>
      have e1 : setNextHopAttr p nh = setAttr p (mkNextHop nh) := by simp [setNextHopAttr, h3p]
      apply getNexthop_of3
      rw [s2.2.2 _ (by decide), e1]
      exact getAttr_setAttr_same' _ _ _ rfl h3
    | none =>
      have e1 : setNextHopAttr p nh = p := by simp [setNextHopAttr, h3p]
      rcases hh with hh | ⟨ty, fl, f, a, b, n, hmp⟩
      · rw [h3p] at hh; cases hh
      · rw [e1]
        have e2 : setMpNexthop p nh = setAttr p (mkMpReach p.family n nh) := by simp [setMpNexthop, hmp]
        apply getNexthop_of
        · rw [(setMpNexthop_spec p nh).2.2 _ (by decide), h3p]
        · refine ⟨tMP_REACH, 128, p.family, Addr.zero, n, ?_⟩
          rw [e2, ← mkMpReach_valid _ _ _ hv]
          exact getAttr_setAttr_same' _ _ _ rfl h14

theorem ebgp_nexthop (g : Global) (peer : Peer) (p : Path) (hrs : peer.rsClient = false)
    (ht : peer.peerType = 1) (hv : peer.localAddr.isValid = true)
    (hc : isLocal p = false ∨ (getNexthop p).isUnspecified = true)
    (h : hasNexthopAttr p ∨ (p.family = RF_IPv4_UC ∧ peer.localAddr.is6 = true)) :
    getNexthop (rewrite g peer p) = peer.localAddr := by
  have hx := updateExternal_spec g peer (stripped peer p) (getNexthop (stripped peer p))
      (not_mem_dels_stripped_known peer p (by decide) (by decide) (by decide))
  have hl := removeLocalPref_spec (updateExternal g peer (stripped peer p) (getNexthop (stripped peer p)))
  have k3 := getAttr_stripped_known peer p (t := tNEXT_HOP) (by decide) (by decide) (by decide)
  have k14 := getAttr_stripped_known peer p (t := tMP_REACH) (by decide) (by decide) (by decide)
  have hnh : getNexthop (stripped peer p) = getNexthop p := getNexthop_congr k3 k14
  have hloc : isLocal (stripped peer p) = isLocal p := by simp [isLocal, (sameNode_stripped peer p).2.1]
  rw [rewrite_ebgp g peer p hrs ht]
  rw [getNexthop_congr
    ((hl.2.1 _ (by decide)).trans (hx.2.2.2.2.2 _ (Or.inl rfl)))
    ((hl.2.1 _ (by decide)).trans (hx.2.2.2.2.2 _ (Or.inr rfl)))]
  have e1 : ext1 peer (stripped peer p) (getNexthop (stripped peer p)) =
      setNexthop (stripped peer p) peer.localAddr := by
    unfold ext1; rw [hloc, hnh]
    rcases hc with hc | hc <;> simp [hc]
  rw [e1]
  apply getNexthop_setNexthop _ _
    (not_mem_dels_stripped_known peer p (by decide) (by decide) (by decide))
    (not_mem_dels_stripped_known peer p (by decide) (by decide) (by decide)) hv
  rcases h with h | h
  · left
    unfold hasNexthopAttr at h ⊢
    rw [k3, k14]; exact h
  · right; rw [(sameNode_stripped peer p).2.2.1]; exact h

/-! ### unknown attributes, and everything the rewriting does not own -/

theorem no_unknown_nontransitive (g : Global) (peer : Peer) (p : Path) (hrs : peer.rsClient = false)
    (hn : (typs p.root.attrs).Nodup) :
    ∀ a ∈ getAttrs (rewrite g peer p), known a.typ = true ∨ transitive a.flags = true := by
  intro a ha
  by_cases hk : known a.typ = true
  · exact Or.inl hk
  by_cases htr : transitive a.flags = true
  · exact Or.inr htr
  exfalso
  have hk' : known a.typ = false := by simpa using hk
  have htr' : transitive a.flags = false := by simpa using htr
  have hg := getAttr_of_mem_getAttrs (rewrite g peer p) (by rw [rewrite_root g peer p hrs]; exact hn) ha
  have hfp : a.typ ∉ footprint := by
    intro hin
    simp only [footprint, List.mem_cons, List.not_mem_nil, or_false] at hin
    have : known a.typ = true := by
      rcases hin with e | e | e | e | e | e | e <;> rw [e] <;> decide
    rw [this] at hk'; cases hk'
  rw [rewrite_frame g peer p hrs _ hfp, getAttr_stripped] at hg
  split at hg
  · cases hg
  · have hd := stripped_unknown peer p hg hk' htr'
    have := rewrite_dels g peer p hrs _ hd
    rw [rewrite_frame g peer p hrs _ hfp, getAttr_stripped] at this
    rename_i hnin
    simp [hnin, hg] at this

theorem passthrough (g : Global) (peer : Peer) (p : Path) (hrs : peer.rsClient = false)
    (hn : (typs p.root.attrs).Nodup) (t : Nat) (a : Attr) (ht : t ∉ footprint)
    (hg : getAttr p t = some a) (hka : known t = true ∨ transitive a.flags = true) :
    getAttr (rewrite g peer p) t = some a := by
  rw [rewrite_frame g peer p hrs _ ht, getAttr_stripped]
  split
  · rename_i hin
    exfalso
    rcases mem_stripDels_iff.1 hin with ⟨b, hb, hbt⟩
    have hs := mem_stepDel hbt
    have hb' := getAttr_of_mem_getAttrs (clone p p.withdraw) (by rw [clone_root]; exact hn) hb
    rw [getAttr_clone, ← hs.1, hg] at hb'
    have hab : a = b := by simpa using hb'
    rcases hs.2 with h' | h'
    · rcases hka with h'' | h''
      · rw [h''] at h'; cases h'.1
      · rw [hab, h'.2] at h''; cases h''
    · apply ht
      rcases h'.1 with e | e <;> simp [footprint, e]
  · exact hg

/-! ### iBGP clauses -/

theorem ibgp_core (g : Global) (peer : Peer) (p : Path) (hrs : peer.rsClient = false)
    (ht : peer.peerType = 0) (hrtc : peer.rrClient = true → p.family ≠ RF_RTC_UC) :
    getAttr (rewrite g peer p) tAS_PATH = some ((getAttr p tAS_PATH).getD (mkAsPath [])) ∧
    getAttr (rewrite g peer p) tLOCAL_PREF = some ((getAttr p tLOCAL_PREF).getD (mkLocalPref 100)) ∧
    getAttr (rewrite g peer p) tMED = getAttr p tMED ∧
    ((isLocal p && (getNexthop p).isUnspecified) = false →
      getAttr (rewrite g peer p) tNEXT_HOP = getAttr p tNEXT_HOP ∧
      getAttr (rewrite g peer p) tMP_REACH = getAttr p tMP_REACH) := by
  have k : ∀ t, known t = true → t ≠ tCLUSTER_LIST → t ≠ tORIGINATOR_ID → getAttr (stripped peer p) t = getAttr p t :=
    fun t a b c => getAttr_stripped_known peer p a b c
  have d : ∀ t, known t = true → t ≠ tCLUSTER_LIST → t ≠ tORIGINATOR_ID → t ∉ (stripped peer p).leaf.dels :=
    fun t a b c => not_mem_dels_stripped_known peer p a b c
  have i3 := int3_spec peer (stripped peer p) (getNexthop (stripped peer p)) (d _ (by decide) (by decide) (by decide)) (d _ (by decide) (by decide) (by decide))
  have hnh : (getNexthop (stripped peer p)) = getNexthop p := getNexthop_congr (k _ (by decide) (by decide) (by decide)) (k _ (by decide) (by decide) (by decide))
  have hloc : isLocal (stripped peer p) = isLocal p := by simp [isLocal, (sameNode_stripped peer p).2.1]
  have hfam : (int3 peer (stripped peer p) (getNexthop (stripped peer p))).family = p.family :=
    (int3_touches peer (stripped peer p) (getNexthop (stripped peer p))).same.family.trans (sameNode_stripped peer p).2.2.1
  -- reads of the final path in terms of int3
  have fin : ∀ t, t ≠ tORIGINATOR_ID → t ≠ tCLUSTER_LIST →
      getAttr (rewrite g peer p) t = getAttr (int3 peer (stripped peer p) (getNexthop (stripped peer p))) t := by
    intro t t9 t10
    rw [rewrite_ibgp g peer p hrs ht, updateInternal_eq]
    by_cases hr : peer.rrClient = true
    · simp only [hr, if_true]
      have i3t := int3_touches peer (stripped peer p) (getNexthop (stripped peer p))
      have nd : ∀ t, t ≠ tNEXT_HOP → t ∉ (stripped peer p).leaf.dels → t ∉ (int3 peer (stripped peer p) (getNexthop (stripped peer p))).leaf.dels := by
        intro t ht hq hh
        rcases (i3t.dels t).1 hh with h' | h'
        · exact hq h'
        · exact ht h'.1
      have keep9 := getAttr_stripped_rr_keep peer p (t := tORIGINATOR_ID) (Or.inr rfl) ht hr
      have keep10 := getAttr_stripped_rr_keep peer p (t := tCLUSTER_LIST) (Or.inl rfl) ht hr
      exact (rrBlock_spec g peer _ (by rw [hfam]; exact hrtc hr)
        (nd _ (by decide) keep9.2) (nd _ (by decide) keep10.2)).2.2 t t9 t10
    · have hr' : peer.rrClient = false := by simpa using hr
      simp [hr']
  refine ⟨?_, ?_, ?_, ?_⟩
  · rw [fin _ (by decide) (by decide), i3.1, k _ (by decide) (by decide) (by decide)]
    cases getAttr p tAS_PATH <;> rfl
  · rw [fin _ (by decide) (by decide), i3.2.1, k _ (by decide) (by decide) (by decide)]
    cases getAttr p tLOCAL_PREF <;> rfl
  · rw [fin _ (by decide) (by decide), int3_frame peer (stripped peer p) (getNexthop (stripped peer p)) _ (by decide) (by decide) (by decide) (by decide),
      k _ (by decide) (by decide) (by decide)]
  · intro hc
    have hq : int1 peer (stripped peer p) (getNexthop (stripped peer p)) = (stripped peer p) := i3.2.2.2 (by rw [hloc, hnh]; exact hc)
    constructor
    · rw [fin _ (by decide) (by decide), i3.2.2.1 _ (by decide) (by decide), hq,
        k _ (by decide) (by decide) (by decide)]
    · rw [fin _ (by decide) (by decide), i3.2.2.1 _ (by decide) (by decide), hq,
        k _ (by decide) (by decide) (by decide)]

theorem ibgp_nonclient_rr_attrs (g : Global) (peer : Peer) (p : Path) (hrs : peer.rsClient = false)
    (ht : peer.peerType = 0) (hr : peer.rrClient = false) :
    getAttr (rewrite g peer p) tORIGINATOR_ID = none ∧ getAttr (rewrite g peer p) tCLUSTER_LIST = none := by
  rw [rewrite_ibgp g peer p hrs ht, updateInternal_eq]
  simp only [hr, Bool.false_eq_true, if_false]
  constructor
  · rw [int3_frame _ _ _ _ (by decide) (by decide) (by decide) (by decide)]
    exact getAttr_stripped_rr_none peer p (Or.inr rfl) (Or.inr hr)
  · rw [int3_frame _ _ _ _ (by decide) (by decide) (by decide) (by decide)]
    exact getAttr_stripped_rr_none peer p (Or.inl rfl) (Or.inr hr)

theorem rr_client_core (g : Global) (peer : Peer) (p : Path) (hrs : peer.rsClient = false)
    (ht : peer.peerType = 0) (hr : peer.rrClient = true) (hf : p.family ≠ RF_RTC_UC) :
    getAttr (rewrite g peer p) tORIGINATOR_ID =
      (getAttr p tORIGINATOR_ID).orElse
        (fun _ => mkOriginator? (if isLocal p then g.routerId else p.src.id)) ∧
    getAttr (rewrite g peer p) tCLUSTER_LIST = some (mkClusterList (peer.clusterId :: clusterList p)) := by
  have i3t := int3_touches peer (stripped peer p) (getNexthop (stripped peer p))
  have nd : ∀ t, t ≠ tNEXT_HOP → t ∉ (stripped peer p).leaf.dels → t ∉ (int3 peer (stripped peer p) (getNexthop (stripped peer p))).leaf.dels := by
    intro t ht hq hh
    rcases (i3t.dels t).1 hh with h' | h'
    · exact hq h'
    · exact ht h'.1
  have keep9 := getAttr_stripped_rr_keep peer p (t := tORIGINATOR_ID) (Or.inr rfl) ht hr
  have keep10 := getAttr_stripped_rr_keep peer p (t := tCLUSTER_LIST) (Or.inl rfl) ht hr
  have hfam : (int3 peer (stripped peer p) (getNexthop (stripped peer p))).family = p.family :=
    i3t.same.family.trans (sameNode_stripped peer p).2.2.1
  have hsrc : (int3 peer (stripped peer p) (getNexthop (stripped peer p))).src = p.src := i3t.same.src.trans (sameNode_stripped peer p).2.1
  have rr := rrBlock_spec g peer (int3 peer (stripped peer p) (getNexthop (stripped peer p))) (by rw [hfam]; exact hf)
    (nd _ (by decide) keep9.2) (nd _ (by decide) keep10.2)
  have g9 : getAttr (int3 peer (stripped peer p) (getNexthop (stripped peer p))) tORIGINATOR_ID = getAttr p tORIGINATOR_ID := by
    rw [int3_frame _ _ _ _ (by decide) (by decide) (by decide) (by decide)]; exact keep9.1
  have g10 : getAttr (int3 peer (stripped peer p) (getNexthop (stripped peer p))) tCLUSTER_LIST = getAttr p tCLUSTER_LIST := by
    rw [int3_frame _ _ _ _ (by decide) (by decide) (by decide) (by decide)]; exact keep10.1
  have hloc : isLocal (int3 peer (stripped peer p) (getNexthop (stripped peer p))) = isLocal p := by simp [isLocal, hsrc]
  rw [rewrite_ibgp g peer p hrs ht, updateInternal_eq]
  simp only [hr, if_true]
  refine ⟨?_, ?_⟩
  · rw [rr.1, g9, hloc, hsrc]
    cases getAttr p tORIGINATOR_ID <;> rfl
  · rw [rr.2.1]; simp [clusterList, g10]

end Export
