import Model.LockEdges
import Model.Handoff
import Driver.Util
/-
Line protocol of the C20 (lock order / lockset) correspondence:
  class <name>                         → 1 if <name> is a lock class of the model, else 0
  classes                              → number of lock classes of the model
  edge <held>:<M> <requested>:<M>      → 1 if the edge is in the expected table, else 0
  edges                                → size of the expected table
  access <what> <func> <r|w> n l1 … ln → ok / bad: lockset rule of <what> on the must-held set
                                         (unknown <what> → bad-op)
  reasonstr <reason type> <notification|nil> <len data>   → total  (String() / API conversion of a
  statestr <v>                                              constructible reason / state value never panic)
  handoff <spawner> <goroutine> <chan> <cap> <blocking sends> <cancellable sends>
                                       → ok / bad: a joined goroutine's blocking sends fit the buffer
-/
namespace DriverC20
open LockEdges Lock DriverUtil

def parseL (s : String) : Option L :=
  match s.splitOn ":" with
  | [c, "W"] => (Cls.ofName c).map (·, Mode.W)
  | [c, "R"] => (Cls.ofName c).map (·, Mode.R)
  | _ => none

def step (_ : Unit) (ts : List String) : Unit × List String :=
  match ts with
  | ["class", c] => ((), [if (Cls.ofName c).isSome then "1" else "0"])
  | ["classes"] => ((), [toString allCls.length])
  | ["edge", a, b] =>
    match parseL a, parseL b with
    | some x, some y => ((), [if hasEdge (x, y) then "1" else "0"])
    | _, _ => ((), ["0"])
  | ["edges"] => ((), [toString edges.length])
  | "access" :: what :: _fn :: rw :: _n :: locks =>
    match guardOf what (rw == "w") with
    | some g =>
      let held := locks.filterMap parseL
      if held.length != locks.length then ((), ["bad-op"])
      else ((), [if guardOk g held then "ok" else "bad"])
    | none => ((), ["bad-op"])
  | ["handoff", _spawner, _gor, _ch, cap, sends, _cancellable] =>
    ((), [if Handoff.handoffOk (nat! cap) (nat! sends) then "ok" else "bad"])
  | ["reasonstr", _name, _kind, _data] => ((), ["total"])
  | ["statestr", _v] => ((), ["total"])
  | [] => ((), [])
  | _ => ((), ["bad-op"])

def main : IO Unit := do
  let stdin ← IO.getStdin
  let stdout ← IO.getStdout
  loop stdin stdout () step

end DriverC20
