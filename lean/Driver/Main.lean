import Driver.C03

def main (args : List String) : IO UInt32 := do
  match args with
  | ["C03"] => DriverC03.main; return 0
  | _ => IO.eprintln "usage: driver <property-id>  (ops on stdin)"; return 2
