import Model.World
import Driver.Util
/- line-protocol driver for the world model (shared by C01, C02, C15) -/
namespace DriverWorld
open BestPath World DriverUtil

def parseSegs : Nat → List String → List Seg
  | 0, _ => []
  | n + 1, ts =>
    match ts with
    | typ :: rest =>
      let (as, rest') := takeList rest
      ⟨nat! typ, as⟩ :: parseSegs n rest'
    | [] => []

def optNat (present v : String) : Option Nat := if b! present then some (nat! v) else none

def kindOf (s : String) : Kind :=
  match s with
  | "0" => .ebgp | "1" => .ibgp | "2" => .rrc | _ => .rsc

/-- `<pfx> <pathId> <marker> <lpP> <lp> <origin> <medP> <med> <origP> <originator> <ncl> cl… <ncomm> c… <nseg> segs…` -/
def parseRoute (ts : List String) : Option Cand :=
  match ts with
  | pfx :: pid :: marker :: lpp :: lp :: origin :: mp :: med :: op :: orig :: rest =>
    let (cl, rest) := takeList rest
    let (comms, rest) := takeList rest
    match rest with
    | nseg :: rest =>
      some { (default : Cand) with
        pfx := nat! pfx, pathId := nat! pid, marker := nat! marker, localPref := optNat lpp lp,
        origin := some (nat! origin), med := optNat mp med, originator := optNat op orig,
        clusterList := cl, comms := comms, segs := parseSegs (nat! nseg) rest }
    | [] => none
  | _ => none

def showView (v : View) : String :=
  let sorted := v.toArray.qsort (fun a b => a.1 < b.1 || (a.1 == b.1 && a.2.1 < b.2.1)) |>.toList
  String.join (sorted.map (fun e => s!" {e.1}#{e.2.1}={e.2.2}"))

def showAdj (a : Adj) : String :=
  let sorted := a.entries.toArray.qsort (fun x y => x.r.pfx < y.r.pfx || (x.r.pfx == y.r.pfx && x.r.pathId < y.r.pathId)) |>.toList
  String.join (sorted.map (fun e => s!" {e.r.pfx}#{e.r.pathId}={e.r.marker}" ++ (if e.rejected then "r" else ""))) ++
    s!" | count {a.entries.length} accepted {a.accepted}"

def step (w : W) (ts : List String) : W × List String :=
  match ts with
  | ["world", as, rid] => ({ g := ⟨nat! as, nat! rid⟩ }, [])
  | ["opts", a, b, c] => ({ w with opts := ⟨b! a, b! b, b! c⟩ }, [])
  | ["peer", idx, kind, as, rid, addr, sendMax, apRx, allowOwn] =>
    let cfg : PeerCfg := { idx := nat! idx, kind := kindOf kind, as := nat! as, rid := nat! rid, addr := nat! addr,
                           sendMax := nat! sendMax, addPathRx := b! apRx, allowOwnAs := nat! allowOwn }
    (World.step w (.add cfg), [])
  | ["up", idx] => (World.step w (.up (nat! idx)), [])
  | ["down", idx] => (World.step w (.down (nat! idx)), [])
  | "ann" :: idx :: rest =>
    match parseRoute rest with
    | some r => (World.step w (.ann (nat! idx) r), [])
    | none => (w, ["bad-op"])
  | ["wd", idx, pfx, pid] => (World.step w (.wd (nat! idx) (nat! pfx) (nat! pid)), [])
  | "ladd" :: rest =>
    match parseRoute rest with
    | some r => (World.step w (.localAdd r), [])
    | none => (w, ["bad-op"])
  | ["ldel", pfx, pid] => (World.step w (.localDel (nat! pfx) (nat! pid)), [])
  | ["del", idx] => (World.step w (.del (nat! idx)), [])
  | ["view", idx] =>
    match w.peer? (nat! idx) with
    | some ps => (w, ["view" ++ showView ps.view])
    | none => (w, ["bad-op"])
  | ["adjin", idx] =>
    match w.peer? (nat! idx) with
    | some ps => (w, ["adjin" ++ showAdj ps.adj])
    | none => (w, ["bad-op"])
  | ["rib", pfx] =>
    (w, ["rib" ++ String.join ((w.ribOf (nat! pfx)).map (fun c => s!" {c.marker}"))])
  | [] => (w, [])
  | _ => (w, ["bad-op"])

def main : IO Unit := do
  loop (← IO.getStdin) (← IO.getStdout) ({ g := ⟨0, 0⟩ } : W) step

end DriverWorld
