import Model.Wire
import Driver.Util
namespace DriverC04
open Wire DriverUtil

def hexDigit (c : Char) : Option Nat :=
  if '0' ≤ c ∧ c ≤ '9' then some (c.toNat - '0'.toNat)
  else if 'a' ≤ c ∧ c ≤ 'f' then some (c.toNat - 'a'.toNat + 10)
  else none

def unhexAux : List Char → Option Bytes
  | [] => some []
  | a :: b :: rest =>
    match hexDigit a, hexDigit b, unhexAux rest with
    | some x, some y, some r => some ((x * 16 + y) :: r)
    | _, _, _ => none
  | _ => none

def unhex (s : String) : Option Bytes := if s == "-" then some [] else unhexAux s.toList

def hexChar (n : Nat) : Char := if n < 10 then Char.ofNat (48 + n) else Char.ofNat (87 + n)

def hex (b : Bytes) : String :=
  if b.isEmpty then "-" else String.ofList (b.flatMap fun x => [hexChar (x / 16 % 16), hexChar (x % 16)])

/-! rendering (the Go harness prints the same text from the real objects) -/

def rNlri (n : PathNLRI) : String := s!"{n.id}/{n.pfx.bits}/{hex n.pfx.addr}"
def rNlris (l : List PathNLRI) : String := " ".intercalate (l.map rNlri)
def commaNats (l : List Nat) : String := ",".intercalate (l.map toString)
def rSeg (s : Seg) : String := s!"{if s.w4 then 4 else 2}.{s.typ}.{s.num}[{commaNats s.as}]"
def rSegs (l : List Seg) : String := ";".intercalate (l.map rSeg)

def rVal : AttrVal → String
  | .origin v => s!"origin {v}"
  | .asPath segs => s!"aspath {rSegs segs}"
  | .nextHop a => s!"nexthop {hex a}"
  | .med v => s!"med {v}"
  | .localPref v => s!"lp {v}"
  | .atomicAgg => "atomic"
  | .aggregator w as addr => s!"aggr {if w then 4 else 2} {as} {addr}"
  | .communities vs => s!"comm {commaNats vs}"
  | .originatorId a => s!"origid {a}"
  | .clusterList ids => s!"clist {commaNats ids}"
  | .as4Path segs => s!"as4path {rSegs segs}"
  | .as4Aggregator as addr => s!"as4aggr {as} {addr}"
  | .largeComm vs => "lcomm " ++ ",".intercalate (vs.map fun (a, b, c) => s!"{a}:{b}:{c}")
  | .unknown v => s!"unk {hex v}"

def rAttr (a : Attr) : String := "{" ++ s!"f={a.flags} t={a.typ} l={a.length} {rVal a.val}" ++ "}"
def rAttrs (l : List Attr) : String := " ".intercalate (l.map rAttr)

def rBody : Body → String
  | .update u => s!"U wl={u.wlen} W[{rNlris u.withdrawn}] pl={u.palen} A[{rAttrs u.attrs}] N[{rNlris u.nlri}]"
  | .notification c s d => s!"NOTIF {c} {s} {hex d}"
  | .keepalive => "KA"
  | .routeRefresh a d s => s!"RR {a} {d} {s}"
  | .openRaw r => s!"OPEN {hex r}"

def rMsg (m : Msg) : String := s!"M len={m.hlen} typ={m.typ} {rBody m.body}"

/-! parsing of abstract message descriptions -/

def pNlris : Nat → List String → Option (List PathNLRI × List String)
  | 0, ts => some ([], ts)
  | n + 1, id :: bits :: a :: rest =>
    match unhex a, pNlris n rest with
    | some ab, some (l, r) => some (⟨nat! id, ⟨nat! bits, ab⟩⟩ :: l, r)
    | _, _ => none
  | _, _ => none

def pSegs (w4? : Option Bool) : Nat → List String → Option (List Seg × List String)
  | 0, ts => some ([], ts)
  | n + 1, ts =>
    let hd : Option (Bool × List String) :=
      match w4? with
      | some w => some (w, ts)
      | none => match ts with
        | w :: r => some (b! w, r)
        | [] => none
    match hd with
    | some (w, typ :: r) =>
      let (as, r') := takeList r
      match pSegs w4? n r' with
      | some (l, r'') => some (mkSeg w (nat! typ) as :: l, r'')
      | none => none
    | _ => none

def pTriples : Nat → List String → Option (List (Nat × Nat × Nat) × List String)
  | 0, ts => some ([], ts)
  | n + 1, a :: b :: c :: rest =>
    match pTriples n rest with
    | some (l, r) => some ((nat! a, nat! b, nat! c) :: l, r)
    | none => none
  | _, _ => none

def pAttr : List String → Option (Attr × List String)
  | "o" :: v :: r => some (mkOrigin (nat! v), r)
  | "p" :: n :: r => (pSegs none (nat! n) r).map fun (s, r') => (mkAsPath s, r')
  | "h" :: h :: r => (unhex h).map fun b => (mkNextHop b, r)
  | "m" :: v :: r => some (mkMed (nat! v), r)
  | "l" :: v :: r => some (mkLocalPref (nat! v), r)
  | "a" :: r => some (mkAtomicAgg, r)
  | "g" :: w :: as :: addr :: r => some (mkAggregator (b! w) (nat! as) (nat! addr), r)
  | "c" :: r => let (vs, r') := takeList r; some (mkCommunities vs, r')
  | "i" :: a :: r => some (mkOriginatorId (nat! a), r)
  | "k" :: r => let (vs, r') := takeList r; some (mkClusterList vs, r')
  | "P" :: n :: r => (pSegs (some true) (nat! n) r).map fun (s, r') => (mkAs4Path s, r')
  | "G" :: as :: addr :: r => some (mkAs4Aggregator (nat! as) (nat! addr), r)
  | "L" :: n :: r => (pTriples (nat! n) r).map fun (s, r') => (mkLargeComm s, r')
  | "u" :: f :: t :: h :: r => (unhex h).map fun b => (mkUnknown (nat! f) (nat! t) b, r)
  | _ => none

def pAttrs : Nat → List String → Option (List Attr × List String)
  | 0, ts => some ([], ts)
  | n + 1, ts =>
    match pAttr ts with
    | some (a, r) => (pAttrs n r).map fun (l, r') => (a :: l, r')
    | none => none

def pMsg : List String → Option Msg
  | ["K"] => some mkKeepalive
  | ["N", c, s, h] => (unhex h).map fun d => mkNotification (nat! c) (nat! s) d
  | ["R", a, d, s] => some (mkRouteRefresh (nat! a) (nat! d) (nat! s))
  | "U" :: nw :: r =>
    match pNlris (nat! nw) r with
    | some (w, na :: r1) =>
      match pAttrs (nat! na) r1 with
      | some (as, nn :: r2) =>
        match pNlris (nat! nn) r2 with
        | some (n, []) => some (mkUpdate w as n)
        | _ => none
      | _ => none
    | _ => none
  | _ => none

def msgAttrs (m : Msg) : List Attr :=
  match m.body with
  | .update u => u.attrs
  | _ => []

structure St where
  o : Opts := ⟨false, false, false, false⟩

def rRes (r : Res Msg) : String :=
  match r with
  | .ok m => rMsg m
  | .reject => "reject"
  | .unmodelled => "unmodelled"

def step (s : St) (ts : List String) : St × List String :=
  match ts with
  | ["opts", a, b, c, d] => ({ s with o := ⟨b! a, b! b, b! c, b! d⟩ }, [])
  | "enc" :: rest =>
    match pMsg rest with
    | none => (s, ["bad-op"])
    | some m =>
      let lens := commaNats ((msgAttrs m).map fun a => attrLen a)
      let emits := commaNats ((msgAttrs m).map fun a => (encAttr a).length)
      match serialize s.o m with
      | none => (s, [s!"too-long L={lens} E={emits}"])
      | some (b, m') => (s, [s!"{hex b} L={lens} E={emits} after={rMsg m'}"])
  | ["dec", h] =>
    match unhex h with
    | none => (s, ["bad-op"])
    | some b => (s, [rRes (parse s.o b)])
  | ["attr", h] =>
    match unhex h with
    | none => (s, ["bad-op"])
    | some b =>
      match decAttr s.o b with
      | .ok a => (s, [s!"ok {rAttr a} len={attrLen a}"])
      | .err => (s, ["reject"])
      | .unmodelled => (s, ["unmodelled"])
  | ["vflags", t, f] => (s, [if validateFlags (nat! t) (nat! f) then "1" else "0"])
  | ["gflags", t, l] => (s, [toString (getPathAttrFlags (nat! t) (nat! l))])
  | [] => (s, [])
  | _ => (s, ["bad-op"])

def main : IO Unit := do
  loop (← IO.getStdin) (← IO.getStdout) ({} : St) step

end DriverC04
