import Model.Wire
import Model.WireMP
import Driver.Util
namespace DriverC04
open Wire DriverUtil

def hexDigit (c : Char) : Option Nat :=
  if '0' ≤ c ∧ c ≤ '9' then some (c.toNat - '0'.toNat)
  else if 'a' ≤ c ∧ c ≤ 'f' then some (c.toNat - 'a'.toNat + 10)
  else none

def unhexAux : List Char → Option Bytes
  | [] => some []
  | a :: b :: rest =>
    match hexDigit a, hexDigit b, unhexAux rest with
    | some x, some y, some r => some ((x * 16 + y) :: r)
    | _, _, _ => none
  | _ => none

def unhex (s : String) : Option Bytes := if s == "-" then some [] else unhexAux s.toList

def hexChar (n : Nat) : Char := if n < 10 then Char.ofNat (48 + n) else Char.ofNat (87 + n)

def hex (b : Bytes) : String :=
  if b.isEmpty then "-" else String.ofList (b.flatMap fun x => [hexChar (x / 16 % 16), hexChar (x % 16)])

/-! rendering (the Go harness prints the same text from the real objects) -/

def rNlri (n : PathNLRI) : String := s!"{n.id}/{n.pfx.bits}/{hex n.pfx.addr}"
def rNlris (l : List PathNLRI) : String := " ".intercalate (l.map rNlri)
def commaNats (l : List Nat) : String := ",".intercalate (l.map toString)
def rSeg (s : Seg) : String := s!"{if s.w4 then 4 else 2}.{s.typ}.{s.num}[{commaNats s.as}]"
def rSegs (l : List Seg) : String := ";".intercalate (l.map rSeg)

def rVal : AttrVal → String
  | .origin v => s!"origin {v}"
  | .asPath segs => s!"aspath {rSegs segs}"
  | .nextHop a => s!"nexthop {hex a}"
  | .med v => s!"med {v}"
  | .localPref v => s!"lp {v}"
  | .atomicAgg => "atomic"
  | .aggregator w as addr => s!"aggr {if w then 4 else 2} {as} {addr}"
  | .communities vs => s!"comm {commaNats vs}"
  | .originatorId a => s!"origid {a}"
  | .clusterList ids => s!"clist {commaNats ids}"
  | .as4Path segs => s!"as4path {rSegs segs}"
  | .as4Aggregator as addr => s!"as4aggr {as} {addr}"
  | .largeComm vs => "lcomm " ++ ",".intercalate (vs.map fun (a, b, c) => s!"{a}:{b}:{c}")
  | .unknown v => s!"unk {hex v}"

def rAttr (a : Attr) : String := "{" ++ s!"f={a.flags} t={a.typ} l={a.length} {rVal a.val}" ++ "}"
def rAttrs (l : List Attr) : String := " ".intercalate (l.map rAttr)

def rBody : Body → String
  | .update u => s!"U wl={u.wlen} W[{rNlris u.withdrawn}] pl={u.palen} A[{rAttrs u.attrs}] N[{rNlris u.nlri}]"
  | .notification c s d => s!"NOTIF {c} {s} {hex d}"
  | .keepalive => "KA"
  | .routeRefresh a d s => s!"RR {a} {d} {s}"
  | .openRaw r => s!"OPEN {hex r}"

def rMsg (m : Msg) : String := s!"M len={m.hlen} typ={m.typ} {rBody m.body}"

/-! parsing of abstract message descriptions -/

def pNlris : Nat → List String → Option (List PathNLRI × List String)
  | 0, ts => some ([], ts)
  | n + 1, id :: bits :: a :: rest =>
    match unhex a, pNlris n rest with
    | some ab, some (l, r) => some (⟨nat! id, ⟨nat! bits, ab⟩⟩ :: l, r)
    | _, _ => none
  | _, _ => none

def pSegs (w4? : Option Bool) : Nat → List String → Option (List Seg × List String)
  | 0, ts => some ([], ts)
  | n + 1, ts =>
    let hd : Option (Bool × List String) :=
      match w4? with
      | some w => some (w, ts)
      | none => match ts with
        | w :: r => some (b! w, r)
        | [] => none
    match hd with
    | some (w, typ :: r) =>
      let (as, r') := takeList r
      match pSegs w4? n r' with
      | some (l, r'') => some (mkSeg w (nat! typ) as :: l, r'')
      | none => none
    | _ => none

def pTriples : Nat → List String → Option (List (Nat × Nat × Nat) × List String)
  | 0, ts => some ([], ts)
  | n + 1, a :: b :: c :: rest =>
    match pTriples n rest with
    | some (l, r) => some ((nat! a, nat! b, nat! c) :: l, r)
    | none => none
  | _, _ => none

def pAttr : List String → Option (Attr × List String)
  | "o" :: v :: r => some (mkOrigin (nat! v), r)
  | "p" :: n :: r => (pSegs none (nat! n) r).map fun (s, r') => (mkAsPath s, r')
  | "h" :: h :: r => (unhex h).map fun b => (mkNextHop b, r)
  | "m" :: v :: r => some (mkMed (nat! v), r)
  | "l" :: v :: r => some (mkLocalPref (nat! v), r)
  | "a" :: r => some (mkAtomicAgg, r)
  | "g" :: w :: as :: addr :: r => some (mkAggregator (b! w) (nat! as) (nat! addr), r)
  | "c" :: r => let (vs, r') := takeList r; some (mkCommunities vs, r')
  | "i" :: a :: r => some (mkOriginatorId (nat! a), r)
  | "k" :: r => let (vs, r') := takeList r; some (mkClusterList vs, r')
  | "P" :: n :: r => (pSegs (some true) (nat! n) r).map fun (s, r') => (mkAs4Path s, r')
  | "G" :: as :: addr :: r => some (mkAs4Aggregator (nat! as) (nat! addr), r)
  | "L" :: n :: r => (pTriples (nat! n) r).map fun (s, r') => (mkLargeComm s, r')
  | "u" :: f :: t :: h :: r => (unhex h).map fun b => (mkUnknown (nat! f) (nat! t) b, r)
  | _ => none

def pAttrs : Nat → List String → Option (List Attr × List String)
  | 0, ts => some ([], ts)
  | n + 1, ts =>
    match pAttr ts with
    | some (a, r) => (pAttrs n r).map fun (l, r') => (a :: l, r')
    | none => none

def pMsg : List String → Option Msg
  | ["K"] => some mkKeepalive
  | ["N", c, s, h] => (unhex h).map fun d => mkNotification (nat! c) (nat! s) d
  | ["R", a, d, s] => some (mkRouteRefresh (nat! a) (nat! d) (nat! s))
  | "U" :: nw :: r =>
    match pNlris (nat! nw) r with
    | some (w, na :: r1) =>
      match pAttrs (nat! na) r1 with
      | some (as, nn :: r2) =>
        match pNlris (nat! nn) r2 with
        | some (n, []) => some (mkUpdate w as n)
        | _ => none
      | _ => none
    | _ => none
  | _ => none

def msgAttrs (m : Msg) : List Attr :=
  match m.body with
  | .update u => u.attrs
  | _ => []

structure St where
  o : Opts := ⟨false, false, false, false⟩
  fams : List FamAp := []

def St.ox (s : St) : OptsX := ⟨s.o, s.fams⟩

/-! multiprotocol part: rendering and description parsing -/

def rRD : RD → String
  | .as2 a b => s!"0:{a}:{b}"
  | .ip4 a b => s!"1:{a}:{b}"
  | .as4 a b => s!"2:{a}:{b}"
  | .unknown t v => s!"u{t}:{hex v}"

def rPfx (p : Prefix) : String := s!"{p.bits}/{hex p.addr}"

def rNlriX : NlriX → String
  | .ip p => rPfx p
  | .labelled ls p => s!"L[{commaNats ls}]{rPfx p}"
  | .vpn ls rd p => s!"V[{commaNats ls}]rd({rRD rd}){rPfx p}"

def rPathNlrisX (l : List PathNlriX) : String := " ".intercalate (l.map fun x => s!"{x.id}:{rNlriX x.n}")

def rAttrX : AttrX → String
  | .core a => rAttr a
  | .reach r => "{" ++ s!"f={r.flags} t=14 l={r.length} reach {r.afi} {r.safi} nh={hex r.nh} ll={hex r.ll} [{rPathNlrisX r.nlri}]" ++ "}"
  | .unreach u => "{" ++ s!"f={u.flags} t=15 l={u.length} unreach {u.afi} {u.safi} [{rPathNlrisX u.nlri}]" ++ "}"

def pRD : List String → Option (RD × List String)
  | "0" :: a :: b :: r => some (.as2 (nat! a) (nat! b), r)
  | "1" :: a :: b :: r => some (.ip4 (nat! a) (nat! b), r)
  | "2" :: a :: b :: r => some (.as4 (nat! a) (nat! b), r)
  | "u" :: t :: h :: r => (unhex h).map fun v => (.unknown (nat! t) v, r)
  | _ => none

def pNlriX : List String → Option (NlriX × List String)
  | "i" :: bits :: a :: r => (unhex a).map fun ab => (.ip ⟨nat! bits, ab⟩, r)
  | "l" :: r =>
    let (ls, r1) := takeList r
    match r1 with
    | bits :: a :: r2 => (unhex a).map fun ab => (.labelled ls ⟨nat! bits, ab⟩, r2)
    | _ => none
  | "v" :: r =>
    let (ls, r1) := takeList r
    match pRD r1 with
    | some (rd, bits :: a :: r2) => (unhex a).map fun ab => (.vpn ls rd ⟨nat! bits, ab⟩, r2)
    | _ => none
  | _ => none

def pPathNlrisX : Nat → List String → Option (List PathNlriX × List String)
  | 0, ts => some ([], ts)
  | n + 1, id :: r =>
    match pNlriX r with
    | some (x, r1) => (pPathNlrisX n r1).map fun (l, r2) => (⟨nat! id, x⟩ :: l, r2)
    | none => none
  | _, _ => none

def pFams : Nat → List String → List FamAp
  | n + 1, a :: b :: c :: d :: r => ⟨nat! a, nat! b, b! c, b! d⟩ :: pFams n r
  | _, _ => []

def rDecX (r : DecX AttrX) : String :=
  match r with
  | .ok a => s!"ok {rAttrX a} len={attrXLen a}"
  | .err => "reject"
  | .unmodelled => "unmodelled"

def rRes (r : Res Msg) : String :=
  match r with
  | .ok m => rMsg m
  | .reject => "reject"
  | .unmodelled => "unmodelled"

def step (s : St) (ts : List String) : St × List String :=
  match ts with
  | ["opts", a, b, c, d] => ({ s with o := ⟨b! a, b! b, b! c, b! d⟩ }, [])
  | "enc" :: rest =>
    match pMsg rest with
    | none => (s, ["bad-op"])
    | some m =>
      let lens := commaNats ((msgAttrs m).map fun a => attrLen a)
      let emits := commaNats ((msgAttrs m).map fun a => (encAttr a).length)
      match serialize s.o m with
      | none => (s, [s!"too-long L={lens} E={emits}"])
      | some (b, m') => (s, [s!"{hex b} L={lens} E={emits} after={rMsg m'}"])
  | "enc2" :: k :: a :: b :: c :: d :: rest =>
    -- object history: Serialize under the current options, keep the object as Serialize left it (or
    -- untouched when refused), trim the NLRI list to its first k entries, Serialize again under ⟨a b c d⟩
    match pMsg rest with
    | none => (s, ["bad-op"])
    | some m =>
      let r1 := serialize s.o m
      let m1 := match r1 with
        | some (_, m') => m'
        | none => m
      let m2 : Msg := match m1.body with
        | .update u => { m1 with body := .update { u with nlri := u.nlri.take (nat! k) } }
        | _ => m1
      let r2 := serialize ⟨b! a, b! b, b! c, b! d⟩ m2
      let show1 (r : Option (Bytes × Msg)) : String := match r with
        | some (bs, _) => hex bs
        | none => "too-long"
      (s, [s!"{show1 r1} | {show1 r2}"])
  | ["dec", h] =>
    match unhex h with
    | none => (s, ["bad-op"])
    | some b => (s, [rRes (parse s.o b)])
  | ["attr", h] =>
    match unhex h with
    | none => (s, ["bad-op"])
    | some b =>
      match decAttr s.o b with
      | .ok a => (s, [s!"ok {rAttr a} len={attrLen a}"])
      | .err => (s, ["reject"])
      | .unmodelled => (s, ["unmodelled"])
  | "optsx" :: a :: b :: c :: d :: n :: rest =>
    ({ s with o := ⟨b! a, b! b, b! c, b! d⟩, fams := pFams (nat! n) rest }, [])
  | ["nlri", afi, safi, h] =>
    match unhex h, famKind (nat! afi) (nat! safi) with
    | some b, some (k, w) =>
      match decNlriX k w b with
      | some n => (s, [s!"ok {rNlriX n} len={nlriXLen n}"])
      | none => (s, ["reject"])
    | some _, none => (s, ["unmodelled"])
    | none, _ => (s, ["bad-op"])
  | "mpenc" :: "R" :: afi :: safi :: nh :: ll :: n :: rest =>
    match unhex nh, unhex ll, pPathNlrisX (nat! n) rest with
    | some nhb, some llb, some (xs, []) =>
      let r := mkMpReach (nat! afi) (nat! safi) xs nhb llb
      (s, [s!"{hex (encMpReach s.ox r)} L={attrXLen (.reach r)}"])
    | _, _, _ => (s, ["bad-op"])
  | "mpenc" :: "U" :: afi :: safi :: n :: rest =>
    match pPathNlrisX (nat! n) rest with
    | some (xs, []) =>
      let u := mkMpUnreach (nat! afi) (nat! safi) xs
      (s, [s!"{hex (encMpUnreach s.ox u)} L={attrXLen (.unreach u)}"])
    | _ => (s, ["bad-op"])
  | ["mpdec", h] =>
    match unhex h with
    | none => (s, ["bad-op"])
    | some b => (s, [rDecX (decAttrX s.ox b)])
  | ["vflags", t, f] => (s, [if validateFlags (nat! t) (nat! f) then "1" else "0"])
  | ["gflags", t, l] => (s, [toString (getPathAttrFlags (nat! t) (nat! l))])
  | [] => (s, [])
  | _ => (s, ["bad-op"])

def main : IO Unit := do
  loop (← IO.getStdin) (← IO.getStdout) ({} : St) step

end DriverC04
