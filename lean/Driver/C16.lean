import Model.Roa
import Driver.Util
namespace DriverC16
open Roa DriverUtil

structure St where
  tbl : Table := []
  mgr : Mgr := {}

def width (fam : Nat) : Nat := if fam = 6 then 128 else 32

/-- key order of the critbit walk: (family, address bytes, mask length) -/
def keyLe (a b : Prefix × List Roa) : Bool :=
  let ka := (a.1.fam, a.1.bits <<< (width a.1.fam - a.1.len), a.1.len)
  let kb := (b.1.fam, b.1.bits <<< (width b.1.fam - b.1.len), b.1.len)
  ka.1 < kb.1 || (ka.1 == kb.1 && (ka.2.1 < kb.2.1 || (ka.2.1 == kb.2.1 && ka.2.2 ≤ kb.2.2)))

def showRec (x : Rec) : String :=
  s!"{x.1.fam}/{x.1.len}/{x.1.bits}:{x.2.maxLen},{x.2.as},{x.2.src}"

def showRecs (l : List Rec) : String := " ".intercalate (l.map showRec)

def showTable (t : Table) : String :=
  let bs := (t.filter fun b => !b.2.isEmpty).mergeSort keyLe
  showRecs (recs bs)

/-- what GetServers / ListRpki report for one source: records v4, v6, prefixes v4, v6 -/
def showInfo (t : Table) (src : Nat) : String :=
  s!"{src}:{infoRecords t 4 src},{infoRecords t 6 src},{infoPrefixes t 4 src},{infoPrefixes t 6 src}"

def showStatus : Status → String
  | .notFound => "not-found" | .valid => "valid" | .invalid => "invalid"
def showReason : Reason → String
  | .none => "none" | .as => "as" | .length => "length"

def b2s (b : Bool) : String := if b then "1" else "0"

def showPol (v : Option Validation) : String :=
  "pol:" ++ b2s (condEval .valid v) ++ b2s (condEval .invalid v) ++ b2s (condEval .notFound v)

def showVal (v : Validation) : String :=
  s!"{showStatus v.status} {showReason v.reason} | m {showRecs v.matched} | ua {showRecs v.unmatchedAs} | ul {showRecs v.unmatchedLen} | " ++ showPol (some v)

def parseSegs : Nat → List String → List Seg
  | 0, _ => []
  | n + 1, ts =>
    match ts with
    | typ :: rest =>
      let (as, rest') := takeList rest
      ⟨nat! typ, as⟩ :: parseSegs n rest'
    | [] => []

def parseSegsRest : Nat → List String → List Seg × List String
  | 0, ts => ([], ts)
  | n + 1, ts =>
    match ts with
    | typ :: rest =>
      let (as, rest') := takeList rest
      let (more, rest'') := parseSegsRest n rest'
      (⟨nat! typ, as⟩ :: more, rest'')
    | [] => ([], [])

def statusOf (n : Nat) : Option Status :=
  if n = 1 then some .valid else if n = 2 then some .invalid else if n = 3 then some .notFound else none

/-- statements as `cond prep asn rep disp`, five tokens each -/
def parseStmts : List String → List Stmt
  | c :: p :: a :: r :: d :: rest => ⟨statusOf (nat! c), nat! p, nat! a, nat! r, nat! d⟩ :: parseStmts rest
  | _ => []

def showConn : Conn → String
  | .none => "none" | .open => "open" | .closed => "closed"

def showClient (c : Client) : String :=
  s!"{c.host}:{c.session},{c.oldSession},{c.serial},{b2s c.endOfData},{c.pending.length},{showConn c.conn},{if c.timer then c.timerGen else 0},q{String.ofList (c.queries.map fun q => if q then 'r' else 's')}"

def insClient (c : Client) : List Client → List Client
  | [] => [c]
  | x :: xs => if c.host < x.host then c :: x :: xs else x :: insClient c xs

/-- GetServers: up flag, serial number and the Info counters of the client's host -/
def showReported (m : Mgr) (c : Client) : String :=
  s!"{c.host}:{if c.conn == .none then 0 else 1},{c.serial},{infoRecords m.table 4 c.host},{infoRecords m.table 6 c.host},{infoPrefixes m.table 4 c.host},{infoPrefixes m.table 6 c.host}"

/-- sort.Slice is not stable beyond 12 entries: among entries with equal (max length, AS) the
    manager dump orders by source on both sides -/
def canonBucket (b : Prefix × List Roa) : Prefix × List Roa :=
  (b.1, b.2.mergeSort fun x y =>
    x.maxLen < y.maxLen || (x.maxLen == y.maxLen && (x.as < y.as || (x.as == y.as && x.src ≤ y.src))))

def showMgr (m : Mgr) : String :=
  "T " ++ showTable (m.table.map canonBucket) ++ " | C " ++ " ".intercalate ((m.clients.foldr insClient []).map showClient) ++
    " | R " ++ " ".intercalate ((m.clients.foldr insClient []).map (showReported m))

def showSent : Sent → String
  | .resetQuery => "rq"
  | .serialQuery s n => s!"sq:{s}:{n}"

def showStep (r : Mgr × Bool × List Sent) : String :=
  " ".intercalate ((if r.2.1 then "ok" else "err") :: r.2.2.map showSent)

def parsePdu : List String → Option Pdu
  | ["notify", s, n] => some (.serialNotify (nat! s) (nat! n))
  | ["cresp", s] => some (.cacheResponse (nat! s))
  | ["pfx", ann, fam, len, bits, ml, as] => some (.prefix (b! ann) ⟨nat! fam, nat! len, nat! bits⟩ (nat! ml) (nat! as))
  | ["eod", s, n] => some (.endOfData (nat! s) (nat! n))
  | ["creset"] => some .cacheReset
  | ["err"] => some .errorReport
  | ["other"] => some .other
  | _ => none

def parseEv : List String → Option Ev
  | ["madd", h] => some (.addServer (nat! h))
  | ["mdel", h] => some (.deleteServer (nat! h))
  | ["mconn", h] => some (.connected (nat! h))
  | ["mclose", h] => some (.connClosed (nat! h))
  | ["mdisc", h] => some (.disconnected (nat! h))
  | ["mfire", h, g] => some (.lifetime (nat! h) (nat! g))
  | ["menable", h] => some (.enable (nat! h))
  | ["mdisable", h] => some (.disable (nat! h))
  | ["msoft", h] => some (.softReset (nat! h))
  | "mpdu" :: h :: rest => (parsePdu rest).map (.rtr (nat! h))
  | _ => none

def step (s : St) (ts : List String) : St × List String :=
  match ts with
  | [] => (s, [])
  | ["treset"] => ({ s with tbl := [] }, [])
  | ["tadd", fam, len, bits, ml, as, src] =>
    ({ s with tbl := add s.tbl ⟨nat! fam, nat! len, nat! bits⟩ ⟨nat! ml, nat! as, nat! src⟩ }, [])
  | ["tdel", fam, len, bits, ml, as, src] =>
    ({ s with tbl := delete s.tbl ⟨nat! fam, nat! len, nat! bits⟩ ⟨nat! ml, nat! as, nat! src⟩ }, [])
  | ["tdelall", src] => ({ s with tbl := deleteAll s.tbl (nat! src) }, [])
  | ["tdump"] => (s, ["recs " ++ showTable s.tbl])
  | "tinfo" :: srcs =>
    (s, ["info " ++ " ".intercalate (srcs.map fun x => showInfo s.tbl (nat! x))])
  | "tval" :: kind :: fam :: len :: bits :: las :: nseg :: rest =>
    if nat! kind ≠ 0 then (s, ["nil | " ++ showPol none])
    else
      let v := validate s.tbl ⟨nat! fam, nat! len, nat! bits⟩ (nat! las) (parseSegs (nat! nseg) rest)
      (s, [showVal v])
  | "tchain" :: fam :: len :: bits :: las :: confed :: nseg :: rest =>
    let (segs, rest') := parseSegsRest (nat! nseg) rest
    let stmts := parseStmts rest'
    let r := chainEval s.tbl ⟨nat! fam, nat! len, nat! bits⟩ (nat! las) (b! confed) segs stmts
    let marks := (r.1.zipIdx.filter (·.1)).map (fun x => toString (x.2 + 1))
    let path := ";".intercalate (r.2.1.map fun sg => s!"{sg.typ}:" ++ ",".intercalate (sg.as.map toString))
    -- a rejected route is gone: neither marks nor path can be observed
    if r.2.2 = 2 then (s, ["marks | path | reject"])
    else (s, [s!"marks {" ".intercalate marks} | path {path} | accept"])
  | ["before", a, b] => (s, [b2s (before (nat! a) (nat! b))])
  | ["mreset"] => ({ s with mgr := {} }, [])
  | ["mdump"] => (s, [showMgr s.mgr])
  | "mval" :: fam :: len :: bits :: las :: nseg :: rest =>
    let v := validate s.mgr.table ⟨nat! fam, nat! len, nat! bits⟩ (nat! las) (parseSegs (nat! nseg) rest)
    (s, [showStatus v.status])
  | _ =>
    match parseEv ts with
    | some e =>
      let r := Roa.step s.mgr e
      ({ s with mgr := r.1 }, [showStep r])
    | none => (s, ["bad-op"])

/-- answers are compared modulo runs of blanks -/
def norm (s : String) : String := " ".intercalate (toks s)

def main : IO Unit := do
  loop (← IO.getStdin) (← IO.getStdout) ({} : St) fun s ts =>
    let r := step s ts
    (r.1, r.2.map norm)

end DriverC16
