import Model.ErrHandling
import Model.UpdateWire
import Driver.Util
/-
  Line protocol of C06 (every line asks; answer = one line):
    cls <t>                       getErrorHandlingFromPathAttribute(t)            → 0..4
    flg <t> <f>                   validatePathAttributeFlags(t,f) == ""           → 0/1
    dec <use2> <hex>              BGPUpdate.DecodeFromBytes                        → err=… attrs=… wd=… nlri=…
    val <cfg6> <use2> <hex>       decode, then ValidateUpdateMsg if class ≤ discard → d=… v=… attrs=…
    (dec / val / act also accept `<use2> <ap4> <ap6> <hex>`: ADD-PATH receive for IPv4 / IPv6 unicast)
    act <cfg6> <use2> <hex>       whole receive path                              → install|discard|withdraw|reset …
  cfg6 = six 0/1 tokens: revised ebgp confed loopOk v4 v6.   hex `-` = empty.
-/
namespace DriverC06
open ErrH UpdWire DriverUtil

def hexVal (c : Char) : Nat :=
  if '0' ≤ c ∧ c ≤ '9' then c.toNat - '0'.toNat
  else if 'a' ≤ c ∧ c ≤ 'f' then c.toNat - 'a'.toNat + 10
  else 0

def hexBytes : List Char → List Nat
  | a :: b :: rest => (hexVal a * 16 + hexVal b) :: hexBytes rest
  | _ => []

def parseHex (s : String) : List Nat := if s == "-" then [] else hexBytes s.toList

def showErr : Option MErr → String
  | none => "none"
  | some e => s!"{e.code}/{e.sub}/{e.h.rank}"

def showAttrs (l : List AttrObs) : String :=
  if l.isEmpty then "-" else ",".intercalate (l.map (fun a => s!"{a.typ}:{a.flags}"))

def showAction : Action → String
  | .install l => "install " ++ showAttrs l
  | .discardAttrs l => "discard " ++ showAttrs l
  | .withdrawAll _ => "withdraw"
  | .reset c s => s!"reset {c} {s}"

def parseCfg (ts : List String) : Option (Cfg × List String) :=
  match ts with
  | a :: b :: c :: d :: e :: f :: rest => some (⟨b! a, b! b, b! c, b! d, b! e, b! f⟩, rest)
  | _ => none

def showIds (l : List Nat) : String :=
  if l.isEmpty then "-" else ".".intercalate (l.map toString)

def showPaths (l : List (Bool × Nat)) : String :=
  if l.isEmpty then "-" else ".".intercalate (l.map (fun (w, i) => (if w then "w" else "a") ++ toString i))

def decLine (use2 ap4 ap6 : Bool) (h : String) (withIds : Bool) : String :=
  match parse use2 (parseHex h) ap4 ap6 with
  | none => "unsupported"
  | some m =>
    let d := decode m
    match d.err with
    | some ⟨c, sc, .reset⟩ => s!"err={c}/{sc}/4"
    | _ =>
      let base := s!"err={showErr d.err} attrs={showAttrs d.attrs} wd={d.wd} nlri={d.nlri}"
      if withIds then base ++ s!" nid={showIds m.nlriIds} wid={showIds m.wdIds}" else base

def valLine (c : Cfg) (use2 ap4 ap6 : Bool) (h : String) : String :=
  match parse use2 (parseHex h) ap4 ap6 with
  | none => "unsupported"
  | some m =>
    let d := decode m
    let cls := match d.err with | none => 0 | some e => e.h.rank
    if cls ≤ 1 then
      let (ve, l) := validate c d.attrs d.wd d.nlri
      s!"d={showErr d.err} v={showErr ve} attrs={showAttrs l}"
    else s!"d={showErr d.err} v=skipped attrs={showAttrs d.attrs}"

def actLine (c : Cfg) (use2 ap4 ap6 : Bool) (h : String) : String :=
  match parse use2 (parseHex h) ap4 ap6 with
  | none => "unsupported"
  | some m =>
    let d := decode m
    -- AS4_PATH / AS4_AGGREGATOR are folded away by the 4-octet-AS conversion before delivery
    let vis (l : List AttrObs) := (l.filter (fun a => a.typ != 17 && a.typ != 18)).map
      (fun a => if a.typ == 2 then { a with flags := a.flags &&& 0xef } else a)
    let eff := match effect c m, effectPaths c m with
      | some e, some ps => s!" ann={e.announced} wdn={e.withdrawn} p={showPaths ps}"
      | _, _ => ""
    match sessionAction c m with
    | .reset code sub => s!"reset {code} {sub}"
    | .install l => s!"install {showAttrs (vis l)} wd={d.wd} nlri={d.nlri}" ++ eff
    | .discardAttrs l => s!"discard {showAttrs (vis l)} wd={d.wd} nlri={d.nlri}" ++ eff
    | .withdrawAll _ => s!"withdraw wd={d.wd} nlri={d.nlri}" ++ eff

/-- optional ADD-PATH tokens `<ap4> <ap6>` between `<use2>` and `<hex>` -/
def step (s : Unit) (ts : List String) : Unit × List String :=
  match ts with
  | ["cls", t] => (s, [toString (attrClass (nat! t)).rank])
  | ["flg", t, f] => (s, [if flagsOk (nat! t) (nat! f) then "1" else "0"])
  | ["dec", u, h] => (s, [decLine (b! u) false false h false])
  | ["dec", u, a4, a6, h] => (s, [decLine (b! u) (b! a4) (b! a6) h true])
  | "val" :: rest =>
    match parseCfg rest with
    | some (c, [u, h]) => (s, [valLine c (b! u) false false h])
    | some (c, [u, a4, a6, h]) => (s, [valLine c (b! u) (b! a4) (b! a6) h])
    | _ => (s, ["bad-op"])
  | "act" :: rest =>
    match parseCfg rest with
    | some (c, [u, h]) => (s, [actLine c (b! u) false false h])
    | some (c, [u, a4, a6, h]) => (s, [actLine c (b! u) (b! a4) (b! a6) h])
    | _ => (s, ["bad-op"])
  | [] => (s, [])
  | _ => (s, ["bad-op"])

def main : IO Unit := do
  loop (← IO.getStdin) (← IO.getStdout) () step

end DriverC06
