import Model.Pack
import Driver.Util
namespace DriverC11
open Pack DriverUtil

structure St where
  opts  : Opts := ⟨false, []⟩
  items : List Item := []      -- reversed

def nlriStr (n : Nlri) : String := s!"{n.bits}/{n.pfx}/{n.id}"

def nlrisStr (ns : List Nlri) : String := s!"n={ns.length} " ++ ",".intercalate (ns.map nlriStr)

def nhStr : Option NH → String
  | none => "-"
  | some h => toString h.key

def msgStr (o : Opts) (m : Msg) : String :=
  let tail := s!" sz={size o m} ok={if fits o m then 1 else 0}"
  match m with
  | .wd4 ns => "w4 " ++ nlrisStr ns ++ tail
  | .ann4 a nh ns => s!"a4 {a.key} {nhStr nh} " ++ nlrisStr ns ++ tail
  | .unreach f ns => s!"un {f} " ++ nlrisStr ns ++ tail
  | .reach f a nh ns => s!"re {f} {a.key} {nhStr nh} " ++ nlrisStr ns ++ tail
  | .eor f => s!"eor {f}" ++ tail

def sortStrs (l : List String) : List String := l.mergeSort (fun a b => !(b < a))

def pairs : List Nat → List (Nat × Nat)
  | a :: b :: r => (a, b) :: pairs r
  | _ => []

def parsePath (ts : List String) : Option Path :=
  match ts with
  | [f, bits, pfx, id, hash, "0"] =>
    some ⟨⟨nat! f, ⟨nat! bits, nat! pfx, nat! id⟩, none⟩, nat! hash, 0⟩
  | [f, bits, pfx, id, hash, "1", ak, al, nhp, nk, nl, ncl, nv4, grp] =>
    let nh : Option NH := if b! nhp then some ⟨nat! nk, nat! nl, nat! ncl, b! nv4⟩ else none
    some ⟨⟨nat! f, ⟨nat! bits, nat! pfx, nat! id⟩, some ⟨⟨nat! ak, nat! al⟩, nh⟩⟩, nat! hash, nat! grp⟩
  | _ => none

def step (s : St) (ts : List String) : St × List String :=
  match ts with
  | "opts" :: e :: rest =>
    -- opts <ext> <k> f1 m1 … fk mk   (family, negotiated ADD-PATH mode 0..3)
    let l := (takeNats (2 * nat! (rest.headD "0")) (rest.drop 1)).1
    ({ s with opts := ⟨b! e, pairs l⟩ }, [])
  | ["reset"] => ({ s with items := [] }, [])
  | ["eor", f] => ({ s with items := Item.eor (nat! f) :: s.items }, [])
  | "path" :: rest =>
    match parsePath rest with
    | some p => ({ s with items := Item.path p :: s.items }, [])
    | none => (s, ["bad-op"])
  | ["pack"] =>
    let ms := pack s.opts s.items.reverse
    (s, [" | ".intercalate (sortStrs (ms.map (msgStr s.opts)))])
  | ["wire"] =>
    let ms := wire s.opts s.items.reverse
    (s, [" | ".intercalate (sortStrs (ms.map (msgStr s.opts)))])
  | ["maxn", al] => (s, [toString (maxN s.opts (nat! al))])
  | [] => (s, [])
  | _ => (s, ["bad-op"])

def main : IO Unit := do
  loop (← IO.getStdin) (← IO.getStdout) ({} : St) step

end DriverC11
