import Model.BestPath
import Driver.Util
namespace DriverC03
open BestPath DriverUtil

structure St where
  opts  : Opts := ⟨false, false, false⟩
  cands : List Cand := []
  rib   : List Cand := []

def parseSegs : Nat → List String → List Seg
  | 0, _ => []
  | n + 1, ts =>
    match ts with
    | typ :: rest =>
      let (as, rest') := takeList rest
      ⟨nat! typ, as⟩ :: parseSegs n rest'
    | [] => []

def optNat (present v : String) : Option Nat := if b! present then some (nat! v) else none

def parseCand (ts : List String) : Option Cand :=
  match ts with
  | id :: as :: las :: rid :: lrid :: av :: addr :: confed :: pid :: stale :: nh :: lpp :: lp ::
      op :: orig :: mp :: med :: tstamp :: nseg :: rest =>
    some { id := nat! id,
           src := { as := nat! as, localAS := nat! las, rid := nat! rid, localRid := nat! lrid,
                    addr := optNat av addr, confed := b! confed },
           pathId := nat! pid, stale := b! stale, nhInvalid := b! nh,
           localPref := optNat lpp lp, segs := parseSegs (nat! nseg) rest,
           origin := optNat op orig, med := optNat mp med, ts := nat! tstamp }
  | _ => none

def find (s : St) (id : String) : Option Cand := s.cands.find? (·.id == nat! id)

def step (s : St) (ts : List String) : St × List String :=
  match ts with
  | ["opts", a, b, c] => ({ s with opts := ⟨b! a, b! b, b! c⟩ }, [])
  | "cand" :: rest =>
    match parseCand rest with
    | some c => ({ s with cands := c :: s.cands.filter (·.id != c.id) }, [])
    | none => (s, ["bad-op"])
  | ["reset"] => ({ s with rib := [] }, [])
  | ["ann", id] =>
    match find s id with
    | some c => ({ s with rib := calcStep s.opts s.rib (.ann c) }, [])
    | none => (s, ["bad-op"])
  | ["wd", id] =>
    match find s id with
    | some c => ({ s with rib := calcStep s.opts s.rib (.wd c) }, [])
    | none => (s, ["bad-op"])
  | ["dump"] =>
    (s, ["list " ++ joinNats (s.rib.map (·.id)) ++ " | multi " ++
      joinNats ((multipath s.rib).map (·.id))])
  | ["better", x, y] =>
    match find s x, find s y with
    | some a, some b => (s, [if better s.opts a b then "1" else "0"])
    | _, _ => (s, ["bad-op"])
  | [] => (s, [])
  | _ => (s, ["bad-op"])

def main : IO Unit := do
  loop (← IO.getStdin) (← IO.getStdout) ({} : St) step

end DriverC03
