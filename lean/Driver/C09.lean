import Model.Export
import Model.GoSlice
import Model.ExportReplay
import Driver.Util
namespace DriverC09
open Export DriverUtil

/-! line-protocol driver for C09 (see go/overlay/**/zz_verif_c09*_test.go for the writer side) -/

structure St where
  g    : Global := default
  peer : Peer := default
  new  : Path := default
  old  : Option Path := none
  adjs : List (Nat × List AdjIn) := []    -- Adj-RIB-In per peer id (replay harness)

/-- a tiny parser monad over the token list -/
abbrev P := StateT (List String) Option

def tok : P String := do
  match (← get) with
  | t :: rest => set rest; pure t
  | [] => failure

def pNat : P Nat := do
  let t ← tok
  match t.toNat? with
  | some n => pure n
  | none => failure

def pBool : P Bool := do pure ((← tok) == "1")

def pAddr : P Addr := do
  let k ← pNat
  let v ← pNat
  pure ⟨k, v⟩

def pRep {α : Type} (p : P α) : Nat → P (List α)
  | 0 => pure []
  | n + 1 => do
    let x ← p
    let xs ← pRep p n
    pure (x :: xs)

def pList {α : Type} (p : P α) : P (List α) := do
  let n ← pNat
  pRep p n

def pSeg : P Seg := do
  let t ← pNat
  let l ← pList pNat
  pure ⟨t, l⟩

def pAttr : P Attr := do
  let typ ← pNat
  let flags ← pNat
  let kind ← tok
  let pay ← (match kind with
    | "P" => do let s ← pList pSeg; pure (Payload.asPath s)
    | "N" => do let a ← pAddr; pure (Payload.nextHop a)
    | "M" => do
      let f ← pNat; let nh ← pAddr; let ll ← pAddr; let t ← tok
      pure (Payload.mpReach f nh ll t)
    | "V" => do let v ← pNat; pure (Payload.num v)
    | "O" => do let a ← pAddr; pure (Payload.addr a)
    | "C" => do let l ← pList pNat; pure (Payload.addrs l)
    | "K" => do let l ← pList pNat; pure (Payload.comms l)
    | "R" => do let h ← tok; pure (Payload.raw h)
    | _ => failure : P Payload)
  pure ⟨typ, flags, pay⟩

def pLayer : P Layer := do
  let a ← pList pAttr
  let d ← pList pNat
  pure ⟨a, d⟩

def pPath : P Path := do
  let as ← pNat
  let id ← pAddr
  let lid ← pAddr
  let addr ← pAddr
  let rr ← pBool
  let fam ← pNat
  let w ← pBool
  let nlri ← tok
  let over ← pList pLayer
  let root ← pLayer
  let (leaf, parents) := match over with
    | l :: rest => (l, rest ++ [root])
    | [] => (root, [])
  pure { leaf := leaf, parents := parents, src := ⟨as, id, lid, addr, rr⟩, family := fam, withdraw := w, nlri := nlri }

def pGlobal : P Global := do
  let as ← pNat
  let rid ← pAddr
  let ce ← pBool
  let ci ← pNat
  let m ← pList pNat
  pure ⟨as, rid, ce, ci, m⟩

def pPeer : P Peer := do
  let pt ← pNat
  let as ← pNat
  let las ← pNat
  let la ← pAddr
  let rr ← pBool
  let cid ← pNat
  let rs ← pBool
  let rp ← pNat
  let rid ← pAddr
  let addr ← pAddr
  let al ← pBool
  let rpa ← pBool
  let fe ← pBool
  let ll ← pBool
  pure ⟨pt, as, las, la, rr, cid, rs, rp, rid, addr, al, rpa, fe, ll⟩

def run {α : Type} (p : P α) (ts : List String) : Option α :=
  match p ts with
  | some (x, []) => some x
  | _ => none

/-! rendering -/

def commaNats (l : List Nat) : String := ",".intercalate (l.map toString)

def rAddr (a : Addr) : String := toString a.kind ++ ":" ++ toString a.v

def rSeg (s : Seg) : String := toString s.typ ++ ":" ++ commaNats s.as

def rAttr (a : Attr) : String :=
  toString a.typ ++ "=" ++
  match a.pay with
  | .asPath segs => "P" ++ "/".intercalate (segs.map rSeg)
  | .nextHop x => "N" ++ rAddr x
  | .mpReach f nh ll t => "M" ++ toString f ++ ":" ++ rAddr nh ++ ":" ++ rAddr ll ++ ":" ++ t
  | .num v => "V" ++ toString v
  | .addr x => "O" ++ rAddr x
  | .addrs l => "C" ++ commaNats l
  | .comms l => "K" ++ commaNats l
  | .raw h => "R" ++ toString a.flags ++ ":" ++ h

def rAttrs (l : List Attr) : String := ";".intercalate (l.map rAttr)

def rPath (p : Path) : String :=
  "w" ++ (if p.withdraw then "1" else "0") ++ " o" ++ toString p.parents.length ++
  " T[" ++ commaNats (p.leaf.attrs.map (·.typ)) ++ "] D[" ++ commaNats p.leaf.dels ++ "] | " ++
  rAttrs (getAttrs p)

def rFlat (p : Path) : String :=
  "w" ++ (if p.withdraw then "1" else "0") ++ " | " ++ rAttrs (getAttrs p)

def b2s (b : Bool) : String := if b then "1" else "0"

/-- `goappend cap len n`: one array 1..cap, s = arr[:len], append(s, 101..100+n) -/
def goAppendAnswer (cap len n : Nat) : String :=
  let h : GoSlice.Heap := [(List.range cap).map (· + 1)]
  let s : GoSlice.Slice := ⟨0, 0, len, cap⟩
  let r := GoSlice.goAppend h s ((List.range n).map (· + 101))
  (if r.2.arr == 0 then "inplace" else "realloc") ++ " | " ++
    commaNats (r.1.getD 0 []) ++ " | " ++ commaNats (GoSlice.read r.1 r.2)

def parseNodeOps : List String → Option (List GoSlice.NodeOp)
  | [] => some []
  | "s" :: v :: rest => (parseNodeOps rest).map (fun l => GoSlice.NodeOp.set (nat! v) :: l)
  | "d" :: v :: rest => (parseNodeOps rest).map (fun l => GoSlice.NodeOp.del (nat! v) :: l)
  | _ => none

/-- `nodeops …`: Clone, then the given setPathAttr / delPathAttr calls; handles are typ*1000+id -/
def nodeOpsAnswer (ops : List GoSlice.NodeOp) : String :=
  let r := GoSlice.runOps (fun c => c / 1000) [] GoSlice.Node.fresh ops
  "T[" ++ commaNats (GoSlice.read r.1 r.2.attrs) ++ "] D[" ++ commaNats (GoSlice.read r.1 r.2.dels) ++ "]"

def adjOf (s : St) (peerId : Nat) : List AdjIn :=
  match s.adjs.find? (·.1 == peerId) with
  | some x => x.2
  | none => []

def setAdj (s : St) (peerId : Nat) (adj : List AdjIn) : St :=
  { s with adjs := (peerId, adj) :: s.adjs.filter (·.1 != peerId) }

def insertNat (a : Nat) : List Nat → List Nat
  | [] => [a]
  | b :: rest => if a ≤ b then a :: b :: rest else b :: insertNat a rest

def sortNats (l : List Nat) : List Nat := l.foldr insertNat []

/-- accepted keys | rejected keys | accepted counter -/
def rAdj (adj : List AdjIn) : String :=
  "acc[" ++ commaNats (sortNats ((replayList adj).map (·.key))) ++ "] rej[" ++
    commaNats (sortNats ((adj.filter (·.rejected)).map (·.key))) ++ "] n=" ++ toString (acceptedCount adj)

def step (s : St) (ts : List String) : St × List String :=
  match ts with
  | [] => (s, [])
  | ["inreset"] => ({ s with adjs := [] }, [])
  | ["inrecv", pid, key, las, allow, ibgp] =>
    let r := recvAnnounce s.g (nat! las) (nat! allow) (b! ibgp) (adjOf s (nat! pid)) (nat! key) s.new
    (setAdj s (nat! pid) r.1,
      [(match r.2 with | .withdraw => "withdraw " | .announce _ => "announce ") ++ rAdj r.1])
  | ["inwd", pid, key] =>
    let adj := recvWithdraw (adjOf s (nat! pid)) (nat! key)
    (setAdj s (nat! pid) adj, [rAdj adj])
  | ["indump", pid] => (s, [rAdj (adjOf s (nat! pid))])
  | ["inreplay", pid] =>
    (s, ["used[" ++ commaNats (sortNats ((replayList (adjOf s (nat! pid))).map (·.key))) ++ "]"])
  | ["goappend", c, l, n] => (s, [goAppendAnswer (nat! c) (nat! l) (nat! n)])
  | "nodeops" :: rest =>
    match parseNodeOps rest with
    | some ops => (s, [nodeOpsAnswer ops])
    | none => (s, ["bad-op"])
  | "g" :: rest =>
    match run pGlobal rest with
    | some g => ({ s with g := g }, [])
    | none => (s, ["bad-op"])
  | "peer" :: rest =>
    match run pPeer rest with
    | some p => ({ s with peer := p }, [])
    | none => (s, ["bad-op"])
  | "path" :: rest =>
    match run pPath rest with
    | some p => ({ s with new := p }, [])
    | none => (s, ["bad-op"])
  | ["old", "none"] => ({ s with old := none }, [])
  | "old" :: rest =>
    match run pPath rest with
    | some p => ({ s with old := some p }, [])
    | none => (s, ["bad-op"])
  | ["known", t] => (s, [b2s (known (nat! t))])
  | ["attrs"] => (s, [rAttrs (getAttrs s.new)])
  | ["get", t] =>
    (s, [match getAttr s.new (nat! t) with
         | some a => rAttr a
         | none => "nil"])
  | ["upa"] => (s, [rPath (updatePathAttrs s.g s.peer s.new)])
  | ["prepend", asn, rep, confed] =>
    (s, [rPath (prependAsn (clone s.new s.new.withdraw) (nat! asn) (nat! rep) (b! confed))])
  | ["rmpriv", l, o] =>
    (s, [rPath (removePrivateAS (clone s.new s.new.withdraw) (nat! l) (nat! o))])
  | ["rmconfed"] => (s, [rPath (removeConfedAs (clone s.new s.new.withdraw))])
  | ["setnh", k, v] => (s, [rPath (setNexthop (clone s.new s.new.withdraw) ⟨nat! k, nat! v⟩)])
  | ["replaceas", l, p] => (s, [rPath (replaceAS s.new (nat! l) (nat! p))])
  | ["rmlp"] => (s, [rPath (removeLocalPref (clone s.new s.new.withdraw))])
  | ["filter"] =>
    (s, [match filter s.peer s.new s.old with
         | .drop => "drop"
         | .path _ => "path"
         | .withdrawOld => "wdold"])
  | ["export"] =>
    (s, [match exportPath s.g s.peer s.new s.old with
         | .nothing => "nothing"
         | .update p => "update " ++ rPath p
         | .withdrawOld => "wdold"
         | .withdrawSelf p => "wdself " ++ rPath p])
  | ["exportf"] =>
    (s, [match exportPath s.g s.peer s.new s.old with
         | .nothing => "nothing"
         | .update p => "update " ++ rFlat p
         | .withdrawOld => "wdold"
         | .withdrawSelf p => "wdself " ++ rFlat p])
  | ["inbound", las, allow, ibgp] =>
    (s, [b2s (inboundReject s.g (nat! las) (nat! allow) (b! ibgp) s.new)])
  | ["ownloop", own, limit, cid, ce] =>
    (s, [match getAsPath s.new with
         | some segs => b2s (hasOwnASLoop (nat! own) (nat! limit) segs (nat! cid) (b! ce))
         | none => "-"])
  | _ => (s, ["bad-op"])

def main : IO Unit := do
  loop (← IO.getStdin) (← IO.getStdout) ({} : St) step

end DriverC09
