import Model.AddPathSend
import Driver.World
import Driver.Util
/- line-protocol driver for the ADD-PATH send model (C01, sub-part C01AP): the world operations
   of Driver/World.lean plus `sout`, and the questions `apview`, `apheld`, `apsent`, `ribid`. -/
namespace DriverC01AP
open BestPath World AddPathSend DriverUtil DriverWorld

def sortPairs (l : List (Nat × Nat)) : List (Nat × Nat) :=
  l.toArray.qsort (fun a b => a.1 < b.1 || (a.1 == b.1 && a.2 < b.2)) |>.toList

def showIds (a : APW) (idx : Nat) (f : Bk → List Nat) : String :=
  let l := a.bks.flatMap (fun e => if e.1.1 == idx then (f e.2).map (fun i => (e.1.2, i)) else [])
  String.join ((sortPairs l).map (fun e => s!" {e.1}#{e.2}"))

def showApView (a : APW) (idx : Nat) : String :=
  let l : View := a.bks.flatMap (fun e =>
    if e.1.1 == idx then e.2.view.map (fun v => (e.1.2, v.1, v.2)) else [])
  showView l

def step (a : APW) (ts : List String) : APW × List String :=
  match ts with
  | ["world", as, rid] => ({ w := { g := ⟨nat! as, nat! rid⟩ } }, [])
  | ["opts", x, y, z] => ({ a with w := { a.w with opts := ⟨b! x, b! y, b! z⟩ } }, [])
  | ["peer", idx, kind, as, rid, addr, sendMax, apRx, allowOwn] =>
    let cfg : PeerCfg := { idx := nat! idx, kind := kindOf kind, as := nat! as, rid := nat! rid, addr := nat! addr,
                           sendMax := nat! sendMax, addPathRx := b! apRx, allowOwnAs := nat! allowOwn }
    (a.step (.w (.add cfg)), [])
  | ["up", idx] => (a.step (.w (.up (nat! idx))), [])
  | ["down", idx] => (a.step (.w (.down (nat! idx))), [])
  | "ann" :: idx :: rest =>
    match parseRoute rest with
    | some r => (a.step (.w (.ann (nat! idx) r)), [])
    | none => (a, ["bad-op"])
  | ["wd", idx, pfx, pid] => (a.step (.w (.wd (nat! idx) (nat! pfx) (nat! pid))), [])
  | "ladd" :: rest =>
    match parseRoute rest with
    | some r => (a.step (.w (.localAdd r)), [])
    | none => (a, ["bad-op"])
  | ["ldel", pfx, pid] => (a.step (.w (.localDel (nat! pfx) (nat! pid))), [])
  | ["del", idx] => (a.step (.w (.del (nat! idx))), [])
  | "upbetween" :: idx :: "ann" :: src :: rest =>
    match parseRoute rest with
    | some r => (a.step (.upBetween (nat! idx) (.ann (nat! src) r)), [])
    | none => (a, ["bad-op"])
  | ["upbetween", idx, "wd", src, pfx, pid] =>
    (a.step (.upBetween (nat! idx) (.wd (nat! src) (nat! pfx) (nat! pid))), [])
  | ["sout", idx] => (a.step (.softOut (nat! idx)), [])
  | ["apview", idx] => (a, ["apview" ++ showApView a (nat! idx)])
  | ["apheld", idx] => (a, ["apheld" ++ showIds a (nat! idx) (·.held)])
  | ["apsent", idx] => (a, ["apsent" ++ showIds a (nat! idx) (·.sent)])
  | ["ribid", pfx] =>
    let t := a.tblOf (nat! pfx)
    -- the table side of this model must agree with the Loc-RIB of the world model
    let ok := t.known.map (·.marker) == (a.w.ribOf (nat! pfx)).map (·.marker)
    (a, ["ribid" ++ String.join (t.known.map (fun c => s!" {c.marker}@{c.id}")) ++ (if ok then "" else " !world")])
  | [] => (a, [])
  | _ => (a, ["bad-op"])

def main : IO Unit := do
  loop (← IO.getStdin) (← IO.getStdout) ({ w := { g := ⟨0, 0⟩ } } : APW) step

end DriverC01AP
