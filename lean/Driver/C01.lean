import Driver.World
namespace DriverC01
def main : IO Unit := DriverWorld.main
end DriverC01
