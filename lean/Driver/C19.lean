import Model.Framing
import Model.FramingBodies
import Driver.Util
namespace DriverC19
open Framing DriverUtil

def hexVal (c : Char) : Nat :=
  if '0' ≤ c ∧ c ≤ '9' then c.toNat - '0'.toNat
  else if 'a' ≤ c ∧ c ≤ 'f' then c.toNat - 'a'.toNat + 10
  else 0

def hexList : List Char → Bytes
  | a :: b :: r => (hexVal a * 16 + hexVal b) :: hexList r
  | _ => []

/-- lowercase hex, `-` = empty -/
def unhex (s : String) : Bytes := if s == "-" then [] else hexList s.toList

def hexDigit (n : Nat) : Char := if n < 10 then Char.ofNat (48 + n) else Char.ofNat (87 + n)

def toHex (b : Bytes) : String :=
  if b.isEmpty then "-"
  else String.ofList (b.foldr (fun x acc => hexDigit (x / 16 % 16) :: hexDigit (x % 16) :: acc) [])

def sp (l : List String) : String := " ".intercalate l
def n (x : Nat) : String := toString x
def bs (b : Bool) : String := if b then "1" else "0"

/-! RTR -/
def rtrErr : Rtr.Err → String
  | .short => "err short" | .unknown => "err unknown" | .range => "err range" | .badlen => "err badlen"

def pduStr : Rtr.Pdu → String
  | .common v t s l sn => sp ["common", n v, n t, n s, n l, n sn]
  | .reset v t l => sp ["reset", n v, n t, n l]
  | .cacheResp v t s l => sp ["cresp", n v, n t, n s, n l]
  | .ipPrefix v t l f p m a asn => sp ["prefix", n v, n t, n l, n f, n p, n m, toHex a, n asn]
  | .errReport v t c l pl p tl tx => sp ["errep", n v, n t, n c, n l, n pl, toHex p, n tl, toHex tx]

def pduLen : Rtr.Pdu → Nat
  | .common _ _ _ l _ => l | .reset _ _ l => l | .cacheResp _ _ _ l => l
  | .ipPrefix _ _ l _ _ _ _ _ => l | .errReport _ _ _ l _ _ _ _ => l

def parsePdu : List String → Option Rtr.Pdu
  | ["common", v, t, s, l, sn] => some (.common (nat! v) (nat! t) (nat! s) (nat! l) (nat! sn))
  | ["reset", v, t, l] => some (.reset (nat! v) (nat! t) (nat! l))
  | ["cresp", v, t, s, l] => some (.cacheResp (nat! v) (nat! t) (nat! s) (nat! l))
  | ["prefix", v, t, l, f, p, m, a, asn] =>
      some (.ipPrefix (nat! v) (nat! t) (nat! l) (nat! f) (nat! p) (nat! m) (unhex a) (nat! asn))
  | ["errep", v, t, c, l, pl, p, tl, tx] =>
      some (.errReport (nat! v) (nat! t) (nat! c) (nat! l) (nat! pl) (unhex p) (nat! tl) (unhex tx))
  | _ => none

def parseStr (r : Except Rtr.Err Rtr.Pdu) : String :=
  match r with
  | .error e => rtrErr e
  | .ok p => pduStr p

/-- serialise unless the declared length would make the harness allocate too much -/
def serStr (p : Rtr.Pdu) : String :=
  if pduLen p > 70000 then "big"
  else match Rtr.serialize p with
    | none => "panic"
    | some b => toHex b

def mkStr (p : Option Rtr.Pdu) : String :=
  match p with
  | none => "nil"
  | some p =>
    match Rtr.serialize p with
    | none => pduStr p ++ " | panic"
    | some b => pduStr p ++ " | " ++ toHex b ++ " | " ++ parseStr (Rtr.parse b)

/-! BFD -/
def bfdErr : Bfd.Err → String
  | .length => "err length" | .header => "err header" | .version => "err version"
  | .diag => "err diag" | .state => "err state"

/-! splitters -/
def splitStr : Split → String
  | .more => "more" | .err => "err" | .tok a t => sp ["tok", n a, n t.length]

/-! BMP -/
def bmpErr : Bmp.Err → String
  | .short => "err short" | .version => "err version" | .length => "err length"
  | .typ => "err type" | .peerShort => "err peer" | .body => "err body"

/-- a decoded header's timestamp is reported as the float64 `sec + usec·10⁻⁶` holds it:
    whole seconds and the microsecond remainder (glue for the float conversion, which is
    outside the model) -/
def peerStr (p : Bmp.PeerHdr) : String :=
  let t := p.sec * 1000000 + p.usec
  sp [n p.ptype, n p.flags, n p.dist, toHex p.addr, n p.asn, toHex p.bgpid, n (t / 1000000), n (t % 1000000)]

def parsePeer : List String → Option Bmp.PeerHdr
  | [t, f, d, a, asn, id, s, u] =>
      some ⟨nat! t, nat! f, nat! d, unhex a, nat! asn, unhex id, nat! s, nat! u⟩
  | _ => none

def tlvStr (l : List (Nat × Bytes)) : String :=
  sp (n l.length :: l.foldr (fun (t, v) acc => n t :: toHex v :: acc) [])

def msgStr (r : Except Bmp.Err Bmp.Msg) : String :=
  match r with
  | .error _ => "err"
  | .ok m =>
    match m.body with
    | .unmodelled => "skip"
    | b =>
      let h := sp ["ok", n m.hdr.ver, n m.hdr.len, n m.hdr.typ]
      let p := match m.peer with | none => "nopeer" | some p => "peer " ++ peerStr p
      let bd := match b with
        | .info l => "info " ++ tlvStr l
        | .down r d => sp ["down", n r, toHex d]
        | .unmodelled => ""
      sp [h, p, bd]

/-! ZAPI -/
def zErr : Zapi.Err → String
  | .short => "err short" | .version => "err version" | .badlen => "err badlen"

def recvStr : Zapi.Recv → String
  | .hdrRead c => "hdrread " ++ n c | .mismatch c => "mismatch " ++ n c | .hdrErr c => "hdrerr " ++ n c
  | .bodyRead c => "bodyread " ++ n c | .framed c _ b => sp ["framed", n c, n b.length]

/-! bodies -/
def peerEntStr (p : Mrt.Peer) : String := sp [n p.typ, toHex p.bgpid, toHex p.addr, n p.asn]

def ptabStr : Option (Mrt.PeerTable × Bytes) → String
  | none => "err"
  | some (t, _) => sp (["ok", toHex t.collector, toHex t.view, n t.peers.length] ++ t.peers.map peerEntStr)

def entStr (full : Bool) (e : Mrt.Entry) : String :=
  if full then sp [n e.peerIndex, n e.time, n e.pathId, toHex e.attrs] else sp [n e.peerIndex, n e.time, n e.pathId]

def ribStr (full : Bool) : Option (Mrt.Rib × Bytes) → String
  | none => "err"
  | some (r, _) =>
    -- the NLRI of a RIB_GENERIC family is opaque: shown only where it is compared (valid records)
    let nl := if full || Mrt.isIPFamily r.afi r.safi then toHex r.nlri else "opaque"
    sp (["ok", n r.seq, n r.afi, n r.safi, nl, n r.entries.length] ++ r.entries.map (entStr full))

def parsePeerEnts : Nat → List String → List Mrt.Peer
  | 0, _ => []
  | k + 1, t :: id :: a :: asn :: rest => ⟨nat! t, unhex id, unhex a, nat! asn⟩ :: parsePeerEnts k rest
  | _, _ => []

def parseEnts : Nat → List String → List Mrt.Entry
  | 0, _ => []
  | k + 1, pi :: tm :: pid :: a :: rest => ⟨nat! pi, nat! tm, nat! pid, unhex a⟩ :: parseEnts k rest
  | _, _ => []

def b4hStr (h : Mrt.Bgp4mpHdr) : String :=
  sp [n h.peerAS, n h.localAS, n h.ifIndex, n h.afi, toHex h.peerAddr, toHex h.localAddr]

def bgp4mpStr (full : Bool) : Option Mrt.Bgp4mp → String
  | none => "err"
  | some (.state h o nw) => sp ["state", b4hStr h, n o, n nw]
  | some (.message h m) => sp ["msg", b4hStr h, if full then toHex m else "len " ++ n m.length]

def body2Str (v : Bool) : Bmp.Body2 → String
  | .routeMon m => "rm " ++ toHex m
  | .peerUp la lp rp s r info =>
      sp ["up", toHex (if v then la else la.drop 12), n lp, n rp, toHex s, toHex r, "info", tlvStr info]
  | .peerDownMsg reason m => sp ["downmsg", n reason, toHex m]
  | .peerDownData reason d => sp ["down", n reason, toHex d]
  | .peerDownInfo info => sp ["downinfo", tlvStr info]

def msg2Str : Option (Bmp.Hdr × Bmp.PeerHdr × Bmp.Body2) → String
  | none => "err"
  | some (h, p, b) => sp ["ok", n h.ver, n h.len, n h.typ, "peer", peerStr p, body2Str (Bmp.hasV p.ptype p.flags) b]

def step (s : Unit) (ts : List String) : Unit × List String :=
  let out (o : String) := (s, [o])
  match ts with
  | [] => (s, [])
  | ["rtr.parse", h] => out (parseStr (Rtr.parse (unhex h)))
  | ["rtr.rt", h] =>
    match Rtr.parse (unhex h) with
    | .error e => out (rtrErr e)
    | .ok p => out (serStr p)
  | "rtr.ser" :: rest =>
    match parsePdu rest with
    | some p => out (serStr p)
    | none => out "bad-op"
  | ["rtr.mk", "common", t, id, sn] => out (mkStr (some (Rtr.mkCommon (nat! t) (nat! id) (nat! sn))))
  | ["rtr.mk", "reset", t] => out (mkStr (some (Rtr.mkReset (nat! t))))
  | ["rtr.mk", "cresp", id] => out (mkStr (some (Rtr.mkCacheResp (nat! id))))
  | ["rtr.mk", "prefix", a, pl, ml, asn, f] =>
      out (mkStr (Rtr.mkPrefix (unhex a) (nat! pl) (nat! ml) (nat! asn) (nat! f)))
  | ["rtr.mk", "errep", c, p, t] => out (mkStr (Rtr.mkErrReport (nat! c) (unhex p) (unhex t)))
  | ["bfd.un", h] =>
    match Bfd.unmarshal (unhex h) with
    | .error e => out (bfdErr e)
    | .ok x => out (sp ["ok", n x.ver, n x.diag, n x.state, bs x.poll, bs x.final, n x.mult,
                        n x.my, n x.your, n x.tx, n x.rx])
  | ["bfd.ma", v, d, st, p, f, m, my, yr, tx, rx] =>
    match Bfd.marshal ⟨nat! v, nat! d, nat! st, b! p, b! f, nat! m, nat! my, nat! yr, nat! tx, nat! rx⟩ with
    | .error e => out (bfdErr e)
    | .ok b => out (toHex b)
  | ["mrt.hdr", h] =>
    match Mrt.parseHeader (unhex h) with
    | .error .short => out "err short"
    | .error .shortET => out "err shortET"
    | .ok x => out (sp ["ok", n x.ts, n x.typ, n x.sub, n x.len, n x.usec])
  | ["mrt.ser", a, t, st, l, u] => out (toHex (Mrt.serializeHeader ⟨nat! a, nat! t, nat! st, nat! l, nat! u⟩))
  | ["mrt.split", h, e] => out (splitStr (Mrt.split (unhex h) (b! e)))
  | ["bmp.hdr", h] =>
    match Bmp.decHdr (unhex h) with
    | .error e => out (bmpErr e)
    | .ok x => out (sp ["ok", n x.ver, n x.len, n x.typ])
  | ["bmp.hser", v, l, t] => out (toHex (Bmp.serHdr ⟨nat! v, nat! l, nat! t⟩))
  | ["bmp.ph", h] =>
    match Bmp.decPeer (unhex h) with
    | .error e => out (bmpErr e)
    | .ok p => out ("ok " ++ peerStr p)
  | "bmp.phser" :: rest =>
    match parsePeer rest with
    | some p => out (toHex (Bmp.serPeer p))
    | none => out "bad-op"
  | "bmp.mkph" :: rest =>
    match parsePeer rest with
    | some p =>
      let q := Bmp.mkPeer p.ptype p.flags p.dist p.addr p.asn p.bgpid p.sec p.usec
      out (sp [n q.flags, toHex (Bmp.serPeer q)])
    | none => out "bad-op"
  | ["bmp.split", h, e] => out (splitStr (Bmp.split (unhex h) (b! e)))
  | ["bmp.msg", h] => out (msgStr (Bmp.parseMsg (unhex h)))
  | ["zapi.dec", h] =>
    match Zapi.decode (unhex h) with
    | .error e => out (zErr e)
    | .ok x => out (sp ["ok", n x.len, n x.marker, n x.ver, n x.vrf, n x.cmd])
  | ["zapi.ser", l, m, v, vrf, c] =>
    match Zapi.serialize ⟨nat! l, nat! m, nat! v, nat! vrf, nat! c⟩ with
    | none => out "err"
    | some b => out (toHex b)
  | ["zapi.recv", v, h] => out (recvStr (Zapi.recv (nat! v) (unhex h)))
  | ["mrt.ptab", h] => out (ptabStr (Mrt.parsePeerTable (unhex h)))
  | ["mrt.rib", sub, glen, h] => out (ribStr true (Mrt.parseRib (nat! sub) (nat! glen) (unhex h)))
  | ["mrt.ribshape", sub, glen, h] => out (ribStr false (Mrt.parseRib (nat! sub) (nat! glen) (unhex h)))
  | ["mrt.attr", th, sub, glen, rh, i] =>
    match Mrt.parsePeerTable (unhex th), Mrt.parseRib (nat! sub) (nat! glen) (unhex rh) with
    | some (t, _), some (r, _) =>
      match Mrt.entryPeer t r (nat! i) with
      | some p => out (peerEntStr p)
      | none => out "none"
    | _, _ => out "err"
  | ["mrt.subtype", a, sf, ap] => out (n (Mrt.subtypeOf (nat! a) (nat! sf) (b! ap)))
  | "mrt.ribser" :: ap :: seq :: a :: sf :: nl :: cnt :: rest =>
      out (toHex (Mrt.serRib (b! ap) ⟨nat! seq, nat! a, nat! sf, unhex nl, parseEnts (nat! cnt) rest⟩))
  | "mrt.ptabser" :: c :: v :: cnt :: rest =>
    match Mrt.serPeerTable ⟨unhex c, unhex v, parsePeerEnts (nat! cnt) rest⟩ with
    | some b => out (toHex b)
    | none => out "err"
  | ["mrt.record", ts, typ, sub, h] => out (toHex (Mrt.serRecord (nat! ts) (nat! typ) (nat! sub) (unhex h)))
  | ["mrt.bgp4mp", sub, h] => out (bgp4mpStr true (Mrt.parseBgp4mp (nat! sub) (unhex h)))
  | ["mrt.bgp4mpshape", sub, h] => out (bgp4mpStr false (Mrt.parseBgp4mp (nat! sub) (unhex h)))
  | ["mrt.bgp4mpsub", a4, ap] => out (n (Mrt.bgp4mpSubtype (b! a4) (b! ap)))
  | ["mrt.bgp4mpser", a4, "state", pa, la, ifi, afi, p, l, o, nw] =>
    match Mrt.serBgp4mp (b! a4) (.state ⟨nat! pa, nat! la, nat! ifi, nat! afi, unhex p, unhex l⟩ (nat! o) (nat! nw)) with
    | some b => out (toHex b)
    | none => out "err"
  | ["mrt.bgp4mpser", a4, "msg", pa, la, ifi, afi, p, l, m] =>
    match Mrt.serBgp4mp (b! a4) (.message ⟨nat! pa, nat! la, nat! ifi, nat! afi, unhex p, unhex l⟩ (unhex m)) with
    | some b => out (toHex b)
    | none => out "err"
  | ["bmp.body2ser", "rm", m] => out (toHex (Bmp.serBody2 (.routeMon (unhex m))))
  | ["bmp.body2ser", "up", la, lp, rp, sn, rc] =>
      out (toHex (Bmp.serBody2 (.peerUp (unhex la) (nat! lp) (nat! rp) (unhex sn) (unhex rc) [])))
  | ["bmp.body2ser", "downmsg", r, m] => out (toHex (Bmp.serBody2 (.peerDownMsg (nat! r) (unhex m))))
  | ["bmp.body2ser", "down", r, d] => out (toHex (Bmp.serBody2 (.peerDownData (nat! r) (unhex d))))
  | ["bmp.msg2", h] => out (msg2Str (Bmp.parseMsg2 (unhex h)))
  | _ => out "bad-op"

def main : IO Unit := do
  loop (← IO.getStdin) (← IO.getStdout) () step

end DriverC19
