import Model.Framing
import Driver.Util
namespace DriverC19
open Framing DriverUtil

def hexVal (c : Char) : Nat :=
  if '0' ≤ c ∧ c ≤ '9' then c.toNat - '0'.toNat
  else if 'a' ≤ c ∧ c ≤ 'f' then c.toNat - 'a'.toNat + 10
  else 0

def hexList : List Char → Bytes
  | a :: b :: r => (hexVal a * 16 + hexVal b) :: hexList r
  | _ => []

/-- lowercase hex, `-` = empty -/
def unhex (s : String) : Bytes := if s == "-" then [] else hexList s.toList

def hexDigit (n : Nat) : Char := if n < 10 then Char.ofNat (48 + n) else Char.ofNat (87 + n)

def toHex (b : Bytes) : String :=
  if b.isEmpty then "-"
  else String.ofList (b.foldr (fun x acc => hexDigit (x / 16 % 16) :: hexDigit (x % 16) :: acc) [])

def sp (l : List String) : String := " ".intercalate l
def n (x : Nat) : String := toString x
def bs (b : Bool) : String := if b then "1" else "0"

/-! RTR -/
def rtrErr : Rtr.Err → String
  | .short => "err short" | .unknown => "err unknown" | .range => "err range" | .badlen => "err badlen"

def pduStr : Rtr.Pdu → String
  | .common v t s l sn => sp ["common", n v, n t, n s, n l, n sn]
  | .reset v t l => sp ["reset", n v, n t, n l]
  | .cacheResp v t s l => sp ["cresp", n v, n t, n s, n l]
  | .ipPrefix v t l f p m a asn => sp ["prefix", n v, n t, n l, n f, n p, n m, toHex a, n asn]
  | .errReport v t c l pl p tl tx => sp ["errep", n v, n t, n c, n l, n pl, toHex p, n tl, toHex tx]

def pduLen : Rtr.Pdu → Nat
  | .common _ _ _ l _ => l | .reset _ _ l => l | .cacheResp _ _ _ l => l
  | .ipPrefix _ _ l _ _ _ _ _ => l | .errReport _ _ _ l _ _ _ _ => l

def parsePdu : List String → Option Rtr.Pdu
  | ["common", v, t, s, l, sn] => some (.common (nat! v) (nat! t) (nat! s) (nat! l) (nat! sn))
  | ["reset", v, t, l] => some (.reset (nat! v) (nat! t) (nat! l))
  | ["cresp", v, t, s, l] => some (.cacheResp (nat! v) (nat! t) (nat! s) (nat! l))
  | ["prefix", v, t, l, f, p, m, a, asn] =>
      some (.ipPrefix (nat! v) (nat! t) (nat! l) (nat! f) (nat! p) (nat! m) (unhex a) (nat! asn))
  | ["errep", v, t, c, l, pl, p, tl, tx] =>
      some (.errReport (nat! v) (nat! t) (nat! c) (nat! l) (nat! pl) (unhex p) (nat! tl) (unhex tx))
  | _ => none

def parseStr (r : Except Rtr.Err Rtr.Pdu) : String :=
  match r with
  | .error e => rtrErr e
  | .ok p => pduStr p

/-- serialise unless the declared length would make the harness allocate too much -/
def serStr (p : Rtr.Pdu) : String :=
  if pduLen p > 70000 then "big"
  else match Rtr.serialize p with
    | none => "panic"
    | some b => toHex b

def mkStr (p : Option Rtr.Pdu) : String :=
  match p with
  | none => "nil"
  | some p =>
    match Rtr.serialize p with
    | none => pduStr p ++ " | panic"
    | some b => pduStr p ++ " | " ++ toHex b ++ " | " ++ parseStr (Rtr.parse b)

/-! BFD -/
def bfdErr : Bfd.Err → String
  | .length => "err length" | .header => "err header" | .version => "err version"
  | .diag => "err diag" | .state => "err state"

/-! splitters -/
def splitStr : Split → String
  | .more => "more" | .err => "err" | .tok a t => sp ["tok", n a, n t.length]

/-! BMP -/
def bmpErr : Bmp.Err → String
  | .short => "err short" | .version => "err version" | .length => "err length"
  | .typ => "err type" | .peerShort => "err peer" | .body => "err body"

/-- a decoded header's timestamp is reported as the float64 `sec + usec·10⁻⁶` holds it:
    whole seconds and the microsecond remainder (glue for the float conversion, which is
    outside the model) -/
def peerStr (p : Bmp.PeerHdr) : String :=
  let t := p.sec * 1000000 + p.usec
  sp [n p.ptype, n p.flags, n p.dist, toHex p.addr, n p.asn, toHex p.bgpid, n (t / 1000000), n (t % 1000000)]

def parsePeer : List String → Option Bmp.PeerHdr
  | [t, f, d, a, asn, id, s, u] =>
      some ⟨nat! t, nat! f, nat! d, unhex a, nat! asn, unhex id, nat! s, nat! u⟩
  | _ => none

def tlvStr (l : List (Nat × Bytes)) : String :=
  sp (n l.length :: l.foldr (fun (t, v) acc => n t :: toHex v :: acc) [])

def msgStr (r : Except Bmp.Err Bmp.Msg) : String :=
  match r with
  | .error _ => "err"
  | .ok m =>
    match m.body with
    | .unmodelled => "skip"
    | b =>
      let h := sp ["ok", n m.hdr.ver, n m.hdr.len, n m.hdr.typ]
      let p := match m.peer with | none => "nopeer" | some p => "peer " ++ peerStr p
      let bd := match b with
        | .info l => "info " ++ tlvStr l
        | .down r d => sp ["down", n r, toHex d]
        | .unmodelled => ""
      sp [h, p, bd]

/-! ZAPI -/
def zErr : Zapi.Err → String
  | .short => "err short" | .version => "err version" | .badlen => "err badlen"

def recvStr : Zapi.Recv → String
  | .hdrRead c => "hdrread " ++ n c | .mismatch c => "mismatch " ++ n c | .hdrErr c => "hdrerr " ++ n c
  | .bodyRead c => "bodyread " ++ n c | .framed c _ b => sp ["framed", n c, n b.length]

def step (s : Unit) (ts : List String) : Unit × List String :=
  let out (o : String) := (s, [o])
  match ts with
  | [] => (s, [])
  | ["rtr.parse", h] => out (parseStr (Rtr.parse (unhex h)))
  | ["rtr.rt", h] =>
    match Rtr.parse (unhex h) with
    | .error e => out (rtrErr e)
    | .ok p => out (serStr p)
  | "rtr.ser" :: rest =>
    match parsePdu rest with
    | some p => out (serStr p)
    | none => out "bad-op"
  | ["rtr.mk", "common", t, id, sn] => out (mkStr (some (Rtr.mkCommon (nat! t) (nat! id) (nat! sn))))
  | ["rtr.mk", "reset", t] => out (mkStr (some (Rtr.mkReset (nat! t))))
  | ["rtr.mk", "cresp", id] => out (mkStr (some (Rtr.mkCacheResp (nat! id))))
  | ["rtr.mk", "prefix", a, pl, ml, asn, f] =>
      out (mkStr (Rtr.mkPrefix (unhex a) (nat! pl) (nat! ml) (nat! asn) (nat! f)))
  | ["rtr.mk", "errep", c, p, t] => out (mkStr (Rtr.mkErrReport (nat! c) (unhex p) (unhex t)))
  | ["bfd.un", h] =>
    match Bfd.unmarshal (unhex h) with
    | .error e => out (bfdErr e)
    | .ok x => out (sp ["ok", n x.ver, n x.diag, n x.state, bs x.poll, bs x.final, n x.mult,
                        n x.my, n x.your, n x.tx, n x.rx])
  | ["bfd.ma", v, d, st, p, f, m, my, yr, tx, rx] =>
    match Bfd.marshal ⟨nat! v, nat! d, nat! st, b! p, b! f, nat! m, nat! my, nat! yr, nat! tx, nat! rx⟩ with
    | .error e => out (bfdErr e)
    | .ok b => out (toHex b)
  | ["mrt.hdr", h] =>
    match Mrt.parseHeader (unhex h) with
    | .error .short => out "err short"
    | .error .shortET => out "err shortET"
    | .ok x => out (sp ["ok", n x.ts, n x.typ, n x.sub, n x.len, n x.usec])
  | ["mrt.ser", a, t, st, l, u] => out (toHex (Mrt.serializeHeader ⟨nat! a, nat! t, nat! st, nat! l, nat! u⟩))
  | ["mrt.split", h, e] => out (splitStr (Mrt.split (unhex h) (b! e)))
  | ["bmp.hdr", h] =>
    match Bmp.decHdr (unhex h) with
    | .error e => out (bmpErr e)
    | .ok x => out (sp ["ok", n x.ver, n x.len, n x.typ])
  | ["bmp.hser", v, l, t] => out (toHex (Bmp.serHdr ⟨nat! v, nat! l, nat! t⟩))
  | ["bmp.ph", h] =>
    match Bmp.decPeer (unhex h) with
    | .error e => out (bmpErr e)
    | .ok p => out ("ok " ++ peerStr p)
  | "bmp.phser" :: rest =>
    match parsePeer rest with
    | some p => out (toHex (Bmp.serPeer p))
    | none => out "bad-op"
  | "bmp.mkph" :: rest =>
    match parsePeer rest with
    | some p =>
      let q := Bmp.mkPeer p.ptype p.flags p.dist p.addr p.asn p.bgpid p.sec p.usec
      out (sp [n q.flags, toHex (Bmp.serPeer q)])
    | none => out "bad-op"
  | ["bmp.split", h, e] => out (splitStr (Bmp.split (unhex h) (b! e)))
  | ["bmp.msg", h] => out (msgStr (Bmp.parseMsg (unhex h)))
  | ["zapi.dec", h] =>
    match Zapi.decode (unhex h) with
    | .error e => out (zErr e)
    | .ok x => out (sp ["ok", n x.len, n x.marker, n x.ver, n x.vrf, n x.cmd])
  | ["zapi.ser", l, m, v, vrf, c] =>
    match Zapi.serialize ⟨nat! l, nat! m, nat! v, nat! vrf, nat! c⟩ with
    | none => out "err"
    | some b => out (toHex b)
  | ["zapi.recv", v, h] => out (recvStr (Zapi.recv (nat! v) (unhex h)))
  | _ => out "bad-op"

def main : IO Unit := do
  loop (← IO.getStdin) (← IO.getStdout) () step

end DriverC19
