import Model.Policy
import Model.PolicyHeap
import Driver.Util
namespace DriverC10
open Policy DriverUtil

/-- defined sets by (kind, id) -/
inductive DSet
  | prefix (fam : Option Bool) (es : List PfxEntry)
  | neighbor (nets : List Pfx)
  | aspath (ss : List AsSingle) (res : List AsRe)
  | comm (ps : List Nat)
  | ext (ps : List ExtPat)
  | large (ps : List Large)
deriving Inhabited

structure St where
  sets   : List (Nat × Nat × DSet) := []     -- (kind, id, set)
  stmts  : List (Nat × Stmt) := []
  pols   : List (Nat × Pol) := []
  assign : List (Nat × RT × List Pol) := []
  routes : List (Nat × Route) := []
  opts   : List (Nat × Opts) := []
  heap   : PolicyHeap.Heap := []
  slices : List (Nat × PolicyHeap.Slice) := []

abbrev Toks := List String

def pNat : Toks → Option (Nat × Toks)
  | t :: rest => some (nat! t, rest)
  | [] => none

def pBool : Toks → Option (Bool × Toks)
  | t :: rest => some (b! t, rest)
  | [] => none

/-- `n` items with parser `p` -/
def pMany {α : Type} (p : Toks → Option (α × Toks)) : Nat → Toks → Option (List α × Toks)
  | 0, ts => some ([], ts)
  | n + 1, ts => do
    let (x, ts) ← p ts
    let (xs, ts) ← pMany p n ts
    pure (x :: xs, ts)

def pList {α : Type} (p : Toks → Option (α × Toks)) (ts : Toks) : Option (List α × Toks) := do
  let (n, ts) ← pNat ts
  pMany p n ts

def pPfx (ts : Toks) : Option (Pfx × Toks) := do
  let (v6, ts) ← pBool ts
  let (a, ts) ← pNat ts
  let (l, ts) ← pNat ts
  pure (⟨v6, a, l⟩, ts)

def pEntry (ts : Toks) : Option (PfxEntry × Toks) := do
  let (p, ts) ← pPfx ts
  let (lo, ts) ← pNat ts
  let (hi, ts) ← pNat ts
  pure (⟨p, lo, hi⟩, ts)

def pAddr (ts : Toks) : Option (Addr × Toks) := do
  let (v6, ts) ← pBool ts
  let (a, ts) ← pNat ts
  pure (⟨v6, a⟩, ts)

/-- `present v6 val` -/
def pOptAddr (ts : Toks) : Option (Option Addr × Toks) := do
  let (p, ts) ← pBool ts
  let (a, ts) ← pAddr ts
  pure (if p then some a else none, ts)

def pOptNat (ts : Toks) : Option (Option Nat × Toks) := do
  let (p, ts) ← pBool ts
  let (v, ts) ← pNat ts
  pure (if p then some v else none, ts)

def pExt (ts : Toks) : Option (Ext × Toks) := do
  let (t, ts) ← pBool ts
  let (k, ts) ← pNat ts
  let (s, ts) ← pNat ts
  let (a, ts) ← pNat ts
  let (l, ts) ← pNat ts
  pure (⟨t, k, s, a, l⟩, ts)

def pExtPat (ts : Toks) : Option (ExtPat × Toks) := do
  let (s, ts) ← pNat ts
  let (a, ts) ← pNat ts
  let (l, ts) ← pNat ts
  pure (⟨s, a, l⟩, ts)

def pLarge (ts : Toks) : Option (Large × Toks) := do
  let (a, ts) ← pNat ts
  let (b, ts) ← pNat ts
  let (c, ts) ← pNat ts
  pure (⟨a, b, c⟩, ts)

def pSeg (ts : Toks) : Option (Seg × Toks) := do
  let (t, ts) ← pNat ts
  let (as, ts) ← pList pNat ts
  pure (⟨t, as⟩, ts)

def hexVal (c : Char) : Nat :=
  if c.isDigit then c.toNat - '0'.toNat else c.toNat - 'a'.toNat + 10

def hexToString (s : String) : String :=
  if s == "-" then "" else
  let rec go : List Char → List Char
    | a :: b :: rest => Char.ofNat (hexVal a * 16 + hexVal b) :: go rest
    | _ => []
  String.ofList (go s.toList)

def pAsSingle (ts : Toks) : Option (AsSingle × Toks) := do
  let (m, ts) ← pNat ts
  let (a, ts) ← pNat ts
  pure (⟨m, a⟩, ts)

def pAsRe : Toks → Option (AsRe × Toks)
  | k :: h :: rest => some (if nat! k == 0 then .exact (hexToString h) else .sub (hexToString h), rest)
  | _ => none

def pOpt (ts : Toks) : Option (MatchOpt × Toks) := do
  let (o, ts) ← pNat ts
  pure (if o == 1 then .all else if o == 2 then .invert else .any, ts)

def findSet (s : St) (kind id : Nat) : Option DSet :=
  (s.sets.find? (fun e => e.1 == kind && e.2.1 == id)).map (·.2.2)

def pCond (s : St) (ts : Toks) : Option (Cond × Toks) := do
  let (tag, ts) ← pNat ts
  match tag with
  | 0 =>
    let (id, ts) ← pNat ts
    let (o, ts) ← pOpt ts
    match findSet s 0 id with
    | some (.prefix fam es) => pure (.prefix fam es o, ts)
    | _ => none
  | 1 =>
    let (id, ts) ← pNat ts
    let (o, ts) ← pOpt ts
    match findSet s 1 id with
    | some (.neighbor nets) => pure (.neighbor nets o, ts)
    | _ => none
  | 2 => let (op, ts) ← pNat ts; let (v, ts) ← pNat ts; pure (.commCount op v, ts)
  | 3 => let (op, ts) ← pNat ts; let (v, ts) ← pNat ts; pure (.asPathLen op v, ts)
  | 4 => let (v, ts) ← pNat ts; pure (.rpki v, ts)
  | 5 => let (v, ts) ← pNat ts; pure (.routeType v, ts)
  | 6 => let (v, ts) ← pNat ts; pure (.origin v, ts)
  | 7 =>
    let (id, ts) ← pNat ts
    let (o, ts) ← pOpt ts
    match findSet s 2 id with
    | some (.aspath ss res) => pure (.asPath ss res o, ts)
    | _ => none
  | 8 =>
    let (id, ts) ← pNat ts
    let (o, ts) ← pOpt ts
    match findSet s 3 id with
    | some (.comm ps) => pure (.comm ps o, ts)
    | _ => none
  | 9 =>
    let (id, ts) ← pNat ts
    let (o, ts) ← pOpt ts
    match findSet s 4 id with
    | some (.ext ps) => pure (.ext ps o, ts)
    | _ => none
  | 10 =>
    let (id, ts) ← pNat ts
    let (o, ts) ← pOpt ts
    match findSet s 5 id with
    | some (.large ps) => pure (.large ps o, ts)
    | _ => none
  | 11 => let (nets, ts) ← pList pPfx ts; pure (.nextHop nets, ts)
  | 12 => let (fs, ts) ← pList pNat ts; pure (.afiSafi fs, ts)
  | 13 => let (v, ts) ← pNat ts; pure (.lpEq v, ts)
  | 14 => let (v, ts) ← pNat ts; pure (.medEq v, ts)
  | _ => none

def pAct (ts : Toks) : Option (Act × Toks) := do
  let (tag, ts) ← pNat ts
  match tag with
  | 0 => let (op, ts) ← pNat ts; let (vs, ts) ← pList pNat ts; pure (.comm op vs, ts)
  | 1 =>
    let (op, ts) ← pNat ts
    let (vs, ts) ← pList pExt ts
    let (ps, ts) ← pList pExtPat ts
    pure (.ext op vs ps, ts)
  | 2 => let (op, ts) ← pNat ts; let (vs, ts) ← pList pLarge ts; pure (.large op vs, ts)
  | 3 =>
    let (rep, ts) ← pBool ts
    let (neg, ts) ← pBool ts
    let (v, ts) ← pNat ts
    pure (.med rep (if neg then -(Int.ofNat v) else Int.ofNat v), ts)
  | 4 => let (v, ts) ← pNat ts; pure (.lp v, ts)
  | 5 =>
    let (ul, ts) ← pBool ts
    let (a, ts) ← pNat ts
    let (r, ts) ← pNat ts
    pure (.prepend ul a r, ts)
  | 6 => let (k, ts) ← pNat ts; let (a, ts) ← pAddr ts; pure (.nextHop k a, ts)
  | 7 => let (v, ts) ← pNat ts; pure (.origin v, ts)
  | _ => none

def pStmt (s : St) (ts : Toks) : Option (Stmt × Toks) := do
  let (conds, ts) ← pList (pCond s) ts
  let (rt, ts) ← pNat ts
  let (mods, ts) ← pList pAct ts
  pure (⟨conds, if rt == 1 then some true else if rt == 2 then some false else none, mods⟩, ts)

def pRoute (ts : Toks) : Option (Route × Toks) := do
  let (wd, ts) ← pBool ts
  let (v6, ts) ← pBool ts
  let (nlri, ts) ← pPfx ts
  let (src, ts) ← pOptAddr ts
  let (sas, ts) ← pNat ts
  let (slas, ts) ← pNat ts
  let (orig, ts) ← pOptNat ts
  let (segs, ts) ← pList pSeg ts
  let (nh, ts) ← pOptAddr ts
  let (med, ts) ← pOptNat ts
  let (lp, ts) ← pOptNat ts
  let (cs, ts) ← pList pNat ts
  let (es, ts) ← pList pExt ts
  let (ls, ts) ← pList pLarge ts
  pure ({ withdraw := wd, v6 := v6, nlri := nlri, srcAddr := src, srcAS := sas, srcLocalAS := slas,
          origin := orig, asPath := segs, nh := nh, med := med, lp := lp, comms := cs, exts := es,
          larges := ls }, ts)

def pOpts (ts : Toks) : Option (Opts × Toks) := do
  let (ia, ts) ← pOptAddr ts
  let (il, ts) ← pOptAddr ts
  let (cf, ts) ← pBool ts
  let (old, ts) ← pOptAddr ts
  let (rp, ts) ← pOptNat ts
  pure (⟨ia, il, cf, old, rp⟩, ts)

def showOptNat : Option Nat → String
  | some v => toString v
  | none => "-"

def showOptAddr : Option Addr → String
  | some a => (if a.v6 then "6:" else "4:") ++ toString a.val
  | none => "-"

def showRoute (r : Route) : String :=
  "o " ++ showOptNat r.origin ++
  " p " ++ toString r.asPath.length ++
    String.join (r.asPath.map (fun s => " " ++ toString s.typ ++ " " ++ toString s.as.length ++
      String.join (s.as.map (fun a => " " ++ toString a)))) ++
  " nh " ++ showOptAddr r.nh ++
  " med " ++ showOptNat r.med ++
  " lp " ++ showOptNat r.lp ++
  " c " ++ toString r.comms.length ++ String.join (r.comms.map (fun c => " " ++ toString c)) ++
  " e " ++ toString r.exts.length ++ String.join (r.exts.map (fun x =>
      " " ++ (if x.trans then "1" else "0") ++ " " ++ toString x.kind ++ " " ++ toString x.sub ++ " " ++
      toString x.as ++ " " ++ toString x.la)) ++
  " l " ++ toString r.larges.length ++ String.join (r.larges.map (fun l =>
      " " ++ toString l.a ++ " " ++ toString l.b ++ " " ++ toString l.c))

def lookup {α : Type} (l : List (Nat × α)) (id : Nat) : Option α := (l.find? (·.1 == id)).map (·.2)

def upsert {α : Type} (l : List (Nat × α)) (id : Nat) (x : α) : List (Nat × α) :=
  (id, x) :: l.filter (·.1 != id)

def showNats (l : List Nat) : String := toString l.length ++ String.join (l.map (fun c => " " ++ toString c))

def step (s : St) (ts : Toks) : St × List String :=
  match ts with
  | ["reset"] => ({}, [])
  | "defset" :: "prefix" :: id :: fam :: rest =>
    match pList pEntry rest with
    | some (es, []) =>
      let f := if nat! fam == 1 then some false else if nat! fam == 2 then some true else none
      ({ s with sets := (0, nat! id, .prefix f es) :: s.sets }, [])
    | _ => (s, ["bad-op"])
  | "defset" :: "neighbor" :: id :: rest =>
    match pList pPfx rest with
    | some (ns, []) => ({ s with sets := (1, nat! id, .neighbor ns) :: s.sets }, [])
    | _ => (s, ["bad-op"])
  | "defset" :: "aspath" :: id :: rest =>
    match (do let (ss, ts) ← pList pAsSingle rest; let (res, ts) ← pList pAsRe ts; pure (ss, res, ts)) with
    | some (ss, res, []) => ({ s with sets := (2, nat! id, .aspath ss res) :: s.sets }, [])
    | _ => (s, ["bad-op"])
  | "defset" :: "comm" :: id :: rest =>
    match pList pNat rest with
    | some (ps, []) => ({ s with sets := (3, nat! id, .comm ps) :: s.sets }, [])
    | _ => (s, ["bad-op"])
  | "defset" :: "ext" :: id :: rest =>
    match pList pExtPat rest with
    | some (ps, []) => ({ s with sets := (4, nat! id, .ext ps) :: s.sets }, [])
    | _ => (s, ["bad-op"])
  | "defset" :: "large" :: id :: rest =>
    match pList pLarge rest with
    | some (ps, []) => ({ s with sets := (5, nat! id, .large ps) :: s.sets }, [])
    | _ => (s, ["bad-op"])
  | "stmt" :: id :: rest =>
    match pStmt s rest with
    | some (st, []) => ({ s with stmts := upsert s.stmts (nat! id) st }, [])
    | _ => (s, ["bad-op"])
  | "policy" :: id :: rest =>
    match pList pNat rest with
    | some (ids, []) =>
      match ids.mapM (lookup s.stmts) with
      | some sts => ({ s with pols := upsert s.pols (nat! id) ⟨sts⟩ }, [])
      | none => (s, ["bad-op"])
    | _ => (s, ["bad-op"])
  | "assign" :: slot :: dflt :: rest =>
    match pList pNat rest with
    | some (ids, []) =>
      match ids.mapM (lookup s.pols) with
      | some ps =>
        let d : RT := if nat! dflt == 1 then .accept else if nat! dflt == 2 then .reject else .none
        ({ s with assign := upsert s.assign (nat! slot) (d, ps) }, [])
      | none => (s, ["bad-op"])
    | _ => (s, ["bad-op"])
  | "route" :: id :: rest =>
    match pRoute rest with
    | some (r, []) => ({ s with routes := upsert s.routes (nat! id) r }, [])
    | _ => (s, ["bad-op"])
  | "opts" :: id :: rest =>
    match pOpts rest with
    | some (o, []) => ({ s with opts := upsert s.opts (nat! id) o }, [])
    | _ => (s, ["bad-op"])
  | ["eval", slot, rid, oid] =>
    match lookup s.routes (nat! rid), lookup s.opts (nat! oid) with
    | some r, some o =>
      let (d, ps) := (lookup s.assign (nat! slot)).getD (.none, [])
      match applyPolicy ps d r o with
      | some r' => (s, ["accept " ++ showRoute r'])
      | none => (s, ["reject"])
    | _, _ => (s, ["bad-op"])
  | ["spec", slot, rid, oid] =>
    match lookup s.routes (nat! rid), lookup s.opts (nat! oid) with
    | some r, some o =>
      let (d, ps) := (lookup s.assign (nat! slot)).getD (.none, [])
      match spec ps d r o with
      | some r' => (s, ["accept " ++ showRoute r'])
      | none => (s, ["reject"])
    | _, _ => (s, ["bad-op"])
  | ["sev", sid, rid, oid] =>
    match lookup s.stmts (nat! sid), lookup s.routes (nat! rid), lookup s.opts (nat! oid) with
    | some st, some r, some o =>
      (s, ["c" ++ String.join (st.conds.map (fun c => if evalCond c r o then " 1" else " 0"))])
    | _, _, _ => (s, ["bad-op"])
  -- heap-level operations (Model/PolicyHeap.lean): slices with spare capacity shared by clones
  | "hnew" :: id :: cap :: rest =>
    match pList pNat rest with
    | some (vals, []) =>
      let (h, sl) := PolicyHeap.allocCap s.heap vals (nat! cap)
      ({ s with heap := h, slices := upsert s.slices (nat! id) sl }, [])
    | _ => (s, ["bad-op"])
  | "hadd" :: dst :: src :: rest =>
    -- the (repaired) Set*Communities(cs, false): dst := concat(src, cs)
    match pList pNat rest, lookup s.slices (nat! src) with
    | some (vals, []), some sl =>
      let (h, sl') := PolicyHeap.concat s.heap sl vals
      ({ s with heap := h, slices := upsert s.slices (nat! dst) sl' }, [])
    | _, _ => (s, ["bad-op"])
  | ["hread", id] =>
    match lookup s.slices (nat! id) with
    | some sl => (s, [showNats (PolicyHeap.read s.heap sl)])
    | none => (s, ["bad-op"])
  | [] => (s, [])
  | _ => (s, ["bad-op"])

def main : IO Unit := do
  loop (← IO.getStdin) (← IO.getStdout) ({} : St) step

end DriverC10
