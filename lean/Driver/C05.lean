import Model.Wire
import Model.UpdateWire
import Model.ErrHandling
import Model.ParseTotal
import Driver.Util
/-
  Line protocol of C05 (byte strings in lowercase hex, `-` = empty):
    opts <apRx> <apTx> <use2> <ext>   set the option set (no answer)
    dec <hex>     Wire.parse      (strict ParseBGPMessage: any error = reject)         → M … | reject | unmodelled
    ldec <hex>    PTot.parseL     (ParseBGPMessage as used: value + non-fatal error)    → M … err=… S=<octets of Serialize> | reject | unmodelled
    udec <use2> <hex>  UpdWire.parse + ErrH.decode (UPDATE body, error class, kept attribute types; C06's model)
    open <hex>    PTot.parseOpen  (ParseBGPMessage of an OPEN)                          → O … | reject | panic
    cap <hex>     PTot.decCap     (DecodeCapability)                                    → C … | reject | panic
    recvs <k> <open body>*k <hex19>  PTot.recvBodyLenSess: k sessions established in order on one fsm, then the header  → read <n> | reject
    recv <ext> <hex19>  PTot.recvBodyLen (fsm.go recvMessageWithError after the header)        → read <n> | reject
-/
namespace DriverC05
open Wire DriverUtil

def hexDigit (c : Char) : Option Nat :=
  if '0' ≤ c ∧ c ≤ '9' then some (c.toNat - '0'.toNat)
  else if 'a' ≤ c ∧ c ≤ 'f' then some (c.toNat - 'a'.toNat + 10)
  else none

def unhexAux : List Char → Option Bytes
  | [] => some []
  | a :: b :: rest =>
    match hexDigit a, hexDigit b, unhexAux rest with
    | some x, some y, some r => some ((x * 16 + y) :: r)
    | _, _, _ => none
  | _ => none

def unhex (s : String) : Option Bytes := if s == "-" then some [] else unhexAux s.toList

def hexChar (n : Nat) : Char := if n < 10 then Char.ofNat (48 + n) else Char.ofNat (87 + n)

def hex (b : Bytes) : String :=
  if b.isEmpty then "-" else String.ofList (b.flatMap fun x => [hexChar (x / 16 % 16), hexChar (x % 16)])

/-! rendering: the same text zz_verif_c04_test.go (vcRMsg) prints from the real objects -/

def rNlri (n : PathNLRI) : String := s!"{n.id}/{n.pfx.bits}/{hex n.pfx.addr}"
def rNlris (l : List PathNLRI) : String := " ".intercalate (l.map rNlri)
def commaNats (l : List Nat) : String := ",".intercalate (l.map toString)
def rSeg (s : Seg) : String := s!"{if s.w4 then 4 else 2}.{s.typ}.{s.num}[{commaNats s.as}]"
def rSegs (l : List Seg) : String := ";".intercalate (l.map rSeg)

def rVal : AttrVal → String
  | .origin v => s!"origin {v}"
  | .asPath segs => s!"aspath {rSegs segs}"
  | .nextHop a => s!"nexthop {hex a}"
  | .med v => s!"med {v}"
  | .localPref v => s!"lp {v}"
  | .atomicAgg => "atomic"
  | .aggregator w as addr => s!"aggr {if w then 4 else 2} {as} {addr}"
  | .communities vs => s!"comm {commaNats vs}"
  | .originatorId a => s!"origid {a}"
  | .clusterList ids => s!"clist {commaNats ids}"
  | .as4Path segs => s!"as4path {rSegs segs}"
  | .as4Aggregator as addr => s!"as4aggr {as} {addr}"
  | .largeComm vs => "lcomm " ++ ",".intercalate (vs.map fun (a, b, c) => s!"{a}:{b}:{c}")
  | .unknown v => s!"unk {hex v}"

def rAttr (a : Attr) : String := "{" ++ s!"f={a.flags} t={a.typ} l={a.length} {rVal a.val}" ++ "}"
def rAttrs (l : List Attr) : String := " ".intercalate (l.map rAttr)

def rBody : Body → String
  | .update u => s!"U wl={u.wlen} W[{rNlris u.withdrawn}] pl={u.palen} A[{rAttrs u.attrs}] N[{rNlris u.nlri}]"
  | .notification c s d => s!"NOTIF {c} {s} {hex d}"
  | .keepalive => "KA"
  | .routeRefresh a d s => s!"RR {a} {d} {s}"
  | .openRaw r => s!"OPEN {hex r}"

def rMsg (m : Msg) : String := s!"M len={m.hlen} typ={m.typ} {rBody m.body}"

/-- the Go zero value as the harness renders it (an invalid netip.Addr prints as 3735928559) -/
def rHalf (t : Nat) : String :=
  if t = 1 then "origin 0" else if t = 2 then "aspath " else if t = 3 then "nexthop -"
  else if t = 4 then "med 0" else if t = 5 then "lp 0" else if t = 6 then "atomic"
  else if t = 7 then "aggr 0 0 3735928559" else if t = 8 then "comm " else if t = 9 then "origid 3735928559"
  else if t = 10 then "clist " else if t = 17 then "as4path " else if t = 18 then "as4aggr 0 3735928559"
  else if t = 32 then "lcomm " else "unk -"

def rLAttr : PTot.LAttr → String
  | .full a => rAttr a
  | .half f t l => "{" ++ s!"f={f} t={t} l={l} {rHalf t}" ++ "}"

def rErr : Option ErrH.MErr → String
  | none => "none"
  | some e => s!"{e.code}/{e.sub}/{e.h.rank}"

def rLBody : PTot.LBody → String
  | .update u => s!"U wl={u.wlen} W[{rNlris u.withdrawn}] pl={u.palen} A[{" ".intercalate (u.attrs.map rLAttr)}] N[{rNlris u.nlri}]"
  | .other b => rBody b

def rCap (c : PTot.Cap) : String := s!"C{c.code}/{c.len}[{commaNats c.fields}]"

def rParam : PTot.OptParam → String
  | .caps t l cs => s!"P{t}/{l}" ++ "{" ++ ";".intercalate (cs.map rCap) ++ "}"
  | .unknown t l v => s!"X{t}/{l}:{hex v}"

def rOpen (o : PTot.Open) : String :=
  s!"O v={o.version} as={o.myAS} hold={o.hold} id={o.id} ol={o.optLen} " ++ " ".intercalate (o.params.map rParam)

def rPM {α} (f : α → String) : PTot.PM α → String
  | .ok a => f a
  | .error .reject => "reject"
  | .error .panic => "panic"

structure St where
  o : Opts := ⟨false, false, false, false⟩

def showAttrs (l : List ErrH.AttrObs) : String :=
  if l.isEmpty then "-" else ",".intercalate (l.map (fun a => s!"{a.typ}:{a.flags}"))

def step (s : St) (ts : List String) : St × List String :=
  match ts with
  | ["opts", a, b, c, d] => ({ s with o := ⟨b! a, b! b, b! c, b! d⟩ }, [])
  | ["dec", h] =>
    match unhex h with
    | none => (s, ["bad-op"])
    | some b =>
      match parse s.o b with
      | .ok m => (s, [rMsg m])
      | .reject => (s, ["reject"])
      | .unmodelled => (s, ["unmodelled"])
  | ["ldec", h] =>
    match unhex h with
    | none => (s, ["bad-op"])
    | some b =>
      match PTot.parseL s.o b with
      | .msg m e =>
        let ser := match PTot.serializeL s.o m with
          | some out => hex out
          | none => "too-long"
        (s, [s!"M len={m.hlen} typ={m.typ} {rLBody m.body} err={rErr e} S={ser}"])
      | .reject => (s, ["reject"])
      | .unmodelled => (s, ["unmodelled"])
  | ["udec", u, h] =>
    match unhex h with
    | none => (s, ["bad-op"])
    | some b =>
      match UpdWire.parse (b! u) b with
      | none => (s, ["unsupported"])
      | some m =>
        let d := ErrH.decode m
        match d.err with
        | some ⟨c, sc, .reset⟩ => (s, [s!"err={c}/{sc}/4"])
        | _ => (s, [s!"err={rErr d.err} attrs={showAttrs d.attrs} wd={d.wd} nlri={d.nlri}"])
  | ["open", h] =>
    match unhex h with
    | none => (s, ["bad-op"])
    | some b => (s, [rPM rOpen (PTot.parseOpen b)])
  | ["cap", h] =>
    match unhex h with
    | none => (s, ["bad-op"])
    | some b => (s, [rPM rCap (PTot.decCap b)])
  | ["recv", e, h] =>
    match unhex h with
    | none => (s, ["bad-op"])
    | some b =>
      match PTot.recvBodyLen (b! e) b with
      | none => (s, ["reject"])
      | some n => (s, [s!"read {n}"])
  | "recvs" :: n :: rest =>
    -- recvs <k> <open body 1> … <open body k> <hdr19>: k sessions established in this order on one fsm
    let k := nat! n
    let bodies := rest.take k
    match rest.drop k with
    | [h] =>
      match unhex h, bodies.mapM (fun b => (unhex b).bind fun bs => (PTot.decOpen bs).toOption) with
      | some hb, some (opens : List PTot.Open) =>
        match opens.reverse with
        | cur :: histRev =>
          match PTot.recvBodyLenSess false histRev.reverse cur hb with
          | none => (s, ["reject"])
          | some m => (s, [s!"read {m}"])
        | [] => (s, ["bad-op"])
      | _, _ => (s, ["bad-open"])
    | _ => (s, ["bad-op"])
  | [] => (s, [])
  | _ => (s, ["bad-op"])

def main : IO Unit := do
  loop (← IO.getStdin) (← IO.getStdout) ({} : St) step

end DriverC05
