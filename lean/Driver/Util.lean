/- shared plumbing for the line-protocol drivers (core-only) -/
namespace DriverUtil

def toks (line : String) : List String :=
  (line.trimAscii.toString.splitOn " ").filter (· ≠ "")

def nat! (s : String) : Nat := s.toNat?.getD 0

def b! (s : String) : Bool := s == "1"

/-- read `n` naturals from a token list, returning them and the rest -/
def takeNats (n : Nat) (ts : List String) : List Nat × List String :=
  ((ts.take n).map nat!, ts.drop n)

/-- a list encoded as `n x1 … xn` -/
def takeList (ts : List String) : List Nat × List String :=
  match ts with
  | [] => ([], [])
  | n :: rest => takeNats (nat! n) rest

partial def loop {σ : Type} (h : IO.FS.Stream) (out : IO.FS.Stream) (s : σ)
    (step : σ → List String → σ × List String) : IO Unit := do
  let line ← h.getLine
  if line.isEmpty then
    out.flush
    return ()
  let (s', outs) := step s (toks line)
  for o in outs do
    out.putStrLn o
  loop h out s' step

def joinNats (l : List Nat) : String := " ".intercalate (l.map toString)

end DriverUtil
