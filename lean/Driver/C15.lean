import Model.SoftReset
import Model.SoftResetWorld
import Driver.Util
/- line-protocol driver for the policy / soft-reset world (C15) -/
namespace DriverC15
open BestPath World SoftReset DriverUtil

def parseSegs : Nat → List String → List Seg
  | 0, _ => []
  | n + 1, ts =>
    match ts with
    | typ :: rest =>
      let (as, rest') := takeList rest
      ⟨nat! typ, as⟩ :: parseSegs n rest'
    | [] => []

def optNat (present v : String) : Option Nat := if b! present then some (nat! v) else none

def kindOf (s : String) : Kind :=
  match s with
  | "0" => .ebgp | "1" => .ibgp | "2" => .rrc | _ => .rsc

/-- `<pfx> <pathId> <marker> <lpP> <lp> <origin> <medP> <med> <origP> <originator> <ncl> cl… <ncomm> c… <nseg> segs…` -/
def parseRoute (ts : List String) : Option Cand :=
  match ts with
  | pfx :: pid :: marker :: lpp :: lp :: origin :: mp :: med :: op :: orig :: rest =>
    let (cl, rest) := takeList rest
    let (comms, rest) := takeList rest
    match rest with
    | nseg :: rest =>
      some { (default : Cand) with
        pfx := nat! pfx, pathId := nat! pid, marker := nat! marker, localPref := optNat lpp lp,
        origin := some (nat! origin), med := optNat mp med, originator := optNat op orig,
        clusterList := cl, comms := comms, segs := parseSegs (nat! nseg) rest }
    | [] => none
  | _ => none

def parsePfxEnts : Nat → List String → List PfxEnt × List String
  | 0, ts => ([], ts)
  | n + 1, ts =>
    match ts with
    | b :: pl :: lo :: hi :: rest =>
      let (es, rest') := parsePfxEnts n rest
      (⟨nat! b, nat! pl, nat! lo, nat! hi⟩ :: es, rest')
    | _ => ([], [])

def parseAspEnts : Nat → List String → List AspEnt × List String
  | 0, ts => ([], ts)
  | n + 1, ts =>
    match ts with
    | m :: a :: rest =>
      let (es, rest') := parseAspEnts n rest
      (⟨nat! m, nat! a⟩ :: es, rest')
    | _ => ([], [])

/-- `<commP> <commOpt> <ncomm> c… <anyPeer> <nbrOpt> <npeers> p… <medP> <med> <lpP> <lp> <addP> <add>
     <route> <lenP> <lenOp> <len> <pfxP> <pfxOpt> <npfx> (base plen lo hi)… <aspP> <aspOpt> <nasp>
     (mode asn)… <medEqP> <medEq> <lpEqP> <lpEq>` repeated -/
def parseStmts : Nat → List String → List Stmt
  | 0, _ => []
  | n + 1, ts =>
    match ts with
    | commP :: commOpt :: rest =>
      let (comms, rest) := takeList rest
      match rest with
      | anyP :: nbrOpt :: rest =>
        let (peers, rest) := takeList rest
        match rest with
        | mp :: med :: lpp :: lp :: ap :: add :: route :: lenP :: lenOp :: len :: pfxP :: pfxOpt :: npfx :: rest =>
          let (pes, rest) := parsePfxEnts (nat! npfx) rest
          match rest with
          | aspP :: aspOpt :: nasp :: rest =>
            let (aes, rest) := parseAspEnts (nat! nasp) rest
            match rest with
            | meP :: meV :: leP :: leV :: rest' =>
              { commSet := if b! commP then some comms else none, commOpt := nat! commOpt,
                anyPeer := b! anyP, nbrOpt := nat! nbrOpt, peers := peers, setMed := optNat mp med,
                setLp := optNat lpp lp, addComm := optNat ap add, route := nat! route,
                aspLen := if b! lenP then some (nat! lenOp, nat! len) else none,
                pfxSet := if b! pfxP then some pes else none, pfxOpt := nat! pfxOpt,
                aspSet := if b! aspP then some aes else none, aspOpt := nat! aspOpt,
                medEq := optNat meP meV, lpEq := optNat leP leV } :: parseStmts n rest'
            | _ => []
          | _ => []
        | _ => []
      | _ => []
    | _ => []

def showOpt : Option Nat → String
  | some v => toString v
  | none => "-"

def showComms (l : List Nat) : String := ".".intercalate (l.map toString)

def showHeld (h : Held) : String := s!"{h.marker}/{showOpt h.med}/{showOpt h.lp}/{showComms h.comms}"

def showView (v : ViewP) : String :=
  let sorted := v.toArray.qsort (fun a b => a.1 < b.1) |>.toList
  String.join (sorted.map (fun e => s!" {e.1}={showHeld e.2}"))

def showAdj (a : Adj) : String :=
  let sorted := a.entries.toArray.qsort (fun x y => x.r.pfx < y.r.pfx || (x.r.pfx == y.r.pfx && x.r.pathId < y.r.pathId)) |>.toList
  String.join (sorted.map (fun e => s!" {e.r.pfx}#{e.r.pathId}={e.r.marker}" ++ (if e.rejected then "r" else ""))) ++
    s!" | count {a.entries.length} accepted {a.accepted}"

def showSent (l : List Nat) : String :=
  String.join ((l.toArray.qsort (· < ·)).toList.map (fun p => s!" {p}"))

def step (s : S) (ts : List String) : S × List String :=
  match ts with
  | ["world", as, rid] => ({ g := ⟨nat! as, nat! rid⟩ }, [])
  | ["lockarg", site, sends, write] =>
    (s, ["lockarg " ++ site ++ (if lockOk (b! sends) (b! write) then " atomic" else " races-fanout")])
  | ["opts", a, b, c] => ({ s with opts := ⟨b! a, b! b, b! c⟩ }, [])
  | ["peer", idx, kind, as, rid, addr, sendMax, apRx, allowOwn] =>
    let cfg : PeerCfg := { idx := nat! idx, kind := kindOf kind, as := nat! as, rid := nat! rid, addr := nat! addr,
                           sendMax := nat! sendMax, addPathRx := b! apRx, allowOwnAs := nat! allowOwn }
    ({ s with peers := s.peers ++ [{ cfg := cfg }] }, [])
  | ["up", idx] => (SoftReset.step s (.up (nat! idx)), [])
  | ["down", idx] => (SoftReset.step s (.down (nat! idx)), [])
  | "ann" :: idx :: rest =>
    match parseRoute rest with
    | some r => (SoftReset.step s (.ann (nat! idx) r), [])
    | none => (s, ["bad-op"])
  | ["wd", idx, pfx, pid] => (SoftReset.step s (.wd (nat! idx) (nat! pfx) (nat! pid)), [])
  | "pol" :: dir :: dflt :: n :: rest =>
    let p : Pol := { stmts := parseStmts (nat! n) rest, dfltAccept := b! dflt }
    if p.stmts.length != nat! n then (s, ["bad-op"])
    else if dir == "imp" then (SoftReset.step s (.setImp p), [])
    else if dir == "exp" then (SoftReset.step s (.setExp p), [])
    else (s, ["bad-op"])
  | ["softin", idx] => (SoftReset.step s (.softIn (nat! idx)), [])
  | ["softout", idx] => (SoftReset.step s (.softOut (nat! idx)), [])
  | ["softboth", idx] => (SoftReset.step s (.softBoth (nat! idx)), [])
  | ["softinall"] => (SoftReset.step s .softInAll, [])
  | ["softoutall"] => (SoftReset.step s .softOutAll, [])
  | ["softbothall"] => (SoftReset.step s .softBothAll, [])
  | ["refresh", idx] => (SoftReset.step s (.refresh (nat! idx)), [])
  | ["view", idx] =>
    match s.peer? (nat! idx) with
    | some ps => (s, ["view" ++ showView ps.view])
    | none => (s, ["bad-op"])
  | ["sent", idx] =>
    match s.peer? (nat! idx) with
    | some ps => (s, ["sent" ++ showSent ps.sent])
    | none => (s, ["bad-op"])
  | ["adjoutf", idx] =>
    match s.peer? (nat! idx) with
    | some ps =>
      let l := (adjOutFiltered s ps.cfg).toArray.qsort (fun a b => a.1 < b.1) |>.toList
      (s, ["adjoutf" ++ String.join (l.map (fun e => s!" {e.1}=" ++ (if e.2 then "f" else "a")))])
    | none => (s, ["bad-op"])
  | ["adjin", idx] =>
    match s.peer? (nat! idx) with
    | some ps => (s, ["adjin" ++ showAdj ps.adj])
    | none => (s, ["bad-op"])
  | ["rib", pfx] =>
    (s, ["rib" ++ String.join ((s.ribOf (nat! pfx)).map (fun c =>
      s!" {c.marker}/{showOpt c.med}/{showOpt c.localPref}/{showComms c.comms}"))])
  | [] => (s, [])
  | _ => (s, ["bad-op"])

/-! ### the compositional whole-speaker model (Model/SoftResetWorld.lean) in lockstep -/

open SoftResetWorld in
/-- the same line applied to the product model -/
def stepW (sw : SW) (ts : List String) : SW :=
  match ts with
  | ["world", as, rid] => { k := { g := ⟨nat! as, nat! rid⟩ } }
  | ["opts", a, b, c] => { sw with k := { sw.k with opts := ⟨b! a, b! b, b! c⟩ } }
  | ["peer", idx, kind, as, rid, addr, sendMax, apRx, allowOwn] =>
    let cfg : PeerCfg := { idx := nat! idx, kind := kindOf kind, as := nat! as, rid := nat! rid, addr := nat! addr,
                           sendMax := nat! sendMax, addPathRx := b! apRx, allowOwnAs := nat! allowOwn }
    { sw with k := { sw.k with cfgs := sw.k.cfgs ++ [cfg] } }
  | ["up", idx] => SoftResetWorld.step sw (.up (nat! idx))
  | ["down", idx] => SoftResetWorld.step sw (.down (nat! idx))
  | "ann" :: idx :: rest =>
    match parseRoute rest with
    | some r => SoftResetWorld.step sw (.ann (nat! idx) r)
    | none => sw
  | ["wd", idx, pfx, pid] => SoftResetWorld.step sw (.wd (nat! idx) (nat! pfx) (nat! pid))
  | "pol" :: dir :: dflt :: n :: rest =>
    let p : Pol := { stmts := parseStmts (nat! n) rest, dfltAccept := b! dflt }
    if p.stmts.length != nat! n then sw
    else if dir == "imp" then SoftResetWorld.step sw (.setImp p)
    else if dir == "exp" then SoftResetWorld.step sw (.setExp p)
    else sw
  | ["softin", idx] => SoftResetWorld.step sw (.softIn (nat! idx))
  | ["softout", idx] => SoftResetWorld.step sw (.softOut (nat! idx))
  | ["softboth", idx] => SoftResetWorld.step sw (.softBoth (nat! idx))
  | ["softinall"] => SoftResetWorld.step sw .softInAll
  | ["softoutall"] => SoftResetWorld.step sw .softOutAll
  | ["softbothall"] => SoftResetWorld.step sw .softBothAll
  | ["refresh", idx] => SoftResetWorld.step sw (.refresh (nat! idx))
  | _ => sw

/-- the destinations a history has mentioned so far -/
def seenPfx (seen : List Nat) (ts : List String) : List Nat :=
  let add (p : Nat) := if seen.contains p then seen else seen ++ [p]
  match ts with
  | "ann" :: _ :: pfx :: _ => add (nat! pfx)
  | ["wd", _, pfx, _] => add (nat! pfx)
  | ["world", _, _] => []
  | _ => seen

open SoftResetWorld in
/-- the product model's answer to an ask, rendered exactly as the association-list model's -/
def askW (sw : SW) (seen : List Nat) (ts : List String) : Option String :=
  match ts with
  | ["view", idx] =>
    let v : ViewP := seen.filterMap (fun d => ((sw.d d).held (nat! idx)).map (fun h => (d, h)))
    some ("view" ++ showView v)
  | ["sent", idx] =>
    some ("sent" ++ showSent (seen.filter (fun d => ((sw.d d).held (nat! idx)).isSome)))
  | ["rib", pfx] =>
    some ("rib" ++ String.join (((sw.d (nat! pfx)).rib).map (fun c =>
      s!" {c.marker}/{showOpt c.med}/{showOpt c.localPref}/{showComms c.comms}")))
  | _ => none

structure Both where
  s    : S
  sw   : SoftResetWorld.SW
  seen : List Nat := []

/-- both models advance on every line; an ask is answered only when they agree -/
def stepBoth (b : Both) (ts : List String) : Both × List String :=
  let (s', outs) := step b.s ts
  let sw' := stepW b.sw ts
  let seen' := seenPfx b.seen ts
  let outs' :=
    match askW sw' seen' ts, outs with
    | some w, [a] => if w == a then [a] else ["MODELS-DISAGREE list-model: " ++ a ++ " | product-model: " ++ w]
    | _, _ => outs
  ({ s := s', sw := sw', seen := seen' }, outs')

def main : IO Unit := do
  loop (← IO.getStdin) (← IO.getStdout) ({ s := { g := ⟨0, 0⟩ }, sw := { k := { g := ⟨0, 0⟩ } } } : Both) stepBoth

end DriverC15
