import Model.GR
import Driver.Util
namespace DriverC12
open GR DriverUtil

structure St where
  p : Peer := { cfgGR := false, cfgNotif := false, cfgLL := false, deferral := 0 }

def parseFams : Nat → List String → List Fam
  | 0, _ => []
  | n + 1, ts =>
    match ts with
    | id :: en :: rest => { id := nat! id, mpCfg := b! en, mpEnabled := b! en } :: parseFams n rest
    | _ => []

def parsePairs : Nat → List String → List (Nat × Nat)
  | 0, _ => []
  | n + 1, ts =>
    match ts with
    | a :: b :: rest => (nat! a, nat! b) :: parsePairs n rest
    | _ => []

def lossOf (k code sub : Nat) : Option Loss :=
  match k with
  | 0 => some .readFail | 1 => some .writeFail | 2 => some .holdExpiry
  | 3 => some .holdExpiryWriteErr | 4 => some (.notifRecv code sub) | 5 => some (.notifRecv code sub)
  | 6 => some (.notifSent code sub) | 7 => some .adminDown | 8 => some .prefixLimit
  | _ => none

def nextOf : Nat → Option Next
  | 0 => some .idle | 1 => some .active | 2 => some .opensent | 3 => some .openconfirm
  | _ => none

def b2s (b : Bool) : String := if b then "1" else "0"

def insRoute (r : Route) : List Route → List Route
  | [] => [r]
  | x :: xs => if r.fam < x.fam || (r.fam == x.fam && r.key ≤ x.key) then r :: x :: xs else x :: insRoute r xs

def sortRoutes (l : List Route) : List Route := l.foldr insRoute []

def showFam (f : Fam) : String :=
  s!"{f.id}:{b2s f.mpEnabled}{b2s f.mpReceived}{b2s f.eor}{b2s f.running}{b2s f.llEnabled}{b2s f.llReceived}{b2s f.llExpired}{b2s f.llRunning}:{f.llTime}"

def showRoute (r : Route) : String :=
  s!"{r.fam}.{r.key}.{r.ver}.{b2s r.stale}.{r.nLL}.{b2s r.noLL}.{b2s r.rej}"

def dump (p : Peer) : String :=
  s!"est={b2s p.est} pr={b2s p.peerRestarting} lr={b2s p.localRestarting} llrun={b2s p.llRun} " ++
  s!"en={b2s p.enabled} nb={b2s p.notif} ll={b2s p.longLived} rt={p.restartTime} adv={b2s (needToAdvertise p)} | " ++
  " ".intercalate (p.fams.map showFam) ++ " | neg=[" ++ " ".intercalate (p.negotiated.map toString) ++ "] | cnt " ++
  " ".intercalate (p.fams.map (fun f => s!"{f.id}:{received p f.id}/{accepted p f.id}")) ++ " | " ++
  " ".intercalate ((sortRoutes p.rib).map showRoute)

def step (s : St) (ts : List String) : St × List String :=
  match ts with
  | "reset" :: gr :: nb :: ll :: dfr :: lr :: nf :: rest =>
    ({ p := { cfgGR := b! gr, cfgNotif := b! nb, cfgLL := b! ll, deferral := nat! dfr,
              cfgLR := b! lr, localRestarting := b! lr, fams := parseFams (nat! nf) rest } }, [])
  | "est" :: gr :: nb :: rb :: tm :: rest =>
    let (tuples, rest1) := takeList rest
    match rest1 with
    | llgr :: nl :: rest2 =>
      let (mp, rest3) := takeList (rest2.drop (2 * nat! nl))
      let (noFwd, _) := takeList rest3
      let c : Caps := { gr := b! gr, nbit := b! nb, rbit := b! rb, time := nat! tm, tuples := tuples,
                        llgr := b! llgr, ltuples := parsePairs (nat! nl) rest2, mp := mp, noFwd := noFwd }
      ({ s with p := GR.step s.p (.est c) }, [])
    | _ => (s, ["bad-op"])
  | ["loss", k, c, sc, d] =>
    -- `d`: virtual seconds the real established() needs to notice this kind of loss (session still up)
    match lossOf (nat! k) (nat! c) (nat! sc) with
    | some l => ({ s with p := GR.step (GR.step s.p (.tick (nat! d))) (.loss l) }, [])
    | none => (s, ["bad-op"])
  | ["goto", n, ad] =>
    match nextOf (nat! n) with
    | some x => ({ s with p := GR.step s.p (.goto x (b! ad)) }, [])
    | none => (s, ["bad-op"])
  | ["ann", f, k, v, nl, n, rj] => ({ s with p := GR.step s.p (.ann (nat! f) (nat! k) (nat! v) (b! nl) (nat! n) (b! rj)) }, [])
  | ["del"] => ({ s with p := GR.step s.p .del }, [])
  | ["wd", f, k] => ({ s with p := GR.step s.p (.wd (nat! f) (nat! k)) }, [])
  | ["eor", f] => ({ s with p := GR.step s.p (.eor (nat! f)) }, [])
  | ["tick", d] => ({ s with p := GR.step s.p (.tick (nat! d)) }, [])
  | ["dump"] => (s, [dump s.p])
  | ["graceful", en, nb, k, c, sc] =>
    match lossOf (nat! k) (nat! c) (nat! sc) with
    | some l => (s, [b2s (graceful (b! en) (b! nb) l)])
    | none => (s, ["bad-op"])
  | ["trigger", k, est, lr] =>
    let tr : Option Trigger := match nat! k with
      | 0 => some .routeChange | 1 => some .rtcMembership | 2 => some .routeRefresh | 3 => some .softResetOut
      | 4 => some .localAdd | 5 => some .localDelete | 6 => some .vrfPath | 7 => some .rtcWithdraw | _ => none
    match tr with
    | some t =>
      let q : Peer := { cfgGR := true, cfgNotif := false, cfgLL := false, deferral := 0, est := b! est, localRestarting := b! lr }
      (s, [b2s (sendsOn q t)])
    | none => (s, ["bad-op"])
  | ["export", pl, st] => (s, [b2s (exportWithdraws (b! pl) (b! st))])
  | [] => (s, [])
  | _ => (s, ["bad-op"])

def main : IO Unit := do
  loop (← IO.getStdin) (← IO.getStdout) ({} : St) step

end DriverC12
