import Model.As4
import Driver.Util
namespace DriverC14
open As4 DriverUtil

/-- `nseg (typ n as…)*` → segments and the remaining tokens; none on a short line -/
def parseSegsN : Nat → List String → Option (Path × List String)
  | 0, ts => some ([], ts)
  | n + 1, ts =>
    match ts with
    | typ :: cnt :: rest =>
      if rest.length < nat! cnt then none else
      let (as, rest') := takeNats (nat! cnt) rest
      match parseSegsN n rest' with
      | some (p, r) => some (⟨nat! typ, as⟩ :: p, r)
      | none => none
    | _ => none

def parseSegs (ts : List String) : Option (Path × List String) :=
  match ts with
  | n :: rest => parseSegsN (nat! n) rest
  | [] => none

def showSegs (p : Path) : String :=
  joinNats (p.length :: p.flatMap fun s => s.typ :: s.as.length :: s.as)

def hexVal (c : Char) : Nat :=
  if '0' ≤ c ∧ c ≤ '9' then c.toNat - '0'.toNat
  else if 'a' ≤ c ∧ c ≤ 'f' then c.toNat - 'a'.toNat + 10 else 0

def hexDigit (n : Nat) : Char :=
  if n < 10 then Char.ofNat ('0'.toNat + n) else Char.ofNat ('a'.toNat + n - 10)

def hexBytes : List Char → List Nat
  | a :: b :: r => (hexVal a * 16 + hexVal b) :: hexBytes r
  | _ => []

def step (_ : Unit) (ts : List String) : Unit × List String :=
  match ts with
  | "down" :: rest =>
    match parseSegs rest with
    | some (p, []) =>
      let (a2, a4) := down p
      ((), [showSegs a2 ++ " | " ++ (match a4 with | some q => showSegs q | none => "-")])
    | _ => ((), ["bad-op"])
  | "up" :: len :: rest =>
    match parseSegs rest with
    | some (a, "0" :: []) =>
      let r := upAttr ⟨nat! len, 2, a⟩ none
      ((), [showSegs r.segs ++ " len " ++ toString (attrLen r)])
    | some (a, "1" :: rest4) =>
      match parseSegs rest4 with
      | some (a4, []) =>
        let r := upAttr ⟨nat! len, 2, a⟩ (some a4)
        ((), [showSegs r.segs ++ " len " ++ toString (attrLen r)])
      | _ => ((), ["bad-op"])
    | _ => ((), ["bad-op"])
  | "downold" :: rest =>
    match parseSegs rest with
    | some (p, []) =>
      let (a2, a4) := downOld p
      ((), [showSegs a2 ++ " | " ++ (match a4 with | some q => showSegs q | none => "-")])
    | _ => ((), ["bad-op"])
  | "upold" :: len :: rest =>
    match parseSegs rest with
    | some (a, "0" :: []) =>
      let r := upAttrOld ⟨nat! len, 2, a⟩ none
      ((), [showSegs r.segs ++ " len " ++ toString (attrLen r)])
    | some (a, "1" :: rest4) =>
      match parseSegs rest4 with
      | some (a4, []) =>
        let r := upAttrOld ⟨nat! len, 2, a⟩ (some a4)
        ((), [showSegs r.segs ++ " len " ++ toString (attrLen r)])
      | _ => ((), ["bad-op"])
    | _ => ((), ["bad-op"])
  | ["aggdown", as] =>
    let (a2, a4) := aggDown (nat! as)
    ((), [toString a2 ++ " " ++ (match a4 with | some q => toString q | none => "-")])
  | ["aggup", as2, has4, as4] =>
    ((), [toString (aggUp (nat! as2) (if b! has4 then some (nat! as4) else none)) ++ " len " ++
      toString (3 + aggUpLen)])
  | ["valid", w, hex] =>
    let d := if hex == "-" then [] else hexBytes hex.toList
    ((), [if validateBytes (nat! w) d then "1" else "0"])
  | "ser" :: w :: rest =>
    match parseSegs rest with
    | some (p, []) =>
      let bs := serSegs (nat! w) p
      ((), [if bs.isEmpty then "-" else String.ofList (bs.flatMap fun b => [hexDigit (b / 16), hexDigit (b % 16)])])
    | _ => ((), ["bad-op"])
  | [] => ((), [])
  | _ => ((), ["bad-op"])

def main : IO Unit := do
  loop (← IO.getStdin) (← IO.getStdout) () step

end DriverC14
