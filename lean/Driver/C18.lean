import Model.ApiConv
import Model.ApiConvX
import Model.WireExt
import Driver.Util
/-!
  Line protocol of the C18 correspondence run (API <-> native converters).

  native attribute   ATTR  := flags typ length VAL
    VAL := o v | p NSEG SEG* | h HEX | m v | l v | a | g w4 as addr | c LIST | i addr | k LIST
         | P NSEG SEG* | G as addr | L n (a b c)* | u HEX          SEG := w4 typ num LIST
  API attribute      AATTR := U f t HEX | O o | S NSEG ASEG* | H HEX | M v | LP v | AT | AG asn HEX
         | C LIST | OI HEX | CL n HEX* | S4 NSEG ASEG* | AG4 asn HEX | LC n (a b c)* | X
                                                                    ASEG := typ LIST
    (an address text is given by the octets netip.ParseAddr yields, `-` when it does not parse)
  asks:  toapi ATTR | fromapi AATTR | attrs n ATTR* | fromattrs n AATTR*
         pfx bits HEX | frompfx len HEX | cap CAP | fromcap ACAP
-/
namespace DriverC18
open Wire ApiConv DriverUtil

def hexDigit (c : Char) : Option Nat :=
  if '0' ≤ c ∧ c ≤ '9' then some (c.toNat - '0'.toNat)
  else if 'a' ≤ c ∧ c ≤ 'f' then some (c.toNat - 'a'.toNat + 10)
  else none

def unhexAux : List Char → Option Bytes
  | [] => some []
  | a :: b :: rest =>
    match hexDigit a, hexDigit b, unhexAux rest with
    | some x, some y, some r => some ((x * 16 + y) :: r)
    | _, _, _ => none
  | _ => none

def unhex (s : String) : Option Bytes := if s == "-" then some [] else unhexAux s.toList
def hexChar (n : Nat) : Char := if n < 10 then Char.ofNat (48 + n) else Char.ofNat (87 + n)
def hex (b : Bytes) : String :=
  if b.isEmpty then "-" else String.ofList (b.flatMap fun x => [hexChar (x / 16 % 16), hexChar (x % 16)])

def commaNats (l : List Nat) : String := ",".intercalate (l.map toString)

/-! ### rendering -/

def rSeg (s : Seg) : String := s!"{if s.w4 then 4 else 2}.{s.typ}.{s.num}[{commaNats s.as}]"
def rSegs (l : List Seg) : String := ";".intercalate (l.map rSeg)
def rTriples (vs : List (Nat × Nat × Nat)) : String :=
  ",".intercalate (vs.map fun (a, b, c) => s!"{a}:{b}:{c}")

def rVal : AttrVal → String
  | .origin v => s!"origin {v}"
  | .asPath segs => s!"aspath {rSegs segs}"
  | .nextHop a => s!"nexthop {hex a}"
  | .med v => s!"med {v}"
  | .localPref v => s!"lp {v}"
  | .atomicAgg => "atomic"
  | .aggregator w as addr => s!"aggr {if w then 4 else 2} {as} {addr}"
  | .communities vs => s!"comm {commaNats vs}"
  | .originatorId a => s!"origid {a}"
  | .clusterList ids => s!"clist {commaNats ids}"
  | .as4Path segs => s!"as4path {rSegs segs}"
  | .as4Aggregator as addr => s!"as4aggr {as} {addr}"
  | .largeComm vs => s!"lcomm {rTriples vs}"
  | .unknown v => s!"unk {hex v}"

def rAttr (a : Attr) : String := "{" ++ s!"f={a.flags} t={a.typ} l={a.length} {rVal a.val}" ++ "}"

def rApiSeg (s : ApiSeg) : String := s!"{s.typ}[{commaNats s.numbers}]"
def rApiSegs (l : List ApiSeg) : String := ";".intercalate (l.map rApiSeg)

def rApi : ApiAttr → String
  | .unknown f t v => s!"Unknown {f} {t} {hex v}"
  | .origin o => s!"Origin {o}"
  | .asPath segs => s!"AsPath {rApiSegs segs}"
  | .nextHop a => s!"NextHop {hex a}"
  | .med v => s!"Med {v}"
  | .localPref v => s!"LocalPref {v}"
  | .atomicAgg => "AtomicAggregate"
  | .aggregator asn a => s!"Aggregator {asn} {hex a}"
  | .communities vs => s!"Communities {commaNats vs}"
  | .originatorId a => s!"OriginatorId {hex a}"
  | .clusterList ids => "ClusterList " ++ ",".intercalate (ids.map hex)
  | .as4Path segs => s!"As4Path {rApiSegs segs}"
  | .as4Aggregator asn a => s!"As4Aggregator {asn} {hex a}"
  | .largeComm vs => s!"LargeCommunities {rTriples vs}"
  | .unset => "Unset"

def rFam (f : ApiFamily) : String := s!"{f.afi}/{f.safi}"

def rApiCap : ApiCap → String
  | .unknown c v => s!"Unknown {c} {hex v}"
  | .multiProtocol f => s!"MultiProtocol {rFam f}"
  | .routeRefresh => "RouteRefresh"
  | .gracefulRestart fl t ts =>
    s!"GracefulRestart {fl} {t} " ++ ",".intercalate (ts.map fun (f, x) => s!"{rFam f}:{x}")
  | .fourOctetAsn a => s!"FourOctetAsn {a}"
  | .addPath ts => "AddPath " ++ ",".intercalate (ts.map fun (f, x) => s!"{rFam f}:{x}")
  | .enhancedRouteRefresh => "EnhancedRouteRefresh"
  | .llgr ts => "Llgr " ++ ",".intercalate (ts.map fun (f, x, t) => s!"{rFam f}:{x}:{t}")
  | .extendedMessage => "ExtendedMessage"
  | .unset => "Unset"

def rCap : Cap → String
  | .multiProtocol a s => s!"mp {a}/{s}"
  | .routeRefresh => "rr"
  | .extendedMessage => "extmsg"
  | .enhancedRouteRefresh => "err"
  | .fourOctetAs a => s!"as4 {a}"
  | .addPath ts => "addpath " ++ ",".intercalate (ts.map fun (a, s, m) => s!"{a}/{s}:{m}")
  | .gracefulRestart f t ts => s!"gr {f} {t} " ++ ",".intercalate (ts.map fun (a, s, m) => s!"{a}/{s}:{m}")
  | .llgr ts => "llgr " ++ ",".intercalate (ts.map fun (a, s, f, t) => s!"{a}/{s}:{f}:{t}")
  | .unknown c v => s!"unk {c} {hex v}"

/-! ### parsing -/

def pSegs : Nat → List String → Option (List Seg × List String)
  | 0, ts => some ([], ts)
  | n + 1, w :: typ :: num :: r =>
    let (as, r') := takeList r
    match pSegs n r' with
    | some (l, r'') => some (⟨b! w, nat! typ, nat! num, as⟩ :: l, r'')
    | none => none
  | _, _ => none

def pApiSegs : Nat → List String → Option (List ApiSeg × List String)
  | 0, ts => some ([], ts)
  | n + 1, typ :: r =>
    let (as, r') := takeList r
    match pApiSegs n r' with
    | some (l, r'') => some (⟨nat! typ, as⟩ :: l, r'')
    | none => none
  | _, _ => none

def pTriples : Nat → List String → Option (List (Nat × Nat × Nat) × List String)
  | 0, ts => some ([], ts)
  | n + 1, a :: b :: c :: rest =>
    match pTriples n rest with
    | some (l, r) => some ((nat! a, nat! b, nat! c) :: l, r)
    | none => none
  | _, _ => none

def pHexes : Nat → List String → Option (List Bytes × List String)
  | 0, ts => some ([], ts)
  | n + 1, h :: rest =>
    match unhex h, pHexes n rest with
    | some b, some (l, r) => some (b :: l, r)
    | _, _ => none
  | _, _ => none

def pVal : List String → Option (AttrVal × List String)
  | "o" :: v :: r => some (.origin (nat! v), r)
  | "p" :: n :: r => (pSegs (nat! n) r).map fun (s, r') => (.asPath s, r')
  | "h" :: h :: r => (unhex h).map fun b => (.nextHop b, r)
  | "m" :: v :: r => some (.med (nat! v), r)
  | "l" :: v :: r => some (.localPref (nat! v), r)
  | "a" :: r => some (.atomicAgg, r)
  | "g" :: w :: as :: addr :: r => some (.aggregator (b! w) (nat! as) (nat! addr), r)
  | "c" :: r => let (vs, r') := takeList r; some (.communities vs, r')
  | "i" :: a :: r => some (.originatorId (nat! a), r)
  | "k" :: r => let (vs, r') := takeList r; some (.clusterList vs, r')
  | "P" :: n :: r => (pSegs (nat! n) r).map fun (s, r') => (.as4Path s, r')
  | "G" :: as :: addr :: r => some (.as4Aggregator (nat! as) (nat! addr), r)
  | "L" :: n :: r => (pTriples (nat! n) r).map fun (s, r') => (.largeComm s, r')
  | "u" :: h :: r => (unhex h).map fun b => (.unknown b, r)
  | _ => none

def pAttr : List String → Option (Attr × List String)
  | f :: t :: l :: r => (pVal r).map fun (v, r') => (⟨nat! f, nat! t, nat! l, v⟩, r')
  | _ => none

def pAttrs : Nat → List String → Option (List Attr × List String)
  | 0, ts => some ([], ts)
  | n + 1, ts =>
    match pAttr ts with
    | some (a, r) => (pAttrs n r).map fun (l, r') => (a :: l, r')
    | none => none

def pApi : List String → Option (ApiAttr × List String)
  | "U" :: f :: t :: h :: r => (unhex h).map fun b => (.unknown (nat! f) (nat! t) b, r)
  | "O" :: v :: r => some (.origin (nat! v), r)
  | "S" :: n :: r => (pApiSegs (nat! n) r).map fun (s, r') => (.asPath s, r')
  | "H" :: h :: r => (unhex h).map fun b => (.nextHop b, r)
  | "M" :: v :: r => some (.med (nat! v), r)
  | "LP" :: v :: r => some (.localPref (nat! v), r)
  | "AT" :: r => some (.atomicAgg, r)
  | "AG" :: asn :: h :: r => (unhex h).map fun b => (.aggregator (nat! asn) b, r)
  | "C" :: r => let (vs, r') := takeList r; some (.communities vs, r')
  | "OI" :: h :: r => (unhex h).map fun b => (.originatorId b, r)
  | "CL" :: n :: r => (pHexes (nat! n) r).map fun (l, r') => (.clusterList l, r')
  | "S4" :: n :: r => (pApiSegs (nat! n) r).map fun (s, r') => (.as4Path s, r')
  | "AG4" :: asn :: h :: r => (unhex h).map fun b => (.as4Aggregator (nat! asn) b, r)
  | "LC" :: n :: r => (pTriples (nat! n) r).map fun (s, r') => (.largeComm s, r')
  | "X" :: r => some (.unset, r)
  | _ => none

def pApis : Nat → List String → Option (List ApiAttr × List String)
  | 0, ts => some ([], ts)
  | n + 1, ts =>
    match pApi ts with
    | some (a, r) => (pApis n r).map fun (l, r') => (a :: l, r')
    | none => none

def pT3 : Nat → List String → Option (List (Nat × Nat × Nat))
  | 0, [] => some []
  | 0, _ => none
  | n + 1, a :: b :: c :: rest => (pT3 n rest).map fun l => (nat! a, nat! b, nat! c) :: l
  | _, _ => none

def pT4 : Nat → List String → Option (List (Nat × Nat × Nat × Nat))
  | 0, [] => some []
  | 0, _ => none
  | n + 1, a :: b :: c :: d :: rest => (pT4 n rest).map fun l => (nat! a, nat! b, nat! c, nat! d) :: l
  | _, _ => none

def pCap : List String → Option Cap
  | ["mp", a, s] => some (.multiProtocol (nat! a) (nat! s))
  | ["rr"] => some .routeRefresh
  | ["extmsg"] => some .extendedMessage
  | ["err"] => some .enhancedRouteRefresh
  | ["as4", a] => some (.fourOctetAs (nat! a))
  | "addpath" :: n :: r => (pT3 (nat! n) r).map .addPath
  | "gr" :: f :: t :: n :: r => (pT3 (nat! n) r).map (.gracefulRestart (nat! f) (nat! t))
  | "llgr" :: n :: r => (pT4 (nat! n) r).map .llgr
  | ["unk", c, h] => (unhex h).map (.unknown (nat! c))
  | _ => none

def pApiCap : List String → Option ApiCap
  | ["Unknown", c, h] => (unhex h).map (.unknown (nat! c))
  | ["MultiProtocol", a, s] => some (.multiProtocol ⟨nat! a, nat! s⟩)
  | ["RouteRefresh"] => some .routeRefresh
  | "GracefulRestart" :: f :: t :: n :: r =>
    (pT3 (nat! n) r).map fun l => .gracefulRestart (nat! f) (nat! t) (l.map fun (a, s, x) => (⟨a, s⟩, x))
  | ["FourOctetAsn", a] => some (.fourOctetAsn (nat! a))
  | "AddPath" :: n :: r => (pT3 (nat! n) r).map fun l => .addPath (l.map fun (a, s, x) => (⟨a, s⟩, x))
  | ["EnhancedRouteRefresh"] => some .enhancedRouteRefresh
  | "Llgr" :: n :: r => (pT4 (nat! n) r).map fun l => .llgr (l.map fun (a, s, x, t) => (⟨a, s⟩, x, t))
  | ["ExtendedMessage"] => some .extendedMessage
  | ["Unset"] => some .unset
  | _ => none

def rFrom (r : Option Attr) : String :=
  match r with
  | none => "err"
  | some a => s!"ok {rAttr a} wire={hex (encAttr a)} len={attrLen a}"


/-! ### second group: extended communities, IPv6 extended communities, MP_REACH / MP_UNREACH.
    The canonical rendering of these values IS their description syntax (one token stream):
    EXT   := ec2 st as la tr | ecip st addr la tr | ec4 st as la tr | val s | lbw as bw | col c | enc t | dgw
           | opq tr HEX | esil label single | esim HEX | macm seq sticky | rmac HEX | unk t HEX | noapi HEX
    IP6   := s st HEX la tr | r HEX la | u t HEX
    RD    := r2 a n | rip a n | r4 a n            NLRI := ip bits HEX | lb LIST bits HEX | vp LIST RD bits HEX
    XATTR := flags typ length ( E n EXT* | E6 n IP6* | R afi safi NH LL n (id NLRI)* | N afi safi n (id NLRI)* )
    API:  AEXT := Ec2 tr st asn la | Ecip tr st HEX la | Ec4 tr st asn la | Val s | Lbw asn bw | Col c | Enc t | Dgw
           | Opq tr HEX | Esil single label | Esim HEX | Macm sticky seq | Rmac HEX | Unk t HEX | Xe
          AIP6 := S tr st HEX la | R HEX la | X6     ARD := R2 a n | Rip HEX n | R4 a n | Xr
          ANLRI := Pf len HEX | Lp LIST len HEX | Lv LIST ARD len HEX | Xn
          AXATTR := AE n AEXT* | AE6 n AIP6* | AR afi safi k HEX* n ANLRI* | AN afi safi n ANLRI* -/

def bS (b : Bool) : String := if b then "1" else "0"
def lS (l : List Nat) : String := " ".intercalate (toString l.length :: l.map toString)

def rExt : ExtComm → String
  | .twoOctetAs st as la tr => s!"ec2 {st} {as} {la} {bS tr}"
  | .ipv4 st a la tr => s!"ecip {st} {a} {la} {bS tr}"
  | .fourOctetAs st as la tr => s!"ec4 {st} {as} {la} {bS tr}"
  | .validation x => s!"val {x}"
  | .linkBandwidth as bw => s!"lbw {as} {bw}"
  | .color c => s!"col {c}"
  | .encap t => s!"enc {t}"
  | .defaultGateway => "dgw"
  | .opaque tr v => s!"opq {bS tr} {hex v}"
  | .esiLabel l sa => s!"esil {l} {bS sa}"
  | .esImport m => s!"esim {hex m}"
  | .macMobility q st => s!"macm {q} {bS st}"
  | .routerMac m => s!"rmac {hex m}"
  | .unknown t v => s!"unk {t} {hex v}"
  | .noApiMessage o => s!"noapi {hex o}"

def pExt : List String → Option (ExtComm × List String)
  | "ec2" :: st :: as :: la :: tr :: r => some (.twoOctetAs (nat! st) (nat! as) (nat! la) (b! tr), r)
  | "ecip" :: st :: a :: la :: tr :: r => some (.ipv4 (nat! st) (nat! a) (nat! la) (b! tr), r)
  | "ec4" :: st :: as :: la :: tr :: r => some (.fourOctetAs (nat! st) (nat! as) (nat! la) (b! tr), r)
  | "val" :: x :: r => some (.validation (nat! x), r)
  | "lbw" :: as :: bw :: r => some (.linkBandwidth (nat! as) (nat! bw), r)
  | "col" :: c :: r => some (.color (nat! c), r)
  | "enc" :: t :: r => some (.encap (nat! t), r)
  | "dgw" :: r => some (.defaultGateway, r)
  | "opq" :: tr :: h :: r => (unhex h).map fun b => (.opaque (b! tr) b, r)
  | "esil" :: l :: sa :: r => some (.esiLabel (nat! l) (b! sa), r)
  | "esim" :: h :: r => (unhex h).map fun b => (.esImport b, r)
  | "macm" :: q :: st :: r => some (.macMobility (nat! q) (b! st), r)
  | "rmac" :: h :: r => (unhex h).map fun b => (.routerMac b, r)
  | "unk" :: t :: h :: r => (unhex h).map fun b => (.unknown (nat! t) b, r)
  | "noapi" :: h :: r => (unhex h).map fun b => (.noApiMessage b, r)
  | _ => none

def rApiExt : ApiExtComm → String
  | .twoOctetAs tr st as la => s!"Ec2 {bS tr} {st} {as} {la}"
  | .ipv4 tr st a la => s!"Ecip {bS tr} {st} {hex a} {la}"
  | .fourOctetAs tr st as la => s!"Ec4 {bS tr} {st} {as} {la}"
  | .validation x => s!"Val {x}"
  | .linkBandwidth as bw => s!"Lbw {as} {bw}"
  | .color c => s!"Col {c}"
  | .encap t => s!"Enc {t}"
  | .defaultGateway => "Dgw"
  | .opaque tr v => s!"Opq {bS tr} {hex v}"
  | .esiLabel sa l => s!"Esil {bS sa} {l}"
  | .esImport m => s!"Esim {hex m}"
  | .macMobility st q => s!"Macm {bS st} {q}"
  | .routerMac m => s!"Rmac {hex m}"
  | .unknown t v => s!"Unk {t} {hex v}"
  | .unset => "Xe"

def pApiExt : List String → Option (ApiExtComm × List String)
  | "Ec2" :: tr :: st :: as :: la :: r => some (.twoOctetAs (b! tr) (nat! st) (nat! as) (nat! la), r)
  | "Ecip" :: tr :: st :: h :: la :: r => (unhex h).map fun b => (.ipv4 (b! tr) (nat! st) b (nat! la), r)
  | "Ec4" :: tr :: st :: as :: la :: r => some (.fourOctetAs (b! tr) (nat! st) (nat! as) (nat! la), r)
  | "Val" :: x :: r => some (.validation (nat! x), r)
  | "Lbw" :: as :: bw :: r => some (.linkBandwidth (nat! as) (nat! bw), r)
  | "Col" :: c :: r => some (.color (nat! c), r)
  | "Enc" :: t :: r => some (.encap (nat! t), r)
  | "Dgw" :: r => some (.defaultGateway, r)
  | "Opq" :: tr :: h :: r => (unhex h).map fun b => (.opaque (b! tr) b, r)
  | "Esil" :: sa :: l :: r => some (.esiLabel (b! sa) (nat! l), r)
  | "Esim" :: h :: r => (unhex h).map fun b => (.esImport b, r)
  | "Macm" :: st :: q :: r => some (.macMobility (b! st) (nat! q), r)
  | "Rmac" :: h :: r => (unhex h).map fun b => (.routerMac b, r)
  | "Unk" :: t :: h :: r => (unhex h).map fun b => (.unknown (nat! t) b, r)
  | "Xe" :: r => some (.unset, r)
  | _ => none

def rIp6 : Ip6ExtComm → String
  | .specific st a la tr => s!"s {st} {hex a} {la} {bS tr}"
  | .redirect a la => s!"r {hex a} {la}"
  | .unknown t v => s!"u {t} {hex v}"
def pIp6 : List String → Option (Ip6ExtComm × List String)
  | "s" :: st :: h :: la :: tr :: r => (unhex h).map fun b => (.specific (nat! st) b (nat! la) (b! tr), r)
  | "r" :: h :: la :: r => (unhex h).map fun b => (.redirect b (nat! la), r)
  | "u" :: t :: h :: r => (unhex h).map fun b => (.unknown (nat! t) b, r)
  | _ => none
def rApiIp6 : ApiIp6ExtComm → String
  | .specific tr st a la => s!"S {bS tr} {st} {hex a} {la}"
  | .redirect a la => s!"R {hex a} {la}"
  | .unset => "X6"
def pApiIp6 : List String → Option (ApiIp6ExtComm × List String)
  | "S" :: tr :: st :: h :: la :: r => (unhex h).map fun b => (.specific (b! tr) (nat! st) b (nat! la), r)
  | "R" :: h :: la :: r => (unhex h).map fun b => (.redirect b (nat! la), r)
  | "X6" :: r => some (.unset, r)
  | _ => none

def rRd : Rd → String
  | .twoOctet a n => s!"r2 {a} {n}"
  | .ipv4 a n => s!"rip {a} {n}"
  | .fourOctet a n => s!"r4 {a} {n}"
def pRd : List String → Option (Rd × List String)
  | "r2" :: a :: n :: r => some (.twoOctet (nat! a) (nat! n), r)
  | "rip" :: a :: n :: r => some (.ipv4 (nat! a) (nat! n), r)
  | "r4" :: a :: n :: r => some (.fourOctet (nat! a) (nat! n), r)
  | _ => none
def rApiRd : ApiRd → String
  | .twoOctet a n => s!"R2 {a} {n}"
  | .ipAddress a n => s!"Rip {hex a} {n}"
  | .fourOctet a n => s!"R4 {a} {n}"
  | .unset => "Xr"
def pApiRd : List String → Option (ApiRd × List String)
  | "R2" :: a :: n :: r => some (.twoOctet (nat! a) (nat! n), r)
  | "Rip" :: h :: n :: r => (unhex h).map fun b => (.ipAddress b (nat! n), r)
  | "R4" :: a :: n :: r => some (.fourOctet (nat! a) (nat! n), r)
  | "Xr" :: r => some (.unset, r)
  | _ => none

def rNlriX : Nlri → String
  | .ip bits a => s!"ip {bits} {hex a}"
  | .labeled ls bits a => s!"lb {lS ls} {bits} {hex a}"
  | .vpn ls rd bits a => s!"vp {lS ls} {rRd rd} {bits} {hex a}"
def pNlriX : List String → Option (Nlri × List String)
  | "ip" :: bits :: h :: r => (unhex h).map fun b => (.ip (nat! bits) b, r)
  | "lb" :: r =>
    match takeList r with
    | (ls, bits :: h :: r') => (unhex h).map fun b => (.labeled ls (nat! bits) b, r')
    | _ => none
  | "vp" :: r =>
    match takeList r with
    | (ls, r1) =>
      match pRd r1 with
      | some (rd, bits :: h :: r') => (unhex h).map fun b => (.vpn ls rd (nat! bits) b, r')
      | _ => none
  | _ => none
def rApiNlri : ApiNlri → String
  | .pfx len a => s!"Pf {len} {hex a}"
  | .labeledPrefix ls len a => s!"Lp {lS ls} {len} {hex a}"
  | .labeledVpn ls rd len a => s!"Lv {lS ls} {rApiRd rd} {len} {hex a}"
  | .unset => "Xn"
def pApiNlri : List String → Option (ApiNlri × List String)
  | "Pf" :: len :: h :: r => (unhex h).map fun b => (.pfx (nat! len) b, r)
  | "Lp" :: r =>
    match takeList r with
    | (ls, len :: h :: r') => (unhex h).map fun b => (.labeledPrefix ls (nat! len) b, r')
    | _ => none
  | "Lv" :: r =>
    match takeList r with
    | (ls, r1) =>
      match pApiRd r1 with
      | some (rd, len :: h :: r') => (unhex h).map fun b => (.labeledVpn ls rd (nat! len) b, r')
      | _ => none
  | "Xn" :: r => some (.unset, r)
  | _ => none

def pMany {α} (f : List String → Option (α × List String)) : Nat → List String → Option (List α × List String)
  | 0, ts => some ([], ts)
  | n + 1, ts =>
    match f ts with
    | some (a, r) => (pMany f n r).map fun (l, r') => (a :: l, r')
    | none => none

def pIdNlri : List String → Option ((Nat × Nlri) × List String)
  | id :: r => (pNlriX r).map fun (n, r') => ((nat! id, n), r')
  | _ => none

def joinS (l : List String) : String := " ".intercalate l
def cnt {α} (l : List α) (f : α → String) : String := joinS (toString l.length :: l.map f)

def rXVal : XVal → String
  | .extComms l => s!"E {cnt l rExt}"
  | .ip6ExtComms l => s!"E6 {cnt l rIp6}"
  | .mpReach afi safi nh ll ns => s!"R {afi} {safi} {hex nh} {hex ll} {cnt ns fun p => s!"{p.1} {rNlriX p.2}"}"
  | .mpUnreach afi safi ns => s!"N {afi} {safi} {cnt ns fun p => s!"{p.1} {rNlriX p.2}"}"
def rXAttr (a : XAttr) : String := s!"{a.flags} {a.typ} {a.length} {rXVal a.val}"

def pXVal : List String → Option (XVal × List String)
  | "E" :: n :: r => (pMany pExt (nat! n) r).map fun (l, r') => (.extComms l, r')
  | "E6" :: n :: r => (pMany pIp6 (nat! n) r).map fun (l, r') => (.ip6ExtComms l, r')
  | "R" :: afi :: safi :: nh :: ll :: n :: r =>
    match unhex nh, unhex ll, pMany pIdNlri (nat! n) r with
    | some a, some b, some (l, r') => some (.mpReach (nat! afi) (nat! safi) a b l, r')
    | _, _, _ => none
  | "N" :: afi :: safi :: n :: r => (pMany pIdNlri (nat! n) r).map fun (l, r') => (.mpUnreach (nat! afi) (nat! safi) l, r')
  | _ => none
def pXAttr : List String → Option (XAttr × List String)
  | f :: t :: l :: r => (pXVal r).map fun (v, r') => (⟨nat! f, nat! t, nat! l, v⟩, r')
  | _ => none

def rApiX : ApiXAttr → String
  | .extComms l => s!"AE {cnt l rApiExt}"
  | .ip6ExtComms l => s!"AE6 {cnt l rApiIp6}"
  | .mpReach f nhs ns => s!"AR {f.afi} {f.safi} {cnt nhs hex} {cnt ns rApiNlri}"
  | .mpUnreach f ns => s!"AN {f.afi} {f.safi} {cnt ns rApiNlri}"
def pApiX : List String → Option (ApiXAttr × List String)
  | "AE" :: n :: r => (pMany pApiExt (nat! n) r).map fun (l, r') => (.extComms l, r')
  | "AE6" :: n :: r => (pMany pApiIp6 (nat! n) r).map fun (l, r') => (.ip6ExtComms l, r')
  | "AR" :: afi :: safi :: k :: r =>
    match pHexes (nat! k) r with
    | some (nhs, n :: r1) => (pMany pApiNlri (nat! n) r1).map fun (l, r') => (.mpReach ⟨nat! afi, nat! safi⟩ nhs l, r')
    | _ => none
  | "AN" :: afi :: safi :: n :: r => (pMany pApiNlri (nat! n) r).map fun (l, r') => (.mpUnreach ⟨nat! afi, nat! safi⟩ l, r')
  | _ => none

def rXFrom (r : Option XAttr) : String :=
  match r with
  | none => "err"
  | some a => s!"ok {rXAttr a} wire={hex (encXAttr a)} len={xattrLen a}"


/-! ### api.Path level: `tpath isVrf del afi safi NLRI age wd peerAsn PID PADDR ext niw rid lid best stale n (c ATTR | x XATTR)*`
    answers apiutil2Path followed by toPathApiUtil -/
def pAny : List String → Option (AnyAttr × List String)
  | "c" :: r => (pAttr r).map fun (a, r') => (.core a, r')
  | "x" :: r => (pXAttr r).map fun (a, r') => (.x a, r')
  | _ => none

def encAny : AnyAttr → Bytes
  | .core a => encAttr a
  | .x a => encXAttr a

def rUPath (u : UPath) : String :=
  s!"ok {u.afi} {u.safi} {rNlriX u.nlri} {u.age} {bS u.withdrawal} {u.peerAsn} {hex u.peerId} {hex u.peerAddress} " ++
  s!"{bS u.isFromExternal} {bS u.noImplicitWithdraw} {u.remoteId} {u.localId} {bS u.best} {bS u.stale} " ++
  s!"{bS u.isNexthopInvalid} {bS u.sendMaxFiltered} {bS u.filtered} A=" ++ ",".intercalate (u.attrs.map fun a => hex (encAny a))

def pTPath : List String → Option (Bool × Bool × UPath)
  | vrf :: del :: afi :: safi :: r =>
    match pNlriX r with
    | some (n, age :: wd :: asn :: pid :: paddr :: ext :: niw :: rid :: lid :: best :: stale :: k :: r1) =>
      match unhex pid, unhex paddr, pMany pAny (nat! k) r1 with
      | some a, some b, some (attrs, []) =>
        some (b! vrf, b! del, ⟨nat! afi, nat! safi, n, nat! age, b! best, attrs, b! stale, b! wd, nat! asn, a, b,
          b! ext, b! niw, false, false, false, none, nat! rid, nat! lid⟩)
      | _, _, _ => none
    | _ => none
  | _ => none

def step (s : Unit) (ts : List String) : Unit × List String :=
  match ts with
  | "toapi" :: rest =>
    match pAttr rest with
    | some (a, []) => (s, [rApi (toApiAttr a)])
    | _ => (s, ["bad-op"])
  | "fromapi" :: rest =>
    match pApi rest with
    | some (a, []) => (s, [rFrom (fromApiAttr a)])
    | _ => (s, ["bad-op"])
  | "attrs" :: n :: rest =>
    match pAttrs (nat! n) rest with
    | some (l, []) =>
      match fromApiAttrs (toApiAttrs l) with
      | none => (s, ["err"])
      | some r => (s, ["ok " ++ " ".intercalate (r.map rAttr) ++ " wire=" ++ hex (encAttrs r)])
    | _ => (s, ["bad-op"])
  | "fromattrs" :: n :: rest =>
    match pApis (nat! n) rest with
    | some (l, []) =>
      match fromApiAttrs l with
      | none => (s, ["err"])
      | some r => (s, ["ok " ++ " ".intercalate (r.map rAttr)])
    | _ => (s, ["bad-op"])
  | ["pfx", bits, h] =>
    match unhex h with
    | some b =>
      let a := toApiPrefix ⟨nat! bits, b⟩
      (s, [s!"Prefix {a.prefixLen} {hex a.addr}"])
    | none => (s, ["bad-op"])
  | ["frompfx", len, h] =>
    match unhex h with
    | some b =>
      match fromApiPrefix ⟨nat! len, b⟩ with
      | none => (s, ["err"])
      | some p => (s, [s!"ok {p.bits}/{hex p.addr} wire={hex (encPrefix p)}"])
    | none => (s, ["bad-op"])
  | "cap" :: rest =>
    match pCap rest with
    | some c => (s, [rApiCap (toApiCap c)])
    | none => (s, ["bad-op"])
  | "fromcap" :: rest =>
    match pApiCap rest with
    | some a =>
      match fromApiCap a with
      | none => (s, ["err"])
      | some c => (s, [s!"ok {rCap c} wire={hex (encCap c)}"])
    | none => (s, ["bad-op"])
  | "xtoapi" :: rest =>
    match pXAttr rest with
    | some (a, []) =>
      match toApiX a with
      | some x => (s, [rApiX x])
      | none => (s, ["marshal-error"])
    | _ => (s, ["bad-op"])
  | "xfromapi" :: rest =>
    match pApiX rest with
    | some (a, []) => (s, [rXFrom (fromApiX a)])
    | _ => (s, ["bad-op"])
  | ["xdec", h] =>
    match unhex h with
    | some b =>
      match WireExt.decExt b with
      | .ok e => (s, [s!"ok {rExt e}"])
      | .other => (s, ["other"])
      | .err => (s, ["err"])
    | none => (s, ["bad-op"])
  | ["xdecs", h] =>
    match unhex h with
    | some b =>
      match WireExt.decExts b with
      | none => (s, ["err"])
      | some l => (s, [s!"ok {l.length}" ++ String.join (l.map fun x => match x with
          | some e => " | " ++ rExt e
          | none => " | other")])
    | none => (s, ["bad-op"])
  | ["x6dec", h] =>
    match unhex h with
    | some b =>
      match WireExt.decIp6Ext b with
      | some e => (s, [s!"ok {rIp6 e}"])
      | none => (s, ["err"])
    | none => (s, ["bad-op"])
  | ["x6decs", h] =>
    match unhex h with
    | some b =>
      match WireExt.decIp6Exts b with
      | none => (s, ["err"])
      | some l => (s, [s!"ok {l.length}" ++ String.join (l.map fun e => " | " ++ rIp6 e)])
    | none => (s, ["bad-op"])
  | "tpath" :: rest =>
    match pTPath rest with
    | some (vrf, del, u) =>
      match apiutil2table vrf del u with
      | some t => (s, [rUPath (table2apiutil t)])
      | none => (s, ["err"])
    | none => (s, ["bad-op"])
  | [] => (s, [])
  | _ => (s, ["bad-op"])

def main : IO Unit := do
  loop (← IO.getStdin) (← IO.getStdout) () step

end DriverC18
