import Model.ApiConv
import Driver.Util
/-!
  Line protocol of the C18 correspondence run (API <-> native converters).

  native attribute   ATTR  := flags typ length VAL
    VAL := o v | p NSEG SEG* | h HEX | m v | l v | a | g w4 as addr | c LIST | i addr | k LIST
         | P NSEG SEG* | G as addr | L n (a b c)* | u HEX          SEG := w4 typ num LIST
  API attribute      AATTR := U f t HEX | O o | S NSEG ASEG* | H HEX | M v | LP v | AT | AG asn HEX
         | C LIST | OI HEX | CL n HEX* | S4 NSEG ASEG* | AG4 asn HEX | LC n (a b c)* | X
                                                                    ASEG := typ LIST
    (an address text is given by the octets netip.ParseAddr yields, `-` when it does not parse)
  asks:  toapi ATTR | fromapi AATTR | attrs n ATTR* | fromattrs n AATTR*
         pfx bits HEX | frompfx len HEX | cap CAP | fromcap ACAP
-/
namespace DriverC18
open Wire ApiConv DriverUtil

def hexDigit (c : Char) : Option Nat :=
  if '0' ≤ c ∧ c ≤ '9' then some (c.toNat - '0'.toNat)
  else if 'a' ≤ c ∧ c ≤ 'f' then some (c.toNat - 'a'.toNat + 10)
  else none

def unhexAux : List Char → Option Bytes
  | [] => some []
  | a :: b :: rest =>
    match hexDigit a, hexDigit b, unhexAux rest with
    | some x, some y, some r => some ((x * 16 + y) :: r)
    | _, _, _ => none
  | _ => none

def unhex (s : String) : Option Bytes := if s == "-" then some [] else unhexAux s.toList
def hexChar (n : Nat) : Char := if n < 10 then Char.ofNat (48 + n) else Char.ofNat (87 + n)
def hex (b : Bytes) : String :=
  if b.isEmpty then "-" else String.ofList (b.flatMap fun x => [hexChar (x / 16 % 16), hexChar (x % 16)])

def commaNats (l : List Nat) : String := ",".intercalate (l.map toString)

/-! ### rendering -/

def rSeg (s : Seg) : String := s!"{if s.w4 then 4 else 2}.{s.typ}.{s.num}[{commaNats s.as}]"
def rSegs (l : List Seg) : String := ";".intercalate (l.map rSeg)
def rTriples (vs : List (Nat × Nat × Nat)) : String :=
  ",".intercalate (vs.map fun (a, b, c) => s!"{a}:{b}:{c}")

def rVal : AttrVal → String
  | .origin v => s!"origin {v}"
  | .asPath segs => s!"aspath {rSegs segs}"
  | .nextHop a => s!"nexthop {hex a}"
  | .med v => s!"med {v}"
  | .localPref v => s!"lp {v}"
  | .atomicAgg => "atomic"
  | .aggregator w as addr => s!"aggr {if w then 4 else 2} {as} {addr}"
  | .communities vs => s!"comm {commaNats vs}"
  | .originatorId a => s!"origid {a}"
  | .clusterList ids => s!"clist {commaNats ids}"
  | .as4Path segs => s!"as4path {rSegs segs}"
  | .as4Aggregator as addr => s!"as4aggr {as} {addr}"
  | .largeComm vs => s!"lcomm {rTriples vs}"
  | .unknown v => s!"unk {hex v}"

def rAttr (a : Attr) : String := "{" ++ s!"f={a.flags} t={a.typ} l={a.length} {rVal a.val}" ++ "}"

def rApiSeg (s : ApiSeg) : String := s!"{s.typ}[{commaNats s.numbers}]"
def rApiSegs (l : List ApiSeg) : String := ";".intercalate (l.map rApiSeg)

def rApi : ApiAttr → String
  | .unknown f t v => s!"Unknown {f} {t} {hex v}"
  | .origin o => s!"Origin {o}"
  | .asPath segs => s!"AsPath {rApiSegs segs}"
  | .nextHop a => s!"NextHop {hex a}"
  | .med v => s!"Med {v}"
  | .localPref v => s!"LocalPref {v}"
  | .atomicAgg => "AtomicAggregate"
  | .aggregator asn a => s!"Aggregator {asn} {hex a}"
  | .communities vs => s!"Communities {commaNats vs}"
  | .originatorId a => s!"OriginatorId {hex a}"
  | .clusterList ids => "ClusterList " ++ ",".intercalate (ids.map hex)
  | .as4Path segs => s!"As4Path {rApiSegs segs}"
  | .as4Aggregator asn a => s!"As4Aggregator {asn} {hex a}"
  | .largeComm vs => s!"LargeCommunities {rTriples vs}"
  | .unset => "Unset"

def rFam (f : ApiFamily) : String := s!"{f.afi}/{f.safi}"

def rApiCap : ApiCap → String
  | .unknown c v => s!"Unknown {c} {hex v}"
  | .multiProtocol f => s!"MultiProtocol {rFam f}"
  | .routeRefresh => "RouteRefresh"
  | .gracefulRestart fl t ts =>
    s!"GracefulRestart {fl} {t} " ++ ",".intercalate (ts.map fun (f, x) => s!"{rFam f}:{x}")
  | .fourOctetAsn a => s!"FourOctetAsn {a}"
  | .addPath ts => "AddPath " ++ ",".intercalate (ts.map fun (f, x) => s!"{rFam f}:{x}")
  | .enhancedRouteRefresh => "EnhancedRouteRefresh"
  | .llgr ts => "Llgr " ++ ",".intercalate (ts.map fun (f, x, t) => s!"{rFam f}:{x}:{t}")
  | .extendedMessage => "ExtendedMessage"
  | .unset => "Unset"

def rCap : Cap → String
  | .multiProtocol a s => s!"mp {a}/{s}"
  | .routeRefresh => "rr"
  | .extendedMessage => "extmsg"
  | .enhancedRouteRefresh => "err"
  | .fourOctetAs a => s!"as4 {a}"
  | .addPath ts => "addpath " ++ ",".intercalate (ts.map fun (a, s, m) => s!"{a}/{s}:{m}")
  | .gracefulRestart f t ts => s!"gr {f} {t} " ++ ",".intercalate (ts.map fun (a, s, m) => s!"{a}/{s}:{m}")
  | .llgr ts => "llgr " ++ ",".intercalate (ts.map fun (a, s, f, t) => s!"{a}/{s}:{f}:{t}")
  | .unknown c v => s!"unk {c} {hex v}"

/-! ### parsing -/

def pSegs : Nat → List String → Option (List Seg × List String)
  | 0, ts => some ([], ts)
  | n + 1, w :: typ :: num :: r =>
    let (as, r') := takeList r
    match pSegs n r' with
    | some (l, r'') => some (⟨b! w, nat! typ, nat! num, as⟩ :: l, r'')
    | none => none
  | _, _ => none

def pApiSegs : Nat → List String → Option (List ApiSeg × List String)
  | 0, ts => some ([], ts)
  | n + 1, typ :: r =>
    let (as, r') := takeList r
    match pApiSegs n r' with
    | some (l, r'') => some (⟨nat! typ, as⟩ :: l, r'')
    | none => none
  | _, _ => none

def pTriples : Nat → List String → Option (List (Nat × Nat × Nat) × List String)
  | 0, ts => some ([], ts)
  | n + 1, a :: b :: c :: rest =>
    match pTriples n rest with
    | some (l, r) => some ((nat! a, nat! b, nat! c) :: l, r)
    | none => none
  | _, _ => none

def pHexes : Nat → List String → Option (List Bytes × List String)
  | 0, ts => some ([], ts)
  | n + 1, h :: rest =>
    match unhex h, pHexes n rest with
    | some b, some (l, r) => some (b :: l, r)
    | _, _ => none
  | _, _ => none

def pVal : List String → Option (AttrVal × List String)
  | "o" :: v :: r => some (.origin (nat! v), r)
  | "p" :: n :: r => (pSegs (nat! n) r).map fun (s, r') => (.asPath s, r')
  | "h" :: h :: r => (unhex h).map fun b => (.nextHop b, r)
  | "m" :: v :: r => some (.med (nat! v), r)
  | "l" :: v :: r => some (.localPref (nat! v), r)
  | "a" :: r => some (.atomicAgg, r)
  | "g" :: w :: as :: addr :: r => some (.aggregator (b! w) (nat! as) (nat! addr), r)
  | "c" :: r => let (vs, r') := takeList r; some (.communities vs, r')
  | "i" :: a :: r => some (.originatorId (nat! a), r)
  | "k" :: r => let (vs, r') := takeList r; some (.clusterList vs, r')
  | "P" :: n :: r => (pSegs (nat! n) r).map fun (s, r') => (.as4Path s, r')
  | "G" :: as :: addr :: r => some (.as4Aggregator (nat! as) (nat! addr), r)
  | "L" :: n :: r => (pTriples (nat! n) r).map fun (s, r') => (.largeComm s, r')
  | "u" :: h :: r => (unhex h).map fun b => (.unknown b, r)
  | _ => none

def pAttr : List String → Option (Attr × List String)
  | f :: t :: l :: r => (pVal r).map fun (v, r') => (⟨nat! f, nat! t, nat! l, v⟩, r')
  | _ => none

def pAttrs : Nat → List String → Option (List Attr × List String)
  | 0, ts => some ([], ts)
  | n + 1, ts =>
    match pAttr ts with
    | some (a, r) => (pAttrs n r).map fun (l, r') => (a :: l, r')
    | none => none

def pApi : List String → Option (ApiAttr × List String)
  | "U" :: f :: t :: h :: r => (unhex h).map fun b => (.unknown (nat! f) (nat! t) b, r)
  | "O" :: v :: r => some (.origin (nat! v), r)
  | "S" :: n :: r => (pApiSegs (nat! n) r).map fun (s, r') => (.asPath s, r')
  | "H" :: h :: r => (unhex h).map fun b => (.nextHop b, r)
  | "M" :: v :: r => some (.med (nat! v), r)
  | "LP" :: v :: r => some (.localPref (nat! v), r)
  | "AT" :: r => some (.atomicAgg, r)
  | "AG" :: asn :: h :: r => (unhex h).map fun b => (.aggregator (nat! asn) b, r)
  | "C" :: r => let (vs, r') := takeList r; some (.communities vs, r')
  | "OI" :: h :: r => (unhex h).map fun b => (.originatorId b, r)
  | "CL" :: n :: r => (pHexes (nat! n) r).map fun (l, r') => (.clusterList l, r')
  | "S4" :: n :: r => (pApiSegs (nat! n) r).map fun (s, r') => (.as4Path s, r')
  | "AG4" :: asn :: h :: r => (unhex h).map fun b => (.as4Aggregator (nat! asn) b, r)
  | "LC" :: n :: r => (pTriples (nat! n) r).map fun (s, r') => (.largeComm s, r')
  | "X" :: r => some (.unset, r)
  | _ => none

def pApis : Nat → List String → Option (List ApiAttr × List String)
  | 0, ts => some ([], ts)
  | n + 1, ts =>
    match pApi ts with
    | some (a, r) => (pApis n r).map fun (l, r') => (a :: l, r')
    | none => none

def pT3 : Nat → List String → Option (List (Nat × Nat × Nat))
  | 0, [] => some []
  | 0, _ => none
  | n + 1, a :: b :: c :: rest => (pT3 n rest).map fun l => (nat! a, nat! b, nat! c) :: l
  | _, _ => none

def pT4 : Nat → List String → Option (List (Nat × Nat × Nat × Nat))
  | 0, [] => some []
  | 0, _ => none
  | n + 1, a :: b :: c :: d :: rest => (pT4 n rest).map fun l => (nat! a, nat! b, nat! c, nat! d) :: l
  | _, _ => none

def pCap : List String → Option Cap
  | ["mp", a, s] => some (.multiProtocol (nat! a) (nat! s))
  | ["rr"] => some .routeRefresh
  | ["extmsg"] => some .extendedMessage
  | ["err"] => some .enhancedRouteRefresh
  | ["as4", a] => some (.fourOctetAs (nat! a))
  | "addpath" :: n :: r => (pT3 (nat! n) r).map .addPath
  | "gr" :: f :: t :: n :: r => (pT3 (nat! n) r).map (.gracefulRestart (nat! f) (nat! t))
  | "llgr" :: n :: r => (pT4 (nat! n) r).map .llgr
  | ["unk", c, h] => (unhex h).map (.unknown (nat! c))
  | _ => none

def pApiCap : List String → Option ApiCap
  | ["Unknown", c, h] => (unhex h).map (.unknown (nat! c))
  | ["MultiProtocol", a, s] => some (.multiProtocol ⟨nat! a, nat! s⟩)
  | ["RouteRefresh"] => some .routeRefresh
  | "GracefulRestart" :: f :: t :: n :: r =>
    (pT3 (nat! n) r).map fun l => .gracefulRestart (nat! f) (nat! t) (l.map fun (a, s, x) => (⟨a, s⟩, x))
  | ["FourOctetAsn", a] => some (.fourOctetAsn (nat! a))
  | "AddPath" :: n :: r => (pT3 (nat! n) r).map fun l => .addPath (l.map fun (a, s, x) => (⟨a, s⟩, x))
  | ["EnhancedRouteRefresh"] => some .enhancedRouteRefresh
  | "Llgr" :: n :: r => (pT4 (nat! n) r).map fun l => .llgr (l.map fun (a, s, x, t) => (⟨a, s⟩, x, t))
  | ["ExtendedMessage"] => some .extendedMessage
  | ["Unset"] => some .unset
  | _ => none

def rFrom (r : Option Attr) : String :=
  match r with
  | none => "err"
  | some a => s!"ok {rAttr a} wire={hex (encAttr a)} len={attrLen a}"

def step (s : Unit) (ts : List String) : Unit × List String :=
  match ts with
  | "toapi" :: rest =>
    match pAttr rest with
    | some (a, []) => (s, [rApi (toApiAttr a)])
    | _ => (s, ["bad-op"])
  | "fromapi" :: rest =>
    match pApi rest with
    | some (a, []) => (s, [rFrom (fromApiAttr a)])
    | _ => (s, ["bad-op"])
  | "attrs" :: n :: rest =>
    match pAttrs (nat! n) rest with
    | some (l, []) =>
      match fromApiAttrs (toApiAttrs l) with
      | none => (s, ["err"])
      | some r => (s, ["ok " ++ " ".intercalate (r.map rAttr) ++ " wire=" ++ hex (encAttrs r)])
    | _ => (s, ["bad-op"])
  | "fromattrs" :: n :: rest =>
    match pApis (nat! n) rest with
    | some (l, []) =>
      match fromApiAttrs l with
      | none => (s, ["err"])
      | some r => (s, ["ok " ++ " ".intercalate (r.map rAttr)])
    | _ => (s, ["bad-op"])
  | ["pfx", bits, h] =>
    match unhex h with
    | some b =>
      let a := toApiPrefix ⟨nat! bits, b⟩
      (s, [s!"Prefix {a.prefixLen} {hex a.addr}"])
    | none => (s, ["bad-op"])
  | ["frompfx", len, h] =>
    match unhex h with
    | some b =>
      match fromApiPrefix ⟨nat! len, b⟩ with
      | none => (s, ["err"])
      | some p => (s, [s!"ok {p.bits}/{hex p.addr} wire={hex (encPrefix p)}"])
    | none => (s, ["bad-op"])
  | "cap" :: rest =>
    match pCap rest with
    | some c => (s, [rApiCap (toApiCap c)])
    | none => (s, ["bad-op"])
  | "fromcap" :: rest =>
    match pApiCap rest with
    | some a =>
      match fromApiCap a with
      | none => (s, ["err"])
      | some c => (s, [s!"ok {rCap c} wire={hex (encCap c)}"])
    | none => (s, ["bad-op"])
  | [] => (s, [])
  | _ => (s, ["bad-op"])

def main : IO Unit := do
  loop (← IO.getStdin) (← IO.getStdout) () step

end DriverC18
