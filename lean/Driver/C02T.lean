import Model.Table
import Driver.Util
/-
Line protocol of the C02 table-level correspondence run (harness: zz_verif_c02t_test.go).
A prefix is three tokens `fam len hex` (hex = the 4 or 16 address octets).

  key fam len hex K                     register tableKey(prefix) = K (decimal uint64)
  src i a                               source i has address-string class a (views are given as classes)
  mpdiff T                              → `u=<paths> w=<paths>`: Update.GetMultiBestPathDiff of the LAST ann / wd on table T
  multi T fam len hex                   → the multipath set of the destination (`nil` when there is none)
  mbests T                              → TableManager.GetBestMultiPathList, one set per destination, sorted
  adjdrop n T1 … Tn                     AdjRib.Drop on the families of tables T1 … Tn
  adjstale n T1 … Tn                    AdjRib.StaleAll on those families
  adjdropstale n T1 … Tn                AdjRib.DropStale on those families
  new T mode                            (re)create table T empty; mode 0 = Loc-RIB table, 1 = Adj-RIB table
  ann T fam len hex src rid rank tag rej attr lid0   (attr: the community; lid0: the local id the path OBJECT carries when it is handed in, 0 for a new object)
  mchg T                                → the multipath report of GetChanges for the LAST ann / wd on table T: `nil`, the new set, or `W:<path>` when the set became empty
  wd  T fam len hex src rid dropped
  get T fam len hex                     → destination or `nil`
  list T                                → `n=<k>` + destinations sorted
  paths T view                          → all paths (`GetKnownPathList`), sorted
  bests T view                          → best path per destination, sorted
  info T view                           → `numDestination numPath numCollision`
  adjinfo T                             → `numDestination numPath accepted` (AdjRib.TableInfo)
  sel T view adj best nq (opt fam len hex)*   → `c=<collisions of the result> n=<k>` + destinations sorted
                                          opt 0 exact, 1 longer, 2 shorter, 3 host address
-/
namespace DriverC02T
open Tbl DriverUtil

structure Reg where
  fam : Nat
  len : Nat
  bits : List Bool
  key : Nat

structure Tab where
  id : Nat
  adj : Bool
  d : Dests TDest
  accepted : Int
  lastOld : List TPath := []
  lastNew : List TPath := []

structure St where
  reg : List Reg := []
  tabs : List Tab := []
  srcs : List (Nat × Nat) := []

def hexVal (c : Char) : Nat :=
  if '0' ≤ c ∧ c ≤ '9' then c.toNat - '0'.toNat
  else if 'a' ≤ c ∧ c ≤ 'f' then c.toNat - 'a'.toNat + 10
  else 0

def nibbleBits (n : Nat) : List Bool :=
  [n / 8 % 2 == 1, n / 4 % 2 == 1, n / 2 % 2 == 1, n % 2 == 1]

def parsePfx (fam len hex : String) : Pfx :=
  let bits := (hex.toList.flatMap (fun c => nibbleBits (hexVal c))).take (nat! len)
  ⟨nat! fam, bits⟩

/-- the hash induced by the registered keys; an unregistered prefix (only ever probed, never
    stored) falls into the first registered bucket — by the theorems it makes no difference -/
def hashOf (reg : List Reg) (p : Pfx) : Nat :=
  let n := p.bits.length
  match reg.find? (fun e => e.len == n && e.fam == p.fam && e.bits == p.bits) with
  | some e => e.key
  | none => match reg with
    | e :: _ => e.key
    | [] => 0

def sortStr (l : List String) : List String := l.mergeSort (fun a b => !(b < a))

def pathStr (x : TPath) : String := s!"{x.src}.{x.rid}.{x.tag}.{x.lid}"

def pfxStr (fam len hex : String) : String := fam ++ "/" ++ len ++ "/" ++ hex

/-- render a `Pfx` back to the harness's `fam/len/hex` (address octets, zero padded) -/
def bitsHex (fam : Nat) (bits : List Bool) : String :=
  let total := if fam == 6 then 128 else 32
  let padded := bits ++ List.replicate (total - bits.length) false
  let rec go (l : List Bool) (fuel : Nat) : List Char :=
    match fuel with
    | 0 => []
    | f + 1 =>
      match l with
      | a :: b :: c :: d :: r =>
        let v := (if a then 8 else 0) + (if b then 4 else 0) + (if c then 2 else 0) + (if d then 1 else 0)
        (if v < 10 then Char.ofNat (48 + v) else Char.ofNat (87 + v)) :: go r f
      | _ => []
  String.ofList (go padded 32)

def pfxShow (p : Pfx) : String := s!"{p.fam}/{p.bits.length}/{bitsHex p.fam p.bits}"

def destStr (e : Pfx × TDest) : String :=
  pfxShow e.1 ++ "=" ++ ",".intercalate (e.2.paths.map pathStr)

def listing (es : List (Pfx × TDest)) : String :=
  s!"n={es.length} " ++ " ".intercalate (sortStr (es.map destStr))

def findTab (s : St) (id : Nat) : Option Tab := s.tabs.find? (·.id == id)

def putTab (s : St) (t : Tab) : St := { s with tabs := t :: s.tabs.filter (·.id != t.id) }

/-- the Adj-RIB tables as the model's multi-family Adj-RIB-In, and back -/
def adjView (s : St) : AdjRibM := (s.tabs.filter (·.adj)).map (fun t => (t.id, (t.d, t.accepted)))

def putAdj (s : St) (a : AdjRibM) : St := a.foldl (fun s x => putTab s { id := x.1, adj := true, d := x.2.1, accepted := x.2.2 }) s

def parseQueries : Nat → List String → Option (List (Lookup × Pfx))
  | 0, [] => some []
  | 0, _ => none
  | n + 1, opt :: fam :: len :: hex :: rest =>
    let o : Option Lookup := match opt with
      | "0" => some .exact | "1" => some .longer | "2" => some .shorter | "3" => some .host | _ => none
    match o, parseQueries n rest with
    | some o, some qs => some ((o, parsePfx fam len hex) :: qs)
    | _, _ => none
  | _ + 1, _ => none

def step (s : St) (ts : List String) : St × List String :=
  let h := hashOf s.reg
  match ts with
  | ["key", fam, len, hex, k] =>
    let p := parsePfx fam len hex
    ({ s with reg := ⟨p.fam, p.bits.length, p.bits, nat! k⟩ :: s.reg }, [])
  | ["src", i, a] => ({ s with srcs := (nat! i, nat! a) :: s.srcs }, [])
  | "adjdrop" :: rest => (putAdj s (adjRibDrop (takeList rest).1 (adjView s)), [])
  | "adjstale" :: rest => (putAdj s (adjRibStaleAll (takeList rest).1 (adjView s)), [])
  | "adjdropstale" :: rest => (putAdj s (adjRibDropStale h (takeList rest).1 (adjView s)), [])
  | ["new", t, mode] => (putTab s { id := nat! t, adj := mode == "1", d := [], accepted := 0 }, [])
  | ["mchg", t] =>
    match findTab s (nat! t) with
    | none => (s, ["bad-op"])
    | some tb =>
      match multiReport tb.lastOld tb.lastNew with
      | none => (s, ["nil"])
      | some [] => (s, ["W:" ++ ",".intercalate ((tb.lastOld.take 1).map pathStr)])
      | some m => (s, ["m=" ++ ",".intercalate (m.map pathStr)])
  | ["ann", t, fam, len, hex, src, rid, rank, tag, rej, attr, lid0] =>
    match findTab s (nat! t) with
    | none => (s, ["bad-op"])
    | some tb =>
      let p := parsePfx fam len hex
      let a := ((s.srcs.find? (·.1 == nat! src)).map (·.2)).getD 0
      let op := TOp.ann { src := nat! src, rid := nat! rid, rank := nat! rank, tag := nat! tag, lid := nat! lid0, rej := b! rej, addr := a, attr := nat! attr }
      if tb.adj then
        let old := ((get h tb.d p).getD (adjOps.fresh p))
        (putTab s { tb with d := update adjOps h tb.d p op, accepted := tb.accepted + adjAccDelta old op }, [])
      else
        let d' := update locOps h tb.d p op
        (putTab s { tb with d := d', lastOld := ((get h tb.d p).map (·.paths)).getD [],
                            lastNew := ((get h d' p).map (·.paths)).getD [] }, [])
  | ["wd", t, fam, len, hex, src, rid, dropped] =>
    match findTab s (nat! t) with
    | none => (s, ["bad-op"])
    | some tb =>
      let p := parsePfx fam len hex
      let op := TOp.wd (nat! src) (nat! rid) (b! dropped)
      if tb.adj then
        let old := ((get h tb.d p).getD (adjOps.fresh p))
        (putTab s { tb with d := update adjOps h tb.d p op, accepted := tb.accepted + adjAccDelta old op }, [])
      else
        let d' := update locOps h tb.d p op
        (putTab s { tb with d := d', lastOld := ((get h tb.d p).map (·.paths)).getD [],
                            lastNew := ((get h d' p).map (·.paths)).getD [] }, [])
  | ["get", t, fam, len, hex] =>
    match findTab s (nat! t) with
    | none => (s, ["bad-op"])
    | some tb =>
      let p := parsePfx fam len hex
      match get h tb.d p with
      | none => (s, ["nil"])
      | some d => (s, [destStr (p, d)])
  | ["mpdiff", t] =>
    match findTab s (nat! t) with
    | none => (s, ["bad-op"])
    | some tb =>
      let r := mpDiff tb.lastOld tb.lastNew
      (s, ["u=" ++ ",".intercalate (r.1.map pathStr) ++ " w=" ++ ",".intercalate (r.2.map pathStr)])
  | ["multi", t, fam, len, hex] =>
    match findTab s (nat! t) with
    | none => (s, ["bad-op"])
    | some tb =>
      match get h tb.d (parsePfx fam len hex) with
      | none => (s, ["nil"])
      | some d => (s, ["m=" ++ ",".intercalate ((multiBest d.paths).map pathStr)])
  | ["mbests", t] =>
    match findTab s (nat! t) with
    | none => (s, ["bad-op"])
    | some tb =>
      let l := (entries tb.d).map (fun e =>
        if e.2.paths.isEmpty then "empty" else pfxShow e.1 ++ "=" ++ ",".intercalate ((multiBest e.2.paths).map pathStr))
      (s, [s!"n={l.length} " ++ " ".intercalate (sortStr l)])
  | ["list", t] =>
    match findTab s (nat! t) with
    | none => (s, ["bad-op"])
    | some tb => (s, [listing (entries tb.d)])
  | ["paths", t, view] =>
    match findTab s (nat! t) with
    | none => (s, ["bad-op"])
    | some tb =>
      let l := (allPaths (viewPaths (nat! view)) tb.d).map (fun e => pfxShow e.1 ++ "=" ++ pathStr e.2)
      (s, [s!"n={l.length} " ++ " ".intercalate (sortStr l)])
  | ["bests", t, view] =>
    match findTab s (nat! t) with
    | none => (s, ["bad-op"])
    | some tb =>
      let l := (bests (fun d => (viewPaths (nat! view) d).head?) tb.d).map (fun e => pfxShow e.1 ++ "=" ++ pathStr e.2)
      (s, [s!"n={l.length} " ++ " ".intercalate (sortStr l)])
  | ["info", t, view] =>
    match findTab s (nat! t) with
    | none => (s, ["bad-op"])
    | some tb =>
      let i := info (fun d => (viewPaths (nat! view) d).length) tb.d
      (s, [s!"{i.numDestination} {i.numPath} {i.numCollision}"])
  | ["adjinfo", t] =>
    match findTab s (nat! t) with
    | none => (s, ["bad-op"])
    | some tb =>
      let i := info (fun d => d.paths.length) tb.d
      (s, [s!"{i.numDestination} {i.numPath} {tb.accepted}"])
  | "sel" :: t :: view :: adj :: best :: nq :: rest =>
    match findTab s (nat! t), parseQueries (nat! nq) rest with
    | some tb, some qs =>
      let r := select h tb.d (tsel ⟨nat! view, b! adj, b! best⟩) qs
      let i := info (fun d => d.paths.length) r
      (s, [s!"c={i.numCollision} " ++ listing (entries r)])
    | _, _ => (s, ["bad-op"])
  | [] => (s, [])
  | _ => (s, ["bad-op"])

def main : IO Unit := do
  let stdin ← IO.getStdin
  let stdout ← IO.getStdout
  loop stdin stdout ({} : St) step

end DriverC02T
