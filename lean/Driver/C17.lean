import Model.VrfRtc
import Model.VrfRtcMgr
import Driver.Util
namespace DriverC17
open VrfRtc DriverUtil

structure St where
  vrfs  : List (Nat × Vrf) := []
  paths : List VPath := []
  tbl   : Tbl := Tbl.empty
  rtms  : List (Nat × Rtm) := []
  lastOld : List VPath := []
  lastNew : List VPath := []
  /-- locally originated RT-membership routes of the manager (AddVrf / DeleteVrf) -/
  mgr : Mgr := Mgr.empty
  /-- peers toward which updates are deferred -/
  sup : List Nat := []

def findPath (s : St) (uid : String) : Option VPath := s.paths.find? (·.uid == nat! uid)
def findVrf (s : St) (id : String) : Option Vrf := (s.vrfs.find? (·.1 == nat! id)).map (·.2)
def rtmOf (s : St) (peer : Nat) : Rtm := ((s.rtms.find? (·.1 == peer)).map (·.2)).getD []
def setRtm (s : St) (peer : Nat) (r : Rtm) : St :=
  { s with rtms := (peer, r) :: s.rtms.filter (·.1 != peer) }

def b2s (b : Bool) : String := if b then "1" else "0"

/-- insertion sort on a numeric key -/
def insertBy (k : α → Nat) (x : α) : List α → List α
  | [] => [x]
  | y :: r => if k x ≤ k y then x :: y :: r else y :: insertBy k x r
def sortBy (k : α → Nat) (l : List α) : List α := l.foldr (insertBy k) []

def msgKey : Msg → Nat
  | .adv n _ => (n.1 * 1000000 + n.2) * 2 + 1
  | .wd n => (n.1 * 1000000 + n.2) * 2
def showMsg : Msg → String
  | .adv n m => s!"A {n.1} {n.2} {m}"
  | .wd n => s!"W {n.1} {n.2}"
def showMsgs (l : List Msg) : String :=
  if l.isEmpty then "-" else ";".intercalate ((sortBy msgKey l).map showMsg)

def lmsgKey : LMsg → Nat
  | .adv n _ => n * 2 + 1
  | .wd n => n * 2
def showLMsg : LMsg → String
  | .adv n m => s!"A {n} {m}"
  | .wd n => s!"W {n}"
def showLMsgs (l : List LMsg) : String :=
  if l.isEmpty then "-" else ";".intercalate ((sortBy lmsgKey l).map showLMsg)

def showNats (l : List Nat) : String := if l.isEmpty then "-" else joinNats l

def step (s : St) (ts : List String) : St × List String :=
  match ts with
  | ["reset"] => ({ s with tbl := Tbl.empty, rtms := [], lastOld := [], lastNew := [], vrfs := [], mgr := Mgr.empty, paths := [], sup := [] }, [])
  | ["ec", e] =>
    let x := nat! e
    (s, [b2s (isTransitive x) ++ " " ++ (match rtKey x with | some k => toString k | none => "-")])
  | "vrf" :: id :: rd :: label :: rest =>
    let (imp, rest') := takeList rest
    let (exp, _) := takeList rest'
    match mkVrf (nat! id) (nat! rd) imp exp with
    | some v =>
      let v' := { v with label := nat! label }
      ({ s with vrfs := (nat! id, v') :: s.vrfs.filter (·.1 != nat! id) }, ["ok"])
    | none => (s, ["err"])
  | "path" :: uid :: root :: src :: pid :: rd :: pfx :: label :: pref :: marker :: rest =>
    let (ecs, _) := takeList rest
    let p : VPath := { uid := nat! uid, root := nat! root, src := nat! src, pathId := nat! pid, rd := nat! rd, pfx := nat! pfx,
                       label := nat! label, pref := nat! pref, marker := nat! marker, ecs := ecs }
    ({ s with paths := p :: s.paths.filter (·.uid != p.uid) }, [])
  | ["canimp", v, uid] =>
    match findVrf s v, findPath s uid with
    | some vr, some p => (s, [b2s (canImport vr p.ecs)])
    | _, _ => (s, ["bad-op"])
  | ["tolocal", uid] =>
    match findPath s uid with
    | some p => let l := toLocal p; (s, [s!"{l.pfx} {l.pathId} {l.marker} {showNats l.ecs}"])
    | none => (s, ["bad-op"])
  | "toglobal" :: v :: pfx :: marker :: rest =>
    let (ecs, _) := takeList rest
    match findVrf s v with
    | some vr =>
      let g := toGlobal vr { uid := 0, root := 0, src := 0, pathId := 0, pfx := nat! pfx, pref := 0, marker := nat! marker, ecs := ecs }
      (s, [s!"{g.rd} {g.pfx} {g.label} {g.marker} {showNats g.ecs}"])
    | none => (s, ["bad-op"])
  | ["upd", uid, wd] =>
    match findPath s uid with
    | some p =>
      let oldL := s.tbl.dest p.nlri
      let t' := s.tbl.update p (b! wd)
      ({ s with tbl := t', lastOld := oldL, lastNew := t'.dest p.nlri }, [])
    | none => (s, ["bad-op"])
  | ["dest", rd, pfx] => (s, [showNats ((s.tbl.dest (nat! rd, nat! pfx)).map (·.marker))])
  | ["idx", k] => (s, [showNats (sortBy id ((s.tbl.idx.byRT (nat! k)).map (·.marker)))])
  | ["idxsize"] => (s, [toString s.tbl.idx.length])
  | ["sel", v, rd, pfx] =>
    match findVrf s v with
    | some vr => (s, [showNats ((vrfSelect vr (s.tbl.dest (nat! rd, nat! pfx))).map (·.marker))])
    | none => (s, ["bad-op"])
  | ["vinfo", v] =>
    match findVrf s v with
    | some vr => let r := vrfInfo s.tbl vr; (s, [s!"{r.1} {r.2}"])
    | none => (s, ["bad-op"])
  | ["delvrfpaths", v] =>
    match findVrf s v with
    | some vr =>
      let ps := delVrfPaths s.tbl vr
      let t' := s.tbl.withdrawAll ps
      -- with a single withdrawn route the per-peer `chg` / `cechg` questions refer to its destination
      let (lo, ln) := match ps with
        | [p] => (s.tbl.dest p.nlri, t'.dest p.nlri)
        | _ => ([], [])
      ({ s with tbl := t', lastOld := lo, lastNew := ln }, [showNats (sortBy id (ps.map (·.marker)))])
    | none => (s, ["bad-op"])
  | ["mem", peer, rt, as, pid, wd] =>
    let r := rtmOf s (nat! peer)
    let m : Mem := ⟨nat! rt, nat! as, nat! pid⟩
    let r' := r.sync m (b! wd)
    (setRtm s (nat! peer) r', [b2s (r.has m.rt) ++ " " ++ b2s (r'.has m.rt) ++ " " ++ b2s (r'.has 0)])
  | ["has", peer, k] => (s, [b2s ((rtmOf s (nat! peer)).has (nat! k))])
  | ["memreset", peer] => (setRtm s (nat! peer) [], [])
  | ["interested", peer, uid] =>
    match findPath s uid with
    | some p => (s, [b2s (interested (rtmOf s (nat! peer)) p.ecs)])
    | none => (s, ["bad-op"])
  | ["rtc", peer, rt, as, pid, wd, eor] =>
    let r := rtmOf s (nat! peer)
    let res := rtcStepSup s.tbl r (b! eor) ⟨nat! rt, nat! as, nat! pid⟩ (b! wd) (s.sup.contains (nat! peer))
    (setRtm s (nat! peer) res.1, [showMsgs res.2])
  | ["chg", peer] =>
    if s.sup.contains (nat! peer) then (s, ["-"])
    else (s, [showMsgs (onTableChange (rtmOf s (nat! peer)) s.lastOld s.lastNew)])
  | ["suspend", peer] => ({ s with sup := nat! peer :: s.sup }, [])
  | ["resume", peer] =>
    ({ s with sup := s.sup.filter (· != nat! peer) }, [showMsgs (catchUp s.tbl (rtmOf s (nat! peer)))])
  | ["cechg", v] =>
    match findVrf s v with
    | some vr => (s, [showLMsgs (ceOnTableChange vr s.lastOld s.lastNew)])
    | none => (s, ["bad-op"])
  | ["addvrf", v] =>
    match findVrf s v with
    | some vr => ({ s with mgr := s.mgr.addVrf vr }, [showNats (addVrfRtm vr)])
    | none => (s, ["bad-op"])
  | ["delvrf", v] =>
    let r := s.mgr.delVrf (nat! v)
    ({ s with mgr := r.1 }, [showNats (sortBy id r.2)])
  | ["mrecv", k, src, pref, wd] =>
    ({ s with mgr := s.mgr.recv (nat! k) ⟨nat! src, nat! pref⟩ (b! wd) }, [])
  | ["rdest", k] => (s, [showNats ((s.mgr.rtc (nat! k)).map (·.src))])
  | ["rlocal", k] => (s, [b2s (scanLocal (s.mgr.rtc (nat! k)))])
  | [] => (s, [])
  | _ => (s, ["bad-op"])

def main : IO Unit := do
  loop (← IO.getStdin) (← IO.getStdout) ({} : St) step

end DriverC17
