import Model.RouteServer
import Driver.World
import Driver.Util
/- line-protocol driver for the route-server world (C01RS); same vocabulary as Driver/World.lean
   plus `rsrib <pfx>` (the shared route-server table) and `rsbest <idx> <pfx>` (the
   client-specific best path) -/
namespace DriverC01RS
open BestPath World RouteServer DriverUtil DriverWorld

def step (s : S) (ts : List String) : S × List String :=
  match ts with
  | ["world", as, rid] => ({ base := { g := ⟨nat! as, nat! rid⟩ } }, [])
  | ["opts", a, b, c] => ({ s with base := { s.base with opts := ⟨b! a, b! b, b! c⟩ } }, [])
  | ["peer", idx, kind, as, rid, addr, sendMax, apRx, allowOwn] =>
    let cfg : PeerCfg := { idx := nat! idx, kind := kindOf kind, as := nat! as, rid := nat! rid, addr := nat! addr,
                           sendMax := nat! sendMax, addPathRx := b! apRx, allowOwnAs := nat! allowOwn }
    (RouteServer.step s (.add cfg), [])
  | ["up", idx] => (RouteServer.step s (.up (nat! idx)), [])
  | ["down", idx] => (RouteServer.step s (.down (nat! idx)), [])
  | "ann" :: idx :: rest =>
    match parseRoute rest with
    | some r => (RouteServer.step s (.ann (nat! idx) r), [])
    | none => (s, ["bad-op"])
  | ["wd", idx, pfx, pid] => (RouteServer.step s (.wd (nat! idx) (nat! pfx) (nat! pid)), [])
  | "ladd" :: rest =>
    match parseRoute rest with
    | some r => (RouteServer.step s (.localAdd r), [])
    | none => (s, ["bad-op"])
  | ["ldel", pfx, pid] => (RouteServer.step s (.localDel (nat! pfx) (nat! pid)), [])
  | ["del", idx] => (RouteServer.step s (.del (nat! idx)), [])
  | ["view", idx] =>
    match s.base.peer? (nat! idx) with
    | some ps => (s, ["view" ++ showView ps.view])
    | none => (s, ["bad-op"])
  | ["adjin", idx] =>
    match s.base.peer? (nat! idx) with
    | some ps => (s, ["adjin" ++ showAdj ps.adj])
    | none => (s, ["bad-op"])
  | ["rib", pfx] =>
    (s, ["rib" ++ String.join ((s.base.ribOf (nat! pfx)).map (fun c => s!" {c.marker}"))])
  | ["rsrib", pfx] =>
    (s, ["rsrib" ++ String.join ((s.rsRibOf (nat! pfx)).map (fun c => s!" {c.marker}"))])
  | ["rsbest", idx, pfx] =>
    match s.base.peer? (nat! idx) with
    | some ps =>
      (s, ["rsbest " ++ (match clientBest ps.cfg (s.rsRibOf (nat! pfx)) with
                         | some c => toString c.marker
                         | none => "-")])
    | none => (s, ["bad-op"])
  | [] => (s, [])
  | _ => (s, ["bad-op"])

def main : IO Unit := do
  loop (← IO.getStdin) (← IO.getStdout) ({ base := { g := ⟨0, 0⟩ } } : S) step

end DriverC01RS
