import Model.Fsm
import Driver.Util
namespace DriverC07
open Fsm DriverUtil

structure DSt where
  cfg : Cfg := ⟨0, 0, 0, 0, 0, 0, 0⟩
  s   : St := {}

def connStr : Conn → String
  | .p => "p" | .x => "x" | .o => "o"

def isTrans : Out → Bool
  | .trans .. => true
  | .deleted _ => true
  | _ => false

def outStr : Out → String
  | .open c t => s!"{connStr c}:open@{t}"
  | .ka c t => s!"{connStr c}:ka@{t}"
  | .notif c a b t => s!"{connStr c}:notif-{a}-{b}@{t}"
  | .close c t => s!"{connStr c}:close@{t}"
  | .trans a b adm t => s!"{a.num}>{b.num}/{adm.num}@{t}"
  | .deleted t => s!"deleted@{t}"

def onConn (k : Conn) : Out → Bool
  | .open c _ => c == k
  | .ka c _ => c == k
  | .notif c _ _ _ => c == k
  | .close c _ => c == k
  | _ => false

/-- messages per connection in their order; connections in the fixed order p, x, o (what is
    written on different connections is observed by different readers, so only the order on each
    connection is defined) -/
def render (s : St) (outs : List Out) : String :=
  let ms := (outs.filter (onConn .p) ++ outs.filter (onConn .x) ++ outs.filter (onConn .o)).map outStr
  let ts := (outs.filter isTrans).map outStr
  "out=[" ++ " ".intercalate ms ++ "] st=[" ++ " ".intercalate ts ++ "] fsm=" ++
    (if s.deleted then "gone" else toString s.st.num) ++ " admin=" ++ toString s.admin.num ++
    " rib=" ++ toString s.rib ++
    (if s.st = .established ∧ !s.deleted then " peer=" ++ toString s.remoteAS else "")

/-- layout of the optional parameters in one token: parameters separated by `|`; `u` a
    non-capability parameter; `c:` a capability parameter with its capabilities separated by
    `,`: `a<value>` the 4-octet-AS capability, anything else another capability; `-` no parameter -/
def parseCap (t : String) : Cap :=
  if t.startsWith "a" then .as4 (nat! (t.drop 1).toString) else .other

def parseParam (t : String) : OptParam :=
  if t.startsWith "c:" then
    .caps ((((t.drop 2).toString.splitOn ",").filter (· ≠ "")).map parseCap)
  else .unknown

def parseLayout (t : String) : List OptParam :=
  if t == "-" then [] else ((t.splitOn "|").filter (· ≠ "")).map parseParam

/-- an OPEN in wire form: version, My-AS field, parameter layout, identifier, hold time -/
def parseWire : List String → Option OpenWire
  | [v, my, lay, i, h] => some ⟨nat! v, nat! my, parseLayout lay, nat! i, nat! h⟩
  | _ => none

def parseOpen (ts : List String) : Option OpenMsg := (parseWire ts).map OpenWire.toMsg

def parseEv : List String → Option Ev
  | ["connect"] => some .connect
  | "outgoing" :: r => (parseOpen r).map .outgoing
  | "open" :: r => (parseOpen r).map .open
  | ["keepalive"] => some .keepalive
  | ["update", n] => some (.update (nat! n))
  | ["refresh"] => some .refresh
  | ["notification"] => some .notification
  | ["badheader", k] => some (.badHeader (nat! k))
  | ["close"] => some .close
  | ["connlost", k] => some (.connLost (nat! k))
  | ["tick", t] => some (.tick (nat! t))
  | ["enable"] => some .enable
  | ["disable"] => some .disable
  | ["shutdown"] => some .shutdown
  | ["reset"] => some .reset
  | ["delete"] => some .delete
  | _ => none

def step (d : DSt) (ts : List String) : DSt × List String :=
  match ts with
  | ["cfg", las, lid, pas, hold, ka, iar, pl] =>
    ({ cfg := ⟨nat! las, nat! lid, nat! pas, nat! hold, nat! ka, nat! iar, nat! pl⟩, s := Fsm.init }, [])
  | "ev" :: r =>
    match parseEv r with
    | some e =>
      let (s', outs) := Fsm.step d.cfg d.s e
      ({ d with s := s' }, [render s' outs])
    | none => (d, ["bad-op"])
  | ["dom", lid, las, rid, my, lay] =>
    let ras := getASN ⟨4, nat! my, parseLayout lay, nat! rid, 0⟩
    (d, [if dominant (nat! lid) (nat! las) (nat! rid) ras then "1" else "0"])
  | "vopen" :: las :: lid :: pas :: r =>
    match parseOpen r with
    | some o =>
      (d, [match validateOpen ⟨nat! las, nat! lid, nat! pas, 0, 0, 0, 0⟩ o with
           | none => "ok"
           | some sub => s!"2-{sub}"])
    | none => (d, ["bad-op"])
  | "collide" :: path :: las :: lid :: pas :: r =>
    -- two OPENs in wire form (5 tokens each): the accepted connection's, then the outgoing one's
    match parseOpen (r.take 5), parseOpen (r.drop 5) with
    | some inc, some out =>
      let c : Cfg := ⟨nat! las, nat! lid, nat! pas, 0, 0, 0, 0⟩
      let res := if path == "incoming-first" then collideIncomingFirst c inc out
                 else collideOutgoingFirst c inc out
      (d, [match res with
           | .session k o => s!"session {connStr k} hold={o.hold} id={o.id}"
           | .refused sub => s!"refused 2-{sub}"])
    | _, _ => (d, ["bad-op"])
  | "pfxedit" :: r =>
    -- families of one UpdatePeer edit, three numbers each: count oldMax newMax
    let rec fams : List String → List FamEdit
      | c :: o :: n :: rest => ⟨nat! c, nat! o, nat! n⟩ :: fams rest
      | _ => []
    (d, [if pfxEditShuts false (fams r) then "cease-6-1" else "stays"])
  | ["wirenotif", gl, nl, pg, pn, code, sub] =>
    let (a, b) := convertNotification (nNegotiated (b! gl) (b! nl) (b! pg) (b! pn)) (nat! code) (nat! sub)
    (d, [s!"{a}-{b}"])
  | ["hdr", k] => (d, [s!"1-{hdrSub (nat! k)}"])
  | ["edge", a, b] =>
    -- b = 99 encodes the dying marker -1 (ends the loop, no transition)
    (d, [match S.ofNum (nat! a), S.ofNum (nat! b) with
         | some x, some y => if allowedEdge x y then "1" else "0"
         | some _, none => if nat! b = 99 then "1" else "0"
         | _, _ => "0"])
  | ["edges", a] =>
    (d, [match S.ofNum (nat! a) with
         | some x => joinNats (([S.idle, .active, .opensent, .openconfirm, .established].filter
                        (allowedEdge x)).map S.num)
         | none => "none"])
  | [] => (d, [])
  | _ => (d, ["bad-op"])

def main : IO Unit := do
  loop (← IO.getStdin) (← IO.getStdout) ({} : DSt) step

end DriverC07
