import Driver.World
namespace DriverC02
def main : IO Unit := DriverWorld.main
end DriverC02
