import Model.Regex
import Model.CommMatch
import Driver.Util
namespace DriverC13
open Regex CommMatch DriverUtil

def hexVal (c : Char) : Nat :=
  if '0' ≤ c ∧ c ≤ '9' then c.toNat - 48 else if 'a' ≤ c ∧ c ≤ 'f' then c.toNat - 87 else 0

def unhexL : List Char → List Nat
  | a :: b :: rest => (hexVal a * 16 + hexVal b) :: unhexL rest
  | _ => []

def unhex (s : String) : List Nat := if s == "-" then [] else unhexL s.toList

def hexDigit (n : Nat) : Char := if n < 10 then Char.ofNat (48 + n) else Char.ofNat (87 + n)

def tohex (s : List Nat) : String :=
  if s.isEmpty then "-" else String.ofList (s.flatMap (fun c => [hexDigit (c / 16), hexDigit (c % 16)]))

structure St where
  wk : List (Str × Nat) := []
  sets : List (Nat × CSet) := []
  xsets : List (Nat × XSet) := []

def bstr (b : Bool) : String := if b then "1" else "0"

/-- status of a pattern source: "ok" | "err" | "nofrag" -/
def status (p : Str) : String :=
  match parse p with
  | .ok _ => "ok"
  | .err => "err"
  | .nofrag => "nofrag"

def worst (ss : List String) : String :=
  if ss.contains "nofrag" then "nofrag" else if ss.contains "err" then "err" else "ok"

def bits (bm : Option (Nat → Bool)) (probes : List Nat) : String :=
  match bm with
  | none => "-"
  | some f => if probes.isEmpty then "e" else String.ofList (probes.map (fun l => if f l then '1' else '0'))

def takeStrs (n : Nat) (ts : List String) : List Str × List String :=
  ((ts.take n).map unhex, ts.drop n)

def takeStrList (ts : List String) : List Str × List String :=
  match ts with
  | [] => ([], [])
  | n :: rest => takeStrs (nat! n) rest

def parseECs : Nat → List String → List EC
  | 0, _ => []
  | n + 1, ts =>
    match ts with
    | kind :: sub :: tr :: a :: l :: tx :: rest =>
      (if kind == "0" then EC.two (nat! sub) (b! tr) (nat! a) (nat! l)
       else EC.other (nat! sub) (b! tr) (unhex tx)) :: parseECs n rest
    | _ => []

def takeECs (ts : List String) : List EC :=
  match ts with
  | [] => []
  | n :: rest => parseECs (nat! n) rest

def parseTriples : List Nat → List Str
  | g :: a :: b :: rest => renderLarge g a b :: parseTriples rest
  | _ => []

def prepXs (wk : List (Str × Nat)) (raws : List Str) : Option (List (Nat × Str)) :=
  raws.mapM (prepExt wk)

def step (s : St) (ts : List String) : St × List String :=
  match ts with
  | ["wk", name, v] => ({ s with wk := s.wk ++ [(unhex name, nat! v)] }, [])
  | ["rx", p, t] =>
    match matchString (unhex p) (unhex t) with
    | .ok b => (s, [bstr b])
    | .err => (s, ["err"])
    | .nofrag => (s, ["nofrag"])
  | "cm" :: raw :: rest =>
    let p := prep s.wk (unhex raw)
    let (probes, _) := takeList rest
    match status p with
    | "ok" =>
      let m := compile p 0
      (s, [s!"{tohex p} {m.mode} {match m.listIndex with | some i => toString i | none => "-1"} {m.asn} {m.exact} {bits m.bm probes}"])
    | st => (s, [st])
  | "ev" :: opt :: rest =>
    let (raws, rest2) := takeStrList rest
    let (cs, _) := takeList rest2
    let ps := raws.map (prep s.wk)
    match worst (ps.map status) with
    | "ok" => (s, [bstr (evaluate (nat! opt) (CSet.build ps) cs)])
    | st => (s, [st])
  | "set" :: id :: rest =>
    let (raws, _) := takeStrList rest
    let ps := raws.map (prep s.wk)
    ({ s with sets := (nat! id, CSet.build ps) :: s.sets.filter (·.1 != nat! id) }, [])
  | ["edit", id, kind, id2] =>
    match s.sets.find? (·.1 == nat! id), s.sets.find? (·.1 == nat! id2) with
    | some a, some b =>
      let e := if kind == "0" then Edit.append b.2.list else if kind == "1" then Edit.remove b.2.list else Edit.replace b.2.list
      ({ s with sets := (nat! id, a.2.edit e) :: s.sets.filter (·.1 != nat! id) }, [])
    | _, _ => (s, ["bad-op"])
  | "sev" :: id :: opt :: rest =>
    match s.sets.find? (·.1 == nat! id) with
    | some a => (s, [bstr (evaluate (nat! opt) a.2 (takeList rest).1)])
    | none => (s, ["bad-op"])
  | ["sdump", id] =>
    match s.sets.find? (·.1 == nat! id) with
    | some a => (s, [s!"{a.2.list.length} " ++ joinNats (a.2.matchers.map (·.mode)) ++ " | " ++
        " ".intercalate (a.2.list.map tohex)])
    | none => (s, ["bad-op"])
  | "xm" :: raw :: rest =>
    let (probes, _) := takeList rest
    match prepExt s.wk (unhex raw) with
    | none => (s, ["err"])
    | some (sub, p) =>
      match status p with
      | "ok" =>
        let m := compileExt sub p
        (s, [s!"{sub} {tohex p} {m.mode} {m.as} {m.la} {bits m.bm probes}"])
      | st => (s, [st])
  | "xev" :: opt :: rest =>
    let (raws, rest2) := takeStrList rest
    match prepXs s.wk raws with
    | none => (s, ["err"])
    | some l =>
      match worst (l.map (fun e => status e.2)) with
      | "ok" => (s, [bstr (evaluateExt (nat! opt) (XSet.build l) (takeECs rest2))])
      | st => (s, [st])
  | "xset" :: id :: rest =>
    let (raws, _) := takeStrList rest
    match prepXs s.wk raws with
    | none => (s, ["bad-op"])
    | some l => ({ s with xsets := (nat! id, XSet.build l) :: s.xsets.filter (·.1 != nat! id) }, [])
  | ["xedit", id, kind, id2] =>
    match s.xsets.find? (·.1 == nat! id), s.xsets.find? (·.1 == nat! id2) with
    | some a, some b =>
      ({ s with xsets := (nat! id, XSet.build (editListX a.2.list (nat! kind, b.2.list))) ::
          s.xsets.filter (·.1 != nat! id) }, [])
    | _, _ => (s, ["bad-op"])
  | "xsev" :: id :: opt :: rest =>
    match s.xsets.find? (·.1 == nat! id) with
    | some a => (s, [bstr (evaluateExt (nat! opt) a.2 (takeECs rest))])
    | none => (s, ["bad-op"])
  | ["xsdump", id] =>
    match s.xsets.find? (·.1 == nat! id) with
    | some a => (s, [s!"{a.2.list.length} " ++ joinNats (a.2.matchers.map (·.mode)) ++ " | " ++
        " ".intercalate (a.2.list.map (fun e => s!"{e.1}:{tohex e.2}"))])
    | none => (s, ["bad-op"])
  | "lev" :: opt :: rest =>
    let (raws, rest2) := takeStrList rest
    let (nums, _) := takeList rest2
    let ps := raws.map prepLarge
    match worst (ps.map status) with
    | "ok" => (s, [bstr (refEval (nat! opt) ps (parseTriples nums))])
    | st => (s, [st])
  | [] => (s, [])
  | _ => (s, ["bad-op"])

def main : IO Unit := do
  loop (← IO.getStdin) (← IO.getStdout) ({} : St) step

end DriverC13
