import Model.Negotiate
import Driver.Util
namespace DriverC08
open Negotiate DriverUtil

/-
  Line protocol (all tokens decimal naturals):
    cfg localAs peerAs cfgInternal routerId hold ka3 sendSw grEn grHelper grNotif grLlgr grTime
        localRestarting treatAsWd  nConfed as…  nAf (family recv sendMax mpGr llgr llgrTime)…
                                            defines the neighbour, resets the peer state (newFSM)
    gcfg globalAs cfgLocalAs confedEnabled confedId
                                            the global configuration and the neighbour's configured local-as (0 = none):
                                            LocalAs and PeerType of the current neighbour are re-derived the way the
                                            configuration layer does (members = the cfg line's list); resets the peer state
    localas          -> `<LocalAs> <internal>` of the current neighbour
    restarting b                            sets GracefulRestart.State.PeerRestarting (server-owned)
    open version myAs hold id nParams (0 | 1 nCaps cap…)…      cap = code nArgs arg…
    buildopen        -> the OPEN buildopen produces, `o version myAs hold id | cap | cap …`
    validate         -> ok <as> | err <version|badId|badPeerAs|holdTime>
    est              -> stateChange(ESTABLISHED) on the current state; prints the state (estq: silently)
    peerdown         what the server does to the negotiated state when the session goes down
    recvmax t / sendmax t (t = 1 open 2 update 3 notification 4 keepalive 5 route-refresh, else unknown)
    apuse f              -> `recv b send b as4 b`: are path identifiers expected in received / written in sent NLRI of
                            family f, and are AS numbers 4 octets wide on the wire, under the session's codec options
    recvfits t total     -> 1 | 0   does the receive gate let a message of `total` octets (header included) through
    sendwrites t total   -> octets sendMessageloop's `send` writes for a message that serialises to `total` octets (0 = skipped)
    notifwrites total    -> octets fsm.sendNotification writes for a NOTIFICATION of `total` octets
    ticker / holdtimer -> none | seconds
-/

structure St where
  cfg  : LocalCfg := default
  ps   : PeerState := default
  opn  : Open := default

def b2s (b : Bool) : String := if b then "1" else "0"

/-- split a flat argument list into tuples of width `w` -/
def chunks (w : Nat) : Nat → List Nat → List (List Nat)
  | 0, _ => []
  | fuel + 1, l => if l.length < w || w == 0 then [] else l.take w :: chunks w fuel (l.drop w)

def capOfArgs (code : Nat) (args : List Nat) : Cap :=
  match code with
  | 1 => .mp (args.headD 0)
  | 65 => .as4 (args.headD 0)
  | 69 => .addPath ((chunks 2 args.length args).map (fun t => (t.getD 0 0, t.getD 1 0)))
  | 6 => .extMsg
  | 64 => .gr (args.getD 0 0) (args.getD 1 0)
            ((chunks 2 args.length (args.drop 2)).map (fun t => (t.getD 0 0, t.getD 1 0)))
  | 71 => .llgr ((chunks 3 args.length args).map (fun t => (t.getD 0 0, t.getD 1 0, t.getD 2 0)))
  | 5 => .extNh ((chunks 3 args.length args).map (fun t => (t.getD 0 0, t.getD 1 0, t.getD 2 0)))
  | c => .other c

def capArgs : Cap → List Nat
  | .mp f => [f]
  | .as4 v => [v]
  | .addPath ts => ts.flatMap (fun t => [t.1, t.2])
  | .extMsg => []
  | .gr fl t ts => fl :: t :: ts.flatMap (fun t => [t.1, t.2])
  | .llgr ts => ts.flatMap (fun t => [t.1, t.2.1, t.2.2])
  | .extNh ts => ts.flatMap (fun t => [t.1, t.2.1, t.2.2])
  | .other _ => []

def capStr (c : Cap) : String :=
  let a := capArgs c
  joinNats (c.code :: a.length :: a)

/-- parse `n` capabilities -/
def parseCaps : Nat → List String → List Cap × List String
  | 0, ts => ([], ts)
  | n + 1, ts =>
    match ts with
    | code :: rest =>
      let (args, rest') := takeList rest
      let (cs, rest'') := parseCaps n rest'
      (capOfArgs (nat! code) args :: cs, rest'')
    | [] => ([], [])

def parseParams : Nat → List String → List Param
  | 0, _ => []
  | n + 1, ts =>
    match ts with
    | "1" :: cnt :: rest =>
      let (cs, rest') := parseCaps (nat! cnt) rest
      Param.caps cs :: parseParams n rest'
    | _ :: rest => Param.unknown :: parseParams n rest
    | [] => []

def parseAfs : Nat → List String → List AfCfg
  | 0, _ => []
  | n + 1, ts =>
    match ts with
    | f :: r :: sm :: g :: l :: lt :: rest =>
      ⟨nat! f, b! r, nat! sm, b! g, b! l, nat! lt⟩ :: parseAfs n rest
    | _ => []

def parseCfg (ts : List String) : Option LocalCfg :=
  match ts with
  | las :: pas :: ci :: rid :: hold :: ka3 :: sw :: ge :: gh :: gn :: gl :: gt :: lr :: tw :: rest =>
    let (confed, rest') := takeList rest
    match rest' with
    | naf :: rest'' =>
      some { localAs := nat! las, peerAs := nat! pas, cfgInternal := b! ci, routerId := nat! rid,
             hold := nat! hold, ka3 := nat! ka3, sendSwVer := b! sw, grEnabled := b! ge,
             grHelperOnly := b! gh, grNotif := b! gn, grLlgr := b! gl, grTime := nat! gt,
             localRestarting := b! lr, treatAsWithdraw := b! tw, confedMembers := confed,
             afs := parseAfs (nat! naf) rest'' }
    | [] => none
  | _ => none

/-- insertion sort + dedup on naturals / pairs, for canonical printing of Go maps -/
def insertNat (x : Nat × Nat) : List (Nat × Nat) → List (Nat × Nat)
  | [] => [x]
  | y :: ys => if x == y then y :: ys
               else if x.1 < y.1 || (x.1 == y.1 && x.2 < y.2) then x :: y :: ys
               else y :: insertNat x ys

def canon (l : List (Nat × Nat)) : List (Nat × Nat) := l.foldl (fun acc x => insertNat x acc) []

def pairsStr (l : List (Nat × Nat)) : String :=
  " ".intercalate (l.map (fun p => toString p.1 ++ ":" ++ toString p.2))

def capCounts (cm : List Cap) : List (Nat × Nat) :=
  canon (cm.map (fun c => (c.code, (capsOf c.code cm).length)))

def afStr (a : AfState) : String :=
  b2s a.mpEnabled ++ b2s a.mpReceived ++ b2s a.eor ++ b2s a.llEnabled ++ b2s a.llReceived ++ ":" ++
    toString a.llPeerTime

def stateStr (s : PeerState) : String :=
  "caps " ++ pairsStr (capCounts s.capMap) ++
  " | ap " ++ pairsStr (allApTuples (capsOf 69 s.capMap)) ++
  " | fam " ++ pairsStr (canon s.familyMap) ++
  " | ext " ++ b2s s.extMsg ++ " as2 " ++ b2s s.twoByteAs ++
  " hold " ++ toString s.hold ++ " ka3 " ++ toString s.ka3 ++
  " internal " ++ b2s s.stInternal ++ " peeras " ++ toString s.stPeerAs ++ " rid " ++ toString s.remoteId ++
  " ebgp " ++ b2s s.isEBGP ++ " confed " ++ b2s s.isConfed ++ " taw " ++ b2s s.treatAsWd ++
  " | gr " ++ b2s s.grEnabled ++ " prt " ++ toString s.peerRestartTime ++ " notif " ++ b2s s.notifEnabled ++
  " llgr " ++ b2s s.llgrEnabled ++ " af " ++ " ".intercalate (s.afs.map afStr)

def openStr (o : Open) : String :=
  "o " ++ joinNats [o.version, o.myAs, o.hold, o.id] ++
    String.join (o.caps.map (fun c => " | " ++ capStr c))

def msgType (s : String) : MsgType :=
  match nat! s with
  | 1 => .open | 2 => .update | 3 => .notification | 4 => .keepalive | 5 => .routeRefresh
  | _ => .unknown

def optStr : Option Nat → String
  | none => "none"
  | some n => toString n

def errStr : OpenErr → String
  | .version => "version" | .badId => "badId" | .badPeerAs => "badPeerAs" | .holdTime => "holdTime"

def step (s : St) (ts : List String) : St × List String :=
  match ts with
  | "cfg" :: rest =>
    match parseCfg rest with
    | some c => ({ s with cfg := c, ps := initState c }, [])
    | none => (s, ["bad-op"])
  | ["gcfg", gas, cla, ce, cid] =>
    let c := applyDefaults ⟨nat! gas, b! ce, nat! cid, s.cfg.confedMembers⟩ (nat! cla) s.cfg
    ({ s with cfg := c, ps := initState c }, [])
  | ["localas"] => (s, [toString s.cfg.localAs ++ " " ++ b2s s.cfg.cfgInternal])
  | ["restarting", b] => ({ s with ps := { s.ps with peerRestarting := b! b } }, [])
  | "open" :: v :: as :: h :: id :: np :: rest =>
    ({ s with opn := ⟨nat! v, nat! as, nat! h, nat! id, parseParams (nat! np) rest⟩ }, [])
  | ["buildopen"] => (s, [openStr (buildOpen s.cfg)])
  | ["validate"] =>
    match handleOpen s.cfg s.opn with
    | .ok as => (s, ["ok " ++ toString as])
    | .error e => (s, ["err " ++ errStr e])
  | ["est"] =>
    let ps := stateChange s.cfg s.ps s.opn
    ({ s with ps := ps }, [stateStr ps])
  | ["peerdown"] => ({ s with ps := peerDown s.ps }, [])
  | ["estq"] => ({ s with ps := stateChange s.cfg s.ps s.opn }, [])
  | ["recvmax", t] => (s, [toString (recvMaxLen s.ps (msgType t))])
  | ["sendmax", t] => (s, [toString (sendMaxLen s.ps (msgType t))])
  | ["apuse", f] =>
    (s, ["recv " ++ b2s (expectsPathId (recvOpts s.ps) true (nat! f)) ++
         " send " ++ b2s (expectsPathId (sendOpts s.ps) false (nat! f)) ++
         " as4 " ++ b2s (!(sendOpts s.ps).use2ByteAs)])
  | ["recvfits", t, total] => (s, [b2s (recvFits s.ps (msgType t) (nat! total))])
  | ["sendwrites", t, total] => (s, [toString (sendWrites s.ps (msgType t) (nat! total))])
  | ["notifwrites", total] => (s, [toString (notifWrites (nat! total))])
  | ["ticker"] => (s, [optStr (tickerSecs s.ps)])
  | ["holdtimer"] => (s, [optStr (holdTimerSecs s.ps)])
  | [] => (s, [])
  | _ => (s, ["bad-op"])

def main : IO Unit := do
  loop (← IO.getStdin) (← IO.getStdout) ({} : St) step

end DriverC08
