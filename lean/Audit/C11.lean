import Props.C11
#print axioms C11.pack_effect
#print axioms C11.pack_fits
#print axioms C11.wire_fits
#print axioms C11.wire_effect
#print axioms C11.wire_effect_all_fit
#print axioms C11.oversize_reported
#print axioms C11.pack_groups_only_equal
#print axioms C11.eor_kept
#print axioms C11.eor_last
#print axioms C11.dedup_key_matches_wire
