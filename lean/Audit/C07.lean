import Props.C07
#print axioms C07.allowed_table
#print axioms C07.validateOpen_eq_rfc
#print axioms C07.bad_identifier_uses_real_as
#print axioms C07.edges_allowed
#print axioms C07.established_needs_open_keepalive
#print axioms C07.established_entered_by_keepalive
#print axioms C07.no_rib_effect_unless_established
#print axioms C07.notif_table
#print axioms C07.timer_instants
#print axioms C07.hold_armed_opensent
#print axioms C07.hold_armed_openconfirm
#print axioms C07.hold_rearmed_established
#print axioms C07.collision_rule
#print axioms C07.session_open_validated
#print axioms C07.collision_paths_agree
#print axioms C07.transport_fault
#print axioms C07.admin_state_reported
