import Props.C02
import Props.C02T
#print axioms C02.adjin_refines
#print axioms C02.adjin_unique_and_counted
#print axioms C02.locrib_refines
#print axioms C02.withdraw_removes
#print axioms C02.locrib_within_adjin
#print axioms C02.adjin_within_locrib
#print axioms C02T.table_refines_map
#print axioms C02T.get_is_map_lookup
#print axioms C02T.get_sharded_is_map_lookup
#print axioms C02T.iteration_exact
#print axioms C02T.hash_irrelevant
#print axioms C02T.update_touches_only_its_prefix
#print axioms C02T.update_at_its_prefix
#print axioms C02T.no_empty_bucket
#print axioms C02T.invariant_preserved
#print axioms C02T.insertUpdate_is_map_insert
#print axioms C02T.collision_flag_exact
#print axioms C02T.lookups_are_set_theoretic
#print axioms C02T.lookups_list_no_prefix_twice
#print axioms C02T.covers_is_bit_prefix
#print axioms C02T.select_result_exact
#print axioms C02T.counters_are_sizes
#print axioms C02T.path_listings_exact
#print axioms C02T.observations_depend_on_content_only
#print axioms C02T.partial_adj_ops_leave_other_families
#print axioms C02T.partial_adj_ops_on_named_families
