import Props.C02
#print axioms C02.adjin_refines
#print axioms C02.adjin_unique_and_counted
#print axioms C02.locrib_refines
#print axioms C02.withdraw_removes
#print axioms C02.locrib_within_adjin
#print axioms C02.adjin_within_locrib
