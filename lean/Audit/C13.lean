import Props.C13
#print axioms C13.search_spec
#print axioms C13.compile_sound
#print axioms C13.index_sound
#print axioms C13.evaluate_eq_regex
#print axioms C13.refEval_any
#print axioms C13.refEval_invert
#print axioms C13.refEval_all
#print axioms C13.edit_equiv
#print axioms C13.evaluate_after_edits
#print axioms C13.compileExt_sound
#print axioms C13.evaluateExt_eq_regex
