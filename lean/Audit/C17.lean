import Props.C17
#print axioms C17.vrf_visible_iff
#print axioms C17.vrf_select_iff
#print axioms C17.vrf_nontransitive_not_imported
#print axioms C17.vrf_export_attrs
#print axioms C17.vrf_ce_step
#print axioms C17.rtm_refines
#print axioms C17.rtm_has_iff
#print axioms C17.idx_consistent
#print axioms C17.rtc_filter_iff
#print axioms C17.rtc_invariant
#print axioms C17.rtc_invariant_member_step
#print axioms C17.rtc_minimal_unchanged
#print axioms C17.rtc_minimal_announce
#print axioms C17.rtc_minimal_withdraw
#print axioms C17.vrf_local_memberships
#print axioms C17.vrf_delete_withdraws
