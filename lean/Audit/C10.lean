import Props.C10
#print axioms C10.evalCond_eq_spec
#print axioms C10.eval_eq_spec
#print axioms C10.all_on_empty_set
#print axioms C10.first_decision_in_policy
#print axioms C10.first_decision_wins
#print axioms C10.mods_accumulate
#print axioms C10.mods_accumulate_policies
#print axioms C10.default_applies
#print axioms C10.withdraw_passthrough
#print axioms C10.policy_pure
#print axioms C10.listAct_is_comm_action
#print axioms C10.append_aliases
#print axioms C10.append_pure_when_full
#print axioms Policy.covers_contains
#print axioms C10.route_type_documented
#print axioms C10.route_type_partition
