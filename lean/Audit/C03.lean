import Props.C03
#print axioms C03.better_is_documented_order
#print axioms C03.better_total
#print axioms C03.better_trans
#print axioms C03.history_sorted_and_exact
#print axioms C03.C03_order_independent
#print axioms C03.best_is_documented
#print axioms C03.multipath_spec
#print axioms C03.multipath_unreachable
#print axioms C03.multipath_members_tie
#print axioms C03.multipathOld_counterexample
#print axioms C03.multipath_complete_partial
