import Props.C19
#print axioms C19.rtr_serialize_length
#print axioms C19.rtr_parse_serialize
#print axioms C19.rtr_constructors_wf
#print axioms C19.bfd_unmarshal_marshal
#print axioms C19.bfd_marshal_error_iff
#print axioms C19.bfd_unmarshal_ok_length
#print axioms C19.mrt_header_roundtrip
#print axioms C19.mrt_split_token_le
#print axioms C19.mrt_split_frames_record
#print axioms C19.mrt_splitOld_counterexample
#print axioms C19.bmp_header_roundtrip
#print axioms C19.bmp_peer_roundtrip
#print axioms C19.bmp_split_token_le
#print axioms C19.bmp_splitOld_counterexample
#print axioms C19.bmp_parse_within_len
#print axioms C19.zapi_header_roundtrip
#print axioms C19.zapi_recv_consumes_le
