import Props.C14
#print axioms C14.down_wf
#print axioms C14.down_bytes_valid
#print axioms C14.up_down
#print axioms C14.up_down_exact
#print axioms C14.up_down_resegments
#print axioms C14.up_safe
#print axioms C14.up_none
#print axioms C14.agg_roundtrip
#print axioms C14.len_cache_consistent
#print axioms C14.len_cache_counterexample
#print axioms C14.up_leading_set_counterexample
#print axioms C14.up_confed_counterexample
#print axioms C14.down_empty_as4_counterexample
