import Props.C01
#print axioms C01.delta_correct
#print axioms C01.export_rule
#print axioms C01.never_back_to_source
#print axioms C01.never_to_as_in_path
#print axioms C01.no_nonclient_to_nonclient
#print axioms C01.withdraw_iff_exportable
#print axioms C01.C01_quiescent
