import Props.C01
import Props.C01RS
import Props.C01AP
#print axioms C01.delta_correct
#print axioms C01.export_rule
#print axioms C01.never_back_to_source
#print axioms C01.never_to_as_in_path
#print axioms C01.no_nonclient_to_nonclient
#print axioms C01.withdraw_iff_exportable
#print axioms C01.C01_quiescent
#print axioms C01RS.delta_correct_rs
#print axioms C01RS.C01RS_quiescent
#print axioms C01RS.rs_want_closed
#print axioms C01RS.rs_holds_only_its_best
#print axioms C01RS.rs_nothing_missing
#print axioms C01RS.rs_table_only_client_routes
#print axioms C01RS.client_event_leaves_ordinary_group
#print axioms C01RS.ordinary_event_leaves_client_group
#print axioms C01RS.pinned_stuck_route
#print axioms C01AP.advertised_only_current_exportable
#print axioms C01AP.advertised_count
#print axioms C01AP.identifiers_distinct
#print axioms C01AP.identifier_stable
#print axioms C01AP.bookkeeping_exact
#print axioms C01AP.transfer_sends_k_best
#print axioms C01AP.promotion_takes_best_held
#print axioms C01AP.soft_reset_out_changes_nothing
#print axioms C01AP.pinned_stuck_route_counterexample
#print axioms C01AP.not_always_k_best
#print axioms C01AP.pinned_over_send_max_counterexample
