import Props.C05
#print axioms C05.decode_prefix_irrelevant
#print axioms C05.decode_prefix_irrelevant_lenient
#print axioms C05.decode_prefix_irrelevant_open
#print axioms C05.nlri_loops_bounded
#print axioms C05.attr_loop_bounded
#print axioms C05.aspath_loops_bounded
#print axioms C05.open_loops_bounded
#print axioms C05.decode_total_bounded
#print axioms C05.decode_total_bounded_open
#print axioms C05.open_no_panic
#print axioms C05.cap_no_panic
#print axioms C05.optparams_unguarded_counterexample
#print axioms C05.render_total
#print axioms C05.render_total_strict
#print axioms C05.nonfatal_error_class
#print axioms C05.attr_len_positive
#print axioms C05.recv_bounded
