import Props.C06
#print axioms C06.C06_decode_strongest
#print axioms C06.C06_validate_strongest
#print axioms C06.rfc7606_table
#print axioms C06.C06_strongest_counterexample
#print axioms C06.C06_strongest_partial
#print axioms C06.C06_withdraw_floor
#print axioms C06.C06_never_install_malformed
#print axioms C06.C06_wellformed_unpenalised
#print axioms C06.C06_disabled_resets
#print axioms C06.C06_disabled_resets_decode
#print axioms C06.C06_position_independent
#print axioms C06.C06_withdrawals_executed
#print axioms C06.C06_reset_delivers_nothing
#print axioms C06.C06_handling_independent_of_history
#print axioms C06.C06_withdrawals_carry_path_ids
