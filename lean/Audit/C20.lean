import Props.C20
#print axioms C20.acyclic_no_deadlock
#print axioms C20.lock_edges_ranked
#print axioms C20.lock_edges_acyclic
#print axioms C20.no_same_class_nesting
#print axioms C20.code_lock_order_no_deadlock
#print axioms C20.documented_hierarchy_differs
#print axioms C20.mutual_exclusion
#print axioms C20.guard_conflict
#print axioms C20.guarded_accesses_exclusive
#print axioms C20.deadlock_without_order
#print axioms C20.recursive_rlock_deadlocks
#print axioms C20.escape_rule_unsatisfiable
#print axioms C20.buffered_producer_never_blocks
#print axioms C20.unbuffered_blocked_iff_consumer_left
#print axioms C20.unbuffered_blocked_forever
#print axioms C20.unbuffered_one_shot_can_block
