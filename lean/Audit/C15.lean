import Props.C15
#print axioms C15.delta_correct_policy
#print axioms C15.weak_invariant_step
#print axioms C15.soft_out_restores
#print axioms C15.soft_out_idempotent
#print axioms C15.soft_out_no_dup
#print axioms C15.soft_out_no_loss
#print axioms C15.soft_out_withdraw_only_sent
#print axioms C15.soft_equals_fresh_view
#print axioms C15.applyPol_keyPres
#print axioms C15.soft_in_equals_fresh
#print axioms C15.soft_in_idempotent
#print axioms C15.soft_in_then_changes
#print axioms C15.distinct_addr_keys
#print axioms C15.refresh_lock_premise
#print axioms C15.emptied_prefix_set_invert_counterexample
#print axioms C15.prefix_condition_family_partial
