/-
Model of the 2-octet / 4-octet AS transition code of gobgp (RFC 6793), core-only Lean.

Mirrors, branch for branch (after the `fix:` commits on branch wt-C14, see Props/C14.lean):
  internal/pkg/table/message.go   UpdatePathAttrs2ByteAs      → `down`
                                  UpdatePathAttrs4ByteAs      → `up`, `upAttr` (keep walk `keep`, merge loop `mergeStep`)
                                  UpdatePathAggregator2ByteAs → `aggDown`
                                  UpdatePathAggregator4ByteAs → `aggUp`
  pkg/packet/bgp/bgp.go           (*As4PathParam).ASLen / (*AsPathParam).ASLen → `segLen`
                                  As*PathParam.Serialize, PathAttribute.Len    → `serSegs`, `valueLen`, `attrLen`
  pkg/packet/bgp/validate.go      validateAsPathValueBytes    → `validateBytes`
The definitions suffixed `Old` mirror the code of the pinned commit before the fixes; they are
kept only to state the defects as theorems (`…_counterexample` in Props/C14.lean).

A path segment is (type, members); types as on the wire: 1 AS_SET, 2 AS_SEQUENCE,
3 AS_CONFED_SEQUENCE, 4 AS_CONFED_SET.  AS numbers are naturals (the harness only sends < 2^32).
-/
namespace As4

structure Seg where
  typ : Nat
  as  : List Nat
deriving DecidableEq, Repr

abbrev Path := List Seg

def tSET : Nat := 1
def tSEQ : Nat := 2
def tCSEQ : Nat := 3
def tCSET : Nat := 4
def asTrans : Nat := 23456

/-- `case BGP_ASPATH_ATTR_TYPE_CONFED_SEQ, BGP_ASPATH_ATTR_TYPE_CONFED_SET` -/
def isConfed (t : Nat) : Bool := t == 3 || t == 4

/-- `if as > 1<<16-1 { AS_TRANS } else { uint16(as) }` -/
def trans (a : Nat) : Nat := if a > 65535 then asTrans else a

/-- `(*As4PathParam).ASLen`: SEQ → member count, SET → 1, confed / unknown → 0 -/
def segLen (s : Seg) : Nat :=
  if s.typ = 2 then s.as.length else if s.typ = 1 then 1 else 0

/-- sum of `ASLen()` over the segments (the `asLen += param.ASLen()` loops) -/
def asLen : Path → Nat
  | [] => 0
  | s :: r => segLen s + asLen r

/-! ### UpdatePathAttrs2ByteAs -/

/-- the AS_PATH sent to a 2-octet peer: same segments, members > 65535 replaced by AS_TRANS -/
def down2 (p : Path) : Path := p.map fun s => ⟨s.typ, s.as.map trans⟩

/-- `mkAs4`: some member (of ANY segment, confederation ones included) exceeds 65535 -/
def needs4 (p : Path) : Bool := p.any fun s => s.as.any (fun a => decide (a > 65535))

/-- the AS4_PATH segments: every non-confederation segment, unchanged -/
def down4 (p : Path) : Path := p.filter fun s => !isConfed s.typ

/-- `UpdatePathAttrs2ByteAs` (fixed: no AS4_PATH when it would have no segment) -/
def down (p : Path) : Path × Option Path :=
  (down2 p, if needs4 p && !(down4 p).isEmpty then some (down4 p) else none)

/-- pinned commit: AS4_PATH appended whenever `mkAs4`, even with zero segments -/
def downOld (p : Path) : Path × Option Path :=
  (down2 p, if needs4 p then some (down4 p) else none)

/-! ### UpdatePathAttrs4ByteAs -/

/-- the loop over `as4Attr.Value` that discards confederation segments (RFC 6793 §6) -/
def dropConfed (a4 : Path) : Path := a4.filter fun s => !isConfed s.typ

/-- the keep-count walk over the AS_PATH segments (fixed code): segments that count 0
(confederation) are kept while the walk is still going, a segment that fits is kept whole, a
SEQUENCE that does not fit is cut to the remaining count and ends the walk, count 0 ends it. -/
def keep : Nat → Path → Path
  | _, [] => []
  | k, s :: rest =>
    if segLen s = 0 then s :: keep k rest
    else if k = 0 then []
    else if segLen s ≤ k then s :: keep (k - segLen s) rest
    else [⟨s.typ, s.as.take k⟩]

/-- one round of the merge loop over the AS4_PATH segments; `acc` is `newParams` REVERSED
(head = `newParams[len(newParams)-1]`).  Two adjacent AS_SEQUENCEs are concatenated and re-cut
at 255 members. -/
def mergeStep (acc : Path) (s : Seg) : Path :=
  match acc with
  | [] => [s]
  | last :: rest =>
    if s.typ = 2 ∧ last.typ = 2 then
      if last.as.length + s.as.length > 255 then
        ⟨2, s.as.drop (255 - last.as.length)⟩ ::
          ⟨2, last.as ++ s.as.take (255 - last.as.length)⟩ :: rest
      else ⟨2, last.as ++ s.as⟩ :: rest
    else s :: acc

def merge (kept a4 : Path) : Path := (a4.foldl mergeStep kept.reverse).reverse

/-- `UpdatePathAttrs4ByteAs` on the segment lists: `a` = received AS_PATH (members widened to
4 octets), `a4?` = received AS4_PATH if any. -/
def up (a : Path) (a4? : Option Path) : Path :=
  match a4? with
  | none => a
  | some a4 =>
    if asLen a < asLen (dropConfed a4) then a
    else merge (keep (asLen a - asLen (dropConfed a4)) a) (dropConfed a4)

/-! pinned-commit versions (defective), for the counterexample theorems only -/

/-- `asConfedLen`: CONFED_SET counts 1, CONFED_SEQ its member count -/
def confedLen : Path → Nat
  | [] => 0
  | s :: r => (if s.typ = 4 then 1 else if s.typ = 3 then s.as.length else 0) + confedLen r

/-- old keep walk: `if keepNum-ASLen >= 0 {keep whole} else {cut}; if keepNum <= 0 {break}` -/
def keepOld : Nat → Path → Path
  | _, [] => []
  | k, s :: rest =>
    if segLen s ≤ k then
      (if k - segLen s = 0 then [s] else s :: keepOld (k - segLen s) rest)
    else [⟨s.typ, s.as.take k⟩]

def upOld (a : Path) (a4? : Option Path) : Path :=
  match a4? with
  | none => a
  | some a4 =>
    if asLen a + confedLen a < asLen (dropConfed a4) then a
    else merge (keepOld (asLen a + confedLen a - asLen (dropConfed a4)) a) (dropConfed a4)

/-! ### attribute length cache (`PathAttribute.Length`, `Len()`) -/

/-- `As4PathParam.Len` / `AsPathParam.Len` summed: 2 + width·members per segment -/
def valueLen (w : Nat) : Path → Nat
  | [] => 0
  | s :: r => 2 + w * s.as.length + valueLen w r

/-- an AS_PATH attribute as the Go struct holds it: cached `Length` plus the segments and the
octet width of their members (2 = `AsPathParam`, 4 = `As4PathParam`) -/
structure Attr where
  length : Nat
  width  : Nat
  segs   : Path
deriving DecidableEq, Repr

/-- `NewPathAttributeAsPath` -/
def mkAttr (w : Nat) (p : Path) : Attr := ⟨valueLen w p, w, p⟩

/-- `PathAttribute.Len`: 3 or (extended length) 4 octets of header + cached `Length`.
`NewPathAttributeAsPath` sets the extended-length flag iff the value exceeds 255 octets. -/
def attrLen (a : Attr) : Nat := (if a.length > 255 then 4 else 3) + a.length

/-- what `Serialize` emits: header chosen from the ACTUAL value length + the value -/
def serLen (a : Attr) : Nat :=
  (if valueLen a.width a.segs > 255 then 4 else 3) + valueLen a.width a.segs

/-- `UpdatePathAttrs4ByteAs` on the attribute (fixed): always rebuilt by NewPathAttributeAsPath -/
def upAttr (a : Attr) (a4? : Option Path) : Attr := mkAttr 4 (up a.segs a4?)

/-- pinned commit: without AS4_PATH the members are widened in place, `Length` untouched -/
def upAttrOld (a : Attr) (a4? : Option Path) : Attr :=
  match a4? with
  | none => ⟨a.length, 4, a.segs⟩
  | some a4 =>
    if asLen a.segs + confedLen a.segs < asLen (dropConfed a4) then ⟨a.length, 4, a.segs⟩
    else mkAttr 4 (upOld a.segs (some a4))

/-! ### AGGREGATOR / AS4_AGGREGATOR (the address is carried along unchanged, not modelled) -/

/-- `UpdatePathAggregator2ByteAs`: (2-octet AGGREGATOR AS, AS4_AGGREGATOR AS if emitted) -/
def aggDown (as : Nat) : Nat × Option Nat :=
  if as > 65535 then (asTrans, some as) else (as, none)

/-- `UpdatePathAggregator4ByteAs`: AS4_AGGREGATOR's AS wins whenever it is present -/
def aggUp (as2 : Nat) (as4? : Option Nat) : Nat :=
  match as4? with
  | some a => a
  | none => as2

/-- value length of the AGGREGATOR after `aggUp` (fixed code rebuilds it with a 4-octet AS) -/
def aggUpLen : Nat := 8

/-! ### validateAsPathValueBytes -/

/-- wire form of a segment list with `w`-octet members; `Num` is `uint8(len)` -/
def beBytes : Nat → Nat → List Nat
  | 0, _ => []
  | n + 1, v => beBytes n (v / 256) ++ [v % 256]

def serSegs (w : Nat) : Path → List Nat
  | [] => []
  | s :: r => [s.typ % 256, s.as.length % 256] ++ s.as.flatMap (beBytes w) ++ serSegs w r

/-- the loop of `validateAsPathValueBytes` (after the parity test); fuel = number of octets -/
def validateLoop (w : Nat) : Nat → List Nat → Bool
  | 0, d => d.isEmpty
  | f + 1, d =>
    match d with
    | [] => true
    | [_] => false                                   -- "AS PATH header is short"
    | t :: n :: rest =>
      if t = 0 ∨ t > 4 then false                    -- "unknown AS_PATH seg type"
      else if n = 0 then false                       -- "AS PATH segment has zero AS count"
      else if n * w > rest.length then false         -- "seg length is short"
      else validateLoop w f (rest.drop (n * w))

/-- `validateAsPathValueBytes(data, Use2ByteAS = (w = 2))` accepts -/
def validateBytes (w : Nat) (d : List Nat) : Bool :=
  if d.length % 2 ≠ 0 then false else validateLoop w d.length d

/-- segment-level well-formedness: known type, 1..255 members -/
def validSeg (s : Seg) : Bool :=
  decide (1 ≤ s.typ) && decide (s.typ ≤ 4) && decide (1 ≤ s.as.length) && decide (s.as.length ≤ 255)

/-! ### vocabulary of the property statements (specification side, not code) -/

/-- every segment could be decoded from the wire: type 1..4, 1..255 members -/
def Wire (p : Path) : Prop := ∀ s ∈ p, validSeg s = true

/-- what an AS_PATH says, independent of where AS_SEQUENCEs are cut: one item per AS of a
SEQUENCE, one item per SET / confederation segment -/
inductive Item where
  | one (a : Nat)
  | grp (typ : Nat) (as : List Nat)
deriving DecidableEq, Repr

def flatSeg (s : Seg) : List Item :=
  if s.typ = 2 then s.as.map Item.one else [Item.grp s.typ s.as]

def flat : Path → List Item
  | [] => []
  | s :: r => flatSeg s ++ flat r

/-- the expected result of the round trip: AS4_PATH cannot carry confederation segments, so
their 4-octet members come back as AS_TRANS; everything else is unchanged -/
def confedTrans (p : Path) : Path :=
  p.map fun s => if isConfed s.typ then ⟨s.typ, s.as.map trans⟩ else s

/-- adjacent AS_SEQUENCEs are already packed the way the merge loop packs them: the first of
two neighbours is full -/
def Packed : Path → Prop
  | [] => True
  | [_] => True
  | s :: t :: r => (s.typ = 2 → t.typ = 2 → s.as.length = 255) ∧ Packed (t :: r)

end As4
