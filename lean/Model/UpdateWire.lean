/-
  C06 — byte layer: UPDATE body bytes → the abstract message of Model/ErrHandling.lean.

  Mirrors the byte-level part of pkg/packet/bgp/bgp.go:
    BGPUpdate.DecodeFromBytes (withdrawn routes, total attribute length, attribute framing, NLRI),
    IPAddrPrefix.decodeFromBytes / decodePrefix, PathAttribute.DecodeFromBytes (header, flags),
    the DecodeFromBytes of ORIGIN, AS_PATH (+ validateAsPathValueBytes), NEXT_HOP, MED, LOCAL_PREF,
    ATOMIC_AGGREGATE, AGGREGATOR, COMMUNITIES, ORIGINATOR_ID, CLUSTER_LIST, MP_REACH_NLRI,
    MP_UNREACH_NLRI (unicast/multicast IPv4/IPv6 only), EXTENDED_COMMUNITIES (length rule only),
    AS4_PATH, AS4_AGGREGATOR, LARGE_COMMUNITY, PathAttributeUnknown.
  Not modelled (the harness never generates them; `parse` answers `none`): ADD-PATH, PMSI_TUNNEL,
  TUNNEL_ENCAP, IP6_EXTENDED_COMMUNITIES, AIGP, LS, PREFIX_SID values, other MP families.
  This layer carries no theorem of its own: it is tied to the code by the correspondence run and
  feeds the abstract layer, about which the theorems are.
-/
import Model.ErrHandling
namespace UpdWire
open ErrH

abbrev Bytes := List Nat

def u16 (a b : Nat) : Nat := a * 256 + b

/-- IPAddrPrefix.decodeFromBytes + decodePrefix + Len: error or encoded length -/
def prefixLen (data : Bytes) (addrlen : Nat) : Except (Nat × Nat) Nat :=
  match data with
  | [] => .error (3, 1)
  | bl :: rest =>
    let bytelen := (bl + 7) / 8
    if rest.length < bytelen then .error (3, 10)
    else if bl > addrlen * 8 then .error (3, 10)
    else .ok (1 + bytelen)

/-- withdrawn-routes loop: `routelen` bytes remain to be consumed -/
def scanWithdrawn : Nat → Nat → Bytes → Nat → Except (Nat × Nat) (Bytes × Nat)
  | 0, _, data, n => .ok (data, n)
  | fuel + 1, routelen, data, n =>
    if routelen == 0 then .ok (data, n)
    else match prefixLen data 4 with
      | .error e => .error e
      | .ok w =>
        if w > routelen then .error (3, 1)
        else scanWithdrawn fuel (routelen - w) (data.drop w) (n + 1)

/-- NLRI loop (also the prefix loops of MP_REACH / MP_UNREACH) -/
def scanPrefixes : Nat → Bytes → Nat → Nat → Except (Nat × Nat) Nat
  | 0, _, _, n => .ok n
  | fuel + 1, data, addrlen, n =>
    if data.isEmpty then .ok n
    else match prefixLen data addrlen with
      | .error e => .error e
      | .ok w => scanPrefixes fuel (data.drop w) addrlen (n + 1)

/-- validateAsPathValueBytes loop: segment types, or none when malformed -/
def asSegs (asSize : Nat) : Nat → Bytes → Option (List Nat)
  | 0, _ => some []
  | fuel + 1, d =>
    match d with
    | [] => some []
    | [_] => none
    | st :: num :: rest =>
      if st == 0 || st > 4 then none
      else if num == 0 then none
      else if num * asSize > rest.length then none
      else (asSegs asSize fuel (rest.drop (num * asSize))).map (st :: ·)

def asPath (use2 : Bool) (value : Bytes) : Option (List Nat) :=
  if value.length % 2 != 0 then none
  else asSegs (if use2 then 2 else 4) value.length value

def addrLenOf (afi : Nat) : Nat := if afi == 2 then 16 else 4

def familySupported (afi safi : Nat) : Bool :=
  (afi == 1 || afi == 2) && (safi == 1 || safi == 2)

/-- type-specific part of each attribute's DecodeFromBytes, after the generic header succeeded.
    `none` = outside the modelled fragment. -/
def attrValue (use2 : Bool) (typ flags : Nat) (value : Bytes) : Option AttrObs :=
  let len := value.length
  let base : AttrObs := { typ := typ, flags := flags }
  let bad (c s : Nat) : Option AttrObs := some { base with derr := some (c, s) }
  match typ with
  | 1 => if len != 1 then bad 3 1 else some { base with origin := value.head?.getD 0 }
  | 2 =>
    if len == 0 then some base
    else match asPath use2 value with
      | none => bad 3 11
      | some segs => some { base with segs := segs }
  | 3 => if len != 4 && len != 16 then bad 3 5 else some { base with nh := value }
  | 4 => if len != 4 then bad 3 5 else some base
  | 5 => if len != 4 then bad 3 5 else some base
  | 6 => if len != 0 then bad 3 5 else some base
  | 7 => if len != 6 && len != 8 then bad 3 5 else some base
  | 8 => if len % 4 != 0 then bad 3 5 else some base
  | 9 => if len != 4 then bad 3 5 else some base
  | 10 => if len % 4 != 0 then bad 3 5 else some base
  | 14 =>
    if len < 3 then bad 3 5
    else
      let afi := u16 (value.getD 0 0) (value.getD 1 0)
      let safi := value.getD 2 0
      let v := value.drop 3
      match v with
      | [] => bad 3 5
      | nhl :: v1 =>
        if v1.length < nhl then bad 3 5
        else
          let eff := if nhl == 48 then 32 else if nhl == 12 then 4 else if nhl == 24 then 16 else nhl
          if eff == 0 && safi != 133 && safi != 134 && safi != 241 then bad 3 5
          else if eff != 0 && eff != 4 && eff != 16 && eff != 32 then bad 3 5
          else
            let v2 := v1.drop nhl
            if v2.isEmpty then bad 3 5
            else if !familySupported afi safi then none
            else match scanPrefixes v2.length (v2.drop 1) (addrLenOf afi) 0 with
              | .error _ => bad 3 10
              | .ok n => some { base with afi := afi, safi := safi, npfx := n }
  | 15 =>
    if len < 3 then bad 3 5
    else
      let afi := u16 (value.getD 0 0) (value.getD 1 0)
      let safi := value.getD 2 0
      if !familySupported afi safi then none
      else match scanPrefixes len (value.drop 3) (addrLenOf afi) 0 with
        | .error _ => bad 3 10
        | .ok n => some { base with afi := afi, safi := safi, npfx := n }
  | 16 => if len % 8 != 0 then bad 3 5 else some base
  | 17 =>
    if len == 0 then some base
    else match asPath false value with
      | none => bad 3 11
      | some _ => some base
  | 18 => if len != 8 then bad 3 1 else some base
  | 32 => if len % 12 != 0 then bad 3 5 else some base
  | _ => if knownType typ then none else some base

structure OneAttr where
  obs  : AttrObs
  plen : Nat      -- p.Len(): header + declared length
  deriving Repr

/-- PathAttribute.DecodeFromBytes followed by the type-specific decoder; `data` has ≥ 3 bytes -/
def oneAttr (use2 : Bool) (data : Bytes) : Option OneAttr :=
  let flags := data.getD 0 0
  let typ := data.getD 1 0
  let base : AttrObs := { typ := typ, flags := flags }
  let ext := bit flags 0x10
  if ext && data.length < 4 then
    some ⟨{ base with derr := some (3, 5) }, 4⟩
  else
    let length := if ext then u16 (data.getD 2 0) (data.getD 3 0) else data.getD 2 0
    let hl := if ext then 4 else 3
    let body := data.drop hl
    if body.length < length then some ⟨{ base with derr := some (3, 5) }, hl + length⟩
    else if !flagsOk typ flags then some ⟨{ base with derr := some (3, 4) }, hl + length⟩
    else (attrValue use2 typ flags (body.take length)).map (fun o => ⟨o, hl + length⟩)

/-- attribute loop: returns (items reversed, stop, rest of data after the attribute field) -/
def scanAttrs (use2 : Bool) : Nat → Nat → Bytes → List AttrObs → Option (List AttrObs × Stop × Bytes)
  | 0, _, data, acc => some (acc, .done, data)
  | fuel + 1, pathlen, data, acc =>
    if pathlen == 0 then some (acc, .done, data)
    else if pathlen < 3 then some (acc, .short, data.drop pathlen)
    else match oneAttr use2 data with
      | none => none
      | some a =>
        if a.plen % 65536 > pathlen || data.length < a.plen then
          some (acc, .overrun a.obs, data.drop pathlen)
        else scanAttrs use2 fuel (pathlen - a.plen % 65536) (data.drop a.plen) (a.obs :: acc)

/-- BGPUpdate.DecodeFromBytes, byte level.  `none` = outside the modelled fragment. -/
def parse (use2 : Bool) (data : Bytes) : Option AMsg :=
  if data.length < 2 then some { pre := some (3, 1) }
  else
    let wlen := u16 (data.getD 0 0) (data.getD 1 0)
    let d1 := data.drop 2
    if d1.length < wlen then some { pre := some (3, 1) }
    else match scanWithdrawn (wlen + 1) wlen d1 0 with
      | .error e => some { pre := some e }
      | .ok (d2, nwd) =>
        if d2.length < 2 then some { pre := some (3, 1) }
        else
          let tlen := u16 (d2.getD 0 0) (d2.getD 1 0)
          let d3 := d2.drop 2
          if d3.length < tlen then some { pre := some (3, 1) }
          else match scanAttrs use2 (tlen + 1) tlen d3 [] with
            | none => none
            | some (acc, stop, rest) =>
              match scanPrefixes (rest.length + 1) rest 4 0 with
              | .error e => some { wd := nwd, items := acc.reverse, stop := stop, nlriErr := some e }
              | .ok n => some { wd := nwd, items := acc.reverse, stop := stop, nlri := n }

end UpdWire
