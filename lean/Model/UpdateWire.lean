/-
  C06 — byte layer: UPDATE body bytes → the abstract message of Model/ErrHandling.lean.

  Mirrors the byte-level part of pkg/packet/bgp/bgp.go:
    BGPUpdate.DecodeFromBytes (withdrawn routes, total attribute length, attribute framing, NLRI),
    IPAddrPrefix.decodeFromBytes / decodePrefix, PathAttribute.DecodeFromBytes (header, flags),
    the DecodeFromBytes of ORIGIN, AS_PATH (+ validateAsPathValueBytes), NEXT_HOP, MED, LOCAL_PREF,
    ATOMIC_AGGREGATE, AGGREGATOR, COMMUNITIES, ORIGINATOR_ID, CLUSTER_LIST, MP_REACH_NLRI,
    MP_UNREACH_NLRI (unicast/multicast IPv4/IPv6 only), EXTENDED_COMMUNITIES (length rule only),
    AS4_PATH, AS4_AGGREGATOR, LARGE_COMMUNITY, PathAttributeUnknown.
  Not modelled (the harness never generates them; `parse` answers `none`): ADD-PATH, PMSI_TUNNEL,
  TUNNEL_ENCAP, IP6_EXTENDED_COMMUNITIES, AIGP, LS, PREFIX_SID values, other MP families.
  This layer carries no theorem of its own: it is tied to the code by the correspondence run and
  feeds the abstract layer, about which the theorems are.
-/
import Model.ErrHandling
namespace UpdWire
open ErrH

abbrev Bytes := List Nat

def u16 (a b : Nat) : Nat := a * 256 + b

/-- IPAddrPrefix.decodeFromBytes + decodePrefix + Len: error or encoded length -/
def prefixLen (data : Bytes) (addrlen : Nat) : Except (Nat × Nat) Nat :=
  match data with
  | [] => .error (3, 1)
  | bl :: rest =>
    let bytelen := (bl + 7) / 8
    if rest.length < bytelen then .error (3, 10)
    else if bl > addrlen * 8 then .error (3, 10)
    else .ok (1 + bytelen)

def be32 (d : Bytes) : Nat :=
  ((d.getD 0 0 * 256 + d.getD 1 0) * 256 + d.getD 2 0) * 256 + d.getD 3 0

/-- withdrawn-routes loop: `routelen` bytes remain to be consumed; with ADD-PATH (`ap`) every prefix
    is preceded by a 4-octet path identifier.  Result: rest of the data, identifiers in order -/
def scanWithdrawn (ap : Bool) : Nat → Nat → Bytes → List Nat → Except (Nat × Nat) (Bytes × List Nat)
  | 0, _, data, ids => .ok (data, ids)
  | fuel + 1, routelen, data, ids =>
    if routelen == 0 then .ok (data, ids)
    else if ap && data.length < 4 then .error (3, 1)
    else
      let id := if ap then be32 data else 0
      let d := if ap then data.drop 4 else data
      match prefixLen d 4 with
      | .error e => .error e
      | .ok w =>
        let wl := w + (if ap then 4 else 0)
        if wl > routelen then .error (3, 1)
        else scanWithdrawn ap fuel (routelen - wl) (d.drop w) (ids ++ [id])

/-- NLRI loop (also the prefix loops of MP_REACH / MP_UNREACH).  A missing path identifier is
    reported as (0, 0); the caller maps it to its own subcode. -/
def scanPrefixes (ap : Bool) : Nat → Bytes → Nat → List Nat → Except (Nat × Nat) (List Nat)
  | 0, _, _, ids => .ok ids
  | fuel + 1, data, addrlen, ids =>
    if data.isEmpty then .ok ids
    else if ap && data.length < 4 then .error (0, 0)
    else
      let id := if ap then be32 data else 0
      let d := if ap then data.drop 4 else data
      match prefixLen d addrlen with
      | .error e => .error e
      | .ok w => scanPrefixes ap fuel (d.drop w) addrlen (ids ++ [id])

/-- validateAsPathValueBytes loop: segment types, or none when malformed -/
def asSegs (asSize : Nat) : Nat → Bytes → Option (List Nat)
  | 0, _ => some []
  | fuel + 1, d =>
    match d with
    | [] => some []
    | [_] => none
    | st :: num :: rest =>
      if st == 0 || st > 4 then none
      else if num == 0 then none
      else if num * asSize > rest.length then none
      else (asSegs asSize fuel (rest.drop (num * asSize))).map (st :: ·)

def asPath (use2 : Bool) (value : Bytes) : Option (List Nat) :=
  if value.length % 2 != 0 then none
  else asSegs (if use2 then 2 else 4) value.length value

def addrLenOf (afi : Nat) : Nat := if afi == 2 then 16 else 4

def familySupported (afi safi : Nat) : Bool :=
  (afi == 1 || afi == 2) && (safi == 1 || safi == 2)

/-- type-specific part of each attribute's DecodeFromBytes, after the generic header succeeded.
    `none` = outside the modelled fragment. -/
def attrValue (use2 ap4 ap6 : Bool) (typ flags : Nat) (value : Bytes) : Option AttrObs :=
  -- IsAddPathEnabled(true, family): only the two unicast families are ever negotiated here
  let apOf (afi safi : Nat) : Bool := (afi == 1 && safi == 1 && ap4) || (afi == 2 && safi == 1 && ap6)
  let len := value.length
  let base : AttrObs := { typ := typ, flags := flags }
  let bad (c s : Nat) : Option AttrObs := some { base with derr := some (c, s) }
  match typ with
  | 1 => if len != 1 then bad 3 1 else some { base with origin := value.head?.getD 0 }
  | 2 =>
    if len == 0 then some base
    else match asPath use2 value with
      | none => bad 3 11
      | some segs => some { base with segs := segs }
  | 3 => if len != 4 && len != 16 then bad 3 5 else some { base with nh := value }
  | 4 => if len != 4 then bad 3 5 else some base
  | 5 => if len != 4 then bad 3 5 else some base
  | 6 => if len != 0 then bad 3 5 else some base
  | 7 => if len != 6 && len != 8 then bad 3 5 else some base
  | 8 => if len % 4 != 0 then bad 3 5 else some base
  | 9 => if len != 4 then bad 3 5 else some base
  | 10 => if len % 4 != 0 then bad 3 5 else some base
  | 14 =>
    if len < 3 then bad 3 5
    else
      let afi := u16 (value.getD 0 0) (value.getD 1 0)
      let safi := value.getD 2 0
      let v := value.drop 3
      match v with
      | [] => bad 3 5
      | nhl :: v1 =>
        if v1.length < nhl then bad 3 5
        else
          let eff := if nhl == 48 then 32 else if nhl == 12 then 4 else if nhl == 24 then 16 else nhl
          if eff == 0 && safi != 133 && safi != 134 && safi != 241 then bad 3 5
          else if eff != 0 && eff != 4 && eff != 16 && eff != 32 then bad 3 5
          else
            let v2 := v1.drop nhl
            if v2.isEmpty then bad 3 5
            else if !familySupported afi safi then none
            else match scanPrefixes (apOf afi safi) v2.length (v2.drop 1) (addrLenOf afi) [] with
              | .error (0, 0) => bad 3 5
              | .error _ => bad 3 10
              | .ok ids => some { base with afi := afi, safi := safi, npfx := ids.length, ids := ids }
  | 15 =>
    if len < 3 then bad 3 5
    else
      let afi := u16 (value.getD 0 0) (value.getD 1 0)
      let safi := value.getD 2 0
      if !familySupported afi safi then none
      else match scanPrefixes (apOf afi safi) len (value.drop 3) (addrLenOf afi) [] with
        | .error (0, 0) => bad 3 5
        | .error _ => bad 3 10
        | .ok ids => some { base with afi := afi, safi := safi, npfx := ids.length, ids := ids }
  | 16 => if len % 8 != 0 then bad 3 5 else some base
  | 17 =>
    if len == 0 then some base
    else match asPath false value with
      | none => bad 3 11
      | some _ => some base
  | 18 => if len != 8 then bad 3 1 else some base
  | 32 => if len % 12 != 0 then bad 3 5 else some base
  | _ => if knownType typ then none else some base

structure OneAttr where
  obs  : AttrObs
  plen : Nat      -- p.Len(): header + declared length
  deriving Repr

/-- PathAttribute.DecodeFromBytes followed by the type-specific decoder; `data` has ≥ 3 bytes -/
def oneAttr (use2 ap4 ap6 : Bool) (data : Bytes) : Option OneAttr :=
  let flags := data.getD 0 0
  let typ := data.getD 1 0
  let base : AttrObs := { typ := typ, flags := flags }
  let ext := bit flags 0x10
  if ext && data.length < 4 then
    some ⟨{ base with derr := some (3, 5) }, 4⟩
  else
    let length := if ext then u16 (data.getD 2 0) (data.getD 3 0) else data.getD 2 0
    let hl := if ext then 4 else 3
    let body := data.drop hl
    if body.length < length then some ⟨{ base with derr := some (3, 5) }, hl + length⟩
    else if !flagsOk typ flags then some ⟨{ base with derr := some (3, 4) }, hl + length⟩
    else (attrValue use2 ap4 ap6 typ flags (body.take length)).map (fun o => ⟨o, hl + length⟩)

/-- attribute loop: returns (items reversed, stop, rest of data after the attribute field) -/
def scanAttrs (use2 ap4 ap6 : Bool) : Nat → Nat → Bytes → List AttrObs → Option (List AttrObs × Stop × Bytes)
  | 0, _, data, acc => some (acc, .done, data)
  | fuel + 1, pathlen, data, acc =>
    if pathlen == 0 then some (acc, .done, data)
    else if pathlen < 3 then some (acc, .short, data.drop pathlen)
    else match oneAttr use2 ap4 ap6 data with
      | none => none
      | some a =>
        if a.plen % 65536 > pathlen || data.length < a.plen then
          some (acc, .overrun a.obs, data.drop pathlen)
        else scanAttrs use2 ap4 ap6 fuel (pathlen - a.plen % 65536) (data.drop a.plen) (a.obs :: acc)

/-- BGPUpdate.DecodeFromBytes, byte level.  `ap4` / `ap6`: ADD-PATH receive negotiated for IPv4 /
    IPv6 unicast.  `none` = outside the modelled fragment. -/
def parse (use2 : Bool) (data : Bytes) (ap4 : Bool := false) (ap6 : Bool := false) : Option AMsg :=
  if data.length < 2 then some { pre := some (3, 1) }
  else
    let wlen := u16 (data.getD 0 0) (data.getD 1 0)
    let d1 := data.drop 2
    if d1.length < wlen then some { pre := some (3, 1) }
    else match scanWithdrawn ap4 (wlen + 1) wlen d1 [] with
      | .error e => some { pre := some e }
      | .ok (d2, wids) =>
        if d2.length < 2 then some { pre := some (3, 1) }
        else
          let tlen := u16 (d2.getD 0 0) (d2.getD 1 0)
          let d3 := d2.drop 2
          if d3.length < tlen then some { pre := some (3, 1) }
          else match scanAttrs use2 ap4 ap6 (tlen + 1) tlen d3 [] with
            | none => none
            | some (acc, stop, rest) =>
              match scanPrefixes ap4 (rest.length + 1) rest 4 [] with
              | .error (0, 0) => some { wd := wids.length, wdIds := wids, items := acc.reverse, stop := stop, nlriErr := some (3, 1) }
              | .error e => some { wd := wids.length, wdIds := wids, items := acc.reverse, stop := stop, nlriErr := some e }
              | .ok nids => some { wd := wids.length, wdIds := wids, items := acc.reverse, stop := stop,
                                   nlri := nids.length, nlriIds := nids }

end UpdWire
