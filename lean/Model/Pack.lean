/-
C11 — model of UPDATE packing: internal/pkg/table/message.go
  CreateUpdateMsgFromPaths, packerV4 (add, pack), packerMP (add, pack, split), newPacker,
  maxUpdateMessageLength; pkg/packet/bgp/bgp.go BGPMessage.Serialize (length cap),
  BGPUpdate / MP_REACH / MP_UNREACH serialised lengths; pkg/server/fsm.go sendMessageloop send().

Abstractions (tied by the correspondence run, see go/overlay/.../zz_verif_c11_test.go):
  * an attribute set is an opaque key (identity of the serialised bytes of all attributes other
    than MP_REACH_NLRI) together with its encoded length (what the packers add up with Len());
  * next hop(s) carried in MP_REACH_NLRI: opaque key + encoded length `len` (as Serialize writes
    it) + `clen`, the length NewPathAttributeMpReachNLRI declares (they differ for VPNv6 with a
    link-local next hop) + `v4` (the next hop is an IPv4 address); `none` = next hop is the
    NEXT_HOP attribute, i.e. inside the attribute bytes. IPv4 unicast with `some h`, `h.v4`: IPv4
    next hop carried in MP_REACH_NLRI without NEXT_HOP attribute (RFC 4760) — packerV4 cages it on
    all attribute bytes including the path's MP_REACH_NLRI (`Path.grp` = identity of those bytes)
    and synthesises NEXT_HOP; `h.v4 = false`: RFC 5549;
  * a prefix is (bit length, identity); families: 0 = IPv4 unicast (packerV4), 1 = IPv6 unicast,
    2 = VPNv4, 3 = VPNv6 (one label), any other number = another packerMP family without extra
    NLRI octets.
Core-only Lean; everything is total and executable.
-/
namespace Pack

/-- bgp.MarshallingOption as the packers read it: ExtendedMessage and the families with
    ADD-PATH send mode (IsAddPathEnabled(false, family, options)). -/
structure Opts where
  ext : Bool
  /-- negotiated ADD-PATH mode per family, `MarshallingOption.AddPath[f]`: bit 0 (value 1) =
      BGP_ADD_PATH_RECEIVE, bit 1 (value 2) = BGP_ADD_PATH_SEND; a family not listed has mode 0 -/
  apModes : List (Nat × Nat)
deriving Repr

/-- message.go maxUpdateMessageLength / bgp.go BGPMessage.Serialize cap for UPDATE. -/
def limit (o : Opts) : Nat := if o.ext then 65535 else 4096

/-- `addpathNLRILen` of packerV4.pack / packerMP.pack. -/
def apMode (o : Opts) (f : Nat) : Nat :=
  match o.apModes.find? (fun e => e.1 == f) with
  | some e => e.2
  | none => 0

/-- `bgp.IsAddPathEnabled(false, f, options)`: the SEND bit of the negotiated mode. Path identifiers
    are written (NLRI serialisation), budgeted (packers) and kept in the last-action key
    (CreateUpdateMsgFromPaths wireKey) iff this holds — receive-only (mode 1) does not count. -/
def apSend (o : Opts) (f : Nat) : Bool := apMode o f / 2 % 2 == 1

def ap (o : Opts) (f : Nat) : Nat := if apSend o f then 4 else 0

structure Attrs where
  key : Nat
  len : Nat
deriving DecidableEq, Repr

structure NH where
  key : Nat
  len : Nat
  clen : Nat
  /-- the (first) next hop is an IPv4 address (`path.GetNexthop().Is4()`): for IPv4 unicast this is
      the RFC 4760 case "IPv4 next hop in MP_REACH_NLRI, no NEXT_HOP attribute", handled by the
      cages of packerV4; `false` is the RFC 5549 case (packerV4.mpPaths) -/
  v4 : Bool
deriving DecidableEq, Repr

structure Route where
  attrs : Attrs
  nh : Option NH
deriving DecidableEq, Repr

/-- prefix + path identifier (Path.localID) -/
structure Nlri where
  bits : Nat
  pfx : Nat
  id : Nat
deriving DecidableEq, Repr

/-- one route change: `act = none` is a withdrawal -/
structure Change where
  fam : Nat
  n : Nlri
  act : Option Route
deriving DecidableEq, Repr

/-- a *table.Path as the packer sees it: the change plus Path.attrsHash (GetHash) -/
structure Path where
  c : Change
  hash : Nat
  /-- identity of the serialised bytes of the path's own MP_REACH_NLRI attribute (0 = none). They are
      part of packerV4's cage bytes (all attributes), so the next hop they contain is part of the
      grouping key; routes of one received UPDATE share them. -/
  grp : Nat
deriving DecidableEq, Repr

inductive Item where
  | eor (f : Nat)
  | path (p : Path)
deriving DecidableEq, Repr

/-- an UPDATE message as emitted by the packers -/
inductive Msg where
  | wd4 (ns : List Nlri)                                  -- WithdrawnRoutes only
  | ann4 (a : Attrs) (nh : Option NH) (ns : List Nlri)    -- attributes (+ synthesised NEXT_HOP) + NLRI
  | unreach (f : Nat) (ns : List Nlri)                    -- MP_UNREACH_NLRI only
  | reach (f : Nat) (a : Attrs) (nh : Option NH) (ns : List Nlri)  -- attributes + MP_REACH_NLRI
  | eor (f : Nat)
deriving DecidableEq, Repr

/-! ### encoded sizes (bgp.go) -/

/-- label + route distinguisher octets in front of a VPN prefix -/
def famExtra (f : Nat) : Nat := if f = 2 ∨ f = 3 then 11 else 0

/-- NLRI.Len(): length octet + prefix octets (+ label and RD for VPN) -/
def nlriLen (f : Nat) (n : Nlri) : Nat := 1 + (n.bits + 7) / 8 + famExtra f

/-- one NLRI entry on the wire, with the path identifier when ADD-PATH is on -/
def entryLen (o : Opts) (f : Nat) (n : Nlri) : Nat := nlriLen f n + ap o f

def sumLen (o : Opts) (f : Nat) (ns : List Nlri) : Nat := (ns.map (entryLen o f)).sum

/-- PathAttribute header: flags, type, 1-octet length, or 2 octets when the value exceeds 255 -/
def hdr (v : Nat) : Nat := if v > 255 then 4 else 3

def nhLen : Option NH → Nat
  | none => 0
  | some h => h.len

def nhCLen : Option NH → Nat
  | none => 0
  | some h => h.clen

/-- packerV4.pack: when the path has no NEXT_HOP attribute one is synthesised from
    `paths[0].GetNexthop()` and appended (flags, type, length, 4 octets) -/
def synthNH : Option NH → Nat
  | none => 0
  | some _ => 7

/-- serialised length of the whole message (19-octet header included) -/
def size (o : Opts) : Msg → Nat
  | .wd4 ns => 23 + sumLen o 0 ns
  | .ann4 a nh ns => 23 + a.len + synthNH nh + sumLen o 0 ns
  | .unreach f ns => 23 + hdr (3 + sumLen o f ns) + 3 + sumLen o f ns
  | .reach f a nh ns => 23 + a.len + hdr (5 + nhLen nh + sumLen o f ns) + 5 + nhLen nh + sumLen o f ns
  | .eor f => if f = 0 then 23 else 29

/-- BGPMessage.Serialize succeeds (sendMessageloop send() writes the message) -/
def fits (o : Opts) (m : Msg) : Bool := decide (size o m ≤ limit o)

/-! ### splitting -/

/-- packerV4.pack `loop`/`split`: chunks of at most `n` entries (fuel ≥ length) -/
def chunkN {α : Type} (n : Nat) : Nat → List α → List (List α)
  | 0, _ => []
  | _ + 1, [] => []
  | fuel + 1, x :: xs => (x :: xs).take n :: chunkN n fuel ((x :: xs).drop n)

/-- packerV4.pack `maxNLRIs` after the repair: Go's truncating division of a possibly negative
    numerator, then `if max < 1 { max = 1 }`. -/
def maxN (o : Opts) (attrsLen : Nat) : Nat :=
  max 1 ((limit o - (23 + attrsLen)) / (5 + ap o 0))

/-- inner loop of packerMP.pack `split`: take entries while the byte budget lasts; the first
    entry is always taken; stop once `used ≥ budget`. Returns (taken, rest). -/
def takeB (o : Opts) (f : Nat) (budget : Nat) : Nat → Bool → List Nlri → List Nlri × List Nlri
  | _, _, [] => ([], [])
  | used, first, p :: ps =>
    let l := entryLen o f p
    if !first && used + l > budget then ([], p :: ps)
    else if used + l ≥ budget then ([p], ps)
    else
      let r := takeB o f budget (used + l) false ps
      (p :: r.1, r.2)

/-- outer loop of `split` (fuel ≥ length) -/
def chunkB (o : Opts) (f : Nat) (budget : Nat) : Nat → List Nlri → List (List Nlri)
  | 0, _ => []
  | _ + 1, [] => []
  | fuel + 1, p :: ps =>
    let r := takeB o f budget 0 true (p :: ps)
    r.1 :: chunkB o f budget fuel r.2

/-- packerMP.pack `split(baseLen, paths, cb)`: `budget <= 0` → one message per path -/
def splitMP (o : Opts) (f : Nat) (base : Nat) (ns : List Nlri) : List (List Nlri) :=
  if limit o ≤ base then ns.map (fun n => [n])
  else chunkB o f (limit o - base) ns.length ns

/-- buckets in order of first appearance, members in input order. This is the functional form of
    "look the key up in the hashmap, append to the cage whose bytes are equal, else open a new
    cage" (packerV4.add, packerMP.pack) and of `m[f]` in CreateUpdateMsgFromPaths. Go iterates
    the maps in random order; only the order inside a bucket is observable. (fuel ≥ length) -/
def groupBy {α κ : Type} [DecidableEq κ] (key : α → κ) : Nat → List α → List (κ × List α)
  | 0, _ => []
  | _ + 1, [] => []
  | fuel + 1, x :: xs =>
    (key x, x :: xs.filter (fun y => key y = key x)) ::
      groupBy key fuel (xs.filter (fun y => !decide (key y = key x)))

/-! ### the packers -/

/-- an announcement inside a packer -/
structure Ann where
  n : Nlri
  r : Route
  hash : Nat
  grp : Nat
deriving DecidableEq, Repr

/-- `path.GetNexthop().Is4()` for an IPv4-unicast announcement: NEXT_HOP attribute, or an IPv4
    next hop in MP_REACH_NLRI -/
def nhIs4 : Option NH → Bool
  | none => true
  | some h => h.v4

def wdOf (p : Path) : Option Nlri :=
  match p.c.act with
  | none => some p.c.n
  | some _ => none

def annOf (p : Path) : Option Ann :=
  match p.c.act with
  | none => none
  | some r => some ⟨p.c.n, r, p.hash, p.grp⟩

def eorMsg (f : Nat) (e : Bool) : List Msg := if e then [Msg.eor f] else []

/-- packerV4.add + packerV4.pack -/
def packV4 (o : Opts) (ps : List Path) (e : Bool) : List Msg :=
  let wds := ps.filterMap wdOf
  let anns := ps.filterMap annOf
  let caged := anns.filter (fun a => nhIs4 a.r.nh)      -- path.GetNexthop().Is4()
  let mps := anns.filter (fun a => !nhIs4 a.r.nh)       -- RFC 5549: p.mpPaths
  (chunkN (maxN o 0) wds.length wds).map Msg.wd4
  ++ (groupBy (fun a : Ann => (a.hash, a.r.attrs, a.r.nh, a.grp)) caged.length caged).flatMap (fun g =>
        (chunkN (maxN o (g.1.2.1.len + synthNH g.1.2.2.1)) g.2.length (g.2.map (·.n))).map
          (Msg.ann4 g.1.2.1 g.1.2.2.1))
  ++ mps.map (fun a => Msg.reach 0 a.r.attrs a.r.nh [a.n])
  ++ eorMsg 0 e

/-- `baseReachLen` of packerMP.pack: 19+2+2+attrsLen + sampleReach.Len() + 1 − NLRI length -/
def baseReach (f : Nat) (a : Attrs) (nh : Option NH) (sample : Nlri) : Nat :=
  23 + a.len + (hdr (5 + nhCLen nh + nlriLen f sample) + 5 + nhCLen nh) + 1

/-- packerMP.add + packerMP.pack -/
def packMP (o : Opts) (f : Nat) (ps : List Path) (e : Bool) : List Msg :=
  let wds := ps.filterMap wdOf
  let anns := ps.filterMap annOf
  (splitMP o f 30 wds).map (Msg.unreach f)
  ++ (groupBy (fun a : Ann => (a.r.attrs, a.r.nh)) anns.length anns).flatMap (fun g =>
        match g.2 with
        | [] => []
        | a0 :: _ =>
          (splitMP o f (baseReach f g.1.1 g.1.2 a0.n) (g.2.map (·.n))).map (Msg.reach f g.1.1 g.1.2))
  ++ eorMsg f e

def famOf : Item → Nat
  | .eor f => f
  | .path p => p.c.fam

def pathOf : Item → Option Path
  | .eor _ => none
  | .path p => some p

def isEor : Item → Bool
  | .eor _ => true
  | .path _ => false

/-- newPacker + add + pack for one family -/
def packFam (o : Opts) (f : Nat) (xs : List Item) : List Msg :=
  if f = 0 then packV4 o (xs.filterMap pathOf) (xs.any isEor)
  else packMP o f (xs.filterMap pathOf) (xs.any isEor)

/-- key of a route at the receiver: the path identifier is on the wire only with ADD-PATH.
    Also the key of the `last` map in CreateUpdateMsgFromPaths (`wireKey`: PathLocalKey with
    Id = 0 unless ADD-PATH send is enabled for the family). -/
def wkey (o : Opts) (c : Change) : Nat × Nat × Nat × Nat :=
  (c.fam, c.n.bits, c.n.pfx, if ap o c.fam = 0 then 0 else c.n.id)

def sameKey (o : Opts) (p : Path) : Item → Bool
  | .eor _ => false
  | .path q => decide (wkey o q.c = wkey o p.c)

/-- the `last` map of CreateUpdateMsgFromPaths: a path is kept iff no later path has its key;
    EOR markers are always handed to the packer. -/
def dedup (o : Opts) : List Item → List Item
  | [] => []
  | .eor f :: r => .eor f :: dedup o r
  | .path p :: r => if r.any (sameKey o p) then dedup o r else .path p :: dedup o r

/-- CreateUpdateMsgFromPaths -/
def pack (o : Opts) (is : List Item) : List Msg :=
  (groupBy famOf (dedup o is).length (dedup o is)).flatMap (fun g => packFam o g.1 g.2)

/-- what sendMessageloop puts on the wire: messages whose serialisation fails are logged
    ("failed to serialize") and skipped -/
def wire (o : Opts) (is : List Item) : List Msg := (pack o is).filter (fits o)

/-- the messages send() reports and skips -/
def dropped (o : Opts) (is : List Item) : List Msg := (pack o is).filter (fun m => !fits o m)

/-! ### receiver -/

/-- the route changes an UPDATE carries, in processing order -/
def flat : Msg → List Change
  | .wd4 ns => ns.map (fun n => ⟨0, n, none⟩)
  | .ann4 a nh ns => ns.map (fun n => ⟨0, n, some ⟨a, nh⟩⟩)
  | .unreach f ns => ns.map (fun n => ⟨f, n, none⟩)
  | .reach f a nh ns => ns.map (fun n => ⟨f, n, some ⟨a, nh⟩⟩)
  | .eor _ => []

abbrev View := Nat × Nat × Nat × Nat → Option Route

def apply1 (o : Opts) (v : View) (c : Change) : View :=
  fun k => if k = wkey o c then c.act else v k

def applyCs (o : Opts) (cs : List Change) (v : View) : View := cs.foldl (apply1 o) v

def applyMsg (o : Opts) (v : View) (m : Msg) : View := applyCs o (flat m) v

def applyMsgs (o : Opts) (ms : List Msg) (v : View) : View := ms.foldl (applyMsg o) v

/-- the route changes of an input list, EOR markers left out -/
def changes (is : List Item) : List Change := is.filterMap (fun i => (pathOf i).map (·.c))

/-- the UPDATE that carries the change alone -/
def aloneMsg (c : Change) : Msg :=
  match c.act with
  | none => if c.fam = 0 then .wd4 [c.n] else .unreach c.fam [c.n]
  | some ⟨a, nh⟩ =>
    if c.fam = 0 ∧ nhIs4 nh = true then .ann4 a nh [c.n] else .reach c.fam a nh [c.n]

/-- the single-route encoding of the change fits the session's limit -/
def fitsAlone (o : Opts) (c : Change) : Bool := fits o (aloneMsg c)

end Pack
