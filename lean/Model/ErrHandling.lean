/-
  C06 — malformed UPDATEs are contained.  ABSTRACT layer of the model.

  An UPDATE is seen here as what the byte decoder (Model/UpdateWire.lean) observed:
  a list of attribute observations in wire order, how the attribute loop stopped, and
  the result of the NLRI scan.  The functions below mirror, branch for branch,

    pkg/packet/bgp/bgp.go       getErrorHandlingFromPathAttribute, MessageError.Stronger,
                                BGPUpdate.DecodeFromBytes (attribute loop + NLRI part)
    pkg/packet/bgp/validate.go  validatePathAttributeFlags, ValidateAttribute, ValidateUpdateMsg
    pkg/server/fsm.go           handlingError, recvMessageWithError, recvMessageloop
    internal/pkg/table/message.go UpdatePathAggregator4ByteAs (only its error exit)

  The code mirrored is the code WITH the two `fix:` commits of branch wt-C06
  (validation also runs after a discard-class decode error; an attribute that overruns the
  Total Path Attribute Length no longer skips the NLRI field).
  Core Lean only.
-/
namespace ErrH

/-- `bgp.ErrorHandling` (bgp.go): NONE < ATTRIBUTE_DISCARD < TREAT_AS_WITHDRAW < AFISAFI_DISABLE < SESSION_RESET -/
inductive Handling where
  | none | discard | withdraw | afisafi | reset
  deriving DecidableEq, Repr

def Handling.rank : Handling → Nat
  | .none => 0 | .discard => 1 | .withdraw => 2 | .afisafi => 3 | .reset => 4

/-- `bgp.MessageError`: TypeCode, SubTypeCode, ErrorHandling (Data is not modelled) -/
structure MErr where
  code : Nat
  sub  : Nat
  h    : Handling
  deriving DecidableEq, Repr

/-- `NewMessageError`: class SESSION_RESET -/
def MErr.fatal (code sub : Nat) : MErr := ⟨code, sub, .reset⟩

/-- `getErrorHandlingFromPathAttribute` (bgp.go) — regenerated from behaviour on every run
    (the harness asks `cls t` for all 256 types). -/
def attrClass (t : Nat) : Handling :=
  match t with
  | 1 => .withdraw   -- ORIGIN
  | 2 => .withdraw   -- AS_PATH
  | 17 => .withdraw  -- AS4_PATH
  | 3 => .withdraw   -- NEXT_HOP
  | 4 => .withdraw   -- MULTI_EXIT_DISC
  | 5 => .withdraw   -- LOCAL_PREF
  | 6 => .discard    -- ATOMIC_AGGREGATE
  | 7 => .discard    -- AGGREGATOR
  | 18 => .withdraw  -- AS4_AGGREGATOR
  | 8 => .withdraw   -- COMMUNITIES
  | 9 => .withdraw   -- ORIGINATOR_ID
  | 10 => .withdraw  -- CLUSTER_LIST
  | 14 => .afisafi   -- MP_REACH_NLRI
  | 15 => .afisafi   -- MP_UNREACH_NLRI
  | 16 => .withdraw  -- EXTENDED_COMMUNITIES
  | 25 => .withdraw  -- IP6_EXTENDED_COMMUNITIES
  | 22 => .withdraw  -- PMSI_TUNNEL
  | 32 => .withdraw  -- LARGE_COMMUNITY
  | 23 => .discard   -- TUNNEL_ENCAP
  | 26 => .discard   -- AIGP
  | _ => .discard

/-- `PathAttrFlags` map (bgp.go): expected flag octet (without EXTENDED/PARTIAL) per known type -/
def expectedFlags (t : Nat) : Option Nat :=
  match t with
  | 1 => some 0x40 | 2 => some 0x40 | 3 => some 0x40 | 4 => some 0x80 | 5 => some 0x40
  | 6 => some 0x40 | 7 => some 0xc0 | 8 => some 0xc0 | 9 => some 0x80 | 10 => some 0x80
  | 14 => some 0x80 | 15 => some 0x80 | 16 => some 0xc0 | 17 => some 0xc0 | 18 => some 0xc0
  | 22 => some 0xc0 | 23 => some 0xc0 | 25 => some 0xc0 | 26 => some 0x80 | 32 => some 0xc0
  | 29 => some 0x80 | 40 => some 0xc0
  | _ => none

def bit (f m : Nat) : Bool := f &&& m != 0

/-- `validatePathAttributeFlags` (validate.go) = "" -/
def flagsOk (t f : Nat) : Bool :=
  let opt := bit f 0x80
  let tr := bit f 0x40
  let par := bit f 0x20
  if !opt && !tr then false
  else if !opt && par then false
  else if opt && !tr && par then false
  else match expectedFlags t with
    | some e => e == (f &&& 0xcf)
    | none => true

/-- `GetPathAttribute` (bgp.go): types that decode into a specific Go type; everything else is
    `PathAttributeUnknown` -/
def knownType (t : Nat) : Bool :=
  [1,2,3,4,5,6,7,8,9,10,14,15,16,17,18,22,23,25,26,29,32,40].contains t

/-- What the decoder saw of ONE attribute.  `derr` is the (code, subcode) returned by the
    attribute's own DecodeFromBytes; the value fields are meaningful only when `derr = none`
    (they are the zero values of the Go struct otherwise). -/
structure AttrObs where
  typ   : Nat
  flags : Nat
  derr  : Option (Nat × Nat) := none
  origin : Nat := 0            -- PathAttributeOrigin.Value
  nh    : List Nat := []       -- PathAttributeNextHop.Value as bytes (4 or 16)
  segs  : List Nat := []       -- AS_PATH segment types, in order
  afi   : Nat := 0             -- MP_(UN)REACH
  safi  : Nat := 0
  npfx  : Nat := 0             -- MP_(UN)REACH number of prefixes
  ids   : List Nat := []      -- MP_(UN)REACH path identifiers of the prefixes (0 without ADD-PATH)
  deriving DecidableEq, Repr

/-- how the attribute loop of BGPUpdate.DecodeFromBytes ended -/
inductive Stop where
  | done                      -- pathlen reached 0
  | short                     -- 0 < pathlen < 3: TREAT_AS_WITHDRAW, rest skipped, NLRI still parsed
  | overrun (last : AttrObs)  -- last attribute's length exceeds the boundary: TREAT_AS_WITHDRAW
  deriving DecidableEq, Repr

/-- The decoder's view of one UPDATE body. -/
structure AMsg where
  pre   : Option (Nat × Nat) := none   -- fatal error before the attribute loop (withdrawn / total length)
  wd    : Nat := 0                      -- number of withdrawn routes
  items : List AttrObs := []            -- attributes fully inside the boundary, wire order
  stop  : Stop := .done
  nlriErr : Option (Nat × Nat) := none  -- fatal error while scanning the NLRI field
  nlri  : Nat := 0                      -- number of NLRI
  wdIds : List Nat := []                -- path identifiers of the withdrawn routes (0 without ADD-PATH)
  nlriIds : List Nat := []              -- path identifiers of the NLRI
  deriving Repr

/-- session parameters that the handling depends on -/
structure Cfg where
  revised : Bool      -- fsm.isTreatAsWithdraw
  ebgp    : Bool      -- fsm.isEBGP
  confed  : Bool      -- fsm.isConfed
  loopOk  : Bool      -- allowLoopback
  v4      : Bool      -- RF_IPv4_UC negotiated
  v6      : Bool      -- RF_IPv6_UC negotiated
  deriving DecidableEq, Repr

/-- `(*MessageError).Stronger(cur)` -/
def stronger (e : MErr) (cur : Option MErr) : Bool :=
  match cur with
  | none => true
  | some c => e.h.rank > c.h.rank

/-- `if e.Stronger(strongest) { strongest = e }` -/
def keep (cur : Option MErr) (e : MErr) : Option MErr :=
  if stronger e cur then some e else cur

/-- class given to an attribute decode error inside the UPDATE loop:
    flags error ⇒ TREAT_AS_WITHDRAW, otherwise the per-type class -/
def itemErr (a : AttrObs) : Option MErr :=
  match a.derr with
  | none => none
  | some (c, s) => some ⟨c, s, if s == 4 then .withdraw else attrClass a.typ⟩

def keepO (cur : Option MErr) (e : Option MErr) : Option MErr :=
  match e with
  | none => cur
  | some e => keep cur e

/-- the attribute is appended to msg.PathAttributes unless its error is discard-class -/
def kept (a : AttrObs) : Bool :=
  match itemErr a with
  | some e => e.h != .discard
  | none => true

/-- attribute loop of `BGPUpdate.DecodeFromBytes`: (strongest error, msg.PathAttributes) -/
def decodeLoop : List AttrObs → Option MErr → Option MErr × List AttrObs
  | [], cur => (cur, [])
  | a :: rest, cur =>
    let (e, l) := decodeLoop rest (keepO cur (itemErr a))
    (e, if kept a then a :: l else l)

def lenErr : MErr := ⟨3, 5, .withdraw⟩

structure Decoded where
  err   : Option MErr
  attrs : List AttrObs
  wd    : Nat
  nlri  : Nat
  deriving Repr

/-- `BGPUpdate.DecodeFromBytes` on the abstract message -/
def decode (m : AMsg) : Decoded :=
  match m.pre with
  | some (c, s) => ⟨some (.fatal c s), [], 0, 0⟩
  | none =>
    let (e, l) := decodeLoop m.items none
    let e := match m.stop with
      | .done => e
      | .short => keep e lenErr
      | .overrun a => keep (keepO e (itemErr a)) lenErr
    match m.nlriErr with
    | some (c, s) => ⟨some (.fatal c s), l, m.wd, 0⟩
    | none => ⟨e, l, m.wd, m.nlri⟩

/-! ### ValidateAttribute / ValidateUpdateMsg -/

def familyOk (c : Cfg) (afi safi : Nat) : Bool :=
  (afi == 1 && safi == 1 && c.v4) || (afi == 2 && safi == 1 && c.v6)

def allZero : List Nat → Bool
  | [] => true
  | x :: xs => x == 0 && allZero xs

/-- netip.Addr.IsLoopback for a 4- or 16-byte address (4-in-6 is unmapped first) -/
def isLoopback (a : List Nat) : Bool :=
  if a.length == 4 then a.head? == some 127
  else if a.length == 16 then
    (allZero (a.take 15) && a.getLast? == some 1) ||
    (allZero (a.take 10) && (a.drop 10).take 2 == [255, 255] && (a.drop 12).head? == some 127)
  else false

def isV4Mapped (a : List Nat) : Bool :=
  a.length == 16 && allZero (a.take 10) && (a.drop 10).take 2 == [255, 255]

/-- the NEXT_HOP test of ValidateAttribute -/
def nhBad (c : Cfg) (a : List Nat) : Bool :=
  let first := a.head?.getD 0
  (!c.loopOk && isLoopback a) || first == 0 ||
    ((a.length == 4 || isV4Mapped a) && first &&& 0xe0 == 0xe0)

/-- `ValidateAttribute`: at most one error per attribute -/
def validateAttr (c : Cfg) (a : AttrObs) : Option MErr :=
  if a.typ == 15 || a.typ == 14 then
    if familyOk c a.afi a.safi then none else some (.fatal 0 0)
  else if a.typ == 1 then
    if a.origin != 0 && a.origin != 1 && a.origin != 2 then some ⟨3, 6, attrClass 1⟩ else none
  else if a.typ == 3 then
    if nhBad c a.nh then some ⟨3, 8, attrClass 3⟩ else none
  else if a.typ == 2 then
    if c.ebgp then
      if c.confed then
        match a.segs with
        | [] => some (.fatal 3 11)
        | s :: _ => if s != 3 then some (.fatal 3 11) else none
      else if a.segs.any (fun s => s == 3 || s == 4) then some ⟨3, 11, attrClass 2⟩ else none
    else none
  else if !knownType a.typ then
    if !bit a.flags 0x80 then some (.fatal 3 2) else none
  else none

def dupErr : MErr := ⟨3, 1, .discard⟩
def missErr : MErr := ⟨3, 3, .withdraw⟩

/-- the `for _, a := range m.PathAttributes` loop of ValidateUpdateMsg.
    `seen` = types met so far.  Result: `inl err` for the early `return false, err`,
    else `inr (strongest, newAttrs, seen)` -/
def validateLoop (c : Cfg) : List AttrObs → List Nat → Option MErr →
    Sum MErr (Option MErr × List AttrObs × List Nat)
  | [], seen, cur => .inr (cur, [], seen)
  | a :: rest, seen, cur =>
    if !seen.contains a.typ then
      match validateAttr c a with
      | some e =>
        if e.h == .reset then .inl e
        else
          match validateLoop c rest (a.typ :: seen) (keep cur e) with
          | .inl e => .inl e
          | .inr (s, l, sn) => .inr (s, a :: l, sn)
      | none =>
        match validateLoop c rest (a.typ :: seen) cur with
        | .inl e => .inl e
        | .inr (s, l, sn) => .inr (s, a :: l, sn)
    else if a.typ == 14 || a.typ == 15 then .inl (.fatal 3 1)
    else validateLoop c rest seen (keep cur dupErr)

/-- `ValidateUpdateMsg`: (error, m.PathAttributes afterwards).  On an early return the attribute
    list is left as it was. -/
def validate (c : Cfg) (attrs : List AttrObs) (wd nlri : Nat) : Option MErr × List AttrObs :=
  if (nlri > 0 || wd > 0) && !c.v4 then (some (.fatal 0 0), attrs)
  else
    match validateLoop c attrs [] none with
    | .inl e => (some e, attrs)
    | .inr (cur, l, seen) =>
      if seen.contains 14 || nlri > 0 then
        let missing := !seen.contains 1 || !seen.contains 2 || (nlri > 0 && !seen.contains 3)
        (if missing then keep cur missErr else cur, l)
      else (cur, l)

/-! ### fsm.go -/

/-- `handlingError` for an UPDATE -/
def handlingError (c : Cfg) (e : MErr) : Handling :=
  if c.revised then (if e.h == .afisafi then .reset else e.h) else .reset

/-- What the session does with the message. -/
inductive Action where
  | install (attrs : List AttrObs)        -- handling NONE: routes created with these attributes
  | discardAttrs (attrs : List AttrObs)   -- handling ATTRIBUTE_DISCARD: routes created with the surviving attributes
  | withdrawAll (attrs : List AttrObs)    -- handling TREAT_AS_WITHDRAW: every NLRI of the message becomes a withdrawal
                                          -- (attrs = msg.PathAttributes as delivered; only MP_(UN)REACH are still used)
  | reset (code sub : Nat)                -- NOTIFICATION code/subcode, session closed
  deriving DecidableEq, Repr

def Action.rank : Action → Nat
  | .install _ => 0 | .discardAttrs _ => 1 | .withdrawAll _ => 2 | .reset _ _ => 4

/-- `UpdatePathAggregator4ByteAs`: AS4_AGGREGATOR without a (decoded) AGGREGATOR is fatal -/
def aggErr (attrs : List AttrObs) : Bool :=
  attrs.any (fun a => a.typ == 18) && !attrs.any (fun a => a.typ == 7 && a.derr.isNone)

/-- tail of the UPDATE branch of recvMessageloop once `handling` is known and is not reset -/
def finish (h : Handling) (attrs : List AttrObs) : Action :=
  if aggErr attrs then .reset 3 1
  else match h with
    | .none => .install attrs
    | .discard => .discardAttrs attrs
    | _ => .withdrawAll attrs

/-- recvMessageWithError + recvMessageloop for one UPDATE.
    Validation runs when the decode handling is NONE or ATTRIBUTE_DISCARD (fix A); after a
    TREAT_AS_WITHDRAW decode error it is skipped (attributes may be half-decoded). -/
def sessionAction (c : Cfg) (m : AMsg) : Action :=
  let d := decode m
  let dh : Handling := match d.err with
    | none => .none
    | some e => handlingError c e
  match dh, d.err with
  | .reset, some e => .reset e.code e.sub
  | .withdraw, _ => finish .withdraw d.attrs
  | _, _ =>
    match validate c d.attrs d.wd d.nlri with
    | (none, l) => finish dh l
    | (some ve, l) =>
      let vh := handlingError c ve
      if vh == .reset then .reset ve.code ve.sub
      else finish (if vh.rank > dh.rank then vh else dh) l

/-! ### internal/pkg/table/table_manager.go ProcessMessage: what the delivered UPDATE turns into -/

/-- number of routes created and of withdrawals executed for one delivered UPDATE -/
structure Effect where
  announced : Nat
  withdrawn : Nat
  deriving DecidableEq, Repr

/-- `reach = a` / `unreach = a` in the attribute loop of ProcessMessage: the LAST attribute of the
    type counts; its prefix count (0 when its decoder failed: Value stays empty) -/
def lastNpfx (attrs : List AttrObs) (t : Nat) : Nat :=
  (attrs.foldl (fun acc a => if a.typ == t then some a.npfx else acc) none).getD 0

/-- `BGPUpdate.IsEndOfRib` -/
def isEOR (attrs : List AttrObs) (wd nlri : Nat) : Bool :=
  wd == 0 && nlri == 0 &&
    (match attrs with
     | [] => true
     | [a] => a.typ == 15 && a.npfx == 0
     | _ => false)

/-- `table.ProcessMessage`: NLRI and MP_REACH prefixes become routes (withdrawals under
    treat-as-withdraw); the WITHDRAWN ROUTES field and MP_UNREACH prefixes ALWAYS become withdrawals -/
def processMessage (taw : Bool) (attrs : List AttrObs) (wd nlri : Nat) : Effect :=
  if isEOR attrs wd nlri then ⟨0, 0⟩
  else
    let reach := lastNpfx attrs 14
    let unreach := lastNpfx attrs 15
    if taw then ⟨0, nlri + reach + (wd + unreach)⟩ else ⟨nlri + reach, wd + unreach⟩

/-- peer.handleUpdate → ProcessMessage for the message recvMessageloop delivers (none: session reset,
    nothing is delivered) -/
def effect (c : Cfg) (m : AMsg) : Option Effect :=
  let d := decode m
  match sessionAction c m with
  | .install l => some (processMessage false l d.wd d.nlri)
  | .discardAttrs l => some (processMessage false l d.wd d.nlri)
  | .withdrawAll l => some (processMessage true l d.wd d.nlri)
  | .reset _ _ => none

/-! ### the receive loop over a whole session -/

def Action.isReset : Action → Bool
  | .reset _ _ => true
  | _ => false

/-- `for ctx.Err() == nil { recvMessageWithError …; UPDATE branch … }` of recvMessageloop: UPDATEs are
    handled one after the other until one resets the session (`return`).  The loop carries NO state
    from one UPDATE to the next: every iteration sees only its own message and the session's
    negotiated parameters `c`. -/
def sessionRun (c : Cfg) : List AMsg → List Action
  | [] => []
  | m :: rest =>
    let a := sessionAction c m
    if a.isReset then [a] else a :: sessionRun c rest

/-! ### the route KEY: ProcessMessage's paths carry the path identifier of their NLRI -/

/-- path identifiers of the LAST attribute of type `t` (cf. `lastNpfx`) -/
def lastIds (attrs : List AttrObs) (t : Nat) : List Nat :=
  (attrs.foldl (fun acc a => if a.typ == t then some a.ids else acc) none).getD []

/-- `table.ProcessMessage`, path by path, in its order (NLRI, MP_REACH, WITHDRAWN ROUTES, MP_UNREACH):
    (is a withdrawal, path identifier = `p.remoteID = nlri.ID`).  Adj-RIB-In and Loc-RIB match a
    withdrawal on (source, prefix, path identifier). -/
def processPaths (taw : Bool) (attrs : List AttrObs) (wdIds nlriIds : List Nat) : List (Bool × Nat) :=
  if isEOR attrs wdIds.length nlriIds.length then []
  else
    nlriIds.map (fun i => (taw, i)) ++ (lastIds attrs 14).map (fun i => (taw, i)) ++
      (wdIds.map (fun i => (true, i)) ++ (lastIds attrs 15).map (fun i => (true, i)))

/-- the paths handed to the RIBs for the message recvMessageloop delivers (none: session reset).
    A delivered message has sound length fields and NLRI, so the identifiers are those of `m`. -/
def effectPaths (c : Cfg) (m : AMsg) : Option (List (Bool × Nat)) :=
  match sessionAction c m with
  | .install l => some (processPaths false l m.wdIds m.nlriIds)
  | .discardAttrs l => some (processPaths false l m.wdIds m.nlriIds)
  | .withdrawAll l => some (processPaths true l m.wdIds m.nlriIds)
  | .reset _ _ => none

end ErrH
