/-
  The per-speaker transition system behind C01 / C02 / C15: Adj-RIB-In per peer, Loc-RIB per
  prefix (BestPath.calcStep), the (best, old) delta of destination.GetChanges, export filtering
  (server.go filterpath family, peer.go filterPathFromSourcePeer) and what each peer has been
  told (its view).  One `Op` = one region executed under one lock in the Go code (see DESIGN §4).

  Mirrors:
    peer.go handleUpdate (loop checks)                         -> inboundRejected
    adj.go AdjRib.Update / Drop                                -> adjUpdate / adjDrop
    server.go propagateUpdate (non route-server part)          -> propagate
    destination.go Update.GetChanges (GLOBAL table)            -> getChanges
    server.go filterpath, (*BgpServer).filterpath, postFilterpath;
      peer.go filterPathFromSourcePeer                         -> filterpathCore / sFilterpath
    server.go propagateUpdateToNeighbors (non ADD-PATH branch) -> fanout
    server.go handleFSMMessage ESTABLISHED / PeerDown,
      getBestFromLocalCallbackLocked, resetAdvertisedRoutes, dropAdjRIBIn -> sessionUp / sessionDown
-/
import Model.BestPath
namespace World
open BestPath

inductive Kind where
  | ebgp | ibgp | rrc | rsc
deriving Repr, DecidableEq, Inhabited

structure Global where
  as  : Nat
  rid : Nat
deriving Repr, DecidableEq, Inhabited

structure PeerCfg where
  idx        : Nat
  kind       : Kind
  as         : Nat
  rid        : Nat      -- remote router-id (never 0)
  addr       : Nat      -- neighbour address key
  sendMax    : Nat := 0 -- > 0: ADD-PATH send negotiated
  addPathRx  : Bool := false
  allowOwnAs : Nat := 0
  llgr       : Bool := false
deriving Repr, DecidableEq, Inhabited

/-- conf.State.PeerType == INTERNAL -/
def PeerCfg.isIBGP (g : Global) (t : PeerCfg) : Bool := t.as == g.as
def PeerCfg.isRRClient (t : PeerCfg) : Bool := t.kind == .rrc
def PeerCfg.isRSClient (t : PeerCfg) : Bool := t.kind == .rsc

/-- the PeerInfo stored with every route learned from this peer (table.NewPeerInfo) -/
def PeerCfg.srcInfo (g : Global) (t : PeerCfg) : Src :=
  { as := t.as, localAS := g.as, rid := t.rid, localRid := g.rid, addr := some t.addr,
    confed := false, rrClient := t.isRRClient }

/-- Path.GetAsList: members of SEQ and SET segments, a 0 for every other segment -/
def asList (segs : List Seg) : List Nat :=
  segs.flatMap (fun s => if s.typ = 2 || s.typ = 1 then s.as else [0])

/-- fsm.go hasOwnASLoop without confederation: more than `limit` occurrences of the own AS,
    counted over ALL segment types -/
def hasOwnASLoop (ownAS limit : Nat) (segs : List Seg) : Bool :=
  ((segs.flatMap (·.as)).filter (· == ownAS)).length > limit

/-- peer.handleUpdate: AS loop (only when an AS_PATH attribute is present — always, here) or
    ORIGINATOR_ID equal to the local router-id on an iBGP session -/
def inboundRejected (g : Global) (x : PeerCfg) (r : Cand) : Bool :=
  hasOwnASLoop g.as x.allowOwnAs r.segs ||
    (x.isIBGP g && r.originator == some g.rid)

/-- Path.Equal restricted to what the world varies: same source (PeerInfo.Equal) and the same
    attributes.  Neither the path-id nor the timestamp nor next-hop validity take part. -/
def pathEqual (a b : Cand) : Bool :=
  a.src.equal b.src && a.localPref == b.localPref && a.segs == b.segs && a.origin == b.origin &&
    a.med == b.med && a.marker == b.marker && a.originator == b.originator &&
    a.clusterList == b.clusterList && a.comms == b.comms && a.stale == b.stale

/-! ### Adj-RIB-In -/

structure AdjEntry where
  r        : Cand
  rejected : Bool
deriving Repr, DecidableEq, Inhabited

structure Adj where
  entries  : List AdjEntry := []
  accepted : Int := 0       -- the incrementally maintained counter AdjRib.accepted[family]
deriving Repr, Inhabited

def adjKeyEq (a b : Cand) : Bool := a.pfx == b.pfx && a.pathId == b.pathId

/-- AdjRib.Update for one announced path; returns the path as stored (timestamp retained when
    the replaced entry is Equal) -/
def adjAnnounce (adj : Adj) (r : Cand) (rejected : Bool) : Adj × Cand :=
  match adj.entries.find? (fun e => adjKeyEq e.r r) with
  | some old =>
    let r' := if pathEqual old.r r then { r with ts := old.r.ts } else r
    let acc := if old.rejected && !rejected then adj.accepted + 1
               else if !old.rejected && rejected then adj.accepted - 1 else adj.accepted
    ({ entries := adj.entries.map (fun e => if adjKeyEq e.r r then ⟨r', rejected⟩ else e),
       accepted := acc }, r')
  | none =>
    ({ entries := adj.entries ++ [⟨r, rejected⟩],
       accepted := if rejected then adj.accepted else adj.accepted + 1 }, r)

/-- AdjRib.Update for one withdrawn (prefix, path-id) -/
def adjWithdraw (adj : Adj) (r : Cand) : Adj :=
  match adj.entries.find? (fun e => adjKeyEq e.r r) with
  | some old =>
    { entries := adj.entries.filter (fun e => !adjKeyEq e.r r),
      accepted := if old.rejected then adj.accepted else adj.accepted - 1 }
  | none => adj

/-! ### export filtering -/

/-- a path handed to the export filters: a route and the IsWithdraw flag of the (clone) -/
structure P where
  r  : Cand
  wd : Bool
deriving Repr, DecidableEq, Inhabited

/-- the explicit withdraw of the old best that several branches answer with:
    `if !path.IsWithdraw && old != nil { return old.Clone(true) }` -/
def wdOld (path : P) (old : Option Cand) : Option P :=
  match old with
  | some o => if !path.wd then some ⟨o, true⟩ else none
  | none => none

/-- server.go filterpath, the `if peer.isIBGPPeer()` block. `some x` = the function returns `x`
    here; `none` = execution falls through to the next block. -/
def ibgpStage (g : Global) (t : PeerCfg) (path : P) (old : Option Cand) : Option (Option P) :=
  if t.isIBGP g && !path.r.isLocal then
    if t.isRRClient then
      -- RFC 4456 8: local CLUSTER_ID in the CLUSTER_LIST
      if path.r.clusterList.contains g.rid then some (wdOld path old) else none
    else if !(path.r.src.as != t.as) && !path.r.src.rrClient then
      -- `ignore`: a route from a non-client iBGP peer is not sent to a non-client iBGP peer
      match old with
      | some o =>
        if !path.wd && (o.isLocal || (o.src.addr != some t.addr &&
            (o.src.as != t.as || o.src.rrClient))) then
          some (some ⟨o, true⟩)
        else some none
      | none => some none
    else none
  else none

/-- peer.go filterPathFromSourcePeer -/
def srcStage (t : PeerCfg) (path : P) (old : Option Cand) : Option P :=
  if t.rid != path.r.src.rid then some path
  else if !t.isRSClient && !path.wd &&
      (match old with | some o => o.src.addr != some t.addr | none => false) then
    wdOld path old
  else none

/-- server.go filterpath, the AS-loop block -/
def loopStage (t : PeerCfg) (p : P) (old : Option Cand) : Option P :=
  if !t.isRSClient && (asList p.r.segs).contains t.as then wdOld p old
  else some p

/-- server.go filterpath(peer, path, old) (package-level function), IPv4 unicast, no RTC -/
def filterpathCore (g : Global) (t : PeerCfg) (path : P) (old : Option Cand) : Option P :=
  match ibgpStage g t path old with
  | some res => res
  | none =>
    match srcStage t path old with
    | none => none
    | some p => loopStage t p old

/-- (*BgpServer).filterpath = prePolicyFilterpath; export policy (none configured in the world:
    accept); postFilterpath (an LLGR-stale route becomes a withdraw toward a peer without LLGR) -/
def sFilterpath (g : Global) (t : PeerCfg) (path : P) (old : Option Cand) : Option P :=
  match filterpathCore g t path old with
  | none => none
  | some p => if !p.wd && !t.llgr && p.r.stale then some ⟨p.r, true⟩ else some p

/-- destination.GetBestPath semantics used by GetChanges for the GLOBAL table: the head -/
def getChanges (oldL newL : List Cand) : Option P × Option Cand :=
  let old := oldL.head?
  match newL.head?, old with
  | some b, some o =>
    if pathEqual b o then
      if b.nhInvalid != o.nhInvalid then
        (if b.nhInvalid then (some ⟨b, true⟩, old) else (some ⟨b, false⟩, old))
      else (none, old)
    else if b.nhInvalid then
      (if o.nhInvalid then (none, none) else (some ⟨o, true⟩, old))
    else (some ⟨b, false⟩, old)
  | some b, none =>
    if b.nhInvalid then (none, none) else (some ⟨b, false⟩, none)
  | none, some o => if o.nhInvalid then (none, none) else (some ⟨o, true⟩, old)
  | none, none => (none, none)

/-! ### the speaker -/

/-- what the far end of a session holds: (prefix, path-id, marker) -/
abbrev View := List (Nat × Nat × Nat)

def viewApply (v : View) (p : P) (pathId : Nat) : View :=
  let v' := v.filter (fun e => !(e.1 == p.r.pfx && e.2.1 == pathId))
  if p.wd then v' else (p.r.pfx, pathId, p.r.marker) :: v'

structure PeerSt where
  cfg  : PeerCfg
  up   : Bool := false
  adj  : Adj := {}
  view : View := []
deriving Repr, Inhabited

structure W where
  g     : Global
  peers : List PeerSt := []
  rib   : List (Nat × List Cand) := []    -- Loc-RIB: per prefix, best first
  opts  : Opts := ⟨false, false, false⟩
  tick  : Nat := 0
deriving Repr, Inhabited

def W.ribOf (w : W) (pfx : Nat) : List Cand :=
  match w.rib.find? (·.1 == pfx) with
  | some e => e.2
  | none => []

def W.setRib (w : W) (pfx : Nat) (l : List Cand) : W :=
  { w with rib := (pfx, l) :: w.rib.filter (·.1 != pfx) }

/-- propagateUpdateToNeighbors, non ADD-PATH branch, for one destination -/
def fanout (w : W) (oldL newL : List Cand) : W :=
  let (best, old) := getChanges oldL newL
  match best with
  | none => w
  | some b =>
    { w with peers := w.peers.map (fun ps =>
        if ps.up && !ps.cfg.isRSClient then
          match sFilterpath w.g ps.cfg b old with
          | some p => { ps with view := viewApply ps.view p 0 }
          | none => ps
        else ps) }

/-- table update + fan-out for one path (the region under the prefix bucket lock) -/
def ribUpdate (w : W) (op : Op) (pfx : Nat) : W :=
  let oldL := w.ribOf pfx
  let newL := calcStep w.opts oldL op
  fanout (w.setRib pfx newL) oldL newL

/-- propagateUpdate for a route learned from a non route-server peer: LOCAL_PREF is stripped on
    ingress from eBGP peers; import policy accepts (none configured) -/
def propagate (w : W) (x : PeerCfg) (r : Cand) (withdraw : Bool) : W :=
  let r' := if !x.isIBGP w.g then { r with localPref := none } else r
  ribUpdate w (if withdraw then .wd r' else .ann r') r.pfx

def W.updPeer (w : W) (idx : Nat) (f : PeerSt → PeerSt) : W :=
  { w with peers := w.peers.map (fun ps => if ps.cfg.idx == idx then f ps else ps) }

def W.peer? (w : W) (idx : Nat) : Option PeerSt := w.peers.find? (·.cfg.idx == idx)

/-- an UPDATE announcing one route received from established peer `idx` -/
def recvAnn (w : W) (idx : Nat) (r0 : Cand) : W :=
  match w.peer? idx with
  | none => w
  | some ps =>
    if !ps.up then w else
    let w := { w with tick := w.tick + 1 }
    let r := { r0 with src := ps.cfg.srcInfo w.g, ts := w.tick }
    let rej := inboundRejected w.g ps.cfg r
    let (adj', r') := adjAnnounce ps.adj r rej
    -- propagateUpdate strips LOCAL_PREF from an eBGP peer's route IN PLACE: the object stored in
    -- the Adj-RIB-In is the same one, so the stored entry loses the attribute too (a rejected
    -- route is handed on as a clone and keeps it)
    let adj' := if !rej && !ps.cfg.isIBGP w.g then
        { adj' with entries := adj'.entries.map (fun e =>
            if adjKeyEq e.r r' then { e with r := { e.r with localPref := none } } else e) }
      else adj'
    let w := w.updPeer idx (fun ps => { ps with adj := adj' })
    -- a route rejected by the loop checks replaces whatever was installed for its key
    propagate w ps.cfg r' rej

def recvWd (w : W) (idx : Nat) (pfx pathId : Nat) : W :=
  match w.peer? idx with
  | none => w
  | some ps =>
    if !ps.up then w else
    let w := { w with tick := w.tick + 1 }
    let r : Cand := { (default : Cand) with src := ps.cfg.srcInfo w.g, pfx := pfx, pathId := pathId, ts := w.tick }
    let adj' := adjWithdraw ps.adj r
    let w := w.updPeer idx (fun q => { q with adj := adj' })
    propagate w ps.cfg r true

/-- one destination of the initial table transfer -/
def transferStep (g : Global) (t : PeerCfg) (v : View) (e : Nat × List Cand) : View :=
  match e.2.head? with
  | some b =>
    if b.nhInvalid then v else
    match sFilterpath g t ⟨b, false⟩ none with
    | some p => viewApply v p 0
    | none => v
  | none => v

/-- getBestFromLocalCallbackLocked for a non ADD-PATH peer: the export of every best path -/
def transfer (w : W) (t : PeerCfg) : View := w.rib.foldl (transferStep w.g t) []

def sessionUp (w : W) (idx : Nat) : W :=
  match w.peer? idx with
  | none => w
  | some ps =>
    let w := { w with tick := w.tick + 1 }
    w.updPeer idx (fun ps => { ps with up := true, view := transfer w ps.cfg })

/-- PeerDown, not graceful: state published, bookkeeping cleared, Adj-RIB-In dropped and every
    entry (rejected ones too) withdrawn from the Loc-RIB with fan-out -/
def sessionDown (w : W) (idx : Nat) : W :=
  match w.peer? idx with
  | none => w
  | some ps =>
    let w := { w with tick := w.tick + 1 }
    let w := w.updPeer idx (fun ps => { ps with up := false, view := [], adj := {} })
    ps.adj.entries.foldl (fun w e => propagate w ps.cfg e.r true) w

/-- the source of a locally injected route: table.localSource, the zero PeerInfo -/
def localSrc : Src :=
  { as := 0, localAS := 0, rid := 0, localRid := 0, addr := none, confed := false }

/-- AddPath through the API (`addPathList` → `propagateUpdate(nil, …)`): no ingress LOCAL_PREF
    stripping, no loop checks, same table update + fan-out -/
def localAdd (w : W) (r0 : Cand) : W :=
  let w := { w with tick := w.tick + 1 }
  let r := { r0 with src := localSrc, ts := w.tick }
  ribUpdate w (.ann r) r.pfx

/-- DeletePath through the API -/
def localDel (w : W) (pfx pathId : Nat) : W :=
  let w := { w with tick := w.tick + 1 }
  let r : Cand := { (default : Cand) with src := localSrc, pfx := pfx, pathId := pathId, ts := w.tick }
  ribUpdate w (.wd r) pfx

/-- AddPeer: a configured peer appears, session down -/
def addPeer (w : W) (cfg : PeerCfg) : W :=
  -- the neighbour map is keyed by address: a second peer with the same address is refused
  if w.peers.any (fun q => q.cfg.idx == cfg.idx || q.cfg.addr == cfg.addr) then w
  else { w with peers := w.peers ++ [{ cfg := cfg }] }

/-- DeletePeer (`deleteNeighbor`): the Adj-RIB-In is dropped and withdrawn with fan-out while the
    peer is still in the neighbour map, then the peer is removed (`stopNeighbor`) -/
def delPeer (w : W) (idx : Nat) : W :=
  match w.peer? idx with
  | none => w
  | some ps =>
    let w := { w with tick := w.tick + 1 }
    let w := w.updPeer idx (fun ps => { ps with adj := {} })
    let w := ps.adj.entries.foldl (fun w e => propagate w ps.cfg e.r true) w
    { w with peers := w.peers.filter (fun q => q.cfg.idx != idx) }

inductive WOp where
  | up (idx : Nat)
  | down (idx : Nat)
  | ann (idx : Nat) (r : Cand)
  | wd (idx : Nat) (pfx pathId : Nat)
  | localAdd (r : Cand)
  | localDel (pfx pathId : Nat)
  | add (cfg : PeerCfg)
  | del (idx : Nat)
deriving Repr

def step (w : W) : WOp → W
  | .up i => sessionUp w i
  | .down i => sessionDown w i
  | .ann i r => recvAnn w i r
  | .wd i p k => recvWd w i p k
  | .localAdd r => localAdd w r
  | .localDel p k => localDel w p k
  | .add c => addPeer w c
  | .del i => delPeer w i

end World
