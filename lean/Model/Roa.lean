/-
  Model of gobgp's RPKI origin validation and ROA table maintenance.

  Mirrors:
    internal/pkg/table/roa.go   ROA.Equal, ROATable.Add / Delete / DeleteAll / List / Validate
    internal/pkg/table/policy.go RpkiValidationCondition.Evaluate
    pkg/server/rpki.go          before, roaManager.AddServer / DeleteServer / Enable / Disable /
                                Reset / SoftReset / HandleROAEvent / handleRTRMsg,
                                roaClient.enable / softReset / reset
  (rpki.go as repaired by the `fix:` commits on branch wt-C16, see Props/C16.lean.)

  Abstractions (tied by the correspondence run only):
    * the critbit tree of one address family is an association list `prefix ↦ bucket`; the
      covering walk `WalkMatch` is "every stored prefix covering the route, by ascending length";
    * a prefix is (family, length, value of its top `length` bits) — canonical by construction
      (ROA prefixes with host bits set are outside the model);
    * `Src` strings ("host:port") are natural-number labels;
    * a TCP connection is `none | open | closed` (closed = non-nil but every Write fails);
    * the lifetime timer is a flag (`client.timer != nil`) plus the generation it was armed with;
      its expiry is an input event that carries the generation of the timer that fired.
  Core-only (no Mathlib) so that the line-protocol driver links as a lean_exe.
-/
namespace Roa

/-- An IP prefix: `fam` 4 or 6, `len` bits, `bits` = the value of the top `len` bits. -/
structure Prefix where
  fam  : Nat
  len  : Nat
  bits : Nat
deriving Repr, DecidableEq, Inhabited

/-- `table.ROA` without its Network (that is the bucket key): MaxLen, AS, Src. -/
structure Roa where
  maxLen : Nat
  as     : Nat
  src    : Nat
deriving Repr, DecidableEq, Inhabited

/-- a record = what RFC 6811 calls a VRP, plus the cache it came from -/
abbrev Rec := Prefix × Roa

/-- `roaBucket.entries` under its network; the table is the set of buckets of both trees -/
abbrev Table := List (Prefix × List Roa)

/-- the `less` closure handed to sort.Slice in ROATable.Add -/
def less (r1 r2 : Roa) : Bool :=
  if r1.maxLen < r2.maxLen then true
  else if r1.maxLen > r2.maxLen then false
  else if r1.as < r2.as then true
  else false

/-- `append` + `sort.Slice` on a slice that was sorted before the append: the new entry lands
    behind every entry that is not greater (insertion sort, which sort.Slice uses up to 12
    elements, is stable). -/
def insertSorted (r : Roa) : List Roa → List Roa
  | [] => [r]
  | x :: xs => if less r x then r :: x :: xs else x :: insertSorted r xs

/-- body of ROATable.Add after getBucket: return when an Equal entry exists (ROA.Equal compares
    MaxLen, Src, AS = all fields of `Roa`), else append and sort -/
def bucketAdd (es : List Roa) (r : Roa) : List Roa :=
  if r ∈ es then es else insertSorted r es

/-- ROATable.Add (getBucket creates the bucket when the network is new) -/
def add : Table → Prefix → Roa → Table
  | [], p, r => [(p, [r])]
  | (q, es) :: t, p, r => if q = p then (q, bucketAdd es r) :: t else (q, es) :: add t p r

/-- ROATable.Delete: the first Equal entry of the bucket is removed; the (possibly empty)
    bucket stays in the tree -/
def delete : Table → Prefix → Roa → Table
  | [], _, _ => []
  | (q, es) :: t, p, r => if q = p then (q, es.erase r) :: t else (q, es) :: delete t p r

/-- ROATable.DeleteAll: every bucket loses the entries of `src`; buckets left (or found) empty
    are deleted from the tree -/
def deleteAll (t : Table) (src : Nat) : Table :=
  (t.map fun b => (b.1, b.2.filter fun r => r.src != src)).filter fun b => !b.2.isEmpty

/-- all records of the table (ROATable.List without its order) -/
def recs (t : Table) : List Rec := t.flatMap fun b => b.2.map fun r => (b.1, r)

/-- ROATable.Info, the `records` map: how many entries the source has in the family's tree -/
def infoRecords (t : Table) (fam src : Nat) : Nat :=
  ((recs t).filter fun x => x.1.fam == fam && x.2.src == src).length

/-- the buckets of the family in which the source has at least one entry (`tmpRecords[src] > 0`) -/
def infoPrefixList (t : Table) (fam src : Nat) : List Prefix :=
  (t.filter fun b => b.1.fam == fam && b.2.any fun r => r.src == src).map (·.1)

/-- ROATable.Info, the `prefixes` map: in how many buckets the source has an entry — one per
    bucket, however the source's entries interleave with those of other sources -/
def infoPrefixes (t : Table) (fam src : Nat) : Nat := (infoPrefixList t fam src).length

/-! ### Validate -/

/-- AS_PATH segment: `typ` 1 = SET, 2 = SEQ, 3 = CONFED_SEQ, 4 = CONFED_SET. -/
structure Seg where
  typ : Nat
  as  : List Nat
deriving Repr, DecidableEq, Inhabited

/-- the origin-AS selection at the head of Validate: `none` = the early `return validation`
    (NotFound) of the `default:` branch (AS_SET or unknown segment type last) -/
def originAS (localAS : Nat) (segs : List Seg) : Option Nat :=
  match segs.getLast? with
  | none => some localAS
  | some s =>
    if s.typ = 2 then
      match s.as.getLast? with
      | none => some localAS
      | some a => some a
    else if s.typ = 4 || s.typ = 3 then some localAS
    else none

/-- `p` covers `q`: same family, not longer, and the top `p.len` bits of `q` are `p`'s -/
def covers (p q : Prefix) : Bool :=
  p.fam == q.fam && decide (p.len ≤ q.len) && (q.bits >>> (q.len - p.len) == p.bits)

/-- insertion by ascending prefix length (the order in which critbitgo's walkMatch reaches the
    covering prefixes of one route) -/
def insLen (b : Prefix × List Roa) : List (Prefix × List Roa) → List (Prefix × List Roa)
  | [] => [b]
  | x :: xs => if b.1.len < x.1.len then b :: x :: xs else x :: insLen b xs

def sortLen (l : List (Prefix × List Roa)) : List (Prefix × List Roa) := l.foldr insLen []

/-- the buckets WalkMatch hands to the callback, in order -/
def walkMatch (t : Table) (q : Prefix) : List (Prefix × List Roa) :=
  sortLen (t.filter fun b => covers b.1 q)

inductive Status | notFound | valid | invalid
deriving Repr, DecidableEq, Inhabited

inductive Reason | none | as | length
deriving Repr, DecidableEq, Inhabited

structure Validation where
  status       : Status
  reason       : Reason
  matched      : List Rec
  unmatchedAs  : List Rec
  unmatchedLen : List Rec
deriving Repr, DecidableEq, Inhabited

/-- the three tests of the callback body -/
def isMatched (plen as : Nat) (x : Rec) : Bool := decide (plen ≤ x.2.maxLen) && (x.2.as != 0 && x.2.as == as)
def isUnmatchedAs (plen as : Nat) (x : Rec) : Bool := decide (plen ≤ x.2.maxLen) && !(x.2.as != 0 && x.2.as == as)
def isUnmatchedLen (plen : Nat) (x : Rec) : Bool := !decide (plen ≤ x.2.maxLen)

/-- the final if-chain of Validate -/
def verdict (m ua ul : List Rec) : Status × Reason :=
  if m ≠ [] then (.valid, .none)
  else if ua ≠ [] then (.invalid, .as)
  else if ul ≠ [] then (.invalid, .length)
  else (.notFound, .none)

/-- ROATable.Validate for an IPv4/IPv6-unicast, non-withdraw, non-EOR path.  The callback
    appends every entry of every visited bucket to exactly one of three lists; that is three
    filters over the visited entries. -/
def validate (t : Table) (q : Prefix) (localAS : Nat) (segs : List Seg) : Validation :=
  match originAS localAS segs with
  | none => ⟨.notFound, .none, [], [], []⟩
  | some as =>
    let es := recs (walkMatch t q)
    let m  := es.filter (isMatched q.len as)
    let ua := es.filter (isUnmatchedAs q.len as)
    let ul := es.filter (isUnmatchedLen q.len)
    let v := verdict m ua ul
    ⟨v.1, v.2, m, ua, ul⟩

/-- RpkiValidationCondition.Evaluate (as repaired: a nil Validation — withdraw, EOR, family
    without a tree — matches no condition instead of dereferencing nil) -/
def condEval (want : Status) (v : Option Validation) : Bool :=
  match v with
  | none => false
  | some v => decide (want = v.status)

/-! ### validation conditions inside a policy chain -/

/-- Path.GetAsSeqList: the ASes of AS_SEQUENCE segments, a 0 for every other segment -/
def asSeqList : List Seg → List Nat
  | [] => []
  | s :: rest => if s.typ = 2 then s.as ++ asSeqList rest else 0 :: asSeqList rest

/-- Path.PrependAsn: `rep` copies of `asn` in front, merged into the first segment when it has
    the wanted type (AS_SEQUENCE, or AS_CONFED_SEQUENCE toward a confederation member) up to 255
    ASes, the rest in a new leading segment -/
def prependAsn (segs : List Seg) (asn rep : Nat) (confed : Bool) : List Seg :=
  let ty := if confed then 3 else 2
  match segs with
  | s :: rest =>
    if s.typ = ty then
      let r := if rep + s.as.length > 255 then 255 - s.as.length else rep
      let first : Seg := ⟨ty, List.replicate r asn ++ s.as⟩
      if rep - r > 0 then ⟨ty, List.replicate (rep - r) asn⟩ :: first :: rest else first :: rest
    else if rep > 0 then ⟨ty, List.replicate rep asn⟩ :: segs else segs
  | [] => if rep > 0 then [⟨ty, List.replicate rep asn⟩] else []

/-- one policy statement as far as origin validation is concerned: an optional rpki condition,
    an optional AS_PATH prepend (`prep` 1 = fixed `asn`, 2 = "last-as"), a disposition
    (0 none, 1 accept, 2 reject).  Actions on communities, MED, LOCAL_PREF, next hop and ORIGIN
    do not touch anything Validate reads and are not represented. -/
structure Stmt where
  cond : Option Status
  prep : Nat
  asn  : Nat
  rep  : Nat
  disp : Nat
deriving Repr, DecidableEq, Inhabited

/-- AsPathPrependAction.Apply -/
def Stmt.modify (s : Stmt) (confed : Bool) (segs : List Seg) : List Seg :=
  if s.prep = 1 then prependAsn segs s.asn s.rep confed
  else if s.prep = 2 then
    match asSeqList segs with
    | [] => segs
    | a :: _ => if a = 0 then segs else prependAsn segs a s.rep confed
  else segs

/-- Statement.Evaluate restricted to the rpki condition, on the route as it is NOW -/
def Stmt.hit (s : Stmt) (t : Table) (q : Prefix) (localAS : Nat) (segs : List Seg) : Bool :=
  match s.cond with
  | none => true
  | some w => condEval w (some (validate t q localAS segs))

/-- RoutingPolicy.ApplyPolicy / Policy.Apply / Statement.Apply over the statements of all
    assigned policies in order: which statements matched, the AS_PATH at the end, the
    disposition that ended the chain (0 = none did) -/
def chainEval (t : Table) (q : Prefix) (localAS : Nat) (confed : Bool) :
    List Seg → List Stmt → List Bool × List Seg × Nat
  | segs, [] => ([], segs, 0)
  | segs, s :: rest =>
    if s.hit t q localAS segs then
      if s.disp ≠ 0 then ([true], s.modify confed segs, s.disp)
      else
        let r := chainEval t q localAS confed (s.modify confed segs) rest
        (true :: r.1, r.2.1, r.2.2)
    else
      let r := chainEval t q localAS confed segs rest
      (false :: r.1, r.2.1, r.2.2)

/-! ### RTR client and manager -/

/-- rpki.go `before`: `int32(a-b) < 0` on uint32 -/
def before (a b : Nat) : Bool := decide (2147483648 ≤ (a + 4294967296 - b) % 4294967296)

inductive Conn | none | open | closed
deriving Repr, DecidableEq, Inhabited

/-- `roaClient` fields that decide behaviour. `queries` (added by the fix) = the queries sent and
    not yet answered, oldest first; `true` = Reset Query, `false` = Serial Query. -/
structure Client where
  host       : Nat
  session    : Nat := 0
  oldSession : Nat := 0
  serial     : Nat := 0
  endOfData  : Bool := false
  pending    : List Rec := []
  conn       : Conn := .none
  timer      : Bool := false
  timerGen   : Nat := 0        -- roaClient.timerGen: generation of the timer armed last
  queries    : List Bool := []
deriving Repr, DecidableEq, Inhabited

structure Mgr where
  clients  : List Client := []
  table    : Table := []
  timerSeq : Nat := 0            -- roaManager.timerGen: lifetime timers armed so far
deriving Repr, Inhabited

/-- queries written to the cache -/
inductive Sent
  | resetQuery
  | serialQuery (session serial : Nat)
deriving Repr, DecidableEq

inductive Pdu
  | serialNotify (session serial : Nat)
  | cacheResponse (session : Nat)
  | prefix (announce : Bool) (p : Prefix) (maxLen as : Nat)
  | endOfData (session serial : Nat)
  | cacheReset
  | errorReport
  | other            -- Serial Query, Reset Query, or bytes ParseRTR rejects
deriving Repr, DecidableEq

inductive Ev
  | addServer (h : Nat)
  | deleteServer (h : Nat)
  | connected (h : Nat)       -- HandleROAEvent(roaConnected) + the softReset that opens established()
  | connClosed (h : Nat)      -- the cache closed the connection (established() has closed its end)
  | disconnected (h : Nat)    -- HandleROAEvent(roaDisconnected)
  | lifetime (h : Nat) (gen : Nat) -- HandleROAEvent(roaLifetimeout) of the timer armed as number `gen`
  | rtr (h : Nat) (pdu : Pdu) -- HandleROAEvent(roaRTR)
  | enable (h : Nat)
  | disable (h : Nat)         -- Disable and Reset
  | softReset (h : Nat)
deriving Repr, DecidableEq

def findClient (cs : List Client) (h : Nat) : Option Client := cs.find? fun c => c.host == h

def setClient (cs : List Client) (c : Client) : List Client :=
  cs.map fun x => if x.host == c.host then c else x

/-- roaClient.enable -/
def Client.enable (c : Client) : Client × List Sent :=
  match c.conn with
  | .open => ({ c with queries := c.queries ++ [false] }, [.serialQuery c.session c.serial])
  | _ => (c, [])

/-- roaClient.softReset -/
def Client.softReset (c : Client) : Client × List Sent :=
  match c.conn with
  | .open => ({ c with endOfData := false, pending := [], queries := c.queries ++ [true] }, [.resetQuery])
  | _ => (c, [])

/-- roaClient.reset: close the connection if there is one -/
def Client.reset (c : Client) : Client :=
  match c.conn with
  | .open => { c with conn := .closed }
  | _ => c

/-- roaClient.answered: the oldest outstanding query has been answered; was it a Reset Query? -/
def Client.answered (c : Client) : Client × Bool :=
  match c.queries with
  | [] => (c, false)
  | q :: qs => ({ c with queries := qs }, q)

def addAll (t : Table) : List Rec → Table
  | [] => t
  | x :: xs => addAll (add t x.1 x.2) xs

/-- handleRTRMsg -/
def handleRTR (t : Table) (c : Client) : Pdu → Table × Client × List Sent
  | .serialNotify _ sn =>
    if before c.serial sn then
      let (c', s) := c.enable
      (t, c', s)
    else if c.serial = sn then (t, c, [])
    else
      let (c', s) := c.softReset
      (t, c', s)
  | .cacheResponse _ => (t, { c with endOfData := false }, [])
  | .prefix ann p maxLen as =>
    let r : Roa := ⟨maxLen, as, c.host⟩
    if ann then
      if c.endOfData then (add t p r, c, [])
      else (t, { c with pending := c.pending ++ [(p, r)] }, [])
    else (delete t p r, { c with pending := c.pending.filter fun x => x != (p, r) }, [])
  | .endOfData sid sn =>
    let t1 := if c.session ≠ sid ∨ c.answered.2 = true then deleteAll t c.host else t
    let t2 := addAll t1 c.pending
    (t2, { c.answered.1 with session := sid, serial := sn, endOfData := true, timer := false,
                             pending := [] }, [])
  | .cacheReset =>
    let (c', s) := c.answered.1.softReset
    (t, c', s)
  | .errorReport => (t, c.answered.1, [])
  | .other => (t, c, [])

/-- One step of the manager. The Bool is the API call's success (`err == nil`; Enable and
    SoftReset return the Write error of a connection that is already closed); events that are
    not API calls report `true`. -/
def step (m : Mgr) : Ev → Mgr × Bool × List Sent
  | .addServer h =>
    match findClient m.clients h with
    | some _ => (m, false, [])
    | none => ({ m with clients := m.clients ++ [({ host := h } : Client)] }, true, [])
  | .deleteServer h =>
    match findClient m.clients h with
    | none => (m, false, [])
    | some _ => ({ m with clients := m.clients.filter (fun c => c.host != h), table := deleteAll m.table h }, true, [])
  | .connected h =>
    match findClient m.clients h with
    | none => (m, true, [])
    | some c =>
      let (c', s) := ({ c with conn := .open } : Client).softReset
      ({ m with clients := setClient m.clients c' }, true, s)
  | .connClosed h =>
    match findClient m.clients h with
    | none => (m, true, [])
    | some c => ({ m with clients := setClient m.clients c.reset }, true, [])
  | .disconnected h =>
    match findClient m.clients h with
    | none => (m, true, [])
    | some c =>
      -- the timer is armed only when none is pending; arming takes the next generation
      let seq := if c.timer then m.timerSeq else m.timerSeq + 1
      let c' : Client := { c with endOfData := false, pending := [], conn := .none, timer := true,
                                  timerGen := if c.timer then c.timerGen else seq,
                                  oldSession := c.session, queries := [] }
      ({ m with clients := setClient m.clients c', timerSeq := seq }, true, [])
  | .lifetime h gen =>
    match findClient m.clients h with
    | none => (m, true, [])
    | some c =>
      -- stale: the timer was stopped (End of Data, DeleteServer) or replaced after it had fired
      if c.timer = false ∨ gen ≠ c.timerGen then (m, true, [])
      else
        let c' := { c with timer := false }
        if c.oldSession ≠ c.session then ({ m with clients := setClient m.clients c' }, true, [])
        else ({ m with clients := setClient m.clients c', table := deleteAll m.table h }, true, [])
  | .rtr h pdu =>
    match findClient m.clients h with
    | none => (m, true, [])
    | some c =>
      let (t, c', s) := handleRTR m.table c pdu
      ({ m with clients := setClient m.clients c', table := t }, true, s)
  | .enable h =>
    match findClient m.clients h with
    | none => (m, false, [])
    | some c =>
      let (c', s) := c.enable
      ({ m with clients := setClient m.clients c' }, c.conn != .closed, s)
  | .disable h =>
    match findClient m.clients h with
    | none => (m, false, [])
    | some c => ({ m with clients := setClient m.clients c.reset, table := deleteAll m.table h }, true, [])
  | .softReset h =>
    match findClient m.clients h with
    | none => (m, false, [])
    | some c =>
      let (c', s) := c.softReset
      ({ m with clients := setClient m.clients c', table := deleteAll m.table h }, c.conn != .closed, s)

def run (m : Mgr) (evs : List Ev) : Mgr := evs.foldl (fun m e => (step m e).1) m

end Roa
