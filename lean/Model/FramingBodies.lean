import Model.Framing
/-
  Bodies of the records the daemon itself writes, on top of Model/Framing.lean.

  Mirrors (byte strings are `List Nat`, octets < 256):
    pkg/packet/mrt/mrt.go   Peer.decodeFromBytes / Serialize, parsePeerIndexTable /
                            PeerIndexTable.Serialize, parseRibEntry / RibEntry.Serialize,
                            parseRib / Rib.Serialize, ParseBody's subtype switch,
                            BGP4MPHeader.decodeFromBytes / serialize, parseBGP4MPStateChange,
                            parseBGP4MPMessage, MRTMessage.Serialize             -> Mrt.*
    pkg/server/mrt.go       the subtype() helper of dumpTable                       -> Mrt.subtypeOf
    pkg/packet/bgp/bgp.go   BGPHeader.DecodeFromBytes + the length check of ParseBGPMessage
                            (only the framing of an embedded message)               -> bgpFrame
    pkg/packet/bmp/bmp.go   BMPRouteMonitoring / BMPPeerUpNotification /
                            BMPPeerDownNotification ParseBody / Serialize           -> Bmp.*
  Path attributes, NLRIs of RIB_GENERIC and embedded BGP messages are OPAQUE octet strings with
  their length (their content is C04's business). The Go decoders check a length and then read
  a group of fields at fixed offsets; the model reads field by field with a reader that fails
  when octets are missing. Both fail exactly when octets are missing (tied by the
  correspondence run); every framing error is the single outcome `none`.
-/
namespace Framing

/-! ### sequential readers: value and the octets left -/
def getU8 : Bytes → Option (Nat × Bytes)
  | a :: r => some (a, r)
  | _ => none
def getU16 : Bytes → Option (Nat × Bytes)
  | a :: b :: r => some (a * 256 + b, r)
  | _ => none
def getU32 : Bytes → Option (Nat × Bytes)
  | a :: b :: c :: e :: r => some (((a * 256 + b) * 256 + c) * 256 + e, r)
  | _ => none
/-- `data[:n]`, `data[n:]` after `len(data) >= n` -/
def getN (n : Nat) (d : Bytes) : Option (Bytes × Bytes) :=
  if d.length < n then none else some (d.take n, d.drop n)

/-- BGPHeader.DecodeFromBytes + `int(h.Len) > len(data)` of ParseBGPMessage: an embedded BGP
    message is the `Length` octets its own header announces (marker all ones, 19 ≤ Length). -/
def bgpFrame (d : Bytes) : Option (Bytes × Bytes) :=
  if d.length % 65536 < 19 then none
  else if d.take 16 ≠ List.replicate 16 255 then none
  else
    let len := rd16 d 16
    if len < 19 then none
    else if len > d.length then none
    else some (d.take len, d.drop len)

/-- a BGP message as far as framing is concerned: marker, Length, then type octet + payload
    (`body`, opaque) -/
def mkBgpMsg (body : Bytes) : Bytes := List.replicate 16 255 ++ enc16 (18 + body.length) ++ body

namespace Mrt

/-! ## TABLE_DUMPv2 -/

/-- mrt.Peer: `typ` bit 0 = IPv6 address, bit 1 = 4-octet AS -/
structure Peer where
  typ : Nat
  bgpid : Bytes
  addr : Bytes
  asn : Nat
deriving Repr, DecidableEq, Inhabited

/-- (*Peer).decodeFromBytes -/
def parsePeer (d : Bytes) : Option (Peer × Bytes) :=
  match getU8 d with
  | none => none
  | some (t, d) =>
    match getN 4 d with
    | none => none
    | some (id, d) =>
      match getN (if t % 2 = 1 then 16 else 4) d with
      | none => none
      | some (a, d) =>
        match (if t / 2 % 2 = 1 then getU32 d else getU16 d) with
        | none => none
        | some (asn, d) => some (⟨t, id, a, asn⟩, d)

/-- (*Peer).Serialize; `none` = "AS number is beyond 2 octet". The address is appended as it
    is (AsSlice), whatever the type octet says. -/
def serPeer (p : Peer) : Option Bytes :=
  let head := enc8 p.typ ++ copyInto 4 p.bgpid ++ p.addr
  if p.typ / 2 % 2 = 1 then some (head ++ enc32 p.asn)
  else if p.asn > 65535 then none
  else some (head ++ enc16 p.asn)

/-- NewPeer -/
def mkPeer (bgpid addr : Bytes) (asn : Nat) (as4 : Bool) : Peer :=
  ⟨(if addr.length = 16 then 1 else 0) + (if as4 then 2 else 0), bgpid, addr, asn⟩

def parsePeers : Nat → Bytes → Option (List Peer × Bytes)
  | 0, d => some ([], d)
  | n + 1, d =>
    match parsePeer d with
    | none => none
    | some (p, d) =>
      match parsePeers n d with
      | none => none
      | some (ps, d) => some (p :: ps, d)

def serPeers : List Peer → Option Bytes
  | [] => some []
  | p :: ps =>
    match serPeer p, serPeers ps with
    | some a, some b => some (a ++ b)
    | _, _ => none

structure PeerTable where
  collector : Bytes
  view : Bytes
  peers : List Peer
deriving Repr, DecidableEq, Inhabited

/-- parsePeerIndexTable (octets behind the last peer are ignored, as in Go) -/
def parsePeerTable (d : Bytes) : Option (PeerTable × Bytes) :=
  match getN 4 d with
  | none => none
  | some (c, d) =>
    match getU16 d with
    | none => none
    | some (vl, d) =>
      match getN vl d with
      | none => none
      | some (v, d) =>
        match getU16 d with
        | none => none
        | some (n, d) =>
          match parsePeers n d with
          | none => none
          | some (ps, d) => some (⟨c, v, ps⟩, d)

/-- (*PeerIndexTable).Serialize (collector id: an IPv4 address or the zero Addr) -/
def serPeerTable (t : PeerTable) : Option Bytes :=
  match serPeers t.peers with
  | none => none
  | some ps => some (copyInto 4 t.collector ++ enc16 t.view.length ++ t.view ++ enc16 t.peers.length ++ ps)

/-- mrt.RibEntry; `pathId` is on the wire only in the ADD-PATH subtypes; `attrs` are the
    serialised path attributes (opaque) -/
structure Entry where
  peerIndex : Nat
  time : Nat
  pathId : Nat
  attrs : Bytes
deriving Repr, DecidableEq, Inhabited

/-- parseRibEntry, attributes kept opaque -/
def parseEntry (addPath : Bool) (d : Bytes) : Option (Entry × Bytes) :=
  match getU16 d with
  | none => none
  | some (pi, d) =>
    match getU32 d with
    | none => none
    | some (tm, d) =>
      match (if addPath then getU32 d else some (0, d)) with
      | none => none
      | some (pid, d) =>
        match getU16 d with
        | none => none
        | some (al, d) =>
          match getN al d with
          | none => none
          | some (a, d) => some (⟨pi, tm, pid, a⟩, d)

/-- (*RibEntry).Serialize -/
def serEntry (addPath : Bool) (e : Entry) : Bytes :=
  enc16 e.peerIndex ++ enc32 e.time ++ (if addPath then enc32 e.pathId else []) ++ enc16 e.attrs.length ++ e.attrs

def parseEntries (addPath : Bool) : Nat → Bytes → Option (List Entry × Bytes)
  | 0, d => some ([], d)
  | n + 1, d =>
    match parseEntry addPath d with
    | none => none
    | some (e, d) =>
      match parseEntries addPath n d with
      | none => none
      | some (es, d) => some (e :: es, d)

def serEntries (addPath : Bool) : List Entry → Bytes
  | [] => []
  | e :: es => serEntry addPath e ++ serEntries addPath es

/-- the four families with a subtype of their own -/
def isIPFamily (afi safi : Nat) : Bool := (afi == 1 || afi == 2) && (safi == 1 || safi == 2)

/-- clear the low `k` bits of the last octet (decodePrefix: `b[bytelen-1] &= 0xff00 >> rem`) -/
def maskLast (k : Nat) : Bytes → Bytes
  | [] => []
  | [x] => [x / 2 ^ k * 2 ^ k]
  | x :: y :: r => x :: maskLast k (y :: r)

/-- IPAddrPrefix.decodeFromBytes: length in bits, then ⌈bits/8⌉ octets whose trailing bits are
    cleared; `none` when the bit length exceeds the address width or octets are missing.
    Result: the NLRI as (re)serialised, and the octets left. -/
def parseIPPrefix (afi : Nat) (d : Bytes) : Option (Bytes × Bytes) :=
  match getU8 d with
  | none => none
  | some (bits, d) =>
    match getN ((bits + 7) / 8) d with
    | none => none
    | some (p, d) =>
      if bits > (if afi = 2 then 128 else 32) then none
      else some (bits :: (if bits % 8 = 0 then p else maskLast (8 - bits % 8) p), d)

/-- TABLE_DUMPv2 RIB record. `afi`/`safi`: the family (implied by the subtype or carried by
    RIB_GENERIC); `nlri`: the serialised NLRI (opaque for RIB_GENERIC families). -/
structure Rib where
  seq : Nat
  afi : Nat
  safi : Nat
  nlri : Bytes
  entries : List Entry
deriving Repr, DecidableEq, Inhabited

/-- what ParseBody derives from the subtype: (afi, safi) — (0, 0) for the generic subtypes — and
    the ADD-PATH flag; `none` for the other subtypes (peer table, geo table, unknown) -/
def ribKind (sub : Nat) : Option (Nat × Nat × Bool) :=
  if sub = 2 then some (1, 1, false) else if sub = 3 then some (1, 2, false)
  else if sub = 4 then some (2, 1, false) else if sub = 5 then some (2, 2, false)
  else if sub = 6 then some (0, 0, false)
  else if sub = 8 then some (1, 1, true) else if sub = 9 then some (1, 2, true)
  else if sub = 10 then some (2, 1, true) else if sub = 11 then some (2, 2, true)
  else if sub = 12 then some (0, 0, true)
  else none

/-- the subtype() helper of mrtWriter.dumpTable: RFC 6396 4.3.2 / RFC 8050 4 -/
def subtypeOf (afi safi : Nat) (addPath : Bool) : Nat :=
  (if afi = 1 ∧ safi = 1 then 2 else if afi = 1 ∧ safi = 2 then 3
   else if afi = 2 ∧ safi = 1 then 4 else if afi = 2 ∧ safi = 2 then 5 else 6)
  + (if addPath then 6 else 0)

/-- parseRib. `glen` = length of the NLRI as the family's NLRI decoder reports it
    (`prefix.Len()`), used only for families other than the four IP ones. -/
def parseRib (sub : Nat) (glen : Nat) (d : Bytes) : Option (Rib × Bytes) :=
  match ribKind sub with
  | none => none
  | some (afi0, safi0, addPath) =>
    match getU32 d with
    | none => none
    | some (seq, d) =>
      match (if afi0 = 0 ∧ safi0 = 0 then
               (match getU16 d with
                | none => none
                | some (a, d) => match getU8 d with
                  | none => none
                  | some (s, d) => some (a, s, d))
             else some (afi0, safi0, d)) with
      | none => none
      | some (afi, safi, d) =>
        match (if isIPFamily afi safi then parseIPPrefix afi d else getN glen d) with
        | none => none
        | some (nlri, d) =>
          match getU16 d with
          | none => none
          | some (n, d) =>
            match parseEntries addPath n d with
            | none => none
            | some (es, d) => some (⟨seq, afi, safi, nlri, es⟩, d)

/-- (*Rib).Serialize: AFI/SAFI are written for every family but the four IP ones -/
def serRib (addPath : Bool) (r : Rib) : Bytes :=
  enc32 r.seq ++ (if isIPFamily r.afi r.safi then [] else enc16 r.afi ++ enc8 r.safi)
  ++ r.nlri ++ enc16 r.entries.length ++ serEntries addPath r.entries

/-- ATTRIBUTION: the peer-table entry RIB entry `i` points at -/
def entryPeer (t : PeerTable) (r : Rib) (i : Nat) : Option Peer :=
  match r.entries[i]? with
  | none => none
  | some e => t.peers[e.peerIndex]?

/-- (*MRTMessage).Serialize: common header whose Length is the body length, then the body -/
def serRecord (ts typ sub : Nat) (body : Bytes) : Bytes :=
  serializeHeader ⟨ts, typ, sub, body.length, 0⟩ ++ body

/-! ## BGP4MP -/

/-- mrt.BGP4MPHeader; `addrs` = peer address ++ local address (2 × 4 or 2 × 16 octets) -/
structure Bgp4mpHdr where
  peerAS : Nat
  localAS : Nat
  ifIndex : Nat
  afi : Nat
  peerAddr : Bytes
  localAddr : Bytes
deriving Repr, DecidableEq, Inhabited

/-- (*BGP4MPHeader).decodeFromBytes -/
def parseBgp4mpHdr (as4 : Bool) (d : Bytes) : Option (Bgp4mpHdr × Bytes) :=
  match (if as4 then getU32 d else getU16 d) with
  | none => none
  | some (pa, d) =>
    match (if as4 then getU32 d else getU16 d) with
    | none => none
    | some (la, d) =>
      match getU16 d with
      | none => none
      | some (ifi, d) =>
        match getU16 d with
        | none => none
        | some (afi, d) =>
          if afi = 1 ∨ afi = 2 then
            let w := if afi = 2 then 16 else 4
            match getN w d with
            | none => none
            | some (p, d) =>
              match getN w d with
              | none => none
              | some (l, d) => some (⟨pa, la, ifi, afi, p, l⟩, d)
          else none

/-- (*BGP4MPHeader).serialize (`none` = unsupported address family); 2-octet AS numbers are
    truncated, addresses copied into fields of the AFI's width -/
def serBgp4mpHdr (as4 : Bool) (h : Bgp4mpHdr) : Option Bytes :=
  let asn := if as4 then enc32 h.peerAS ++ enc32 h.localAS else enc16 h.peerAS ++ enc16 h.localAS
  if h.afi = 1 then some (asn ++ enc16 h.ifIndex ++ enc16 h.afi ++ copyInto 4 h.peerAddr ++ copyInto 4 h.localAddr)
  else if h.afi = 2 then some (asn ++ enc16 h.ifIndex ++ enc16 h.afi ++ copyInto 16 h.peerAddr ++ copyInto 16 h.localAddr)
  else none

/-- ParseBody, BGP4MP subtypes: (state change?, AS4?) -/
def bgp4mpKind (sub : Nat) : Option (Bool × Bool) :=
  if sub = 0 then some (true, false) else if sub = 5 then some (true, true)
  else if sub = 1 ∨ sub = 6 ∨ sub = 8 ∨ sub = 10 then some (false, false)
  else if sub = 4 ∨ sub = 7 ∨ sub = 9 ∨ sub = 11 then some (false, true)
  else none

/-- the subtype eventToMrtMsg picks: BGP4MP_MESSAGE (_AS4) (_ADDPATH) -/
def bgp4mpSubtype (as4 addPath : Bool) : Nat :=
  if addPath ∧ as4 then 9 else if addPath then 8 else if as4 then 4 else 1

inductive Bgp4mp where
  | state (h : Bgp4mpHdr) (old new : Nat)
  | message (h : Bgp4mpHdr) (msg : Bytes)      -- the embedded BGP message, opaque
deriving Repr, DecidableEq, Inhabited

/-- parseBGP4MPStateChange / parseBGP4MPMessage: the message is the octets its own header
    announces (what follows is ignored) -/
def parseBgp4mp (sub : Nat) (d : Bytes) : Option Bgp4mp :=
  match bgp4mpKind sub with
  | none => none
  | some (isState, as4) =>
    match parseBgp4mpHdr as4 d with
    | none => none
    | some (h, d) =>
      if isState then
        match getU16 d with
        | none => none
        | some (o, d) =>
          match getU16 d with
          | none => none
          | some (n, _) => some (.state h o n)
      else
        match bgpFrame d with
        | none => none
        | some (m, _) => some (.message h m)

/-- (*BGP4MPStateChange).Serialize / (*BGP4MPMessage).Serialize (payload = serialised message) -/
def serBgp4mp (as4 : Bool) : Bgp4mp → Option Bytes
  | .state h o n => (serBgp4mpHdr as4 h).map (· ++ enc16 o ++ enc16 n)
  | .message h m => (serBgp4mpHdr as4 h).map (· ++ m)

end Mrt

namespace Bmp

/-! ## BMP bodies the daemon writes -/

inductive Body2 where
  | routeMon (msg : Bytes)                                          -- BGP UPDATE, opaque
  | peerUp (local16 : Bytes) (lport rport : Nat) (sent recv : Bytes) (info : List (Nat × Bytes))
  | peerDownMsg (reason : Nat) (msg : Bytes)                        -- reasons 1 and 3: NOTIFICATION
  | peerDownData (reason : Nat) (data : Bytes)
  | peerDownInfo (info : List (Nat × Bytes))                        -- reason 6
deriving Repr, DecidableEq, Inhabited

/-- (*BMPRouteMonitoring / *BMPPeerUpNotification / *BMPPeerDownNotification).ParseBody on the
    octets behind the per-peer header. `typ` = BMP message type (0, 2, 3). -/
def parseBody2 (typ : Nat) (d : Bytes) : Option Body2 :=
  if typ = 0 then
    match bgpFrame d with
    | none => none
    | some (m, _) => some (.routeMon m)
  else if typ = 3 then
    match getN 16 d with
    | none => none
    | some (la, d) =>
      match getU16 d with
      | none => none
      | some (lp, d) =>
        match getU16 d with
        | none => none
        | some (rp, d) =>
          match bgpFrame d with
          | none => none
          | some (s, d) =>
            match bgpFrame d with
            | none => none
            | some (r, d) =>
              if d.length > 0 then
                match tlvs false d.length d with
                | none => none
                | some l => some (.peerUp la lp rp s r l)
              else some (.peerUp la lp rp s r [])
  else if typ = 2 then
    match getU8 d with
    | none => none
    | some (reason, d) =>
      if reason = 1 ∨ reason = 3 then
        match bgpFrame d with
        | none => none
        | some (m, _) => some (.peerDownMsg reason m)
      else if reason = 6 then
        if d.length > 0 then
          match tlvs false d.length d with
          | none => none
          | some l => some (.peerDownInfo l)
        else some (.peerDownInfo [])
      else some (.peerDownData reason d)
  else none

def serTlvs : List (Nat × Bytes) → Bytes
  | [] => []
  | (t, v) :: r => enc16 t ++ enc16 v.length ++ v ++ serTlvs r

/-- the Serialize methods of the three bodies (local address already laid out in 16 octets) -/
def serBody2 : Body2 → Bytes
  | .routeMon m => m
  | .peerUp la lp rp s r info => copyInto 16 la ++ enc16 lp ++ enc16 rp ++ s ++ r ++ serTlvs info
  | .peerDownMsg reason m => enc8 reason ++ m
  | .peerDownData reason data => enc8 reason ++ data
  | .peerDownInfo info => enc8 6 ++ serTlvs info

/-- a whole BMP message with a per-peer header: common header (Length = everything), per-peer
    header, body -/
def serMsg2 (typ : Nat) (p : PeerHdr) (b : Body2) : Bytes :=
  let rest := serPeer p ++ serBody2 b
  serHdr ⟨3, 6 + rest.length, typ⟩ ++ rest

/-- parseBMPMessage for the message types 0, 2, 3 with the bodies above -/
def parseMsg2 (d0 : Bytes) : Option (Hdr × PeerHdr × Body2) :=
  match decHdr d0 with
  | .error _ => none
  | .ok h =>
    if h.len < 6 ∨ h.len > d0.length then none
    else
      let d := slice d0 6 (h.len - 6)
      match decPeer d with
      | .error _ => none
      | .ok p =>
        match parseBody2 h.typ (d.drop 42) with
        | none => none
        | some b => some (h, p, b)

end Bmp
end Framing
