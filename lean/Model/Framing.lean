/-
  Byte-level model of the framing layers of gobgp's auxiliary codecs.

  Mirrors, branch for branch (byte strings are `List Nat`, every element < 256):
    pkg/packet/rtr/rtr.go   RTRCommon/RTRReset/RTRCacheResponse/RTRIPPrefix/RTRErrorReport
                            .DecodeFromBytes / .Serialize, ParseRTR, New* constructors   -> Rtr.*
    pkg/packet/bfd/bfd.go   BFDHeader.Validate / UnmarshalBinary / MarshalBinary            -> Bfd.*
    pkg/packet/mrt/mrt.go   ParseHeader, MRTHeader.Serialize, SplitMrt                      -> Mrt.*
    pkg/packet/bmp/bmp.go   BMPHeader / BMPPeerHeader DecodeFromBytes / Serialize, SplitBMP,
                            parseBMPMessage (framing; bodies: Initiation, Termination and
                            Peer Down without an embedded BGP message)                    -> Bmp.*
    pkg/zebra/zapi.go       HeaderSize, Header.serialize / decodeFromBytes,
                            ReceiveSingleMsg (length handling only)                         -> Zapi.*
  Go's `make([]byte, n)` + indexed writes are modelled with their panics (`none`).
  The model is of the code AFTER the `fix:` commits of branch wt-C19 (NewRTRIPPrefix, SplitMrt,
  SplitBMP, parseBMPMessage length check, per-peer timestamp rounding); the splitters of the pinned
  commit are kept as `Mrt.splitOld` / `Bmp.splitOld` for the counterexample theorems.
  Core-only (no Mathlib) so that the line-protocol driver links as a lean_exe.
-/
namespace Framing

abbrev Bytes := List Nat

/-! ### readers / writers (encoding/binary.BigEndian) -/

/-- `data[i]` (0 when out of range; every use below is guarded by a length check) -/
def rd8 (d : Bytes) (i : Nat) : Nat := (d.drop i).headD 0

/-- `binary.BigEndian.Uint16(data[i:i+2])` -/
def rd16 (d : Bytes) (i : Nat) : Nat :=
  match d.drop i with
  | a :: b :: _ => a * 256 + b
  | _ => 0

/-- `binary.BigEndian.Uint32(data[i:i+4])` -/
def rd32 (d : Bytes) (i : Nat) : Nat :=
  match d.drop i with
  | a :: b :: c :: e :: _ => ((a * 256 + b) * 256 + c) * 256 + e
  | _ => 0

/-- `binary.BigEndian.Uint64(data[i:i+8])` -/
def rd64 (d : Bytes) (i : Nat) : Nat := rd32 d i * 4294967296 + rd32 d (i + 4)

/-- `data[i:i+n]` -/
def slice (d : Bytes) (i n : Nat) : Bytes := (d.drop i).take n

def enc8 (n : Nat) : Bytes := [n % 256]
def enc16 (n : Nat) : Bytes := [n / 256 % 256, n % 256]
def enc32 (n : Nat) : Bytes := [n / 16777216 % 256, n / 65536 % 256, n / 256 % 256, n % 256]
def enc64 (n : Nat) : Bytes := enc32 (n / 4294967296) ++ enc32 (n % 4294967296)

def zeros (n : Nat) : Bytes := List.replicate n 0

/-- `copy(buf[off:off+n], src)` into a zeroed field of width `n` -/
def copyInto (n : Nat) (src : Bytes) : Bytes := src.take n ++ zeros (n - src.length)

/-- `copy(buf[off:], src)`: overwrite from `off`, silently truncated at the end of `buf`
    (callers guarantee `off ≤ buf.length`, otherwise the slice expression would panic). -/
def blit (buf : Bytes) (off : Nat) (src : Bytes) : Bytes :=
  buf.take off ++ src.take (buf.length - off) ++ buf.drop (off + min src.length (buf.length - off))

/-- result of a `bufio.SplitFunc`: `(0, nil, nil)` / `(0, nil, err)` / `(adv, token, nil)` -/
inductive Split where
  | more
  | err
  | tok (adv : Nat) (t : Bytes)
deriving Repr, DecidableEq, Inhabited

/-! ## RPKI-RTR -/
namespace Rtr

inductive Err where
  | short | unknown | range | badlen
deriving Repr, DecidableEq, Inhabited

/-- the five Go struct shapes; `typ` is the PDU type octet as stored in the struct -/
inductive Pdu where
  | common (ver typ sess len serial : Nat)                 -- RTRSerialNotify/SerialQuery/EndOfData
  | reset (ver typ len : Nat)                              -- RTRResetQuery / RTRCacheReset
  | cacheResp (ver typ sess len : Nat)                     -- RTRCacheResponse
  | ipPrefix (ver typ len flags plen mlen : Nat) (addr : Bytes) (asn : Nat)
  | errReport (ver typ code len pduLen : Nat) (pdu : Bytes) (textLen : Nat) (text : Bytes)
deriving Repr, DecidableEq, Inhabited

/-- (*RTRCommon).DecodeFromBytes -/
def decCommon (d : Bytes) : Except Err Pdu :=
  if d.length < 12 then .error .short
  else .ok (.common (rd8 d 0) (rd8 d 1) (rd16 d 2) (rd32 d 4) (rd32 d 8))

/-- (*RTRReset).DecodeFromBytes -/
def decReset (d : Bytes) : Except Err Pdu :=
  if d.length < 8 then .error .short
  else .ok (.reset (rd8 d 0) (rd8 d 1) (rd32 d 4))

/-- (*RTRCacheResponse).DecodeFromBytes -/
def decCacheResp (d : Bytes) : Except Err Pdu :=
  if d.length < 8 then .error .short
  else .ok (.cacheResp (rd8 d 0) (rd8 d 1) (rd16 d 2) (rd32 d 4))

/-- (*RTRIPPrefix).DecodeFromBytes -/
def decPrefix (d : Bytes) : Except Err Pdu :=
  if d.length < 20 then .error .short
  else
    let typ := rd8 d 1
    let plen := rd8 d 9
    let mlen := rd8 d 10
    if typ = 4 then
      if mlen > 32 ∨ plen > mlen then .error .range
      else .ok (.ipPrefix (rd8 d 0) typ (rd32 d 4) (rd8 d 8) plen mlen (slice d 12 4) (rd32 d 16))
    else
      if d.length < 32 then .error .short
      else if mlen > 128 ∨ plen > mlen then .error .range
      else .ok (.ipPrefix (rd8 d 0) typ (rd32 d 4) (rd8 d 8) plen mlen (slice d 12 16) (rd32 d 28))

/-- (*RTRErrorReport).DecodeFromBytes -/
def decErr (d0 : Bytes) : Except Err Pdu :=
  if d0.length < 12 then .error .short
  else
    let len := rd32 d0 4
    if len < 16 then .error .short
    else if d0.length < len then .error .short
    else
      let d := d0.take len
      let pduLen := rd32 d 8
      if pduLen > d.length - 12 - 4 then .error .short
      else
        let tOff := 12 + pduLen
        let textLen := rd32 d tOff
        let textOff := tOff + 4
        if textLen > d.length - textOff then .error .short
        else if len ≠ 16 + pduLen + textLen then .error .badlen
        else .ok (.errReport (rd8 d 0) (rd8 d 1) (rd16 d 2) len pduLen (slice d 12 pduLen)
                    textLen (slice d textOff textLen))

/-- ParseRTR -/
def parse (d : Bytes) : Except Err Pdu :=
  if d.length < 8 then .error .short
  else
    let t := rd8 d 1
    if t = 0 ∨ t = 1 ∨ t = 7 then decCommon d
    else if t = 2 ∨ t = 8 then decReset d
    else if t = 3 then decCacheResp d
    else if t = 4 ∨ t = 6 then decPrefix d
    else if t = 10 then decErr d
    else .error .unknown

/-- `data := make([]byte, m.Len)` followed by writes that cover exactly the indices of
    `fixed`: panics (`none`) when `Len` is shorter, the tail stays zero. -/
def padTo (fixed : Bytes) (len : Nat) : Option Bytes :=
  if len < fixed.length then none else some (fixed ++ zeros (len - fixed.length))

/-- the `Serialize` methods; `none` = runtime panic (index / slice bounds out of range) -/
def serialize : Pdu → Option Bytes
  | .common ver typ sess len serial =>
      padTo (enc8 ver ++ enc8 typ ++ enc16 sess ++ enc32 len ++ enc32 serial) len
  | .reset ver typ len =>
      padTo (enc8 ver ++ enc8 typ ++ [0, 0] ++ enc32 len) len
  | .cacheResp ver typ sess len =>
      padTo (enc8 ver ++ enc8 typ ++ enc16 sess ++ enc32 len) len
  | .ipPrefix ver typ len flags plen mlen addr asn =>
      let head := enc8 ver ++ enc8 typ ++ [0, 0] ++ enc32 len ++ enc8 flags ++ enc8 plen ++ enc8 mlen ++ [0]
      if typ = 4 then padTo (head ++ copyInto 4 addr ++ enc32 asn) len
      else padTo (head ++ copyInto 16 addr ++ enc32 asn) len
  | .errReport ver typ code len pduLen pdu textLen text =>
      if len < 12 then none
      else
        let b1 := enc8 ver ++ enc8 typ ++ enc16 code ++ enc32 len ++ enc32 pduLen ++ zeros (len - 12)
        let b2 := blit b1 12 pdu
        let lo := (12 + pduLen) % 4294967296      -- uint32 arithmetic in the slice bounds
        let hi := (16 + pduLen) % 4294967296
        if lo > hi ∨ hi > len then none
        else
          let b3 := blit b2 lo (enc32 textLen)
          some (blit b3 hi text)

/-- NewRTRSerialNotify (0) / NewRTRSerialQuery (1) / NewRTREndOfData (7) -/
def mkCommon (typ id sn : Nat) : Pdu := .common 0 typ id 12 sn
/-- NewRTRResetQuery (2) / NewRTRCacheReset (8) -/
def mkReset (typ : Nat) : Pdu := .reset 0 typ 8
/-- NewRTRCacheResponse -/
def mkCacheResp (id : Nat) : Pdu := .cacheResp 0 3 id 8
/-- NewRTRIPPrefix (after `fix: rtr: NewRTRIPPrefix rejects …`): `none` = the constructor returns nil -/
def mkPrefix (addr : Bytes) (plen mlen asn flags : Nat) : Option Pdu :=
  if addr.length = 4 ∧ plen ≤ mlen ∧ mlen ≤ 32 then some (.ipPrefix 0 4 20 flags plen mlen addr asn)
  else if addr.length = 16 ∧ plen ≤ mlen ∧ mlen ≤ 128 then some (.ipPrefix 0 6 32 flags plen mlen addr asn)
  else none
/-- NewRTRErrorReport with non-nil PDU and text (nil ↦ empty gives the same struct on the wire);
    `none` = returns nil because the erroneous PDU is itself an Error Report -/
def mkErrReport (code : Nat) (pdu text : Bytes) : Option Pdu :=
  if pdu ≠ [] ∧ rd8 pdu 1 = 10 then none
  else some (.errReport 0 10 code (8 + 4 + pdu.length + 4 + text.length) pdu.length pdu text.length text)

end Rtr

/-! ## BFD -/
namespace Bfd

inductive Err where
  | length | header | version | diag | state
deriving Repr, DecidableEq, Inhabited

structure Hdr where
  ver : Nat
  diag : Nat
  state : Nat
  poll : Bool
  final : Bool
  mult : Nat
  my : Nat
  your : Nat
  tx : Nat
  rx : Nat
deriving Repr, DecidableEq, Inhabited

/-- (*BFDHeader).Validate -/
def validate (h : Hdr) : Option Err :=
  if h.ver > 7 then some .version
  else if h.diag > 31 then some .diag
  else if h.state > 3 then some .state
  else none

def b2n (b : Bool) : Nat := if b then 1 else 0

/-- (*BFDHeader).UnmarshalBinary -/
def unmarshal (d : Bytes) : Except Err Hdr :=
  if d.length < 24 then .error .length
  else if d.length ≠ rd8 d 3 then .error .header
  else
    let b0 := rd8 d 0
    let b1 := rd8 d 1
    .ok { ver := b0 / 32, diag := b0 % 32, state := b1 / 64,
          poll := b1 / 32 % 2 != 0, final := b1 / 16 % 2 != 0,
          mult := rd8 d 2, my := rd32 d 4, your := rd32 d 8, tx := rd32 d 12, rx := rd32 d 16 }

/-- (*BFDHeader).MarshalBinary. `ver<<5 | diag&0x1f` and `state<<6 | poll<<5 | final<<4` are
    written as sums: the operands have disjoint bits (uint8 shifts wrap modulo 256). -/
def marshal (h : Hdr) : Except Err Bytes :=
  match validate h with
  | some e => .error e
  | none =>
    .ok ([h.ver * 32 % 256 + h.diag % 32,
          h.state * 64 % 256 + b2n h.poll * 32 + b2n h.final * 16,
          h.mult % 256, 24]
         ++ enc32 h.my ++ enc32 h.your ++ enc32 h.tx ++ enc32 h.rx ++ [0, 0, 0, 0])

end Bfd

/-! ## MRT -/
namespace Mrt

inductive Err where
  | short | shortET
deriving Repr, DecidableEq, Inhabited

structure Hdr where
  ts : Nat
  typ : Nat
  sub : Nat
  len : Nat
  usec : Nat
deriving Repr, DecidableEq, Inhabited

/-- MRTType.HasExtendedTimestamp: BGP4MP_ET, ISIS_ET, OSPFv3_ET -/
def hasET (t : Nat) : Bool := t == 17 || t == 33 || t == 49

/-- ParseHeader -/
def parseHeader (d : Bytes) : Except Err Hdr :=
  if d.length < 12 then .error .short
  else
    let typ := rd16 d 4
    if hasET typ then
      if d.length < 16 then .error .shortET
      else .ok ⟨rd32 d 0, typ, rd16 d 6, rd32 d 8, rd32 d 12⟩
    else .ok ⟨rd32 d 0, typ, rd16 d 6, rd32 d 8, 0⟩

/-- (*MRTHeader).Serialize -/
def serializeHeader (h : Hdr) : Bytes :=
  enc32 h.ts ++ enc16 h.typ ++ enc16 h.sub ++ enc32 h.len ++ (if hasET h.typ then enc32 h.usec else [])

/-- SplitMrt after `fix: mrt: SplitMrt …` (len instead of cap, no uint32 wrap, Length read from
    the 12-octet common header whatever the type). -/
def split (d : Bytes) (atEOF : Bool) : Split :=
  if atEOF ∧ d.length = 0 then .more
  else if d.length < 12 then .more
  else
    let tot := rd32 d 8 + 12
    if d.length < tot then .more
    else .tok tot (d.take tot)

/-- SplitMrt as found at the pinned commit. `spare` are the octets between `len(data)` and
    `cap(data)` (a bufio.Scanner hands out `buf[start:end]`, whose capacity extends to the end of
    its buffer). -/
def splitOld (d spare : Bytes) (atEOF : Bool) : Split :=
  if atEOF ∧ d.length = 0 then .more
  else if d.length + spare.length < 12 then .more
  else
    match parseHeader ((d ++ spare).take 12) with
    | .error _ => .err
    | .ok h =>
      let tot := (h.len + 12) % 4294967296
      if d.length < tot then .more
      else .tok tot (d.take tot)

end Mrt

/-! ## BMP -/
namespace Bmp

inductive Err where
  | short | version | length | typ | peerShort | body
deriving Repr, DecidableEq, Inhabited

structure Hdr where
  ver : Nat
  len : Nat
  typ : Nat
deriving Repr, DecidableEq, Inhabited

/-- (*BMPHeader).DecodeFromBytes -/
def decHdr (d : Bytes) : Except Err Hdr :=
  if d.length < 6 then .error .short
  else if rd8 d 0 ≠ 3 then .error .version
  else .ok ⟨rd8 d 0, rd32 d 1, rd8 d 5⟩

/-- (*BMPHeader).Serialize -/
def serHdr (h : Hdr) : Bytes := enc8 h.ver ++ enc32 h.len ++ enc8 h.typ

/-- BMPPeerHeader. `addr` = PeerAddress.AsSlice() (empty for the zero netip.Addr),
    `bgpid` = PeerBGPID.AsSlice(); the float64 Timestamp is represented by the pair
    (seconds, microseconds) it is converted from / to (conversion outside the model). -/
structure PeerHdr where
  ptype : Nat
  flags : Nat
  dist : Nat
  addr : Bytes
  asn : Nat
  bgpid : Bytes
  sec : Nat
  usec : Nat
deriving Repr, DecidableEq, Inhabited

/-- hasVFlag: PeerType != LOCAL_RIB && Flags & 0x80 != 0 -/
def hasV (ptype flags : Nat) : Bool := ptype != 3 && flags / 128 % 2 == 1

/-- (*BMPPeerHeader).DecodeFromBytes -/
def decPeer (d : Bytes) : Except Err PeerHdr :=
  if d.length < 42 then .error .peerShort
  else
    let ptype := rd8 d 0
    let flags := rd8 d 1
    let addr := if ptype = 3 then [] else if hasV ptype flags then slice d 10 16 else slice d 22 4
    .ok ⟨ptype, flags, rd64 d 2, addr, rd32 d 26, slice d 30 4, rd32 d 34, rd32 d 38⟩

/-- (*BMPPeerHeader).Serialize -/
def serPeer (h : PeerHdr) : Bytes :=
  enc8 h.ptype ++ enc8 h.flags ++ enc64 h.dist
  ++ (if h.ptype = 3 then zeros 16
      else if hasV h.ptype h.flags then copyInto 16 h.addr
      else zeros 12 ++ copyInto 4 h.addr)
  ++ enc32 h.asn ++ copyInto 4 h.bgpid ++ enc32 h.sec ++ enc32 h.usec

/-- NewBMPPeerHeader (the V flag is forced for IPv6 addresses of non-Loc-RIB peers) -/
def mkPeer (t flags dist : Nat) (addr : Bytes) (asn : Nat) (bgpid : Bytes) (sec usec : Nat) : PeerHdr :=
  let flags := if t ≠ 3 ∧ addr.length = 16 ∧ flags / 128 % 2 = 0 then flags + 128 else flags
  ⟨t, flags, dist, addr, asn, bgpid, sec, usec⟩

/-- SplitBMP after `fix: bmp: SplitBMP rejects Length < 6` -/
def split (d : Bytes) (atEOF : Bool) : Split :=
  if (atEOF ∧ d.length = 0) ∨ d.length < 6 then .more
  else
    match decHdr (d.take 6) with
    | .error _ => .more
    | .ok h =>
      if h.len < 6 then .err
      else if d.length < h.len then .more
      else .tok h.len (d.take h.len)

/-- SplitBMP as found at the pinned commit -/
def splitOld (d : Bytes) (atEOF : Bool) : Split :=
  if (atEOF ∧ d.length = 0) ∨ d.length < 6 then .more
  else
    match decHdr (d.take 6) with
    | .error _ => .more
    | .ok h =>
      if d.length < h.len then .more
      else .tok h.len (d.take h.len)

/-- the TLV loops of parseBMPInfoTLVs / (*BMPTermination).ParseBody: `(type, value)` list;
    `strict` = a type-1 TLV must have length 2 (BMPTermTLV16). Fuel = input length. -/
def tlvs (strict : Bool) : Nat → Bytes → Option (List (Nat × Bytes))
  | 0, d => if d.length ≥ 4 then none else some []
  | fuel + 1, d =>
    if d.length < 4 then some []
    else
      let t := rd16 d 0
      let l := rd16 d 2
      let rest := d.drop 4
      if rest.length < l then none
      else if strict ∧ t = 1 ∧ l ≠ 2 then none
      else
        match tlvs strict fuel (rest.drop l) with
        | none => none
        | some r => some ((t, rest.take l) :: r)

inductive Body where
  | info (tlvs : List (Nat × Bytes))            -- Initiation / Termination / Peer Down reason 6
  | down (reason : Nat) (data : Bytes)          -- Peer Down with opaque data
  | unmodelled                                  -- embeds a BGP message or statistics
deriving Repr, DecidableEq, Inhabited

structure Msg where
  hdr : Hdr
  peer : Option PeerHdr
  body : Body
deriving Repr, DecidableEq, Inhabited

/-- parseBMPMessage after `fix: bmp: ParseBMPMessage checks Length against the data`.
    (At the pinned commit `data[6:Length]` was bounded by cap(data), not len(data).) -/
def parseMsg (d0 : Bytes) : Except Err Msg :=
  match decHdr d0 with
  | .error e => .error e
  | .ok h =>
    if h.len < 6 ∨ h.len > d0.length then .error .length
    else
      let d := slice d0 6 (h.len - 6)
      if h.typ > 6 then .error .typ
      else if h.typ = 4 then
        match tlvs false d.length d with
        | none => .error .body
        | some l => .ok ⟨h, none, .info l⟩
      else if h.typ = 5 then
        match tlvs true d.length d with
        | none => .error .body
        | some l => .ok ⟨h, none, .info l⟩
      else
        match decPeer d with
        | .error e => .error e
        | .ok p =>
          let b := d.drop 42
          if h.typ = 2 then
            if b.length < 1 then .error .body
            else
              let reason := rd8 b 0
              let rest := b.drop 1
              if reason = 1 ∨ reason = 3 then .ok ⟨h, some p, .unmodelled⟩
              else if reason = 6 then
                if rest.length > 0 then
                  match tlvs false rest.length rest with
                  | none => .error .body
                  | some l => .ok ⟨h, some p, .info l⟩
                else .ok ⟨h, some p, .info []⟩
              else .ok ⟨h, some p, .down reason rest⟩
          else .ok ⟨h, some p, .unmodelled⟩

end Bmp

/-! ## Zebra API -/
namespace Zapi

inductive Err where
  | short | version | badlen
deriving Repr, DecidableEq, Inhabited

structure Hdr where
  len : Nat
  marker : Nat
  ver : Nat
  vrf : Nat
  cmd : Nat
deriving Repr, DecidableEq, Inhabited

/-- HeaderSize -/
def headerSize (v : Nat) : Nat :=
  if v = 3 ∨ v = 4 then 8 else if v = 5 ∨ v = 6 then 10 else 6

/-- (*Header).serialize; `none` = "unsupported ZAPI version" -/
def serialize (h : Hdr) : Option Bytes :=
  let pre := enc16 h.len ++ enc8 h.marker ++ enc8 h.ver
  if h.ver = 2 then some (pre ++ enc16 h.cmd)
  else if h.ver = 3 ∨ h.ver = 4 then some (pre ++ enc16 h.vrf ++ enc16 h.cmd)
  else if h.ver = 5 ∨ h.ver = 6 then some (pre ++ enc32 h.vrf ++ enc16 h.cmd)
  else none

/-- (*Header).decodeFromBytes (`uint16(len(data))` keeps the low 16 bits) -/
def decode (d : Bytes) : Except Err Hdr :=
  if d.length % 65536 < 4 then .error .short
  else
    let len := rd16 d 0
    let marker := rd8 d 2
    let ver := rd8 d 3
    if d.length % 65536 < headerSize ver then .error .short
    else if ver = 2 then
      if len < headerSize ver then .error .badlen else .ok ⟨len, marker, ver, 0, rd16 d 4⟩
    else if ver = 3 ∨ ver = 4 then
      if len < headerSize ver then .error .badlen else .ok ⟨len, marker, ver, rd16 d 4, rd16 d 6⟩
    else if ver = 5 ∨ ver = 6 then
      if len < headerSize ver then .error .badlen else .ok ⟨len, marker, ver, rd32 d 4, rd16 d 8⟩
    else .error .version

/-- what ReceiveSingleMsg does with the byte stream of the connection -/
inductive Recv where
  | hdrRead (consumed : Nat)       -- io.ReadFull of the header failed
  | mismatch (consumed : Nat)      -- "ZAPI version mismatch"
  | hdrErr (consumed : Nat)        -- header decode error
  | bodyRead (consumed : Nat)      -- io.ReadFull of the body failed
  | framed (consumed : Nat) (h : Hdr) (body : Bytes)   -- handed to parseMessage
deriving Repr, DecidableEq, Inhabited

/-- ReceiveSingleMsg: header of the CONFIGURED version's size, version check before the decode
    error, then `int(hd.Len - HeaderSize(version))` (uint16 arithmetic) body octets. -/
def recv (version : Nat) (s : Bytes) : Recv :=
  let hs := headerSize version
  if s.length < hs then .hdrRead s.length
  else
    let hb := s.take hs
    if version ≠ rd8 hb 3 then .mismatch hs
    else
      match decode hb with
      | .error _ => .hdrErr hs
      | .ok h =>
        let bl := (h.len + 65536 - hs) % 65536
        let rest := s.drop hs
        if rest.length < bl then .bodyRead s.length
        else .framed (hs + bl) h (rest.take bl)

end Zapi

end Framing
