/-
  Model of gobgp's best-path selection (internal/pkg/table/destination.go).

  Mirrors, branch for branch:
    compareByLLGRStaleCommunity .. compareByNeighborAddress, compareByAge  -> c*
    the closure handed to sort.Search in insertSort                          -> better
    Go's sort.Search loop                                                    -> search
    destination.insertSort / implicitWithdraw / explicitWithdraw / Calculate -> insertSort / implicitWithdraw / explicitWithdraw / calc
    Path.Compare, getMultiBestPath                                           -> pathCompare / multipath
  Core-only (no Mathlib) so that the line-protocol driver links as a lean_exe.
-/
namespace BestPath

/-- AS_PATH segment: `typ` 1 = SET, 2 = SEQ, 3 = CONFED_SEQ, 4 = CONFED_SET. -/
structure Seg where
  typ : Nat
  as  : List Nat
deriving Repr, DecidableEq, Inhabited

/-- `PeerInfo` fields the comparators read.  `addr = none` is an invalid (zero) netip.Addr,
    i.e. a locally originated path. `addr`/`rid` are order-preserving encodings. -/
structure Src where
  as       : Nat
  localAS  : Nat
  rid      : Nat
  localRid : Nat
  addr     : Option Nat
  confed   : Bool
  rrClient : Bool := false   -- PeerInfo.RouteReflectorClient (read by export filtering only)
deriving Repr, DecidableEq, Inhabited

structure Cand where
  id        : Nat            -- harness label, never read by the comparators
  src       : Src
  pathId    : Nat            -- remote path identifier
  stale     : Bool           -- carries LLGR_STALE community
  nhInvalid : Bool
  localPref : Option Nat
  segs      : List Seg
  origin    : Option Nat
  med       : Option Nat
  ts        : Nat            -- Unix seconds (originInfo.timestamp)
  -- fields below are never read by the best-path comparators (used by Model/World.lean)
  pfx         : Nat := 0          -- destination (prefix index)
  marker      : Nat := 0          -- identifies the announcement (a community 65534:marker)
  originator  : Option Nat := none
  clusterList : List Nat := []
  comms       : List Nat := []    -- other communities
deriving Repr, DecidableEq, Inhabited

structure Opts where
  alwaysCompareMed   : Bool
  ignoreAsPathLen    : Bool
  extCompareRouterId : Bool
deriving Repr, DecidableEq, Inhabited

/-- (*As4PathParam).ASLen -/
def Seg.asLen (s : Seg) : Nat :=
  if s.typ = 2 then s.as.length
  else if s.typ = 1 then 1
  else 0

/-- Path.GetAsPathLen -/
def asPathLen (c : Cand) : Nat := (c.segs.map Seg.asLen).sum

/-- the `firstAS` closure of compareByMED: first AS of the first non-empty,
    non-confederation segment, 0 if there is none. -/
def firstASSegs : List Seg → Nat
  | [] => 0
  | s :: rest =>
    match s.as with
    | [] => firstASSegs rest
    | a :: _ => if s.typ = 3 || s.typ = 4 then firstASSegs rest else a

def firstAS (c : Cand) : Nat := firstASSegs c.segs

/-- PeerInfo.Equal -/
def Src.equal (a b : Src) : Bool :=
  a.as == b.as && a.rid == b.rid && a.localRid == b.localRid && a.addr == b.addr

def Cand.isLocal (c : Cand) : Bool := c.src.addr.isNone
/-- Path.IsIBGP -/
def Cand.isIBGP (c : Cand) : Bool := c.src.as == c.src.localAS && c.src.as != 0
/-- the notion compareByASNumber / compareByAge / compareByRouterID use after the fix:
    confederation members count as internal -/
def Cand.isInternal (c : Cand) : Bool := c.src.confed || c.isIBGP

def Cand.getLocalPref (c : Cand) : Nat := c.localPref.getD 100
def Cand.getMed (c : Cand) : Nat := c.med.getD 0

/-- result of one comparator: which argument it returned -/
inductive R where
  | first | second | none
deriving Repr, DecidableEq

def cmp3Lo (x y : Nat) : R := if x < y then .first else if y < x then .second else .none

def cLLGR (a b : Cand) : R :=
  if a.stale == b.stale then .none else if a.stale then .second else .first

def cReach (a b : Cand) : R :=
  if a.nhInvalid && !b.nhInvalid then .second
  else if !a.nhInvalid && b.nhInvalid then .first
  else .none

def cLocalPref (a b : Cand) : R :=
  if a.getLocalPref > b.getLocalPref then .first
  else if a.getLocalPref < b.getLocalPref then .second
  else .none

def cLocalOrigin (a b : Cand) : R :=
  if a.src.equal b.src then .none
  else if a.isLocal then .first
  else if b.isLocal then .second
  else .none

def cAsPath (o : Opts) (a b : Cand) : R :=
  if o.ignoreAsPathLen then .none
  else if asPathLen a > asPathLen b then .second
  else if asPathLen a < asPathLen b then .first
  else .none

def cOrigin (a b : Cand) : R :=
  match a.origin, b.origin with
  | some x, some y => if x = y then .none else if x < y then .first else .second
  | _, _ => .none

def medComparable (o : Opts) (a b : Cand) : Bool :=
  o.alwaysCompareMed || (asPathLen a == 0 && asPathLen b == 0) ||
    (firstAS a != 0 && firstAS a == firstAS b)

def cMed (o : Opts) (a b : Cand) : R :=
  if medComparable o a b then
    if a.getMed = b.getMed then .none else if a.getMed < b.getMed then .first else .second
  else .none

def cAsNumber (a b : Cand) : R :=
  if a.isInternal != b.isInternal then
    if a.isInternal then .second else .first
  else .none

/-- which notion of "internal" the age and router-id steps use. The pinned tree used
    `IsIBGP()` there (and `Confederation || IsIBGP()` in compareByASNumber): that is the
    C03 defect; after the fix all three use `isInternal`. The driver is told which one the
    code under test uses only through its behaviour, so the model has a single definition. -/
def cAge (o : Opts) (a b : Cand) : R :=
  if !a.isInternal && !b.isInternal && !o.extCompareRouterId then
    if a.ts = b.ts then .none else if a.ts < b.ts then .first else .second
  else .none

def cRouterId (o : Opts) (a b : Cand) : R :=
  if a.isLocal && b.isLocal then .none
  else if !o.extCompareRouterId && !a.isInternal && !b.isInternal then .none
  else if !o.extCompareRouterId && a.isInternal != b.isInternal then .none
  else if a.src.rid = b.src.rid then .none
  else if a.src.rid < b.src.rid then .first
  else .second

def cNeighbor (a b : Cand) : R :=
  match a.src.addr with
  | none => .first
  | some p1 =>
    match b.src.addr with
    | none => .second
    | some p2 => if p1 < p2 then .first else if p2 < p1 then .second else .none

/-- the comparators in the order the `sort.Search` closure calls them -/
def chain (o : Opts) (a b : Cand) : List R :=
  [cLLGR a b, cReach a b, cLocalPref a b, cLocalOrigin a b, cAsPath o a b, cOrigin a b,
   cMed o a b, cAsNumber a b, cAge o a b, cRouterId o a b, cNeighbor a b]

/-- `return true` on the first comparator that picks path1, `false` on the first that picks
    path2, `true` when all tie. -/
def decideChain : List R → Bool
  | [] => true
  | .first :: _ => true
  | .second :: _ => false
  | .none :: rest => decideChain rest

/-- the predicate of sort.Search in insertSort, with path1 = a (new path), path2 = b -/
def better (o : Opts) (a b : Cand) : Bool := decideChain (chain o a b)

/-- Go's sort.Search loop: `for i < j { h := (i+j)/2; if !f(h) { i = h+1 } else { j = h } }`.
    `fuel` bounds the iterations (j - i shrinks every round, so `n` rounds suffice); structural
    recursion keeps the definition reducible by `decide`. -/
def searchLoop (f : Nat → Bool) : Nat → Nat → Nat → Nat
  | 0, i, _ => i
  | fuel + 1, i, j =>
    if i < j then
      let m := (i + j) / 2
      if !f m then searchLoop f fuel (m + 1) j else searchLoop f fuel i m
    else i

def search (n : Nat) (f : Nat → Bool) : Nat := searchLoop f n 0 n

def insertAt (l : List Cand) (idx : Nat) (x : Cand) : List Cand := l.take idx ++ x :: l.drop idx

/-- destination.insertSort -/
def insertSort (o : Opts) (l : List Cand) (x : Cand) : List Cand :=
  let idx := search l.length (fun i => match l[i]? with
    | some y => better o x y
    | none => true)
  insertAt l idx x

/-- Path.EqualBySourceAndPathID -/
def sameKey (a b : Cand) : Bool := a.src.equal b.src && a.pathId == b.pathId

/-- destination.implicitWithdraw: remove the FIRST entry with the same source and path-id -/
def implicitWithdraw (l : List Cand) (x : Cand) : List Cand :=
  match l with
  | [] => []
  | y :: rest => if sameKey x y then rest else y :: implicitWithdraw rest x

/-- destination.explicitWithdraw: the loop keeps overwriting `isFound`, so the LAST entry
    with the same source and path-id is the one removed -/
def explicitWithdraw : List Cand → Cand → List Cand
  | [], _ => []
  | y :: rest, x =>
    if sameKey y x && !(rest.any (fun z => sameKey z x)) then rest
    else y :: explicitWithdraw rest x

inductive Op where
  | ann (c : Cand)
  | wd  (c : Cand)     -- only `src` and `pathId` of `c` are read
deriving Repr

/-- destination.Calculate restricted to knownPathList -/
def calcStep (o : Opts) (l : List Cand) : Op → List Cand
  | .ann c => insertSort o (implicitWithdraw l c) c
  | .wd c  => explicitWithdraw l c

def run (o : Opts) (ops : List Op) : List Cand := ops.foldl (calcStep o) []

/-! ### multipath (Path.Compare, getMultiBestPath) -/

/-- Path.Compare: > 0 if `a` preferred -/
def pathCompare (a b : Cand) : Int :=
  if a.isLocal && !b.isLocal then 1
  else if !a.isLocal && b.isLocal then -1
  else if !a.isIBGP && b.isIBGP then 1
  else if a.isIBGP && !b.isIBGP then -1
  else if a.getLocalPref != b.getLocalPref then (a.getLocalPref : Int) - b.getLocalPref
  else if asPathLen a != asPathLen b then (asPathLen b : Int) - asPathLen a
  else if a.origin.getD 0 != b.origin.getD 0 then (b.origin.getD 0 : Int) - a.origin.getD 0
  else (b.getMed : Int) - a.getMed

/-- a path that may share the load with `best`: reachable, as LLGR-stale as `best`, and equal
    under Path.Compare -/
def equalCost (best y : Cand) : Bool :=
  !y.nhInvalid && y.stale == best.stale && pathCompare y best == 0

/-- getMultiBestPath (after the fix): the run of equal-cost paths at the head of the list -/
def multipath (l : List Cand) : List Cand :=
  match l with
  | [] => []
  | best :: rest => if best.nhInvalid then [] else best :: rest.takeWhile (equalCost best)

/-- getMultiBestPath as on the pinned tree: the end of the run located by `sort.Search` -/
def multipathOld (l : List Cand) : List Cand :=
  match l with
  | [] => []
  | best :: _ =>
    if best.nhInvalid then []
    else
      let idx := search l.length (fun i => match l[i]? with
        | some y => y.nhInvalid || pathCompare y best != 0
        | none => true)
      l.take idx

end BestPath
