/-
C13 — the community pattern compiler of internal/pkg/table/policy.go, mirrored AS STRING FUNCTIONS
(strings are `List Nat` of byte values), on branch wt-C13 (i.e. WITH the `fix:` commits that tighten
the recognisers: canonical decimals, no repetition operator on the colon, whole-rest wildcard test,
no space trimming).

Bitmaps (`localAdminBitmap`, 65536 bits) are modelled as predicates `Nat → Bool` on the local-admin
value; only arguments < 65536 are ever looked at.  A compiled `*regexp.Regexp` is modelled by its
source string (that is all `re.String()` exposes) and `re.Match` by `Regex.search ∘ Regex.parse`.
-/
import Model.Regex
namespace CommMatch
open Regex

abbrev Str := List Nat

/-! ## strconv -/

def digitsVal (s : Str) : Nat := s.foldl (fun a c => a * 10 + (c - 48)) 0

/-- `strconv.ParseUint(s, 10, bits)`: `some v` iff no error -/
def parseUint (s : Str) (bits : Nat) : Option Nat :=
  if s.isEmpty then none
  else if !s.all isDigit then none
  else if digitsVal s < 2 ^ bits then some (digitsVal s) else none

def toDecAux : Nat → Nat → Str → Str
  | 0, _, acc => acc
  | f + 1, n, acc => if n < 10 then (48 + n) :: acc else toDecAux f (n / 10) ((48 + n % 10) :: acc)

/-- `strconv.FormatUint(n, 10)` / `AppendUint` -/
def toDec (n : Nat) : Str := toDecAux (n + 1) n []

/-- `isCanonicalDecimal` (added by the fix): a digit string without leading zeros -/
def isCanonical (s : Str) : Bool :=
  match s with
  | [] => false
  | [_] => true
  | c :: _ => c != 48

/-- canonical text of a standard community `c` (uint32): `AS:local` -/
def render (c : Nat) : Str := toDec (c / 65536) ++ [58] ++ toDec (c % 65536)

/-! ## small string helpers -/

def beforeColon (s : Str) : Str := s.takeWhile (fun c => c != 58)
/-- `[]` when there is no colon, else the colon and everything after it -/
def fromColon (s : Str) : Str := s.dropWhile (fun c => c != 58)

def trimDollar (s : Str) : Str := if s.getLast? = some 36 then s.dropLast else s

/-- `strings.Split(s, "|")` -/
def splitBar : Str → List Str
  | [] => [[]]
  | c :: cs =>
    if c = 124 then [] :: splitBar cs
    else match splitBar cs with
      | [] => [[c]]
      | h :: t => (c :: h) :: t

def nodupB : List Nat → Bool
  | [] => true
  | a :: l => !l.contains a && nodupB l

/-! ## recognisers -/

/-- `anchoredBody` -/
def anchoredBody (s : Str) : Option Str :=
  if s.length < 3 || s.head? != some 94 || s.getLast? != some 36 then none
  else some (s.drop 1).dropLast

/-- `parseExactASColonLocal(body, localBits)` -/
def parseExact (body : Str) (bits : Nat) : Option (Nat × Nat) :=
  match fromColon body with
  | [] => none
  | _ :: l =>
    let a := beforeColon body
    if a.isEmpty || l.contains 58 then none
    else match parseUint a 16, parseUint l bits with
      | some x, some y => if isCanonical a && isCanonical l then some (x, y) else none
      | _, _ => none

def wcStarCls : Str := [91, 48, 45, 57, 93, 42]    -- [0-9]*
def wcPlusCls : Str := [91, 48, 45, 57, 93, 43]    -- [0-9]+
def wcStarD : Str := [92, 100, 42]                 -- \d*
def wcPlusD : Str := [92, 100, 43]                 -- \d+
def wcDotStar : Str := [46, 42]                    -- .*

/-- `isWildcardASN` -/
def isWildcardASN (lhs : Str) : Bool :=
  lhs == wcStarCls || lhs == wcPlusCls || lhs == wcStarD || lhs == wcPlusD

/-- `isWildcardLocal(rest)` (fixed: the WHOLE rest after `^ASN:`) -/
def isWildcardLocal (rest : Str) : Bool :=
  let r := trimDollar rest
  r == wcPlusD || r == wcPlusCls || r == wcDotStar

def parseTok (t : Str) : Option Nat :=
  match parseUint t 16 with
  | some n => if isCanonical t then some n else none
  | none => none

def parseToks : List Str → Option (List Nat)
  | [] => some []
  | t :: ts =>
    match parseTok t, parseToks ts with
    | some n, some ns => some (n :: ns)
    | _, _ => none

/-- `parseLocalAdminSet(rhs)`: the list of local values of `(n|n|…)` or `n`
(`rhs = "("` would make the Go code slice out of range; no compilable pattern gets there) -/
def parseLocalSet (rhs : Str) : Option (List Nat) :=
  let toks : List Str :=
    if rhs.head? == some 40 && rhs.getLast? == some 41 && 2 ≤ rhs.length
    then splitBar (rhs.drop 1).dropLast else [rhs]
  match parseToks toks with
  | some ls => if ls.isEmpty then none else if nodupB ls then some ls else none
  | none => none

/-- `tryWildcardASNBitmap` -/
def tryWildASN (s : Str) : Option (List Nat) :=
  match anchoredBody s with
  | none => none
  | some body =>
    match fromColon body with
    | [] => none
    | _ :: rhs =>
      let a := beforeColon body
      if a.isEmpty || rhs.isEmpty || rhs.contains 58 then none
      else if !isWildcardASN a then none
      else parseLocalSet rhs

/-- `hasTopLevelAlternation`: Go asks regexp/syntax; for a pattern starting with `^` the first branch
can never be merged with a later one by the parser's factoring, so "Op == OpAlternate" is exactly
"there is a `|` outside every group" -/
def hasTopAlt (s : Str) : Bool :=
  match parseFull s with
  | .ok (_, ta) => ta
  | _ => true

def isRepOp (c : Nat) : Bool := c == 42 || c == 43 || c == 63 || c == 123

/-- `extractLiteralASN(s)` (fixed): `some (asn, rest)` for `^<canonical ASN>:<rest>` -/
def extractASN (s : Str) : Option (Nat × Str) :=
  match s with
  | [] => none
  | c :: t =>
    if c != 94 || hasTopAlt s then none
    else match fromColon t with
      | [] => none
      | _ :: rest =>
        let a := beforeColon t
        if a.isEmpty then none
        else match parseUint a 16 with
          | none => none
          | some asn =>
            if !isCanonical a then none
            else match rest with
              | r0 :: _ => if isRepOp r0 then none else some (asn, rest)
              | [] => some (asn, rest)

/-! ## standard communities -/

/-- `re.Match(text)` for a list entry (entries always compile) -/
def reMatch (p t : Str) : Bool :=
  match parse p with
  | .ok r => search r t
  | _ => false

/-- `communityMatcher`; modes 0 exact, 1 fixed-AS wildcard, 2 fixed-AS bitmap, 3 wildcard-AS bitmap,
4 regexp -/
structure CM where
  mode : Nat
  listIndex : Option Nat
  asn : Nat
  exact : Nat
  bm : Option (Nat → Bool)

/-- `scanLocalAdminBitmap(re, asn)` -/
def scanBitmap (p : Str) (asn : Nat) : Nat → Bool :=
  fun l => reMatch p (toDec asn ++ [58] ++ toDec l)

/-- `compileCommunityMatcher(re, listIndex)` with `s = re.String()` -/
def compile (s : Str) (listIndex : Nat) : CM :=
  match (anchoredBody s).bind (fun b => parseExact b 16) with
  | some (a, l) => ⟨0, none, 0, a * 65536 + l, none⟩
  | none =>
    match extractASN s with
    | some (asn, rest) =>
      if isWildcardLocal rest then ⟨1, none, asn, 0, none⟩
      else ⟨2, none, asn, 0, some (scanBitmap s asn)⟩
    | none =>
      match tryWildASN s with
      | some ls => ⟨3, none, 0, 0, some (fun l => ls.contains l)⟩
      | none => ⟨4, some listIndex, 0, 0, none⟩

def bmGet (b : Option (Nat → Bool)) (l : Nat) : Bool :=
  match b with
  | some f => f l
  | none => false

/-- `communityMatcher.matchesCommunity(c, patterns)` -/
def matchFast (m : CM) (patterns : List Str) (c : Nat) : Bool :=
  match m.mode with
  | 0 => c == m.exact
  | 1 => c / 65536 == m.asn
  | 2 => c / 65536 == m.asn && bmGet m.bm (c % 65536)
  | 3 => bmGet m.bm (c % 65536)
  | _ =>
    match m.listIndex with
    | some i =>
      match patterns[i]? with
      | some p => reMatch p (render c)
      | none => false
    | none => false

def compileFrom : Nat → List Str → List CM
  | _, [] => []
  | i, s :: l => compile s i :: compileFrom (i + 1) l

/-- `communityAnyIndex` -/
structure AnyIdx where
  perAS : List (Nat × (Nat → Bool))
  indep : Option (Nat → Bool)
  hasRegexp : Bool

/-- `orBitmapSliceGet(&entries, asn)` followed by an update `g` of the bitmap found or created -/
def updAS (es : List (Nat × (Nat → Bool))) (asn : Nat) (g : (Nat → Bool) → (Nat → Bool)) :
    List (Nat × (Nat → Bool)) :=
  match es with
  | [] => [(asn, g (fun _ => false))]
  | e :: rest => if e.1 == asn then (e.1, g e.2) :: rest else e :: updAS rest asn g

def orBm (f h : Nat → Bool) : Nat → Bool := fun l => f l || h l

def idxStep (idx : AnyIdx) (m : CM) : AnyIdx :=
  match m.mode with
  | 0 => { idx with perAS := updAS idx.perAS (m.exact / 65536) (fun f l => f l || l == m.exact % 65536) }
  | 1 => { idx with perAS := updAS idx.perAS m.asn (fun _ _ => true) }
  | 2 => { idx with perAS := updAS idx.perAS m.asn (fun f => orBm f (bmGet m.bm)) }
  | 3 => { idx with indep := some (orBm (bmGet idx.indep) (bmGet m.bm)) }
  | _ => { idx with hasRegexp := true }

/-- `buildCommunityMatcherBitmaps` -/
def buildIdx (ms : List CM) : AnyIdx := ms.foldl idxStep ⟨[], none, false⟩

/-- `communityAnyIndex.matchesAny` -/
def matchesAny (idx : AnyIdx) (cs : List Nat) : Bool :=
  if idx.hasRegexp then false
  else cs.any (fun y =>
    bmGet idx.indep (y % 65536) ||
      idx.perAS.any (fun e => e.1 == y / 65536 && e.2 (y % 65536)))

/-- the pattern loop shared by all three `Evaluate`s; `opt`: 0 ANY, 1 ALL, 2 INVERT.
`hit m` = "some community of the route matches pattern m" -/
def evalLoop {α : Type} (opt : Nat) (hit : α → Bool) : List α → Bool → Bool
  | [], result => result
  | m :: ms, _ =>
    let r := hit m
    if opt == 1 && !r then r
    else if opt != 1 && r then r
    else evalLoop opt hit ms r

def finish (opt : Nat) (r : Bool) : Bool := if opt == 2 then !r else r

/-- `CommunitySet`: pattern list + compiled forms -/
structure CSet where
  list : List Str
  matchers : List CM
  idx : AnyIdx

/-- `buildCommunityMatchers` / `rebuildMatchers` -/
def CSet.build (list : List Str) : CSet :=
  let ms := compileFrom 0 list
  ⟨list, ms, buildIdx ms⟩

/-- `CommunityCondition.Evaluate` -/
def evaluate (opt : Nat) (s : CSet) (cs : List Nat) : Bool :=
  if (opt == 0 || opt == 2) && (!s.idx.perAS.isEmpty || s.idx.indep.isSome) && !s.idx.hasRegexp then
    finish opt (matchesAny s.idx cs)
  else
    finish opt (evalLoop opt (fun m => cs.any (fun y => matchFast m s.list y)) s.matchers false)

/-- the reference: the same loop over the regular expressions themselves (the code before the
optimisation, and what `LargeCommunityCondition.Evaluate` still is) -/
def refEval (opt : Nat) (list : List Str) (texts : List Str) : Bool :=
  finish opt (evalLoop opt (fun p => texts.any (fun t => reMatch p t)) list false)

/-! ## editing a set (`regExpSet.Append/Remove/Replace` + rebuild) -/

inductive Edit where
  | append (l : List Str)
  | remove (l : List Str)
  | replace (l : List Str)

def editList (cur : List Str) : Edit → List Str
  | .append l => cur ++ l
  | .remove l => cur.filter (fun x => !l.contains x)
  | .replace l => l

def CSet.edit (s : CSet) (e : Edit) : CSet := CSet.build (editList s.list e)

/-! ## pattern pre-processing (`ParseCommunityRegexp`) -/

def toLowerDash (s : Str) : Str :=
  s.map (fun c => if 65 ≤ c && c ≤ 90 then c + 32 else if c == 95 then 45 else c)

/-- `^(\d+.)*\d+:\d+$` -/
def commRe2 : Str := [94, 40, 92, 100, 43, 46, 41, 42, 92, 100, 43, 58, 92, 100, 43, 36]

def anchored (s : Str) : Str := [94] ++ s ++ [36]

def exactPat (v : Nat) : Str := anchored (toDec (v / 65536) ++ [58] ++ toDec (v % 65536))

/-- `ParseCommunityRegexp(arg)`: the source of the regexp that is compiled; `wk` = the well-known names -/
def prep (wk : List (Str × Nat)) (arg : Str) : Str :=
  match parseUint arg 32 with
  | some v => exactPat v
  | none =>
    if reMatch commRe2 arg then anchored arg
    else match wk.find? (fun e => e.1 == toLowerDash arg) with
      | some e => exactPat e.2
      | none => arg

/-! ## extended communities -/

/-- an extended community as the matcher sees it: a two-octet-AS-specific one, or any other kind
(with its `String()`) -/
inductive EC where
  | two (sub : Nat) (trans : Bool) (as la : Nat)
  | other (sub : Nat) (trans : Bool) (text : Str)

def EC.sub : EC → Nat
  | .two s _ _ _ => s
  | .other s _ _ => s
def EC.trans : EC → Bool
  | .two _ t _ _ => t
  | .other _ t _ => t
def EC.text : EC → Str
  | .two _ _ a l => toDec a ++ [58] ++ toDec l
  | .other _ _ t => t

/-- `extCommunityMatcher`; modes 0 exact, 1 AS-only, 2 AS bitmap, 3 local bitmap, 4 regexp -/
structure XM where
  sub : Nat
  mode : Nat
  as : Nat
  la : Nat
  bm : Option (Nat → Bool)
  re : Option Str

/-- `compileExtCommunityMatcher(subtype, re)` -/
def compileExt (sub : Nat) (s : Str) : XM :=
  let body := anchoredBody s
  match body.bind (fun b => parseExact b 32) with
  | some (a, l) => ⟨sub, 0, a, l, none, none⟩
  | none =>
    match extractASN s with
    | some (asn, rest) =>
      if isWildcardLocal rest then ⟨sub, 1, asn, 0, none, none⟩
      else
        match body with
        | some b =>
          match fromColon b with
          | _ :: rhs =>
            -- `colon > 0` holds: extractASN succeeded, so the AS part is not empty
            match parseLocalSet rhs with
            | some ls => ⟨sub, 2, asn, 0, some (fun l => ls.contains l), none⟩
            | none => ⟨sub, 4, 0, 0, none, some s⟩
          | [] => ⟨sub, 4, 0, 0, none, some s⟩
        | none => ⟨sub, 4, 0, 0, none, some s⟩
    | none =>
      match body with
      | some _ =>
        match tryWildASN s with
        | some ls => ⟨sub, 3, 0, 0, some (fun l => ls.contains l), none⟩
        | none => ⟨sub, 4, 0, 0, none, some s⟩
      | none => ⟨sub, 4, 0, 0, none, some s⟩

/-- `extCommunityMatcher.matchesExtCommunity` -/
def matchExt (m : XM) (x : EC) : Bool :=
  match m.mode with
  | 0 => match x with
    | .two s _ a l => s == m.sub && a == m.as && l == m.la
    | _ => false
  | 1 => match x with
    | .two s _ a _ => s == m.sub && a == m.as
    | _ => false
  | 2 => match x with
    | .two s _ a l => s == m.sub && a == m.as && l ≤ 65535 && bmGet m.bm l
    | _ => false
  | 3 => match x with
    | .two s _ _ l => s == m.sub && l ≤ 65535 && bmGet m.bm l
    | _ => false
  | _ =>
    x.sub == m.sub &&
      match m.re with
      | some p => reMatch p x.text
      | none => false

/-- `extSubtypeAnyIndex` -/
structure XIdx where
  sub : Nat
  perAS : List (Nat × (Nat → Bool))
  global : Option (Nat → Bool)
  asOnly : List Nat
  highLA : List (Nat × Nat)

def updSub (is : List XIdx) (sub : Nat) (g : XIdx → XIdx) : List XIdx :=
  match is with
  | [] => [g ⟨sub, [], none, [], []⟩]
  | e :: rest => if e.sub == sub then g e :: rest else e :: updSub rest sub g

def xidxStep (st : List XIdx × Bool) (m : XM) : List XIdx × Bool :=
  match m.mode with
  | 0 =>
    if m.la ≤ 65535 then
      (updSub st.1 m.sub (fun e => { e with perAS := updAS e.perAS m.as (fun f l => f l || l == m.la) }), st.2)
    else (updSub st.1 m.sub (fun e => { e with highLA := (m.as, m.la) :: e.highLA }), st.2)
  | 1 => (updSub st.1 m.sub (fun e => { e with asOnly := m.as :: e.asOnly }), st.2)
  | 2 => (updSub st.1 m.sub (fun e => { e with perAS := updAS e.perAS m.as (fun f => orBm f (bmGet m.bm)) }), st.2)
  | 3 => (updSub st.1 m.sub (fun e => { e with global := some (orBm (bmGet e.global) (bmGet m.bm)) }), st.2)
  | _ => (st.1, true)

/-- `buildExtCommunityAnyIndexes` (the Go map's iteration order does not matter: one entry per subtype) -/
def buildXIdx (ms : List XM) : List XIdx × Bool := ms.foldl xidxStep ([], false)

/-- `extSubtypeAnyIndex.matchesTwoOctet` -/
def matchTwo (e : XIdx) (a l : Nat) : Bool :=
  if e.asOnly.contains a then true
  else if l ≤ 65535 then
    bmGet e.global l || e.perAS.any (fun p => p.1 == a && p.2 l)
  else e.highLA.contains (a, l)

structure XSet where
  list : List (Nat × Str)      -- (subtype, pattern)
  matchers : List XM
  idx : List XIdx
  needSlow : Bool

def XSet.build (list : List (Nat × Str)) : XSet :=
  let ms := list.map (fun e => compileExt e.1 e.2)
  let ix := buildXIdx ms
  ⟨list, ms, ix.1, ix.2⟩

/-- `ExtCommunityCondition.Evaluate` -/
def evaluateExt (opt : Nat) (s : XSet) (es : List EC) : Bool :=
  if (opt == 0 || opt == 2) && !s.needSlow && !s.idx.isEmpty then
    finish opt (es.any (fun x =>
      x.trans &&
        match x with
        | .two sub _ a l =>
          match s.idx.find? (fun e => e.sub == sub) with
          | some e => matchTwo e a l
          | none => false
        | _ => false))
  else
    finish opt (evalLoop opt (fun m => es.any (fun x => x.trans && matchExt m x)) s.matchers false)

/-- reference for extended communities: subtype test + regexp on the text of every transitive one -/
def refEvalExt (opt : Nat) (list : List (Nat × Str)) (es : List EC) : Bool :=
  finish opt (evalLoop opt
    (fun (e : Nat × Str) => es.any (fun x => x.trans && (x.sub == e.1 && reMatch e.2 x.text))) list false)

def editListX (cur : List (Nat × Str)) : (Nat × List (Nat × Str)) → List (Nat × Str)
  | (0, l) => cur ++ l
  -- a member is a sub-type plus a pattern (after the fix: `rt:65000:1` does not remove `soo:65000:1`)
  | (1, l) => cur.filter (fun x => !l.contains x)
  | (_, l) => l

/-- `ParseExtCommunityRegexp(arg)`: subtype and pattern source; `none` = error -/
def prepExt (wk : List (Str × Nat)) (arg : Str) : Option (Nat × Str) :=
  match fromColon arg with
  | [] => none
  | _ :: rest =>
    let k := (beforeColon arg).map (fun c => if 65 ≤ c && c ≤ 90 then c + 32 else c)
    if k == [114, 116] then some (2, prep wk rest)                       -- rt
    else if k == [115, 111, 111] then some (3, prep wk rest)            -- soo
    else if k == [101, 110, 99, 97, 112] then some (12, prep wk rest)   -- encap
    else if k == [108, 98] then some (4, prep wk rest)                  -- lb
    else none

/-! ## large communities (`ParseLargeCommunityRegexp`, `LargeCommunityCondition.Evaluate`) -/

/-- `^\d+:\d+:\d+$` -/
def largeRe : Str := [94, 92, 100, 43, 58, 92, 100, 43, 58, 92, 100, 43, 36]

def prepLarge (arg : Str) : Str := if reMatch largeRe arg then anchored arg else arg

def renderLarge (g l1 l2 : Nat) : Str := toDec g ++ [58] ++ toDec l1 ++ [58] ++ toDec l2

end CommMatch
