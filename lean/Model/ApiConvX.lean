/-
  Model of gobgp's API <-> native converters, second part (pkg/apiutil/attribute.go):
  extended communities (8-octet) and IPv6-address-specific extended communities (20-octet) as list
  attributes; MP_REACH_NLRI / MP_UNREACH_NLRI with IPv4 / IPv6 unicast, labelled and VPN prefixes
  (MarshalNLRI / UnmarshalNLRI, MarshalRD / UnmarshalRD); and the native serialisation of these
  objects (bgp.go …Extended.Serialize, MPLSLabelStack / LabeledIPAddrPrefix / LabeledVPNIPAddrPrefix /
  RouteDistinguisher….Serialize, PathAttributeMpReachNLRI.Serialize, the New… constructors).

  Same abstractions as Model/ApiConv.lean: an address text = the octets ParseAddr yields (4 / 16 /
  other = does not parse); a MAC text = the octets net.ParseMAC yields; a float32 = its IEEE bit
  pattern (math.Float32bits); uint32 / enum fields = naturals, Go narrowing = `%`.
  Every definition names the Go function it mirrors.  Core-only Lean.
-/
import Model.ApiConv
namespace ApiConv
open Wire

/-- `copy(make([]byte, n), v)`: truncate / zero-pad to n octets -/
def padTo (n : Nat) (v : Bytes) : Bytes := (v ++ List.replicate n 0).take n

/-! ## extended communities (8 octets) -/

/-- the modelled bgp.ExtendedCommunityInterface implementations (fields as the Go structs);
    `noApiMessage` = a Go type MarshalPathAttributes has no case for (Layer2AttributesExtended),
    kept as the 8 octets it serialises to -/
inductive ExtComm where
  | twoOctetAs (subType as localAdmin : Nat) (trans : Bool)
  | ipv4 (subType addr localAdmin : Nat) (trans : Bool)
  | fourOctetAs (subType as localAdmin : Nat) (trans : Bool)
  | validation (state : Nat)
  | linkBandwidth (as bw : Nat)
  | color (color : Nat)
  | encap (tunnelType : Nat)
  | defaultGateway
  | opaque (trans : Bool) (value : Bytes)
  | esiLabel (label : Nat) (singleActive : Bool)
  | esImport (mac : Bytes)
  | macMobility (seq : Nat) (sticky : Bool)
  | routerMac (mac : Bytes)
  | unknown (typ : Nat) (value : Bytes)
  | noApiMessage (octets : Bytes)
deriving Repr, DecidableEq

/-- api.ExtendedCommunity (the oneof) restricted to the modelled messages -/
inductive ApiExtComm where
  | twoOctetAs (isTransitive : Bool) (subType asn localAdmin : Nat)
  | ipv4 (isTransitive : Bool) (subType : Nat) (address : Bytes) (localAdmin : Nat)
  | fourOctetAs (isTransitive : Bool) (subType asn localAdmin : Nat)
  | validation (state : Nat)
  | linkBandwidth (asn bw : Nat)
  | color (color : Nat)
  | encap (tunnelType : Nat)
  | defaultGateway
  | opaque (isTransitive : Bool) (value : Bytes)
  | esiLabel (isSingleActive : Bool) (label : Nat)
  | esImport (esImport : Bytes)
  | macMobility (isSticky : Bool) (sequenceNum : Nat)
  | routerMac (mac : Bytes)
  | unknown (typ : Nat) (value : Bytes)
  | unset
deriving Repr, DecidableEq

def tbit (trans : Bool) (t : Nat) : Nat := if trans then t else t + 64

/-- …Extended.Serialize (the octets written when it succeeds: Opaque / Unknown return an error
    unless the value has 7 octets, see `ExtWF`) -/
def encExt : ExtComm → Bytes
  | .twoOctetAs st as la tr => [tbit tr 0, st % 256] ++ be16 as ++ be32 la
  | .ipv4 st addr la tr => [tbit tr 1, st % 256] ++ be32 addr ++ be16 la
  | .fourOctetAs st as la tr => [tbit tr 2, st % 256] ++ be32 as ++ be16 la
  | .validation s => [67, 0, 0, 0, 0, 0, 0, s % 256]
  | .linkBandwidth as bw => [64, 4] ++ be16 as ++ be32 bw
  | .color c => [3, 11, 0, 0] ++ be32 c
  | .encap t => [3, 12, 0, 0, 0, 0] ++ be16 t
  | .defaultGateway => [3, 13, 0, 0, 0, 0, 0, 0]
  | .opaque tr v => tbit tr 3 :: v
  | .esiLabel label single => [6, 1, if single then 1 else 0, 0, 0, label / 65536 % 256, label / 256 % 256, label % 256]
  | .esImport mac => [6, 2] ++ padTo 6 mac                      -- copy(buf[2:], e.ESImport)
  | .macMobility seq sticky => [6, 0, if sticky then 1 else 0, 0] ++ be32 seq
  | .routerMac mac => [6, 3] ++ mac                             -- append(buf, e.Mac...)
  | .unknown t v => (t % 256) :: v
  | .noApiMessage o => o

def encExts : List ExtComm → Bytes
  | [] => []
  | e :: es => encExt e ++ encExts es

/-- NewExtendedCommunitiesAttributeFromNative, one element.  `none` = error ("unsupported extended
    community": the fall-back needs the 8 octets the value serialises to) -/
def toApiExt : ExtComm → Option ApiExtComm
  | .twoOctetAs st as la tr => some (.twoOctetAs tr st as la)
  | .ipv4 st addr la tr => some (.ipv4 tr st (be32 addr) la)
  | .fourOctetAs st as la tr => some (.fourOctetAs tr st as la)
  | .validation s => some (.validation s)
  | .linkBandwidth as bw => some (.linkBandwidth as bw)
  | .color c => some (.color c)
  | .encap t => some (.encap t)
  | .defaultGateway => some .defaultGateway
  | .opaque tr v => some (.opaque tr v)
  | .esiLabel label single => some (.esiLabel single label)
  | .esImport mac => some (.esImport mac)
  | .macMobility seq sticky => some (.macMobility sticky seq)
  | .routerMac mac => some (.routerMac mac)
  | .unknown t v => some (.unknown t v)
  | .noApiMessage o =>                                          -- default: Unknown{b[0], b[1:]}
    if o.length = 8 then some (.unknown (o.getD 0 0) (o.drop 1)) else none

/-- unmarshalExComm, one element (as repaired: constructor errors and MACs that are not 6 octets
    are errors).  `none` = error. -/
def fromApiExt : ApiExtComm → Option ExtComm
  | .twoOctetAs tr st asn la => some (.twoOctetAs (st % 256) (asn % 65536) la tr)
  | .ipv4 tr st addr la => if isV4 addr then some (.ipv4 (st % 256) (rd32 addr) (la % 65536) tr) else none
  | .fourOctetAs tr st asn la => some (.fourOctetAs (st % 256) asn (la % 65536) tr)
  | .validation s => some (.validation (s % 256))
  | .linkBandwidth asn bw => some (.linkBandwidth (asn % 65536) bw)
  | .color c => some (.color c)
  | .encap t => some (.encap (t % 65536))
  | .defaultGateway => some .defaultGateway
  | .opaque tr v => some (.opaque tr (padTo 7 v))               -- NewOpaqueExtended copies into 7 octets
  | .esiLabel single label => some (.esiLabel label single)
  | .esImport mac => if mac.length = 6 then some (.esImport mac) else none
  | .macMobility sticky seq => some (.macMobility seq sticky)
  | .routerMac mac => if mac.length = 6 then some (.routerMac mac) else none
  | .unknown t v => some (.unknown (t % 256) (padTo 7 v))       -- NewUnknownExtended copies into 7 octets
  | .unset => none                                              -- "invalid extended community"

/-- what one trip through the API makes of an extended community (stated independently) -/
def rebuildExt : ExtComm → ExtComm
  | .twoOctetAs st as la tr => .twoOctetAs (st % 256) (as % 65536) la tr
  | .ipv4 st addr la tr => .ipv4 (st % 256) addr (la % 65536) tr
  | .fourOctetAs st as la tr => .fourOctetAs (st % 256) as (la % 65536) tr
  | .validation s => .validation (s % 256)
  | .linkBandwidth as bw => .linkBandwidth (as % 65536) bw
  | .encap t => .encap (t % 65536)
  | .opaque tr v => .opaque tr (padTo 7 v)
  | .unknown t v => .unknown (t % 256) (padTo 7 v)
  | .noApiMessage o => .unknown (o.getD 0 0 % 256) (padTo 7 (o.drop 1))
  | e => e

/-! ## IPv6-address-specific extended communities (20 octets) -/

inductive Ip6ExtComm where
  | specific (subType : Nat) (addr : Bytes) (localAdmin : Nat) (trans : Bool)   -- IPv6AddressSpecificExtended
  | redirect (addr : Bytes) (localAdmin : Nat)                                   -- RedirectIPv6AddressSpecificExtended
  | unknown (typ : Nat) (value : Bytes)                                          -- UnknownIP6Extended: no API message
deriving Repr, DecidableEq

inductive ApiIp6ExtComm where
  | specific (isTransitive : Bool) (subType : Nat) (address : Bytes) (localAdmin : Nat)
  | redirect (address : Bytes) (localAdmin : Nat)
  | unset
deriving Repr, DecidableEq

def encIp6Ext : Ip6ExtComm → Bytes
  | .specific st addr la tr => [tbit tr 0, st % 256] ++ padTo 16 addr ++ be16 la
  | .redirect addr la => [128, 11] ++ padTo 16 addr ++ be16 la
  | .unknown t v => (t % 256) :: v

def encIp6Exts : List Ip6ExtComm → Bytes
  | [] => []
  | e :: es => encIp6Ext e ++ encIp6Exts es

/-- NewIP6ExtendedCommunitiesAttributeFromNative, one element; `none` = "invalid ipv6 extended community" -/
def toApiIp6Ext : Ip6ExtComm → Option ApiIp6ExtComm
  | .specific st addr la tr => some (.specific tr st addr la)
  | .redirect addr la => some (.redirect addr la)
  | .unknown _ _ => none

/-- UnmarshalAttribute, case Ip6ExtendedCommunities, one element (as repaired) -/
def fromApiIp6Ext : ApiIp6ExtComm → Option Ip6ExtComm
  | .specific tr st addr la => if addr.length = 16 then some (.specific (st % 256) addr (la % 65536) tr) else none
  | .redirect addr la => if addr.length = 16 then some (.redirect addr (la % 65536)) else none
  | .unset => none

def rebuildIp6Ext : Ip6ExtComm → Ip6ExtComm
  | .specific st addr la tr => .specific (st % 256) addr (la % 65536) tr
  | .redirect addr la => .redirect addr (la % 65536)
  | e => e

/-! ## NLRI of the prefix families -/

inductive Rd where
  | twoOctet (admin assigned : Nat)          -- RouteDistinguisherTwoOctetAS
  | ipv4 (admin assigned : Nat)              -- RouteDistinguisherIPAddressAS (admin as a 32-bit number)
  | fourOctet (admin assigned : Nat)         -- RouteDistinguisherFourOctetAS
deriving Repr, DecidableEq

inductive ApiRd where
  | twoOctet (admin assigned : Nat)
  | ipAddress (admin : Bytes) (assigned : Nat)
  | fourOctet (admin assigned : Nat)
  | unset
deriving Repr, DecidableEq

def encRd : Rd → Bytes
  | .twoOctet a n => [0, 0] ++ be16 a ++ be32 n
  | .ipv4 a n => [0, 1] ++ be32 a ++ be16 n
  | .fourOctet a n => [0, 2] ++ be32 a ++ be16 n

/-- MarshalRD -/
def toApiRd : Rd → ApiRd
  | .twoOctet a n => .twoOctet a n
  | .ipv4 a n => .ipAddress (be32 a) n
  | .fourOctet a n => .fourOctet a n

/-- UnmarshalRD -/
def fromApiRd : ApiRd → Option Rd
  | .twoOctet a n => some (.twoOctet (a % 65536) n)
  | .ipAddress a n => if isV4 a then some (.ipv4 (rd32 a) (n % 65536)) else none
  | .fourOctet a n => some (.fourOctet a (n % 65536))
  | .unset => none

inductive Nlri where
  | ip (bits : Nat) (addr : Bytes)                                  -- IPAddrPrefix
  | labeled (labels : List Nat) (bits : Nat) (addr : Bytes)         -- LabeledIPAddrPrefix
  | vpn (labels : List Nat) (rd : Rd) (bits : Nat) (addr : Bytes)   -- LabeledVPNIPAddrPrefix
deriving Repr, DecidableEq

inductive ApiNlri where
  | pfx (prefixLen : Nat) (addr : Bytes)                                        -- IPAddressPrefix
  | labeledPrefix (labels : List Nat) (prefixLen : Nat) (addr : Bytes)          -- LabeledIPAddressPrefix
  | labeledVpn (labels : List Nat) (rd : ApiRd) (prefixLen : Nat) (addr : Bytes) -- LabeledVPNIPAddressPrefix
  | unset
deriving Repr, DecidableEq

/-- one label of MPLSLabelStack.Serialize: `label << 4` in 3 octets -/
def encLabel (l : Nat) (last : Bool) : Bytes :=
  [l * 16 / 65536 % 256, l * 16 / 256 % 256, l * 16 % 256 + (if last then 1 else 0)]

/-- MPLSLabelStack.Serialize (non-empty stack): the withdraw label 0x800000 ends the loop -/
def encLabels : List Nat → Bytes
  | [] => []
  | l :: ls =>
    if l = 8388608 then [128, 0, 0]
    else if ls.isEmpty then encLabel l true
    else
      -- a withdraw label further down replaces the whole buffer; otherwise continue
      if ls.contains 8388608 then [128, 0, 0] else encLabel l false ++ encLabels ls

/-- (IPAddrPrefix | LabeledIPAddrPrefix | LabeledVPNIPAddrPrefix).Serialize -/
def encNlriX : Nlri → Bytes
  | .ip bits addr => (bits % 256) :: addr.take (byteLen bits)
  | .labeled ls bits addr => ((24 * ls.length + bits) % 256) :: (encLabels ls ++ addr.take (byteLen bits))
  | .vpn ls rd bits addr =>
    ((8 * (3 * ls.length + 8) + bits) % 256) :: (encLabels ls ++ encRd rd ++ addr.take (byteLen bits))

/-- ….Len() -/
def nlriLenX : Nlri → Nat
  | .ip bits _ => 1 + byteLen bits
  | .labeled ls bits _ => 1 + 3 * ls.length + byteLen (bits % 256)
  | .vpn ls _ bits _ => 1 + 3 * ls.length + 8 + byteLen (bits % 256)

/-- MarshalNLRI for the three prefix kinds -/
def toApiNlri : Nlri → ApiNlri
  | .ip bits addr => .pfx bits addr
  | .labeled ls bits addr => .labeledPrefix ls (bits % 256) addr               -- uint32(v.IPPrefixLen())
  | .vpn ls rd bits addr => .labeledVpn ls (toApiRd rd) (bits % 256) addr

/-- netip.Prefix.Masked for a 4- or 16-octet address -/
def maskAddrN (bits : Nat) (addr : Bytes) : Bytes :=
  maskLast bits (addr.take (byteLen bits) ++ List.replicate (addr.length - byteLen bits) 0)

/-- netip.ParsePrefix("%s/%d") succeeds -/
def prefixOk (len : Nat) (addr : Bytes) : Bool :=
  (addr.length == 4 && decide (len ≤ 32)) || (addr.length == 16 && decide (len ≤ 128))

/-- NewMPLSLabelStack(labels...): an empty list becomes [0] -/
def mkLabels (ls : List Nat) : List Nat := if ls.isEmpty then [0] else ls

/-- UnmarshalNLRI for the three prefix kinds (the family argument is not consulted by them).
    Only NewIPAddrPrefix masks the address. -/
def fromApiNlri : ApiNlri → Option Nlri
  | .pfx len addr => if prefixOk len addr then some (.ip len (maskAddrN len addr)) else none
  | .labeledPrefix ls len addr => if prefixOk len addr then some (.labeled (mkLabels ls) len addr) else none
  | .labeledVpn ls rd len addr =>
    match fromApiRd rd with
    | none => none
    | some r => if prefixOk len addr then some (.vpn (mkLabels ls) r len addr) else none
  | .unset => none

def fromApiNlris : List ApiNlri → Option (List Nlri)
  | [] => some []
  | a :: as =>
    match fromApiNlri a, fromApiNlris as with
    | some n, some ns => some (n :: ns)
    | _, _ => none

/-! ## the second group of attributes -/

/-- PathAttributeExtendedCommunities / IP6ExtendedCommunities / MpReachNLRI / MpUnreachNLRI -/
inductive XVal where
  | extComms (l : List ExtComm)
  | ip6ExtComms (l : List Ip6ExtComm)
  /-- AFI, SAFI, Nexthop, LinkLocalNexthop (`[]` = the zero netip.Addr), Value []PathNLRI{ID, NLRI} -/
  | mpReach (afi safi : Nat) (nexthop linkLocal : Bytes) (nlris : List (Nat × Nlri))
  | mpUnreach (afi safi : Nat) (nlris : List (Nat × Nlri))
deriving Repr, DecidableEq

structure XAttr where
  flags  : Nat
  typ    : Nat
  length : Nat
  val    : XVal
deriving Repr, DecidableEq

inductive ApiXAttr where
  | extComms (communities : List ApiExtComm)
  | ip6ExtComms (communities : List ApiIp6ExtComm)
  | mpReach (family : ApiFamily) (nextHops : List Bytes) (nlris : List ApiNlri)
  | mpUnreach (family : ApiFamily) (nlris : List ApiNlri)
deriving Repr, DecidableEq

def validAddr (b : Bytes) : Bool := b.length == 4 || b.length == 16
/-- netip.Addr.IsLinkLocalUnicast for an IPv6 address: fe80::/10 -/
def isLinkLocal (b : Bytes) : Bool := b.length == 16 && b.getD 0 0 == 254 && b.getD 1 0 / 64 == 2
def v4mapped : Bytes := [0, 0, 0, 0, 0, 0, 0, 0, 0, 0, 255, 255]
/-- netip.Addr.As16 -/
def as16 (b : Bytes) : Bytes := if b.length = 4 then v4mapped ++ b else b
/-- netip.Addr.Unmap -/
def unmap (b : Bytes) : Bytes := if b.length = 16 ∧ b.take 12 = v4mapped then b.drop 12 else b

def encNlrisX : List (Nat × Nlri) → Bytes
  | [] => []
  | (_, n) :: ns => encNlriX n ++ encNlrisX ns      -- Serialize() without options: no path identifiers

def nlrisLenX : List (Nat × Nlri) → Nat
  | [] => 0
  | (_, n) :: ns => nlriLenX n + nlrisLenX ns

/-- is the next hop written as an IPv6 address (PathAttributeMpReachNLRI.Serialize / the constructor) -/
def nhIsV6 (afi : Nat) (nh : Bytes) : Bool := validAddr nh && (afi == 2 || nh.length == 16)

/-- the next-hop field of PathAttributeMpReachNLRI.Serialize: length octet and addresses, each
    preceded by a zero RD for SAFI 128.  (SAFI 133 / 134, flow-spec, are outside the model.) -/
def encNextHops (afi safi : Nat) (nh ll : Bytes) : Bytes :=
  let off := if safi = 128 then List.replicate 8 0 else []
  if nhIsV6 afi nh then
    if isLinkLocal ll then ((if safi = 128 then 48 else 32) : Nat) :: (off ++ as16 nh ++ off ++ ll)
    else (if safi = 128 then 24 else 16) :: (off ++ as16 nh)
  else if validAddr nh then (if safi = 128 then 12 else 4) :: (off ++ nh)
  else [0]

/-- the value octets PathAttribute….Serialize hands to PathAttribute.Serialize -/
def encXVal : XVal → Bytes
  | .extComms l => encExts l
  | .ip6ExtComms l => encIp6Exts l
  | .mpReach afi safi nh ll nlris => be16 afi ++ [safi % 256] ++ encNextHops afi safi nh ll ++ [0] ++ encNlrisX nlris
  | .mpUnreach afi safi nlris => be16 afi ++ [safi % 256] ++ encNlrisX nlris

def encXAttr (a : XAttr) : Bytes := encAttrHdr a.flags a.typ (encXVal a.val)
def xattrLen (a : XAttr) : Nat := (if hasBit a.flags FLAG_EXT then 4 else 3) + a.length

/-- NewPathAttributeExtendedCommunities / …IP6ExtendedCommunities -/
def mkExtComms (l : List ExtComm) : XAttr :=
  ⟨getPathAttrFlags 16 (l.length * 8), 16, l.length * 8 % 65536, .extComms l⟩
def mkIp6ExtComms (l : List Ip6ExtComm) : XAttr :=
  ⟨getPathAttrFlags 25 (l.length * 20), 25, l.length * 20 % 65536, .ip6ExtComms l⟩

/-- NewPathAttributeMpReachNLRI(family, nlris, nexthop, linkLocal): which next hops are kept and the
    cached length.  `none` = "no NLRI provided". -/
def mkMpReach (afi safi : Nat) (nlris : List (Nat × Nlri)) (nh ll : Bytes) : Option XAttr :=
  if nlris.isEmpty then none
  else
    let v6 := nhIsV6 afi nh
    let useLL := v6 && isLinkLocal ll
    let n := if v6 then (if useLL then 2 else 1) else if validAddr nh then 1 else 0
    let nhlen := if v6 then (if useLL then 32 else 16) else if validAddr nh then 4 else 0
    let l := 5 + (if safi = 128 then n * 8 else 0) + nhlen + nlrisLenX nlris
    some ⟨getPathAttrFlags 14 l, 14, l % 65536,
          .mpReach afi safi (if n = 0 then [] else nh) (if useLL then ll else []) nlris⟩

/-- NewPathAttributeMpUnreachNLRI -/
def mkMpUnreach (afi safi : Nat) (nlris : List (Nat × Nlri)) : XAttr :=
  let l := 3 + nlrisLenX nlris
  ⟨getPathAttrFlags 15 l, 15, l % 65536, .mpUnreach afi safi nlris⟩

def allSome {α β} (f : α → Option β) : List α → Option (List β)
  | [] => some []
  | a :: as =>
    match f a, allSome f as with
    | some b, some bs => some (b :: bs)
    | _, _ => none

/-- MarshalPathAttributes for the four kinds.  `none` = an error is returned.
    MP_REACH: `nexthops = [Nexthop.Unmap().String()] (+ LinkLocalNexthop if valid and link-local)`;
    the path identifiers of the NLRI are not part of the message. -/
def toApiX (a : XAttr) : Option ApiXAttr :=
  match a.val with
  | .extComms l => (allSome toApiExt l).map .extComms
  | .ip6ExtComms l => (allSome toApiIp6Ext l).map .ip6ExtComms
  | .mpReach afi safi nh ll nlris =>
    some (.mpReach (toApiFamily afi safi)
      (unmap nh :: (if validAddr ll && isLinkLocal ll then [ll] else []))
      (nlris.map fun p => toApiNlri p.2))
  | .mpUnreach afi safi nlris => some (.mpUnreach (toApiFamily afi safi) (nlris.map fun p => toApiNlri p.2))

/-- UnmarshalAttribute for the four kinds (as repaired by a636d74).  `none` = error. -/
def fromApiX : ApiXAttr → Option XAttr
  | .extComms l => (allSome fromApiExt l).map mkExtComms
  | .ip6ExtComms l => (allSome fromApiIp6Ext l).map mkIp6ExtComms
  | .mpReach f nhs nlris =>
    let afi := (fromApiFamily f).1
    let safi := (fromApiFamily f).2
    if nlris.isEmpty then none                                   -- UnmarshalNLRIs: "no nlri values"
    else match fromApiNlris nlris with
      | none => none
      | some ns =>
        let dflt : Bytes := if afi = 2 then List.replicate 16 0 else [0, 0, 0, 0]
        match nhs with
        | [] => mkMpReach afi safi (ns.map fun n => (0, n)) dflt []
        | nh :: rest =>
          if !validAddr nh then none
          else match rest with
            | [] => mkMpReach afi safi (ns.map fun n => (0, n)) nh []
            | ll :: _ => if ll.length = 16 then mkMpReach afi safi (ns.map fun n => (0, n)) nh ll else none
  | .mpUnreach f nlris =>
    if nlris.isEmpty then none
    else match fromApiNlris nlris with
      | none => none
      | some ns => some (mkMpUnreach (fromApiFamily f).1 (fromApiFamily f).2 (ns.map fun n => (0, n)))

/-- one NLRI after the trip: labels defaulted, RD fields narrowed, only IPAddrPrefix masked -/
def rebuildRd : Rd → Rd
  | .twoOctet a n => .twoOctet (a % 65536) n
  | .ipv4 a n => .ipv4 a (n % 65536)
  | .fourOctet a n => .fourOctet a (n % 65536)

def rebuildNlri : Nlri → Nlri
  | .ip bits addr => .ip bits (maskAddrN bits addr)
  | .labeled ls bits addr => .labeled (mkLabels ls) (bits % 256) addr
  | .vpn ls rd bits addr => .vpn (mkLabels ls) (rebuildRd rd) (bits % 256) addr

/-- the attribute after the trip (stated independently of toApiX / fromApiX); `none` where the trip fails -/
def rebuildX (a : XAttr) : Option XAttr :=
  match a.val with
  | .extComms l => some (mkExtComms (l.map rebuildExt))
  | .ip6ExtComms l => some (mkIp6ExtComms (l.map rebuildIp6Ext))
  | .mpReach afi safi nh ll nlris =>
    mkMpReach (afi % 65536) (safi % 256) (nlris.map fun p => (0, rebuildNlri p.2)) (unmap nh)
      (if validAddr ll && isLinkLocal ll then ll else [])
  | .mpUnreach afi safi nlris =>
    some (mkMpUnreach (afi % 65536) (safi % 256) (nlris.map fun p => (0, rebuildNlri p.2)))

/-! ## api.Path <-> apiutil.Path <-> table.Path (pkg/server/grpc_server.go api2apiutilPath / toPathApi,
    pkg/server/server.go apiutil2Path / toPathApiUtil).  Structured encoding only (nlri / pattrs; the
    nlri_binary / pattrs_binary alternatives are not modelled); *api.Validation is an opaque token;
    SAFI 133 / 134 (flow-spec, no next hop) are outside the model. -/

inductive AnyAttr where
  | core (a : Attr)
  | x (a : XAttr)
deriving Repr, DecidableEq

def AnyAttr.typ : AnyAttr → Nat
  | .core a => a.typ
  | .x a => a.typ

inductive ApiAny where
  | core (a : ApiAttr)
  | x (a : ApiXAttr)
deriving Repr, DecidableEq

def toApiAny : AnyAttr → Option ApiAny
  | .core a => some (.core (toApiAttr a))
  | .x a => (toApiX a).map .x

def fromApiAny : ApiAny → Option AnyAttr
  | .core a => (fromApiAttr a).map .core
  | .x a => (fromApiX a).map .x

/-- UnmarshalPathAttributes over both groups -/
def fromApiAnysAux (seen : List Nat) : List ApiAny → Option (List AnyAttr)
  | [] => some []
  | a :: as =>
    match fromApiAny a with
    | none => none
    | some x =>
      if seen.contains x.typ then none
      else match fromApiAnysAux (x.typ :: seen) as with
        | none => none
        | some xs => some (x :: xs)

/-- message Path of proto/api/gobgp.proto (field numbers in comments) -/
structure ApiPath where
  nlri : ApiNlri                    -- 1
  pattrs : List ApiAny              -- 2
  ageSet : Bool                     -- 3 (nil / non-nil Timestamp)
  ageSec : Nat
  ageNanos : Nat
  best : Bool                       -- 4
  isWithdraw : Bool                 -- 5
  validation : Option Nat           -- 7
  noImplicitWithdraw : Bool         -- 8
  family : ApiFamily                -- 9 (non-nil: GetNativeNlri rejects nil)
  sourceAsn : Nat                   -- 10
  sourceId : Bytes                  -- 11
  filtered : Bool                   -- 12
  stale : Bool                      -- 13
  isFromExternal : Bool             -- 14
  neighborIp : Bytes                -- 15
  uuid : Bytes                      -- 16
  isNexthopInvalid : Bool           -- 17
  identifier : Nat                  -- 18
  localIdentifier : Nat             -- 19
  sendMaxFiltered : Bool            -- 22
deriving Repr, DecidableEq

/-- apiutil.Path -/
structure UPath where
  afi : Nat
  safi : Nat
  nlri : Nlri
  age : Nat
  best : Bool
  attrs : List AnyAttr
  stale : Bool
  withdrawal : Bool
  peerAsn : Nat
  peerId : Bytes
  peerAddress : Bytes
  isFromExternal : Bool
  noImplicitWithdraw : Bool
  isNexthopInvalid : Bool
  sendMaxFiltered : Bool
  filtered : Bool
  validation : Option Nat
  remoteId : Nat
  localId : Nat
deriving Repr, DecidableEq

/-- `a, _ := netip.ParseAddr(s)`: the zero Addr when the text does not parse -/
def parseOrZero (b : Bytes) : Bytes := if validAddr b then b else []

/-- api2apiutilPath.  `none` = error. -/
def api2apiutil (p : ApiPath) : Option UPath :=
  match fromApiNlri p.nlri with
  | none => none
  | some n =>
    match fromApiAnysAux [] p.pattrs with
    | none => none
    | some as =>
      if p.sourceAsn ≠ 0 ∧ validAddr (parseOrZero p.sourceId) = false then none
      else some {
        afi := (fromApiFamily p.family).1, safi := (fromApiFamily p.family).2, nlri := n,
        age := if p.ageSet then p.ageSec else 0, best := p.best, attrs := as, stale := p.stale,
        withdrawal := p.isWithdraw, peerAsn := p.sourceAsn, peerId := parseOrZero p.sourceId,
        peerAddress := parseOrZero p.neighborIp, isFromExternal := p.isFromExternal,
        noImplicitWithdraw := p.noImplicitWithdraw, isNexthopInvalid := false, sendMaxFiltered := false,
        filtered := false, validation := none, remoteId := p.identifier, localId := p.localIdentifier }

/-- toPathApi(path, false, false, false) + toPathAPI: marshal errors are swallowed (nil pattrs) -/
def apiutil2api (u : UPath) : ApiPath :=
  { nlri := toApiNlri u.nlri, pattrs := (allSome toApiAny u.attrs).getD [],
    ageSet := true, ageSec := u.age, ageNanos := 0, best := u.best, isWithdraw := u.withdrawal,
    validation := u.validation, noImplicitWithdraw := u.noImplicitWithdraw,
    family := toApiFamily u.afi u.safi, sourceAsn := u.peerAsn,
    sourceId := parseOrZero u.peerId, filtered := u.filtered, stale := u.stale,
    isFromExternal := u.isFromExternal, neighborIp := parseOrZero u.peerAddress, uuid := [],
    isNexthopInvalid := u.isNexthopInvalid, identifier := u.remoteId, localIdentifier := u.localId,
    sendMaxFiltered := u.sendMaxFiltered }

/-- table.Path as far as the converters touch it; `source = none` is the shared localSource -/
structure TPath where
  afi : Nat
  safi : Nat
  source : Option (Nat × Bytes × Bytes)
  nlri : Nlri
  remoteId : Nat
  localId : Nat
  isWithdraw : Bool
  attrs : List AnyAttr
  timestamp : Nat
  noImplicitWithdraw : Bool
  isFromExternal : Bool
  stale : Bool
  isNexthopInvalid : Bool
deriving Repr, DecidableEq

/-- the attribute loop of apiutil2Path: duplicate check on the type code, NEXT_HOP / MP_REACH_NLRI (by Go
    type, as repaired) taken out and their next hops remembered (the later one wins) -/
def scanAttrs (seen : List Nat) (nh ll : Bytes) : List AnyAttr → Option (List AnyAttr × Bytes × Bytes)
  | [] => some ([], nh, ll)
  | a :: as =>
    if seen.contains a.typ then none
    else
      match a with
      | .core ⟨_, _, _, .nextHop addr⟩ => scanAttrs (a.typ :: seen) addr ll as
      | .x ⟨_, _, _, .mpReach _ _ mnh mll nlris⟩ =>
        if nlris.isEmpty then none else scanAttrs (a.typ :: seen) mnh mll as
      | other =>
        match scanAttrs (a.typ :: seen) nh ll as with
        | none => none
        | some (kept, nh', ll') => some (other :: kept, nh', ll')

/-- the attribute apiutil2Path appends: NEXT_HOP for IPv4 unicast with an IPv4 next hop outside a VRF,
    MP_REACH_NLRI{family, [{NLRI, ID 0}], next hops} otherwise -/
def nextHopAttr (isVrf : Bool) (afi safi : Nat) (nlri : Nlri) (nh ll : Bytes) : List AnyAttr :=
  if !isVrf && afi == 1 && safi == 1 && nh.length == 4 then [.core (mkNextHop nh)]
  else match mkMpReach afi safi [(0, nlri)] nh ll with
    | some a => [.x a]
    | none => []

/-- apiutil2Path(path, isVRFTable, isWithdraw...).  `none` = error. -/
def apiutil2table (isVrf del : Bool) (u : UPath) : Option TPath :=
  if u.afi = 0 ∧ u.safi = 0 then none                        -- "address family is not set"
  else match scanAttrs [] [] [] u.attrs with
    | none => none
    | some (kept, nh, ll) =>
      if !u.withdrawal && !validAddr nh then none            -- "nexthop not found"
      else some {
        afi := u.afi, safi := u.safi,
        source := if u.peerAsn ≠ 0 then some (u.peerAsn, u.peerId, u.peerAddress) else none,
        nlri := u.nlri, remoteId := u.remoteId, localId := 0, isWithdraw := del || u.withdrawal,
        attrs := kept ++ nextHopAttr isVrf u.afi u.safi u.nlri nh ll, timestamp := u.age,
        noImplicitWithdraw := u.noImplicitWithdraw, isFromExternal := u.isFromExternal,
        stale := false, isNexthopInvalid := false }

/-- toPathApiUtil (before ListPath overlays Best / Filtered / SendMaxFiltered / Validation) -/
def table2apiutil (t : TPath) : UPath :=
  { afi := t.afi, safi := t.safi, nlri := t.nlri, age := t.timestamp, best := false, attrs := t.attrs,
    stale := t.stale, withdrawal := t.isWithdraw,
    peerAsn := (t.source.map (·.1)).getD 0, peerId := (t.source.map (·.2.1)).getD [],
    peerAddress := (t.source.map (·.2.2)).getD [], isFromExternal := t.isFromExternal,
    noImplicitWithdraw := t.noImplicitWithdraw, isNexthopInvalid := t.isNexthopInvalid,
    sendMaxFiltered := false, filtered := false, validation := none, remoteId := t.remoteId,
    localId := t.localId }

end ApiConv
