import Model.Lock
/-
C20 (i)/(ii): what the Go code does with its locks, as a finite table.

`edges` is the EXPECTED set of lock-order edges "a lock of class A (mode) is held while a lock of class
B (mode) is requested", written by hand from the first extraction and compared on every run with what
the extractor (go/overlay/pkg/server/zz_verif_c20_test.go) finds in the working tree of pkg/server and
internal/pkg/table: every extracted edge must be listed here (`edge …` asks) and the counts must agree.

Lock classes = the sync.Mutex / sync.RWMutex fields of the two packages:
  shared    sharedData.mu (RW)                  bucket   sharedData.propagateBuckets[i]
  refresh   peer.routeRefreshInProgress (RW)    fsm      fsm.lock
  watcher   BgpServer.watcherMu (RW)            zcache   zebraClient.cacheLock
  zpathvrf  zebraClient.pathVrfMu (RW)          bfdpeers bfdServer.peersMutex (RW)
  shard     destinationShard.mu (RW)            tm       TableManager.mu (RW)
  policy    RoutingPolicy.mu (RW)               vpnidx   VPNPathIndex.mu (RW)
  rtmset    rtmSet.mu (RW)                      evpnmac  EVPNMacNLRIs.mu (RW)
-/
namespace LockEdges
open Lock

inductive Cls
  | shared | bucket | refresh | fsm | watcher | zcache | zpathvrf | bfdpeers
  | shard | tm | policy | vpnidx | rtmset | evpnmac
  deriving DecidableEq, Repr

open Cls

def allCls : List Cls :=
  [shared, bucket, refresh, fsm, watcher, zcache, zpathvrf, bfdpeers, shard, tm, policy, vpnidx, rtmset, evpnmac]

def Cls.name : Cls → String
  | shared => "shared" | bucket => "bucket" | refresh => "refresh" | fsm => "fsm"
  | watcher => "watcher" | zcache => "zcache" | zpathvrf => "zpathvrf" | bfdpeers => "bfdpeers"
  | shard => "shard" | tm => "tm" | policy => "policy" | vpnidx => "vpnidx"
  | rtmset => "rtmset" | evpnmac => "evpnmac"

def Cls.ofName (s : String) : Option Cls := allCls.find? (fun c => c.name == s)

/-- the order the code respects (a topological numbering of `edges`; checked by `edges_ranked`) -/
def Cls.rank : Cls → Nat
  | shared => 0
  | bucket => 1 | zcache => 1 | zpathvrf => 1
  | refresh => 2 | watcher => 2
  | fsm => 3 | tm => 3 | rtmset => 3 | bfdpeers => 3
  | policy => 4 | shard => 4
  | evpnmac => 5 | vpnidx => 5

abbrev L := Cls × Mode

/-- expected lock-order edges (held, requested) -/
def edges : List (L × L) := [
  ((bucket, .W), (bfdpeers, .R)), ((bucket, .W), (evpnmac, .R)), ((bucket, .W), (evpnmac, .W)),
  ((bucket, .W), (fsm, .W)), ((bucket, .W), (policy, .R)), ((bucket, .W), (refresh, .R)),
  ((bucket, .W), (refresh, .W)), ((bucket, .W), (rtmset, .R)), ((bucket, .W), (rtmset, .W)),
  ((bucket, .W), (shard, .R)), ((bucket, .W), (shard, .W)), ((bucket, .W), (tm, .R)),
  ((bucket, .W), (vpnidx, .R)), ((bucket, .W), (vpnidx, .W)), ((bucket, .W), (watcher, .R)),
  ((fsm, .W), (policy, .W)), ((fsm, .W), (shard, .R)),
  ((refresh, .R), (policy, .R)), ((refresh, .R), (rtmset, .R)), ((refresh, .R), (shard, .R)),
  ((refresh, .R), (shard, .W)), ((refresh, .R), (tm, .R)),
  ((refresh, .W), (policy, .R)), ((refresh, .W), (rtmset, .R)), ((refresh, .W), (rtmset, .W)),
  ((refresh, .W), (shard, .R)), ((refresh, .W), (tm, .R)), ((refresh, .W), (vpnidx, .R)),
  ((shard, .W), (evpnmac, .W)), ((shard, .W), (vpnidx, .W)),
  ((shared, .R), (bfdpeers, .R)), ((shared, .R), (bucket, .W)), ((shared, .R), (evpnmac, .R)),
  ((shared, .R), (evpnmac, .W)), ((shared, .R), (fsm, .W)), ((shared, .R), (policy, .R)),
  ((shared, .R), (refresh, .R)), ((shared, .R), (refresh, .W)), ((shared, .R), (rtmset, .R)),
  ((shared, .R), (rtmset, .W)), ((shared, .R), (shard, .R)), ((shared, .R), (shard, .W)),
  ((shared, .R), (tm, .R)), ((shared, .R), (vpnidx, .R)), ((shared, .R), (vpnidx, .W)),
  ((shared, .R), (watcher, .R)), ((shared, .R), (zpathvrf, .W)),
  ((shared, .W), (bfdpeers, .R)), ((shared, .W), (bucket, .W)), ((shared, .W), (evpnmac, .R)),
  ((shared, .W), (evpnmac, .W)), ((shared, .W), (fsm, .W)), ((shared, .W), (policy, .R)),
  ((shared, .W), (policy, .W)), ((shared, .W), (refresh, .R)), ((shared, .W), (refresh, .W)),
  ((shared, .W), (rtmset, .R)), ((shared, .W), (rtmset, .W)), ((shared, .W), (shard, .R)),
  ((shared, .W), (shard, .W)), ((shared, .W), (tm, .R)), ((shared, .W), (tm, .W)),
  ((shared, .W), (vpnidx, .R)), ((shared, .W), (vpnidx, .W)), ((shared, .W), (watcher, .R)),
  ((shared, .W), (watcher, .W)), ((shared, .W), (zcache, .W)), ((shared, .W), (zpathvrf, .W)),
  ((tm, .R), (evpnmac, .R)), ((tm, .R), (evpnmac, .W)), ((tm, .R), (shard, .R)),
  ((tm, .R), (shard, .W)), ((tm, .R), (vpnidx, .R)), ((tm, .R), (vpnidx, .W)),
  ((tm, .W), (shard, .R)),
  ((watcher, .W), (bfdpeers, .R)), ((watcher, .W), (fsm, .W)), ((watcher, .W), (shard, .R)),
  ((watcher, .W), (tm, .R))
]

/-- class-level order relation of the code: some listed edge goes from class `a` to class `b` -/
def edgeOk (a b : Cls) : Bool := edges.any (fun e => e.1.1 == a && e.2.1 == b)

def hasEdge (e : L × L) : Bool := edges.contains e

/-- the hierarchy written in the source comments / the property's anchor -/
def documented : List Cls := [shared, refresh, bucket, shard, fsm]

def docIndex (c : Cls) : Option Nat :=
  let i := documented.findIdx (· == c)
  if i < documented.length then some i else none

/-- edges of the code between two documented classes that go AGAINST the documented order -/
def againstDocumented : List (L × L) :=
  edges.filter (fun e => match docIndex e.1.1, docIndex e.2.1 with
    | some i, some j => j < i
    | _, _ => false)

/-! ### (ii) lockset discipline -/

abbrev Held := List L

def has (h : Held) (c : Cls) (m : Mode) : Bool := h.contains (c, m)
def hasAny (h : Held) (c : Cls) : Bool := has h c .W || has h c .R

/-- what is guarded -/
inductive Guard
  /-- inner path-id sets of peer.sentPaths -/
  | sentPaths
  /-- peer.prefixLimitWarned, peer.llgrEndChs, pConfAccess.Update, isPrefixLimit, updatePrefixLimitConfig -/
  | underFsm
  /-- writes of destination.knownPathList, Table.getOrCreateDest, Table.deleteDest (non call-private tables) -/
  | underShardW
  /-- TableManager.getTables -/
  | underTm
  /-- reads of knownPathList (allowed on snapshots without a lock) -/
  | free
  /-- live shard state (a *destination out of destinationShard.mp, its knownPathList slice) handed to a
  caller that does not hold the shard lock: no lock set makes this acceptable — what leaves a shard lock
  must be a copy -/
  | never
  deriving DecidableEq, Repr

/-- the rule each access site has to satisfy with the locks it MUST hold -/
def guardOk : Guard → Held → Bool
  | .sentPaths, h => (has h bucket .W && hasAny h refresh) || has h refresh .W
  | .underFsm, h => has h fsm .W
  | .underShardW, h => has h shard .W
  | .underTm, h => hasAny h tm
  | .free, _ => true
  | .never, _ => false

def guardOf (what : String) (write : Bool) : Option Guard :=
  match what with
  | "sentPaths" => some .sentPaths
  | "prefixLimitWarned" | "llgrEndChs" | "pconfUpdate" | "isPrefixLimit" | "updatePrefixLimitConfig" => some .underFsm
  | "knownPathList" => some (if write then .underShardW else .free)
  | "getOrCreateDest" | "deleteDest" => some .underShardW
  | "getTables" => some .underTm
  | "shardEscape" => some .never
  | _ => none

end LockEdges
