/-
Model of gobgp's graceful-restart / long-lived graceful-restart handling for ONE neighbour
(property C12).  Core-only Lean; every definition names the Go code it mirrors, branch for
branch.  Time is virtual seconds (`now`); timers are deadlines.

  pkg/server/fsm.go      established() reasonCh branch, recvMessageloop (hard reset), stateChange
  pkg/server/server.go   handleFSMMessage (PeerDown, nextStateIdle, ESTABLISHED, EOR handling),
                         needToAdvertise, softResetOut(deferral)
  pkg/server/peer.go     forwardingPreservedFamilies, llgrFamilies, llgrRestartTimerStarted,
                         llgrRestartTimerExpired, stopPeerRestarting, allNegotiatedEORReceived
  internal/pkg/table/adj.go  StaleAll, DropStale, Drop, MarkLLGRStaleOrDrop, Update
-/
namespace GR

/-- per configured address family of the neighbour: `oc.AfiSafi` fields
`MpGracefulRestart.State.{Enabled,Received,EndOfRibReceived,Running}` and
`LongLivedGracefulRestart.State.{Enabled,Received,PeerRestartTime,PeerRestartTimerExpired,Running}` -/
structure Fam where
  id         : Nat
  /-- MpGracefulRestart.Config.Enabled -/
  mpCfg      : Bool
  mpEnabled  : Bool
  mpReceived : Bool := false
  eor        : Bool := false
  running    : Bool := false
  llEnabled  : Bool := false
  llReceived : Bool := false
  llTime     : Nat := 0
  llExpired  : Bool := false
  llRunning  : Bool := false
deriving Repr, DecidableEq, Inhabited

/-- one Adj-RIB-In entry of the neighbour.  `ver` stands for the attribute set of the
announcement (the harness encodes it in MED), `nLL` = number of LLGR_STALE values in
COMMUNITIES, `noLL` = NO_LLGR present. -/
structure Route where
  fam   : Nat
  key   : Nat
  ver   : Nat
  stale : Bool
  nLL   : Nat
  noLL  : Bool
  /-- rejected at reception (AS_PATH loop, own ORIGINATOR_ID): held in the Adj-RIB-In, never in the Loc-RIB,
  not counted as accepted -/
  rej   : Bool := false
deriving Repr, DecidableEq, Inhabited

/-- what the received OPEN carries (GR capability: N bit, R bit, restart time, family tuples;
LLGR capability: (family, time) tuples) -/
structure Caps where
  gr      : Bool
  nbit    : Bool
  rbit    : Bool
  time    : Nat
  tuples  : List Nat
  llgr    : Bool
  ltuples : List (Nat × Nat)
  /-- families of the Multiprotocol capabilities of the OPEN -/
  mp      : List Nat := []
  /-- families of `tuples` whose Forwarding State bit is CLEAR -/
  noFwd   : List Nat := []
deriving Repr, DecidableEq, Inhabited

structure Peer where
  /- GracefulRestart.Config -/
  cfgGR    : Bool
  cfgNotif : Bool
  cfgLL    : Bool
  deferral : Nat
  /-- the neighbour is configured as one the local speaker is restarting toward
  (GracefulRestart.State.LocalRestarting as given to AddPeer) -/
  cfgLR    : Bool := false
  /- State.SessionState == established -/
  est      : Bool := false
  /- GracefulRestart.State -/
  enabled         : Bool := false
  notif           : Bool := false
  longLived       : Bool := false
  restartTime     : Nat := 0
  peerRestarting  : Bool := false
  localRestarting : Bool := false
  /-- peer.longLivedRunning -/
  llRun    : Bool := false
  fams     : List Fam := []
  /-- `fsm.familyMap` (negotiatedRFList): configured ∩ the peer's Multiprotocol capabilities, set by
  `stateChange(ESTABLISHED)` of the latest session -/
  negotiated : List Nat := []
  /-- GR tuples of the latest OPEN whose Forwarding State bit is clear (read from `fsm.capMap`) -/
  fwdClear : List Nat := []
  rib      : List Route := []
  now      : Nat := 0
  /-- fsm.gracefulRestartTimer -/
  restartAt : Option Nat := none
  /-- LLGR timer goroutines still selectable (not yet fired, endCh not closed): (family, deadline) -/
  llTimers  : List (Nat × Nat) := []
  /-- pending `time.AfterFunc(deferral)` callbacks: (deadline, deferralTime) -/
  defTimers : List (Nat × Nat) := []
  /-- Timers.State.Downtime (none = never set = Unix 0) -/
  downtime  : Option Nat := none
deriving Repr, DecidableEq, Inhabited

/-! ### classification of the way a session in ESTABLISHED ends (fsm.go) -/

/-- what happened to the established session -/
inductive Loss where
  | readFail          -- transport failure seen by the reader (EOF, reset)
  | writeFail         -- transport failure seen by the writer
  | holdExpiry        -- hold timer fired, NOTIFICATION 4/0 written
  | holdExpiryWriteErr -- hold timer fired, writing the NOTIFICATION failed
  | notifRecv (code sub : Nat) -- NOTIFICATION with this error code / subcode received
  | notifSent (code sub : Nat) -- we sent this NOTIFICATION (malformed message, …) through fsm.notification
  | adminDown         -- administrative shutdown
  | prefixLimit       -- prefix limit exceeded: Cease/1 sent, connection closed by sendNotification
deriving Repr, DecidableEq, Inhabited

/-- `fsmStateReason.Type` values that matter -/
inductive Reason where
  | gracefulRestart | readFailed | writeFailed | notificationSent | notificationRecv
  | hardReset | holdTimerExpired | adminDown | restartTimerExpired | other
deriving Repr, DecidableEq, Inhabited

/-- reason produced before the `reasonCh` branch of `established()`, and whether it goes through
that branch (`true`) or is returned directly (`false`).
* recvMessageloop: NOTIFICATION → `fsmHardReset` iff `Enabled ∧ NotificationEnabled ∧ Cease/9`,
  else `fsmNotificationRecv` (both through reasonCh); read error → `fsmReadFailed` (reasonCh);
* sendMessageloop: write error → `fsmWriteFailed` (reasonCh);
* `<-holdTimer.C`: `!Enabled` → direct `fsmHoldTimerExpired`; write error → `fsmWriteFailed`
  into reasonCh; else `fsmNotificationSent`(code 4) into reasonCh;
* `<-fsm.notification` → direct `fsmNotificationSent`; adminStateDown → direct `fsmAdminDown`;
* adminStatePfxCt: NOTIFICATION Cease/1 sent → direct `fsmNotificationSent`. -/
def rawReason (enabled notif : Bool) : Loss → Reason × Bool × Bool
  -- (reason, via reasonCh, isHoldTimerNotification)
  | .readFail => (.readFailed, true, false)
  | .writeFail => (.writeFailed, true, false)
  | .holdExpiry => if !enabled then (.holdTimerExpired, false, false) else (.notificationSent, true, true)
  | .holdExpiryWriteErr => if !enabled then (.holdTimerExpired, false, false) else (.writeFailed, true, false)
  | .notifRecv code sub =>
    if enabled && notif && code == 6 && sub == 9 then (.hardReset, true, false) else (.notificationRecv, true, false)
  | .notifSent _ _ => (.notificationSent, false, false)
  | .adminDown => (.adminDown, false, false)
  | .prefixLimit => (.notificationSent, false, false)

/-- `established()` `case err := <-reasonCh:` — the condition that rewrites the reason to
`fsmGracefulRestart` -/
def reasonChGraceful (enabled notif : Bool) (r : Reason) (holdNotif : Bool) : Bool :=
  enabled &&
    ((notif && r == .notificationRecv) ||
     (r == .notificationSent && holdNotif) ||
     r == .readFailed ||
     r == .writeFailed)

/-- the reason handed to `handleFSMMessage` when the session ends in way `k` -/
def classify (enabled notif : Bool) (k : Loss) : Reason :=
  match rawReason enabled notif k with
  | (r, via, hn) => if via && reasonChGraceful enabled notif r hn then .gracefulRestart else r

def graceful (enabled notif : Bool) (k : Loss) : Bool :=
  classify enabled notif k == .gracefulRestart

/-! ### family helpers (peer.go) -/

def famIds (p : Peer) : List Nat := p.fams.map (·.id)

/-- `forwardingPreservedFamilies`: first component -/
def grFams (p : Peer) : List Nat :=
  (p.fams.filter (fun f => f.mpEnabled && f.mpReceived)).map (·.id)

/-- `llgrFamilies`: first component -/
def llFams (p : Peer) : List Nat :=
  (p.fams.filter (fun f => f.llEnabled)).map (·.id)

/-- `allNegotiatedEORReceived` -/
def allEOR (p : Peer) : Bool :=
  p.fams.all (fun f => !(f.mpEnabled && f.mpReceived && !f.eor))

/-- `needToAdvertise` -/
def needToAdvertise (p : Peer) : Bool := p.est && !p.localRestarting

/-! ### Adj-RIB-In operations (adj.go) -/

/-- `StaleAll(fs)` -/
def staleAll (fs : List Nat) (rib : List Route) : List Route :=
  rib.map (fun r => if fs.contains r.fam then { r with stale := true } else r)

/-- `Drop(fs)` -/
def dropFams (fs : List Nat) (rib : List Route) : List Route :=
  rib.filter (fun r => !fs.contains r.fam)

/-- `DropStale(all configured families)` -/
def dropStale (rib : List Route) : List Route := rib.filter (fun r => !r.stale)

/-- `MarkLLGRStaleOrDrop(fs)`: NO_LLGR → withdrawn, else LLGR_STALE appended -/
def markLLGR (fs : List Nat) (rib : List Route) : List Route :=
  (rib.filter (fun r => !(fs.contains r.fam && r.noLL))).map
    (fun r => if fs.contains r.fam then { r with nLL := r.nLL + 1 } else r)

/-- `AdjRib.Update` with an announcement: replace the entry of the same (family, prefix) -/
def announce (rib : List Route) (fam key ver : Nat) (noLL : Bool) (nLL : Nat) (rej : Bool := false) : List Route :=
  rib.filter (fun r => !(r.fam == fam && r.key == key)) ++ [⟨fam, key, ver, false, nLL, noLL, rej⟩]

def withdraw (rib : List Route) (fam key : Nat) : List Route :=
  rib.filter (fun r => !(r.fam == fam && r.key == key))

/-! ### stateChange(ESTABLISHED) (fsm.go) -/

def applyTuples (fams : List Fam) (ts : List Nat) : List Fam :=
  fams.map (fun f => if ts.contains f.id then { f with mpEnabled := true, mpReceived := true } else f)

def applyLTuple (fams : List Fam) (t : Nat × Nat) : List Fam :=
  fams.map (fun f => if f.id == t.1 then { f with llEnabled := true, llReceived := true, llTime := t.2 } else f)

/-- reset of what the previous session negotiated (first lines of the GR part of `stateChange`) -/
def resetNegotiated (p : Peer) : Peer :=
  { p with enabled := false, notif := false, longLived := false, restartTime := 0,
           fams := p.fams.map (fun f => { f with mpEnabled := f.mpCfg, mpReceived := false,
                                                 llEnabled := false, llReceived := false,
                                                 llTime := 0 }) }

/-- `fsm.stateChange(ESTABLISHED)`: negotiated GR / LLGR state from the received OPEN -/
def stateChangeEst (p0 : Peer) (c : Caps) : Peer :=
  let p := resetNegotiated p0
  let p1 :=
    if p.cfgGR && c.gr then
      -- GR tuples of families the session does not carry (not in configured ∩ Multiprotocol) are skipped
      let fams1 := applyTuples p.fams (c.tuples.filter (fun t => c.mp.contains t))
      let fams2 := if p.localRestarting && c.rbit then fams1.map (fun f => { f with eor := true }) else fams1
      { p with enabled := true, restartTime := c.time, fams := fams2,
               notif := p.cfgNotif && c.nbit }
    else p
  let p2 :=
    if p1.cfgLL && c.gr && c.llgr then
      { p1 with longLived := true, fams := c.ltuples.foldl applyLTuple p1.fams }
    else p1
  -- open2Cap: configured families ∩ the peer's Multiprotocol capabilities
  { p2 with negotiated := (p2.fams.map (·.id)).filter (fun f => c.mp.contains f),
            fwdClear := if c.gr then c.noFwd else [] }

/-! ### handleFSMMessage, state change (server.go) -/

/-- `stopPeerRestarting` -/
def stopPeerRestarting (p : Peer) : Peer :=
  { p with peerRestarting := false,
           fams := p.fams.map (fun f => { f with running := false, llRunning := false }),
           llTimers := [], llRun := false }

/-- PeerDown branch (`oldState == ESTABLISHED`) -/
def peerDown (p : Peer) (graceful : Bool) : Peer :=
  let p1 := if graceful then { p with peerRestarting := true } else stopPeerRestarting p
  let gf := if graceful then grFams p1 else []
  let df := if graceful then (famIds p1).filter (fun f => !gf.contains f) else famIds p1
  let rib1 := if graceful then staleAll gf p1.rib else p1.rib
  let fams1 := p1.fams.map (fun f =>
    { f with running := if gf.contains f.id then true else f.running, eor := false })
  { p1 with fams := fams1, rib := dropFams df rib1, est := false, downtime := some p1.now }

/-- start of one LLGR timer goroutine: `llgrRestartTimerStarted` + the pending timer -/
def startLL (p : Peer) (f : Nat) : Peer :=
  let t := ((p.fams.find? (·.id == f)).map (·.llTime)).getD 0
  { p with fams := p.fams.map (fun a => if a.id == f then { a with running := false, llRunning := true, llExpired := false } else a),
           llTimers := p.llTimers ++ [(f, p.now + t)] }

/-- `nextStateIdle` branch (old state ≠ ESTABLISHED, `PeerRestarting`, next state IDLE) -/
def idlePurge (p : Peer) : Peer :=
  if p.longLived && !p.llRun then
    let ll := llFams p
    let no := (famIds p).filter (fun f => !ll.contains f)
    let p1 := { p with llRun := true, rib := markLLGR ll (dropFams no p.rib) }
    if ll.isEmpty then stopPeerRestarting p1 else ll.foldl startLL p1
  else if !p.longLived then
    { p with peerRestarting := false,
             fams := p.fams.map (fun f => { f with running := false }),
             rib := dropFams (famIds p) p.rib }
  else p

/-- families whose stale routes may be kept after re-establishment: listed in the new GR capability
with the Forwarding State bit set -/
def keepFams (p : Peer) : List Nat := (grFams p).filter (fun f => !p.fwdClear.contains f)

/-- RFC 4724 §4.2 at re-establishment: `DropStale(others)` — the stale routes of every family that the
new GR capability does not list, or lists with the Forwarding State bit clear, go at once -/
def dropStaleUnlisted (p : Peer) : List Route :=
  p.rib.filter (fun r => !(r.stale && !(keepFams p).contains r.fam))

/-- ESTABLISHED while `PeerRestarting`: `stopPeerRestarting` when the new OPEN lists no GR family, and
`DropStale(others)` -/
def estPurge (p0 : Peer) : Peer :=
  if p0.peerRestarting then
    { (if (grFams p0).isEmpty then stopPeerRestarting p0 else p0) with rib := dropStaleUnlisted p0 }
  else p0

/-- ESTABLISHED, restarting-speaker part: deferral ends at once or a deferral timer starts -/
def estDefer (p : Peer) : Peer :=
  if !p.localRestarting then p
  else if allEOR p then { p with localRestarting := false }
  else { p with defTimers := p.defTimers ++ [(p.now + p.deferral, p.deferral)] }

def onEstablished (p0 : Peer) : Peer := estDefer (estPurge p0)

/-- next FSM states the harness drives -/
inductive Next where
  | idle | active | opensent | openconfirm | established
deriving Repr, DecidableEq, Inhabited

/-- `handleFSMMessage` for `fsmMsgStateChange` -/
def onStateChange (p : Peer) (next : Next) (graceful : Bool) (purgeReason : Bool := false) : Peer :=
  -- `purgeReason`: the reason is fsmRestartTimerExpired or fsmAdminDown
  let nextStateIdle := p.peerRestarting && next == .idle && purgeReason
  let p1 :=
    if p.est then peerDown p graceful
    else if nextStateIdle then idlePurge p
    else p
  if next == .established then onEstablished { p1 with est := true }
  else p1

/-! ### handleFSMMessage, UPDATE / End-of-RIB (server.go) -/

/-- `AdjRib.Update`: the Adj-RIB-In has a table per CONFIGURED family only (`NewAdjRib(rfList)`); a path
of any other family is skipped (`t := adj.table[rf]; if t == nil { continue }`) -/
def onAnnounce (p : Peer) (fam key ver : Nat) (noLL : Bool) (nLL : Nat) (rej : Bool := false) : Peer :=
  if !p.est || !(famIds p).contains fam then p else { p with rib := announce p.rib fam key ver noLL nLL rej }

/-- what is REPORTED per family (GetTable(ADJ_IN) NumPath / NumAccepted, ListPeer AfiSafi.State): the
number of Adj-RIB-In routes of the family, and of those not rejected at reception -/
def received (p : Peer) (f : Nat) : Nat := (p.rib.filter (fun r => r.fam == f)).length
def accepted (p : Peer) (f : Nat) : Nat := (p.rib.filter (fun r => r.fam == f && !r.rej)).length

def onWithdraw (p : Peer) (fam key : Nat) : Peer :=
  if !p.est then p else { p with rib := withdraw p.rib fam key }

/-- the per-family `EndOfRibReceived = true` update -/
def markEOR (p : Peer) (f : Nat) : Peer :=
  { p with fams := p.fams.map (fun a => if a.id == f then { a with eor := true } else a) }

/-- `if localRestarting { allEnd … LocalRestarting = false }` (`localRestarting` is read from the
configuration copied BEFORE the flag update; it is not changed by it) -/
def eorLocal (p p1 : Peer) : Peer :=
  if p.localRestarting && allEOR p1 then { p1 with localRestarting := false } else p1

/-- `if peerRestarting { if receivedAllEOR() { stopPeerRestarting; DropStale(all) } }` -/
def eorPeer (p2 : Peer) : Peer :=
  if p2.peerRestarting then
    if allEOR p2 then
      { stopPeerRestarting p2 with rib := dropStale (stopPeerRestarting p2).rib }
    else p2
  else p2

/-- End-of-RIB for family `f` -/
def onEOR (p : Peer) (f : Nat) : Peer :=
  if !p.est then p else eorPeer (eorLocal p (markEOR p f))

/-! ### timers -/

/-- `DropStale([f])` -/
def dropStaleFam (f : Nat) (rib : List Route) : List Route :=
  rib.filter (fun r => !(r.fam == f && r.stale))

/-- LLGR timer of family `f` fires: `DropStale([f])`, `llgrRestartTimerExpired(f)` (true when no
other family's timer is still running) and then `stopPeerRestarting` + `DropStale(all)`. -/
def onLLExpire (p : Peer) (f : Nat) : Peer :=
  let all := p.fams.all (fun a => a.id == f || !a.llRunning)
  let p1 := { p with rib := dropStaleFam f p.rib,
                     fams := p.fams.map (fun a => if a.id == f then { a with llExpired := true, llRunning := false } else a),
                     llTimers := p.llTimers.filter (fun t => t.1 != f) }
  if all then
    let q := stopPeerRestarting p1
    { q with rib := dropStale q.rib }
  else p1

/-- restart timer fires in idle()/active()/opensent()/openconfirm(): a transition to IDLE with reason
`fsmRestartTimerExpired` iff `PeerRestarting` -/
def onRestartExpire (p : Peer) : Peer :=
  let p1 := { p with restartAt := none }
  if p1.est then p1   -- the timer is stopped on entering established(); defensive
  else if p1.peerRestarting then onStateChange p1 .idle false true else p1

/-- deferral timer callback (`deferralExpiredFunc` → `softResetOut(deferral=true)`) -/
def onDeferralExpire (p : Peer) (dt : Nat) : Peer :=
  let skip := match p.downtime with
    | none => false
    | some d => decide (p.now - d < dt)
  if skip then p
  else if !p.est then p
  else if p.localRestarting then { p with localRestarting := false }
  else p

inductive Due where
  | ll (f : Nat) | defer (dt : Nat) | restart
deriving Repr, DecidableEq, Inhabited

/-- earliest pending timer with deadline ≤ `limit`; ties: LLGR timers (in creation order), then
deferral, then the restart timer -/
def minStep (proj : Nat × Nat → Nat) (acc : Option (Nat × Nat)) (x : Nat × Nat) : Option (Nat × Nat) :=
  match acc with
  | none => some x
  | some y => if proj x < proj y then some x else some y

def minBy (l : List (Nat × Nat)) (proj : Nat × Nat → Nat) : Option (Nat × Nat) :=
  l.foldl (minStep proj) none

/-- the earlier of two candidates, the first one on a tie -/
def pickDue (a b : Option (Nat × Due)) : Option (Nat × Due) :=
  match a, b with
  | none, b => b
  | a, none => a
  | some x, some y => if y.1 < x.1 then some y else some x

def nextDue (p : Peer) (limit : Nat) : Option (Nat × Due) :=
  let c1 : Option (Nat × Due) := (minBy p.llTimers (·.2)).map (fun t => (t.2, Due.ll t.1))
  let c2 : Option (Nat × Due) := (minBy p.defTimers (·.1)).map (fun t => (t.1, Due.defer t.2))
  let c3 : Option (Nat × Due) := p.restartAt.map (fun d => (d, Due.restart))
  match pickDue (pickDue c1 c2) c3 with
  | some (d, k) => if d ≤ limit then some (d, k) else none
  | none => none

def removeFirst (l : List (Nat × Nat)) (x : Nat × Nat) : List (Nat × Nat) :=
  match l with
  | [] => []
  | y :: ys => if y == x then ys else y :: removeFirst ys x

def fire (p : Peer) (d : Nat) (k : Due) : Peer :=
  let p1 := { p with now := d }
  match k with
  | .ll f => onLLExpire p1 f
  | .defer dt => onDeferralExpire { p1 with defTimers := removeFirst p1.defTimers (d, dt) } dt
  | .restart => onRestartExpire p1

/-- let virtual time advance to `limit`, firing due timers in order (fuel bounds the number of
firings; each firing removes one pending timer and only `restart` can add LLGR timers) -/
def advanceTo (fuel : Nat) (p : Peer) (limit : Nat) : Peer :=
  match fuel with
  | 0 => { p with now := limit }
  | fuel + 1 =>
    match nextDue p limit with
    | none => { p with now := limit }
    | some (d, k) => advanceTo fuel (fire p d k) limit

def tick (p : Peer) (d : Nat) : Peer :=
  advanceTo (p.llTimers.length + p.defTimers.length + p.fams.length + 2) p (p.now + d)

/-! ### events of a history -/

inductive Ev where
  | est (c : Caps)                 -- OPEN exchanged: stateChange(ESTABLISHED) + handleFSMMessage
  | loss (k : Loss)                -- the established session ends in way `k`
  | goto (n : Next) (adminDown : Bool) -- a non-established FSM transition (reason fsmAdminDown or a failure)
  | ann (fam key ver : Nat) (noLL : Bool) (nLL : Nat) (rej : Bool)
  | wd (fam key : Nat)
  | eor (f : Nat)
  | tick (d : Nat)
  | del                            -- DeletePeer (or UpdatePeer needing a new OPEN, StopBgp) then AddPeer with the same configuration
deriving Repr, DecidableEq, Inhabited

/-- session loss: classification in `established()` (graceful ⇒ restart timer armed with
`State.PeerRestartTime`), then `handleFSMMessage(IDLE, reason)` -/
def onDown (p : Peer) (g : Bool) : Peer :=
  if !p.est then p else
  let p1 := if g then { p with restartAt := some (p.now + p.restartTime) } else p
  onStateChange p1 .idle g

def onLoss (p : Peer) (k : Loss) : Peer := onDown p (graceful p.enabled p.notif k)

/-- entering ESTABLISHED: `stateChange` (negotiation), `handleFSMMessage`, then `established()`
stops the restart timer -/
def onEst (p : Peer) (c : Caps) : Peer :=
  if p.est then p else
  let p1 := stateChangeEst p c
  let p2 := onStateChange p1 .established false
  { p2 with restartAt := none }

/-- a family record of a newly created neighbour -/
def freshFam (f : Fam) : Fam := { id := f.id, mpCfg := f.mpCfg, mpEnabled := f.mpCfg }

/-- the peer object goes away — `deleteNeighbor`: `dropAdjRIBIn(all configured families)` whatever the
session state, `stopNeighbor` (`stopPeerRestarting`, FSM and its restart timer stopped) — and a new one
is created with the same configuration: no route, no restart state, no timer of the old one (the
deferral callbacks of the SERVER stay: they look the neighbour up by address) -/
def onDelete (p : Peer) : Peer :=
  { cfgGR := p.cfgGR, cfgNotif := p.cfgNotif, cfgLL := p.cfgLL, cfgLR := p.cfgLR, deferral := p.deferral,
    localRestarting := p.cfgLR, fams := p.fams.map freshFam, now := p.now, defTimers := p.defTimers }

/-- the effect of one event, before the timers that it makes due at once are fired -/
def stepRaw (p : Peer) : Ev → Peer
  | .est c => onEst p c
  | .loss k => onLoss p k
  | .goto n ad => if p.est || n == .established then p else onStateChange p n false ad
  | .ann f k v noLL nLL rj => onAnnounce p f k v noLL nLL rj
  | .wd f k => onWithdraw p f k
  | .eor f => onEOR p f
  | .tick d => tick p d
  | .del => onDelete p

/-- one event of a history.  Timer values are inputs and may be 0 ("expire at once"): whatever an event
arms with a deadline equal to the present instant fires before the next event (`tick · 0`). -/
def step (p : Peer) (e : Ev) : Peer :=
  match e with
  | .tick d => tick p d
  | e => tick (stepRaw p e) 0

def run (p : Peer) (evs : List Ev) : Peer := evs.foldl step p

/-- what can make the speaker hand routes to an established neighbour -/
inductive Trigger where
  | routeChange      -- a route learned from another neighbour / propagateUpdate
  | rtcMembership    -- the neighbour's RT membership changed (processRTCMembership)
  | routeRefresh     -- ROUTE-REFRESH from the neighbour (handleRouteRefresh)
  | softResetOut     -- soft reset out (operator)
  | localAdd         -- a locally injected path (AddPath)
  | localDelete      -- a locally deleted path (DeletePath)
  | vrfPath          -- a path added to a VRF
  | rtcWithdraw      -- the neighbour withdrew an RT membership (withdrawals of what it brought)
deriving Repr, DecidableEq, Inhabited

/-- every one of these goes through `needToAdvertise` (propagateUpdateToNeighbors, processOutgoingPaths,
sendSecondaryRoutes, handleRouteRefresh, softResetOut): established and not LocalRestarting -/
def sendsOn (p : Peer) (_ : Trigger) : Bool := needToAdvertise p

/-- `postFilterpath`, LLGR clause: a path carrying LLGR_STALE is turned into a withdrawal for a
neighbour for which `isLLGREnabledFamily(family)` is false -/
def exportWithdraws (peerLLGR : Bool) (pathLLGRStale : Bool) : Bool := !peerLLGR && pathLLGRStale

/-- `compareByLLGRStaleCommunity`: 0 = no decision, 1 = first path wins, 2 = second path wins -/
def compareLLGR (s1 s2 : Bool) : Nat := if s1 == s2 then 0 else if s1 then 2 else 1

end GR
