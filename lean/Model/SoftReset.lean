/-
  C15 — the C01/C02 "world" (Model/World.lean) extended with routing policy and the soft-reset
  family of operations.

  Mirrors (pkg/server/server.go unless said otherwise):
    table/policy.go RoutingPolicy.ApplyPolicy / Policy.Apply / Statement.Apply,
      restricted to: community-set (ANY) + neighbor-set (ANY) conditions, set-med (replace),
      set-local-pref, community add, route action accept / reject / none  -> evalStmts / applyPol
    propagateUpdate (LOCAL_PREF strip, import policy, reject -> withdraw clone)   -> propagateP
    (*BgpServer).filterpath = prePolicyFilterpath; export policy; re-evaluation of `old`;
      postFilterpath                                                                -> sFilterpathP
    table/path.go UpdatePathAttrs (the part a policy or the far end can see: MED dropped toward
      eBGP, default LOCAL_PREF toward iBGP)                                         -> prePolicy
    propagateUpdateToNeighbors (non ADD-PATH branch)                               -> fanoutP
    getBestFromLocalCallbackLocked + the callbacks of handleFSMMessage(ESTABLISHED),
      softResetOut, handleRouteRefresh                                              -> bestExport / transferP / softOut
    peer.go updateRoutes / hasPathAlreadyBeenSent (sentPaths)                      -> PSt.sent
    softResetIn (replay of the accepted Adj-RIB-In through propagateUpdate)        -> softIn
    sReset (in then out), ResetPeer with address "all"                             -> softBoth, *All
    SetPolicies / Add|SetPolicyAssignment / AddDefinedSet(replace)                 -> setPolicy
  One `Op` = one region executed under one lock (DESIGN §4); a soft reset of one peer is one
  step (refresh write-lock for OUT, one bucket-locked step per replayed path for IN — the IN
  replay is a fold of such steps and other events cannot fall inside it in the model).
-/
import Model.World
namespace SoftReset
open BestPath World

/-! ### policy -/

/-- one entry of a prefix-set: `base/plen lo..hi` -/
structure PfxEnt where
  base : Nat
  plen : Nat
  lo   : Nat
  hi   : Nat
deriving Repr, DecidableEq, Inhabited

/-- one member of an as-path-set, of the forms NewSingleAsPathMatch recognises:
    mode 0 `_N_` (include), 1 `^N_` (left-most), 2 `_N$` (origin), 3 `^N$` (only) -/
structure AspEnt where
  mode : Nat
  asn  : Nat
deriving Repr, DecidableEq, Inhabited

/-- the destinations of the world (zz_verif_c01_test.go c01Prefixes): 10.1.0.0/24, 10.2.0.0/24,
    10.3.0.0/16 as (address, length) -/
def pfxOf : Nat → Nat × Nat
  | 0 => (167837696, 24)
  | 1 => (167903232, 24)
  | _ => (167968768, 16)

/-- PrefixCondition.Evaluate for one entry: the entry's prefix covers the route's prefix and the
    route's mask length lies in the entry's range -/
def PfxEnt.matchesPfx (e : PfxEnt) (k : Nat) : Bool :=
  let (a, l) := pfxOf k
  e.plen ≤ l && a / 2 ^ (32 - e.plen) == e.base / 2 ^ (32 - e.plen) && e.lo ≤ l && l ≤ e.hi

/-- the prefix-set clause of `Stmt.matches`: the set's members decide, ANY or INVERT -/
def pfxCondModel (opt : Nat) (es : List PfxEnt) (k : Nat) : Bool :=
  if opt = 2 then !es.any (fun e => e.matchesPfx k) else es.any (fun e => e.matchesPfx k)

/-- PrefixCondition.Evaluate as the code has it, INCLUDING the test it makes before anything
    else: the address family recorded in the PrefixSet object (`setFam`; `none` for a set that was
    configured, or replaced, EMPTY; the family of the last member for a set emptied by
    DeleteDefinedSet) against the route's family — a mismatch answers false whatever the option.
    For a non-empty IPv4 set and IPv4 routes (all the harness generates, see
    `prefix_condition_family_partial`) it is `pfxCondModel`; for an EMPTY set it depends on how the
    set became empty: KNOWN FINDING soft-reset!=fresh:emptied-prefix-set-invert. -/
def pfxCondCode (setFam : Option Nat) (routeFam : Nat) (opt : Nat) (es : List PfxEnt) (k : Nat) : Bool :=
  if setFam != some routeFam then false else pfxCondModel opt es k

/-- Path.GetAsSeqList: members of AS_SEQUENCE segments, one 0 for every other segment -/
def asSeqList (segs : List Seg) : List Nat :=
  segs.flatMap (fun s => if s.typ = 2 then s.as else [0])

/-- singleAsPathMatch.Match -/
def AspEnt.matchesPath (e : AspEnt) (l : List Nat) : Bool :=
  !l.isEmpty &&
    (if e.mode = 0 then l.contains e.asn
     else if e.mode = 1 then l.head? == some e.asn
     else if e.mode = 2 then l.getLast? == some e.asn
     else l == [e.asn])

/-- one policy statement: conditions, modification actions, route action.  Every set condition
    is `ANY` over the CURRENT members of the defined set it refers to (the members are what the
    configuration says after every append / remove / replace applied to the set). -/
structure Stmt where
  commSet : Option (List Nat) := none      -- match-community-set
  commOpt : Nat := 0                       -- match option: 0 ANY, 1 ALL, 2 INVERT
  pfxSet  : Option (List PfxEnt) := none   -- match-prefix-set
  pfxOpt  : Nat := 0                       -- 0 ANY, 2 INVERT
  aspSet  : Option (List AspEnt) := none   -- match-as-path-set
  aspOpt  : Nat := 0                       -- 0 ANY, 1 ALL, 2 INVERT
  nbrOpt  : Nat := 0                       -- neighbor-set: 0 ANY, 2 INVERT
  aspLen  : Option (Nat × Nat) := none  -- as-path-length condition: (0 eq | 1 ge | 2 le, n)
  medEq   : Option Nat := none  -- med-eq condition (false when there is no MED)
  lpEq    : Option Nat := none  -- local-pref-eq condition (an absent LOCAL_PREF counts as 100)
  anyPeer : Bool := true        -- no neighbor condition
  peers   : List Nat := []      -- match-neighbor-set ANY (peer indices)
  setMed  : Option Nat := none  -- med action, replace
  setLp   : Option Nat := none  -- local-pref action
  addComm : Option Nat := none  -- community action, ADD (append, duplicates kept)
  route   : Nat := 0            -- 0: none (fall through), 1: accept, 2: reject
deriving Repr, DecidableEq, Inhabited

/-- the policies assigned to one direction of the global table, statements concatenated in
    assignment order, and the default action -/
structure Pol where
  stmts      : List Stmt := []
  dfltAccept : Bool := true
deriving Repr, DecidableEq, Inhabited

/-- AsPathLengthCondition.Evaluate on Path.GetAsPathLen -/
def cmpLen (c : Nat × Nat) (len : Nat) : Bool :=
  if c.1 = 1 then len ≥ c.2 else if c.1 = 2 then len ≤ c.2 else len == c.2

/-- Statement.Evaluate: every condition holds. `peer` is the index of PolicyOptions.Info — the
    source peer for import, the target peer for export. -/
def Stmt.matches (s : Stmt) (peer : Nat) (r : Cand) : Bool :=
  (match s.commSet with
   | none => true
   | some cs =>
     -- CommunityCondition.Evaluate: ALL over an EMPTY set is false (the loop never sets result)
     if s.commOpt = 1 then !cs.isEmpty && cs.all (fun c => r.comms.contains c)
     else if s.commOpt = 2 then !cs.any (fun c => r.comms.contains c)
     else cs.any (fun c => r.comms.contains c)) &&
    -- NeighborCondition.Evaluate: an EMPTY neighbor set matches everything, whatever the option
    (s.anyPeer || s.peers.isEmpty ||
      (if s.nbrOpt = 2 then !s.peers.contains peer else s.peers.contains peer)) &&
    (match s.aspLen with
     | none => true
     | some c => cmpLen c (asPathLen r)) &&
    (match s.medEq with
     | none => true
     | some v => r.med == some v) &&
    (match s.lpEq with
     | none => true
     | some v => r.localPref.getD 100 == v) &&
    (match s.pfxSet with
     | none => true
     | some es =>
       if s.pfxOpt = 2 then !es.any (fun e => e.matchesPfx r.pfx)
       else es.any (fun e => e.matchesPfx r.pfx)) &&
    (match s.aspSet with
     | none => true
     | some es =>
       -- AsPathCondition.Evaluate: ALL and INVERT over an EMPTY set are true, ANY is false
       if s.aspOpt = 1 then es.all (fun e => e.matchesPath (asSeqList r.segs))
       else if s.aspOpt = 2 then !es.any (fun e => e.matchesPath (asSeqList r.segs))
       else es.any (fun e => e.matchesPath (asSeqList r.segs)))

/-- the ModActions of a statement (on a clone of the path) -/
def Stmt.modify (s : Stmt) (r : Cand) : Cand :=
  let r := match s.addComm with | some c => { r with comms := r.comms ++ [c] } | none => r
  let r := match s.setMed with | some v => { r with med := some v } | none => r
  match s.setLp with | some v => { r with localPref := some v } | none => r

/-- Policy.Apply over the concatenated statements followed by ApplyPolicy's default: later
    statements see the modifications of earlier matching ones -/
def evalStmts (dflt : Bool) (peer : Nat) : List Stmt → Cand → Option Cand
  | [], r => if dflt then some r else none
  | s :: rest, r =>
    if s.matches peer r then
      let r' := s.modify r
      if s.route = 1 then some r'
      else if s.route = 2 then none
      else evalStmts dflt peer rest r'
    else evalStmts dflt peer rest r

/-- RoutingPolicy.ApplyPolicy for an announcement: `none` = rejected -/
def applyPol (p : Pol) (peer : Nat) (r : Cand) : Option Cand := evalStmts p.dfltAccept peer p.stmts r

/-! ### state -/

/-- what the far end holds for a prefix: the attributes a policy can change -/
structure Held where
  marker : Nat
  med    : Option Nat
  lp     : Option Nat
  comms  : List Nat
deriving Repr, DecidableEq, Inhabited

abbrev ViewP := List (Nat × Held)     -- prefix ↦ held (no ADD-PATH: path-id 0 only)

structure PSt where
  cfg  : PeerCfg
  up   : Bool := false
  adj  : Adj := {}
  view : ViewP := []
  sent : List Nat := []     -- peer.sentPaths: destinations with an advertised path
deriving Repr, Inhabited

structure S where
  g     : Global
  peers : List PSt := []
  rib   : List (Nat × List Cand) := []
  opts  : Opts := ⟨false, false, false⟩
  tick  : Nat := 0
  imp   : Pol := {}
  exp   : Pol := {}
deriving Repr, Inhabited

def S.ribOf (s : S) (pfx : Nat) : List Cand :=
  match s.rib.find? (·.1 == pfx) with
  | some e => e.2
  | none => []

/-- a destination without paths is deleted from the table (Table.update) -/
def S.setRib (s : S) (pfx : Nat) (l : List Cand) : S :=
  { s with rib := if l.isEmpty then s.rib.filter (·.1 != pfx)
                  else (pfx, l) :: s.rib.filter (·.1 != pfx) }

def S.updPeer (s : S) (idx : Nat) (f : PSt → PSt) : S :=
  { s with peers := s.peers.map (fun ps => if ps.cfg.idx == idx then f ps else ps) }

def S.peer? (s : S) (idx : Nat) : Option PSt := s.peers.find? (·.cfg.idx == idx)

/-! ### export -/

/-- Path.PrependAsn(as, 1, confed = false): into a leading AS_SEQUENCE with room, else as a new
    leading AS_SEQUENCE -/
def prependAS (as : Nat) (segs : List Seg) : List Seg :=
  match segs with
  | s :: rest => if s.typ = 2 && s.as.length < 255 then ⟨2, as :: s.as⟩ :: rest else ⟨2, [as]⟩ :: segs
  | [] => [⟨2, [as]⟩]

/-- Path.removeConfedAs -/
def removeConfed (segs : List Seg) : List Seg := segs.filter (fun s => !(s.typ = 3 || s.typ = 4))

/-- UpdatePathAttrs, as far as the modelled policies and the view can see it (routes are never
    local here): toward eBGP peers the local AS is prepended, confederation segments are
    removed and MED is not sent; iBGP peers get LOCAL_PREF 100 when there is none -/
def prePolicy (g : Global) (t : PeerCfg) (r : Cand) : Cand :=
  if t.isIBGP g then { r with localPref := some (r.localPref.getD 100) }
  else { r with med := none, segs := removeConfed (prependAS g.as r.segs) }

/-- (*BgpServer).filterpath: loop prevention (World.filterpathCore), UpdatePathAttrs, export
    policy; when the policy rejects the new best, `old` is judged as it was when it was
    advertised (prePolicyFilterpath(old, nil): loop prevention and UpdatePathAttrs, then the
    policy) and, if it would have been advertised, withdrawn; postFilterpath.
    (The pinned tree evaluated the raw Loc-RIB path here: defect, fixed.) -/
def sFilterpathP (g : Global) (exp : Pol) (t : PeerCfg) (path : P) (old : Option Cand) : Option P :=
  match filterpathCore g t path old with
  | none => none
  | some p =>
    let afterPolicy : Option P :=
      if p.wd then some p        -- ApplyPolicy hands a withdraw back unchanged
      else
        match applyPol exp t.idx (prePolicy g t p.r) with
        | some r' => some ⟨r', false⟩
        | none =>
          match old with
          | some o =>
            if (filterpathCore g t ⟨o, false⟩ none).isSome &&
                (applyPol exp t.idx (prePolicy g t o)).isSome then some ⟨o, true⟩ else none
          | none => none
    match afterPolicy with
    | none => none
    | some q => if !q.wd && !t.llgr && q.r.stale then some ⟨q.r, true⟩ else some q

/-- the attributes as they leave: postFilterpath removes LOCAL_PREF toward eBGP peers -/
def heldOf (g : Global) (t : PeerCfg) (r : Cand) : Held :=
  { marker := r.marker, med := r.med, lp := if t.isIBGP g then r.localPref else none,
    comms := r.comms }

def viewApplyP (g : Global) (t : PeerCfg) (v : ViewP) (p : P) : ViewP :=
  let v' := v.filter (fun e => !(e.1 == p.r.pfx))
  if p.wd then v' else (p.r.pfx, heldOf g t p.r) :: v'

/-- peer.updateRoutes for one path -/
def sentApply (sent : List Nat) (p : P) : List Nat :=
  let s' := sent.filter (· != p.r.pfx)
  if p.wd then s' else p.r.pfx :: s'

/-- updateRoutes(paths…) + sendfsmOutgoingMsg(paths) (+ the far end applying them) -/
def PSt.send (g : Global) (ps : PSt) (paths : List P) : PSt :=
  paths.foldl (fun ps p => { ps with view := viewApplyP g ps.cfg ps.view p, sent := sentApply ps.sent p }) ps

/-- propagateUpdateToNeighbors, non ADD-PATH branch, for one destination -/
def fanoutP (s : S) (oldL newL : List Cand) : S :=
  let (best, old) := getChanges oldL newL
  match best with
  | none => s
  | some b =>
    { s with peers := s.peers.map (fun ps =>
        if ps.up && !ps.cfg.isRSClient then
          match sFilterpathP s.g s.exp ps.cfg b old with
          | some p => ps.send s.g [p]
          | none => ps
        else ps) }

def ribUpdateP (s : S) (op : Op) (pfx : Nat) : S :=
  let oldL := s.ribOf pfx
  let newL := calcStep s.opts oldL op
  fanoutP (s.setRib pfx newL) oldL newL

/-- propagateUpdate for one path of a non route-server peer: LOCAL_PREF stripped on ingress from
    eBGP, import policy (PolicyOptions.Info = the source peer); a rejected route becomes a
    withdraw clone -/
def propagateP (s : S) (x : PeerCfg) (r : Cand) (withdraw : Bool) : S :=
  let r' := if !x.isIBGP s.g then { r with localPref := none } else r
  if withdraw then ribUpdateP s (.wd r') r.pfx
  else
    match applyPol s.imp x.idx r' with
    | some r'' => ribUpdateP s (.ann r'') r.pfx
    | none => ribUpdateP s (.wd r') r.pfx

def recvAnn (s : S) (idx : Nat) (r0 : Cand) : S :=
  match s.peer? idx with
  | none => s
  | some ps =>
    if !ps.up then s else
    let s := { s with tick := s.tick + 1 }
    let r := { r0 with src := ps.cfg.srcInfo s.g, ts := s.tick }
    let rej := inboundRejected s.g ps.cfg r
    let (adj', r') := adjAnnounce ps.adj r rej
    let s := s.updPeer idx (fun ps => { ps with adj := adj' })
    propagateP s ps.cfg r' rej

def recvWd (s : S) (idx : Nat) (pfx pathId : Nat) : S :=
  match s.peer? idx with
  | none => s
  | some ps =>
    if !ps.up then s else
    let s := { s with tick := s.tick + 1 }
    let r : Cand := { (default : Cand) with src := ps.cfg.srcInfo s.g, pfx := pfx, pathId := pathId, ts := s.tick }
    let s := s.updPeer idx (fun ps => { ps with adj := adjWithdraw ps.adj r })
    propagateP s ps.cfg r true

/-- getBestFromLocalCallbackLocked for a non ADD-PATH peer: (pathList, filtered) -/
def bestExport (s : S) (t : PeerCfg) : List P × List Cand :=
  s.rib.foldl (fun (acc : List P × List Cand) e =>
    match e.2.head? with
    | some b =>
      if b.nhInvalid then acc else
      match sFilterpathP s.g s.exp t ⟨b, false⟩ none with
      | some p => (acc.1 ++ [p], acc.2)
      | none => (acc.1, acc.2 ++ [b])
    | none => acc) ([], [])

/-- handleFSMMessage ESTABLISHED: bookkeeping starts empty, the export of every best path -/
def sessionUp (s : S) (idx : Nat) : S :=
  match s.peer? idx with
  | none => s
  | some _ =>
    let s := { s with tick := s.tick + 1 }
    s.updPeer idx (fun ps => ({ ps with up := true, view := [], sent := [] } : PSt).send s.g (bestExport s ps.cfg).1)

def sessionDown (s : S) (idx : Nat) : S :=
  match s.peer? idx with
  | none => s
  | some ps =>
    let s := { s with tick := s.tick + 1 }
    let s := s.updPeer idx (fun ps => { ps with up := false, view := [], sent := [], adj := {} })
    ps.adj.entries.foldl (fun s e => propagateP s ps.cfg e.r true) s

/-- softResetOut(deferral = false) for one established peer, and handleRouteRefresh: the
    withdrawals of filtered paths whose destination is in sentPaths, then the path list -/
def softOutPaths (s : S) (ps : PSt) : List P :=
  let (paths, filtered) := bestExport s ps.cfg
  (filtered.filter (fun b => ps.sent.contains b.pfx)).map (fun b => ⟨b, true⟩) ++ paths

def softOut (s : S) (idx : Nat) : S :=
  match s.peer? idx with
  | none => s
  | some ps =>
    if !ps.up then s      -- `notEstablished: continue`
    else s.updPeer idx (fun ps => ps.send s.g (softOutPaths s ps))

/-- softResetIn for one peer: every Adj-RIB-In path that passed the loop checks goes through
    propagateUpdate again -/
def softIn (s : S) (idx : Nat) : S :=
  match s.peer? idx with
  | none => s
  | some ps =>
    (ps.adj.entries.filter (fun e => !e.rejected)).foldl (fun s e => propagateP s ps.cfg e.r false) s

/-- sReset: in, then out -/
def softBoth (s : S) (idx : Nat) : S := softOut (softIn s idx) idx

def idxs (s : S) : List Nat := s.peers.map (·.cfg.idx)

def softInAll (s : S) : S := (idxs s).foldl softIn s
def softOutAll (s : S) : S := (idxs s).foldl softOut s
/-- sReset with address "all": softResetIn over all peers, then softResetOut over all peers -/
def softBothAll (s : S) : S := softOutAll (softInAll s)


/-! ### per-destination, per-peer pieces (what the whole-speaker functions above do to ONE
    destination of ONE peer; the theorems of Lemmas/SoftReset.lean are about these, and
    Model/SoftResetWorld.lean builds the speaker out of them) -/

/-- what one (possibly absent) outgoing path does to what the peer holds for its prefix -/
def heldApplyP (g : Global) (t : PeerCfg) (h : Option Held) : Option P → Option Held
  | none => h
  | some p => if p.wd then none else some (heldOf g t p.r)

/-- what propagateUpdateToNeighbors sends to one peer for one destination change -/
def deltaForP (g : Global) (e : Pol) (t : PeerCfg) (oldL newL : List Cand) : Option P :=
  match getChanges oldL newL with
  | (some b, old) => sFilterpathP g e t b old
  | (none, _) => none

/-- what softResetOut / handleRouteRefresh emit for one destination toward one peer: the export
    of the best path, or — when the filters refuse it and sentPaths has the destination — its
    withdrawal -/
def softOutFor (g : Global) (e : Pol) (t : PeerCfg) (l : List Cand) (sent : Bool) : List P :=
  match l.head? with
  | none => []
  | some b =>
    if b.nhInvalid then []
    else
      match sFilterpathP g e t ⟨b, false⟩ none with
      | some p => [p]
      | none => if sent then [⟨b, true⟩] else []

def heldApplyList (g : Global) (t : PeerCfg) (h : Option Held) (ps : List P) : Option Held :=
  ps.foldl (fun h p => heldApplyP g t h (some p)) h


/-- The premise behind "a soft reset out / ROUTE-REFRESH / initial transfer of a peer is ONE
    step": getBestFromLocalCallback(peer, families, addEOR, routeRefresh, fn) takes the peer's
    routeRefreshInProgress WRITE lock iff `routeRefresh` is true, and the incremental fan-out
    toward the peer runs under the READ lock. A call whose callback sends what it computed
    (`sends`) is atomic w.r.t. the fan-out only with the write lock (`write`); display-only calls
    (ListPath adj-out, counters) may use the read lock. Checked against the Go AST on every run. -/
def lockOk (sends write : Bool) : Bool := !sends || write

/-- the sender applies the list of one pass in order: for one wire key the LAST action wins -/
def lastAction (k : Nat) (l : List P) : Option P := (l.filter (fun p => p.r.pfx == k)).getLast?

/-- ListPath ADJ_OUT with EnableFiltered for one peer (adjRibOutForListPath /
    policyEvaluatedAdjRibOutPaths): every best path that passes loop prevention toward the peer
    is listed; `true` = flagged `filtered`, i.e. the export policy rejects the path AS IT IS
    ADVERTISED (after UpdatePathAttrs) -/
def adjOutFiltered (s : S) (t : PeerCfg) : List (Nat × Bool) :=
  s.rib.filterMap (fun e =>
    match e.2.head? with
    | some b =>
      if b.nhInvalid then none else
      match filterpathCore s.g t ⟨b, false⟩ none with
      | some p => some (e.1, (applyPol s.exp t.idx (prePolicy s.g t p.r)).isNone)
      | none => none
    | none => none)

inductive SOp where
  | up (idx : Nat)
  | down (idx : Nat)
  | ann (idx : Nat) (r : Cand)
  | wd (idx : Nat) (pfx pathId : Nat)
  | setImp (p : Pol)
  | setExp (p : Pol)
  | softIn (idx : Nat)
  | softOut (idx : Nat)
  | softBoth (idx : Nat)
  | softInAll | softOutAll | softBothAll
  | refresh (idx : Nat)      -- ROUTE-REFRESH received from the peer
deriving Repr

def step (s : S) : SOp → S
  | .up i => sessionUp s i
  | .down i => sessionDown s i
  | .ann i r => recvAnn s i r
  | .wd i p k => recvWd s i p k
  | .setImp p => { s with imp := p }
  | .setExp p => { s with exp := p }
  | .softIn i => softIn s i
  | .softOut i => softOut s i
  | .softBoth i => softBoth s i
  | .softInAll => softInAll s
  | .softOutAll => softOutAll s
  | .softBothAll => softBothAll s
  | .refresh i => softOut s i

def run (s : S) (ops : List SOp) : S := ops.foldl step s

end SoftReset
