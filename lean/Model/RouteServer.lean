/-
  Route-server clients in the C01 world (sub-part C01RS of C01).

  A speaker whose neighbour map holds ordinary peers AND route-server clients.  The ordinary
  peers share the global table (`base.rib`, Model/World.lean); the route-server clients share the
  second table manager `s.rsRib`.  A route-server client does not get "the" best path of a
  destination but ITS best path: the first path of the (one, shared, best-first) path list that
  neither came from the client itself nor carries the client's AS in the AS_PATH.

  Mirrors (pkg/server/server.go, pkg/server/peer.go, internal/pkg/table/destination.go):
    destination.go rsFilter(id, as, path), id != GLOBAL             -> rsFilter
    destination.go GetKnownPathList(id, as) / getBestPath(id, as)   -> knownFor / clientBest
    destination.go Update.GetChanges(id, as, false)                 -> getChangesFor
    server.go propagateUpdate, `rs` branches (tableId = peer.TableID(), rib = s.rsRib, no
      LOCAL_PREF stripping, import policy of the table id: none configured = accept)
                                                                    -> rsPropagate / rsRibUpdate
    server.go propagateUpdateToNeighbors: the `continue` on
      `source.isRouteServerClient() != targetPeer.isRouteServerClient()`, needToAdvertise,
      dstsToPaths(targetPeer.TableID(), targetPeer.AS(), dsts), processOutgoingPaths
      (non ADD-PATH, non secondary-route branch)                    -> rsFanout
    server.go (*BgpServer).filterpath / filterpath / postFilterpath,
      peer.go filterPathFromSourcePeer (as repaired on wt-C01RS)    -> rsFilterpath / rsSrcStage
    server.go getBestFromLocalCallbackLocked -> getPossibleBest ->
      GetBestPathList(peer.TableID(), peer.AS(), …)                 -> rsTransfer
    server.go handleFSMMessage ESTABLISHED / PeerDown, deleteNeighbor for a client
                                                                    -> rsSessionUp / rsSessionDown / rsDelPeer
    peer.go handleUpdate (same loop checks for every peer kind)     -> World.inboundRejected

  NOT modelled: secondary-route mode (`isSecondaryRouteEnabled` / `sendSecondaryRoutes`),
  ADD-PATH send toward a client, per-client import/export policies (none configured),
  graceful session loss.
-/
import Model.World
namespace RouteServer
open BestPath World

/-- destination.go `rsFilter(id, as, path)` for a client table id (`id != GLOBAL_RIB_NAME`):
    the path came from the client itself (source address == table id == neighbour address) or
    the client's AS is in `path.GetAsList()` -/
def rsFilter (t : PeerCfg) (p : Cand) : Bool :=
  p.src.addr == some t.addr || (asList p.segs).contains t.as

/-- destination.go `GetKnownPathList(id, as)`: the client's view of the shared path list -/
def knownFor (t : PeerCfg) (l : List Cand) : List Cand := l.filter (fun p => !rsFilter t p)

/-- destination.go `getBestPath(id, as, pathList)`: the first path not skipped by `rsFilter` -/
def clientBest (t : PeerCfg) (l : List Cand) : Option Cand := l.find? (fun p => !rsFilter t p)

/-- destination.go `Update.GetChanges(id, as, false)` for a client: the decision tree of the
    global case (`World.getChanges`, which reads its two lists only through their heads) applied
    to the client-specific best paths of the old and the new path list -/
def getChangesFor (t : PeerCfg) (oldL newL : List Cand) : Option P × Option Cand :=
  getChanges (clientBest t oldL).toList (clientBest t newL).toList

/-! ### export filtering toward a client

  `World.sFilterpath` mirrors the filter chain as it was when C01 was built: in
  `filterPathFromSourcePeer` a route-server client whose router-id equals the route's source
  router-id got NOTHING, not even the withdraw of the old best (`if !peer.isRouteServerClient()`
  around the `old.Clone(true)` branch).  That is a stuck route (see Props/C01RS.lean,
  `pinned_stuck_route`); it was repaired (`fix:` commit on wt-C01RS) and the definitions below
  mirror the REPAIRED code.  `rsFilterpathPinned` keeps the pinned behaviour. -/

/-- peer.go filterPathFromSourcePeer after the fix: the `old.Clone(true)` branch applies to
    route-server clients too (IPv4 unicast: the RTC branch never applies) -/
def rsSrcStage (t : PeerCfg) (path : P) (old : Option Cand) : Option P :=
  if t.rid != path.r.src.rid then some path
  else if !path.wd && (match old with | some o => o.src.addr != some t.addr | none => false) then
    wdOld path old
  else none

/-- server.go filterpath(peer, path, old) with the repaired source stage; the iBGP block and
    the AS-loop block (`!peer.isRouteServerClient() && isASLoop`) are those of Model/World.lean -/
def rsFilterCore (g : Global) (t : PeerCfg) (path : P) (old : Option Cand) : Option P :=
  match ibgpStage g t path old with
  | some res => res
  | none =>
    match rsSrcStage t path old with
    | none => none
    | some p => loopStage t p old

/-- (*BgpServer).filterpath: prePolicyFilterpath (UpdatePathAttrs returns a route-server
    client's path unchanged), export policy (none: accept), postFilterpath (LLGR) -/
def rsFilterpath (g : Global) (t : PeerCfg) (path : P) (old : Option Cand) : Option P :=
  match rsFilterCore g t path old with
  | none => none
  | some p => if !p.wd && !t.llgr && p.r.stale then some ⟨p.r, true⟩ else some p

/-- the filter chain of the pinned tree (before the fix) -/
def rsFilterpathPinned (g : Global) (t : PeerCfg) (path : P) (old : Option Cand) : Option P :=
  World.sFilterpath g t path old

/-- the speaker: `base` holds the neighbour map (ALL peers, route-server clients included), the
    global table, the selection options and the clock; `rsRib` is the table manager shared by
    the route-server clients (per prefix, best first) -/
structure S where
  base  : W
  rsRib : List (Nat × List Cand) := []
deriving Repr, Inhabited

def S.rsRibOf (s : S) (pfx : Nat) : List Cand :=
  match s.rsRib.find? (·.1 == pfx) with
  | some e => e.2
  | none => []

def S.setRsRib (s : S) (pfx : Nat) (l : List Cand) : S :=
  { s with rsRib := (pfx, l) :: s.rsRib.filter (·.1 != pfx) }

/-- what propagateUpdateToNeighbors does for ONE target when the source is a route-server
    client (non ADD-PATH, non secondary-route): skip ordinary peers, skip sessions that are not
    established, take the client-specific (best, old) pair and run the export filters -/
def rsTarget (g : Global) (oldL newL : List Cand) (ps : PeerSt) : PeerSt :=
  if ps.cfg.isRSClient then            -- source.isRouteServerClient() != target.isRouteServerClient() → continue
    if ps.up then                      -- needToAdvertise
      match getChangesFor ps.cfg oldL newL with
      | (some b, old) =>
        match rsFilterpath g ps.cfg b old with
        | some p => { ps with view := viewApply ps.view p 0 }
        | none => ps
      | (none, _) => ps
    else ps
  else ps

/-- propagateUpdateToNeighbors(s.rsRib, source = a route-server client, …) for one destination -/
def rsFanout (s : S) (oldL newL : List Cand) : S :=
  { s with base := { s.base with peers := s.base.peers.map (rsTarget s.base.g oldL newL) } }

/-- `rib.Update(path)` on s.rsRib + fan-out for one path (the region under the prefix bucket) -/
def rsRibUpdate (s : S) (op : Op) (pfx : Nat) : S :=
  let oldL := s.rsRibOf pfx
  let newL := calcStep s.base.opts oldL op
  rsFanout (s.setRsRib pfx newL) oldL newL

/-- propagateUpdate for a route learned from a route-server client: LOCAL_PREF is NOT stripped
    (`!peer.isRouteServerClient()`), the import policy of the client's table id accepts -/
def rsPropagate (s : S) (r : Cand) (withdraw : Bool) : S :=
  rsRibUpdate s (if withdraw then .wd r else .ann r) r.pfx

/-- an UPDATE announcing one route received from established client `idx` -/
def rsRecvAnn (s : S) (idx : Nat) (r0 : Cand) : S :=
  match s.base.peer? idx with
  | none => s
  | some ps =>
    if !ps.up then s else
    let b : W := { s.base with tick := s.base.tick + 1 }
    let r : Cand := { r0 with src := ps.cfg.srcInfo b.g, ts := b.tick }
    let rej := inboundRejected b.g ps.cfg r
    let res := adjAnnounce ps.adj r rej
    let b := b.updPeer idx (fun q => { q with adj := res.1 })
    -- a route rejected by the loop checks replaces whatever was installed for its key
    rsPropagate { s with base := b } res.2 rej

def rsRecvWd (s : S) (idx : Nat) (pfx pathId : Nat) : S :=
  match s.base.peer? idx with
  | none => s
  | some ps =>
    if !ps.up then s else
    let b : W := { s.base with tick := s.base.tick + 1 }
    let r : Cand := { (default : Cand) with src := ps.cfg.srcInfo b.g, pfx := pfx, pathId := pathId, ts := b.tick }
    let adj' := adjWithdraw ps.adj r
    let b := b.updPeer idx (fun q => { q with adj := adj' })
    rsPropagate { s with base := b } r true

/-- one destination of a client's initial table transfer: `GetBestPath(id, as)` (nil when the
    next hop is invalid) through `filterpath(peer, path, nil)` -/
def rsTransferStep (g : Global) (t : PeerCfg) (v : View) (e : Nat × List Cand) : View :=
  match clientBest t e.2 with
  | some b =>
    if b.nhInvalid then v else
    match rsFilterpath g t ⟨b, false⟩ none with
    | some p => viewApply v p 0
    | none => v
  | none => v

/-- getBestFromLocalCallbackLocked for a (non ADD-PATH, non secondary-route) client -/
def rsTransfer (g : Global) (rsRib : List (Nat × List Cand)) (t : PeerCfg) : View :=
  rsRib.foldl (rsTransferStep g t) []

def rsSessionUp (s : S) (idx : Nat) : S :=
  match s.base.peer? idx with
  | none => s
  | some _ =>
    let b : W := { s.base with tick := s.base.tick + 1 }
    { s with base := b.updPeer idx (fun q =>
        { q with up := true, view := rsTransfer b.g s.rsRib q.cfg }) }

/-- PeerDown of a client, not graceful: state published, bookkeeping cleared, Adj-RIB-In dropped
    and every entry withdrawn from s.rsRib with fan-out to the other clients -/
def rsSessionDown (s : S) (idx : Nat) : S :=
  match s.base.peer? idx with
  | none => s
  | some ps =>
    let b : W := { s.base with tick := s.base.tick + 1 }
    let b := b.updPeer idx (fun q => { q with up := false, view := [], adj := {} })
    ps.adj.entries.foldl (fun s e => rsPropagate s e.r true) { s with base := b }

/-- DeletePeer of a client (`deleteNeighbor`): Adj-RIB-In dropped and withdrawn with fan-out
    while the client is still in the neighbour map, then removed (`stopNeighbor`) -/
def rsDelPeer (s : S) (idx : Nat) : S :=
  match s.base.peer? idx with
  | none => s
  | some ps =>
    let b : W := { s.base with tick := s.base.tick + 1 }
    let b := b.updPeer idx (fun q => { q with adj := {} })
    let s := ps.adj.entries.foldl (fun s e => rsPropagate s e.r true) { s with base := b }
    { s with base := { s.base with peers := s.base.peers.filter (fun q => q.cfg.idx != idx) } }

/-- is neighbour `idx` a route-server client? (`peer.isRouteServerClient()`; decides which
    table manager and which fan-out group an event of that neighbour concerns) -/
def S.isRS (s : S) (idx : Nat) : Bool :=
  match s.base.peer? idx with
  | some ps => ps.cfg.isRSClient
  | none => false

/-- one event of the speaker.  Events of ordinary peers, local routes and AddPeer are those of
    Model/World.lean on `base` (whose fan-out skips route-server clients: the same `continue`
    read from the other side); events of a route-server client use the functions above. -/
def step (s : S) : WOp → S
  | .up i => if s.isRS i then rsSessionUp s i else { s with base := sessionUp s.base i }
  | .down i => if s.isRS i then rsSessionDown s i else { s with base := sessionDown s.base i }
  | .ann i r => if s.isRS i then rsRecvAnn s i r else { s with base := recvAnn s.base i r }
  | .wd i p k => if s.isRS i then rsRecvWd s i p k else { s with base := recvWd s.base i p k }
  | .localAdd r => { s with base := localAdd s.base r }
  | .localDel p k => { s with base := localDel s.base p k }
  | .add c => { s with base := addPeer s.base c }
  | .del i => if s.isRS i then rsDelPeer s i else { s with base := delPeer s.base i }

end RouteServer
