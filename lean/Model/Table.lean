/-
C02 (table level) — model of `internal/pkg/table/table.go`: the sharded bucket structure
`Destinations.shards[2048]` = map `tableKey(nlri) → []*destination` with a collision chain per
key, the whole get-or-create / Calculate / delete sequence of `Table.update`, the
`InsertUpdate` path used for result tables, the exact / longer / shorter / host-address lookups of
`Table.Select`, and the summary counters of `Table.Info`.

Core-only Lean.  The hash is a PARAMETER `h : Pfx → Nat` (the real one is FNV-1a 64 over the
address octets and the length octet): every statement proved about this model holds for every
hash function — constant (everything collides), injective (nothing collides) and anything in
between.  The destination content `δ` and the per-destination step are parameters too
(`DestOps`): `Model/BestPath.lean` (C03) and `Lemmas/Adj.lean` (C02) cover what happens INSIDE a
destination; here it is only moved around.  A concrete instance (`TDest`, `locOps`, `adjOps`)
mirrors `destination.Calculate` + `localIdMap` and `AdjRib.Update` for the correspondence run.
-/
namespace Tbl

/-! ## prefixes -/

/-- An IP prefix in canonical (masked) form: address family and the significant bits, most
    significant first.  `bgp.NewIPAddrPrefix` and the wire decoder both mask, and
    `AddrPrefixOnlyCompare` compares address octets + length octet, so two NLRIs are the same
    destination iff they are equal as `Pfx`. -/
structure Pfx where
  fam  : Nat
  bits : List Bool
deriving DecidableEq, Repr

def Pfx.len (p : Pfx) : Nat := p.bits.length

/-- `q.covers p`: `p` lies inside `q` (same family, `q`'s bits are a prefix of `p`'s). -/
def Pfx.covers (q p : Pfx) : Bool := q.fam == p.fam && q.bits.isPrefixOf p.bits

/-- `mustIPAddrPrefix(netip.PrefixFrom(addr, i))`: keep the first `i` bits (NewIPAddrPrefix masks). -/
def Pfx.trunc (p : Pfx) (i : Nat) : Pfx := ⟨p.fam, p.bits.take i⟩

/-! ## the bucket structure -/

/-- one collision chain: `[]*destination` (each destination carries its NLRI) -/
abbrev Chain (δ : Type) := List (Pfx × δ)

/-- the Go map `addrPrefixKey → []*destination`; an association list whose keys are kept
    distinct by `mset` / `mdel` (iteration order of a Go map is unspecified: every observation of
    it is compared up to order).  The 2048 shards are the restriction of this one map to
    `key % 2048 = i` (`shardOf`): the shard is a function of the key, so nothing but locking
    depends on it. -/
abbrev Dests (δ : Type) := List (Nat × Chain δ)

variable {δ : Type}

/-- `for _, dest := range dests { if AddrPrefixOnlyCompare(dest.nlri, nlri) == 0 { return dest } }` -/
def chainFind : Chain δ → Pfx → Option δ
  | [], _ => none
  | (q, d) :: r, p => if q = p then some d else chainFind r p

/-- `shard.mp[key][i] = dest` for the first `i` whose NLRI compares equal (also models the in-place
    mutation of the `*destination` found by `getOrCreateDest`). -/
def chainSet : Chain δ → Pfx → δ → Chain δ
  | [], _, _ => []
  | (q, d) :: r, p, d' => if q = p then (q, d') :: r else (q, d) :: chainSet r p d'

/-- `append(shard.mp[key][:i], shard.mp[key][i+1:]...)` for the first matching `i` -/
def chainErase : Chain δ → Pfx → Chain δ
  | [], _ => []
  | (q, d) :: r, p => if q = p then r else (q, d) :: chainErase r p

/-- Go map read `shard.mp[key]` -/
def mget : Dests δ → Nat → Option (Chain δ)
  | [], _ => none
  | (k', c) :: r, k => if k' = k then some c else mget r k

/-- Go map write `shard.mp[key] = c` -/
def mset : Dests δ → Nat → Chain δ → Dests δ
  | [], k, c => [(k, c)]
  | (k', c') :: r, k, c => if k' = k then (k, c) :: r else (k', c') :: mset r k c

/-- Go `delete(shard.mp, key)` -/
def mdel : Dests δ → Nat → Dests δ
  | [], _ => []
  | (k', c') :: r, k => if k' = k then r else (k', c') :: mdel r k

/-- shard `i` of the 2048 (`d.shards[uint32(key)&(destinationShardCount-1)]`) -/
def shardOf (t : Dests δ) (i : Nat) : Dests δ := t.filter (fun kc => kc.1 % 2048 == i)

/-- `iterateAllDestinations`: every destination of every chain of every bucket -/
def entries (t : Dests δ) : List (Pfx × δ) := t.flatMap (·.2)

/-- the same walk shard by shard, as the Go loop does it -/
def entriesSharded (t : Dests δ) : List (Pfx × δ) :=
  (List.range 2048).flatMap (fun i => entries (shardOf t i))

/-- `Destinations.Get` / `Table.GetDestination` (the snapshot has the same content) -/
def get (h : Pfx → Nat) (t : Dests δ) (p : Pfx) : Option δ :=
  match mget t (h p) with
  | none => none
  | some c => chainFind c p

/-- `Destinations.Get` going through `getShard` first -/
def getSharded (h : Pfx → Nat) (t : Dests δ) (p : Pfx) : Option δ :=
  get h (shardOf t (h p % 2048)) p

/-- `Destinations.InsertUpdate`; the Bool is the reported `collision` -/
def insertUpdate (h : Pfx → Nat) (t : Dests δ) (e : Pfx × δ) : Dests δ × Bool :=
  match mget t (h e.1) with
  | none => (mset t (h e.1) [e], false)
  | some c =>
    match chainFind c e.1 with
    | some _ => (mset t (h e.1) (chainSet c e.1 e.2), false)
    | none => (mset t (h e.1) (c ++ [e]), true)

/-- `NewTable(…, dsts...)` / repeated `setDestination` -/
def fromList (h : Pfx → Nat) (l : List (Pfx × δ)) : Dests δ :=
  l.foldl (fun t e => (insertUpdate h t e).1) []

/-- what `Table.update` needs to know about a destination -/
structure DestOps (δ ρ : Type) where
  /-- `newDestination(nlri, size)` -/
  fresh : Pfx → δ
  /-- `destination.Calculate` (or the inlined list surgery of `AdjRib.Update`) -/
  step : δ → ρ → δ
  /-- `len(dst.knownPathList) == 0` -/
  isEmpty : δ → Bool
  /-- `deleteDest`'s guard: NOT (`len(localIdMap.bitmap) != 0 && count != 1`) -/
  deletable : δ → Bool

variable {ρ : Type}

/-- `Table.getOrCreateDest` -/
def getOrCreate (h : Pfx → Nat) (t : Dests δ) (p : Pfx) (new : δ) : Dests δ × δ :=
  match mget t (h p) with
  | some c =>
    match chainFind c p with
    | some d => (t, d)
    | none => (mset t (h p) (c ++ [(p, new)]), new)
  | none => (mset t (h p) [(p, new)], new)

/-- the destination returned by `getOrCreateDest` is a pointer into the chain; `Calculate`
    mutates it in place -/
def writeBack (h : Pfx → Nat) (t : Dests δ) (p : Pfx) (d : δ) : Dests δ :=
  match mget t (h p) with
  | some c => mset t (h p) (chainSet c p d)
  | none => t

/-- `Table.deleteDest` -/
def deleteDest (O : DestOps δ ρ) (h : Pfx → Nat) (t : Dests δ) (p : Pfx) (d : δ) : Dests δ :=
  if O.deletable d then
    match mget t (h p) with
    | none => t
    | some c =>
      match chainFind c p with
      | none => t
      | some _ =>
        let c' := chainErase c p
        if c'.isEmpty then mdel t (h p) else mset t (h p) c'
  else t

/-- `Table.update` (and the shard-locked body of `AdjRib.Update`) -/
def update (O : DestOps δ ρ) (h : Pfx → Nat) (t : Dests δ) (p : Pfx) (r : ρ) : Dests δ :=
  let gc := getOrCreate h t p (O.fresh p)
  let d' := O.step gc.2 r
  let t1 := writeBack h gc.1 p d'
  if O.isEmpty d' then deleteDest O h t1 p d' else t1

/-- a history of updates / withdrawals on one table, from the empty table -/
def run (O : DestOps δ ρ) (h : Pfx → Nat) (ops : List (Pfx × ρ)) : Dests δ :=
  ops.foldl (fun t o => update O h t o.1 o.2) []

/-! ## the abstract content: a finite map prefix → destination -/

abbrev AMap (δ : Type) := Pfx → Option δ

/-- the content of a bucket structure, read off the iteration (no hash involved) -/
def alookup (t : Dests δ) (p : Pfx) : Option δ := chainFind (entries t) p

def aupdate (O : DestOps δ ρ) (m : AMap δ) (p : Pfx) (r : ρ) : AMap δ :=
  let d' := O.step ((m p).getD (O.fresh p)) r
  fun q => if q = p then (if O.isEmpty d' && O.deletable d' then none else some d') else m q

def arun (O : DestOps δ ρ) (ops : List (Pfx × ρ)) : AMap δ :=
  ops.foldl (fun m o => aupdate O m o.1 o.2) (fun _ => none)

/-- abstract `setDestination` sequence: the last entry for a prefix wins -/
def afromList (l : List (Pfx × δ)) : AMap δ :=
  l.foldl (fun m e => fun q => if q = e.1 then some e.2 else m q) (fun _ => none)

/-! ## lookups (`Table.Select`) -/

/-- the probe sequence of the shorter / host-address loops:
    `for i := n; i >= 0; i-- { nlri := mustIPAddrPrefix(netip.PrefixFrom(addr, i)) … }` -/
def probesFrom (q : Pfx) : Nat → List Pfx
  | 0 => [q.trunc 0]
  | i + 1 => q.trunc (i + 1) :: probesFrom q i

/-- `t.SelectDestination(nlri, dOption)` -/
def selDest (h : Pfx → Nat) (t : Dests δ) (sel : δ → Option δ) (p : Pfx) : Option (Pfx × δ) :=
  match get h t p with
  | none => none
  | some d =>
    match sel d with
    | none => none
    | some d' => some (p, d')

/-- default option with a prefix key -/
def selExact (h : Pfx → Nat) (t : Dests δ) (sel : δ → Option δ) (q : Pfx) : List (Pfx × δ) :=
  (selDest h t sel q).toList

/-- `LOOKUP_SHORTER`: probes every length from the requested one down to 0, including 0 -/
def selShorter (h : Pfx → Nat) (t : Dests δ) (sel : δ → Option δ) (q : Pfx) : List (Pfx × δ) :=
  (probesFrom q q.len).filterMap (selDest h t sel)

/-- default option with a bare host address: longest match, first probe with a non-nil selection -/
def selHost (h : Pfx → Nat) (t : Dests δ) (sel : δ → Option δ) (a : Pfx) : List (Pfx × δ) :=
  ((probesFrom a a.len).findSome? (selDest h t sel)).toList

/-- `LOOKUP_LONGER`: `GetLongerPrefixDestinations` puts every destination into a trie and asks for
    the subnets of the (masked) key: all destinations the key covers; then `dst.Select` -/
def selLonger (t : Dests δ) (sel : δ → Option δ) (q : Pfx) : List (Pfx × δ) :=
  ((entries t).filter (fun e => q.covers e.1)).filterMap
    (fun e => match sel e.2 with | none => none | some d' => some (e.1, d'))

/-- no lookup prefix at all: every destination with a non-nil selection -/
def selAll (t : Dests δ) (sel : δ → Option δ) : List (Pfx × δ) :=
  (entries t).filterMap (fun e => match sel e.2 with | none => none | some d' => some (e.1, d'))

inductive Lookup where
  | exact | longer | shorter | host
deriving DecidableEq, Repr

def selQuery (h : Pfx → Nat) (t : Dests δ) (sel : δ → Option δ) (q : Lookup × Pfx) : List (Pfx × δ) :=
  match q.1 with
  | .exact => selExact h t sel q.2
  | .longer => selLonger t sel q.2
  | .shorter => selShorter h t sel q.2
  | .host => selHost h t sel q.2

/-- `Table.Select` for the IPv4/IPv6 unicast families: a new table filled by `setDestination` -/
def select (h : Pfx → Nat) (t : Dests δ) (sel : δ → Option δ) (qs : List (Lookup × Pfx)) : Dests δ :=
  if qs.isEmpty then fromList h (selAll t sel)
  else fromList h (qs.flatMap (selQuery h t sel))

/-! ## summary counters (`Table.Info`) -/

structure Info where
  numDestination : Nat
  numPath : Nat
  numCollision : Nat
deriving DecidableEq, Repr

/-- inner loop of `Info` over one chain; `n d` = `len(d.GetKnownPathList(id, as))` -/
def infoChain (n : δ → Nat) : Chain δ → Nat × Nat
  | [] => (0, 0)
  | (_, d) :: r =>
    let ab := infoChain n r
    if n d ≠ 0 then (ab.1 + 1, ab.2 + n d) else ab

/-- `Table.Info` -/
def info (n : δ → Nat) : Dests δ → Info
  | [] => ⟨0, 0, 0⟩
  | (_, c) :: r =>
    let i := info n r
    let ab := infoChain n c
    ⟨i.numDestination + ab.1, i.numPath + ab.2,
     i.numCollision + (if c.length > 1 then c.length - 1 else 0)⟩

/-! ## whole-table path listings (`Table.Bests`, `Table.GetKnownPathList`) -/

/-- `Table.Bests(id, as)` / `TableManager.GetBestPathList`: the best path of every destination
    that has one under the view; `best d` = `dest.GetBestPath(id, as)` -/
def bests {π : Type} (best : δ → Option π) (t : Dests δ) : List (Pfx × π) :=
  (entries t).filterMap (fun e => match best e.2 with | none => none | some x => some (e.1, x))

/-- `Table.GetKnownPathList(id, as)` / `TableManager.GetPathList`: `paths d` = `dest.GetKnownPathList(id, as)` -/
def allPaths {π : Type} (paths : δ → List π) (t : Dests δ) : List (Pfx × π) :=
  (entries t).flatMap (fun e => (paths e.2).map (fun x => (e.1, x)))

/-! ## a concrete destination for the correspondence run -/

/-- what the harness can see of a `*Path`.  `src` is the IDENTITY of the source: the harness numbers
    its `PeerInfo`s so that two numbers are equal iff the PeerInfos agree in every field
    `PeerInfo.Equal` compares (AS, router id, local id, address INCLUDING the IPv6 zone); `addr` numbers
    the address strings (`Address.String()`), which is what the route-server view filter compares. -/
structure TPath where
  src  : Nat        -- source peer (index of the PeerInfo)
  rid  : Nat        -- remote (received) path id
  rank : Nat        -- LOCAL_PREF, unique per announcement in the harness: decides `insertSort`
  tag  : Nat        -- identity of the announcement
  lid  : Nat        -- local path id
  rej  : Bool       -- rejected flag (Adj-RIB-In)
  addr : Nat := 0   -- class of the source's address string (route-server view filter)
  stale : Bool := false -- `originInfo.stale` (Adj-RIB-In, graceful restart)
  attr : Nat := 0   -- an attribute the decision process ignores (a community): `Path.Equal` sees it, `Compare` does not
deriving DecidableEq, Repr

structure TDest where
  paths : List TPath
  ids   : List Nat      -- flagged bits of localIdMap
  sized : Bool          -- `mapSize != 0` (Loc-RIB destinations: 64; Adj-RIB and snapshots: 0)
deriving DecidableEq, Repr

inductive TOp where
  | ann (p : TPath)
  | wd (src rid : Nat) (dropped : Bool)
deriving Repr

def TPath.sameKey (a : TPath) (src rid : Nat) : Bool := a.src == src && a.rid == rid

/-- index of the LAST path matching (source, path-id): `explicitWithdraw` keeps overwriting `isFound` -/
def lastIdx (l : List TPath) (src rid : Nat) : Option Nat :=
  (l.zipIdx.foldl (fun acc (x : TPath × Nat) => if x.1.sameKey src rid then some x.2 else acc) none)

/-- `sort.Search` position for a total strict order given by the unique rank: before the first
    path the new one is better than (higher LOCAL_PREF wins; C03 covers the full comparator) -/
def insertByRank (l : List TPath) (x : TPath) : List TPath :=
  match l with
  | [] => [x]
  | y :: r => if y.rank < x.rank then x :: y :: r else y :: insertByRank r x

/-- `Bitmap.FindandSetZeroBit` (+ `Expand` when full): lowest clear bit -/
def firstFree (ids : List Nat) : Nat :=
  ((List.range (ids.length + 1)).find? (fun i => !ids.contains i)).getD ids.length

/-- the id-allocation loop at the end of `Calculate` -/
def allocIds : List TPath → List Nat → List TPath × List Nat
  | [], ids => ([], ids)
  | p :: r, ids =>
    if p.lid = 0 then
      let id := firstFree ids
      let rr := allocIds r (id :: ids)
      ({ p with lid := id } :: rr.1, rr.2)
    else
      let rr := allocIds r ids
      (p :: rr.1, rr.2)

/-- `destination.Calculate` -/
def locCalc (d : TDest) : TOp → TDest
  | .wd src rid dropped =>
    -- explicitWithdraw
    let d1 : TDest :=
      match lastIdx d.paths src rid with
      | none => d
      | some i =>
        let old := d.paths[i]?
        let ids := match old with
          | some o => if dropped && o.lid != 0 then d.ids.erase o.lid else d.ids
          | none => d.ids
        { d with paths := d.paths.eraseIdx i, ids := ids }
    let a := allocIds d1.paths d1.ids
    { d1 with paths := a.1, ids := a.2 }
  | .ann p =>
    -- implicitWithdraw: first match, the new path inherits its local id
    let (rest, lid) :=
      match d.paths.findIdx? (fun x => x.sameKey p.src p.rid) with
      | none => (d.paths, p.lid) -- `newPath.localID` is left as it is (non-zero when the object was in the table before)
      | some i => (d.paths.eraseIdx i, ((d.paths[i]?).map (·.lid)).getD 0)
    let l := insertByRank rest { p with lid := lid }
    let a := allocIds l d.ids
    { d with paths := a.1, ids := a.2 }

/-- Loc-RIB tables: `getOrCreateDest(shard, nlri, 64)`; bit 0 is flagged at creation -/
def locOps : DestOps TDest TOp where
  fresh := fun _ => ⟨[], [0], true⟩
  step := locCalc
  isEmpty := fun d => d.paths.isEmpty
  deletable := fun d => !d.sized || d.ids.length == 1

/-- the list surgery of `AdjRib.Update` (keyed by the remote path id only: one peer) -/
def adjCalc (d : TDest) : TOp → TDest
  | .wd _ rid _ =>
    match d.paths.findIdx? (fun x => x.rid == rid) with
    | none => d
    | some i => { d with paths := d.paths.eraseIdx i }
  | .ann p =>
    match d.paths.findIdx? (fun x => x.rid == p.rid) with
    | none => { d with paths := d.paths ++ [p] }
    | some i => { d with paths := d.paths.set i p }

/-- Adj-RIB tables: `getOrCreateDest(shard, nlri, 0)`: no local-id bitmap, always deletable -/
def adjOps : DestOps TDest TOp where
  fresh := fun _ => ⟨[], [], false⟩
  step := adjCalc
  isEmpty := fun d => d.paths.isEmpty
  deletable := fun d => !d.sized || d.ids.length == 1

/-- change of `AdjRib.accepted[rf]` made by one `AdjRib.Update` step on destination `d` -/
def adjAccDelta (d : TDest) : TOp → Int
  | .wd _ rid _ =>
    match d.paths.find? (fun x => x.rid == rid) with
    | none => 0
    | some o => if o.rej then 0 else -1
  | .ann p =>
    match d.paths.find? (fun x => x.rid == p.rid) with
    | none => if p.rej then 0 else 1
    | some o => if o.rej && !p.rej then 1 else if !o.rej && p.rej then -1 else 0

/-! ### the multipath set and its notification stream (`getMultiBestPath`, `Update.GetMultiBestPathDiff`) -/

/-- what `Path.Compare` looks at in the harness's paths: LOCAL_PREF, carried in the upper part of
    `rank` (the lower 32 bits order equal-cost paths by age, which `Compare` ignores) -/
def TPath.cost (x : TPath) : Nat := x.rank / 4294967296

/-- `getMultiBestPath`: the best path and the run of paths after it that compare equal to it -/
def multiBest : List TPath → List TPath
  | [] => []
  | b :: r => b :: r.takeWhile (fun x => x.cost == b.cost)

/-- `n.EqualBySourceAndPathID(o)` -/
def TPath.keyEq (a b : TPath) : Bool := a.src == b.src && a.rid == b.rid

/-- the attributes of a path as `Path.Equal` sees them in the harness: LOCAL_PREF and the community -/
def TPath.val (x : TPath) : Nat × Nat := (x.cost, x.attr)

/-- `n.Equal(o)` for two paths of one source: same attributes -/
def TPath.attrEq (a b : TPath) : Bool := a.val == b.val

/-- the `update` list of `GetMultiBestPathDiff`: a new member is announced unless the FIRST old
    member with its (source, path-id) has the same attributes -/
def mpUpdate (old new : List TPath) : List TPath :=
  new.filter (fun n => match old.find? (fun o => n.keyEq o) with
    | none => true
    | some o => !n.attrEq o)

/-- the `withdraw` list: old members whose `matchedOld` flag stayed false.  A new member flags the
    first old member with its key; `seen` = the old members before the current one. -/
def mpWithdrawFrom (new : List TPath) : List TPath → List TPath → List TPath
  | _, [] => []
  | seen, o :: r =>
    let first := !(seen.any (fun s => s.keyEq o))
    let matched := first && new.any (fun n => n.keyEq o)
    (if matched then [] else [o]) ++ mpWithdrawFrom new (seen ++ [o]) r

def mpWithdraw (old new : List TPath) : List TPath := mpWithdrawFrom new [] old

/-- `Update.GetMultiBestPathDiff` on the path lists before and after one `Calculate` -/
def mpDiff (oldList newList : List TPath) : List TPath × List TPath :=
  (mpUpdate (multiBest oldList) (multiBest newList), mpWithdraw (multiBest oldList) (multiBest newList))

/-- a consumer of the multipath stream (FIB, watcher): (source, path-id) → attributes, for one prefix -/
abbrev MpConsumer := Nat × Nat → Option (Nat × Nat)

/-- applying one notification: the withdrawals remove their key, the updates set theirs -/
def mpApply (c : MpConsumer) (d : List TPath × List TPath) : MpConsumer :=
  fun k => match d.1.find? (fun n => (n.src, n.rid) == k) with
    | some n => some n.val
    | none => if d.2.any (fun o => (o.src, o.rid) == k) then none else c k

/-- what a consumer should hold for a multipath set -/
def mpView (m : List TPath) : MpConsumer :=
  fun k => (m.find? (fun n => (n.src, n.rid) == k)).map (·.val)

/-! ### the multipath report of `Update.GetChanges` (third result: the watcher's MultiPathList) -/

/-- what `Path.Equal` compares: source and attributes — NOT the path id -/
def TPath.sig (x : TPath) : Nat × Nat × Nat := (x.src, x.cost, x.attr)

/-- the local helper `diff` of `GetChanges`: lengths differ, or some position holds a path that is
    not `Equal` to the one that was there -/
def mpChanged : List TPath → List TPath → Bool
  | [], [] => false
  | a :: r, b :: r' => a.sig != b.sig || mpChanged r r'
  | _, _ => true

/-- the third result of `GetChanges`: the new multipath set when it differs from the old one
    (`none` = nil = "unchanged") -/
def multiReport (oldList newList : List TPath) : Option (List TPath) :=
  if mpChanged (multiBest oldList) (multiBest newList) then some (multiBest newList) else none

/-! ### partial operations of a multi-family Adj-RIB-In (each works on ONE table of the AdjRib) -/

/-- `walkActive` with an in-place rewrite of every destination (`AdjRib.StaleAll`) -/
def mapDests (f : δ → δ) (t : Dests δ) : Dests δ :=
  t.map (fun kc => (kc.1, kc.2.map (fun e => (e.1, f e.2))))

/-- `AdjRib.StaleAll` on one family: every stored path is replaced by a clone marked stale -/
def adjStaleAll (t : Dests TDest) : Dests TDest :=
  mapDests (fun d => { d with paths := d.paths.map (fun x => { x with stale := true }) }) t

/-- the withdrawals `AdjRib.DropStale` builds from its walk -/
def staleWds (t : Dests TDest) : List (Pfx × TOp) :=
  (entries t).flatMap (fun e => (e.2.paths.filter (·.stale)).map (fun x => (e.1, TOp.wd x.src x.rid true)))

/-- `AdjRib.DropStale` on one family: `adj.Update(pathList)` with those withdrawals; the second
    component is the change of `accepted[rf]` -/
def adjDropStale (h : Pfx → Nat) (t : Dests TDest) : Dests TDest × Int :=
  (staleWds t).foldl
    (fun acc o =>
      let old := (get h acc.1 o.1).getD (adjOps.fresh o.1)
      (update adjOps h acc.1 o.1 o.2, acc.2 + adjAccDelta old o.2))
    (t, 0)

/-- a multi-family Adj-RIB-In (`AdjRib.table` + `AdjRib.accepted`): per family the table and the
    accepted counter -/
abbrev AdjRibM := List (Nat × (Dests TDest × Int))

def AdjRibM.fam (a : AdjRibM) (f : Nat) : Option (Dests TDest × Int) :=
  match a with
  | [] => none
  | x :: r => if x.1 = f then some x.2 else AdjRibM.fam r f

/-- `for _, rf := range rfList { … adj.table[rf] … adj.accepted[rf] … }`: an operation restricted to
    the families named -/
def adjOn (fams : List Nat) (g : Dests TDest × Int → Dests TDest × Int) (a : AdjRibM) : AdjRibM :=
  a.map (fun x => if fams.contains x.1 then (x.1, g x.2) else x)

/-- `AdjRib.Drop(rfList)`: new table and counter 0 for the families named, only -/
def adjRibDrop (fams : List Nat) (a : AdjRibM) : AdjRibM := adjOn fams (fun _ => ([], 0)) a

/-- `AdjRib.StaleAll(rfList)` -/
def adjRibStaleAll (fams : List Nat) (a : AdjRibM) : AdjRibM :=
  adjOn fams (fun x => (adjStaleAll x.1, x.2)) a

/-- `AdjRib.DropStale(rfList)` -/
def adjRibDropStale (h : Pfx → Nat) (fams : List Nat) (a : AdjRibM) : AdjRibM :=
  adjOn fams (fun x => ((adjDropStale h x.1).1, x.2 + (adjDropStale h x.1).2)) a

/-- options of `destination.Select` that the harness uses -/
structure SelOpt where
  view : Nat      -- 0 = global; otherwise the source whose own paths are filtered (`rsFilter`)
  adj  : Bool
  best : Bool
deriving Repr

/-- `destination.GetKnownPathList(id, as)`: `rsFilter` drops the paths whose source ADDRESS (as a
    string) is the view's id — every source with that address, whatever its AS or router id -/
def viewPaths (view : Nat) (d : TDest) : List TPath :=
  if view = 0 then d.paths else d.paths.filter (fun x => x.addr != view)

/-- `destination.Select` (the result is a snapshot-like destination: map size 0) -/
def tsel (o : SelOpt) (d : TDest) : Option TDest :=
  if o.adj then some ⟨d.paths, [], false⟩
  else
    let ps := viewPaths o.view d
    if ps.isEmpty then none
    else if o.best then some ⟨ps.take 1, [], false⟩
    else some ⟨ps, [], false⟩

end Tbl
