import Model.Wire
/-
  C04 extension: the multiprotocol attributes MP_REACH_NLRI / MP_UNREACH_NLRI of gobgp's codec
  (pkg/packet/bgp/bgp.go) for IPv4 / IPv6 × {unicast, multicast, labelled unicast, VPN, VPN multicast}.
  Modelled exactly: IPAddrPrefixDefault.decodePrefix / serializePrefix for both address widths,
  MPLSLabelStack (bottom-of-stack bit, the 0x800000 / 0x000000 withdraw-label conventions),
  RouteDistinguisher types 0/1/2/unknown, LabeledIPAddrPrefix, LabeledVPNIPAddrPrefix, NLRIFromSlice's
  dispatch for these families, PathNLRI.toSlice with the per-family ADD-PATH map,
  PathAttributeMpReachNLRI (AFI/SAFI, next-hop length 4/16/32 and the VPN forms 12/24/48 with the RD,
  reserved octet, NLRI loop advanced by Len()) and PathAttributeMpUnreachNLRI, and the two constructors.
  Every other family answers `unmodelled`.  Builds on Model/Wire.lean (header, flags, prefixes).
-/
namespace Wire

/-- one entry of MarshallingOption.AddPath: family ↦ (RECEIVE bit, SEND bit) -/
structure FamAp where
  afi  : Nat
  safi : Nat
  rx   : Bool
  tx   : Bool
deriving Repr, DecidableEq

/-- MarshallingOption with the whole AddPath map (IPv4 unicast stays in `base`) -/
structure OptsX where
  base : Opts
  fams : List FamAp
deriving Repr, DecidableEq

def famLookup (fams : List FamAp) (afi safi : Nat) : Option FamAp :=
  fams.find? (fun f => f.afi == afi && f.safi == safi)

/-- IsAddPathEnabled(decode = true, NewFamily(afi, safi), options) -/
def apRxFor (o : OptsX) (afi safi : Nat) : Bool :=
  if afi = 1 ∧ safi = 1 then o.base.apRx
  else match famLookup o.fams afi safi with
    | some f => f.rx
    | none => false

/-- IsAddPathEnabled(decode = false, …) -/
def apTxFor (o : OptsX) (afi safi : Nat) : Bool :=
  if afi = 1 ∧ safi = 1 then o.base.apTx
  else match famLookup o.fams afi safi with
    | some f => f.tx
    | none => false

/-! ## prefixes of either address width -/

/-- IPAddrPrefixDefault.decodePrefix(data, bitlen, addrlen = w), w ∈ {4, 16} -/
def decodePrefixW (w : Nat) (data : Bytes) (bitlen : Nat) : Option Prefix :=
  if data.length < byteLen bitlen then none
  else if bitlen > w * 8 then none
  else some ⟨bitlen, maskLast bitlen (data.take (byteLen bitlen) ++ List.replicate (w - byteLen bitlen) 0)⟩

/-- NewIPAddrPrefix's post-condition for width w: ≤ 8w bits, w octets, host bits clear -/
def Prefix.wfW (w : Nat) (p : Prefix) : Bool :=
  p.bits ≤ w * 8 && p.addr.length == w &&
  decide (maskLast p.bits (p.addr.take (byteLen p.bits) ++ List.replicate (w - byteLen p.bits) 0) = p.addr)

/-- IPAddrPrefix.decodeFromBytes(data, addrlen = w) -/
def decPrefixW (w : Nat) (data : Bytes) : Option Prefix :=
  match data with
  | [] => none
  | l :: rest => decodePrefixW w rest l

/-! ## MPLS label stacks -/

def WITHDRAW_LABEL : Nat := 0x800000

/-- the three octets of `label << 4` -/
def encLabel (l : Nat) : Bytes := [l * 16 / 65536 % 256, l * 16 / 256 % 256, l * 16 % 256]

/-- the shifted labels with `buf[len-1] |= 1` -/
def encLabelsRaw : List Nat → Bytes
  | [] => []
  | [l] => [l * 16 / 65536 % 256, l * 16 / 256 % 256, Nat.lor (l * 16 % 256) 1]
  | l :: ls => encLabel l ++ encLabelsRaw ls

/-- MPLSLabelStack.Serialize: a WITHDRAW_LABEL anywhere makes it return 80 00 00 at once.
    (An empty stack is an error in Go; it is excluded by every well-formedness predicate here
    and never built by the harness; the model gives the empty string.) -/
def encLabels (ls : List Nat) : Bytes :=
  if ls.any (· == WITHDRAW_LABEL) then [128, 0, 0] else encLabelsRaw ls

/-- MPLSLabelStack.Len -/
def labelsLen (ls : List Nat) : Nat := 3 * ls.length

inductive Scan where
  | wd (raw : Nat)
  | run (ls : List Nat) (found : Bool)
deriving Repr, DecidableEq

/-- the loop of MPLSLabelStack.DecodeFromBytes; `be` = bottomExpected -/
def scanLabels (be : Bool) : Nat → Bytes → Scan
  | 0, _ => .run [] false
  | fuel + 1, d =>
    if d.length < 3 then .run [] false
    else
      let label := (d.getD 0 0 * 256 + d.getD 1 0) * 256 + d.getD 2 0
      if label = WITHDRAW_LABEL || label = 0 then .wd label
      else if !be then .run [label / 16] true
      else if label % 2 = 1 then .run [label / 16] true
      else
        match scanLabels be fuel (d.drop 3) with
        | .wd r => .wd r
        | .run ls found => .run (label / 16 :: ls) found

/-- MPLSLabelStack.DecodeFromBytes: `none` = "missing bottom-of-stack bit" -/
def decLabels (be : Bool) (d : Bytes) : Option (List Nat) :=
  match scanLabels be d.length d with
  | .wd r => some [r]
  | .run ls true => some ls
  | .run [] false => some []
  | .run (_ :: _) false => none

/-! ## route distinguishers -/

inductive RD where
  | as2 (admin assigned : Nat)        -- type 0: 2-octet AS : 4-octet number
  | ip4 (admin assigned : Nat)        -- type 1: IPv4 address : 2-octet number
  | as4 (admin assigned : Nat)        -- type 2: 4-octet AS : 2-octet number
  | unknown (typ : Nat) (value : Bytes)
deriving Repr, DecidableEq

/-- RouteDistinguisherX.Serialize (8 octets; the unknown type copies at most 6 value octets) -/
def encRD : RD → Bytes
  | .as2 a b => be16 0 ++ (be16 a ++ be32 b)
  | .ip4 a b => be16 1 ++ (be32 a ++ be16 b)
  | .as4 a b => be16 2 ++ (be32 a ++ be16 b)
  | .unknown t v => be16 t ++ (v.take 6 ++ List.replicate (6 - v.length) 0)

/-- GetRouteDistinguisher (data has at least 8 octets) -/
def decRD (d : Bytes) : RD :=
  let typ := rd16 d
  if typ = 0 then .as2 (rd16 (d.drop 2)) (rd32 (d.drop 4))
  else if typ = 1 then .ip4 (rd32 (d.drop 2)) (rd16 (d.drop 6))
  else if typ = 2 then .as4 (rd32 (d.drop 2)) (rd16 (d.drop 6))
  else .unknown typ ((d.drop 2).take 6)

/-! ## NLRI of the modelled families -/

inductive NlriX where
  | ip (p : Prefix)
  | labelled (labels : List Nat) (p : Prefix)
  | vpn (labels : List Nat) (rd : RD) (p : Prefix)
deriving Repr, DecidableEq

inductive Kind where
  | ip | labelled | vpn
deriving Repr, DecidableEq

/-- NLRIFromSlice's switch, for the modelled families: codec and address width -/
def famKind (afi safi : Nat) : Option (Kind × Nat) :=
  if afi ≠ 1 ∧ afi ≠ 2 then none
  else
    let w := if afi = 2 then 16 else 4
    if safi = 1 ∨ safi = 2 then some (.ip, w)
    else if safi = 4 then some (.labelled, w)
    else if safi = 128 ∨ safi = 129 then some (.vpn, w)
    else none

/-- IPAddrPrefixDefault.serializePrefix -/
def serPrefix (p : Prefix) : Bytes := p.addr.take (byteLen p.bits)

/-- X.Serialize; the bit-length octet is `uint8(bits)` -/
def encNlriX : NlriX → Bytes
  | .ip p => encPrefix p
  | .labelled ls p => ((8 * labelsLen ls + p.bits) % 256) :: (encLabels ls ++ serPrefix p)
  | .vpn ls rd p => ((8 * (labelsLen ls + 8) + p.bits) % 256) :: (encLabels ls ++ (encRD rd ++ serPrefix p))

/-- X.Len (LabeledIPAddrPrefix computes `(IPPrefixLen()+7)/8` in uint8) -/
def nlriXLen : NlriX → Nat
  | .ip p => prefixLen p
  | .labelled ls p => 1 + labelsLen ls + (p.bits % 256 + 7) % 256 / 8
  | .vpn ls _ p => 1 + labelsLen ls + 8 + (p.bits % 256 + 7) / 8

/-- LabeledIPAddrPrefix.decodeFromBytes(data, addrlen = w) -/
def decLabelled (w : Nat) (data : Bytes) : Option NlriX :=
  match data with
  | [] => none
  | bits :: rest =>
    if rest.length < byteLen bits then none
    else
      let d := rest.take (byteLen bits)
      match decLabels true d with
      | none => none
      | some ls =>
        if ls.length = 0 then none
        else if bits < 8 * labelsLen ls then none
        else if d.length < labelsLen ls then none
        else
          match decodePrefixW w (d.drop (labelsLen ls)) ((bits - 8 * labelsLen ls) % 256) with
          | none => none
          | some p => some (.labelled ls p)

/-- LabeledVPNIPAddrPrefix.decodeFromBytes(data, addrlen = w) -/
def decVpn (w : Nat) (data : Bytes) : Option NlriX :=
  match data with
  | [] => none
  | bits :: rest =>
    if rest.length < byteLen bits then none
    else
      let d := rest.take (byteLen bits)
      match decLabels true d with
      | none => none
      | some ls =>
        if bits < 8 * labelsLen ls then none
        else if d.length < labelsLen ls + 8 then none
        else
          let d1 := d.drop (labelsLen ls)
          let rd := decRD d1
          -- uint8(bits - 8*(labels + RD)): may wrap when the declared length stops inside the RD
          match decodePrefixW w (d1.drop 8) ((bits + 256 - 8 * (labelsLen ls + 8)) % 256) with
          | none => none
          | some p => some (.vpn ls rd p)

/-- NLRIFromSlice for a modelled family -/
def decNlriX (k : Kind) (w : Nat) (data : Bytes) : Option NlriX :=
  match k with
  | .ip => (decPrefixW w data).map .ip
  | .labelled => decLabelled w data
  | .vpn => decVpn w data

/-- PathNLRI{NLRI, ID} -/
structure PathNlriX where
  id : Nat
  n  : NlriX
deriving Repr, DecidableEq

/-- PathNLRI.toSlice(isAddPath) -/
def encPathNlriX (ap : Bool) (x : PathNlriX) : Bytes :=
  (if ap then be32 x.id else []) ++ encNlriX x.n

def encPathNlrisX (ap : Bool) : List PathNlriX → Bytes
  | [] => []
  | x :: xs => encPathNlriX ap x ++ encPathNlrisX ap xs

/-- the `for len(value) > 0 { id; NLRIFromSlice; value = value[prefix.Len():] }` loop shared by
    MP_REACH and MP_UNREACH -/
def decNlriLoop (ap : Bool) (k : Kind) (w : Nat) : Nat → Bytes → Option (List PathNlriX)
  | 0, v => if v.length = 0 then some [] else none
  | fuel + 1, v =>
    if v.length = 0 then some []
    else
      match rdPathId ap v with
      | none => none
      | some (id, v1) =>
        match decNlriX k w v1 with
        | none => none
        | some n =>
          if v1.length < nlriXLen n then none
          else
            match decNlriLoop ap k w fuel (v1.drop (nlriXLen n)) with
            | none => none
            | some xs => some (⟨id, n⟩ :: xs)

/-! ## the two attributes -/

/-- PathAttributeMpReachNLRI: cached header, AFI/SAFI, Nexthop / LinkLocalNexthop as octet strings
    ([] = the invalid netip.Addr), NLRI list -/
structure MpReach where
  flags  : Nat
  length : Nat
  afi    : Nat
  safi   : Nat
  nh     : Bytes
  ll     : Bytes
  nlri   : List PathNlriX
deriving Repr, DecidableEq

structure MpUnreach where
  flags  : Nat
  length : Nat
  afi    : Nat
  safi   : Nat
  nlri   : List PathNlriX
deriving Repr, DecidableEq

def v4mapped : Bytes := [0, 0, 0, 0, 0, 0, 0, 0, 0, 0, 255, 255]

/-- netip.Addr.As16 of a 4- or 16-octet address -/
def as16 (a : Bytes) : Bytes := if a.length = 4 then v4mapped ++ a else a

/-- netip.Addr.IsValid && IsLinkLocalUnicast (4-in-6 addresses are unmapped first) -/
def isLinkLocal (a : Bytes) : Bool :=
  if a.length = 4 then a.getD 0 0 = 169 && a.getD 1 0 = 254
  else if a.length = 16 then
    if a.take 12 = v4mapped then a.getD 12 0 = 169 && a.getD 13 0 = 254
    else a.getD 0 0 = 254 && a.getD 1 0 / 64 = 2
  else false

/-- the next hop field (length octet excluded) as PathAttributeMpReachNLRI.Serialize builds it -/
def encNexthop (afi safi : Nat) (nh ll : Bytes) : Bytes :=
  let addrs : List Bytes :=
    if nh.length ≠ 0 && (afi = 2 || nh.length = 16) then
      (if isLinkLocal ll then [as16 nh, as16 ll] else [as16 nh])
    else if nh.length ≠ 0 then [nh]
    else []
  if safi = 133 ∨ safi = 134 then []
  else if safi = 128 then addrs.flatMap (fun a => List.replicate 8 0 ++ a)
  else addrs.flatMap id

/-- the value octets PathAttributeMpReachNLRI.Serialize hands to PathAttribute.Serialize -/
def encMpReachVal (o : OptsX) (r : MpReach) : Bytes :=
  be16 r.afi ++ [r.safi % 256] ++
  ([(encNexthop r.afi r.safi r.nh r.ll).length % 256] ++ encNexthop r.afi r.safi r.nh r.ll) ++
  [0] ++ encPathNlrisX (apTxFor o r.afi r.safi) r.nlri

def encMpReach (o : OptsX) (r : MpReach) : Bytes := encAttrHdr r.flags 14 (encMpReachVal o r)

def encMpUnreachVal (o : OptsX) (u : MpUnreach) : Bytes :=
  be16 u.afi ++ [u.safi % 256] ++ encPathNlrisX (apTxFor o u.afi u.safi) u.nlri

def encMpUnreach (o : OptsX) (u : MpUnreach) : Bytes := encAttrHdr u.flags 15 (encMpUnreachVal o u)

/-- the two `switch nexthoplen` blocks of PathAttributeMpReachNLRI.DecodeFromBytes:
    `some (nh, ll)` or `none` (error) -/
def decNexthop (safi : Nat) (nexthoplen : Nat) (bin : Bytes) : Option (Bytes × Bytes) :=
  let (len1, bin1) : Nat × Bytes :=
    if nexthoplen = 48 then (32, (bin.take 24 ++ bin.drop 32).drop 8)
    else if nexthoplen = 12 ∨ nexthoplen = 24 then (nexthoplen - 8, bin.drop 8)
    else (nexthoplen, bin)
  if len1 = 0 then
    (if safi ≠ 133 ∧ safi ≠ 134 ∧ safi ≠ 241 then none else some ([], []))
  else if len1 = 32 then some (bin1.take 16, (bin1.drop 16).take 16)
  else if len1 = 16 then some (bin1.take 16, [])
  else if len1 = 4 then some (bin1.take 4, [])
  else none

inductive DecX (α : Type) where
  | ok (a : α)
  | err
  | unmodelled
deriving Repr, DecidableEq

/-- PathAttributeMpReachNLRI.DecodeFromBytes after the common header, non-MRT -/
def decMpReachVal (o : OptsX) (flags length : Nat) (value : Bytes) : DecX MpReach :=
  if length < 3 then .err
  else
    let afi := rd16 value
    let safi := value.getD 2 0
    let v := value.drop 3
    if v.length < 1 then .err
    else
      let nexthoplen := v.getD 0 0
      if v.length < 1 + nexthoplen then .err
      else
        let bin := (v.drop 1).take nexthoplen
        let v2 := v.drop (1 + nexthoplen)
        match decNexthop safi nexthoplen bin with
        | none => .err
        | some (nh, ll) =>
          if v2.length = 0 then .err
          else
            match famKind afi safi with
            | none => .unmodelled
            | some (k, w) =>
              match decNlriLoop (apRxFor o afi safi) k w (v2.drop 1).length (v2.drop 1) with
              | none => .err
              | some xs => .ok ⟨flags, length, afi, safi, nh, ll, xs⟩

def decMpUnreachVal (o : OptsX) (flags length : Nat) (value : Bytes) : DecX MpUnreach :=
  if length < 3 then .err
  else
    let afi := rd16 value
    let safi := value.getD 2 0
    match famKind afi safi with
    | none => .unmodelled
    | some (k, w) =>
      match decNlriLoop (apRxFor o afi safi) k w (value.drop 3).length (value.drop 3) with
      | none => .err
      | some xs => .ok ⟨flags, length, afi, safi, xs⟩

/-- an attribute of the extended model -/
inductive AttrX where
  | core (a : Attr)
  | reach (r : MpReach)
  | unreach (u : MpUnreach)
deriving Repr, DecidableEq

def encAttrX (o : OptsX) : AttrX → Bytes
  | .core a => encAttr a
  | .reach r => encMpReach o r
  | .unreach u => encMpUnreach o u

/-- PathAttribute.Len of each -/
def attrXLen : AttrX → Nat
  | .core a => attrLen a
  | .reach r => (if hasBit r.flags FLAG_EXT then 4 else 3) + r.length
  | .unreach u => (if hasBit u.flags FLAG_EXT then 4 else 3) + u.length

/-- GetPathAttribute + DecodeFromBytes with the two MP types handled -/
def decAttrX (o : OptsX) (data : Bytes) : DecX AttrX :=
  match decAttrHdr data with
  | none => .err
  | some (flags, typ, length, value) =>
    if typ = 14 then
      match decMpReachVal o flags length value with
      | .ok r => .ok (.reach r)
      | .err => .err
      | .unmodelled => .unmodelled
    else if typ = 15 then
      match decMpUnreachVal o flags length value with
      | .ok u => .ok (.unreach u)
      | .err => .err
      | .unmodelled => .unmodelled
    else
      match decVal o.base typ length value with
      | none => .unmodelled
      | some none => .err
      | some (some v) => .ok (.core ⟨flags, typ, length, v⟩)

/-! ## constructors -/

def sumLens : List PathNlriX → Nat
  | [] => 0
  | x :: xs => nlriXLen x.n + sumLens xs

/-- NewPathAttributeMpReachNLRI(family, nlris, nextHops...) with nextHops = [nh] or [nh, ll]
    ([] = not given / invalid).  The cached length never counts ADD-PATH path identifiers. -/
def mkMpReach (afi safi : Nat) (nlris : List PathNlriX) (nh ll : Bytes) : MpReach :=
  let v6 := nh.length ≠ 0 && (afi = 2 || nh.length = 16)
  let two := v6 && isLinkLocal ll
  let nhlen := if v6 then (if two then 32 else 16) else if nh.length ≠ 0 then 4 else 0
  let nNhs := if v6 then (if two then 2 else 1) else if nh.length ≠ 0 then 1 else 0
  let l := 5 + (if safi = 133 ∨ safi = 134 then 0 else (if safi = 128 then nNhs * 8 else 0) + nhlen) + sumLens nlris
  ⟨getPathAttrFlags 14 l, l % 65536, afi, safi,
   (if nNhs ≥ 1 then nh else []), (if nNhs = 2 then ll else []), nlris⟩

/-- NewPathAttributeMpUnreachNLRI -/
def mkMpUnreach (afi safi : Nat) (nlris : List PathNlriX) : MpUnreach :=
  let l := 3 + sumLens nlris
  ⟨getPathAttrFlags 15 l, l % 65536, afi, safi, nlris⟩

end Wire
