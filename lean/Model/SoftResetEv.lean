/-
  Received events for ONE destination and how an import function turns them into Loc-RIB
  operations (propagateUpdate). Core-only: shared by Model/SoftResetWorld.lean (the compositional
  whole-speaker model) and Lemmas/SoftResetIn.lean (the import-side theorems).
-/
import Model.BestPath
namespace SoftResetIn
open BestPath

/-- one received event for a destination; only `src` and `pathId` of a withdrawn `c` matter -/
inductive Ev where
  | ann (c : Cand)
  | wd (c : Cand)

/-- an import policy keeps the route's key (source and path-id) -/
def KeyPres (f : Cand → Option Cand) : Prop :=
  ∀ c c', f c = some c' → c'.src = c.src ∧ c'.pathId = c.pathId

/-- propagateUpdate: an accepted announcement is installed as rewritten by the policy, a
    rejected one becomes a withdraw of the key -/
def opOf (f : Cand → Option Cand) : Ev → Op
  | .ann c => match f c with
    | some c' => .ann c'
    | none => .wd c
  | .wd c => .wd c

def rawOp : Ev → Op
  | .ann c => .ann c
  | .wd c => .wd c

end SoftResetIn
